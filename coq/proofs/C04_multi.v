(** C04: several sub-paths. The outline of a path is the concatenation of the outlines of its sub-paths
    (what one sub-path leaves behind in the context does not influence the next), and the winding
    numbers of the per-sub-path outlines add. *)
From Coq Require Import ZArith QArith Reals List Bool Lra Lia Psatz.
From KV Require Import Scalar RInst Geom Curves Path Affine Stroke RTac StrokeSpec C04_proofs C04_region C04_pieces C04_round C04_polyregion C04_polyfill C04_polyclosed C04_fans C04_reach.
Import ListNotations.
Local Open Scope R_scope.

Section Compose.
Context {T : Type} `{Scalar T}.
Variable st : StrokeStyle T.

(** same state up to an output prefix and up to the fields that are only read while a sub-path is open *)
Definition rel (pre : list (PathEl T)) (c c' : StrokeCtx T) : Prop :=
  cx_output c = pre ++ cx_output c' /\
  cx_forward c = cx_forward c' /\ cx_backward c = cx_backward c' /\
  cx_start_pt c = cx_start_pt c' /\ cx_last_pt c = cx_last_pt c' /\ cx_join_thresh c = cx_join_thresh c' /\
  (cx_forward c' <> [] ->
   cx_start_norm c = cx_start_norm c' /\ cx_start_tan c = cx_start_tan c' /\ cx_last_tan c = cx_last_tan c').

Ltac fin :=
  repeat split; try reflexivity;
  try (match goal with H : ?x <> ?x |- _ => exfalso; apply H; reflexivity end).

Lemma line_step_rel pre t p c c' : rel pre c c' -> rel pre (line_step st t p c) (line_step st t p c').
Proof.
  destruct c as [o f b sp sn stn lp ltn th], c' as [o' f' b' sp' sn' stn' lp' ltn' th'].
  unfold rel. cbn [cx_output cx_forward cx_backward cx_start_pt cx_start_norm cx_start_tan cx_last_pt cx_last_tan cx_join_thresh].
  intros (Ho & Hf & Hb & Hsp & Hlp & Hth & Hn). subst.
  unfold line_step, do_line, set_last_tan, do_join.
  cbn [cx_output cx_forward cx_backward cx_start_pt cx_start_norm cx_start_tan cx_last_pt cx_last_tan cx_join_thresh].
  destruct f' as [|e f'].
  - cbn. repeat split; try reflexivity.
  - destruct (Hn ltac:(discriminate)) as (-> & -> & ->).
    destruct (join_els st lp' ltn' th' t) as [[jf jb] tag].
    cbn. repeat split; reflexivity.
Qed.

Lemma finish_rel pre c c' : rel pre c c' -> rel pre (finish st c) (finish st c') /\ cx_forward (finish st c') = [].
Proof.
  destruct c as [o f b sp sn stn lp ltn th], c' as [o' f' b' sp' sn' stn' lp' ltn' th'].
  unfold rel. cbn [cx_output cx_forward cx_backward cx_start_pt cx_start_norm cx_start_tan cx_last_pt cx_last_tan cx_join_thresh].
  intros (Ho & Hf & Hb & Hsp & Hlp & Hth & Hn). subst.
  unfold finish. cbn [cx_output cx_forward cx_backward cx_start_pt cx_start_norm cx_start_tan cx_last_pt cx_last_tan cx_join_thresh].
  destruct f' as [|e f'].
  - cbn. fin.
  - destruct (Hn ltac:(discriminate)) as (-> & -> & ->).
    cbn. rewrite <- !app_assoc. fin.
Qed.

Lemma finish_closed_rel pre c c' : rel pre c c' -> rel pre (finish_closed st c) (finish_closed st c').
Proof.
  destruct c as [o f b sp sn stn lp ltn th], c' as [o' f' b' sp' sn' stn' lp' ltn' th'].
  unfold rel. cbn [cx_output cx_forward cx_backward cx_start_pt cx_start_norm cx_start_tan cx_last_pt cx_last_tan cx_join_thresh].
  intros (Ho & Hf & Hb & Hsp & Hlp & Hth & Hn). subst.
  unfold finish_closed, do_join. cbn [cx_output cx_forward cx_backward cx_start_pt cx_start_norm cx_start_tan cx_last_pt cx_last_tan cx_join_thresh].
  destruct f' as [|e f'].
  - cbn. fin.
  - destruct (Hn ltac:(discriminate)) as (-> & -> & ->).
    destruct (join_els st lp' ltn' th' stn') as [[jf jb] tag].
    cbn. rewrite <- !app_assoc. fin.
Qed.

Lemma step_rel pre c c' e d : rel pre c c' -> stroke_step st c e = Some d ->
  exists d', stroke_step st c' e = Some d' /\ rel pre d d'.
Proof.
  intros Hr. pose proof Hr as (Ho & Hf & Hb & Hsp & Hlp & Hth & Hn).
  unfold stroke_step. cbv zeta. destruct e; try discriminate.
  - intros [= <-]. eexists. split; [reflexivity|].
    destruct (finish_rel pre c c' Hr) as [(Ho1 & Hf1 & Hb1 & Hsp1 & Hlp1 & Hth1 & Hn1) Hf0].
    unfold rel. cbn. repeat split; try assumption; try reflexivity;
      try (match goal with H : _ <> [] |- _ => exfalso; apply H; exact Hf0 end).
  - rewrite Hlp. destruct (pt_neb p (cx_last_pt c')).
    + intros [= <-]. eexists. split; [reflexivity|]. rewrite <- Hlp. apply line_step_rel. exact Hr.
    + intros [= <-]. eexists. split; [reflexivity|]. exact Hr.
  - intros [= <-]. eexists. split; [reflexivity|].
    apply finish_closed_rel. rewrite Hlp, Hsp.
    destruct (pt_neb (cx_last_pt c') (cx_start_pt c')); [|exact Hr].
    apply line_step_rel. exact Hr.
Qed.

Lemma loop_rel pre els : forall c c' d, rel pre c c' -> stroke_loop st c els = Some d ->
  exists d', stroke_loop st c' els = Some d' /\ rel pre d d'.
Proof.
  induction els as [|e r IH]; intros c c' d Hr; cbn [stroke_loop].
  - intros [= <-]. eauto.
  - destruct (stroke_step st c e) as [c1|] eqn:E1; [|discriminate]. intros Hl.
    destruct (step_rel pre c c' e c1 Hr E1) as (c1' & E1' & Hr1). rewrite E1'. eapply IH; eauto.
Qed.

Lemma stroke_loop_app2 (a b : list (PathEl T)) : forall c,
  stroke_loop st c (a ++ b) = match stroke_loop st c a with Some c' => stroke_loop st c' b | None => None end.
Proof.
  induction a as [|e a IH]; intros c; cbn; [reflexivity|].
  destruct (stroke_step st c e); [apply IH | reflexivity].
Qed.

(** forward and backward paths are empty together, in every reachable state *)
Definition fb_inv (c : StrokeCtx T) : Prop := cx_forward c = [] <-> cx_backward c = [].

Lemma app_nil_iff {A} (x y : list A) (a b : A) : x = [] <-> y = [] -> (x ++ [a] = [] <-> y ++ [b] = []).
Proof. intros _. split; intros E; apply app_eq_nil in E; destruct E; discriminate. Qed.

Lemma line_step_fb t p c : fb_inv c -> fb_inv (line_step st t p c).
Proof.
  unfold fb_inv, line_step, do_line, set_last_tan, do_join. intros _.
  destruct (cx_forward c); [|destruct (join_els st _ _ _ _) as [[? ?] ?]]; cbn;
    split; intros E; try discriminate; repeat (apply app_eq_nil in E; destruct E as [E ?]); try discriminate.
Qed.

Lemma finish_fb c : fb_inv c -> fb_inv (finish st c) /\ cx_forward (finish st c) = [] /\ cx_backward (finish st c) = [].
Proof.
  unfold fb_inv, finish. intros Hi. destruct (cx_forward c) eqn:E; cbn; [|tauto].
  rewrite E. split; [exact Hi|]. split; [reflexivity | apply Hi; reflexivity].
Qed.

Lemma finish_closed_fb c : fb_inv c -> fb_inv (finish_closed st c).
Proof. unfold fb_inv, finish_closed. intros Hi. destruct (cx_forward c) eqn:E; cbn; [rewrite E; exact Hi | tauto]. Qed.

Lemma step_fb c e d : fb_inv c -> stroke_step st c e = Some d -> fb_inv d.
Proof.
  intros Hi. unfold stroke_step. destruct e; try discriminate.
  - intros [= <-]. destruct (finish_fb c Hi) as (_ & Ef & Eb). unfold fb_inv. cbn. rewrite Ef, Eb. tauto.
  - destruct (pt_neb _ _); intros [= <-]; [apply line_step_fb; exact Hi | exact Hi].
  - intros [= <-]. apply finish_closed_fb. destruct (pt_neb _ _); [apply line_step_fb; exact Hi | exact Hi].
Qed.

Lemma loop_fb els : forall c d, fb_inv c -> stroke_loop st c els = Some d -> fb_inv d.
Proof.
  induction els as [|e r IH]; intros c d Hi; cbn [stroke_loop]; [intros [= <-]; exact Hi|].
  destruct (stroke_step st c e) eqn:E; [|discriminate]. intros Hl. eapply IH; [eapply step_fb; eauto | exact Hl].
Qed.

Lemma line_step_thresh t p c : cx_join_thresh (line_step st t p c) = cx_join_thresh c.
Proof.
  unfold line_step, do_line, set_last_tan, do_join.
  destruct (cx_forward c); [reflexivity|]. destruct (join_els st _ _ _ _) as [[? ?] ?]. reflexivity.
Qed.
Lemma finish_thresh c : cx_join_thresh (finish st c) = cx_join_thresh c.
Proof. unfold finish. destruct (cx_forward c); reflexivity. Qed.
Lemma finish_closed_thresh c : cx_join_thresh (finish_closed st c) = cx_join_thresh c.
Proof.
  unfold finish_closed, do_join. destruct (cx_forward c); [reflexivity|].
  destruct (join_els st _ _ _ _) as [[? ?] ?]. reflexivity.
Qed.

Lemma step_thresh c e d : stroke_step st c e = Some d -> cx_join_thresh d = cx_join_thresh c.
Proof.
  unfold stroke_step. cbv zeta. destruct e; try discriminate.
  - intros [= <-]. cbn [cx_join_thresh]. apply finish_thresh.
  - destruct (pt_neb _ _); intros [= <-]; [apply line_step_thresh | reflexivity].
  - intros [= <-]. rewrite finish_closed_thresh. destruct (pt_neb _ _); [apply line_step_thresh | reflexivity].
Qed.

Lemma loop_thresh els : forall c d, stroke_loop st c els = Some d -> cx_join_thresh d = cx_join_thresh c.
Proof.
  induction els as [|e r IH]; intros c d; cbn [stroke_loop]; [intros [= <-]; reflexivity|].
  destruct (stroke_step st c e) eqn:E; [|discriminate]. intros Hl. rewrite (IH _ _ Hl). eapply step_thresh; eauto.
Qed.

(** the outline of A followed by a sub-path starting with MoveTo is the concatenation of the outlines *)
Theorem stroke_concat tol A p B oa ob :
  stroke_undashed A st tol = Some oa -> stroke_undashed (MoveTo p :: B) st tol = Some ob ->
  stroke_undashed (A ++ MoveTo p :: B) st tol = Some (oa ++ ob).
Proof.
  unfold stroke_undashed. rewrite stroke_loop_app2.
  destruct (stroke_loop st (ctx_init st tol) A) as [cA|] eqn:EA; [|discriminate].
  intros [= <-]. cbn [stroke_loop].
  assert (Hi : fb_inv cA) by (eapply loop_fb; [|exact EA]; unfold fb_inv; cbn; tauto).
  destruct (finish_fb cA Hi) as (_ & Ff & Fb).
  destruct (stroke_step st cA (MoveTo p)) as [c1|] eqn:E1; [|discriminate E1].
  destruct (stroke_step st (ctx_init st tol) (MoveTo p)) as [c1'|] eqn:E1'; [|discriminate E1'].
  assert (Hr : rel (cx_output (finish st cA)) c1 c1').
  { cbn in E1, E1'. injection E1 as <-. injection E1' as <-. unfold rel. cbn. rewrite app_nil_r, Ff, Fb.
    pose proof (loop_thresh A _ _ EA) as Ht. cbn in Ht.
    repeat split; try reflexivity;
      try (match goal with H : ?x <> ?x |- _ => exfalso; apply H; reflexivity end).
    rewrite finish_thresh. exact Ht. }
  destruct (stroke_loop st c1' B) as [cB'|] eqn:EB; [|discriminate].
  intros [= <-].
  destruct (stroke_loop st c1 B) as [cB|] eqn:EBa.
  - destruct (loop_rel _ B c1 c1' cB Hr EBa) as (d' & Ed' & Hrd). rewrite EB in Ed'. injection Ed' as <-.
    destruct (finish_rel _ cB cB' Hrd) as [(Ho & _) _]. rewrite Ho. reflexivity.
  - exfalso. (* the loop is total on both sides or on neither: same elements *)
    clear - EB EBa Hr. revert c1 c1' Hr EB EBa. induction B as [|e r IH]; intros c1 c1' Hr; cbn [stroke_loop]; [discriminate|].
    destruct (stroke_step st c1' e) as [d'|] eqn:E'; [|discriminate].
    destruct (stroke_step st c1 e) as [d|] eqn:E.
    + destruct (step_rel _ c1 c1' e d Hr E) as (d2 & E2 & Hr2). rewrite E' in E2. injection E2 as <-.
      intros. eapply IH; eauto.
    + destruct e; cbn in E, E'; try discriminate;
        repeat match goal with H : context [if ?b then _ else _] |- _ => destruct b end; discriminate.
Qed.
End Compose.

(** ** winding numbers of concatenated outlines add *)
Lemma wn_from_app_move (q : Point R) a : forall s l p b,
  outline_wn_from s l (a ++ MoveTo p :: b) q = (outline_wn_from s l a q + outline_wn_from p p b q)%Z.
Proof.
  induction a as [|e a IH]; intros s l p b.
  - cbn [app outline_wn_from]. reflexivity.
  - destruct e; cbn [app outline_wn_from el_end]; rewrite IH; ring.
Qed.

Lemma wn_app_move (q : Point R) a p b :
  outline_wn (a ++ MoveTo p :: b) q = (outline_wn a q + outline_wn (MoveTo p :: b) q)%Z.
Proof.
  unfold outline_wn. rewrite wn_from_app_move. cbn [outline_wn_from]. rewrite edge_w_self. ring.
Qed.

Lemma wn_nil (q : Point R) : outline_wn [] q = 0%Z.
Proof. unfold outline_wn. cbn. apply edge_w_self. Qed.

(** ** paths made of several polyline sub-paths *)
Record subpath := mkSub { sub_start : Point R; sub_pts : list (Point R); sub_closed : bool }.

Definition sub_els (s : subpath) : list (PathEl R) :=
  MoveTo (sub_start s) :: map (@LineTo R) (sub_pts s) ++ (if sub_closed s then [ClosePath] else []).

Definition path_els (subs : list subpath) : list (PathEl R) := flat_map sub_els subs.

Definition sub_walk (s : subpath) : list (Point R) :=
  if sub_closed s then sub_pts s ++ [sub_start s] else sub_pts s.

(** the non-degenerate edges of a sub-path (the closing edge included) *)
Definition sub_edges (s : subpath) : list (Point R * Point R) :=
  match first_edge (sub_start s) (sub_walk s) with
  | Some (p1, r) => (sub_start s, p1) :: poly_edges p1 r
  | None => []
  end.

Lemma sub_els_poly s : Forall (@is_poly_el R) (sub_els s).
Proof.
  unfold sub_els. constructor; [exact I|]. apply Forall_app_intro.
  - induction (sub_pts s); constructor; [exact I | assumption].
  - destruct (sub_closed s); repeat constructor.
Qed.

Lemma path_els_poly subs : Forall (@is_poly_el R) (path_els subs).
Proof.
  induction subs as [|s r IH]; [constructor|].
  change (path_els (s :: r)) with (sub_els s ++ path_els r). apply Forall_app_intro; [apply sub_els_poly | exact IH].
Qed.

Lemma path_els_head subs : path_els subs = [] \/ exists p B, path_els subs = MoveTo p :: B.
Proof. destruct subs as [|s r]; [left; reflexivity|]. right. cbn. unfold sub_els. eauto. Qed.

(** the outline of the whole path: outlines of the sub-paths, one after the other *)
Lemma stroke_subs_cons st tol s rest out :
  stroke_undashed (path_els (s :: rest)) st tol = Some out ->
  exists o1 o2, stroke_undashed (sub_els s) st tol = Some o1 /\ stroke_undashed (path_els rest) st tol = Some o2 /\
                out = o1 ++ o2 /\ (o2 = [] \/ exists p B, path_els rest = MoveTo p :: B).
Proof.
  intros Hout.
  destruct (stroke_defined_on_polylines st (sub_els s) tol (sub_els_poly s)) as (o1 & E1).
  destruct (stroke_defined_on_polylines st (path_els rest) tol (path_els_poly rest)) as (o2 & E2).
  exists o1, o2. split; [exact E1|]. split; [exact E2|].
  change (path_els (s :: rest)) with (sub_els s ++ path_els rest) in Hout.
  destruct (path_els_head rest) as [En|(p & B & Ep)].
  - rewrite En in *. rewrite app_nil_r in Hout. rewrite E1 in Hout. injection Hout as <-.
    cbn in E2. injection E2 as <-. split; [rewrite app_nil_r; reflexivity | left; reflexivity].
  - rewrite Ep in *. rewrite (stroke_concat st tol (sub_els s) p B o1 o2 E1 E2) in Hout. injection Hout as <-.
    split; [reflexivity | right; eauto].
Qed.

Lemma stroke_starts_with_move st tol p B o : stroke_undashed (MoveTo p :: B) st tol = Some o ->
  sk_start_cap st <> CapRound -> o = [] \/ exists p' o', o = MoveTo p' :: o'.
Proof.
  intros E Hc. pose proof (stroke_contours_closed_any_scalar st _ tol o Hc E) as CC.
  inversion CC; [left; reflexivity | right; eauto].
Qed.

Lemma wn_concat_out st tol (q : Point R) rest o1 o2 : sk_start_cap st <> CapRound ->
  stroke_undashed (path_els rest) st tol = Some o2 ->
  outline_wn (o1 ++ o2) q = (outline_wn o1 q + outline_wn o2 q)%Z.
Proof.
  intros Hc E2. destruct (path_els_head rest) as [En|(p & B & Ep)].
  - rewrite En in E2. cbn in E2. injection E2 as <-. rewrite app_nil_r, wn_nil. ring.
  - rewrite Ep in E2. destruct (stroke_starts_with_move st tol p B o2 E2 Hc) as [->|(p' & o' & ->)].
    + rewrite app_nil_r, wn_nil. ring.
    + apply wn_app_move.
Qed.

(** ** (3) the outer bound for a whole path: no style with round parts excluded by hypothesis only *)
Section MultiReach.
Variable st : StrokeStyle R.
Hypothesis Hw : 0 < sk_width st.
Hypothesis Hjoin : sk_join st <> JoinRound.
Hypothesis Hsc : sk_start_cap st <> CapRound.
Hypothesis Hec : sk_end_cap st <> CapRound.
Variable q : Point R.

Lemma sub_reach tol s o : stroke_undashed (sub_els s) st tol = Some o ->
  (forall a b, In (a, b) (sub_edges s) -> seg_far a b q (reach2 st)) -> outline_wn o q = 0%Z.
Proof.
  destruct s as [p0 ps closed]. unfold sub_els, sub_edges, sub_walk. cbn [sub_start sub_pts sub_closed].
  destruct closed.
  - destruct (first_edge p0 (ps ++ [p0])) as [[p1 r]|] eqn:E.
    + intros Ho Hfar. exact (closed_reach_thm st Hw Hjoin q tol p0 ps p1 r o E Ho Hfar).
    + rewrite closed_polyline_outline_thm, E. intros [= <-] _. apply wn_nil.
  - rewrite app_nil_r. destruct (first_edge p0 ps) as [[p1 r]|] eqn:E.
    + intros Ho Hfar. exact (open_reach_thm st Hw Hjoin q Hsc Hec tol p0 ps p1 r o E Ho Hfar).
    + rewrite open_polyline_outline_thm, E. intros [= <-] _. apply wn_nil.
Qed.

Theorem path_reach_thm tol subs : forall out,
  stroke_undashed (path_els subs) st tol = Some out ->
  (forall a b, In (a, b) (flat_map sub_edges subs) -> seg_far a b q (reach2 st)) ->
  outline_wn out q = 0%Z.
Proof.
  induction subs as [|s rest IH]; intros out Hout Hfar.
  - cbn in Hout. injection Hout as <-. apply wn_nil.
  - destruct (stroke_subs_cons st tol s rest out Hout) as (o1 & o2 & E1 & E2 & -> & _).
    rewrite (wn_concat_out st tol q rest o1 o2 Hsc E2).
    rewrite (sub_reach tol s o1 E1), (IH o2 E2); [reflexivity| |];
      intros a b Hin; apply Hfar; cbn [flat_map]; apply in_or_app; [right|left]; exact Hin.
Qed.
End MultiReach.

(** ** (1) the region statement for a whole path: bevel joins, butt caps, repaired join, no join skipped *)
Definition region3 (w : R) (E : list (Point R * Point R)) (o : list (PathEl R)) (q : Point R) : Prop :=
  (forall a b, In (a, b) E -> 0 < foot_par a b q < 1 -> -1 < rel_dist w a b q < 1 -> (1 <= outline_wn o q)%Z) /\
  ((forall a b, In (a, b) E -> seg_far a b q ((w / 2) * (w / 2))) -> outline_wn o q = 0%Z) /\
  (0 <= outline_wn o q)%Z.

Lemma region3_app w E1 E2 o1 o2 q : outline_wn (o1 ++ o2) q = (outline_wn o1 q + outline_wn o2 q)%Z ->
  region3 w E1 o1 q -> region3 w E2 o2 q -> region3 w (E1 ++ E2) (o1 ++ o2) q.
Proof.
  intros Hadd (C1 & F1 & N1) (C2 & F2 & N2). unfold region3. rewrite Hadd. split; [|split].
  - intros a b Hin Ha Hb. apply in_app_or in Hin. destruct Hin as [Hin|Hin].
    + specialize (C1 a b Hin Ha Hb). lia.
    + specialize (C2 a b Hin Ha Hb). lia.
  - intros Hfar. rewrite F1, F2; [reflexivity| |]; intros a b Hin; apply Hfar; apply in_or_app; [right|left]; exact Hin.
  - lia.
Qed.

(** every turn of the sub-path (the closing one included) passes the join test *)
Definition sub_emitted (st : StrokeStyle R) (tol : R) (s : subpath) : Prop :=
  match first_edge (sub_start s) (sub_walk s) with
  | Some (p1, r) =>
      let t1 := vec (sub_start s) p1 in let th := 2 * tol / sk_width st in
      all_emitted th p1 t1 r /\ (sub_closed s = true -> emitted (snd (last_state p1 t1 r)) t1 th)
  | None => True
  end.

Section MultiRegion.
Variable st : StrokeStyle R.
Hypothesis Hw : 0 < sk_width st.
Hypothesis Hbevel : sk_join st = JoinBevel.
Hypothesis Hpivot : sk_inner_pivot st = true.
Hypothesis Hsc : sk_start_cap st = CapButt.
Hypothesis Hec : sk_end_cap st = CapButt.
Variable q : Point R.

Lemma sub_region tol s o : stroke_undashed (sub_els s) st tol = Some o -> sub_emitted st tol s ->
  region3 (sk_width st) (sub_edges s) o q.
Proof.
  destruct s as [p0 ps closed]. unfold sub_els, sub_edges, sub_emitted, sub_walk. cbn [sub_start sub_pts sub_closed].
  destruct closed.
  - destruct (first_edge p0 (ps ++ [p0])) as [[p1 r]|] eqn:E.
    + intros Ho (Ha & Hc). exact (closed_polyline_region_thm st q Hw Hbevel Hpivot tol p0 ps p1 r o E Ha (Hc eq_refl) Ho).
    + rewrite closed_polyline_outline_thm, E. intros [= <-] _. unfold region3. rewrite wn_nil.
      split; [intros a b []|]. split; [reflexivity | lia].
  - rewrite app_nil_r. destruct (first_edge p0 ps) as [[p1 r]|] eqn:E.
    + intros Ho (Ha & _). exact (open_polyline_region_thm st q Hw Hbevel Hpivot Hsc Hec tol p0 ps p1 r o E Ha Ho).
    + rewrite open_polyline_outline_thm, E. intros [= <-] _. unfold region3. rewrite wn_nil.
      split; [intros a b []|]. split; [reflexivity | lia].
Qed.

Theorem path_region_thm tol subs : forall out,
  stroke_undashed (path_els subs) st tol = Some out -> Forall (sub_emitted st tol) subs ->
  region3 (sk_width st) (flat_map sub_edges subs) out q.
Proof.
  induction subs as [|s rest IH]; intros out Hout Hem.
  - cbn in Hout. injection Hout as <-. unfold region3. rewrite wn_nil. cbn.
    split; [intros a b []|]. split; [reflexivity | lia].
  - inversion Hem as [|? ? Hs Hr]; subst.
    destruct (stroke_subs_cons st tol s rest out Hout) as (o1 & o2 & E1 & E2 & -> & _).
    cbn [flat_map]. apply region3_app.
    + apply (wn_concat_out st tol q rest o1 o2); [rewrite Hsc; discriminate | exact E2].
    + apply (sub_region tol); assumption.
    + apply IH; assumption.
Qed.
End MultiRegion.
