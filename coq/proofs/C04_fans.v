(** C04: closed polygons that stay on one side of a line through q do not wind around q; hence a closed
    polygon all of whose vertices are within R of an end point of a segment does not wind around any q
    farther than R from the segment. Crossing-number winding, real instance. *)
From Coq Require Import ZArith QArith Reals List Bool Lra Lia Psatz.
From KV Require Import Scalar RInst Geom Curves Path Affine Stroke RTac StrokeSpec C04_proofs C04_region C04_pieces C04_round C04_polyregion C04_polyfill.
Import ListNotations.
Local Open Scope R_scope.

(** three collinear points: the degenerate triangle has no winding, anywhere *)
Lemma tri_collinear_terms (qy ay u S lam : R) :
  (edge_term qy ay (ay + u) S + edge_term qy (ay + u) (ay + lam * u) ((lam - 1) * S) +
   edge_term qy (ay + lam * u) ay (- lam * S))%Z = 0%Z.
Proof.
  unfold edge_term.
  assert (Cu : u < 0 \/ u = 0 \/ 0 < u) by lra.
  assert (Cs : S < 0 \/ S = 0 \/ 0 < S) by lra.
  assert (Cl : lam < 0 \/ lam = 0 \/ 0 < lam < 1 \/ lam = 1 \/ 1 < lam) by lra.
  destruct Cu as [Hu|[Hu|Hu]]; destruct Cs as [Hs|[Hs|Hs]]; destruct Cl as [Hl|[Hl|[Hl|[Hl|Hl]]]];
    sign_of (lam * u); sign_of (u - lam * u); sign_of ((lam - 1) * S); sign_of (- lam * S);
    set (a := lam * u) in *; set (S2 := (lam - 1) * S) in *; set (S3 := - lam * S) in *;
    dec_tests; cbn; try reflexivity; exfalso; lra.
Qed.

Section Fans.
Variable q : Point R.
Notation ee := (e q).

Lemma tri_collinear a b c : rcross (vec a b) (vec a c) = 0 -> (ee a b + ee b c + ee c a)%Z = 0%Z.
Proof.
  intros HX.
  destruct a as [ax ay], b as [bx by_], c as [cx cy], q as [qx qy] eqn:Eq.
  unfold rcross, vec in HX. cbn [px py vx vy] in HX.
  set (dx := bx - ax) in *. set (dy := by_ - ay) in *.
  destruct (Req_dec (dx * dx + dy * dy) 0) as [Hz|Hnz].
  - (* a = b *)
    assert (dx = 0) by nra. assert (dy = 0) by nra.
    assert (bx = ax) by (unfold dx in *; lra). assert (by_ = ay) by (unfold dy in *; lra). subst bx by_.
    rewrite e_self. pose proof (e_antisym (mkPoint qx qy) (mkPoint ax ay) (mkPoint cx cy)). rewrite <- Eq in *. lia.
  - set (lam := ((cx - ax) * dx + (cy - ay) * dy) / (dx * dx + dy * dy)).
    assert (El : lam * (dx * dx + dy * dy) = (cx - ax) * dx + (cy - ay) * dy) by (unfold lam; field; exact Hnz).
    assert (Hcx : cx = ax + lam * dx).
    { assert (Z : (cx - ax - lam * dx) * (dx * dx + dy * dy) = 0).
      { replace ((cx - ax - lam * dx) * (dx * dx + dy * dy))
          with ((cx - ax) * (dx * dx + dy * dy) - (lam * (dx * dx + dy * dy)) * dx) by ring.
        rewrite El. replace ((cx - ax) * (dx * dx + dy * dy) - ((cx - ax) * dx + (cy - ay) * dy) * dx)
          with (- dy * (dx * (cy - ay) - dy * (cx - ax))) by ring. rewrite HX. ring. }
      apply Rmult_integral in Z. destruct Z; lra. }
    assert (Hcy : cy = ay + lam * dy).
    { assert (Z : (cy - ay - lam * dy) * (dx * dx + dy * dy) = 0).
      { replace ((cy - ay - lam * dy) * (dx * dx + dy * dy))
          with ((cy - ay) * (dx * dx + dy * dy) - (lam * (dx * dx + dy * dy)) * dy) by ring.
        rewrite El. replace ((cy - ay) * (dx * dx + dy * dy) - ((cx - ax) * dx + (cy - ay) * dy) * dy)
          with (dx * (dx * (cy - ay) - dy * (cx - ax))) by ring. rewrite HX. ring. }
      apply Rmult_integral in Z. destruct Z; lra. }
    unfold e. rewrite !edge_w_term. cbn [px py].
    rewrite <- (tri_collinear_terms qy ay dy (dx * (qy - ay) - dy * (qx - ax)) lam).
    f_equal; [f_equal|]; apply edge_term_ext; try reflexivity; try (rewrite ?Hcx, ?Hcy; unfold dx, dy; ring).
Qed.

(** q on the far side of a line from all three vertices *)
Definition hp (n : Vec2 R) (v : Point R) : Prop := 0 < rdot n (vec q v).

Lemma tri_halfplane_pos n P a b : 0 < rcross a b ->
  hp n P -> hp n (padd P a) -> hp n (padd P b) ->
  (ee P (padd P a) + ee (padd P a) (padd P b) + ee (padd P b) P)%Z = 0%Z.
Proof.
  intros HK H0 H1 H2.
  set (K := rcross a b) in *.
  set (al := rcross (vec P q) b / K). set (be := rcross a (vec P q) / K).
  destruct P as [x y], q as [qx qy] eqn:Eq, a as [ax ay], b as [bx by_], n as [nx ny].
  unfold hp in *. rewrite Eq in *.
  unfold e. rewrite !edge_w_term. unfold padd, vec, rcross, rdot in *. cbn [px py vx vy] in *.
  pose proof (tri_wn y ay by_ al be K HK) as TW. cbv zeta in TW.
  assert (Hq : qy = y + al * ay + be * by_) by (unfold al, be, K; field; unfold K in HK; lra).
  assert (Hqx : qx = x + al * ax + be * bx) by (unfold al, be, K; field; unfold K in HK; lra).
  destruct TW as (_ & Tout & _).
  match goal with |- ?T = 0%Z => set (TT := T) end.
  match type of Tout with _ -> ?T = 0%Z => set (T0 := T) in Tout end.
  assert (ET : TT = T0).
  { unfold TT, T0. f_equal; [f_equal|]; (apply edge_term_ext; [exact Hq | ring | ring | rewrite Hq, Hqx; unfold K; ring]). }
  rewrite ET. apply Tout.
  destruct (Rlt_dec al 0) as [|Na]; [left; assumption|].
  destruct (Rlt_dec be 0) as [|Nb]; [right; left; assumption|].
  destruct (Rlt_dec 1 (al + be)) as [|Ns]; [right; right; assumption|]. exfalso.
  set (h0 := nx * (x - qx) + ny * (y - qy)) in *.
  set (na := nx * ax + ny * ay). set (nb := nx * bx + ny * by_).
  assert (E1 : nx * (x + ax - qx) + ny * (y + ay - qy) = h0 + na) by (unfold h0, na; ring).
  assert (E2 : nx * (x + bx - qx) + ny * (y + by_ - qy) = h0 + nb) by (unfold h0, nb; ring).
  assert (E0 : h0 + al * na + be * nb = 0) by (unfold h0, na, nb; rewrite Hqx, Hq; ring).
  rewrite E1 in H1. rewrite E2 in H2.
  assert (0 <= al) by lra. assert (0 <= be) by lra. assert (0 <= 1 - al - be) by lra.
  assert (Z : (1 - al - be) * h0 + al * (h0 + na) + be * (h0 + nb) = 0) by (rewrite <- E0; ring).
  assert (0 <= (1 - al - be) * h0) by nra. assert (0 <= al * (h0 + na)) by nra. assert (0 <= be * (h0 + nb)) by nra.
  assert (C3 : 1 / 3 <= 1 - al - be \/ 1 / 3 <= al \/ 1 / 3 <= be) by lra.
  destruct C3 as [C|[C|C]]; nra.
Qed.

Lemma tri_halfplane n a b c : hp n a -> hp n b -> hp n c -> (ee a b + ee b c + ee c a)%Z = 0%Z.
Proof.
  intros Ha Hb Hc.
  destruct (Rtotal_order (rcross (vec a b) (vec a c)) 0) as [Hn|[Hz|Hp]].
  - (* negative orientation: reverse *)
    assert (Hp : 0 < rcross (vec a c) (vec a b)) by (unfold rcross in *; lra).
    pose proof (tri_halfplane_pos n a (vec a c) (vec a b) Hp Ha) as T. rewrite !padd_vec in T. specialize (T Hc Hb).
    pose proof (e_antisym q a b). pose proof (e_antisym q b c). pose proof (e_antisym q c a). lia.
  - apply tri_collinear; exact Hz.
  - pose proof (tri_halfplane_pos n a (vec a b) (vec a c) Hp Ha) as T. rewrite !padd_vec in T. exact (T Hb Hc).
Qed.

(** a closed polygon v0, vs on one side of a line through q *)
Definition closed_chain (v0 : Point R) (vs : list (Point R)) : Z := (chain_from q v0 vs + ee (last vs v0) v0)%Z.

Lemma poly_halfplane n v0 vs : hp n v0 -> Forall (hp n) vs -> closed_chain v0 vs = 0%Z.
Proof.
  intros H0 Hvs. unfold closed_chain. destruct vs as [|v1 r]; [cbn; rewrite e_self; reflexivity|].
  inversion Hvs as [|? ? H1 Hr]; subst. clear Hvs.
  revert v1 H1. induction r as [|v2 r IH]; intros v1 H1.
  - cbn. pose proof (e_antisym q v0 v1). lia.
  - inversion Hr as [|? ? H2 Hr']; subst.
    specialize (IH Hr' v2 H2). rewrite !last_cons in *. cbn [chain_from] in *.
    pose proof (tri_halfplane n v0 v1 v2 H0 H1 H2). pose proof (e_antisym q v0 v2). lia.
Qed.

(** separation: everything within R of an end point of a segment lies beyond a line through q when q is
    farther than R from the segment *)
Lemma cauchy_dot (nx ny rx ry N r2 : R) : nx * nx + ny * ny = N -> rx * rx + ry * ry <= r2 -> r2 < N ->
  0 < nx * rx + ny * ry + N.
Proof.
  intros HN Hr Hlt.
  assert (Hc : (nx * rx + ny * ry) * (nx * rx + ny * ry) <= N * (rx * rx + ry * ry)).
  { rewrite <- HN. pose proof (Rle_0_sqr (nx * ry - ny * rx)) as Q. unfold Rsqr in Q. nra. }
  assert (0 <= rx * rx + ry * ry) by nra. assert (0 < N) by lra.
  destruct (Rle_dec 0 (nx * rx + ny * ry)); [lra|].
  assert ((nx * rx + ny * ry) * (nx * rx + ny * ry) < N * N) by nra. nra.
Qed.

Lemma lerp_1 (a b : Point R) : lerp a b 1 = b.
Proof. destruct a, b. unfold lerp; cbn. f_equal; ring. Qed.

Lemma nearest_on_segment a b R2 : seg_far a b q R2 ->
  exists f, R2 < dist2 q f /\ 0 <= rdot (vec q f) (vec f a) /\ 0 <= rdot (vec q f) (vec f b).
Proof.
  intros Hfar.
  destruct (Rle_dec (rdot (vec a q) (vec a b)) 0) as [C1|C1].
  - exists a. split; [rewrite <- (lerp_0 a b); apply Hfar; lra|].
    destruct a as [ax ay], b as [bx by_], q as [qx qy]. unfold rdot, vec in *; cbn [px py vx vy] in *. split; nra.
  - destruct (Rle_dec (rdot (vec b q) (vec b a)) 0) as [C2|C2].
    + exists b. split; [rewrite <- (lerp_1 a b); apply Hfar; lra|].
      destruct a as [ax ay], b as [bx by_], q as [qx qy]. unfold rdot, vec in *; cbn [px py vx vy] in *. split; nra.
    + set (L2 := rdot (vec a b) (vec a b)).
      assert (HL : 0 < L2).
      { destruct a as [ax ay], b as [bx by_], q as [qx qy]. unfold L2, rdot, vec in *; cbn [px py vx vy] in *.
        destruct (Req_dec (bx - ax) 0); destruct (Req_dec (by_ - ay) 0); nra. }
      set (tau := rdot (vec a q) (vec a b) / L2).
      assert (Ht : tau * L2 = rdot (vec a q) (vec a b)) by (unfold tau; field; lra).
      assert (Ht01 : 0 <= tau <= 1).
      { destruct a as [ax ay], b as [bx by_], q as [qx qy]. unfold L2, rdot, vec in *; cbn [px py vx vy] in *.
        split; [apply Rlt_le; apply (Rmult_lt_reg_r L2); unfold L2, rdot, vec in *; cbn [vx vy] in *; nra|].
        apply Rlt_le. apply (Rmult_lt_reg_r ((bx - ax) * (bx - ax) + (by_ - ay) * (by_ - ay))); [exact HL|]. nra. }
      exists (lerp a b tau). split; [apply Hfar; exact Ht01|].
      destruct a as [ax ay], b as [bx by_], q as [qx qy]. unfold L2, lerp, rdot, vec in *; cbn [px py vx vy] in *.
      set (dx := bx - ax) in *. set (dy := by_ - ay) in *.
      assert (Hperp : (ax + tau * dx - qx) * dx + (ay + tau * dy - qy) * dy = 0) by nra.
      split.
      * replace ((ax + tau * dx - qx) * (ax - (ax + tau * dx)) + (ay + tau * dy - qy) * (ay - (ay + tau * dy)))
          with (- tau * ((ax + tau * dx - qx) * dx + (ay + tau * dy - qy) * dy)) by ring. rewrite Hperp. lra.
      * replace ((ax + tau * dx - qx) * (bx - (ax + tau * dx)) + (ay + tau * dy - qy) * (by_ - (ay + tau * dy)))
          with ((1 - tau) * ((ax + tau * dx - qx) * dx + (ay + tau * dy - qy) * dy)) by (unfold dx, dy; ring). rewrite Hperp. lra.
Qed.

Lemma separate a b R2 : seg_far a b q R2 ->
  exists n, forall x, dist2 x a <= R2 \/ dist2 x b <= R2 -> hp n x.
Proof.
  intros Hfar. destruct (nearest_on_segment a b R2 Hfar) as (f & Hd & Ha & Hb).
  exists (vec q f). intros x Hx. unfold hp.
  destruct a as [ax ay], b as [bx by_], q as [qx qy], f as [fx fy], x as [xx xy].
  unfold dist2, rdot, vec in *; cbn [px py vx vy] in *.
  set (nx := fx - qx) in *. set (ny := fy - qy) in *.
  assert (HN : nx * nx + ny * ny = (qx - fx) * (qx - fx) + (qy - fy) * (qy - fy)) by (unfold nx, ny; ring).
  destruct Hx as [Hx|Hx].
  - pose proof (cauchy_dot nx ny (xx - ax) (xy - ay) _ R2 HN Hx Hd) as C.
    replace (nx * (xx - qx) + ny * (xy - qy))
      with ((nx * (xx - ax) + ny * (xy - ay) + ((qx - fx) * (qx - fx) + (qy - fy) * (qy - fy))) + (nx * (ax - fx) + ny * (ay - fy)))
      by (unfold nx, ny; ring). lra.
  - pose proof (cauchy_dot nx ny (xx - bx) (xy - by_) _ R2 HN Hx Hd) as C.
    replace (nx * (xx - qx) + ny * (xy - qy))
      with ((nx * (xx - bx) + ny * (xy - by_) + ((qx - fx) * (qx - fx) + (qy - fy) * (qy - fy))) + (nx * (bx - fx) + ny * (by_ - fy)))
      by (unfold nx, ny; ring). lra.
Qed.

(** the working form: a closed polygon near the end points of a segment, q far from the segment *)
Theorem poly_far a b R2 v0 vs : seg_far a b q R2 ->
  (forall x, In x (v0 :: vs) -> dist2 x a <= R2 \/ dist2 x b <= R2) -> closed_chain v0 vs = 0%Z.
Proof.
  intros Hfar Hall. destruct (separate a b R2 Hfar) as (n & Hn).
  apply (poly_halfplane n).
  - apply Hn, Hall. left; reflexivity.
  - apply Forall_forall. intros x Hx. apply Hn, Hall. right; exact Hx.
Qed.
End Fans.
