(** C15, quartic factoring over the reals: whenever [factor_quartic_inner] (non-rescaled call)
    returns two quadratics, their product is the quartic -- PROVIDED the value phi returned by
    [depressed_cubic_dominant] is an exact root of the resolvent cubic t^3 + g t + h (the only
    remaining named hypothesis), d_2 is zero or not "negligible", and in the d_2 = 0 branch
    d - l_3^2 <= 0 (the float code takes the square root of its negation: NaN otherwise). *)
From Coq Require Import ZArith QArith Reals List Bool Lra Lia.
From KV Require Import Scalar RInst Solvers RTac C15_proofs.
Import ListNotations.
Local Open Scope R_scope.

(** * eps_rel and the error sums *)
Lemma eps_rel_nonneg (raw a : R) : 0 <= eps_rel raw a.
Proof. unfold eps_rel. rs_unfold. destruct (Reqb a 0); apply Rabs_pos. Qed.

Lemma eps_rel_exact (a : R) : eps_rel a a = 0.
Proof.
  unfold eps_rel. rs_unfold. destruct (Reqb_spec a 0) as [->|Ha].
  - apply Rabs_R0.
  - replace ((a - a) / a) with 0 by (field; exact Ha). apply Rabs_R0.
Qed.

Lemma calc_eps_q_nonneg (a b c a1 b1 a2 b2 : R) : 0 <= calc_eps_q a b c a1 b1 a2 b2.
Proof.
  unfold calc_eps_q. change (@fadd R RS) with Rplus.
  repeat apply Rplus_le_le_0_compat; apply eps_rel_nonneg.
Qed.

Lemma calc_eps_q_exact (a b c a1 b1 a2 b2 : R) :
  a1 + a2 = a -> b1 + a1 * a2 + b2 = b -> b1 * a2 + a1 * b2 = c -> calc_eps_q a b c a1 b1 a2 b2 = 0.
Proof.
  intros H1 H2 H3. unfold calc_eps_q. change (@fadd R RS) with Rplus. change (@fmul R RS) with Rmult.
  rewrite H1, H2, H3, !eps_rel_exact. ring.
Qed.

Lemma calc_eps_t_exact (a b c d a1 b1 a2 b2 : R) :
  a1 + a2 = a -> b1 + a1 * a2 + b2 = b -> b1 * a2 + a1 * b2 = c -> b1 * b2 = d ->
  calc_eps_t a b c d a1 b1 a2 b2 = 0.
Proof.
  intros H1 H2 H3 H4. unfold calc_eps_t. rewrite calc_eps_q_exact by assumption.
  change (@fadd R RS) with Rplus. change (@fmul R RS) with Rmult. rewrite H4, eps_rel_exact. ring.
Qed.

(** the product of the two quadratics, from the four coefficient identities *)
Definition quartic_factors_exact (a b c d : R) (qs : (R * R) * (R * R)) : Prop :=
  let '((a1, b1), (a2, b2)) := qs in
  forall x, x * x * x * x + a * (x * x * x) + b * (x * x) + c * x + d
            = (x * x + a1 * x + b1) * (x * x + a2 * x + b2).

Lemma factors_from_coefficients (a b c d a1 b1 a2 b2 : R) :
  a1 + a2 = a -> b1 + a1 * a2 + b2 = b -> b1 * a2 + a1 * b2 = c -> b1 * b2 = d ->
  quartic_factors_exact a b c d ((a1, b1), (a2, b2)).
Proof. intros <- <- <- <-. intro x. ring. Qed.

(** the Newton polish leaves an exact factorisation alone ([eps_t == 0.0 => break]) *)
Lemma fq_newton_zero (n : nat) (a b c d a1 b1 a2 b2 : R) :
  fq_newton (S n) a b c d a1 b1 a2 b2 0 = ((a1, b1), (a2, b2)).
Proof.
  cbn [fq_newton]. assert (E : @feqb R RS 0 f0 = true) by (rs_unfold; apply Reqb_true; reflexivity).
  rewrite E. reflexivity.
Qed.

Lemma fq_finish_exact (a b c d a1 b1 a2 b2 : R) :
  a1 + a2 = a -> b1 + a1 * a2 + b2 = b -> b1 * a2 + a1 * b2 = c -> b1 * b2 = d ->
  fq_finish a b c d a1 b1 a2 b2 = Some ((a1, b1), (a2, b2)).
Proof.
  intros H1 H2 H3 H4. unfold fq_finish. rewrite calc_eps_t_exact by assumption.
  rewrite fq_newton_zero. reflexivity.
Qed.

(** [beta_2 = d / beta_1] (or the other way round) does not change an exact pair *)
Lemma adjust_pair (d b1 b2 : R) : b1 * b2 = d ->
  (if fltb (fabs b2) (fabs b1) then (b1, fdiv d b1)
   else if fltb (fabs b1) (fabs b2) then (fdiv d b2, b2) else (b1, b2)) = (b1, b2).
Proof.
  intro Hd. rs_unfold.
  destruct (Rltb_spec (Rabs b2) (Rabs b1)) as [H|H].
  - assert (b1 <> 0) by (intro; subst b1; rewrite Rabs_R0 in H; pose proof (Rabs_pos b2); lra).
    f_equal. rewrite <- Hd. field. assumption.
  - destruct (Rltb_spec (Rabs b1) (Rabs b2)) as [H'|H']; [|reflexivity].
    assert (b2 <> 0) by (intro; subst b2; rewrite Rabs_R0 in H'; pose proof (Rabs_pos b1); lra).
    f_equal. rewrite <- Hd. field. assumption.
Qed.

(** * the branch d_2 = 0 *)
Lemma fq_zero_exact (a b c d l_1 l_3 : R) qs :
  2 * l_1 = a -> l_1 * l_1 + 2 * l_3 = b -> 2 * (l_1 * l_3) = c -> d - l_3 * l_3 <= 0 ->
  fq_zero a b c d l_1 l_3 = Some qs -> quartic_factors_exact a b c d qs.
Proof.
  intros Ha Hb Hc Hd3. unfold fq_zero.
  change (@fsub R RS) with Rminus. change (@fmul R RS) with Rmult. change (@fadd R RS) with Rplus.
  change (@fneg R RS) with Ropp. change (@fsqrt R RS) with sqrt. change (@fdiv R RS) with Rdiv.
  set (s := sqrt (- (d - l_3 * l_3))).
  assert (Hs : s * s = l_3 * l_3 - d) by (unfold s; rewrite sqrt_sqrt by lra; ring).
  assert (Hbb : (l_3 + s) * (l_3 - s) = d) by nra.
  pose proof (adjust_pair d (l_3 + s) (l_3 - s) Hbb) as E.
  change (@fdiv R RS) with Rdiv in E. rewrite E.
  rewrite fq_finish_exact by nra. intro H. injection H as <-.
  apply factors_from_coefficients; nra.
Qed.

(** * the branch d_2 < 0 *)

(* the first candidate of the alpha selection is exact: no later one can have a smaller error *)
Lemma fq_pick_alpha_first_exact (a b c be1 be2 x1 x2 : R) rest st :
  calc_eps_q a b c x1 be1 x2 be2 = 0 ->
  (forall y1 y2, In (y1, y2) rest -> True) ->
  let '(r1, r2, _) := fq_pick_alpha a b c be1 be2 true ((x1, x2) :: rest) st in r1 = x1 /\ r2 = x2.
Proof.
  intros H0 _. destruct st as [[s1 s2] s3]. cbn [fq_pick_alpha].
  change (@fis_finite R RS) with (fun _ : R => true). cbv beta. cbn [andb orb]. rewrite H0.
  (* invariant: state (x1, x2, 0) is kept *)
  assert (K : forall l, fq_pick_alpha a b c be1 be2 false l (x1, x2, 0) = (x1, x2, 0)).
  { induction l as [|[y1 y2] l IH]; [reflexivity|]. cbn [fq_pick_alpha].
    change (@fis_finite R RS) with (fun _ : R => true). cbv beta. cbn [andb orb].
    replace (fltb (calc_eps_q a b c y1 be1 y2 be2) 0) with false; [exact IH|].
    symmetry. rs_unfold. apply Rltb_false. apply calc_eps_q_nonneg. }
  rewrite K. split; reflexivity.
Qed.

Lemma fq_neg_exact (a b c d l_1 l_3 d_2 l_2 : R) qs :
  2 * l_1 = a -> d_2 < 0 -> l_1 * l_1 + 2 * l_3 + d_2 = b -> 2 * (d_2 * l_2 + l_1 * l_3) = c ->
  d_2 * (l_2 * l_2) + l_3 * l_3 = d ->
  fq_neg a b c d l_1 l_3 d_2 l_2 = Some qs -> quartic_factors_exact a b c d qs.
Proof.
  intros Ha Hd2 Hb Hc Hd. unfold fq_neg.
  change (@fsub R RS) with Rminus. change (@fmul R RS) with Rmult. change (@fadd R RS) with Rplus.
  change (@fneg R RS) with Ropp. change (@fsqrt R RS) with sqrt. change (@fdiv R RS) with Rdiv.
  set (sq := sqrt (- d_2)).
  assert (Hsq : sq * sq = - d_2) by (unfold sq; apply sqrt_sqrt; lra).
  set (al1 := l_1 + sq). set (al2 := l_1 - sq). set (be1 := l_3 + sq * l_2). set (be2 := l_3 - sq * l_2).
  assert (Hbb : be1 * be2 = d) by (unfold be1, be2; nra).
  pose proof (adjust_pair d be1 be2 Hbb) as E. change (@fdiv R RS) with Rdiv in E. rewrite E.
  assert (C1 : al1 + al2 = a) by (unfold al1, al2; lra).
  assert (C2 : be1 + al1 * al2 + be2 = b) by (unfold al1, al2, be1, be2; nra).
  assert (C3 : be1 * al2 + al1 * be2 = c) by (unfold al1, al2, be1, be2; nra).
  destruct (negb (feqb (fabs al1) (fabs al2))).
  - (* the candidate loop: its first entry is (al1, al2) in both orders *)
    destruct (fltb (fabs al1) (fabs al2)).
    + replace (a - al2) with al1 by lra.
      pose proof (fq_pick_alpha_first_exact a b c be1 be2 al1 al2
                    [((c - be1 * al2) / be2, al2); ((b - be2 - be1) / al2, al2)] (al1, al2, f0)
                    (calc_eps_q_exact a b c al1 be1 al2 be2 C1 C2 C3) (fun _ _ _ => I)) as P.
      destruct (fq_pick_alpha _ _ _ _ _ _ _ _) as [[r1 r2] r3]. destruct P as [-> ->].
      rewrite fq_finish_exact by assumption. intro H. injection H as <-.
      apply factors_from_coefficients; assumption.
    + replace (a - al1) with al2 by lra.
      pose proof (fq_pick_alpha_first_exact a b c be1 be2 al1 al2
                    [(al1, (c - al1 * be2) / be1); (al1, (b - be2 - be1) / al1)] (al1, al2, f0)
                    (calc_eps_q_exact a b c al1 be1 al2 be2 C1 C2 C3) (fun _ _ _ => I)) as P.
      destruct (fq_pick_alpha _ _ _ _ _ _ _ _) as [[r1 r2] r3]. destruct P as [-> ->].
      rewrite fq_finish_exact by assumption. intro H. injection H as <-.
      apply factors_from_coefficients; assumption.
  - rewrite fq_finish_exact by assumption. intro H. injection H as <-.
    apply factors_from_coefficients; assumption.
Qed.

(** * the (d_2, l_2) selection *)
Definition eps_l (b c d l_1 l_3 d_2 l_2 : R) : R :=
  eps_rel (d_2 + l_1 * l_1 + 2 * l_3) b + eps_rel (2 * (d_2 * l_2 + l_1 * l_3)) c
  + eps_rel (d_2 * l_2 * l_2 + l_3 * l_3) d.

Lemma eps_l_nonneg b c d l_1 l_3 d_2 l_2 : 0 <= eps_l b c d l_1 l_3 d_2 l_2.
Proof.
  unfold eps_l. pose proof (eps_rel_nonneg (d_2 + l_1 * l_1 + 2 * l_3) b).
  pose proof (eps_rel_nonneg (2 * (d_2 * l_2 + l_1 * l_3)) c).
  pose proof (eps_rel_nonneg (d_2 * l_2 * l_2 + l_3 * l_3) d). lra.
Qed.

(* one step of the loop at the reals *)
Lemma fq_pick_dl_step (b c d l_1 l_3 : R) first d_2 l_2 rest st :
  fq_pick_dl b c d l_1 l_3 first ((d_2, l_2) :: rest) st =
  fq_pick_dl b c d l_1 l_3 false rest
    (if first || Rltb (eps_l b c d l_1 l_3 d_2 l_2) (snd st) then (d_2, l_2, eps_l b c d l_1 l_3 d_2 l_2) else st).
Proof. destruct st as [[s1 s2] s3]. cbn [fq_pick_dl snd]. unfold eps_l. rs_unfold. reflexivity. Qed.

(* an exact first candidate is kept *)
Lemma fq_pick_dl_first_exact (b c d l_1 l_3 d_2 l_2 : R) rest st :
  eps_l b c d l_1 l_3 d_2 l_2 = 0 ->
  fq_pick_dl b c d l_1 l_3 true ((d_2, l_2) :: rest) st = (d_2, l_2, 0).
Proof.
  intro H0. rewrite fq_pick_dl_step. cbn [orb]. rewrite H0.
  induction rest as [|[y1 y2] rest IH]; [reflexivity|].
  rewrite fq_pick_dl_step. cbn [orb snd].
  replace (Rltb (eps_l b c d l_1 l_3 y1 y2) 0) with false; [exact IH|].
  symmetry. apply Rltb_false. apply eps_l_nonneg.
Qed.

(* whatever is selected, its d_2 is one of the candidates' *)
Lemma fq_pick_dl_d2_all (b c d l_1 l_3 v : R) cands st :
  cands <> [] -> (forall y1 y2, In (y1, y2) cands -> y1 = v) ->
  fst (fst (fq_pick_dl b c d l_1 l_3 true cands st)) = v.
Proof.
  intros Hne Hall. destruct cands as [|[y1 y2] rest]; [contradiction|].
  rewrite fq_pick_dl_step. cbn [orb].
  assert (Hy : y1 = v) by (apply (Hall y1 y2); left; reflexivity). subst y1.
  assert (K : forall l e s2, (forall y1 y2, In (y1, y2) l -> y1 = v) ->
              fst (fst (fq_pick_dl b c d l_1 l_3 false l (v, s2, e))) = v).
  { induction l as [|[z1 z2] l IH]; intros e s2 Hl; [reflexivity|].
    rewrite fq_pick_dl_step. cbn [orb snd].
    assert (z1 = v) by (apply (Hl z1 z2); left; reflexivity). subst z1.
    destruct (Rltb _ e); apply IH; intros u1 u2 Hu; apply (Hl u1 u2); right; exact Hu. }
  apply K. intros u1 u2 Hu; apply (Hall u1 u2); right; exact Hu.
Qed.

(** * everything after phi *)

(* the quantities of the LDL^T decomposition as functions of phi *)
Definition q_l1 (a : R) : R := a * (1 * / 2).
Definition q_l3 (b phi : R) : R := 1 / 6 * b + 1 * / 2 * phi.
Definition q_d2 (a b phi : R) : R := 2 / 3 * b - phi - q_l1 a * q_l1 a.
Definition q_delt2 (a b c phi : R) : R := c - a * q_l3 b phi.

(* the resolvent cubic in the form the code uses (translation-invariant coefficients g, h) *)
Definition q_g (a b c d : R) : R := a * c - 4 * d - 1 / 3 * (b * b).
Definition q_h (a b c d : R) : R := (a * c + 8 * d - 2 / 9 * (b * b)) * (1 / 3) * b - c * c - a * a * d.

Lemma resolvent_identity (a b c d phi : R) :
  q_delt2 a b c phi * q_delt2 a b c phi - 4 * q_d2 a b phi * (d - q_l3 b phi * q_l3 b phi)
  = - (phi * phi * phi + q_g a b c d * phi + q_h a b c d).
Proof. unfold q_delt2, q_d2, q_l3, q_l1, q_g, q_h. field. Qed.

Lemma fq_tail_exact (a b c d phi : R) qs :
  phi * phi * phi + q_g a b c d * phi + q_h a b c d = 0 ->
  (q_d2 a b phi = 0 \/ fq_d2_negligible b phi (q_l1 a) (q_d2 a b phi) = false) ->
  (q_d2 a b phi = 0 -> d - q_l3 b phi * q_l3 b phi <= 0) ->
  fq_tail a b c d phi = Some qs -> quartic_factors_exact a b c d qs.
Proof.
  intros Hres Hneg Hd3. pose proof (resolvent_identity a b c d phi) as Hid. rewrite Hres in Hid.
  unfold fq_tail. cbv [sv_sixth sv_two_thirds].
  change (@fsub R RS) with Rminus. change (@fmul R RS) with Rmult. change (@fadd R RS) with Rplus.
  change (@fdiv R RS) with Rdiv. change (@f1 R RS) with 1. change (@f2 R RS) with 2. change (@f3 R RS) with 3.
  change (@f0 R RS) with 0. change (@fofZ R RS 6) with 6.
  change (@fhalf R RS) with (Q2R (1 # 2)). cbv [Q2R Qnum Qden].
  fold (q_l1 a). fold (q_l3 b phi). fold (q_d2 a b phi). fold (q_delt2 a b c phi).
  set (l1 := q_l1 a) in *. set (l3 := q_l3 b phi) in *. set (d2 := q_d2 a b phi) in *.
  set (dl := q_delt2 a b c phi) in *.
  assert (Ha : 2 * l1 = a) by (clear; subst l1; unfold q_l1; lra).
  assert (Hb : l1 * l1 + 2 * l3 + d2 = b) by (clear; subst l1 l3 d2; unfold q_d2, q_l3, q_l1; field).
  assert (Hdl : dl = c - 2 * (l1 * l3)) by (clear; subst dl l1 l3; unfold q_delt2, q_l3, q_l1; field).
  destruct (Req_dec d2 0) as [Hz|Hnz].
  - (* d2 = 0: every candidate has d_2 = 0 (delt_2 = 0 as well), the d_2 = 0 branch runs *)
    assert (Hdl0 : dl = 0) by (rewrite Hz in Hid; nra).
    set (cands := [(d2, _); (_, _); (d2, _)]).
    assert (Hd2sel : fst (fst (fq_pick_dl b c d l1 l3 true cands (0, 0, 0))) = 0).
    { apply fq_pick_dl_d2_all; [discriminate|]. unfold cands. intros y1 y2 [E|[E|[E|[]]]]; injection E as <- _;
        try exact Hz. rewrite Hdl0. unfold Rdiv. ring. }
    destruct (fq_pick_dl b c d l1 l3 true cands (0, 0, 0)) as [[sd2 sl2] se]. cbn [fst] in Hd2sel. subst sd2.
    replace (fltb 0 0) with false by (symmetry; rs_unfold; apply Rltb_false; lra).
    replace (feqb 0 0) with true by (symmetry; rs_unfold; apply Reqb_true; reflexivity).
    cbn [andb orb]. apply fq_zero_exact; try assumption; [lra|nra|apply Hd3, Hz].
  - (* d2 <> 0: the first candidate is exact and is kept *)
    destruct Hneg as [Hneg|Hneg]; [contradiction|].
    assert (Hl2 : 2 * (d2 * (1 * / 2 * dl / d2) + l1 * l3) = c) by (rewrite Hdl; field; exact Hnz).
    assert (Hl2' : d2 * (1 * / 2 * dl / d2 * (1 * / 2 * dl / d2)) + l3 * l3 = d).
    { replace (d2 * (1 * / 2 * dl / d2 * (1 * / 2 * dl / d2))) with (dl * dl / (4 * d2)) by (field; exact Hnz).
      replace (dl * dl) with (4 * d2 * (d - l3 * l3)) by lra. field. exact Hnz. }
    rewrite fq_pick_dl_first_exact.
    2: { unfold eps_l. replace (d2 + l1 * l1 + 2 * l3) with b by lra. rewrite Hl2.
         replace (d2 * (1 * / 2 * dl / d2) * (1 * / 2 * dl / d2) + l3 * l3) with d by (rewrite <- Hl2'; ring).
         rewrite !eps_rel_exact. ring. }
    fold l1 in Hneg. rewrite Hneg. cbn [negb andb orb].
    destruct (Rltb_spec d2 0) as [Hlt|Hge]; rs_unfold.
    + destruct (Rltb_spec d2 0); [|lra]. cbn [andb].
      apply fq_neg_exact; assumption.
    + destruct (Rltb_spec d2 0); [lra|]. cbn [andb].
      destruct (Reqb_spec d2 0); [contradiction|]. cbn [orb]. discriminate.
Qed.

(** * factor_quartic_inner, non-rescaled call *)
Lemma fq_gh_real (a b c d : R) : fq_gh a b c d false = (q_g a b c d, q_h a b c d).
Proof.
  unfold fq_gh. cbv [sv_third sv_two_ninths sv_4 sv_8 sv_9 sv_24 sv_m2 sv_mquarter].
  change (@fsub R RS) with Rminus. change (@fmul R RS) with Rmult. change (@fadd R RS) with Rplus.
  change (@fdiv R RS) with Rdiv. change (@fpowi R RS) with powerRZ.
  match goal with |- context [if ?t then ?x else ?y] => set (s := if t then x else y) end.
  clearbody s. rs_unfold. unfold q_g, q_h. simpl powerRZ. f_equal; field.
Qed.

Lemma factor_quartic_inner_exact (a b c d : R) qs :
  let phi := depressed_cubic_dominant (q_g a b c d) (q_h a b c d) in
  phi * phi * phi + q_g a b c d * phi + q_h a b c d = 0 ->
  (q_d2 a b phi = 0 \/ fq_d2_negligible b phi (q_l1 a) (q_d2 a b phi) = false) ->
  (q_d2 a b phi = 0 -> d - q_l3 b phi * q_l3 b phi <= 0) ->
  factor_quartic_inner a b c d false = Some qs -> quartic_factors_exact a b c d qs.
Proof.
  intros phi Hres Hneg Hd3. unfold factor_quartic_inner. rewrite fq_gh_real.
  change (@fis_finite R RS) with (fun _ : R => true). cbv beta. cbn [andb negb].
  apply fq_tail_exact; assumption.
Qed.

(** * depressed_cubic_dominant returns an exact root over the reals
      (ordinary-magnitude branch: |g/3| < 1e102 and |h/2| < 1e154, i.e. [k = None]) *)

Lemma dcd_newton_zero (n : nat) (g h x : R) : (x * x + g) * x + h = 0 ->
  dcd_newton (S n) g h x 0 = x.
Proof.
  intro Hx. cbn [dcd_newton]. rs_unfold.
  destruct (Reqb_spec (3 * x * x + g) 0); [reflexivity|].
  replace (x - 0 / (3 * x * x + g)) with x by (unfold Rdiv; ring).
  rewrite Hx. destruct (Reqb_spec 0 0); [reflexivity|contradiction].
Qed.

Lemma dcd_post (g h x : R) : (x * x + g) * x + h = 0 ->
  (if fltb (fabs (fadd (fmul (fadd (fmul x x) g) x) h))
           (fmul sv_EPS_M (fmax (fmax (fpowi x 3) (fmul g x)) h))
   then x else dcd_newton 8 g h x (fadd (fmul (fadd (fmul x x) g) x) h)) = x.
Proof.
  intro Hx. change (@fadd R RS) with Rplus. change (@fmul R RS) with Rmult. rewrite Hx.
  destruct (fltb _ _); [reflexivity|]. apply dcd_newton_zero. exact Hx.
Qed.

(* trigonometric branch *)
Lemma dcd_trig_root (q r : R) : r * r < q * (q * (q * 1)) ->
  let t := r / sqrt (q * (q * (q * 1))) in
  let x := -2 * sqrt q * Rcopysign (cos (acos (Rabs t) * (1 / 3))) t in
  (x * x + -3 * q) * x + 2 * r = 0.
Proof.
  intros Hlt t. cbv zeta.
  assert (Hq : 0 < q).
  { destruct (Rlt_dec 0 q); [assumption|exfalso]. assert (q * (q * (q * 1)) <= 0).
    { assert (0 <= q * q) by nra. nra. } nra. }
  set (w := sqrt q). assert (Hw : w * w = q) by (apply sqrt_sqrt; lra).
  assert (Hw0 : 0 < w) by (apply sqrt_lt_R0; exact Hq).
  assert (Hs3 : sqrt (q * (q * (q * 1))) = q * w).
  { replace (q * (q * (q * 1))) with ((q * w) * (q * w)) by (rewrite <- Hw; ring).
    apply sqrt_square. nra. }
  assert (Hqw : 0 < q * w) by nra.
  assert (Ht : t * (q * w) = r) by (unfold t; rewrite Hs3; field; lra).
  assert (Hat : Rabs t <= 1).
  { assert (t * t < 1).
    { assert (E : t * t * ((q * w) * (q * w)) = r * r) by (rewrite <- Ht; ring).
      assert (F : (q * w) * (q * w) = q * (q * (q * 1))) by (rewrite <- Hw; ring).
      rewrite F in E. assert (0 < q * (q * (q * 1))) by nra. nra. }
    apply Rabs_le. split; nra. }
  set (th := acos (Rabs t) * (1 / 3)). pose proof (acos_bound (Rabs t)) as Hb. pose proof PI_RGT_0.
  assert (HC : 0 <= cos th) by (apply cos_ge_0; unfold th; lra).
  assert (H3 : 4 * (cos th * cos th * cos th) - 3 * cos th = Rabs t).
  { rewrite <- cos_3a. replace (3 * th) with (acos (Rabs t)) by (unfold th; field).
    apply cos_acos. pose proof (Rabs_pos t). lra. }
  set (C := cos th) in *.
  unfold Rcopysign. destruct (Rle_dec 0 t) as [Hp|Hn].
  - rewrite (Rabs_pos_eq C) by assumption. rewrite (Rabs_pos_eq t) in H3 by assumption.
    replace ((-2 * w * C * (-2 * w * C) + -3 * q) * (-2 * w * C) + 2 * r)
      with (-2 * (q * w) * (4 * (C * C * C) - 3 * C) + 2 * r) by (rewrite <- Hw; ring).
    rewrite H3. nra.
  - rewrite (Rabs_pos_eq C) by assumption. rewrite (Rabs_left t) in H3 by lra.
    replace ((-2 * w * - C * (-2 * w * - C) + -3 * q) * (-2 * w * - C) + 2 * r)
      with (2 * (q * w) * (4 * (C * C * C) - 3 * C) + 2 * r) by (rewrite <- Hw; ring).
    rewrite H3. nra.
Qed.

(* Cardano branch: a = cbrt(-r - copysign(sqrt(r^2 - q^3), r)), b = q / a *)
Lemma dcd_cbrt_root (q r : R) : q * (q * (q * 1)) <= r * r ->
  let A := Rcbrt (- r - Rcopysign (sqrt (r * r - q * (q * (q * 1)))) r) in
  let B := if Req_EM_T A 0 then 0 else q / A in
  let x := A + B in
  (x * x + -3 * q) * x + 2 * r = 0.
Proof.
  intros Hge A B x.
  set (S := sqrt (r * r - q * (q * (q * 1)))) in *.
  assert (HS : S * S = r * r - q * (q * (q * 1))) by (apply sqrt_sqrt; lra).
  set (s := Rcopysign S r) in *. assert (Hs : s * s = S * S) by apply Rcopysign_sqr.
  assert (HA : A * A * A = - r - s) by apply Rcbrt_cube.
  assert (H6 : (A * A * A) * (A * A * A) + 2 * r * (A * A * A) + q * (q * (q * 1)) = 0) by (rewrite HA; nra).
  unfold x, B. destruct (Req_EM_T A 0) as [Hz|Hnz].
  - rewrite Hz in *. assert (Hq3 : q * (q * (q * 1)) = 0) by nra.
    assert (Hq : q = 0).
    { destruct (Req_dec q 0); [assumption|exfalso]. assert (0 < q * q) by nra.
      assert (q * (q * q) <> 0) by (apply Rmult_integral_contrapositive_currified; nra). nra. }
    assert (Hrs : r = 0).
    { assert (E : - r - s = 0) by nra. unfold s, Rcopysign in E. pose proof (Rabs_pos S).
      destruct (Rle_dec 0 r); lra. }
    subst q r. ring.
  - set (Bv := q / A). assert (HAB : A * Bv = q) by (unfold Bv; field; exact Hnz).
    assert (HB3 : (A * A * A) * (Bv * Bv * Bv) = q * (q * (q * 1))) by (rewrite <- HAB; ring).
    assert (HA3 : A * A * A <> 0).
    { intro E. apply Hnz. apply cube_inj. rewrite E. ring. }
    assert (Hsum : A * A * A + Bv * Bv * Bv + 2 * r = 0).
    { apply Rmult_eq_reg_l with (A * A * A); [|exact HA3]. nra. }
    replace (((A + Bv) * (A + Bv) + -3 * q) * (A + Bv) + 2 * r)
      with (A * A * A + Bv * Bv * Bv + 2 * r + 3 * (A * Bv - q) * (A + Bv)) by ring.
    rewrite Hsum, HAB. ring.
Qed.

Lemma big_lit_1e102 : sv_1e102 (T:=R) = IZR (10 ^ 102).
Proof. unfold sv_1e102. rs_unfold. unfold Q2R. cbn [Qnum Qden]. field. Qed.
Lemma big_lit_1e154 : sv_1e154 (T:=R) = IZR (10 ^ 154).
Proof. unfold sv_1e154. rs_unfold. unfold Q2R. cbn [Qnum Qden]. field. Qed.

Lemma dcd_exact (g h : R) :
  Rabs (-1 / 3 * g) < IZR (10 ^ 102) -> Rabs (1 * / 2 * h) < IZR (10 ^ 154) ->
  let x := depressed_cubic_dominant g h in
  x * x * x + g * x + h = 0.
Proof.
  intros Hq Hr. cbv zeta. unfold depressed_cubic_dominant. cbv [sv_mthird sv_third sv_m2].
  change (@fmul R RS (fdiv (fofZ (-1)) f3) g) with (-1 / 3 * g).
  change (@fmul R RS fhalf h) with (Q2R (1 # 2) * h). cbv [Q2R Qnum Qden].
  set (q := -1 / 3 * g) in *. set (r := 1 * / 2 * h) in *.
  replace (fltb (fabs q) sv_1e102) with true
    by (symmetry; rewrite big_lit_1e102; rs_unfold; apply Rltb_true; exact Hq).
  replace (fltb (fabs r) sv_1e154) with true
    by (symmetry; rewrite big_lit_1e154; rs_unfold; apply Rltb_true; exact Hr).
  cbn [andb].
  assert (Hg : g = -3 * q) by (unfold q; field). assert (Hh : h = 2 * r) by (unfold r; field).
  assert (Fin : forall x, (x * x + -3 * q) * x + 2 * r = 0 ->
     (if fltb (fabs (fadd (fmul (fadd (fmul x x) g) x) h))
              (fmul sv_EPS_M (fmax (fmax (fpowi x 3) (fmul g x)) h))
      then x else dcd_newton 8 g h x (fadd (fmul (fadd (fmul x x) g) x) h)) = x).
  { intros x Hx. apply dcd_post. rewrite Hg, Hh. exact Hx. }
  change (@fpowi R RS q 3) with (q * (q * (q * 1))).
  change (@fmul R RS r r) with (r * r).
  change (@fltb R RS (r * r) (q * (q * (q * 1)))) with (Rltb (r * r) (q * (q * (q * 1)))).
  destruct (Rltb_spec (r * r) (q * (q * (q * 1)))) as [Htrig|Hcbrt].
  - pose proof (dcd_trig_root q r Htrig) as Hx. cbv zeta in Hx.
    match goal with |- context [if _ then ?x else _] => set (x0 := x) end.
    assert (E : x0 = -2 * sqrt q * Rcopysign (cos (acos (Rabs (r / sqrt (q * (q * (q * 1))))) * (1 / 3))) (r / sqrt (q * (q * (q * 1))))).
    { unfold x0. rs_unfold. reflexivity. }
    rewrite (Fin x0) by (rewrite E; exact Hx).
    rewrite <- E in Hx. clearbody x0. rewrite Hg, Hh.
    replace (x0 * x0 * x0 + -3 * q * x0 + 2 * r) with ((x0 * x0 + -3 * q) * x0 + 2 * r) by ring. exact Hx.
  - pose proof (dcd_cbrt_root q r ltac:(lra)) as Hx. cbv zeta in Hx.
    match goal with |- context [if _ then ?x else _] => set (x0 := x) end.
    assert (E : x0 = Rcbrt (- r - Rcopysign (sqrt (r * r - q * (q * (q * 1)))) r)
                     + (if Req_EM_T (Rcbrt (- r - Rcopysign (sqrt (r * r - q * (q * (q * 1)))) r)) 0 then 0
                        else q / Rcbrt (- r - Rcopysign (sqrt (r * r - q * (q * (q * 1)))) r))).
    { unfold x0. rs_unfold. unfold Reqb. destruct (Req_EM_T _ 0); reflexivity. }
    rewrite (Fin x0) by (rewrite E; exact Hx).
    rewrite <- E in Hx. clearbody x0. rewrite Hg, Hh.
    replace (x0 * x0 * x0 + -3 * q * x0 + 2 * r) with ((x0 * x0 + -3 * q) * x0 + 2 * r) by ring. exact Hx.
Qed.

(** the factoring step is exact over the reals on its main path: no named hypothesis left,
    only guards (ordinary magnitudes; d_2 zero or not negligible; d_3 <= 0 when d_2 = 0) *)
Theorem factor_quartic_inner_exact_main (a b c d : R) qs :
  Rabs (-1 / 3 * q_g a b c d) < IZR (10 ^ 102) -> Rabs (1 * / 2 * q_h a b c d) < IZR (10 ^ 154) ->
  let phi := depressed_cubic_dominant (q_g a b c d) (q_h a b c d) in
  (q_d2 a b phi = 0 \/ fq_d2_negligible b phi (q_l1 a) (q_d2 a b phi) = false) ->
  (q_d2 a b phi = 0 -> d - q_l3 b phi * q_l3 b phi <= 0) ->
  factor_quartic_inner a b c d false = Some qs -> quartic_factors_exact a b c d qs.
Proof.
  intros Hq Hr phi Hneg Hd3. apply factor_quartic_inner_exact; try assumption.
  apply (dcd_exact (q_g a b c d) (q_h a b c d) Hq Hr).
Qed.

(** solve_quartic on its main path (first, non-rescaled factoring attempt succeeds): exactly the
    real roots, no hypothesis about the factoring step left *)
Theorem solve_quartic_main_path (c0 c1 c2 c3 c4 : R) :
  c4 <> 0 -> c0 <> 0 ->
  let a := c3 / c4 in let b := c2 / c4 in let c := c1 / c4 in let d := c0 / c4 in
  Rabs (-1 / 3 * q_g a b c d) < IZR (10 ^ 102) -> Rabs (1 * / 2 * q_h a b c d) < IZR (10 ^ 154) ->
  let phi := depressed_cubic_dominant (q_g a b c d) (q_h a b c d) in
  (q_d2 a b phi = 0 \/ fq_d2_negligible b phi (q_l1 a) (q_d2 a b phi) = false) ->
  (q_d2 a b phi = 0 -> d - q_l3 b phi * q_l3 b phi <= 0) ->
  factor_quartic_inner a b c d false <> None ->
  let l := solve_quartic c0 c1 c2 c3 c4 in
  (length l <= 4)%nat /\ forall x, In x l <-> quartic_poly c0 c1 c2 c3 c4 x = 0.
Proof.
  intros H4 H0 a b c d Hq Hr phi Hneg Hd3 Hsome. cbv zeta.
  pose proof (solve_quartic_inner_spec a b c d false) as Hs.
  pose proof (factor_quartic_inner_exact_main a b c d) as Hex.
  destruct (factor_quartic_inner a b c d false) as [[[a1 b1] [a2 b2]]|] eqn:Ef; [|contradiction].
  specialize (Hex _ Hq Hr Hneg Hd3 eq_refl). destruct Hs as (l & El & Hlen & Hin).
  unfold solve_quartic.
  replace (feqb c4 f0) with false by (symmetry; rs_unfold; apply Reqb_false; exact H4).
  replace (feqb c0 f0) with false by (symmetry; rs_unfold; apply Reqb_false; exact H0).
  change (@fdiv R RS) with Rdiv. fold a b c d. rewrite El.
  split; [exact Hlen|]. intro x. rewrite Hin.
  assert (Hmon : quartic_poly c0 c1 c2 c3 c4 x
                 = c4 * (x * x * x * x + a * (x * x * x) + b * (x * x) + c * x + d))
    by (unfold quartic_poly, a, b, c, d; field; exact H4).
  rewrite Hmon, (Hex x). split.
  - intros [E|E]; rewrite E; ring.
  - intro E. apply Rmult_integral in E. destruct E as [E|E]; [contradiction|].
    apply Rmult_integral in E. exact E.
Qed.
