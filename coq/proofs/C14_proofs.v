(** C14: termination lemmas.  Part 1: the midpoint recursion of fit_to_bezpath_rec ends on any
    "float line" (a scalar type whose values are indexed by integers, order-isomorphically, with
    the computed midpoint between its arguments); the call count is linear in the number of
    values between the ends.  Part 2: structural bounds on the other recursions and loops
    (arclen_rec, flatten's loops, segments), any scalar.  Part 3: regularize at the reals. *)
From Coq Require Import ZArith List Bool Arith Lia Reals Lra Psatz.
From KV Require Import Scalar RInst RTac Geom Curves Path Totality Arclen Flatten.
Import ListNotations.

Set Implicit Arguments.

(* ------------------------------------------------------------------------------------------ *)
(** * 1. the midpoint recursion *)
Section Bisect.
Context {T : Type} `{Scalar T}.
Local Open Scope S_scope.

(** the values the recursion ranges over, and their position on the integer line *)
Variable dom : T -> Prop.
Variable idx : T -> Z.
Hypothesis eqb_idx : forall a b, dom a -> dom b -> (feqb a b = true <-> idx a = idx b).
Hypothesis mid_dom : forall s e, dom s -> dom e -> (idx s <= idx e)%Z -> dom (fit_mid s e).
Hypothesis mid_between : forall s e, dom s -> dom e -> (idx s <= idx e)%Z ->
  (idx s <= idx (fit_mid s e) <= idx e)%Z.

Lemma guard_false_strict s e : dom s -> dom e -> (idx s <= idx e)%Z ->
  fit_guard (fit_mid s e) s e = false ->
  (idx s < idx (fit_mid s e) < idx e)%Z.
Proof.
  intros Hs He Hle Hg. unfold fit_guard in Hg. apply orb_false_iff in Hg. destruct Hg as [G1 G2].
  pose proof (mid_between Hs He Hle) as Hb.
  pose proof (mid_dom Hs He Hle) as Hm.
  assert (idx (fit_mid s e) <> idx s).
  { intro E. apply (eqb_idx Hm Hs) in E. congruence. }
  assert (idx (fit_mid s e) <> idx e).
  { intro E. apply (eqb_idx Hm He) in E. congruence. }
  lia.
Qed.

(** with [d] values from [s] to [e], fuel [d + 1] is enough (depth), the recursion makes at most
    [2 max(d,1) - 1] calls and emits at most [max(d,1)] leaves — whatever the source *)
Lemma bisect_total (nofit : T -> T -> bool) : forall fuel s e, dom s -> dom e -> (idx s <= idx e)%Z ->
  (Z.to_nat (idx e - idx s) < fuel)%nat ->
  exists n l, bisect fuel nofit s e = Some (n, l) /\
    (1 <= n <= 2 * Z.max (idx e - idx s) 1 - 1)%Z /\
    (1 <= length l)%nat /\ (Z.of_nat (length l) <= Z.max (idx e - idx s) 1)%Z.
Proof.
  induction fuel as [|k IH]; intros s e Hs He Hle Hf; [lia|].
  cbn [bisect]. destruct (nofit s e).
  2:{ exists 1%Z, [e]. cbn [length]. repeat split; lia. }
  destruct (fit_guard (fit_mid s e) s e) eqn:G.
  { exists 1%Z, [e]. cbn [length]. repeat split; lia. }
  pose proof (guard_false_strict Hs He Hle G) as Hst.
  pose proof (mid_dom Hs He Hle) as Hm.
  destruct (IH s (fit_mid s e) Hs Hm) as (n1 & l1 & E1 & B1 & L1 & M1); [lia|lia|].
  destruct (IH (fit_mid s e) e Hm He) as (n2 & l2 & E2 & B2 & L2 & M2); [lia|lia|].
  rewrite E1, E2. exists (1 + n1 + n2)%Z, (l1 ++ l2). rewrite app_length.
  repeat split; try lia.
Qed.

Lemma bisect_depth_total (nofit : T -> T -> bool) : forall fuel s e, dom s -> dom e -> (idx s <= idx e)%Z ->
  (Z.to_nat (idx e - idx s) < fuel)%nat ->
  exists d, bisect_depth fuel nofit s e = Some d /\ (1 <= d)%nat /\ (Z.of_nat d <= Z.max (idx e - idx s) 1)%Z.
Proof.
  induction fuel as [|k IH]; intros s e Hs He Hle Hf; [lia|].
  cbn [bisect_depth]. destruct (nofit s e).
  2:{ exists 1%nat. repeat split; lia. }
  destruct (fit_guard (fit_mid s e) s e) eqn:G.
  { exists 1%nat. repeat split; lia. }
  pose proof (guard_false_strict Hs He Hle G) as Hst.
  pose proof (mid_dom Hs He Hle) as Hm.
  destruct (IH s (fit_mid s e) Hs Hm) as (d1 & E1 & B1 & M1); [lia|lia|].
  destruct (IH (fit_mid s e) e Hm He) as (d2 & E2 & B2 & M2); [lia|lia|].
  rewrite E1, E2. exists (S (Nat.max d1 d2)). repeat split; try lia.
Qed.

(** the answer does not depend on the fuel once there is enough of it *)
Lemma bisect_fuel_mono (nofit : T -> T -> bool) : forall k j s e r,
  bisect k nofit s e = Some r -> bisect (k + j) nofit s e = Some r.
Proof.
  induction k as [|k IH]; intros j s e r; [discriminate|].
  cbn [bisect plus]. destruct (nofit s e); auto.
  destruct (fit_guard (fit_mid s e) s e); auto.
  destruct (bisect k nofit s (fit_mid s e)) as [[n1 l1]|] eqn:E1; [|discriminate].
  rewrite (IH j _ _ _ E1).
  destruct (bisect k nofit (fit_mid s e) e) as [[n2 l2]|] eqn:E2; [|discriminate].
  rewrite (IH j _ _ _ E2). auto.
Qed.

End Bisect.

(* ------------------------------------------------------------------------------------------ *)
(** * 2. structural bounds, any scalar *)
Section Structural.
Context {T : Type} `{Scalar T}.
Local Open Scope S_scope.

(** ** arclen_rec: at most 2^(rem+1) - 1 calls when [rem] levels are left (20 at the top) *)
Lemma arclen_rec_calls_bound : forall rem (c : CubicBez T) acc,
  (1 <= snd (arclen_rec_vc rem c acc) <= 2 ^ (Z.of_nat rem + 1) - 1)%Z.
Proof.
  induction rem as [|k IH]; intros c acc.
  - cbn [arclen_rec_vc]. destruct (arclen_choose _ _ _); cbn [snd]; change (2 ^ (Z.of_nat 0 + 1))%Z with 2%Z; lia.
  - cbn [arclen_rec_vc].
    assert (P : (2 ^ (Z.of_nat (S k) + 1) = 2 * 2 ^ (Z.of_nat k + 1))%Z).
    { replace (Z.of_nat (S k) + 1)%Z with (Z.succ (Z.of_nat k + 1)) by lia. rewrite Z.pow_succ_r by lia. reflexivity. }
    assert (Q : (0 < 2 ^ (Z.of_nat k + 1))%Z) by (apply Z.pow_pos_nonneg; lia).
    destruct (arclen_choose _ _ _); cbn [snd]; try lia.
    destruct (cubic_subdivide c) as [ca cb].
    pose proof (IH ca (acc * fhalf)) as Ha. pose proof (IH cb (acc * fhalf)) as Hb.
    destruct (arclen_rec_vc k ca (acc * fhalf)) as [va na].
    destruct (arclen_rec_vc k cb (acc * fhalf)) as [vb nb].
    cbn [snd] in *. lia.
Qed.

Lemma cubic_arclen_calls_bound (c : CubicBez T) acc :
  (1 <= snd (cubic_arclen_vc c acc) <= 2097151)%Z.
Proof. exact (arclen_rec_calls_bound 20 c acc). Qed.

(** ** flatten: the loops run a number of times fixed before they start *)

Lemma zrange_length lo hi : length (zrange lo hi) = Z.to_nat (hi - lo).
Proof. unfold zrange. rewrite map_length, seq_length. reflexivity. Qed.

Lemma subdiv_count_ge1 (v s : T) : (1 <= subdiv_count v s)%Z.
Proof. unfold subdiv_count. lia. Qed.

(* the QuadTo arm: exactly n - 1 interior vertices, n = subdiv_count *)
Lemma flatten_quad_count (q : QuadBez T) (sqrt_tol : T) :
  length (flatten_quad_pts q sqrt_tol) =
  Z.to_nat (subdiv_count (fp_val (estimate_subdiv q sqrt_tol)) sqrt_tol - 1).
Proof.
  unfold flatten_quad_pts, flatten_quad_ts. rewrite !map_length, zrange_length. reflexivity.
Qed.

(* the inner while loop of the CurveTo arm: started with i <= n + 1 and fuel n + 1 - i it emits j - i values, j <= n + 1 *)
Lemma cubic_inner_count : forall fuel vs v rv step (n i : Z) target us j,
  (i <= n + 1)%Z -> fuel = Z.to_nat (n + 1 - i) ->
  cubic_inner fuel vs v rv step n i target = Some (us, j) ->
  (i <= j <= n + 1)%Z /\ Z.of_nat (length us) = (j - i)%Z.
Proof.
  induction fuel as [|k IH]; intros vs v rv step n i target us j Hi Hf Hc; cbn [cubic_inner] in Hc.
  - destruct (target <? vs + v); [discriminate|]. inversion Hc; subst. cbn [length]. lia.
  - destruct (target <? vs + v).
    2:{ inversion Hc; subst. cbn [length]. lia. }
    destruct (Z.eqb_spec (i + 1) (n + 1)) as [E|E].
    { inversion Hc; subst. cbn [length]. lia. }
    destruct (cubic_inner k vs v rv step n (i + 1) (fofZ (i + 1) * step)) as [[us' j']|] eqn:Er; [|discriminate].
    inversion Hc; subst.
    apply IH in Er; [|lia|lia]. destruct Er as (Hj & Hl).
    cbn [length]. lia.
Qed.

Lemma cubic_outer_count : forall (qb : list (QuadBez T * FlattenParams T)) step (n i : Z) vs uss,
  (1 <= i <= n + 1)%Z ->
  cubic_outer qb step n i vs = Some uss ->
  (Z.of_nat (length (concat uss)) <= n + 1 - i)%Z.
Proof.
  induction qb as [|[q p] r IH]; intros step n i vs uss Hi Hc; cbn [cubic_outer] in Hc.
  - inversion Hc; subst. cbn. lia.
  - destruct (cubic_inner _ _ _ _ _ _ _ _) as [[us i']|] eqn:Ei; [|discriminate].
    destruct (cubic_outer r step n i' (vs + fp_val p)) as [uss'|] eqn:Eo; [|discriminate].
    inversion Hc; subst.
    apply cubic_inner_count in Ei; [|lia|reflexivity]. destruct Ei as (Hj & Hl).
    apply IH in Eo; [|lia].
    cbn [concat]. rewrite app_length. lia.
Qed.

(* the CurveTo arm: at most n vertices are emitted by the second loop, n = subdiv_count of the summed estimate *)
Lemma cubic_stage2_count (qb : list (QuadBez T * FlattenParams T)) (srt : T) uss :
  cubic_stage2_us qb srt = Some uss ->
  (Z.of_nat (length (concat uss)) <= subdiv_count (fp_sum qb) srt)%Z.
Proof.
  unfold cubic_stage2_us. intros Hc.
  pose proof (subdiv_count_ge1 (fp_sum qb) srt).
  apply cubic_outer_count in Hc; lia.
Qed.

(* ... and the first loop runs over the to_quads pieces: their number is fixed by the count *)
Lemma cubic_quad_buf_count (c : CubicBez T) (tol sqrt_tol : T) :
  length (cubic_quad_buf c tol sqrt_tol) = Z.to_nat (fl_to_quads_n c (tol * to_quad_tol)).
Proof.
  unfold cubic_quad_buf, fl_to_quads. rewrite !map_length, zrange_length. f_equal. lia.
Qed.

(** ** segments: the only panic is the documented one, on a leading ClosePath *)
Lemma segs_from_some : forall (els : list (PathEl T)) st, segs_from (Some st) els <> None.
Proof.
  induction els as [|e r IH]; intros [start last]; cbn [segs_from]; [discriminate|].
  cbn [seg_step].
  destruct e; try destruct (pt_neb last start);
    match goal with |- context [segs_from (Some ?x) r] =>
      pose proof (IH x) as Hx; destruct (segs_from (Some x) r) end;
    solve [discriminate | congruence].
Qed.

Lemma segments_panic_iff (els : list (PathEl T)) :
  segments els = None <-> exists r, els = ClosePath :: r.
Proof.
  unfold segments. destruct els as [|e r]; cbn [segs_from].
  - split; [discriminate|]. intros (r & Hr); discriminate.
  - destruct e; cbn [seg_step el_end];
      try (match goal with |- context [segs_from (Some ?x) r] =>
             pose proof (@segs_from_some r x) as Hx; destruct (segs_from (Some x) r) end;
           [split; [discriminate|intros (r' & Hr'); discriminate]|congruence]).
    split; [eauto|reflexivity].
Qed.

End Structural.

(* ------------------------------------------------------------------------------------------ *)
(** * 3. regularize over the reals *)
Section Regularize.
Local Open Scope R_scope.

(** squared distance of two points (kurbo's [Point::distance_squared] at the reals) *)
Definition dist2 (a b : Point R) : R := pt_distance_squared a b.

Lemma dist2_formula (a b : Point R) :
  dist2 a b = (px a - px b) * (px a - px b) + (py a - py b) * (py a - py b).
Proof. reflexivity. Qed.

Lemma lerp_dist2 (a b : Point R) (k : R) : dist2 a (pt_lerp a b k) = k * k * dist2 a b.
Proof.
  rewrite !dist2_formula.
  unfold pt_lerp, v_lerp, to_point, to_vec2, v_add, s_scale_v, v_scale, v_sub. cbn [px py vx vy].
  rs_unfold. ring.
Qed.

Lemma sqrt_ratio_sq (d2 x : R) : 0 < d2 -> d2 <= x -> sqrt (d2 / x) * sqrt (d2 / x) * x = d2.
Proof.
  intros Hd Hx. rewrite sqrt_sqrt; [field; lra|].
  apply Rlt_le, Rdiv_lt_0_compat; lra.
Qed.

(** first step: when it does not give up, p1 ends at distance >= dimension from p0 (exactly
    dimension when it was moved); the other three points are untouched *)
Lemma reg_step1_far (c c' : CubicBez R) (dim : R) : 0 < dim ->
  reg_step1 c (dim * dim) = Some c' ->
  dim * dim <= dist2 (c0 c') (c1 c') /\ c0 c' = c0 c /\ c2 c' = c2 c /\ c3 c' = c3 c /\
  (dim * dim <= dist2 (c0 c) (c1 c) -> c' = c).
Proof.
  intros Hd. unfold reg_step1. cbv zeta.
  change (@pt_distance_squared R RS) with dist2.
  change (@fltb R RS) with Rltb. change (@fleb R RS) with Rleb.
  destruct (Rltb_spec (dist2 (c0 c) (c1 c)) (dim * dim)) as [Hlt|Hge].
  - destruct (Rleb_spec (dim * dim) (dist2 (c0 c) (c2 c))) as [H2|H2]; [|intros E; discriminate E].
    intros E; inversion E; subst; clear E. unfold set_c1; cbn [c0 c1 c2 c3].
    repeat split; try lra.
    rewrite lerp_dist2. change (@fsqrt R RS) with sqrt. change (@fdiv R RS) with Rdiv.
    rewrite sqrt_ratio_sq; try lra. nra.
  - intros E; inversion E; subst. repeat split; auto; lra.
Qed.

(** second step: p0, p1, p3 untouched; when p2 is moved it lands on the segment p3 p1 at the
    distance dimension * |p1 p3| / |p1 p2| from p3 — NOT at distance dimension: the source computes
    [d13] as the squared distance of p1 and p2 *)
Lemma reg_step2_moved (c c' : CubicBez R) (dim : R) : 0 < dim ->
  reg_step2 c (dim * dim) = Some c' ->
  c0 c' = c0 c /\ c1 c' = c1 c /\ c3 c' = c3 c /\
  (dim * dim <= dist2 (c3 c) (c2 c) -> c' = c) /\
  (dist2 (c3 c) (c2 c) < dim * dim ->
     dist2 (c3 c') (c2 c') * dist2 (c1 c) (c2 c) = dim * dim * dist2 (c3 c) (c1 c)).
Proof.
  intros Hd. unfold reg_step2. cbv zeta.
  change (@pt_distance_squared R RS) with dist2.
  change (@fltb R RS) with Rltb. change (@fleb R RS) with Rleb.
  destruct (Rltb_spec (dist2 (c3 c) (c2 c)) (dim * dim)) as [Hlt|Hge].
  - destruct (Rleb_spec (dim * dim) (dist2 (c1 c) (c2 c))) as [H2|H2]; [|intros E; discriminate E].
    intros E; inversion E; subst; clear E. unfold set_c2; cbn [c0 c1 c2 c3].
    repeat split; try lra. intros _.
    rewrite lerp_dist2. change (@fsqrt R RS) with sqrt. change (@fdiv R RS) with Rdiv.
    replace (sqrt (dim * dim / dist2 (c1 c) (c2 c)) * sqrt (dim * dim / dist2 (c1 c) (c2 c)) * dist2 (c3 c) (c1 c) * dist2 (c1 c) (c2 c))
      with (sqrt (dim * dim / dist2 (c1 c) (c2 c)) * sqrt (dim * dim / dist2 (c1 c) (c2 c)) * dist2 (c1 c) (c2 c) * dist2 (c3 c) (c1 c)) by ring.
    rewrite sqrt_ratio_sq; try lra. nra.
  - intros E; inversion E; subst. repeat split; auto; lra.
Qed.

(** the whole function when no cusp is reported: either the straight-line fallback, or p0 / p3 kept
    and the first control arm at least [dimension] long *)
Lemma regularize_first_arm (c : CubicBez R) (dim : R) : 0 < dim ->
  regularize c dim 0 = reg_line c \/
  (c0 (regularize c dim 0) = c0 c /\ c3 (regularize c dim 0) = c3 c /\
   dim * dim <= dist2 (c0 (regularize c dim 0)) (c1 (regularize c dim 0))).
Proof.
  intros Hd. unfold regularize. change (@fmul R RS dim dim) with (dim * dim).
  destruct (reg_step1 c (dim * dim)) as [ca|] eqn:E1; [|left; reflexivity].
  destruct (reg_step1_far c Hd E1) as (F1 & A0 & A2 & A3 & _).
  destruct (reg_step2 ca (dim * dim)) as [cb|] eqn:E2.
  - destruct (reg_step2_moved ca Hd E2) as (B0 & B1 & B3 & _).
    right. unfold reg_cusp. cbn [Z.eqb]. rewrite B0, B1, B3, A0, A3. rewrite A0 in F1. auto.
  - left. unfold reg_line. rewrite A0, A3. reflexivity.
Qed.

(** ... but the LAST arm can stay far shorter than [dimension] *)
Definition short_arm_witness : CubicBez R :=
  mkCubic (mkPoint (-10) 0) (mkPoint (-1 / 2) 0) (mkPoint (1 / 2) 0) (mkPoint 0 0).

Lemma regularize_last_arm_short :
  regularize short_arm_witness 1 0 <> reg_line short_arm_witness /\
  dist2 (c3 (regularize short_arm_witness 1 0)) (c2 (regularize short_arm_witness 1 0)) = 1 / 4.
Proof.
  assert (E : regularize short_arm_witness 1 0 =
              mkCubic (mkPoint (-10) 0) (mkPoint (-1 / 2) 0) (mkPoint (-1 / 2) 0) (mkPoint 0 0)).
  { unfold regularize, reg_step1, reg_step2, short_arm_witness, set_c1, set_c2, reg_cusp.
    cbn [c0 c1 c2 c3 Z.eqb]. unfold pt_distance_squared, v_hypot2, v_dot, pt_sub. cbn [px py vx vy].
    rs_unfold.
    repeat (case_ifs; cbn [c0 c1 c2 c3 px py vx vy] in * ).
    all: try (exfalso; lra).
    unfold pt_lerp, v_lerp, to_point, to_vec2, v_add, s_scale_v, v_scale, v_sub. cbn [px py vx vy]. rs_unfold.
    match goal with |- context [sqrt ?x] => replace x with 1 by field end.
    rewrite sqrt_1. f_equal. f_equal; ring. }
  rewrite E. split.
  - unfold reg_line, short_arm_witness. cbn [c0 c3]. intro Hc. inversion Hc as [[Hx Hy]].
    unfold pt_lerp, v_lerp, to_point, to_vec2, v_add, s_scale_v, v_scale, v_sub, one_third in Hx. cbn [px py vx vy] in Hx.
    revert Hx. rs_unfold. lra.
  - rewrite dist2_formula. cbn [c2 c3 px py]. field.
Qed.

End Regularize.
