(** C07 — proofs. Everything is proved for an arbitrary scalar whose point equality test
    reflects Leibniz equality ([eqP]); the real instance [RS] satisfies it ([pt_eqb_RS]), binary64
    does not (-0 = 0, NaN <> NaN), which is why the theorems are stated at [RS].
    No bound on the length of the element list anywhere: all inductions are structural. *)
From Coq Require Import ZArith List Bool Arith Lia Reals Lra.
From KV Require Import Scalar RInst Geom Curves Path PathOps PathSpec.
Import ListNotations.

Set Implicit Arguments.

Section Generic.
Context {T : Type} {SC : Scalar T}.
Hypothesis eqP : forall a b : Point T, reflect (a = b) (pt_eqb a b).

Notation El := (PathEl T).
Notation Seg := (PathSeg T).
Notation Pt := (Point T).

(** ** point equality *)
Lemma pt_neb_false (a b : Pt) : pt_neb a b = false <-> a = b.
Proof. unfold pt_neb. destruct (eqP a b); simpl; split; intros; congruence. Qed.
Lemma pt_neb_true (a b : Pt) : pt_neb a b = true <-> a <> b.
Proof. unfold pt_neb. destruct (eqP a b); simpl; split; intros; congruence. Qed.
Lemma pt_neb_sym (a b : Pt) : pt_neb a b = pt_neb b a.
Proof. unfold pt_neb. destruct (eqP a b), (eqP b a); simpl; congruence. Qed.
Lemma pt_neb_refl (a : Pt) : pt_neb a a = false.
Proof. apply pt_neb_false; reflexivity. Qed.

(** ** the segment machine from a known state is total *)
Definition step1 (sl : Pt * Pt) (e : El) : (Pt * Pt) * option Seg :=
  let (start, last) := sl in
  match e with
  | MoveTo p => ((p, p), None)
  | LineTo p => ((start, p), Some (SegLine (mkLine last p)))
  | QuadTo p1 p2 => ((start, p2), Some (SegQuad (mkQuad last p1 p2)))
  | CurveTo p1 p2 p3 => ((start, p3), Some (SegCubic (mkCubic last p1 p2 p3)))
  | ClosePath => if pt_neb last start then ((start, start), Some (SegLine (mkLine last start)))
                 else ((start, last), None)
  end.

Arguments step1 : simpl never.

Fixpoint outs1 (sl : Pt * Pt) (els : list El) : list (option Seg) :=
  match els with
  | [] => []
  | e :: r => snd (step1 sl e) :: outs1 (fst (step1 sl e)) r
  end.
Fixpoint st1 (sl : Pt * Pt) (els : list El) : Pt * Pt :=
  match els with
  | [] => sl
  | e :: r => st1 (fst (step1 sl e)) r
  end.

Lemma seg_step_some sl e : seg_step (Some sl) e = Some (step1 sl e).
Proof. destruct sl as [s l]. unfold seg_step, step1. destruct e; try reflexivity. Qed.

Lemma outs_from_some : forall els sl, outs_from (Some sl) els = Some (outs1 sl els).
Proof.
  induction els as [|e r IH]; intros sl; simpl; [reflexivity|].
  rewrite seg_step_some. destruct (step1 sl e) as [st' out]. simpl. rewrite IH. reflexivity.
Qed.

Lemma segs_from_some : forall els sl, segs_from (Some sl) els = Some (cat_somes (outs1 sl els)).
Proof.
  induction els as [|e r IH]; intros sl; simpl; [reflexivity|].
  rewrite seg_step_some. destruct (step1 sl e) as [st' out]. simpl. rewrite IH.
  destruct out; reflexivity.
Qed.

Lemma outs_moveto p0 r : outs_from None (MoveTo p0 :: r) = Some (None :: outs1 (p0, p0) r).
Proof. simpl. rewrite outs_from_some. reflexivity. Qed.

Lemma segments_moveto p0 r : segments (MoveTo p0 :: r) = Some (cat_somes (outs1 (p0, p0) r)).
Proof. unfold segments. simpl. rewrite segs_from_some. reflexivity. Qed.

(** in general, the segment list is the concatenation of the per-element emissions *)
Lemma segs_outs : forall els st, segs_from st els = option_map (@cat_somes _) (outs_from st els).
Proof.
  induction els as [|e r IH]; intros st; simpl; [reflexivity|].
  destruct (seg_step st e) as [[st' out]|]; [|reflexivity].
  rewrite IH. destruct (outs_from (Some st') r); simpl; [|reflexivity].
  destruct out; reflexivity.
Qed.

Lemma outs1_length : forall els sl, length (outs1 sl els) = length els.
Proof. induction els; intros; simpl; [reflexivity|]. rewrite IHels. reflexivity. Qed.

Lemma outs1_app : forall l1 l2 sl, outs1 sl (l1 ++ l2) = outs1 sl l1 ++ outs1 (st1 sl l1) l2.
Proof. induction l1; intros; simpl; [reflexivity|]. rewrite IHl1. reflexivity. Qed.
Lemma st1_app : forall l1 l2 sl, st1 sl (l1 ++ l2) = st1 (st1 sl l1) l2.
Proof. induction l1; intros; simpl; [reflexivity|]. apply IHl1. Qed.

Lemma cat_somes_app {A} (a b : list (option A)) : cat_somes (a ++ b) = cat_somes a ++ cat_somes b.
Proof. unfold cat_somes. apply flat_map_app. Qed.

(** ** the state after a prefix is (sub-path start, current point) *)
Lemma last_moveto_app : forall l1 l2 (acc : option Pt),
  last_moveto acc (l1 ++ l2) = last_moveto (last_moveto acc l1) l2.
Proof. induction l1 as [|e r IH]; intros; simpl; [reflexivity|]. destruct e; apply IH. Qed.

Lemma cur_point_snoc (pre : list El) (e : El) :
  cur_point (pre ++ [e]) = match e with ClosePath => cur_start (pre ++ [e]) | _ => el_end e end.
Proof. unfold cur_point. rewrite map_app. simpl. rewrite last_last. destruct e; reflexivity. Qed.

Lemma cur_start_snoc (pre : list El) (e : El) :
  cur_start (pre ++ [e]) = match e with MoveTo p => Some p | _ => cur_start pre end.
Proof. unfold cur_start. rewrite last_moveto_app. simpl. destruct e; reflexivity. Qed.

Definition tracks (sl : Pt * Pt) (pre : list El) : Prop :=
  cur_start pre = Some (fst sl) /\ cur_point pre = Some (snd sl).

Lemma tracks_step sl pre e : tracks sl pre -> tracks (fst (step1 sl e)) (pre ++ [e]).
Proof.
  destruct sl as [s l]. unfold tracks. simpl. intros [Hs Hl].
  rewrite cur_point_snoc, cur_start_snoc.
  destruct e; unfold step1; simpl; rewrite ?Hs; try (split; reflexivity).
  destruct (pt_neb l s) eqn:E; simpl; [split; reflexivity|].
  apply pt_neb_false in E. subst. split; reflexivity.
Qed.

Lemma tracks_st1 : forall r sl pre, tracks sl pre -> tracks (st1 sl r) (pre ++ r).
Proof.
  induction r as [|e r IH]; intros sl pre Ht; simpl.
  - rewrite app_nil_r. exact Ht.
  - replace (pre ++ e :: r) with ((pre ++ [e]) ++ r) by (rewrite <- app_assoc; reflexivity).
    apply IH. apply tracks_step. exact Ht.
Qed.

Lemma tracks_init p0 : tracks (p0, p0) [MoveTo p0].
Proof. split; reflexivity. Qed.

Lemma state_spec p0 pre' : tracks (st1 (p0, p0) pre') (MoveTo p0 :: pre').
Proof. apply (tracks_st1 pre' (tracks_init p0)). Qed.

(** ** [get_seg_req] = the emission of [segments] at that element *)
Lemma find_map_moveto_rev : forall (pre : list El) (acc : option Pt),
  last_moveto acc pre =
  match find_map (fun el => match el with MoveTo p => Some p | _ => None end) (rev pre) with
  | Some p => Some p
  | None => acc
  end.
Proof.
  induction pre as [|e r IH]; intros acc; simpl; [reflexivity|].
  assert (Hfm : forall (f : El -> option Pt) (l1 l2 : list El),
            find_map f (l1 ++ l2) = match find_map f l1 with Some y => Some y | None => find_map f l2 end).
  { intros f l1; induction l1 as [|x l1 IHl]; intros l2; simpl; [reflexivity|].
    destruct (f x); [reflexivity|apply IHl]. }
  rewrite Hfm. simpl.
  destruct e; rewrite IH;
    destruct (find_map (fun el : El => match el with MoveTo p => Some p | _ => None end) (rev r)); reflexivity.
Qed.

Lemma firstn_length_app {A} (l1 l2 : list A) : firstn (length l1) (l1 ++ l2) = l1.
Proof. induction l1; simpl; [destruct l2; reflexivity|]. rewrite IHl1. reflexivity. Qed.

Lemma subpath_start_prefix (pre post : list El) :
  subpath_start (pre ++ post) (length pre) = cur_start pre.
Proof.
  unfold subpath_start, cur_start. rewrite firstn_length_app, find_map_moveto_rev.
  destruct (find_map _ (rev pre)); reflexivity.
Qed.

Lemma nth_error_last_prefix {A} (pre0 : list A) (x : A) (post : list A) :
  nth_error ((pre0 ++ [x]) ++ post) (length (pre0 ++ [x]) - 1) = Some x.
Proof.
  rewrite app_length. simpl. replace (length pre0 + 1 - 1) with (length pre0) by lia.
  rewrite <- app_assoc. rewrite nth_error_app2 by lia. rewrite Nat.sub_diag. reflexivity.
Qed.

Lemma get_seg_req_at pre e post sl :
  pre <> [] -> tracks sl pre ->
  get_seg_req (pre ++ e :: post) (length pre) = snd (step1 sl e).
Proof.
  intros Hne [Hs Hl]. destruct sl as [s l]. simpl in Hs, Hl.
  destruct (exists_last Hne) as [pre0 [prev Hpre]].
  unfold get_seg_req.
  assert (Hlen : length pre <> 0) by (destruct pre; simpl; [congruence|lia]).
  replace (length pre =? 0) with false by (symmetry; apply Nat.eqb_neq; exact Hlen).
  replace (length (pre ++ e :: post) <=? length pre) with false
    by (symmetry; apply Nat.leb_gt; rewrite app_length; simpl; lia).
  simpl orb. cbv iota.
  rewrite subpath_start_prefix, Hs.
  assert (Hprev : nth_error (pre ++ e :: post) (length pre - 1) = Some prev).
  { rewrite Hpre. apply nth_error_last_prefix. }
  rewrite Hprev.
  assert (Hcur : match el_end prev with Some p => Some p | None => Some s end = Some l).
  { rewrite Hpre in Hl. rewrite cur_point_snoc in Hl.
    rewrite <- Hpre in Hl. destruct prev; simpl in *; try exact Hl.
    rewrite Hs in Hl. exact Hl. }
  rewrite Hcur.
  rewrite nth_error_app2 by lia. rewrite Nat.sub_diag. simpl nth_error. cbv iota.
  destruct e; unfold step1; simpl; try reflexivity.
  rewrite (pt_neb_sym s l). destruct (pt_neb l s); reflexivity.
Qed.

Theorem get_seg_req_spec : forall (els : list El),
  starts_with_moveto els ->
  exists outs, outs_from None els = Some outs /\
               segments els = Some (cat_somes outs) /\
               length outs = length els /\
               forall i, get_seg_req els i = nth i outs None.
Proof.
  intros [|[p0| | | |] r] Hs; simpl in Hs; try contradiction.
  exists (None :: outs1 (p0, p0) r).
  split; [apply outs_moveto|]. split; [rewrite segments_moveto; reflexivity|].
  split; [simpl; rewrite outs1_length; reflexivity|].
  intros i.
  destruct (Nat.eq_dec i 0) as [->|Hi0]; [reflexivity|].
  destruct (le_lt_dec (length (MoveTo p0 :: r)) i) as [Hge|Hlt].
  - rewrite nth_overflow by (simpl in *; rewrite outs1_length; exact Hge).
    unfold get_seg_req.
    replace (length (MoveTo p0 :: r) <=? i) with true by (symmetry; apply Nat.leb_le; exact Hge).
    rewrite orb_true_r. reflexivity.
  - destruct i as [|j]; [congruence|]. simpl in Hlt.
    assert (Hj : j < length r) by lia.
    pose proof (firstn_skipn j r) as Hsplit.
    remember (firstn j r) as pre' eqn:Hp. remember (skipn j r) as post0 eqn:Hq.
    assert (Hlp : length pre' = j) by (subst pre'; apply firstn_length_le; lia).
    destruct post0 as [|e post].
    { exfalso. rewrite app_nil_r in Hsplit. subst r. lia. }
    rewrite <- Hsplit.
    change (MoveTo p0 :: pre' ++ e :: post) with ((MoveTo p0 :: pre') ++ e :: post).
    replace (S j) with (length (MoveTo p0 :: pre')) by (simpl; lia).
    rewrite (@get_seg_req_at (MoveTo p0 :: pre') e post (st1 (p0, p0) pre'));
      [|discriminate|apply state_spec].
    simpl length. simpl nth. rewrite outs1_app. simpl outs1.
    rewrite app_nth2 by (rewrite outs1_length; lia).
    rewrite outs1_length, Hlp, Nat.sub_diag. reflexivity.
Qed.

(** ** ClosePath contributes the closing line exactly when the current point is not the start *)
Theorem closepath_emission : forall (pre post : list El),
  starts_with_moveto pre ->
  exists start cur outs,
    cur_start pre = Some start /\ cur_point pre = Some cur /\
    outs_from None (pre ++ ClosePath :: post) = Some outs /\
    nth (length pre) outs None = (if pt_neb cur start then Some (SegLine (mkLine cur start)) else None) /\
    (* and afterwards the current point is the start *)
    cur_point (pre ++ [ClosePath]) = Some start.
Proof.
  intros [|[p0| | | |] pre'] post Hs; simpl in Hs; try contradiction.
  pose proof (state_spec p0 pre') as Ht.
  destruct (st1 (p0, p0) pre') as [s l] eqn:Est. destruct Ht as [Hcs Hcp]. simpl in Hcs, Hcp.
  exists s, l, (None :: outs1 (p0, p0) (pre' ++ ClosePath :: post)).
  split; [exact Hcs|]. split; [exact Hcp|].
  split; [simpl app; apply outs_moveto|].
  split.
  - simpl length. simpl nth. rewrite outs1_app. simpl outs1.
    rewrite app_nth2 by (rewrite outs1_length; lia).
    rewrite outs1_length, Nat.sub_diag. simpl nth. rewrite Est. unfold step1. simpl.
    destruct (pt_neb l s); reflexivity.
  - rewrite cur_point_snoc, cur_start_snoc. exact Hcs.
Qed.

(** ** rebuild *)
Fixpoint fps (segs : list Seg) (cur : option Pt) : list El :=
  match segs with
  | [] => []
  | s :: r =>
      (if match cur with None => true | Some c => pt_neb (seg_start s) c end then [MoveTo (seg_start s)] else [])
      ++ seg_to_el s :: fps r (Some (seg_end s))
  end.

Lemma fps_loop_fps : forall segs cur acc, fps_loop segs cur acc = acc ++ fps segs cur.
Proof.
  induction segs as [|s r IH]; intros cur acc; simpl; [rewrite app_nil_r; reflexivity|].
  rewrite IH.
  destruct (match cur with None => true | Some c => pt_neb (seg_start s) c end); simpl;
    repeat rewrite <- app_assoc; reflexivity.
Qed.

Lemma from_path_segments_fps segs : from_path_segments segs = fps segs None.
Proof. unfold from_path_segments. rewrite fps_loop_fps. reflexivity. Qed.

Lemma step1_seg_to_el s0 (s : Seg) : step1 (s0, seg_start s) (seg_to_el s) = ((s0, seg_end s), Some s).
Proof. destruct s as [[a b]|[a b c]|[a b c d]]; reflexivity. Qed.

Lemma outs1_fps : forall segs s0 c,
  cat_somes (outs1 (s0, c) (fps segs (Some c))) = segs.
Proof.
  induction segs as [|s r IH]; intros s0 c; simpl; [reflexivity|].
  destruct (pt_neb (seg_start s) c) eqn:E; simpl.
  - rewrite step1_seg_to_el. simpl. rewrite IH. reflexivity.
  - apply pt_neb_false in E. rewrite <- E. rewrite step1_seg_to_el. simpl. rewrite IH. reflexivity.
Qed.

Theorem rebuild_segments_any : forall segs : list Seg,
  segments (from_path_segments segs) = Some segs.
Proof.
  intros [|s r]; [reflexivity|].
  rewrite from_path_segments_fps. simpl fps. simpl app.
  rewrite segments_moveto. simpl outs1. rewrite step1_seg_to_el. simpl.
  rewrite outs1_fps. reflexivity.
Qed.

Lemma count_moveto_app (a b : list El) : count_moveto (a ++ b) = count_moveto a + count_moveto b.
Proof. unfold count_moveto. rewrite filter_app, app_length. reflexivity. Qed.

Lemma count_moveto_seg_to_el (s : Seg) l : count_moveto (seg_to_el s :: l) = count_moveto l.
Proof. destruct s; reflexivity. Qed.

Lemma count_moveto_fps : forall segs c,
  count_moveto (fps segs (Some c)) =
  match segs with
  | [] => 0
  | s :: _ => (if pt_neb (seg_start s) c then 1 else 0) + discontinuities segs
  end.
Proof.
  induction segs as [|s r IH]; intros c; [reflexivity|].
  simpl fps. rewrite count_moveto_app, count_moveto_seg_to_el, IH.
  destruct r as [|s' r']; simpl.
  - destruct (pt_neb (seg_start s) c); reflexivity.
  - destruct (pt_neb (seg_start s) c), (pt_neb (seg_start s') (seg_end s)); simpl; lia.
Qed.

Theorem rebuild_moveto_count : forall segs : list Seg,
  count_moveto (from_path_segments segs) =
  match segs with [] => 0 | _ => 1 + discontinuities segs end.
Proof.
  intros [|s r]; [reflexivity|].
  rewrite from_path_segments_fps. simpl fps. simpl app.
  change (MoveTo (seg_start s) :: seg_to_el s :: fps r (Some (seg_end s)))
    with ([MoveTo (seg_start s)] ++ seg_to_el s :: fps r (Some (seg_end s))).
  rewrite count_moveto_app, count_moveto_seg_to_el, count_moveto_fps.
  destruct r as [|s' r']; [reflexivity|].
  simpl. destruct (pt_neb (seg_start s') (seg_end s)); simpl; lia.
Qed.

Lemma fps_length : forall segs cur, length (fps segs cur) = length segs + count_moveto (fps segs cur).
Proof.
  induction segs as [|s r IH]; intros cur; [reflexivity|].
  simpl fps. rewrite app_length, count_moveto_app, count_moveto_seg_to_el. simpl length. rewrite IH.
  destruct (match cur with None => true | Some c => pt_neb (seg_start s) c end); simpl; lia.
Qed.

(** ** runs of drawing elements *)
Lemma is_draw_end (e : El) : is_draw e = true -> exists q, el_end e = Some q.
Proof. destruct e; simpl; intros; try discriminate; eexists; reflexivity. Qed.
Lemma el_end_flip (s : Pt) (e : El) : is_draw e = true -> el_end (flip_el s e) = Some s.
Proof. destruct e; simpl; intros; try discriminate; reflexivity. Qed.
Lemma is_draw_flip (s : Pt) (e : El) : is_draw e = true -> is_draw (flip_el s e) = true.
Proof. destruct e; simpl; intros; try discriminate; reflexivity. Qed.
Lemma flip_flip (s : Pt) (e : El) q : is_draw e = true -> el_end e = Some q -> flip_el q (flip_el s e) = e.
Proof. destruct e; simpl; intros Hd He; try discriminate; inversion He; reflexivity. Qed.

Lemma draw_end_app : forall (a b : list El) (s : Pt), draw_end s (a ++ b) = draw_end (draw_end s a) b.
Proof. induction a; intros; simpl; [reflexivity|apply IHa]. Qed.

Lemma draw_segs_app : forall (a b : list El) (s : Pt), forallb is_draw a = true ->
  draw_segs s (a ++ b) = draw_segs s a ++ draw_segs (draw_end s a) b.
Proof.
  induction a as [|e a IH]; intros b s Ha; simpl; [reflexivity|].
  simpl in Ha. apply andb_true_iff in Ha. destruct Ha as [He Ha].
  destruct e; simpl in He; try discriminate; simpl; rewrite IH by exact Ha; reflexivity.
Qed.

Lemma rev_draw_app : forall (a b : list El) (s : Pt),
  rev_draw s (a ++ b) = rev_draw (draw_end s a) b ++ rev_draw s a.
Proof.
  induction a as [|e a IH]; intros b s; simpl; [rewrite app_nil_r; reflexivity|].
  rewrite IH, app_assoc. reflexivity.
Qed.

Lemma forallb_rev_draw : forall (d : list El) (s : Pt),
  forallb is_draw d = true -> forallb is_draw (rev_draw s d) = true.
Proof.
  induction d as [|e d IH]; intros s Hd; simpl; [reflexivity|].
  simpl in Hd. apply andb_true_iff in Hd. destruct Hd as [He Hd].
  rewrite forallb_app, IH by exact Hd. simpl. rewrite is_draw_flip by exact He. reflexivity.
Qed.

Lemma draw_end_rev : forall (d : list El) (s : Pt),
  forallb is_draw d = true -> draw_end (draw_end s d) (rev_draw s d) = s.
Proof.
  induction d as [|e d IH]; intros s Hd; simpl; [reflexivity|].
  simpl in Hd. apply andb_true_iff in Hd. destruct Hd as [He Hd].
  rewrite draw_end_app, IH by exact Hd. simpl. rewrite el_end_flip by exact He. reflexivity.
Qed.

Lemma draw_segs_flip (s : Pt) (e : El) q : is_draw e = true -> el_end e = Some q ->
  draw_segs q [flip_el s e] = map (@seg_reverse T) (draw_segs s [e]).
Proof. destruct e; simpl; intros Hd He; try discriminate; inversion He; reflexivity. Qed.

Lemma draw_segs_cons (s : Pt) (e : El) (d : list El) q : is_draw e = true -> el_end e = Some q ->
  draw_segs s (e :: d) = draw_segs s [e] ++ draw_segs q d.
Proof. destruct e; simpl; intros Hd He; try discriminate; inversion He; reflexivity. Qed.

Lemma draw_segs_rev : forall (d : list El) (s : Pt), forallb is_draw d = true ->
  draw_segs (draw_end s d) (rev_draw s d) = rev (map (@seg_reverse T) (draw_segs s d)).
Proof.
  induction d as [|e d IH]; intros s Hd; [reflexivity|].
  simpl in Hd. apply andb_true_iff in Hd. destruct Hd as [He Hd].
  destruct (is_draw_end e He) as [q Hq].
  rewrite (draw_segs_cons s e d He Hq).
  simpl draw_end. simpl rev_draw. rewrite Hq.
  rewrite draw_segs_app by (apply forallb_rev_draw; exact Hd).
  rewrite draw_end_rev by exact Hd. rewrite IH by exact Hd.
  rewrite (draw_segs_flip s e He Hq).
  rewrite map_app, rev_app_distr.
  destruct e; simpl in He; try discriminate; reflexivity.
Qed.

Lemma rev_draw_invol : forall (d : list El) (s : Pt), forallb is_draw d = true ->
  rev_draw (draw_end s d) (rev_draw s d) = d.
Proof.
  induction d as [|e d IH]; intros s Hd; [reflexivity|].
  simpl in Hd. apply andb_true_iff in Hd. destruct Hd as [He Hd].
  destruct (is_draw_end e He) as [q Hq].
  simpl draw_end. simpl rev_draw. rewrite Hq.
  rewrite rev_draw_app. rewrite draw_end_rev by exact Hd. rewrite IH by exact Hd.
  simpl. rewrite (flip_flip s e He Hq). reflexivity.
Qed.


Lemma rev_case {A} (l : list A) : l = [] \/ exists l0 y, l = l0 ++ [y].
Proof. destruct l as [|a l]; [left; reflexivity|right]. destruct (@exists_last _ (a :: l)) as [l0 [y Hy]]; [discriminate|]. exists l0, y. exact Hy. Qed.

Lemma last_draw_end (d : list El) (s : Pt) : forallb is_draw d = true ->
  match last (map Some d) None with
  | Some el => match el_end el with Some p => p | None => s end
  | None => s
  end = draw_end s d.
Proof.
  intros Hd. destruct (rev_case d) as [->|[d0 [y ->]]]; [reflexivity|].
  rewrite map_app. simpl map. rewrite last_last.
  rewrite forallb_app in Hd. apply andb_true_iff in Hd. destruct Hd as [_ Hy]. simpl in Hy.
  rewrite andb_true_r in Hy. destruct (is_draw_end y Hy) as [q Hq].
  rewrite draw_end_app. simpl. rewrite Hq. reflexivity.
Qed.

Lemma before_point (l rest : list El) (start : Pt) : forallb is_draw l = true ->
  (if 0 <? length l
   then match nth_error (l ++ rest) (length l - 1) with Some e => el_end e | None => None end
   else Some start) = Some (draw_end start l).
Proof.
  intros Hd. destruct (rev_case l) as [->|[l0 [y ->]]]; [reflexivity|].
  replace (0 <? length (l0 ++ [y])) with true by (symmetry; apply Nat.ltb_lt; rewrite app_length; simpl; lia).
  rewrite nth_error_last_prefix.
  rewrite forallb_app in Hd. apply andb_true_iff in Hd. destruct Hd as [_ Hy]. simpl in Hy.
  rewrite andb_true_r in Hy. destruct (is_draw_end y Hy) as [q Hq].
  rewrite draw_end_app. simpl. rewrite Hq. reflexivity.
Qed.

Lemma enumerate_snoc : forall (p : list El) (e : El) (a : nat),
  combine (seq a (length (p ++ [e]))) (p ++ [e]) = combine (seq a (length p)) p ++ [(a + length p, e)].
Proof.
  induction p as [|x p IH]; intros e a; simpl.
  - rewrite Nat.add_0_r. reflexivity.
  - rewrite IH. rewrite Nat.add_succ_r. reflexivity.
Qed.

(** ** [reverse_subpath] on a run of drawing elements *)
Lemma rs_loop_spec : forall (p q : list El) (start : Pt) (acc : list El),
  forallb is_draw p = true ->
  reverse_subpath_loop start (p ++ q) (rev (enumerate p)) acc = Some (acc ++ rev_draw start p).
Proof.
  induction p as [|x l IH] using rev_ind; intros q start acc Hd.
  - simpl. rewrite app_nil_r. reflexivity.
  - unfold enumerate. rewrite enumerate_snoc, rev_app_distr. simpl rev. simpl app.
    rewrite forallb_app in Hd. apply andb_true_iff in Hd. destruct Hd as [Hl Hx]. simpl in Hx.
    rewrite andb_true_r in Hx.
    cbn [reverse_subpath_loop].
    rewrite <- app_assoc. rewrite (before_point l ([x] ++ q) start Hl).
    rewrite rev_draw_app. simpl rev_draw.
    fold (enumerate l).
    destruct x; simpl in Hx; try discriminate; rewrite IH by exact Hl;
      rewrite <- app_assoc; reflexivity.
Qed.

Lemma reverse_subpath_spec (start : Pt) (d acc : list El) : forallb is_draw d = true ->
  reverse_subpath start d acc = Some (acc ++ MoveTo (draw_end start d) :: rev_draw start d).
Proof.
  intros Hd. unfold reverse_subpath. rewrite (last_draw_end d start Hd).
  pose proof (rs_loop_spec d [] start (acc ++ [MoveTo (draw_end start d)]) Hd) as Hl.
  rewrite app_nil_r in Hl. rewrite Hl. rewrite <- app_assoc. reflexivity.
Qed.

(** ** [reverse_subpaths] writes out the reversed sub-paths *)
Definition rev_finish (elements : list El) (ost : option (RevState (T:=T))) : option (list El) :=
  match ost with
  | None => None
  | Some st =>
      if (rv_start_ix st <? length elements)%nat
      then reverse_subpath (rv_start_pt st) (slice elements (rv_start_ix st) (length elements)) (rv_reversed st)
      else if rv_pending st then Some (rv_reversed st ++ [MoveTo (rv_start_pt st)])
      else Some (rv_reversed st)
  end.

Lemma slice_prefix (pre post : list El) a : a <= length pre -> slice (pre ++ post) a (length pre) = skipn a pre.
Proof.
  intros Ha. unfold slice. rewrite skipn_app. replace (a - length pre) with 0 by lia. simpl skipn.
  rewrite <- (skipn_length a pre). apply firstn_length_app.
Qed.

Lemma render_rev_chunk (start : Pt) (acc : list El) (closed : bool) :
  render (rev_chunk (mkChunk start acc closed)) =
  MoveTo (draw_end start acc) :: rev_draw start acc ++ (if closed then [ClosePath] else []).
Proof. reflexivity. Qed.

Lemma nonempty_length {A} (l : list A) : nonempty l = (0 <? length l).
Proof. destruct l; reflexivity. Qed.

Lemma reverse_fold_spec : forall (post pre : list El) (st : RevState (T:=T)) (start : Pt) (acc : list El) (explicit : bool),
  rv_start_ix st <= length pre ->
  skipn (rv_start_ix st) pre = acc ->
  forallb is_draw acc = true ->
  rv_start_pt st = start ->
  rv_pending st = explicit && negb (nonempty acc) ->
  rev_finish (pre ++ post)
    (fold_left (reverse_step (pre ++ post)) (combine (seq (length pre) (length post)) post) (Some st))
  = Some (rv_reversed st ++ flat_map (@render T) (map (@rev_chunk T) (chunks_from start acc explicit post))).
Proof.
  induction post as [|e post IH]; intros pre st start acc explicit Hle Hskip Hdraw Hpt Hpend.
  - (* end of the path *)
    simpl fold_left. unfold rev_finish. rewrite app_nil_r.
    assert (Hlen : length acc = length pre - rv_start_ix st) by (rewrite <- Hskip; apply skipn_length).
    simpl chunks_from. rewrite Hpend, Hpt.
    destruct acc as [|a acc'].
    + replace (rv_start_ix st <? length pre) with false by (symmetry; apply Nat.ltb_ge; simpl in Hlen; lia).
      simpl. rewrite andb_true_r, orb_false_r. destruct explicit; simpl; [reflexivity|rewrite app_nil_r; reflexivity].
    + replace (rv_start_ix st <? length pre) with true by (symmetry; apply Nat.ltb_lt; simpl in Hlen; lia).
      pose proof (slice_prefix pre [] Hle) as Hs. rewrite app_nil_r in Hs. rewrite Hs, Hskip.
      rewrite reverse_subpath_spec by exact Hdraw.
      simpl nonempty. rewrite orb_true_r. cbn [map flat_map]. rewrite render_rev_chunk. rewrite !app_nil_r. reflexivity.
  - (* one more element *)
    assert (Hlen : length acc = length pre - rv_start_ix st) by (rewrite <- Hskip; apply skipn_length).
    assert (Hels : pre ++ e :: post = (pre ++ [e]) ++ post) by (rewrite <- app_assoc; reflexivity).
    simpl length. simpl seq. simpl combine. simpl fold_left.
    assert (Hseq : S (length pre) = length (pre ++ [e])) by (rewrite app_length; simpl; lia).
    rewrite Hseq. rewrite Hels.
    assert (Hslice : slice ((pre ++ [e]) ++ post) (rv_start_ix st) (length pre) = acc).
    { rewrite <- Hels. rewrite slice_prefix by exact Hle. exact Hskip. }
    assert (Hne : nonempty acc = (rv_start_ix st <? length pre)).
    { rewrite nonempty_length. rewrite Hlen. destruct (rv_start_ix st <? length pre) eqn:E.
      - apply Nat.ltb_lt in E. apply Nat.ltb_lt. lia.
      - apply Nat.ltb_ge in E. apply Nat.ltb_ge. lia. }
    destruct e as [pt|p|p1 p2|p1 p2 p3|].
    + (* MoveTo *)
      rewrite Hslice, Hpt, Hpend, <- Hne.
      simpl chunks_from.
      destruct acc as [|a acc'].
      * simpl nonempty. simpl negb. rewrite andb_true_r, orb_false_r. cbv iota.
        rewrite (IH (pre ++ [MoveTo pt])
                    (mkRev (length pre + 1) pt (if explicit then rv_reversed st ++ [MoveTo start] else rv_reversed st) true)
                    pt [] true).
        -- simpl rv_reversed. destruct explicit; simpl; [rewrite <- app_assoc|]; reflexivity.
        -- simpl. rewrite app_length. simpl. lia.
        -- simpl. apply skipn_all2. rewrite app_length. simpl. lia.
        -- reflexivity.
        -- reflexivity.
        -- reflexivity.
      * simpl nonempty. simpl negb. rewrite andb_false_r, orb_true_r. cbv iota.
        rewrite reverse_subpath_spec by exact Hdraw.
        rewrite (IH (pre ++ [MoveTo pt])
                    (mkRev (length pre + 1) pt (rv_reversed st ++ MoveTo (draw_end start (a :: acc')) :: rev_draw start (a :: acc')) true)
                    pt [] true).
        -- cbn [rv_reversed app map flat_map]. rewrite render_rev_chunk.
           rewrite app_nil_r. rewrite <- !app_assoc. reflexivity.
        -- simpl. rewrite app_length. simpl. lia.
        -- simpl. apply skipn_all2. rewrite app_length. simpl. lia.
        -- reflexivity.
        -- reflexivity.
        -- reflexivity.
    + (* LineTo *)
      simpl chunks_from.
      apply (IH (pre ++ [LineTo p]) (mkRev (rv_start_ix st) (rv_start_pt st) (rv_reversed st) false) start (acc ++ [LineTo p]) explicit).
      * simpl. rewrite app_length. simpl. lia.
      * simpl. rewrite skipn_app. replace (rv_start_ix st - length pre) with 0 by lia. rewrite Hskip. reflexivity.
      * rewrite forallb_app, Hdraw. reflexivity.
      * exact Hpt.
      * simpl. destruct acc; simpl; rewrite andb_false_r; reflexivity.
    + (* QuadTo *)
      simpl chunks_from.
      apply (IH (pre ++ [QuadTo p1 p2]) (mkRev (rv_start_ix st) (rv_start_pt st) (rv_reversed st) false) start (acc ++ [QuadTo p1 p2]) explicit).
      * simpl. rewrite app_length. simpl. lia.
      * simpl. rewrite skipn_app. replace (rv_start_ix st - length pre) with 0 by lia. rewrite Hskip. reflexivity.
      * rewrite forallb_app, Hdraw. reflexivity.
      * exact Hpt.
      * simpl. destruct acc; simpl; rewrite andb_false_r; reflexivity.
    + (* CurveTo *)
      simpl chunks_from.
      apply (IH (pre ++ [CurveTo p1 p2 p3]) (mkRev (rv_start_ix st) (rv_start_pt st) (rv_reversed st) false) start (acc ++ [CurveTo p1 p2 p3]) explicit).
      * simpl. rewrite app_length. simpl. lia.
      * simpl. rewrite skipn_app. replace (rv_start_ix st - length pre) with 0 by lia. rewrite Hskip. reflexivity.
      * rewrite forallb_app, Hdraw. reflexivity.
      * exact Hpt.
      * simpl. destruct acc; simpl; rewrite andb_false_r; reflexivity.
    + (* ClosePath *)
      rewrite Hslice, Hpt.
      replace (rv_start_ix st <=? length pre) with true by (symmetry; apply Nat.leb_le; exact Hle).
      rewrite reverse_subpath_spec by exact Hdraw.
      simpl chunks_from.
      rewrite (IH (pre ++ [ClosePath])
                  (mkRev (length pre + 1) start ((rv_reversed st ++ MoveTo (draw_end start acc) :: rev_draw start acc) ++ [ClosePath]) false)
                  start [] false).
      * cbn [rv_reversed app map flat_map]. rewrite render_rev_chunk.
        f_equal. rewrite <- !app_assoc. f_equal. simpl. rewrite <- ?app_assoc. reflexivity.
      * simpl. rewrite app_length. simpl. lia.
      * simpl. apply skipn_all2. rewrite app_length. simpl. lia.
      * reflexivity.
      * reflexivity.
      * reflexivity.
Qed.

Theorem reverse_render : forall (p0 : Pt) (r : list El),
  reverse_subpaths (MoveTo p0 :: r) =
  Some (flat_map (@render T) (map (@rev_chunk T) (chunks (MoveTo p0 :: r)))).
Proof.
  intros p0 r.
  change (reverse_subpaths (MoveTo p0 :: r))
    with (rev_finish ([MoveTo p0] ++ r)
            (fold_left (reverse_step ([MoveTo p0] ++ r)) (combine (seq (length [MoveTo p0]) (length r)) r)
                       (Some (mkRev 1 p0 [] true)))).
  rewrite (@reverse_fold_spec r [MoveTo p0] (mkRev 1 p0 [] true) p0 [] true); try reflexivity.
Qed.

(** ** sub-path decomposition *)
Lemma chunks_from_wf : forall (els : list El) (start : Pt) (acc : list El) (ex : bool),
  forallb is_draw acc = true -> Forall (@chunk_wf T) (chunks_from start acc ex els).
Proof.
  induction els as [|e r IH]; intros start acc ex Ha; simpl.
  - destruct (ex || nonempty acc); repeat constructor. exact Ha.
  - destruct e.
    + apply Forall_app. split; [|apply IH; reflexivity].
      destruct (ex || nonempty acc); repeat constructor. exact Ha.
    + apply IH. rewrite forallb_app, Ha. reflexivity.
    + apply IH. rewrite forallb_app, Ha. reflexivity.
    + apply IH. rewrite forallb_app, Ha. reflexivity.
    + constructor; [exact Ha|apply IH; reflexivity].
Qed.

Lemma chunks_wf (els : list El) : Forall (@chunk_wf T) (chunks els).
Proof. destruct els as [|[p| | | |] r]; simpl; try constructor. apply chunks_from_wf. reflexivity. Qed.

Lemma chunks_from_draw : forall (d : list El) (start : Pt) (acc : list El) (ex : bool) (rest : list El),
  forallb is_draw d = true -> chunks_from start acc ex (d ++ rest) = chunks_from start (acc ++ d) ex rest.
Proof.
  induction d as [|e d IH]; intros start acc ex rest Hd; simpl; [rewrite app_nil_r; reflexivity|].
  simpl in Hd. apply andb_true_iff in Hd. destruct Hd as [He Hd].
  destruct e; simpl in He; try discriminate; rewrite IH by exact Hd; rewrite <- app_assoc; reflexivity.
Qed.

Lemma chunks_from_render : forall (cs : list (Chunk (T:=T))) (start : Pt) (acc : list El) (ex : bool),
  Forall (@chunk_wf T) cs ->
  chunks_from start acc ex (flat_map (@render T) cs) =
  (if ex || nonempty acc then [mkChunk start acc false] else []) ++ cs.
Proof.
  induction cs as [|c cs IH]; intros start acc ex Hwf.
  - simpl. rewrite app_nil_r. reflexivity.
  - inversion Hwf as [|c' cs' Hc Hcs]; subst. destruct c as [s d cl]. unfold chunk_wf in Hc. simpl in Hc.
    cbn [flat_map]. unfold render at 1. cbn [ch_start ch_draw ch_closed app chunks_from].
    f_equal. rewrite <- app_assoc. rewrite chunks_from_draw by exact Hc. cbn [app].
    destruct cl; cbn [app chunks_from]; rewrite IH by exact Hcs; reflexivity.
Qed.

Lemma chunks_render (cs : list (Chunk (T:=T))) : Forall (@chunk_wf T) cs -> chunks (flat_map (@render T) cs) = cs.
Proof.
  intros Hwf. destruct cs as [|c cs]; [reflexivity|].
  pose proof (@chunks_from_render (c :: cs) (ch_start c) [] false Hwf) as H.
  cbn [flat_map] in *. unfold render at 1 in H. unfold render at 1. cbn [app chunks_from chunks] in *.
  exact H.
Qed.

Lemma rev_chunk_wf (c : Chunk (T:=T)) : chunk_wf c -> chunk_wf (rev_chunk c).
Proof. unfold chunk_wf, rev_chunk. simpl. apply forallb_rev_draw. Qed.

Lemma rev_chunk_invol (c : Chunk (T:=T)) : chunk_wf c -> rev_chunk (rev_chunk c) = c.
Proof.
  destruct c as [a d cl]. unfold chunk_wf, rev_chunk, chunk_end. simpl. intros Hd.
  rewrite draw_end_rev, rev_draw_invol by exact Hd. reflexivity.
Qed.

Lemma map_rev_chunk_wf (cs : list (Chunk (T:=T))) : Forall (@chunk_wf T) cs -> Forall (@chunk_wf T) (map (@rev_chunk T) cs).
Proof. induction 1; simpl; constructor; [apply rev_chunk_wf; assumption|assumption]. Qed.

Lemma map_rev_chunk_invol (cs : list (Chunk (T:=T))) : Forall (@chunk_wf T) cs -> map (@rev_chunk T) (map (@rev_chunk T) cs) = cs.
Proof. induction 1; simpl; [reflexivity|]. rewrite rev_chunk_invol by assumption. f_equal. assumption. Qed.

Lemma outs_chunks : forall (post : list El) (start : Pt) (acc : list El) (ex : bool),
  forallb is_draw acc = true ->
  draw_segs start acc ++ cat_somes (outs1 (start, draw_end start acc) post)
  = flat_map (@chunk_segs T _) (chunks_from start acc ex post).
Proof.
  induction post as [|e r IH]; intros start acc ex Ha.
  - simpl. rewrite app_nil_r. destruct acc as [|a acc'].
    + destruct ex; reflexivity.
    + rewrite orb_true_r. simpl flat_map. unfold chunk_segs. simpl. rewrite !app_nil_r. reflexivity.
  - assert (Hemit : flat_map (@chunk_segs T _) (if ex || nonempty acc then [mkChunk start acc false] else [])
                    = draw_segs start acc).
    { destruct acc as [|a acc'].
      - destruct ex; reflexivity.
      - rewrite orb_true_r. simpl flat_map. unfold chunk_segs. simpl. rewrite !app_nil_r. reflexivity. }
    destruct e as [p|p|p1 p2|p1 p2 p3|]; cbn [chunks_from outs1].
    + unfold step1 at 1 2. cbn [fst snd]. rewrite flat_map_app, Hemit.
      rewrite <- (IH p [] true eq_refl). reflexivity.
    + rewrite <- (IH start (acc ++ [LineTo p]) ex) by (rewrite forallb_app, Ha; reflexivity).
      rewrite draw_segs_app by exact Ha. rewrite draw_end_app. unfold step1. simpl.
      rewrite <- app_assoc. reflexivity.
    + rewrite <- (IH start (acc ++ [QuadTo p1 p2]) ex) by (rewrite forallb_app, Ha; reflexivity).
      rewrite draw_segs_app by exact Ha. rewrite draw_end_app. unfold step1. simpl.
      rewrite <- app_assoc. reflexivity.
    + rewrite <- (IH start (acc ++ [CurveTo p1 p2 p3]) ex) by (rewrite forallb_app, Ha; reflexivity).
      rewrite draw_segs_app by exact Ha. rewrite draw_end_app. unfold step1. simpl.
      rewrite <- app_assoc. reflexivity.
    + cbn [flat_map]. rewrite <- (IH start [] false eq_refl).
      unfold chunk_segs, chunk_end. cbn [ch_start ch_draw ch_closed andb draw_segs draw_end app].
      unfold step1. destruct (pt_neb (draw_end start acc) start) eqn:E; cbn [fst snd].
      * unfold cat_somes. simpl. rewrite <- app_assoc. reflexivity.
      * apply pt_neb_false in E. rewrite E. unfold cat_somes. simpl. rewrite app_nil_r. reflexivity.
Qed.

Theorem segments_chunks : forall els : list El, starts_with_moveto els ->
  segments els = Some (flat_map (@chunk_segs T _) (chunks els)).
Proof.
  intros [|[p0| | | |] r] Hs; simpl in Hs; try contradiction.
  rewrite segments_moveto. simpl chunks.
  rewrite <- (outs_chunks r p0 [] true eq_refl). reflexivity.
Qed.

Theorem reverse_render_moveto : forall els : list El, starts_with_moveto els ->
  reverse_subpaths els = Some (flat_map (@render T) (map (@rev_chunk T) (chunks els))).
Proof. intros [|[p0| | | |] r] Hs; simpl in Hs; try contradiction. apply reverse_render. Qed.

(** the segments of a reversed sub-path: reversed segments in reverse order; for a closed sub-path
    that needs a closing line, rotated by one position (the closing line moves to the end) *)
Theorem chunk_segs_rev : forall c : Chunk (T:=T), chunk_wf c ->
  chunk_segs (rev_chunk c) =
  let R := rev (map (@seg_reverse T) (chunk_segs c)) in
  if ch_closed c && pt_neb (chunk_end c) (ch_start c) then rotl1 R else R.
Proof.
  intros [a d cl] Hd. unfold chunk_wf in Hd. simpl in Hd.
  unfold chunk_segs, rev_chunk, chunk_end. cbn [ch_start ch_draw ch_closed].
  rewrite draw_end_rev, draw_segs_rev by exact Hd.
  rewrite (pt_neb_sym a (draw_end a d)).
  destruct (cl && pt_neb (draw_end a d) a).
  - rewrite map_app, rev_app_distr. simpl. reflexivity.
  - rewrite !app_nil_r. reflexivity.
Qed.

Lemma chunks_from_explicit_nonempty : forall (els : list El) (s : Pt) (acc : list El),
  chunks_from s acc true els <> [].
Proof.
  induction els as [|e r IH]; intros s acc; simpl; [discriminate|].
  destruct e; try apply IH; discriminate.
Qed.

Lemma flat_render_starts (cs : list (Chunk (T:=T))) : cs <> [] -> starts_with_moveto (flat_map (@render T) cs).
Proof. destruct cs; [congruence|]. intros _. simpl. exact I. Qed.

Theorem reverse_twice : forall els : list El, starts_with_moveto els ->
  exists r1, reverse_subpaths els = Some r1 /\
             starts_with_moveto r1 /\
             reverse_subpaths r1 = Some (flat_map (@render T) (chunks els)) /\
             segments (flat_map (@render T) (chunks els)) = segments els.
Proof.
  intros els Hs.
  pose proof (chunks_wf els) as Hwf.
  assert (Hne : chunks els <> []).
  { destruct els as [|[p0| | | |] r]; simpl in Hs; try contradiction. apply chunks_from_explicit_nonempty. }
  exists (flat_map (@render T) (map (@rev_chunk T) (chunks els))).
  split; [apply reverse_render_moveto; exact Hs|].
  assert (Hs1 : starts_with_moveto (flat_map (@render T) (map (@rev_chunk T) (chunks els)))).
  { apply flat_render_starts. destruct (chunks els); [congruence|discriminate]. }
  split; [exact Hs1|]. split.
  - rewrite (reverse_render_moveto _ Hs1).
    rewrite chunks_render by (apply map_rev_chunk_wf; exact Hwf).
    rewrite map_rev_chunk_invol by exact Hwf. reflexivity.
  - rewrite (segments_chunks _ (flat_render_starts Hne)).
    rewrite chunks_render by exact Hwf. symmetry. apply segments_chunks. exact Hs.
Qed.

(** ** the builder *)
Lemma segments_app_moveto (p0 : Pt) (r l2 : list El) :
  segments ((MoveTo p0 :: r) ++ l2) =
  Some (cat_somes (outs1 (p0, p0) r) ++ cat_somes (outs1 (st1 (p0, p0) r) l2)).
Proof. simpl app. rewrite segments_moveto, outs1_app, cat_somes_app. reflexivity. Qed.

Theorem extend_segments : forall (l it : list El), starts_with_moveto l ->
  exists segs rest, segments l = Some segs /\ segments (bp_extend l it) = Some (segs ++ rest).
Proof.
  intros [|[p0| | | |] r] it Hs; simpl in Hs; try contradiction.
  eexists _, _. split; [apply segments_moveto|]. unfold bp_extend. apply segments_app_moveto.
Qed.

Theorem push_segments : forall (l : list El) (e : El), starts_with_moveto l ->
  exists start cur segs st' out,
    cur_start l = Some start /\ cur_point l = Some cur /\ segments l = Some segs /\
    seg_step (Some (start, cur)) e = Some (st', out) /\
    segments (bp_push l e) = Some (segs ++ match out with Some s => [s] | None => [] end).
Proof.
  intros [|[p0| | | |] r] e Hs; simpl in Hs; try contradiction.
  pose proof (state_spec p0 r) as [Hcs Hcp].
  destruct (st1 (p0, p0) r) as [s c] eqn:Est. simpl in Hcs, Hcp.
  exists s, c, (cat_somes (outs1 (p0, p0) r)), (fst (step1 (s, c) e)), (snd (step1 (s, c) e)).
  split; [exact Hcs|]. split; [exact Hcp|]. split; [apply segments_moveto|].
  split; [rewrite seg_step_some; destruct (step1 (s, c) e); reflexivity|].
  unfold bp_push. rewrite segments_app_moveto, Est. simpl outs1. unfold cat_somes at 2. simpl.
  rewrite app_nil_r. reflexivity.
Qed.

Theorem truncate_segments : forall (l : list El) (n : nat), starts_with_moveto l ->
  exists segs segs' rest, segments l = Some segs /\ segments (bp_truncate l n) = Some segs' /\
                          segs = segs' ++ rest.
Proof.
  intros [|[p0| | | |] r] n Hs; simpl in Hs; try contradiction.
  destruct n as [|m].
  - exists (cat_somes (outs1 (p0, p0) r)), [], (cat_somes (outs1 (p0, p0) r)).
    split; [apply segments_moveto|]. split; reflexivity.
  - unfold bp_truncate. simpl firstn.
    exists (cat_somes (outs1 (p0, p0) r)), (cat_somes (outs1 (p0, p0) (firstn m r))),
           (cat_somes (outs1 (st1 (p0, p0) (firstn m r)) (skipn m r))).
    split; [apply segments_moveto|]. split; [apply segments_moveto|].
    rewrite <- cat_somes_app, <- outs1_app, firstn_skipn. reflexivity.
Qed.

Theorem pop_segments : forall (l : list El), starts_with_moveto l ->
  exists segs segs' rest, segments l = Some segs /\ segments (fst (bp_pop l)) = Some segs' /\
                          segs = segs' ++ rest /\ length rest <= 1.
Proof.
  intros l Hs. destruct (rev_case l) as [->|[l0 [y ->]]]; [simpl in Hs; contradiction|].
  unfold bp_pop. cbn [fst]. rewrite removelast_last.
  destruct l0 as [|e0 r0].
  - simpl in Hs. destruct y; try contradiction. exists [], [], []. repeat split; simpl; lia.
  - destruct e0; simpl in Hs; try contradiction.
    exists (cat_somes (outs1 (p, p) r0) ++ cat_somes (outs1 (st1 (p, p) r0) [y])),
           (cat_somes (outs1 (p, p) r0)), (cat_somes (outs1 (st1 (p, p) r0) [y])).
    split; [apply segments_app_moveto|]. split; [apply segments_moveto|]. split; [reflexivity|].
    simpl. destruct (snd (step1 (st1 (p, p) r0) y)); simpl; lia.
Qed.

End Generic.

(** ** the real instance *)

Lemma pt_eqb_RS : forall a b : Point R, reflect (a = b) (pt_eqb a b).
Proof.
  intros [ax ay] [bx by_]. unfold pt_eqb. simpl.
  destruct (Reqb_spec ax bx), (Reqb_spec ay by_); simpl; constructor; congruence.
Qed.

(** the two corners in which the pinned [get_seg] disagrees with [segments] *)
Lemma get_seg_after_closepath (a b c : Point R) :
  let els := [MoveTo a; LineTo b; ClosePath; LineTo c] in
  get_seg els 3 = None /\ get_seg_req els 3 = Some (SegLine (mkLine a c)).
Proof. split; reflexivity. Qed.

Lemma get_seg_degenerate_closepath (a b : Point R) : a <> b ->
  let els := [MoveTo a; MoveTo b; ClosePath] in
  get_seg els 2 = Some (SegLine (mkLine b a)) /\ get_seg_req els 2 = None.
Proof.
  intros Hab. split.
  - unfold get_seg. simpl.
    rewrite (proj2 (pt_neb_false pt_eqb_RS b b) eq_refl).
    rewrite (proj2 (pt_neb_true pt_eqb_RS a b) Hab). reflexivity.
  - unfold get_seg_req, subpath_start. simpl.
    rewrite (proj2 (pt_neb_false pt_eqb_RS b b) eq_refl). reflexivity.
Qed.

(** ** derived statements at the real instance (what Properties/C07.v exposes) *)
Definition wa : Point R := mkPoint 0%R 0%R.
Definition wb : Point R := mkPoint 1%R 0%R.
Definition wc : Point R := mkPoint 0%R 1%R.
Lemma wa_neq_wb : wa <> wb.
Proof. unfold wa, wb. intros H. inversion H. lra. Qed.

Lemma get_seg_spec_refuted_after_closepath_R :
  exists (els : list (PathEl R)) (i : nat) outs,
    starts_with_moveto els /\ outs_from None els = Some outs /\
    nth_error els (i - 1) = Some ClosePath /\
    get_seg els i = None /\ nth i outs None = Some (SegLine (mkLine wa wc)).
Proof.
  destruct (get_seg_req_spec pt_eqb_RS [MoveTo wa; LineTo wb; ClosePath; LineTo wc] I)
    as [outs [Ho [_ [_ Hg]]]].
  exists [MoveTo wa; LineTo wb; ClosePath; LineTo wc], 3%nat, outs.
  split; [exact I|]. split; [exact Ho|]. split; [reflexivity|].
  rewrite <- Hg. apply get_seg_after_closepath.
Qed.

Lemma get_seg_spec_refuted_degenerate_closepath_R :
  exists (els : list (PathEl R)) (i : nat) outs,
    starts_with_moveto els /\ outs_from None els = Some outs /\
    nth_error els i = Some ClosePath /\
    get_seg els i = Some (SegLine (mkLine wb wa)) /\ nth i outs None = None.
Proof.
  destruct (get_seg_req_spec pt_eqb_RS [MoveTo wa; MoveTo wb; ClosePath] I)
    as [outs [Ho [_ [_ Hg]]]].
  exists [MoveTo wa; MoveTo wb; ClosePath], 2%nat, outs.
  split; [exact I|]. split; [exact Ho|]. split; [reflexivity|].
  rewrite <- Hg. apply get_seg_degenerate_closepath. exact wa_neq_wb.
Qed.

Lemma closepath_line_iff_R : forall (pre post : list (PathEl R)),
  starts_with_moveto pre ->
  exists start cur outs,
    cur_start pre = Some start /\ cur_point pre = Some cur /\
    outs_from None (pre ++ ClosePath :: post) = Some outs /\
    (cur <> start -> nth (length pre) outs None = Some (SegLine (mkLine cur start))) /\
    (cur = start -> nth (length pre) outs None = None) /\
    cur_point (pre ++ [ClosePath]) = Some start.
Proof.
  intros pre post Hs.
  destruct (closepath_emission pt_eqb_RS pre post Hs) as [s [c [outs [H1 [H2 [H3 [H4 H5]]]]]]].
  exists s, c, outs. repeat split; try assumption.
  - intros Hne. rewrite H4. rewrite (proj2 (pt_neb_true pt_eqb_RS c s) Hne). reflexivity.
  - intros He. rewrite H4. rewrite (proj2 (pt_neb_false pt_eqb_RS c s) He). reflexivity.
Qed.

Lemma rebuild_no_spurious_moves_R : forall segs : list (PathSeg R),
  count_moveto (from_path_segments segs) = match segs with [] => 0 | _ => 1 + discontinuities segs end /\
  length (from_path_segments segs) = length segs + count_moveto (from_path_segments segs).
Proof.
  intros segs. split; [apply rebuild_moveto_count|].
  rewrite from_path_segments_fps. apply fps_length.
Qed.

Lemma reverse_spec_R : forall els : list (PathEl R), starts_with_moveto els ->
  let cs := chunks els in
  Forall (@chunk_wf R) cs /\
  segments els = Some (flat_map (@chunk_segs R _) cs) /\
  (exists r, reverse_subpaths els = Some r /\
             r = flat_map (@render R) (map (@rev_chunk R) cs) /\
             chunks r = map (@rev_chunk R) cs /\
             segments r = Some (flat_map (@chunk_segs R _) (map (@rev_chunk R) cs))) /\
  Forall (fun c =>
            ch_closed (rev_chunk c) = ch_closed c /\
            (ch_closed c = false ->
             chunk_segs (rev_chunk c) = rev (map (@seg_reverse R) (chunk_segs c))) /\
            (ch_closed c = true ->
             let Rv := rev (map (@seg_reverse R) (chunk_segs c)) in
             chunk_segs (rev_chunk c) = (if pt_neb (chunk_end c) (ch_start c) then rotl1 Rv else Rv))) cs.
Proof.
  intros els Hs cs. pose proof (chunks_wf els) as Hwf. fold cs in Hwf.
  split; [exact Hwf|]. split; [apply (segments_chunks pt_eqb_RS); exact Hs|]. split.
  - exists (flat_map (@render R) (map (@rev_chunk R) cs)).
    split; [apply reverse_render_moveto; exact Hs|]. split; [reflexivity|].
    assert (Hwf' := map_rev_chunk_wf Hwf).
    split; [apply chunks_render; exact Hwf'|].
    assert (Hne : map (@rev_chunk R) cs <> []).
    { unfold cs. destruct els as [|[p0| | | |] r]; simpl in Hs; try contradiction.
      simpl chunks. pose proof (@chunks_from_explicit_nonempty R r p0 []) as H.
      destruct (chunks_from p0 [] true r); [congruence|discriminate]. }
    rewrite (segments_chunks pt_eqb_RS _ (flat_render_starts Hne)).
    rewrite chunks_render by exact Hwf'. reflexivity.
  - apply Forall_forall. intros c Hc. rewrite Forall_forall in Hwf. specialize (Hwf c Hc).
    split; [reflexivity|].
    pose proof (chunk_segs_rev pt_eqb_RS Hwf) as Hr. cbv zeta in Hr.
    split; intros Hcl; rewrite Hr, Hcl; reflexivity.
Qed.

Lemma reverse_twice_segments_R : forall els : list (PathEl R), starts_with_moveto els ->
  exists r1 r2, reverse_subpaths els = Some r1 /\ reverse_subpaths r1 = Some r2 /\
                segments r2 = segments els /\ r2 = flat_map (@render R) (chunks els).
Proof.
  intros els Hs. destruct (reverse_twice pt_eqb_RS els Hs) as [r1 [H1 [_ [H2 H3]]]].
  exists r1, (flat_map (@render R) (chunks els)). repeat split; assumption.
Qed.

Lemma reverse_twice_needs_moveto_R :
  exists els : list (PathEl R), ~ starts_with_moveto els /\
    exists r1 r2, reverse_subpaths els = Some r1 /\ reverse_subpaths r1 = Some r2 /\
                  segments r2 <> segments els.
Proof.
  exists [LineTo wb]. split; [simpl; tauto|].
  exists [], []. split; [reflexivity|]. split; [reflexivity|]. discriminate.
Qed.

Lemma builder_history_R : forall (h : list (BOp (T:=R))) (l : list (PathEl R)) pops,
  run_history [] h = (l, pops) -> starts_with_moveto l ->
  shape_path_segments l = segments l /\
  exists outs, outs_from None l = Some outs /\ segments l = Some (cat_somes outs) /\
               length outs = length l /\ forall i, get_seg_req l i = nth i outs None.
Proof. intros h l pops _ Hs. split; [reflexivity|]. apply (get_seg_req_spec pt_eqb_RS). exact Hs. Qed.

(** outside the two corners the pinned [get_seg] is the required one *)
Lemma get_seg_agrees_off_corners {T : Type} {SC : Scalar T} (els : list (PathEl T)) (i : nat) :
  nth_error els (i - 1) <> Some ClosePath -> nth_error els i <> Some ClosePath ->
  get_seg els i = get_seg_req els i.
Proof.
  intros Hp He. unfold get_seg, get_seg_req.
  destruct ((i =? 0) || (length els <=? i)); [reflexivity|].
  destruct (nth_error els (i - 1)) as [prev|]; [|reflexivity].
  destruct prev; try congruence; simpl;
    destruct (nth_error els i) as [[]|]; try reflexivity; congruence.
Qed.
