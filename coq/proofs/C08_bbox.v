(** C08, part 3: bounding boxes of segments and paths, the control box — real instance. *)
From Coq Require Import ZArith QArith Reals List Bool Lra Lia Sorting.Sorted.
From KV Require Import Scalar RInst Geom Curves Rect Path Solvers Extrema RTac ExtremaSpec.
From KV Require Import C06_proofs C08_base C08_proofs.
Import ListNotations.
Local Open Scope R_scope.

(** * the four sides of [bbox_of] are running minima / maxima *)
Section BoxOf.
Variable ev : R -> Point R.

Let step (bb : Rect R) (t : R) : Rect R := rect_union_pt bb (ev t).

Lemma fold_union_pt_x0 (l : list R) (acc : Rect R) :
  rx0 (fold_left step l acc) = fold_left (fun m t => Rmin m (px (ev t))) l (rx0 acc).
Proof. revert acc. induction l as [|t l IH]; intro acc; simpl; [reflexivity|]. rewrite IH. reflexivity. Qed.
Lemma fold_union_pt_y0 (l : list R) (acc : Rect R) :
  ry0 (fold_left step l acc) = fold_left (fun m t => Rmin m (py (ev t))) l (ry0 acc).
Proof. revert acc. induction l as [|t l IH]; intro acc; simpl; [reflexivity|]. rewrite IH. reflexivity. Qed.
Lemma fold_union_pt_x1 (l : list R) (acc : Rect R) :
  rx1 (fold_left step l acc) = fold_left (fun m t => Rmax m (px (ev t))) l (rx1 acc).
Proof. revert acc. induction l as [|t l IH]; intro acc; simpl; [reflexivity|]. rewrite IH. reflexivity. Qed.
Lemma fold_union_pt_y1 (l : list R) (acc : Rect R) :
  ry1 (fold_left step l acc) = fold_left (fun m t => Rmax m (py (ev t))) l (ry1 acc).
Proof. revert acc. induction l as [|t l IH]; intro acc; simpl; [reflexivity|]. rewrite IH. reflexivity. Qed.

Variables (ps pe : Point R) (l : list R).
Let B := bbox_of ps pe ev l.

(** the box contains both end points and every evaluated extremum *)
Lemma bbox_of_has :
  rect_has B ps /\ rect_has B pe /\ forall t, In t l -> rect_has B (ev t).
Proof.
  unfold B, bbox_of. fold step. unfold rect_has.
  rewrite fold_union_pt_x0, fold_union_pt_y0, fold_union_pt_x1, fold_union_pt_y1.
  destruct (fold_min_spec (fun t => px (ev t)) l (rx0 (rect_from_points ps pe))) as (A1 & A2 & _).
  destruct (fold_min_spec (fun t => py (ev t)) l (ry0 (rect_from_points ps pe))) as (B1 & B2 & _).
  destruct (fold_max_spec (fun t => px (ev t)) l (rx1 (rect_from_points ps pe))) as (C1 & C2 & _).
  destruct (fold_max_spec (fun t => py (ev t)) l (ry1 (rect_from_points ps pe))) as (D1 & D2 & _).
  cbv zeta in *.
  change (rx0 (rect_from_points ps pe)) with (Rmin (px ps) (px pe)) in *.
  change (ry0 (rect_from_points ps pe)) with (Rmin (py ps) (py pe)) in *.
  change (rx1 (rect_from_points ps pe)) with (Rmax (px ps) (px pe)) in *.
  change (ry1 (rect_from_points ps pe)) with (Rmax (py ps) (py pe)) in *.
  pose proof (Rmin_l (px ps) (px pe)). pose proof (Rmin_r (px ps) (px pe)).
  pose proof (Rmin_l (py ps) (py pe)). pose proof (Rmin_r (py ps) (py pe)).
  pose proof (Rmax_l (px ps) (px pe)). pose proof (Rmax_r (px ps) (px pe)).
  pose proof (Rmax_l (py ps) (py pe)). pose proof (Rmax_r (py ps) (py pe)).
  split; [|split].
  - lra.
  - lra.
  - intros t Ht. pose proof (A2 t Ht). pose proof (B2 t Ht). pose proof (C2 t Ht). pose proof (D2 t Ht). lra.
Qed.

(** every side is the coordinate of an end point or of an evaluated extremum *)
Definition attained (side : R) (proj : Point R -> R) : Prop :=
  side = proj ps \/ side = proj pe \/ exists t, In t l /\ side = proj (ev t).

Lemma bbox_of_attained :
  attained (rx0 B) (@px R) /\ attained (rx1 B) (@px R) /\ attained (ry0 B) (@py R) /\ attained (ry1 B) (@py R).
Proof.
  unfold B, bbox_of. fold step. unfold attained.
  rewrite fold_union_pt_x0, fold_union_pt_y0, fold_union_pt_x1, fold_union_pt_y1.
  destruct (fold_min_spec (fun t => px (ev t)) l (rx0 (rect_from_points ps pe))) as (_ & _ & A3).
  destruct (fold_min_spec (fun t => py (ev t)) l (ry0 (rect_from_points ps pe))) as (_ & _ & B3).
  destruct (fold_max_spec (fun t => px (ev t)) l (rx1 (rect_from_points ps pe))) as (_ & _ & C3).
  destruct (fold_max_spec (fun t => py (ev t)) l (ry1 (rect_from_points ps pe))) as (_ & _ & D3).
  cbv zeta in *.
  change (rx0 (rect_from_points ps pe)) with (Rmin (px ps) (px pe)) in *.
  change (ry0 (rect_from_points ps pe)) with (Rmin (py ps) (py pe)) in *.
  change (rx1 (rect_from_points ps pe)) with (Rmax (px ps) (px pe)) in *.
  change (ry1 (rect_from_points ps pe)) with (Rmax (py ps) (py pe)) in *.
  repeat split.
  - destruct A3 as [->|A3]; [|right; right; exact A3].
    unfold Rmin. destruct (Rle_dec (px ps) (px pe)); auto.
  - destruct C3 as [->|C3]; [|right; right; exact C3].
    unfold Rmax. destruct (Rle_dec (px ps) (px pe)); auto.
  - destruct B3 as [->|B3]; [|right; right; exact B3].
    unfold Rmin. destruct (Rle_dec (py ps) (py pe)); auto.
  - destruct D3 as [->|D3]; [|right; right; exact D3].
    unfold Rmax. destruct (Rle_dec (py ps) (py pe)); auto.
Qed.
End BoxOf.

(** * bounding box of one segment *)

Lemma seg_eval_0 (s : PathSeg R) : seg_eval s 0 = seg_start s.
Proof. apply seg_eval_endpoints. Qed.
Lemma seg_eval_1 (s : PathSeg R) : seg_eval s 1 = seg_end s.
Proof. apply seg_eval_endpoints. Qed.

(** tightness: for any list of parameters in [0,1] the box built from them touches the curve
    on all four sides *)
Lemma bbox_touches (s : PathSeg R) (l : list R) : (forall t, In t l -> 0 <= t <= 1) ->
  touches_all_sides s (bbox_of (seg_start s) (seg_end s) (seg_eval s) l).
Proof.
  intro Hl.
  destruct (bbox_of_attained (seg_eval s) (seg_start s) (seg_end s) l) as (A & B & C & D).
  unfold touches_all_sides, seg_x, seg_y.
  assert (K : forall side proj, attained (seg_eval s) (seg_start s) (seg_end s) l side proj ->
              exists t, 0 <= t <= 1 /\ proj (seg_eval s t) = side).
  { intros side proj [E|[E|(t & Ht & E)]].
    - exists 0. split; [lra|]. rewrite seg_eval_0. symmetry; exact E.
    - exists 1. split; [lra|]. rewrite seg_eval_1. symmetry; exact E.
    - exists t. split; [apply Hl; exact Ht|symmetry; exact E]. }
  repeat split; apply K; assumption.
Qed.

(** containment: a list meeting the extrema specification gives a box containing the curve *)
Lemma bbox_contains (s : PathSeg R) (l : list R) : extrema_spec s l ->
  forall t, 0 <= t <= 1 -> rect_has (bbox_of (seg_start s) (seg_end s) (seg_eval s) l) (seg_eval s t).
Proof.
  intros Hs t Ht.
  destruct (bbox_of_has (seg_eval s) (seg_start s) (seg_end s) l) as (H0 & H1 & Hl).
  set (B := bbox_of _ _ _ _) in *.
  destruct (ranges_cover_unit l t Ht) as (a & b & Hin & Hab).
  destruct (ranges_monotone_of_spec s l a b Hs Hin) as (A0 & A1 & A2 & Ea & Eb & Mx & My).
  assert (Ha : rect_has B (seg_eval s a)).
  { destruct Ea as [->|Ea]; [rewrite seg_eval_0; exact H0|apply Hl; exact Ea]. }
  assert (Hb : rect_has B (seg_eval s b)).
  { destruct Eb as [->|Eb]; [rewrite seg_eval_1; exact H1|apply Hl; exact Eb]. }
  pose proof (mono_on_between (seg_x s) a b t Mx Hab) as Bx.
  pose proof (mono_on_between (seg_y s) a b t My Hab) as By.
  unfold rect_has, seg_x, seg_y in *.
  destruct Ha as [[? ?] [? ?]]. destruct Hb as [[? ?] [? ?]].
  revert Bx By. unfold Rmin, Rmax.
  destruct (Rle_dec (px (seg_eval s a)) (px (seg_eval s b))),
           (Rle_dec (py (seg_eval s a)) (py (seg_eval s b))); intros; lra.
Qed.

Lemma seg_bbox_lin_contains (s : PathSeg R) t : 0 <= t <= 1 ->
  rect_has (seg_bounding_box_lin s) (seg_eval s t).
Proof. apply bbox_contains. apply seg_extrema_lin_spec. Qed.

Lemma seg_bbox_contains_guarded (s : PathSeg R) t : seg_lead_ok s -> 0 <= t <= 1 ->
  rect_has (seg_bounding_box s) (seg_eval s t).
Proof. intros Hok. apply bbox_contains. apply seg_extrema_spec_guarded. exact Hok. Qed.

Lemma seg_bbox_lin_tight (s : PathSeg R) : touches_all_sides s (seg_bounding_box_lin s).
Proof.
  apply bbox_touches. intros t Ht.
  pose proof (ex_sound _ _ (seg_extrema_lin_spec s) t Ht) as [H _]. lra.
Qed.

Lemma seg_bbox_tight (s : PathSeg R) : touches_all_sides s (seg_bounding_box s).
Proof.
  apply bbox_touches. intros t Ht.
  destruct (seg_extrema_sound s) as [H _]. destruct (H t Ht) as [H01 _]. lra.
Qed.

Lemma seg_bbox_eq_lin (s : PathSeg R) : seg_lead_ok s -> seg_bounding_box s = seg_bounding_box_lin s.
Proof. intro Hok. unfold seg_bounding_box, seg_bounding_box_lin. rewrite (seg_extrema_eq_lin s Hok). reflexivity. Qed.

(** the concrete types' [bounding_box] are the same function *)
Lemma concrete_bbox_eq (s : PathSeg R) :
  seg_bounding_box s = match s with
                       | SegLine l => line_bounding_box l
                       | SegQuad q => quad_bounding_box q
                       | SegCubic c => cubic_bounding_box c
                       end.
Proof. destruct s; reflexivity. Qed.

Lemma convex_comb4 (b0 b1 b2 b3 x0 x1 x2 x3 lo hi : R) :
  0 <= b0 -> 0 <= b1 -> 0 <= b2 -> 0 <= b3 -> b0 + b1 + b2 + b3 = 1 ->
  lo <= x0 <= hi -> lo <= x1 <= hi -> lo <= x2 <= hi -> lo <= x3 <= hi ->
  lo <= b0 * x0 + b1 * x1 + b2 * x2 + b3 * x3 <= hi.
Proof.
  intros B0 B1 B2 B3 Hs H0 H1 H2 H3.
  assert (0 <= b0 * (x0 - lo)) by (apply Rmult_le_pos; lra).
  assert (0 <= b1 * (x1 - lo)) by (apply Rmult_le_pos; lra).
  assert (0 <= b2 * (x2 - lo)) by (apply Rmult_le_pos; lra).
  assert (0 <= b3 * (x3 - lo)) by (apply Rmult_le_pos; lra).
  assert (0 <= b0 * (hi - x0)) by (apply Rmult_le_pos; lra).
  assert (0 <= b1 * (hi - x1)) by (apply Rmult_le_pos; lra).
  assert (0 <= b2 * (hi - x2)) by (apply Rmult_le_pos; lra).
  assert (0 <= b3 * (hi - x3)) by (apply Rmult_le_pos; lra).
  assert (lo * (b0 + b1 + b2 + b3) = lo) by (rewrite Hs; ring).
  assert (hi * (b0 + b1 + b2 + b3) = hi) by (rewrite Hs; ring).
  split; nra.
Qed.

(** * the convex-hull property: a rectangle containing the control points contains the curve *)
Lemma seg_hull (s : PathSeg R) (r : Rect R) t : 0 <= t <= 1 ->
  (forall p, In p (seg_points s) -> rect_has r p) -> rect_has r (seg_eval s t).
Proof.
  intros [H0 H1] Hp.
  assert (Hm : 0 <= 1 - t) by lra.
  destruct r as [X0 Y0 X1 Y1]. unfold rect_has in *. simpl rx0 in *. simpl rx1 in *. simpl ry0 in *. simpl ry1 in *.
  destruct s as [[[x0 y0] [x1 y1]] | [[x0 y0] [x1 y1] [x2 y2]] | [[x0 y0] [x1 y1] [x2 y2] [x3 y3]]]; simpl seg_points in Hp.
  - pose proof (Hp _ (or_introl eq_refl)) as P0. pose proof (Hp _ (or_intror (or_introl eq_refl))) as P1.
    simpl in P0, P1. crv_unfold.
    replace (x0 + (x1 - x0) * t) with ((1 - t) * x0 + t * x1 + 0 * x0 + 0 * x0) by ring.
    replace (y0 + (y1 - y0) * t) with ((1 - t) * y0 + t * y1 + 0 * y0 + 0 * y0) by ring.
    split; apply convex_comb4; lra.
  - pose proof (Hp _ (or_introl eq_refl)) as P0. pose proof (Hp _ (or_intror (or_introl eq_refl))) as P1.
    pose proof (Hp _ (or_intror (or_intror (or_introl eq_refl)))) as P2.
    simpl in P0, P1, P2. crv_unfold.
    replace (x0 * ((1 - t) * (1 - t)) + (x1 * ((1 - t) * 2) + x2 * t) * t)
      with (((1 - t) * (1 - t)) * x0 + (2 * ((1 - t) * t)) * x1 + (t * t) * x2 + 0 * x0) by ring.
    replace (y0 * ((1 - t) * (1 - t)) + (y1 * ((1 - t) * 2) + y2 * t) * t)
      with (((1 - t) * (1 - t)) * y0 + (2 * ((1 - t) * t)) * y1 + (t * t) * y2 + 0 * y0) by ring.
    split; apply convex_comb4; try lra; try ring; repeat apply Rmult_le_pos; lra.
  - pose proof (Hp _ (or_introl eq_refl)) as P0. pose proof (Hp _ (or_intror (or_introl eq_refl))) as P1.
    pose proof (Hp _ (or_intror (or_intror (or_introl eq_refl)))) as P2.
    pose proof (Hp _ (or_intror (or_intror (or_intror (or_introl eq_refl))))) as P3.
    simpl in P0, P1, P2, P3. crv_unfold.
    replace (x0 * ((1 - t) * (1 - t) * (1 - t)) + (x1 * ((1 - t) * (1 - t) * 3) + (x2 * ((1 - t) * 3) + x3 * t) * t) * t)
      with (((1 - t) * (1 - t) * (1 - t)) * x0 + (3 * ((1 - t) * (1 - t) * t)) * x1 + (3 * ((1 - t) * (t * t))) * x2 + (t * t * t) * x3) by ring.
    replace (y0 * ((1 - t) * (1 - t) * (1 - t)) + (y1 * ((1 - t) * (1 - t) * 3) + (y2 * ((1 - t) * 3) + y3 * t) * t) * t)
      with (((1 - t) * (1 - t) * (1 - t)) * y0 + (3 * ((1 - t) * (1 - t) * t)) * y1 + (3 * ((1 - t) * (t * t))) * y2 + (t * t * t) * y3) by ring.
    split; apply convex_comb4; try lra; try ring; repeat apply Rmult_le_pos; lra.
Qed.

(** so a box touched on all sides by the curve lies inside any rectangle containing the control points *)
Lemma touched_within_hull (s : PathSeg R) (bb r : Rect R) : touches_all_sides s bb ->
  (forall p, In p (seg_points s) -> rect_has r p) -> rect_within bb r.
Proof.
  intros ((t1 & H1 & E1) & (t2 & H2 & E2) & (t3 & H3 & E3) & (t4 & H4 & E4)) Hp.
  pose proof (seg_hull s r t1 H1 Hp) as K1. pose proof (seg_hull s r t2 H2 Hp) as K2.
  pose proof (seg_hull s r t3 H3 Hp) as K3. pose proof (seg_hull s r t4 H4 Hp) as K4.
  unfold rect_has, rect_within, seg_x, seg_y in *. lra.
Qed.

Lemma seg_bbox_within_hull (s : PathSeg R) (r : Rect R) :
  (forall p, In p (seg_points s) -> rect_has r p) -> rect_within (seg_bounding_box s) r.
Proof. apply touched_within_hull. apply seg_bbox_tight. Qed.

(** minimality: a rectangle containing the whole curve contains the bounding box *)
Lemma seg_bbox_minimal (s : PathSeg R) (r : Rect R) :
  (forall t, 0 <= t <= 1 -> rect_has r (seg_eval s t)) -> rect_within (seg_bounding_box s) r.
Proof.
  intro Hr. destruct (seg_bbox_tight s) as ((t1 & H1 & E1) & (t2 & H2 & E2) & (t3 & H3 & E3) & (t4 & H4 & E4)).
  pose proof (Hr t1 H1) as K1. pose proof (Hr t2 H2) as K2. pose proof (Hr t3 H3) as K3. pose proof (Hr t4 H4) as K4.
  unfold rect_has, rect_within, seg_x, seg_y in *. lra.
Qed.

(** at most five ranges (the [ArrayVec<Range<f64>, 5>] cannot overflow) *)
Lemma seg_ranges_count (s : PathSeg R) : (length (extrema_ranges (seg_extrema s)) <= 5)%nat.
Proof.
  unfold extrema_ranges. rewrite ranges_from_length.
  destruct (seg_extrema_sound s) as (_ & _ & H). lia.
Qed.

(** * Segments::bounding_box *)
Section PathBox.
Variable F : PathSeg R -> Rect R.     (* the per-segment box *)

Let stepo (bb : option (Rect R)) (s : PathSeg R) := bbox_step bb (F s).
Let stepr (b : Rect R) (s : PathSeg R) := rect_union b (F s).

Lemma fold_bbox_step_some (l : list (PathSeg R)) (b : Rect R) :
  fold_left stepo l (Some b) = Some (fold_left stepr l b).
Proof. revert b. induction l as [|s l IH]; intro b; simpl; [reflexivity|]. apply IH. Qed.

Definition path_box (segs : list (PathSeg R)) : Rect R := unwrap_or_default (fold_left stepo segs None).

Lemma path_box_nil : path_box [] = rect_zero.
Proof. reflexivity. Qed.

(** the union over the segments, started from the first segment's box *)
Lemma path_box_cons (s : PathSeg R) (l : list (PathSeg R)) :
  path_box (s :: l) = fold_left (fun b s' => rect_union b (F s')) l (F s).
Proof. unfold path_box. simpl. fold stepo. rewrite fold_bbox_step_some. reflexivity. Qed.

Lemma fold_union_x0 (l : list (PathSeg R)) (b : Rect R) :
  rx0 (fold_left stepr l b) = fold_left (fun m s => Rmin m (rx0 (F s))) l (rx0 b).
Proof. revert b. induction l as [|s l IH]; intro b; simpl; [reflexivity|]. rewrite IH. reflexivity. Qed.
Lemma fold_union_y0 (l : list (PathSeg R)) (b : Rect R) :
  ry0 (fold_left stepr l b) = fold_left (fun m s => Rmin m (ry0 (F s))) l (ry0 b).
Proof. revert b. induction l as [|s l IH]; intro b; simpl; [reflexivity|]. rewrite IH. reflexivity. Qed.
Lemma fold_union_x1 (l : list (PathSeg R)) (b : Rect R) :
  rx1 (fold_left stepr l b) = fold_left (fun m s => Rmax m (rx1 (F s))) l (rx1 b).
Proof. revert b. induction l as [|s l IH]; intro b; simpl; [reflexivity|]. rewrite IH. reflexivity. Qed.
Lemma fold_union_y1 (l : list (PathSeg R)) (b : Rect R) :
  ry1 (fold_left stepr l b) = fold_left (fun m s => Rmax m (ry1 (F s))) l (ry1 b).
Proof. revert b. induction l as [|s l IH]; intro b; simpl; [reflexivity|]. rewrite IH. reflexivity. Qed.

(** the path box is the least upper bound of the segment boxes: it contains each of them ... *)
Lemma path_box_upper (segs : list (PathSeg R)) (s : PathSeg R) : In s segs ->
  rect_within (F s) (path_box segs).
Proof.
  destruct segs as [|s0 l]; [intros []|]. intro Hin.
  rewrite path_box_cons. fold stepr. unfold rect_within.
  rewrite fold_union_x0, fold_union_y0, fold_union_x1, fold_union_y1.
  destruct (fold_min_spec (fun s => rx0 (F s)) l (rx0 (F s0))) as (A1 & A2 & _).
  destruct (fold_min_spec (fun s => ry0 (F s)) l (ry0 (F s0))) as (B1 & B2 & _).
  destruct (fold_max_spec (fun s => rx1 (F s)) l (rx1 (F s0))) as (C1 & C2 & _).
  destruct (fold_max_spec (fun s => ry1 (F s)) l (ry1 (F s0))) as (D1 & D2 & _).
  cbv zeta in *.
  destruct Hin as [<-|Hin]; [lra|].
  pose proof (A2 s Hin). pose proof (B2 s Hin). pose proof (C2 s Hin). pose proof (D2 s Hin). lra.
Qed.

(** ... and each of its sides is the corresponding side of one of them *)
Lemma path_box_least (segs : list (PathSeg R)) : segs <> [] ->
  (exists s, In s segs /\ rx0 (path_box segs) = rx0 (F s)) /\
  (exists s, In s segs /\ rx1 (path_box segs) = rx1 (F s)) /\
  (exists s, In s segs /\ ry0 (path_box segs) = ry0 (F s)) /\
  (exists s, In s segs /\ ry1 (path_box segs) = ry1 (F s)).
Proof.
  destruct segs as [|s0 l]; [intro H; contradiction|]. intros _.
  rewrite path_box_cons. fold stepr.
  rewrite fold_union_x0, fold_union_y0, fold_union_x1, fold_union_y1.
  destruct (fold_min_spec (fun s => rx0 (F s)) l (rx0 (F s0))) as (_ & _ & A3).
  destruct (fold_min_spec (fun s => ry0 (F s)) l (ry0 (F s0))) as (_ & _ & B3).
  destruct (fold_max_spec (fun s => rx1 (F s)) l (rx1 (F s0))) as (_ & _ & C3).
  destruct (fold_max_spec (fun s => ry1 (F s)) l (ry1 (F s0))) as (_ & _ & D3).
  cbv zeta in *.
  assert (K : forall (m : R) (side : PathSeg R -> R),
             (m = side s0 \/ exists x, In x l /\ m = side x) -> exists s, In s (s0 :: l) /\ m = side s).
  { intros m side [E|(x & Hx & E)]; [exists s0; split; [left; reflexivity|exact E]|].
    exists x. split; [right; exact Hx|exact E]. }
  repeat split; apply K; assumption.
Qed.
End PathBox.

Lemma segs_bounding_box_is_path_box (segs : list (PathSeg R)) :
  segs_bounding_box segs = path_box (@seg_bounding_box R RS) segs.
Proof. reflexivity. Qed.
Lemma segs_bounding_box_lin_is_path_box (segs : list (PathSeg R)) :
  segs_bounding_box_lin segs = path_box (@seg_bounding_box_lin R RS) segs.
Proof. reflexivity. Qed.

Lemma rect_within_has (a b : Rect R) (p : Point R) : rect_within a b -> rect_has a p -> rect_has b p.
Proof. unfold rect_within, rect_has. lra. Qed.

Lemma segs_bbox_lin_contains (segs : list (PathSeg R)) (s : PathSeg R) t :
  In s segs -> 0 <= t <= 1 -> rect_has (segs_bounding_box_lin segs) (seg_eval s t).
Proof.
  intros Hin Ht. rewrite segs_bounding_box_lin_is_path_box.
  eapply rect_within_has; [apply path_box_upper; exact Hin|apply seg_bbox_lin_contains; exact Ht].
Qed.

Lemma segs_bbox_eq_lin (segs : list (PathSeg R)) : Forall seg_lead_ok segs ->
  segs_bounding_box segs = segs_bounding_box_lin segs.
Proof.
  intro Hok. unfold segs_bounding_box, segs_bounding_box_lin. f_equal.
  generalize (@None (Rect R)). induction Hok as [|s l Hs _ IH]; intro o; simpl; [reflexivity|].
  rewrite (seg_bbox_eq_lin s Hs). apply IH.
Qed.

Lemma segs_touch (F : PathSeg R -> Rect R) (segs : list (PathSeg R)) :
  (forall s, touches_all_sides s (F s)) -> segs <> [] -> segs_touch_all_sides segs (path_box F segs).
Proof.
  intros HF Hne. destruct (path_box_least F segs Hne) as ((s1 & I1 & E1) & (s2 & I2 & E2) & (s3 & I3 & E3) & (s4 & I4 & E4)).
  unfold segs_touch_all_sides.
  destruct (HF s1) as ((t1 & H1 & K1) & _). destruct (HF s2) as (_ & (t2 & H2 & K2) & _).
  destruct (HF s3) as (_ & _ & (t3 & H3 & K3) & _). destruct (HF s4) as (_ & _ & _ & (t4 & H4 & K4)).
  repeat split.
  - exists s1, t1. rewrite E1. auto.
  - exists s2, t2. rewrite E2. auto.
  - exists s3, t3. rewrite E3. auto.
  - exists s4, t4. rewrite E4. auto.
Qed.

(** * BezPath::control_box *)

Lemma fold_flat_map {A B C : Type} (f : C -> B -> C) (g : A -> list B) (l : list A) (c : C) :
  fold_left (fun c a => fold_left f (g a) c) l c = fold_left f (flat_map g l) c.
Proof.
  revert c. induction l as [|a l IH]; intro c; simpl; [reflexivity|].
  rewrite fold_left_app. apply IH.
Qed.

Definition path_points (els : list (PathEl R)) : list (Point R) := flat_map (@el_points R) els.

Lemma fold_cbox_add_some (pts : list (Point R)) (b : Rect R) :
  fold_left (@cbox_add R RS) pts (Some b) = Some (fold_left (fun bb p => rect_union_pt bb p) pts b).
Proof. revert b. induction pts as [|p l IH]; intro b; simpl; [reflexivity|]. apply IH. Qed.

(** the control box contains every point of every element *)
Lemma control_box_has (els : list (PathEl R)) (p : Point R) :
  In p (path_points els) -> rect_has (control_box els) p.
Proof.
  unfold control_box. rewrite (fold_flat_map (@cbox_add R RS) (@el_points R) els None).
  fold (path_points els). destruct (path_points els) as [|p0 pts]; [intros []|].
  simpl fold_left. rewrite fold_cbox_add_some. simpl unwrap_or_default.
  intro Hin.
  (* reuse the [bbox_of] lemma with the identity "evaluation" on an index list is awkward; go through
     the running minima directly *)
  set (ev := fun q : Point R => q).
  assert (Hx0 : forall (l : list (Point R)) acc, rx0 (fold_left (fun bb q => rect_union_pt bb q) l acc)
            = fold_left (fun m q => Rmin m (px q)) l (rx0 acc))
    by (induction l as [|q l IH]; intro acc; simpl; [reflexivity|rewrite IH; reflexivity]).
  assert (Hy0 : forall (l : list (Point R)) acc, ry0 (fold_left (fun bb q => rect_union_pt bb q) l acc)
            = fold_left (fun m q => Rmin m (py q)) l (ry0 acc))
    by (induction l as [|q l IH]; intro acc; simpl; [reflexivity|rewrite IH; reflexivity]).
  assert (Hx1 : forall (l : list (Point R)) acc, rx1 (fold_left (fun bb q => rect_union_pt bb q) l acc)
            = fold_left (fun m q => Rmax m (px q)) l (rx1 acc))
    by (induction l as [|q l IH]; intro acc; simpl; [reflexivity|rewrite IH; reflexivity]).
  assert (Hy1 : forall (l : list (Point R)) acc, ry1 (fold_left (fun bb q => rect_union_pt bb q) l acc)
            = fold_left (fun m q => Rmax m (py q)) l (ry1 acc))
    by (induction l as [|q l IH]; intro acc; simpl; [reflexivity|rewrite IH; reflexivity]).
  unfold rect_has. rewrite Hx0, Hy0, Hx1, Hy1.
  destruct (fold_min_spec (@px R) pts (rx0 (rect_from_points p0 p0))) as (A1 & A2 & _).
  destruct (fold_min_spec (@py R) pts (ry0 (rect_from_points p0 p0))) as (B1 & B2 & _).
  destruct (fold_max_spec (@px R) pts (rx1 (rect_from_points p0 p0))) as (C1 & C2 & _).
  destruct (fold_max_spec (@py R) pts (ry1 (rect_from_points p0 p0))) as (D1 & D2 & _).
  cbv zeta in *.
  change (rx0 (rect_from_points p0 p0)) with (Rmin (px p0) (px p0)) in *.
  change (ry0 (rect_from_points p0 p0)) with (Rmin (py p0) (py p0)) in *.
  change (rx1 (rect_from_points p0 p0)) with (Rmax (px p0) (px p0)) in *.
  change (ry1 (rect_from_points p0 p0)) with (Rmax (py p0) (py p0)) in *.
  pose proof (Rmin_l (px p0) (px p0)). pose proof (Rmin_l (py p0) (py p0)).
  pose proof (Rmax_l (px p0) (px p0)). pose proof (Rmax_l (py p0) (py p0)).
  destruct Hin as [<-|Hin]; [lra|].
  pose proof (A2 p Hin). pose proof (B2 p Hin). pose proof (C2 p Hin). pose proof (D2 p Hin). lra.
Qed.

(** every control point of every segment produced by [Segments::next] is a point of some element
    (or one of the two points of the iterator state) *)
Lemma segs_from_points (P : Point R -> Prop) (els : list (PathEl R)) :
  forall st segs, segs_from st els = Some segs ->
  (forall a b, st = Some (a, b) -> P a /\ P b) ->
  (forall p, In p (path_points els) -> P p) ->
  forall s, In s segs -> forall p, In p (seg_points s) -> P p.
Proof.
  induction els as [|e r IH]; intros st segs Hseg Hst Hpts; simpl in Hseg.
  - inversion Hseg; subst. intros s [].
  - destruct (seg_step st e) as [[st' out]|] eqn:Estep; [|discriminate].
    destruct (segs_from (Some st') r) as [segs'|] eqn:Erest; [|discriminate].
    inversion Hseg; subst; clear Hseg.
    assert (Hr : forall p, In p (path_points r) -> P p).
    { intros p Hp. apply Hpts. unfold path_points. simpl. apply in_or_app. right. exact Hp. }
    assert (He : forall p, In p (el_points e) -> P p).
    { intros p Hp. apply Hpts. unfold path_points. simpl. apply in_or_app. left. exact Hp. }
    (* the state the step works from *)
    assert (Hinit : exists a b, (match st with Some sl => Some sl
                                  | None => match el_end e with Some p => Some (p, p) | None => None end end)
                                = Some (a, b) /\ P a /\ P b).
    { destruct st as [[a b]|].
      - exists a, b. split; [reflexivity|apply Hst; reflexivity].
      - unfold seg_step in Estep. destruct e; simpl in *; try discriminate;
          eexists; eexists; (split; [reflexivity|]); split; apply He; simpl; auto. }
    destruct Hinit as (a & b & Einit & Pa & Pb).
    unfold seg_step in Estep. rewrite Einit in Estep.
    assert (Hstep : (let '(a', b') := st' in P a' /\ P b') /\
                    (forall s, out = Some s -> forall p, In p (seg_points s) -> P p)).
    { destruct e as [p|p|p1 p2|p1 p2 p3|]; inversion Estep; subst; clear Estep.
      - split; [split; apply He; simpl; auto|]. intros s E; discriminate.
      - split; [split; [exact Pa|apply He; simpl; auto]|].
        intros s E; inversion E; subst. simpl. intros q [<-|[<-|[]]]; [exact Pb|apply He; simpl; auto].
      - split; [split; [exact Pa|apply He; simpl; auto]|].
        intros s E; inversion E; subst. simpl. intros q [<-|[<-|[<-|[]]]]; [exact Pb|apply He; simpl; auto..].
      - split; [split; [exact Pa|apply He; simpl; auto]|].
        intros s E; inversion E; subst. simpl. intros q [<-|[<-|[<-|[<-|[]]]]]; [exact Pb|apply He; simpl; auto..].
      - destruct (pt_neb b a).
        + inversion H0; subst. split; [split; exact Pa|].
          intros s E; inversion E; subst. simpl. intros q [<-|[<-|[]]]; assumption.
        + inversion H0; subst. split; [split; assumption|]. intros s E; discriminate. }
    destruct Hstep as [Hst' Hout]. destruct st' as [a' b'].
    assert (IH' := IH (Some (a', b')) segs' Erest
                      (fun x y E => ltac:(inversion E; subst; exact Hst')) Hr).
    intros s Hs. destruct out as [s0|].
    + destruct Hs as [<-|Hs]; [apply Hout; reflexivity|apply IH'; exact Hs].
    + apply IH'; exact Hs.
Qed.

Lemma control_box_contains_segs (els : list (PathEl R)) (segs : list (PathSeg R)) :
  segments els = Some segs -> forall s, In s segs -> forall p, In p (seg_points s) ->
  rect_has (control_box els) p.
Proof.
  intros Hseg. apply (segs_from_points (rect_has (control_box els)) els None segs Hseg).
  - intros a b E; discriminate.
  - apply control_box_has.
Qed.

Lemma control_box_contains_bbox (els : list (PathEl R)) (segs : list (PathSeg R)) :
  segments els = Some segs -> segs <> [] -> rect_within (segs_bounding_box segs) (control_box els).
Proof.
  intros Hseg Hne. rewrite segs_bounding_box_is_path_box.
  destruct (path_box_least (@seg_bounding_box R RS) segs Hne)
    as ((s1 & I1 & E1) & (s2 & I2 & E2) & (s3 & I3 & E3) & (s4 & I4 & E4)).
  pose proof (seg_bbox_within_hull s1 (control_box els) (control_box_contains_segs els segs Hseg s1 I1)) as K1.
  pose proof (seg_bbox_within_hull s2 (control_box els) (control_box_contains_segs els segs Hseg s2 I2)) as K2.
  pose proof (seg_bbox_within_hull s3 (control_box els) (control_box_contains_segs els segs Hseg s3 I3)) as K3.
  pose proof (seg_bbox_within_hull s4 (control_box els) (control_box_contains_segs els segs Hseg s4 I4)) as K4.
  unfold rect_within in *. rewrite E1, E2, E3, E4. lra.
Qed.
