(** C04: miter joins within the limit and square caps: the extra pieces (miter kite, cap rectangles) are
    fans of positively oriented triangles around a source vertex, so they never contribute negatively;
    with the exact general decomposition this gives the inner half of the property for these styles. *)
From Coq Require Import ZArith QArith Reals List Bool Lra Lia Psatz.
From KV Require Import Scalar RInst Geom Curves Path Affine Stroke RTac StrokeSpec C04_proofs C04_region C04_pieces C04_round C04_polyregion C04_polyfill C04_polyclosed C04_fans C04_reach C04_multi.
Import ListNotations.
Local Open Scope R_scope.

(** a fan around P whose consecutive vertices turn counter-clockwise (or not at all) *)
Fixpoint fan_ok (P : Point R) (vs : list (Point R)) : Prop :=
  match vs with
  | v1 :: ((v2 :: _) as r) => 0 <= rcross (vec P v1) (vec P v2) /\ fan_ok P r
  | _ => True
  end.

Section FanNonneg.
Variable q : Point R.

Lemma tri_nonneg P v1 v2 : 0 <= rcross (vec P v1) (vec P v2) ->
  (0 <= e q P v1 + e q v1 v2 + e q v2 P)%Z.
Proof.
  intros [Hp|Hz].
  - set (k2 := rdot (vec P v1) (vec P v1) + rdot (vec P v2) (vec P v2)).
    assert (H1 : rdot (vec P v1) (vec P v1) <= k2).
    { unfold k2, rdot. pose proof (Rle_0_sqr (vx (vec P v2))) as A. pose proof (Rle_0_sqr (vy (vec P v2))) as B. unfold Rsqr in *. lra. }
    assert (H2 : rdot (vec P v2) (vec P v2) <= k2).
    { unfold k2, rdot. pose proof (Rle_0_sqr (vx (vec P v1))) as A. pose proof (Rle_0_sqr (vy (vec P v1))) as B. unfold Rsqr in *. lra. }
    destruct (tri_sum_value q P (vec P v1) (vec P v2) k2 Hp H1 H2) as [[T0 _] _].
    rewrite !padd_vec in T0. exact T0.
  - rewrite (tri_collinear q P v1 v2 (eq_sym Hz)). lia.
Qed.

Lemma fan_nonneg P vs : fan_ok P vs -> (0 <= closed_chain q P vs)%Z.
Proof.
  unfold closed_chain. destruct vs as [|v1 r]; [cbn; rewrite e_self; lia|].
  revert v1. induction r as [|v2 r IH]; intros v1 Hok.
  - cbn. pose proof (e_antisym q P v1). lia.
  - destruct Hok as [Hc Hok]. specialize (IH v2 Hok).
    rewrite !last_cons in *. cbn [chain_from] in *.
    pose proof (tri_nonneg P v1 v2 Hc). pose proof (e_antisym q P v2). lia.
Qed.
End FanNonneg.

(** orientation of the miter kite: both halves turn the same way as the path *)
Lemma miter_orient w s P ab cd : vnonzero ab -> vnonzero cd -> rcross ab cd <> 0 -> s * s = 1 ->
  let M := miter_pt w s P ab cd in let k2 := (w / 2) * (w / 2) in
  rcross ab cd * rcross (vec P (offs w s ab P)) (vec P M) = k2 * (vlen ab * vlen cd - rdot ab cd) /\
  rcross ab cd * rcross (vec P M) (vec P (offs w s cd P)) = k2 * (vlen ab * vlen cd - rdot ab cd).
Proof.
  intros Ha Hc HX Hs. cbv zeta.
  destruct (miter_on_lines w s P ab cd Ha Hc HX) as [L1 L2].
  pose proof (offs_side w s ab P Ha) as S1. pose proof (offs_side w s cd P Hc) as S2.
  pose proof (vlen_sq ab) as Qa. pose proof (vlen_sq cd) as Qc.
  pose proof (vlen_pos ab Ha) as La. pose proof (vlen_pos cd Hc) as Lc.
  set (M := miter_pt w s P ab cd) in *.
  assert (OA : vec P (offs w s ab P) = mkVec2 (s * (w / 2) * (- vy ab / vlen ab)) (s * (w / 2) * (vx ab / vlen ab))).
  { destruct P, ab. unfold vec, offs; cbn. f_equal; ring. }
  assert (OC : vec P (offs w s cd P) = mkVec2 (s * (w / 2) * (- vy cd / vlen cd)) (s * (w / 2) * (vx cd / vlen cd))).
  { destruct P, cd. unfold vec, offs; cbn. f_equal; ring. }
  rewrite OA, OC. clear OA OC.
  set (o1 := offs w s ab P) in *. set (o2 := offs w s cd P) in *.
  destruct ab as [ax ay], cd as [cx cy], P as [x y], M as [Mx My], o1 as [ux uy], o2 as [vx' vy'].
  unfold rcross, rdot, vec in *. cbn [px py vx vy] in *.
  set (a := vlen (mkVec2 ax ay)) in *. set (c := vlen (mkVec2 cx cy)) in *.
  set (mx := Mx - x) in *. set (my := My - y) in *. set (k := w / 2) in *.
  assert (E1 : ax * my - ay * mx = s * k * a) by (unfold mx, my; lra).
  assert (E2 : cx * my - cy * mx = s * k * c) by (unfold mx, my; lra).
  set (X := ax * cy - ay * cx) in *.
  assert (Hmx : X * mx = s * k * (a * cx - c * ax)).
  { replace (X * mx) with (cx * (ax * my - ay * mx) - ax * (cx * my - cy * mx)) by (unfold X; ring). rewrite E1, E2. ring. }
  assert (Hmy : X * my = s * k * (a * cy - c * ay)).
  { replace (X * my) with (cy * (ax * my - ay * mx) - ay * (cx * my - cy * mx)) by (unfold X; ring). rewrite E1, E2. ring. }
  split.
  - replace (X * (s * k * (- ay / a) * my - s * k * (ax / a) * mx))
      with (- (s * k / a) * (ax * (X * mx) + ay * (X * my))) by (field; lra).
    rewrite Hmx, Hmy.
    replace (- (s * k / a) * (ax * (s * k * (a * cx - c * ax)) + ay * (s * k * (a * cy - c * ay))))
      with ((s * s) * (k * k) * ((c * (ax * ax + ay * ay)) / a - (ax * cx + ay * cy))) by (field; lra).
    rewrite <- Qa, Hs. field. lra.
  - replace (X * (mx * (s * k * (cx / c)) - my * (s * k * (- cy / c))))
      with ((s * k / c) * (cx * (X * mx) + cy * (X * my))) by (field; lra).
    rewrite Hmx, Hmy.
    replace ((s * k / c) * (cx * (s * k * (a * cx - c * ax)) + cy * (s * k * (a * cy - c * ay))))
      with ((s * s) * (k * k) * ((a * (cx * cx + cy * cy)) / c - (ax * cx + ay * cy))) by (field; lra).
    rewrite <- Qc, Hs. field. lra.
Qed.

Section Styles.
Variable st : StrokeStyle R.
Hypothesis Hw : 0 < sk_width st.
Hypothesis Hjoin : sk_join st <> JoinRound.
Hypothesis Hpivot : sk_inner_pivot st = true.
Let w := sk_width st.
Variable q : Point R.
Notation ee := (e q).
Notation cc := (closed_chain q).

Ltac antisym_facts :=
  repeat match goal with
  | |- context [e q ?a ?b] =>
      lazymatch goal with
      | H : e q a b = (- e q b a)%Z |- _ => fail
      | _ => pose proof (e_antisym q a b)
      end
  end.
Ltac antisym_hyps :=
  repeat match goal with
  | H : context [e q ?a ?b] |- _ =>
      lazymatch goal with
      | H' : e q a b = (- e q b a)%Z |- _ => fail
      | _ => pose proof (e_antisym q a b)
      end
  end.

(** what an emitted join adds beyond the rectangle never counts negatively, and both sides end at the new
    offset points *)
Lemma join_extra P t th t' : vnonzero t -> vnonzero t' -> emitted t t' th ->
  let Jf := jpts st false P t th t' in let Jb := jpts st true P t th t' in
  last Jf (om st t P) = om st t' P /\ last Jb (op st t P) = op st t' P /\
  (0 <= cc P (om st t P :: Jf) - cc P (op st t P :: Jb))%Z.
Proof.
  intros Hn Hn' Hem. cbv zeta.
  pose proof (vlen_pos t Hn) as Hl. pose proof (vlen_pos t' Hn') as Hl'.
  assert (Hll : 0 < vlen t * vlen t') by (apply Rmult_lt_0_compat; assumption).
  assert (Hk2 : 0 < (w / 2) * (w / 2)) by (unfold w; nra).
  unfold jpts, side_join. cbv zeta. rewrite (join_emitted st P t t' th Hem). cbn [fst snd].
  unfold piv_f, piv_b. rewrite Hpivot. unfold join_core. cbv zeta. fold w.
  set (X := rcross t t') in *. set (D := rdot t t') in *.
  set (A := om st t P). set (A' := om st t' P). set (Dp := op st t P). set (D' := op st t' P).
  change (offs w (-1) t' P) with A'. change (offs w 1 t' P) with D'.
  pose proof (cross_offs st (-1) P t t' Hn Hn') as CO. fold w X in CO.
  pose proof (cross_offs st 1 P t' t Hn' Hn) as CO'. fold w in CO'.
  replace (rcross t' t) with (- X) in CO' by (unfold X, rcross; ring).
  change (offs w (-1) t P) with A in CO. change (offs w (-1) t' P) with A' in CO.
  change (offs w 1 t' P) with D' in CO'. change (offs w 1 t P) with Dp in CO'.
  assert (Hinv : 0 < / (vlen t * vlen t')) by (apply Rinv_0_lt_compat; exact Hll).
  destruct (Rltb_spec 0 X) as [HX|HX]; [|destruct (Rltb_spec X 0) as [HX'|HX']].
  - (* left turn: the backward side passes through the vertex, the forward side gets the outer piece *)
    assert (CA : 0 <= rcross (vec P A) (vec P A')).
    { rewrite CO. unfold Rdiv. apply Rmult_le_pos; [nra | lra]. }
    assert (ZB : forall Jbc, Jbc = [D'] -> cc P (Dp :: pts_of ([LineTo P] ++ map (@LineTo R) Jbc)) = 0%Z).
    { intros Jbc ->. unfold closed_chain. cbn. antisym_facts. lia. }
    destruct (sk_join st) eqn:Ej; [| |congruence]; cbn [fst snd app pts_of map el_end_or el_end].
    + repeat split; try reflexivity.
      pose proof (fan_nonneg q P [A; A'] (conj CA I)) as F. unfold closed_chain in *. cbn in *. antisym_facts. lia.
    + destruct (Rltb_spec (2 * sqrt (X * X + D * D)) ((sqrt (X * X + D * D) + D) * (sk_miter_limit st * sk_miter_limit st))) as [Hlim|Hlim];
        cbn [fst snd app pts_of map el_end_or el_end].
      * set (M := miter_pt w (-1) P t t').
        destruct (miter_orient w (-1) P t t' Hn Hn' ltac:(fold X; lra) ltac:(ring)) as [O1 O2]. cbv zeta in O1, O2.
        fold X M in O1, O2. change (offs w (-1) t P) with A in O1. change (offs w (-1) t' P) with A' in O2.
        destruct (cauchy_strict t t' Hn Hn' ltac:(fold X; lra)) as [_ Hpos].
        assert (C1 : 0 <= rcross (vec P A) (vec P M)) by nra.
        assert (C2 : 0 <= rcross (vec P M) (vec P A')) by nra.
        repeat split; try reflexivity.
        pose proof (fan_nonneg q P [A; M; A'] (conj C1 (conj C2 I))) as F. unfold closed_chain in *. cbn in *. antisym_facts. lia.
      * repeat split; try reflexivity.
        pose proof (fan_nonneg q P [A; A'] (conj CA I)) as F. unfold closed_chain in *. cbn in *. antisym_facts. lia.
  - (* right turn: mirrored *)
    assert (CD : 0 <= rcross (vec P D') (vec P Dp)).
    { rewrite CO'. unfold Rdiv. replace (vlen t' * vlen t) with (vlen t * vlen t') by ring.
      apply Rmult_le_pos; [nra | lra]. }
    destruct (sk_join st) eqn:Ej; [| |congruence]; cbn [fst snd app pts_of map el_end_or el_end].
    + repeat split; try reflexivity.
      pose proof (fan_nonneg q P [D'; Dp] (conj CD I)) as F. unfold closed_chain in *. cbn in *. antisym_facts. lia.
    + destruct (Rltb_spec (2 * sqrt (X * X + D * D)) ((sqrt (X * X + D * D) + D) * (sk_miter_limit st * sk_miter_limit st))) as [Hlim|Hlim];
        cbn [fst snd app pts_of map el_end_or el_end].
      * set (M := miter_pt w 1 P t t').
        destruct (miter_orient w 1 P t t' Hn Hn' ltac:(fold X; lra) ltac:(ring)) as [O1 O2]. cbv zeta in O1, O2.
        fold X M in O1, O2. change (offs w 1 t P) with Dp in O1. change (offs w 1 t' P) with D' in O2.
        destruct (cauchy_strict t t' Hn Hn' ltac:(fold X; lra)) as [_ Hpos].
        assert (C1 : 0 <= rcross (vec P D') (vec P M)).
        { assert (rcross (vec P M) (vec P D') <= 0) by nra. unfold rcross in *. lra. }
        assert (C2 : 0 <= rcross (vec P M) (vec P Dp)).
        { assert (rcross (vec P Dp) (vec P M) <= 0) by nra. unfold rcross in *. lra. }
        repeat split; try reflexivity.
        pose proof (fan_nonneg q P [D'; M; Dp] (conj C1 (conj C2 I))) as F. unfold closed_chain in *. cbn in *. antisym_facts. lia.
      * repeat split; try reflexivity.
        pose proof (fan_nonneg q P [D'; Dp] (conj CD I)) as F. unfold closed_chain in *. cbn in *. antisym_facts. lia.
  - (* parallel edges: the two degenerate triangles cancel *)
    assert (HX0 : X = 0) by lra.
    pose proof (join_piece_value st q Hw P t t' Hn Hn') as [[J0 _] _].
    unfold join_piece in J0. fold X in J0. rewrite (Rltb_f 0 X ltac:(lra)), (Rltb_f X 0 ltac:(lra)) in J0.
    unfold tri_f, tri_b in J0. fold A A' Dp D' in J0.
    destruct (sk_join st) eqn:Ej; [| |congruence]; cbn [fst snd app pts_of map el_end_or el_end].
    + repeat split; try reflexivity. unfold closed_chain. cbn. antisym_facts. antisym_hyps. lia.
    + destruct (Rltb (2 * sqrt (X * X + D * D)) _); cbn [fst snd app pts_of map el_end_or el_end];
        repeat split; try reflexivity; unfold closed_chain; cbn; antisym_facts; antisym_hyps; lia.
Qed.

(** caps: fans of positively oriented triangles around the end point *)
Hypothesis Hsc : sk_start_cap st <> CapRound.
Hypothesis Hec : sk_end_cap st <> CapRound.

Lemma end_fan_nonneg p t : vnonzero t -> (0 <= cc p (om st t p :: ecap_pts st p t))%Z.
Proof.
  intros Hn. pose proof (vlen_pos t Hn) as Hl. pose proof (vlen_sq t) as Q.
  apply fan_nonneg. unfold ecap_pts, end_cap_at, om. fold w.
  destruct (sk_end_cap st) eqn:E; [| |congruence].
  - cbn. split; [|exact I].
    destruct t as [tx ty], p as [x y]. unfold rcross, vec, offs. cbn [px py vx vy]. set (l := vlen _) in *.
    right. field. lra.
  - rewrite square_cap_end. cbn [pts_of map el_end_or el_end fan_ok].
    destruct t as [tx ty], p as [x y]. unfold rcross, vec, offs, along in *. cbn [px py vx vy] in *. set (l := vlen _) in *.
    assert (HL : 0 < (tx * tx + ty * ty) / (l * l)) by (rewrite <- Q; unfold Rdiv; rewrite Rinv_r; nra).
    repeat split.
    + replace ((x + -1 * (w / 2) * (- ty / l) - x) * (y + -1 * (w / 2) * (tx / l) + w / 2 * (ty / l) - y) -
               (y + -1 * (w / 2) * (tx / l) - y) * (x + -1 * (w / 2) * (- ty / l) + w / 2 * (tx / l) - x))
        with ((w / 2) * (w / 2) * ((tx * tx + ty * ty) / (l * l))) by (field; lra). nra.
    + replace ((x + -1 * (w / 2) * (- ty / l) + w / 2 * (tx / l) - x) * (y + 1 * (w / 2) * (tx / l) + w / 2 * (ty / l) - y) -
               (y + -1 * (w / 2) * (tx / l) + w / 2 * (ty / l) - y) * (x + 1 * (w / 2) * (- ty / l) + w / 2 * (tx / l) - x))
        with (2 * ((w / 2) * (w / 2)) * ((tx * tx + ty * ty) / (l * l))) by (field; lra). nra.
    + replace ((x + 1 * (w / 2) * (- ty / l) + w / 2 * (tx / l) - x) * (y + 1 * (w / 2) * (tx / l) - y) -
               (y + 1 * (w / 2) * (tx / l) + w / 2 * (ty / l) - y) * (x + 1 * (w / 2) * (- ty / l) - x))
        with ((w / 2) * (w / 2) * ((tx * tx + ty * ty) / (l * l))) by (field; lra). nra.
Qed.

Lemma start_fan_nonneg p t : vnonzero t -> (0 <= cc p (op st t p :: scap_pts st p t ++ [om st t p]))%Z.
Proof.
  intros Hn. pose proof (vlen_pos t Hn) as Hl. pose proof (vlen_sq t) as Q.
  apply fan_nonneg. unfold scap_pts, om, op. fold w.
  destruct (sk_start_cap st) eqn:E; [| |congruence].
  - cbn. split; [|exact I].
    destruct t as [tx ty], p as [x y]. unfold rcross, vec, offs. cbn [px py vx vy]. set (l := vlen _) in *.
    right. field. lra.
  - cbn [app fan_ok].
    destruct t as [tx ty], p as [x y]. unfold rcross, vec, offs, along in *. cbn [px py vx vy] in *. set (l := vlen _) in *.
    assert (HL : 0 < (tx * tx + ty * ty) / (l * l)) by (rewrite <- Q; unfold Rdiv; rewrite Rinv_r; nra).
    repeat split.
    + replace ((x + 1 * (w / 2) * (- ty / l) - x) * (y + 1 * (w / 2) * (tx / l) + - (w / 2) * (ty / l) - y) -
               (y + 1 * (w / 2) * (tx / l) - y) * (x + 1 * (w / 2) * (- ty / l) + - (w / 2) * (tx / l) - x))
        with ((w / 2) * (w / 2) * ((tx * tx + ty * ty) / (l * l))) by (field; lra). nra.
    + replace ((x + 1 * (w / 2) * (- ty / l) + - (w / 2) * (tx / l) - x) * (y + -1 * (w / 2) * (tx / l) + - (w / 2) * (ty / l) - y) -
               (y + 1 * (w / 2) * (tx / l) + - (w / 2) * (ty / l) - y) * (x + -1 * (w / 2) * (- ty / l) + - (w / 2) * (tx / l) - x))
        with (2 * ((w / 2) * (w / 2)) * ((tx * tx + ty * ty) / (l * l))) by (field; lra). nra.
    + replace ((x + -1 * (w / 2) * (- ty / l) + - (w / 2) * (tx / l) - x) * (y + -1 * (w / 2) * (tx / l) - y) -
               (y + -1 * (w / 2) * (tx / l) + - (w / 2) * (ty / l) - y) * (x + -1 * (w / 2) * (- ty / l) - x))
        with ((w / 2) * (w / 2) * ((tx * tx + ty * ty) / (l * l))) by (field; lra). nra.
Qed.

(** one step: at least the rectangle of the edge *)
Lemma gstep_lower th P t P' : vnonzero t -> pt_neb P' P = true -> emitted t (vec P P') th ->
  (hex st q P P' (vec P P') <= gstep st q th P t P')%Z.
Proof.
  intros Hn Hne Hem. pose proof (vec_nz_of_neb P' P Hne) as Hn'.
  destruct (join_extra P t th (vec P P') Hn Hn' Hem) as (LF & LB & Q0). cbv zeta in LF, LB, Q0.
  unfold gstep. cbv zeta. rewrite LF, LB.
  set (QF := cc P (om st t P :: jpts st false P t th (vec P P'))) in *.
  set (QB := cc P (op st t P :: jpts st true P t th (vec P P'))) in *.
  unfold hex, Xs, closed_chain. cbn [chain_from last].
  antisym_facts. lia.
Qed.

Lemma gpieces_lower th ps : forall lp lt, vnonzero lt -> all_emitted th lp lt ps ->
  (0 <= gpieces st q th lp lt ps)%Z /\
  (forall a b, In (a, b) (poly_edges lp ps) -> hex st q a b (vec a b) = 1%Z -> (1 <= gpieces st q th lp lt ps)%Z).
Proof.
  induction ps as [|p r IH]; intros lp lt Hn Hall; cbn [gpieces poly_edges all_emitted] in *.
  - split; [lia | intros a b []].
  - destruct (pt_neb p lp) eqn:E; [|apply IH; assumption].
    destruct Hall as [Hem Hall].
    pose proof (vec_nz_of_neb p lp E) as Hn'.
    pose proof (gstep_lower th lp lt p Hn E Hem) as GL.
    destruct (hex_value st q Hw lp p (pt_neb_neq p lp E)) as [[H0 _] _].
    destruct (IH p (vec lp p) Hn' Hall) as [P0 P1].
    split; [lia|]. intros a b [Hin|Hin] H1.
    + injection Hin as <- <-. lia.
    + specialize (P1 a b Hin H1). lia.
Qed.

Lemma first_ghex p0 p1 :
  cc p0 [om st (vec p0 p1) p0; om st (vec p0 p1) p1; p1; op st (vec p0 p1) p1; op st (vec p0 p1) p0] =
  hex st q p0 p1 (vec p0 p1).
Proof. unfold hex, Xs, closed_chain. cbn [chain_from last]. antisym_facts. lia. Qed.

(** the region statement with the style's reach *)
Definition region4 (E : list (Point R * Point R)) (o : list (PathEl R)) : Prop :=
  (forall a b, In (a, b) E -> 0 < foot_par a b q < 1 -> -1 < rel_dist w a b q < 1 -> (1 <= outline_wn o q)%Z) /\
  ((forall a b, In (a, b) E -> seg_far a b q (reach2 st)) -> outline_wn o q = 0%Z) /\
  (0 <= outline_wn o q)%Z.

Theorem open_style_region tol p0 ps p1 r out :
  first_edge p0 ps = Some (p1, r) ->
  all_emitted (2 * tol / sk_width st) p1 (vec p0 p1) r ->
  stroke_undashed (MoveTo p0 :: map (@LineTo R) ps) st tol = Some out ->
  region4 ((p0, p1) :: poly_edges p1 r) out.
Proof.
  intros E Hall Hout.
  destruct (first_edge_suffix p0 ps p1 r E) as (Hneb & _ & _).
  pose proof (vec_nz_of_neb p1 p0 Hneb) as Hn1.
  pose proof (last_state_nz r p1 (vec p0 p1) Hn1) as Hnl.
  pose proof (open_general_decomposition st Hjoin q Hsc Hec tol p0 ps p1 r out E Hout) as DEC. cbv zeta in DEC.
  rewrite first_ghex in DEC.
  destruct (gpieces_lower _ r p1 (vec p0 p1) Hn1 Hall) as [G0 G1].
  pose proof (end_fan_nonneg (fst (last_state p1 (vec p0 p1) r)) _ Hnl) as EF.
  pose proof (start_fan_nonneg p0 _ Hn1) as SF.
  destruct (hex_value st q Hw p0 p1 (pt_neb_neq p1 p0 Hneb)) as ([H0 _] & Hin1 & _).
  split; [|split].
  - intros a b [Hab|Hab] Ha Hb.
    + injection Hab as <- <-. specialize (Hin1 Ha Hb). lia.
    + destruct (hex_value st q Hw a b (poly_edges_neq r p1 a b Hab)) as (_ & Hin & _).
      specialize (G1 a b Hab (Hin Ha Hb)). lia.
  - intros Hfar. exact (open_reach_thm st Hw Hjoin q Hsc Hec tol p0 ps p1 r out E Hout Hfar).
  - lia.
Qed.

Lemma cc_snoc_last P L x : L <> [] -> last L P = x -> cc P (L ++ [x]) = cc P L.
Proof.
  intros Hne Hl. unfold closed_chain. rewrite chain_from_app, last_last. cbn [chain_from].
  rewrite Hl, e_self. lia.
Qed.

Theorem closed_style_region tol p0 ps p1 r out :
  first_edge p0 (ps ++ [p0]) = Some (p1, r) ->
  all_emitted (2 * tol / sk_width st) p1 (vec p0 p1) r ->
  emitted (snd (last_state p1 (vec p0 p1) r)) (vec p0 p1) (2 * tol / sk_width st) ->
  stroke_undashed (MoveTo p0 :: map (@LineTo R) ps ++ [ClosePath]) st tol = Some out ->
  region4 ((p0, p1) :: poly_edges p1 r) out.
Proof.
  intros E Hall Hclose Hout.
  destruct (first_edge_suffix p0 (ps ++ [p0]) p1 r E) as (Hneb & _ & _).
  pose proof (vec_nz_of_neb p1 p0 Hneb) as Hn1.
  pose proof (last_state_nz r p1 (vec p0 p1) Hn1) as Hnl.
  pose proof (closed_general_decomposition st Hjoin q tol p0 ps p1 r out E Hout) as DEC. cbv zeta in DEC.
  rewrite first_ghex in DEC.
  destruct (gpieces_lower _ r p1 (vec p0 p1) Hn1 Hall) as [G0 G1].
  destruct (join_extra p0 _ _ (vec p0 p1) Hnl Hn1 Hclose) as (LF & LB & Q0). cbv zeta in LF, LB, Q0.
  set (lt := snd (last_state p1 (vec p0 p1) r)) in *. set (th := 2 * tol / sk_width st) in *.
  assert (EF : cc p0 (om st lt p0 :: jpts st false p0 lt th (vec p0 p1) ++ [om st (vec p0 p1) p0]) =
               cc p0 (om st lt p0 :: jpts st false p0 lt th (vec p0 p1))).
  { change (om st lt p0 :: jpts st false p0 lt th (vec p0 p1) ++ [om st (vec p0 p1) p0])
      with ((om st lt p0 :: jpts st false p0 lt th (vec p0 p1)) ++ [om st (vec p0 p1) p0]).
    apply cc_snoc_last; [discriminate|]. rewrite last_cons. exact LF. }
  assert (EB : cc p0 (op st lt p0 :: jpts st true p0 lt th (vec p0 p1) ++ [op st (vec p0 p1) p0]) =
               cc p0 (op st lt p0 :: jpts st true p0 lt th (vec p0 p1))).
  { change (op st lt p0 :: jpts st true p0 lt th (vec p0 p1) ++ [op st (vec p0 p1) p0])
      with ((op st lt p0 :: jpts st true p0 lt th (vec p0 p1)) ++ [op st (vec p0 p1) p0]).
    apply cc_snoc_last; [discriminate|]. rewrite last_cons. exact LB. }
  rewrite EF, EB in DEC.
  destruct (hex_value st q Hw p0 p1 (pt_neb_neq p1 p0 Hneb)) as ([H0 _] & Hin1 & _).
  split; [|split].
  - intros a b [Hab|Hab] Ha Hb.
    + injection Hab as <- <-. specialize (Hin1 Ha Hb). lia.
    + destruct (hex_value st q Hw a b (poly_edges_neq r p1 a b Hab)) as (_ & Hin & _).
      specialize (G1 a b Hab (Hin Ha Hb)). lia.
  - intros Hfar. exact (closed_reach_thm st Hw Hjoin q tol p0 ps p1 r out E Hout Hfar).
  - lia.
Qed.
End Styles.

(** ** whole paths, any of these styles *)
Section MultiStyle.
Variable st : StrokeStyle R.
Hypothesis Hw : 0 < sk_width st.
Hypothesis Hjoin : sk_join st <> JoinRound.
Hypothesis Hpivot : sk_inner_pivot st = true.
Hypothesis Hsc : sk_start_cap st <> CapRound.
Hypothesis Hec : sk_end_cap st <> CapRound.
Variable q : Point R.

Lemma region4_app E1 E2 o1 o2 : outline_wn (o1 ++ o2) q = (outline_wn o1 q + outline_wn o2 q)%Z ->
  region4 st q E1 o1 -> region4 st q E2 o2 -> region4 st q (E1 ++ E2) (o1 ++ o2).
Proof.
  intros Hadd (C1 & F1 & N1) (C2 & F2 & N2). unfold region4. rewrite Hadd. split; [|split].
  - intros a b Hin Ha Hb. apply in_app_or in Hin. destruct Hin as [Hin|Hin].
    + specialize (C1 a b Hin Ha Hb). lia.
    + specialize (C2 a b Hin Ha Hb). lia.
  - intros Hfar. rewrite F1, F2; [reflexivity| |]; intros a b Hin; apply Hfar; apply in_or_app; [right|left]; exact Hin.
  - lia.
Qed.

Lemma region4_nil : region4 st q [] [].
Proof. unfold region4. rewrite wn_nil. split; [intros a b []|]. split; [reflexivity | lia]. Qed.

Lemma sub_style_region tol s o : stroke_undashed (sub_els s) st tol = Some o -> sub_emitted st tol s ->
  region4 st q (sub_edges s) o.
Proof.
  destruct s as [p0 ps closed]. unfold sub_els, sub_edges, sub_emitted, sub_walk. cbn [sub_start sub_pts sub_closed].
  destruct closed.
  - destruct (first_edge p0 (ps ++ [p0])) as [[p1 r]|] eqn:E.
    + intros Ho (Ha & Hc). exact (closed_style_region st Hw Hjoin Hpivot q tol p0 ps p1 r o E Ha (Hc eq_refl) Ho).
    + rewrite closed_polyline_outline_thm, E. intros [= <-] _. apply region4_nil.
  - rewrite app_nil_r. destruct (first_edge p0 ps) as [[p1 r]|] eqn:E.
    + intros Ho (Ha & _). exact (open_style_region st Hw Hjoin Hpivot q Hsc Hec tol p0 ps p1 r o E Ha Ho).
    + rewrite open_polyline_outline_thm, E. intros [= <-] _. apply region4_nil.
Qed.

Theorem path_style_region_thm tol subs : forall out,
  stroke_undashed (path_els subs) st tol = Some out -> Forall (sub_emitted st tol) subs ->
  region4 st q (flat_map sub_edges subs) out.
Proof.
  induction subs as [|s rest IH]; intros out Hout Hem.
  - cbn in Hout. injection Hout as <-. apply region4_nil.
  - inversion Hem as [|? ? Hs Hr]; subst.
    destruct (stroke_subs_cons st tol s rest out Hout) as (o1 & o2 & E1 & E2 & -> & _).
    cbn [flat_map]. apply region4_app.
    + apply (wn_concat_out st tol q rest o1 o2 Hsc E2).
    + apply (sub_style_region tol); assumption.
    + apply IH; assumption.
Qed.
End MultiStyle.
