(** C04: the outline of an open polyline (bevel joins, butt caps, repaired join, join threshold 0) is the
    sum of one positively traversed rectangle per edge and one positively traversed triangle per turn;
    hence its non-zero fill is exactly the union of those pieces. Real instance. *)
From Coq Require Import ZArith QArith Reals List Bool Lra Lia Psatz.
From KV Require Import Scalar RInst Geom Curves Path Affine Stroke RTac StrokeSpec C04_proofs C04_region C04_pieces C04_round.
Import ListNotations.
Local Open Scope R_scope.

Section Chains.
Variable q : Point R.

Definition e (a b : Point R) : Z := edge_w a b q.

Lemma e_self a : e a a = 0%Z.
Proof. apply edge_w_self. Qed.

Lemma e_antisym a b : e a b = (- e b a)%Z.
Proof.
  unfold e. rewrite !edge_w_term, edge_term_antisym. f_equal.
  apply edge_term_ext; try reflexivity. ring.
Qed.

Lemma e_split a b lam : 0 <= lam <= 1 -> (e a (lerp a b lam) + e (lerp a b lam) b)%Z = e a b.
Proof.
  intros Hl. unfold e. rewrite !edge_w_term.
  destruct a as [ax ay], b as [bx by_], q as [qx qy]. unfold lerp. cbn [px py].
  set (S := (bx - ax) * (qy - ay) - (by_ - ay) * (qx - ax)).
  assert (E : edge_term qy ay by_ S = edge_term qy ay (ay + (by_ - ay)) S) by (apply edge_term_ext; ring).
  rewrite E, <- (edge_term_split qy ay (by_ - ay) S lam Hl).
  f_equal; apply edge_term_ext; unfold S; ring.
Qed.

Lemma last_cons {A} (v : A) a p : last (v :: a) p = last a v.
Proof.
  revert v p. induction a as [|x a IH]; intros v p; [reflexivity|].
  change (last (v :: x :: a) p) with (last (x :: a) p). rewrite !IH. reflexivity.
Qed.

Fixpoint chain_from (p : Point R) (vs : list (Point R)) : Z :=
  match vs with [] => 0%Z | v :: r => (e p v + chain_from v r)%Z end.

Lemma chain_from_app p a b : chain_from p (a ++ b) = (chain_from p a + chain_from (last a p) b)%Z.
Proof.
  revert p. induction a as [|v a IH]; intros p; cbn [app chain_from]; [reflexivity|].
  rewrite IH. rewrite last_cons. ring.
Qed.

(** the vertices before the last one, backwards: what [extend_reversed] walks *)
Fixpoint revtail (v0 : Point R) (vs : list (Point R)) : list (Point R) :=
  match vs with [] => [] | v1 :: r => revtail v1 r ++ [v0] end.

Lemma last_revtail v r : last (revtail v r) (last r v) = v.
Proof. destruct r as [|x r]; [reflexivity|]. cbn [revtail]. apply last_last. Qed.

Lemma chain_from_revtail vs : forall v0,
  chain_from (last vs v0) (revtail v0 vs) = (- chain_from v0 vs)%Z.
Proof.
  induction vs as [|v1 r IH]; intros v0; [reflexivity|].
  rewrite last_cons. cbn [revtail chain_from].
  rewrite chain_from_app, IH, last_revtail. cbn [chain_from].
  rewrite (e_antisym v1 v0). lia.
Qed.

(** winding of an outline = chains *)
Lemma wn_lines start lst vs rest :
  outline_wn_from start lst (map (@LineTo R) vs ++ rest) q =
  (chain_from lst vs + outline_wn_from start (last vs lst) rest q)%Z.
Proof.
  revert lst. induction vs as [|v r IH]; intros lst; [reflexivity|].
  cbn [map app outline_wn_from el_end chain_from]. rewrite IH, last_cons. unfold e. ring.
Qed.

Lemma ext_rev_lines (h : PathEl R) vs :
  extend_reversed (h :: map (@LineTo R) vs) = map (@LineTo R) (revtail (el_end_or h) vs).
Proof.
  revert h. induction vs as [|v1 r IH]; intros h; [reflexivity|].
  cbn [map]. change (extend_reversed (h :: LineTo v1 :: map (@LineTo R) r))
    with (extend_reversed (LineTo v1 :: map (@LineTo R) r) ++ rev_el h (LineTo v1)).
  rewrite IH. cbn [rev_el revtail el_end_or el_end]. rewrite map_app. reflexivity.
Qed.

(** a closed polygon given as forward vertices f0 :: fs, then the backward vertices b0 :: bs reversed
    (butt cap between the two last vertices, ClosePath from b0 to f0) *)
Lemma wn_two_sided f0 fs b0 bs :
  outline_wn (MoveTo f0 :: map (@LineTo R) fs ++ [LineTo (last bs b0)] ++
              extend_reversed (MoveTo b0 :: map (@LineTo R) bs) ++ [ClosePath]) q =
  (chain_from f0 fs + e (last fs f0) (last bs b0) - chain_from b0 bs + e b0 f0)%Z.
Proof.
  unfold outline_wn. cbn [outline_wn_from]. rewrite edge_w_self, Z.add_0_l.
  rewrite wn_lines. cbn [app outline_wn_from el_end].
  rewrite ext_rev_lines, wn_lines. cbn [el_end_or el_end outline_wn_from].
  rewrite chain_from_revtail, last_revtail, edge_w_self. unfold e. ring.
Qed.
End Chains.

(** ** the polyline with bevel joins, repaired inner side, join threshold 0 *)
Section Poly.
Variable st : StrokeStyle R.
Hypothesis Hbevel : sk_join st = JoinBevel.
Hypothesis Hpivot : sk_inner_pivot st = true.
Let w := sk_width st.
Variable q : Point R.
Notation ee := (e q).

Definition om (t : Vec2 R) (P : Point R) : Point R := offs w (-1) t P.
Definition op (t : Vec2 R) (P : Point R) : Point R := offs w 1 t P.

Definition jf_pts (P : Point R) (t t' : Vec2 R) : list (Point R) :=
  (if Rltb 0 (rcross t t') then [] else if Rltb (rcross t t') 0 then [P] else []) ++ [om t' P].
Definition jb_pts (P : Point R) (t t' : Vec2 R) : list (Point R) :=
  (if Rltb 0 (rcross t t') then [P] else []) ++ [op t' P].

Lemma emitted_th0 ab cd : emitted ab cd 0.
Proof. right. rewrite Rmult_0_r. apply Rabs_pos. Qed.

Lemma side_join_pts side P t t' th : emitted t t' th ->
  side_join st side P t th t' = map (@LineTo R) (if side then jb_pts P t t' else jf_pts P t t').
Proof.
  intros Hem.
  destruct (bevel_join_thm st P t t' th Hem Hbevel) as [Ef Eb].
  unfold side_join. destruct side; [rewrite Eb | rewrite Ef]; unfold piv_f, piv_b, jf_pts, jb_pts, om, op; rewrite Hpivot; fold w.
  - destruct (Rltb 0 (rcross t t')); reflexivity.
  - destruct (Rltb 0 (rcross t t')); [reflexivity|]. destruct (Rltb (rcross t t') 0); reflexivity.
Qed.

Fixpoint rest_pts (side : bool) (lp : Point R) (lt : Vec2 R) (ps : list (Point R)) : list (Point R) :=
  match ps with
  | [] => []
  | p :: r =>
      if pt_neb p lp then
        (if side then jb_pts lp lt (vec lp p) else jf_pts lp lt (vec lp p)) ++
        offs w (sgn side) (vec lp p) p :: rest_pts side p (vec lp p) r
      else rest_pts side lp lt r
  end.

(** every turn of the polyline passes the join test (no join is skipped) *)
Fixpoint all_emitted (th : R) (lp : Point R) (lt : Vec2 R) (ps : list (Point R)) : Prop :=
  match ps with
  | [] => True
  | p :: r => if pt_neb p lp then emitted lt (vec lp p) th /\ all_emitted th p (vec lp p) r
              else all_emitted th lp lt r
  end.

Lemma all_emitted_th0 ps : forall lp lt, all_emitted 0 lp lt ps.
Proof.
  induction ps as [|p r IH]; intros lp lt; cbn [all_emitted]; [exact I|].
  destruct (pt_neb p lp); [split; [apply emitted_th0 | apply IH] | apply IH].
Qed.

Lemma side_rest_lines th side ps : forall lp lt, all_emitted th lp lt ps ->
  side_rest st th side lp lt ps = map (@LineTo R) (rest_pts side lp lt ps).
Proof.
  induction ps as [|p r IH]; intros lp lt Hall; [reflexivity|].
  cbn [side_rest rest_pts all_emitted] in *. destruct (pt_neb p lp); [|apply IH; exact Hall].
  destruct Hall as [Hem Hall].
  rewrite (side_join_pts _ _ _ _ _ Hem), (IH _ _ Hall), map_app. reflexivity.
Qed.

(** pieces *)
Definition Xs (P : Point R) (t : Vec2 R) : Z := (ee (om t P) P + ee P (op t P))%Z.
Definition hex (P P' : Point R) (t' : Vec2 R) : Z :=
  (ee (om t' P) (om t' P') + Xs P' t' + ee (op t' P') (op t' P) + ee (op t' P) P + ee P (om t' P))%Z.
Definition tri_f (P : Point R) (t t' : Vec2 R) : Z := (ee P (om t P) + ee (om t P) (om t' P) + ee (om t' P) P)%Z.
Definition tri_b (P : Point R) (t t' : Vec2 R) : Z := (ee P (op t' P) + ee (op t' P) (op t P) + ee (op t P) P)%Z.
Definition join_piece (P : Point R) (t t' : Vec2 R) : Z :=
  if Rltb 0 (rcross t t') then tri_f P t t'
  else if Rltb (rcross t t') 0 then tri_b P t t' else (tri_f P t t' + tri_b P t t')%Z.

Fixpoint pieces (lp : Point R) (lt : Vec2 R) (ps : list (Point R)) : Z :=
  match ps with
  | [] => 0%Z
  | p :: r =>
      if pt_neb p lp then (join_piece lp lt (vec lp p) + hex lp p (vec lp p) + pieces p (vec lp p) r)%Z
      else pieces lp lt r
  end.

Ltac antisym_facts :=
  repeat match goal with
  | |- context [e q ?a ?b] =>
      lazymatch goal with
      | H : e q a b = (- e q b a)%Z |- _ => fail
      | _ => pose proof (e_antisym q a b)
      end
  end.

Lemma step_identity ps : forall lp lt,
  (chain_from q (om lt lp) (rest_pts false lp lt ps)
   + Xs (fst (last_state lp lt ps)) (snd (last_state lp lt ps))
   - chain_from q (op lt lp) (rest_pts true lp lt ps))%Z
  = (Xs lp lt + pieces lp lt ps)%Z.
Proof.
  induction ps as [|p r IH]; intros lp lt.
  - cbn. lia.
  - cbn [rest_pts last_state pieces]. destruct (pt_neb p lp); [|apply IH].
    specialize (IH p (vec lp p)). set (t' := vec lp p) in *.
    unfold jf_pts, jb_pts, join_piece, sgn.
    set (CF := chain_from q (om t' p) (rest_pts false p t' r)) in *.
    set (CB := chain_from q (op t' p) (rest_pts true p t' r)) in *.
    set (XL := Xs (fst (last_state p t' r)) (snd (last_state p t' r))) in *.
    set (PC := pieces p t' r) in *.
    fold (om t' p) (op t' p).
    destruct (Rltb 0 (rcross lt t')); [|destruct (Rltb (rcross lt t') 0)];
      cbn [app chain_from]; fold CF CB; unfold hex, tri_f, tri_b, Xs in *;
      antisym_facts; lia.
Qed.

Lemma last_app_cons {A} (a : list A) x b d : last (a ++ x :: b) d = last b x.
Proof.
  induction a as [|y a IH]; cbn [app]; [apply last_cons|].
  rewrite last_cons. destruct a; [cbn [app]; apply last_cons|]. cbn [app] in *. rewrite last_cons in IH. rewrite last_cons. exact IH.
Qed.

Lemma last_rest_pts side ps : forall lp lt d, d = offs w (sgn side) lt lp ->
  last (rest_pts side lp lt ps) d =
  offs w (sgn side) (snd (last_state lp lt ps)) (fst (last_state lp lt ps)).
Proof.
  induction ps as [|p r IH]; intros lp lt d Hd; [exact Hd|].
  cbn [rest_pts last_state]. destruct (pt_neb p lp); [|apply IH; exact Hd].
  rewrite last_app_cons. apply IH. reflexivity.
Qed.

Lemma midpoint_lerp t P : lerp (om t P) (op t P) (1 / 2) = P.
Proof.
  destruct t as [tx ty], P as [x y]. unfold lerp, om, op, offs. cbn [px py vx vy]. unfold Rdiv. set (i := / vlen _). f_equal; field.
Qed.

Lemma cross_section t P : ee (om t P) (op t P) = Xs P t.
Proof.
  unfold Xs. rewrite <- (e_split q (om t P) (op t P) (1 / 2)) by lra. rewrite midpoint_lerp. reflexivity.
Qed.

(** the decomposition: the outline of an open polyline winds around q as often as its pieces do *)
Theorem polyline_decomposition_thm tol p0 ps p1 r out :
  sk_start_cap st = CapButt -> sk_end_cap st = CapButt ->
  first_edge p0 ps = Some (p1, r) ->
  all_emitted (2 * tol / sk_width st) p1 (vec p0 p1) r ->
  stroke_undashed (MoveTo p0 :: map (@LineTo R) ps) st tol = Some out ->
  outline_wn out q = (hex p0 p1 (vec p0 p1) + pieces p1 (vec p0 p1) r)%Z.
Proof.
  intros Hs He E Hall. rewrite open_polyline_outline_thm, E. cbv zeta. intros [= <-].
  rewrite !(side_path_head st _ _ p0 ps p1 r E), !(side_rest_lines _ _ _ _ _ Hall).
  unfold end_cap_at, start_cap_at. rewrite Hs, He. fold w. cbv zeta.
  set (t1 := vec p0 p1). unfold sgn.
  set (restF := rest_pts false p1 t1 r). set (restB := rest_pts true p1 t1 r).
  set (lp := fst (last_state p1 t1 r)). set (lt := snd (last_state p1 t1 r)).
  pose proof (last_rest_pts false r p1 t1 (om t1 p1) eq_refl) as LF. cbn [sgn] in LF. fold restF lp lt in LF.
  pose proof (last_rest_pts true r p1 t1 (op t1 p1) eq_refl) as LB. cbn [sgn] in LB. fold restB lp lt in LB.
  change (MoveTo (offs w (-1) t1 p0) :: LineTo (offs w (-1) t1 p1) :: map (@LineTo R) restF)
    with (MoveTo (om t1 p0) :: map (@LineTo R) (om t1 p1 :: restF)).
  change (MoveTo (offs w 1 t1 p0) :: LineTo (offs w 1 t1 p1) :: map (@LineTo R) restB)
    with (MoveTo (op t1 p0) :: map (@LineTo R) (op t1 p1 :: restB)).
  assert (Hlast : offs w 1 lt lp = last (op t1 p1 :: restB) (op t1 p0)).
  { rewrite last_cons. symmetry. exact LB. }
  rewrite Hlast.
  change ((MoveTo (om t1 p0) :: map (@LineTo R) (om t1 p1 :: restF)) ++
          [LineTo (last (op t1 p1 :: restB) (op t1 p0))] ++
          extend_reversed (MoveTo (op t1 p0) :: map (@LineTo R) (op t1 p1 :: restB)) ++ [ClosePath])
    with (MoveTo (om t1 p0) :: map (@LineTo R) (om t1 p1 :: restF) ++
          [LineTo (last (op t1 p1 :: restB) (op t1 p0))] ++
          extend_reversed (MoveTo (op t1 p0) :: map (@LineTo R) (op t1 p1 :: restB)) ++ [ClosePath]).
  rewrite wn_two_sided. rewrite <- Hlast, !last_cons. fold restF in LF. rewrite LF.
  change (offs w (-1) lt lp) with (om lt lp). change (offs w 1 lt lp) with (op lt lp).
  rewrite cross_section. cbn [chain_from].
  pose proof (step_identity r p1 t1) as SI. fold restF restB lp lt in SI.
  pose proof (cross_section t1 p0) as CS0. unfold Xs in CS0.
  unfold hex, Xs in *. antisym_facts. lia.
Qed.
End Poly.
