(** C20: lattice laws of rectangles, insets, rounding — proofs at the real instance. *)
From Coq Require Import ZArith QArith Reals List Bool Lra Lia.
From Flocq Require Import Core.Raux Core.Generic_fmt.
From KV Require Import Scalar RInst Geom Rect RTac RectSpec.
Local Open Scope R_scope.

Ltac unf :=
  unfold meet, nonneg, in_closed, in_half_open, subset,
         rect_from_points, rect_sub_insets, rect_add_insets, insets_sub_rect, rect_add_insets,
         insets_add_rect, insets_neg, rect_area,
         rect_union, rect_intersect, rect_contains, rect_overlaps, rect_contains_rect,
         rect_abs, rect_union_pt, rect_width, rect_height,
         rect_sub, rect_inflate, rect_winding in *;
  rs_unfold; cbn [rx0 ry0 rx1 ry1 ix0 iy0 ix1 iy1 px py] in *.

Ltac fin :=
  intros;
  repeat match goal with c : Rect R |- _ => destruct c | p : Point R |- _ => destruct p end;
  cbn [rx0 ry0 rx1 ry1 ix0 iy0 ix1 iy1 px py] in *;
  repeat match goal with H : _ /\ _ |- _ => destruct H end;
  repeat split; minmax.

Lemma subset_set a b : nonneg a ->
  (subset a b <-> forall p, in_closed a p -> in_closed b p).
Proof.
  destruct a as [a0 a1 a2 a3], b as [b0 b1 b2 b3]; unf; intros [Hx Hy]; split.
  - intros (?&?&?&?) [x y]; cbn; lra.
  - intros Hp.
    pose proof (Hp (mkPoint a0 a1)) as P1. pose proof (Hp (mkPoint a2 a3)) as P2.
    cbn in P1, P2. lra.
Qed.

Lemma contains_rect_spec a b : rect_contains_rect a b = true <-> subset b a.
Proof.
  destruct a, b; unf; rewrite !andb_true_iff, !Rleb_true; tauto.
Qed.

Lemma union_lub a b :
  subset a (rect_union a b) /\ subset b (rect_union a b) /\
  forall c, subset a c -> subset b c -> subset (rect_union a b) c.
Proof.
  destruct a, b; unf; repeat split; fin.
Qed.

Lemma union_nonneg a b : nonneg a -> nonneg b -> nonneg (rect_union a b).
Proof. destruct a, b; unf; intros; minmax. Qed.

Lemma union_comm a b : rect_union a b = rect_union b a.
Proof. destruct a, b; unf; f_equal; minmax. Qed.

Lemma meet_iff a b : nonneg a -> nonneg b ->
  (meet a b <-> Rmax (rx0 a) (rx0 b) <= Rmin (rx1 a) (rx1 b) /\
                Rmax (ry0 a) (ry0 b) <= Rmin (ry1 a) (ry1 b)).
Proof.
  destruct a as [a0 a1 a2 a3], b as [b0 b1 b2 b3]; unf; intros Ha Hb; split.
  - intros [[x y] H]; cbn in H. minmax.
  - intros H. exists (mkPoint (Rmax a0 b0) (Rmax a1 b1)); cbn. minmax.
Qed.

Lemma intersect_glb a b : nonneg a -> nonneg b -> meet a b ->
  let i := rect_intersect a b in
  nonneg i /\ subset i a /\ subset i b /\
  forall c, nonneg c -> subset c a -> subset c b -> subset c i.
Proof.
  intros Ha Hb Hm. apply meet_iff in Hm; auto.
  destruct a, b; unf; repeat split; fin.
Qed.

Lemma intersect_disjoint a b : nonneg a -> nonneg b -> ~ meet a b ->
  let i := rect_intersect a b in nonneg i /\ rect_area i = 0.
Proof.
  intros Ha Hb Hm. rewrite meet_iff in Hm by auto.
  destruct a as [a0 a1 a2 a3], b as [b0 b1 b2 b3]; unf; cbn.
  assert (Rmax a0 b0 > Rmin a2 b2 \/ Rmax a1 b1 > Rmin a3 b3) as D.
  { destruct (Rle_dec (Rmax a0 b0) (Rmin a2 b2)); [|left; lra].
    destruct (Rle_dec (Rmax a1 b1) (Rmin a3 b3)); [|right; lra]. tauto. }
  split; [split|].
  - minmax.
  - minmax.
  - destruct D as [D|D].
    + replace (Rmax (Rmin a2 b2) (Rmax a0 b0)) with (Rmax a0 b0) by (revert D; minmax). ring.
    + replace (Rmax (Rmin a3 b3) (Rmax a1 b1)) with (Rmax a1 b1) by (revert D; minmax). ring.
Qed.

Lemma contains_half_open r p : rect_contains r p = true <-> in_half_open r p.
Proof.
  destruct r, p; unf; rewrite !andb_true_iff, !Rleb_true, !Rltb_true; tauto.
Qed.

Lemma overlaps_sym a b : rect_overlaps a b = rect_overlaps b a.
Proof.
  destruct a, b; unf.
  apply eq_true_iff_eq. rewrite !andb_true_iff, !Rleb_true. tauto.
Qed.

Lemma overlaps_iff_meet a b : nonneg a -> nonneg b ->
  (rect_overlaps a b = true <-> meet a b).
Proof.
  intros Ha Hb. rewrite meet_iff by auto.
  destruct a, b; unf. rewrite !andb_true_iff, !Rleb_true. split; intros; minmax.
Qed.

Lemma contains_rect_iff_union_eq a b : nonneg b ->
  (rect_contains_rect a b = true <-> rect_union a b = a).
Proof.
  intros Hb. rewrite contains_rect_spec.
  destruct a as [a0 a1 a2 a3], b as [b0 b1 b2 b3]; unf; split.
  - intros (?&?&?&?). f_equal; minmax.
  - intros E. injection E as E0 E1 E2 E3. revert E0 E1 E2 E3. minmax.
Qed.

(* the union law does not even need non-negative extent in the <- direction of the four corners;
   the following variant drops the hypothesis on [b] *)
Lemma contains_rect_iff_union_eq' a b :
  (rect_contains_rect a b = true <-> rect_union a b = a).
Proof.
  rewrite contains_rect_spec.
  destruct a as [a0 a1 a2 a3], b as [b0 b1 b2 b3]; unf; split.
  - intros (?&?&?&?). f_equal; minmax.
  - intros E. injection E as E0 E1 E2 E3. revert E0 E1 E2 E3. minmax.
Qed.

Lemma abs_spec r :
  let a := rect_abs r in
  nonneg a /\ rect_width a = Rabs (rect_width r) /\ rect_height a = Rabs (rect_height r) /\
  (nonneg r -> a = r).
Proof.
  destruct r as [x0 y0 x1 y1]; unf; cbn. repeat split; try solve [minmax].
  intros [Hx Hy]. f_equal; minmax.
Qed.

Lemma from_points_abs x0 y0 x1 y1 :
  rect_from_points (mkPoint x0 y0) (mkPoint x1 y1) = rect_abs (mkRect x0 y0 x1 y1) /\
  rect_from_points (mkPoint x1 y1) (mkPoint x0 y0) = rect_abs (mkRect x0 y0 x1 y1).
Proof. unf; cbn; split; f_equal; minmax. Qed.

Lemma union_pt_lub r p : nonneg r ->
  let u := rect_union_pt r p in
  subset r u /\ in_closed u p /\
  forall c, subset r c -> in_closed c p -> subset u c.
Proof.
  destruct r, p; unf; cbn; intros; repeat split; fin.
Qed.

(** ** expand / trunc *)


(* one axis of [rect_expand] *)
Lemma expand_axis_lt (lo hi : R) : lo < hi ->
  let elo := IZR (Zfloor lo) in let ehi := IZR (Zceil hi) in
  is_int elo /\ is_int ehi /\ elo <= lo /\ hi <= ehi /\
  (forall z, IZR z <= lo -> IZR z <= elo) /\ (forall z, hi <= IZR z -> ehi <= IZR z).
Proof.
  intros _; cbn. repeat split; try (eexists; reflexivity).
  - apply Zfloor_lb.
  - apply Zceil_ub.
  - intros z Hz. apply IZR_le, Zfloor_lub, Hz.
  - intros z Hz. apply IZR_le, Zceil_glb, Hz.
Qed.

Lemma trunc_axis_lt (lo hi : R) : lo < hi ->
  let tlo := IZR (Zceil lo) in let thi := IZR (Zfloor hi) in
  is_int tlo /\ is_int thi /\ lo <= tlo /\ thi <= hi /\
  (forall z, lo <= IZR z -> tlo <= IZR z) /\ (forall z, IZR z <= hi -> IZR z <= thi).
Proof.
  intros _; cbn. repeat split; try (eexists; reflexivity).
  - apply Zceil_ub.
  - apply Zfloor_lb.
  - intros z Hz. apply IZR_le, Zceil_glb, Hz.
  - intros z Hz. apply IZR_le, Zfloor_lub, Hz.
Qed.


(** expand returns the smallest integer-cornered rectangle containing the original *)
Lemma expand_smallest_superset r : rx0 r < rx1 r -> ry0 r < ry1 r ->
  let e := rect_expand r in
  int_rect e /\ subset r e /\ forall c, int_rect c -> subset r c -> subset e c.
Proof.
  destruct r as [x0 y0 x1 y1]; cbn [rx0 ry0 rx1 ry1]; intros Hx Hy.
  unfold rect_expand; rs_unfold; cbn [rx0 ry0 rx1 ry1].
  destruct (Rltb_spec x0 x1); [|lra]. destruct (Rltb_spec y0 y1); [|lra].
  destruct (expand_axis_lt x0 x1 Hx) as (I0&I1&L0&L1&M0&M1).
  destruct (expand_axis_lt y0 y1 Hy) as (J0&J1&K0&K1&N0&N1).
  unfold int_rect, subset; cbn [rx0 ry0 rx1 ry1]. repeat split; auto.
  all: destruct c as [c0 c1 c2 c3]; cbn [rx0 ry0 rx1 ry1] in *;
       destruct H as ([z0 ->]&[z1 ->]&[z2 ->]&[z3 ->]); destruct H0 as (?&?&?&?); auto.
Qed.

(** trunc returns the largest integer-cornered rectangle contained in the original
    (stated corner-wise; when no integer rectangle fits the result has negative extent) *)
Lemma trunc_largest_subset r : rx0 r < rx1 r -> ry0 r < ry1 r ->
  let t := rect_trunc r in
  int_rect t /\ subset t r /\ forall c, int_rect c -> subset c r -> subset c t.
Proof.
  destruct r as [x0 y0 x1 y1]; cbn [rx0 ry0 rx1 ry1]; intros Hx Hy.
  unfold rect_trunc; rs_unfold; cbn [rx0 ry0 rx1 ry1].
  destruct (Rltb_spec x0 x1); [|lra]. destruct (Rltb_spec y0 y1); [|lra].
  destruct (trunc_axis_lt x0 x1 Hx) as (I0&I1&L0&L1&M0&M1).
  destruct (trunc_axis_lt y0 y1 Hy) as (J0&J1&K0&K1&N0&N1).
  unfold int_rect, subset; cbn [rx0 ry0 rx1 ry1]. repeat split; auto.
  all: destruct c as [c0 c1 c2 c3]; cbn [rx0 ry0 rx1 ry1] in *;
       destruct H as ([z0 ->]&[z1 ->]&[z2 ->]&[z3 ->]); destruct H0 as (?&?&?&?); auto.
Qed.

(** with flipped corners the roles of the two ends swap *)
Lemma expand_flipped r : rx1 r < rx0 r -> ry1 r < ry0 r ->
  let e := rect_expand r in
  rx0 e = IZR (Zceil (rx0 r)) /\ rx1 e = IZR (Zfloor (rx1 r)) /\
  ry0 e = IZR (Zceil (ry0 r)) /\ ry1 e = IZR (Zfloor (ry1 r)).
Proof.
  destruct r as [x0 y0 x1 y1]; cbn [rx0 ry0 rx1 ry1]; intros Hx Hy.
  unfold rect_expand; rs_unfold; cbn [rx0 ry0 rx1 ry1].
  destruct (Rltb_spec x0 x1); [lra|]. destruct (Rltb_spec y0 y1); [lra|]. cbn. auto.
Qed.

(** ** insets *)

Lemma inset_add_sub_id a i : nonneg a -> nonneg (rect_add_insets a i) ->
  rect_sub_insets (rect_add_insets a i) i = a.
Proof.
  destruct a as [x0 y0 x1 y1], i as [i0 i1 i2 i3]; unf; cbn. intros [Hx Hy] [Hx' Hy'].
  f_equal; minmax.
Qed.

Lemma rect_sub_is_insets a b : nonneg b ->
  rect_add_insets b (rect_sub a b) = a.
Proof.
  destruct a as [x0 y0 x1 y1], b as [u0 v0 u1 v1]; unf; cbn. intros [Hx Hy].
  f_equal; minmax.
Qed.

Lemma inflate_is_insets a w h : nonneg a ->
  rect_inflate a w h = rect_add_insets a (mkInsets w h w h).
Proof.
  destruct a as [x0 y0 x1 y1]; unf; cbn. intros [Hx Hy]. f_equal; minmax.
Qed.

(** ** rounding helpers *)

Lemma floor_le_ceil x : IZR (Zfloor x) <= IZR (Zceil x).
Proof. pose proof (Zfloor_lb x); pose proof (Zceil_ub x); lra. Qed.

Lemma rounding_order (x : R) :
  let fl := ffloor x in let ce := fceil x in let tr := ftrunc x in let ro := fround x in
  fl <= tr <= ce /\ fl <= ro <= ce /\ fl <= x <= ce /\ x < fl + 1 /\ ce - 1 < x /\
  Rabs tr <= Rabs x.
Proof.
  rs_unfold. cbn. pose proof (floor_le_ceil x) as FC.
  pose proof (Zfloor_lb x). pose proof (Zfloor_ub x). pose proof (Zceil_ub x).
  pose proof (Zceil_lb x).
  assert (T : IZR (Ztrunc x) = IZR (Zfloor x) /\ 0 <= x \/ IZR (Ztrunc x) = IZR (Zceil x) /\ x < 0).
  { unfold Ztrunc. destruct (Rlt_bool_spec x 0); [right|left]; split; auto. }
  assert (N : Rround_away x = IZR (Zfloor x) \/ Rround_away x = IZR (Zceil x)).
  { unfold Rround_away. destruct (Znearest_DN_or_UP (Z.leb 0) x) as [E|E]; rewrite E; auto. }
  repeat split; try lra.
  destruct T as [[-> P]|[-> P]].
    + assert (0 <= IZR (Zfloor x)) by (apply IZR_le, Zfloor_lub; simpl; lra).
      rewrite !Rabs_pos_eq; lra.
    + assert (IZR (Zceil x) <= 0) by (apply IZR_le, Zceil_glb; simpl; lra).
      rewrite !Rabs_left1; lra.
Qed.

(** FloatExt::expand rounds away from zero *)
Lemma fexpand_away (x : R) :
  let e := fexpand x in
  is_int e /\ Rabs x <= Rabs e /\ Rabs e < Rabs x + 1 /\ (0 <= x -> 0 <= e) /\ (x < 0 -> e <= 0).
Proof.
  unfold fexpand; rs_unfold; unfold Rcopysign.
  pose proof (Zceil_ub (Rabs x)). pose proof (Zceil_lb (Rabs x)). pose proof (Rabs_pos x).
  assert (0 <= IZR (Zceil (Rabs x))) by lra.
  destruct (Rle_dec 0 x); cbn.
  - rewrite (Rabs_pos_eq (IZR _)) by lra. rewrite (Rabs_pos_eq (IZR _)) by lra.
    repeat split; try lra. eexists; reflexivity.
  - rewrite (Rabs_pos_eq (IZR _)) by lra. rewrite Rabs_Ropp, (Rabs_pos_eq (IZR _)) by lra.
    repeat split; try lra. exists (- Zceil (Rabs x))%Z. now rewrite opp_IZR.
Qed.

(** rectangles tile: shared edges assign every point to exactly one tile (half-open rule) *)
Lemma rect_tiling_x (x0 xm x1 y0 y1 : R) p : x0 <= xm <= x1 ->
  let l := mkRect x0 y0 xm y1 in let r := mkRect xm y0 x1 y1 in let whole := mkRect x0 y0 x1 y1 in
  rect_contains whole p = xorb (rect_contains l p) (rect_contains r p) /\
  (rect_contains l p && rect_contains r p = false).
Proof.
  destruct p as [x y]; unf; cbn; intros Hm.
  destruct (Rleb_spec x0 x), (Rltb_spec x xm), (Rleb_spec xm x), (Rltb_spec x x1),
           (Rleb_spec y0 y), (Rltb_spec y y1); cbn; split; auto; lra.
Qed.

(** Shape::winding of a rectangle: half-open rule, orientation sign *)
Lemma rect_winding_spec r p :
  rect_winding r p =
    if rect_contains (rect_abs r) p
    then (if xorb (Rltb (rx0 r) (rx1 r)) (Rltb (ry0 r) (ry1 r)) then (-1)%Z else 1%Z)
    else 0%Z.
Proof. destruct r, p; unf; cbn. reflexivity. Qed.

Lemma rect_winding_nonneg r p : rx0 r < rx1 r -> ry0 r < ry1 r ->
  rect_winding r p = if rect_contains r p then 1%Z else 0%Z.
Proof.
  intros Hx Hy. rewrite rect_winding_spec.
  destruct (abs_spec r) as (_&_&_&E). rewrite E by (unfold nonneg; lra).
  destruct (Rltb_spec (rx0 r) (rx1 r)); [|lra]. destruct (Rltb_spec (ry0 r) (ry1 r)); [|lra].
  reflexivity.
Qed.

Lemma hyps_satisfiable :
  nonneg (mkRect 0 0 2 1) /\ nonneg (mkRect 1 0 3 2) /\ meet (mkRect 0 0 2 1) (mkRect 1 0 3 2) /\
  ~ meet (mkRect 0 0 1 1) (mkRect 2 2 3 3).
Proof.
  unf; cbn. repeat split; try lra.
  - exists (mkPoint 1 0); cbn; lra.
  - intros [[x y] H]; cbn in H; lra.
Qed.
