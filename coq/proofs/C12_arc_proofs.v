(** C12, arcs: the pinned [Affine * Arc] moves arcs; the repaired one (re-derived start angle,
    sweep reversed by orientation-reversing maps) is the arc through the image points. *)
From Coq Require Import ZArith QArith Reals List Bool Lra Lia Nsatz.
From KV Require Import Scalar RInst Geom Rect Curves Path Affine ShapeTypes AffineOps RTac C12_proofs.
Local Open Scope R_scope.

(** * polar form of atan2 *)
Lemma sqrt_1_z2_pos (z : R) : 0 < sqrt (1 + z²).
Proof. apply sqrt_lt_R0. pose proof (Rle_0_sqr z). lra. Qed.

Lemma hyp_pos (x y : R) (Hx : 0 < x) : sqrt (x * x + y * y) = x * sqrt (1 + (y / x)²).
Proof.
  replace (x * x + y * y) with (x * x * (1 + (y / x)²)) by (unfold Rsqr; field; lra).
  rewrite sqrt_mult; [|nra|pose proof (Rle_0_sqr (y / x)); lra].
  rewrite sqrt_square by lra. reflexivity.
Qed.

Lemma hyp_neg (x y : R) (Hx : x < 0) : sqrt (x * x + y * y) = - x * sqrt (1 + (y / x)²).
Proof.
  replace (x * x + y * y) with ((- x) * (- x) * (1 + (y / x)²)) by (unfold Rsqr; field; lra).
  rewrite sqrt_mult; [|nra|pose proof (Rle_0_sqr (y / x)); lra].
  rewrite sqrt_square by lra. reflexivity.
Qed.

Lemma atan2_polar (x y : R) :
  sqrt (x * x + y * y) * cos (Ratan2 y x) = x /\ sqrt (x * x + y * y) * sin (Ratan2 y x) = y.
Proof.
  unfold Ratan2.
  destruct (Rlt_dec 0 x) as [Hx|Hx].
  { rewrite cos_atan, sin_atan, (hyp_pos x y Hx). pose proof (sqrt_1_z2_pos (y / x)). split; field; lra. }
  destruct (Rlt_dec x 0) as [Hx'|Hx'].
  { pose proof (sqrt_1_z2_pos (y / x)) as Hs.
    destruct (Rle_dec 0 y).
    - rewrite neg_cos, neg_sin, cos_atan, sin_atan, (hyp_neg x y Hx'). split; field; lra.
    - unfold Rminus. rewrite cos_plus, sin_plus, cos_neg, sin_neg, cos_PI, sin_PI, cos_atan, sin_atan, (hyp_neg x y Hx').
      split; field; lra. }
  assert (x = 0) by lra. subst x.
  replace (0 * 0 + y * y) with (y * y) by ring.
  destruct (Rlt_dec 0 y).
  { rewrite cos_PI2, sin_PI2, sqrt_square by lra. lra. }
  destruct (Rlt_dec y 0).
  { rewrite cos_neg, sin_neg, cos_PI2, sin_PI2. replace (y * y) with ((- y) * (- y)) by ring. rewrite sqrt_square by lra. lra. }
  assert (y = 0) by lra. subst y. rewrite cos_0, sin_0. replace (0 * 0) with 0 by ring. rewrite sqrt_0. lra.
Qed.

(** for a direction scaled by k > 0 off the unit circle, atan2 recovers the direction *)
Lemma atan2_unit (k ux uy : R) :
  0 < k -> ux * ux + uy * uy = 1 ->
  cos (Ratan2 (k * uy) (k * ux)) = ux /\ sin (Ratan2 (k * uy) (k * ux)) = uy.
Proof.
  intros Hk Hu. destruct (atan2_polar (k * ux) (k * uy)) as [Hc Hs].
  replace (k * ux * (k * ux) + k * uy * (k * uy)) with (k * k * (ux * ux + uy * uy)) in Hc, Hs by ring.
  rewrite Hu, Rmult_1_r, sqrt_square in Hc, Hs by lra.
  split; apply (Rmult_eq_reg_l k); lra.
Qed.

(** * the decomposition computed by [svd]: R(phi) diag(rx^2, ry^2) R(phi)^T = M M^T *)
Lemma svd_decomposition (m : Affine R) :
  let r := fst (aff_svd m) in let phi := snd (aff_svd m) in
  let C := cos phi in let S := sin phi in
  aa m * aa m + ac m * ac m = vx r * vx r * (C * C) + vy r * vy r * (S * S)
  /\ ab m * ab m + ad m * ad m = vx r * vx r * (S * S) + vy r * vy r * (C * C)
  /\ aa m * ab m + ac m * ad m = (vx r * vx r - vy r * vy r) * (S * C).
Proof.
  destruct (svd_invariants m) as (Hr & Hsum & _).
  destruct m as [a b c d e f]. cbv [aff_svd aff_determinant aa ab ac ad fst snd vx vy] in *. rs_unfold.
  cbv [Q2R Qnum Qden] in *. cbn [powerRZ] in *. change (Pos.to_nat 2) with 2%nat in *.
  remember (a * a + b * b + c * c + d * d) as s1 eqn:Es1.
  remember (a * a - b * b + c * c - d * d) as P eqn:EP.
  remember (a * b + c * d) as Q eqn:EQ.
  replace (P ^ 2 + 4 * Q ^ 2) with (P * P + 4 * (Q * Q)) in * by ring.
  remember (sqrt (P * P + 4 * (Q * Q))) as s2 eqn:Es2.
  replace (1 * / 2) with (/ 2) in * by lra.
  set (phi := / 2 * Ratan2 (2 * Q) P).
  destruct (atan2_polar P (2 * Q)) as [Hc Hs].
  replace (P * P + 2 * Q * (2 * Q)) with (P * P + 4 * (Q * Q)) in Hc, Hs by ring.
  rewrite <- Es2 in Hc, Hs.
  replace (Ratan2 (2 * Q) P) with (2 * phi) in Hc, Hs by (unfold phi; field).
  rewrite cos_2a in Hc. rewrite sin_2a in Hs.
  pose proof (sin2_cos2 phi) as H1. unfold Rsqr in H1.
  (* the squared radii *)
  pose proof (Rle_0_sqr P) as HP. pose proof (Rle_0_sqr Q) as HQ. unfold Rsqr in HP, HQ.
  assert (Hs2 : 0 <= s2) by (subst s2; apply sqrt_pos).
  assert (Hs2sq : s2 * s2 = P * P + 4 * (Q * Q)) by (subst s2; apply sqrt_sqrt; lra).
  pose proof (svd_identity a b c d) as Hid. rewrite <- Es1, <- EP, <- EQ in Hid.
  pose proof (Rle_0_sqr (a * d - b * c)) as Hdd. unfold Rsqr in Hdd.
  assert (Hle : s2 <= s1).
  { destruct (Rle_dec s2 s1) as [|Hn]; [assumption|]. exfalso.
    assert (Hs1 : 0 <= s1).
    { pose proof (Rle_0_sqr a). pose proof (Rle_0_sqr b). pose proof (Rle_0_sqr c). pose proof (Rle_0_sqr d).
      unfold Rsqr in *. lra. }
    assert (Hlt : s1 < s2) by lra.
    assert (s1 * s1 < s2 * s2) by (apply Rmult_le_0_lt_compat; assumption). lra. }
  rewrite !sqrt_sqrt by lra.
  set (C := cos phi) in *. set (S := sin phi) in *.
  split; [|split].
  - replace (/ 2 * (s1 + s2) * (C * C) + / 2 * (s1 - s2) * (S * S))
      with (/ 2 * (s1 * (S * S + C * C) + s2 * (C * C - S * S))) by ring.
    rewrite H1, Hc, Es1, EP. field.
  - replace (/ 2 * (s1 + s2) * (S * S) + / 2 * (s1 - s2) * (C * C))
      with (/ 2 * (s1 * (S * S + C * C) - s2 * (C * C - S * S))) by ring.
    rewrite H1, Hc, Es1, EP. field.
  - replace ((/ 2 * (s1 + s2) - / 2 * (s1 - s2)) * (S * C)) with (/ 2 * (s2 * (2 * S * C))) by ring.
    rewrite Hs. field.
Qed.

(** * orthogonal 2x2 matrices *)
Lemma orth_form (q11 q12 q21 q22 sg : R) :
  q11 * q11 + q12 * q12 = 1 -> q21 * q21 + q22 * q22 = 1 -> q11 * q21 + q12 * q22 = 0 ->
  q11 * q22 - q12 * q21 = sg ->
  q22 = sg * q11 /\ q21 = - sg * q12.
Proof. intros H1 H2 H3 H4. split; nsatz. Qed.

(** The algebraic core. [M = (ma mc; mb md)] is the linear part of the map applied to the arc's
    own frame, [R(C,S) diag(r1,r2)] its decomposition, [sg] the sign of its determinant;
    (c0,s0) = (cos,sin) of the start angle, (ct,st) of [t * sweep]; (cs,ss) of the new start angle. *)
Lemma arc_core (ma mb mc md C S r1 r2 sg c0 s0 ct st cs ss : R) :
  S * S + C * C = 1 -> 0 < r1 -> 0 < r2 -> sg * sg = 1 ->
  ma * ma + mc * mc = r1 * r1 * (C * C) + r2 * r2 * (S * S) ->
  mb * mb + md * md = r1 * r1 * (S * S) + r2 * r2 * (C * C) ->
  ma * mb + mc * md = (r1 * r1 - r2 * r2) * (S * C) ->
  ma * md - mb * mc = sg * (r1 * r2) ->
  let wx := ma * c0 + mc * s0 in let wy := mb * c0 + md * s0 in
  let lx := C * wx + S * wy in let ly := - S * wx + C * wy in
  cs * r1 = lx -> ss * r2 = ly ->
  let cb := cs * ct - sg * ss * st in let sb := ss * ct + sg * cs * st in
  r1 * cb * C - r2 * sb * S = ma * (c0 * ct - s0 * st) + mc * (s0 * ct + c0 * st)
  /\ r1 * cb * S + r2 * sb * C = mb * (c0 * ct - s0 * st) + md * (s0 * ct + c0 * st).
Proof.
  intros H1 Hr1 Hr2 Hsg Ha Hb Hab Hdet wx wy lx ly Hcs Hss cb sb.
  (* Q = diag(1/r1,1/r2) R^T M *)
  set (i1 := / r1). set (i2 := / r2).
  assert (Hi1 : i1 * r1 = 1) by (unfold i1; field; lra).
  assert (Hi2 : i2 * r2 = 1) by (unfold i2; field; lra).
  set (q11 := i1 * (C * ma + S * mb)). set (q12 := i1 * (C * mc + S * md)).
  set (q21 := i2 * (- S * ma + C * mb)). set (q22 := i2 * (- S * mc + C * md)).
  assert (O1 : q11 * q11 + q12 * q12 = 1).
  { unfold q11, q12.
    replace (i1 * (C * ma + S * mb) * (i1 * (C * ma + S * mb)) + i1 * (C * mc + S * md) * (i1 * (C * mc + S * md)))
      with (i1 * i1 * (C * C * (ma * ma + mc * mc) + S * S * (mb * mb + md * md) + 2 * (S * C) * (ma * mb + mc * md))) by ring.
    rewrite Ha, Hb, Hab.
    replace (C * C * (r1 * r1 * (C * C) + r2 * r2 * (S * S)) + S * S * (r1 * r1 * (S * S) + r2 * r2 * (C * C)) +
             2 * (S * C) * ((r1 * r1 - r2 * r2) * (S * C)))
      with (r1 * r1 * ((S * S + C * C) * (S * S + C * C))) by ring.
    rewrite H1. replace (i1 * i1 * (r1 * r1 * (1 * 1))) with ((i1 * r1) * (i1 * r1)) by ring. rewrite Hi1. ring. }
  assert (O2 : q21 * q21 + q22 * q22 = 1).
  { unfold q21, q22.
    replace (i2 * (- S * ma + C * mb) * (i2 * (- S * ma + C * mb)) + i2 * (- S * mc + C * md) * (i2 * (- S * mc + C * md)))
      with (i2 * i2 * (S * S * (ma * ma + mc * mc) + C * C * (mb * mb + md * md) - 2 * (S * C) * (ma * mb + mc * md))) by ring.
    rewrite Ha, Hb, Hab.
    replace (S * S * (r1 * r1 * (C * C) + r2 * r2 * (S * S)) + C * C * (r1 * r1 * (S * S) + r2 * r2 * (C * C)) -
             2 * (S * C) * ((r1 * r1 - r2 * r2) * (S * C)))
      with (r2 * r2 * ((S * S + C * C) * (S * S + C * C))) by ring.
    rewrite H1. replace (i2 * i2 * (r2 * r2 * (1 * 1))) with ((i2 * r2) * (i2 * r2)) by ring. rewrite Hi2. ring. }
  assert (O3 : q11 * q21 + q12 * q22 = 0).
  { unfold q11, q12, q21, q22.
    replace (i1 * (C * ma + S * mb) * (i2 * (- S * ma + C * mb)) + i1 * (C * mc + S * md) * (i2 * (- S * mc + C * md)))
      with (i1 * i2 * ((C * C - S * S) * (ma * mb + mc * md) - (S * C) * ((ma * ma + mc * mc) - (mb * mb + md * md)))) by ring.
    rewrite Ha, Hb, Hab.
    replace ((C * C - S * S) * ((r1 * r1 - r2 * r2) * (S * C)) -
             S * C * (r1 * r1 * (C * C) + r2 * r2 * (S * S) - (r1 * r1 * (S * S) + r2 * r2 * (C * C)))) with 0 by ring.
    ring. }
  assert (O4 : q11 * q22 - q12 * q21 = sg).
  { unfold q11, q12, q21, q22.
    replace (i1 * (C * ma + S * mb) * (i2 * (- S * mc + C * md)) - i1 * (C * mc + S * md) * (i2 * (- S * ma + C * mb)))
      with (i1 * i2 * ((S * S + C * C) * (ma * md - mb * mc))) by ring.
    rewrite H1, Hdet. replace (i1 * i2 * (1 * (sg * (r1 * r2)))) with (sg * ((i1 * r1) * (i2 * r2))) by ring.
    rewrite Hi1, Hi2. ring. }
  destruct (orth_form _ _ _ _ _ O1 O2 O3 O4) as [E22 E21].
  (* M = R diag(r1,r2) Q *)
  assert (Ema : ma = C * r1 * q11 - S * r2 * q21).
  { unfold q11, q21. replace (C * r1 * (i1 * (C * ma + S * mb)) - S * r2 * (i2 * (- S * ma + C * mb)))
      with ((i1 * r1) * (C * (C * ma + S * mb)) - (i2 * r2) * (S * (- S * ma + C * mb))) by ring.
    rewrite Hi1, Hi2. replace (1 * (C * (C * ma + S * mb)) - 1 * (S * (- S * ma + C * mb))) with ((S * S + C * C) * ma) by ring.
    rewrite H1. ring. }
  assert (Emb : mb = S * r1 * q11 + C * r2 * q21).
  { unfold q11, q21. replace (S * r1 * (i1 * (C * ma + S * mb)) + C * r2 * (i2 * (- S * ma + C * mb)))
      with ((i1 * r1) * (S * (C * ma + S * mb)) + (i2 * r2) * (C * (- S * ma + C * mb))) by ring.
    rewrite Hi1, Hi2. replace (1 * (S * (C * ma + S * mb)) + 1 * (C * (- S * ma + C * mb))) with ((S * S + C * C) * mb) by ring.
    rewrite H1. ring. }
  assert (Emc : mc = C * r1 * q12 - S * r2 * q22).
  { unfold q12, q22. replace (C * r1 * (i1 * (C * mc + S * md)) - S * r2 * (i2 * (- S * mc + C * md)))
      with ((i1 * r1) * (C * (C * mc + S * md)) - (i2 * r2) * (S * (- S * mc + C * md))) by ring.
    rewrite Hi1, Hi2. replace (1 * (C * (C * mc + S * md)) - 1 * (S * (- S * mc + C * md))) with ((S * S + C * C) * mc) by ring.
    rewrite H1. ring. }
  assert (Emd : md = S * r1 * q12 + C * r2 * q22).
  { unfold q12, q22. replace (S * r1 * (i1 * (C * mc + S * md)) + C * r2 * (i2 * (- S * mc + C * md)))
      with ((i1 * r1) * (S * (C * mc + S * md)) + (i2 * r2) * (C * (- S * mc + C * md))) by ring.
    rewrite Hi1, Hi2. replace (1 * (S * (C * mc + S * md)) + 1 * (C * (- S * mc + C * md))) with ((S * S + C * C) * md) by ring.
    rewrite H1. ring. }
  (* the new start direction is Q u(start) *)
  assert (Ecs : cs = q11 * c0 + q12 * s0).
  { apply (Rmult_eq_reg_r r1); [|lra]. rewrite Hcs. unfold lx, wx, wy, q11, q12.
    replace ((i1 * (C * ma + S * mb) * c0 + i1 * (C * mc + S * md) * s0) * r1)
      with ((i1 * r1) * (C * (ma * c0 + mc * s0) + S * (mb * c0 + md * s0))) by ring.
    rewrite Hi1. ring. }
  assert (Ess : ss = q21 * c0 + q22 * s0).
  { apply (Rmult_eq_reg_r r2); [|lra]. rewrite Hss. unfold ly, wx, wy, q21, q22.
    replace ((i2 * (- S * ma + C * mb) * c0 + i2 * (- S * mc + C * md) * s0) * r2)
      with ((i2 * r2) * (- S * (ma * c0 + mc * s0) + C * (mb * c0 + md * s0))) by ring.
    rewrite Hi2. ring. }
  clearbody q11 q12 q21 q22. clear O1 O2 O3 O4 Ha Hb Hab Hdet Hcs Hss.
  unfold cb, sb. subst cs ss ma mb mc md q22 q21.
  split.
  - replace (r1 * ((q11 * c0 + q12 * s0) * ct - sg * (- sg * q12 * c0 + sg * q11 * s0) * st) * C -
             r2 * ((- sg * q12 * c0 + sg * q11 * s0) * ct + sg * (q11 * c0 + q12 * s0) * st) * S)
      with (r1 * ((q11 * c0 + q12 * s0) * ct - (sg * sg) * (- q12 * c0 + q11 * s0) * st) * C -
            r2 * (sg * ((- q12 * c0 + q11 * s0) * ct + (q11 * c0 + q12 * s0) * st)) * S) by ring.
    rewrite Hsg. ring_simplify.
    replace (sg ^ 2) with (sg * sg) by ring. rewrite ?Hsg. ring.
  - replace (r1 * ((q11 * c0 + q12 * s0) * ct - sg * (- sg * q12 * c0 + sg * q11 * s0) * st) * S +
             r2 * ((- sg * q12 * c0 + sg * q11 * s0) * ct + sg * (q11 * c0 + q12 * s0) * st) * C)
      with (r1 * ((q11 * c0 + q12 * s0) * ct - (sg * sg) * (- q12 * c0 + q11 * s0) * st) * S +
            r2 * (sg * ((- q12 * c0 + q11 * s0) * ct + (q11 * c0 + q12 * s0) * st)) * C) by ring.
    rewrite Hsg. ring_simplify.
    replace (sg ^ 2) with (sg * sg) by ring. rewrite ?Hsg. ring.
Qed.

(** * the repaired [Affine * Arc] *)
Lemma arc_image (A : Affine R) (arc : Arc R) (t : R) :
  aff_determinant A <> 0 -> 0 < vx (arc_radii arc) -> 0 < vy (arc_radii arc) ->
  arc_eval (aff_mul_arc A arc) t = aff_apply A (arc_eval arc t).
Proof.
  destruct A as [a b c d e f], arc as [[cx cy] [rx ry] th0 dl phi].
  cbn [arc_radii vx vy]. intros Hdet Hrx Hry.
  unfold aff_mul_arc, ellipse_radii_and_rotation.
  set (M := el_inner (aff_mul_ellipse (mkAffine a b c d e f)
                        (ellipse_new (arc_center (mkArc (mkPoint cx cy) (mkVec2 rx ry) th0 dl phi))
                                     (arc_radii (mkArc (mkPoint cx cy) (mkVec2 rx ry) th0 dl phi))
                                     (arc_x_rotation (mkArc (mkPoint cx cy) (mkVec2 rx ry) th0 dl phi))))).
  pose proof (svd_invariants M) as Hinv. pose proof (svd_decomposition M) as Hdec.
  destruct (aff_svd M) as [[r1 r2] phi'] eqn:Hsvd.
  cbv zeta in Hinv, Hdec. cbn [fst snd vx vy] in Hinv, Hdec.
  Show.
