(** C12, arcs: the pinned [Affine * Arc] moves arcs; the repaired one (re-derived start angle,
    sweep reversed by orientation-reversing maps) is the arc through the image points. *)
From Coq Require Import ZArith QArith Reals List Bool Lra Lia Nsatz.
From KV Require Import Scalar RInst Geom Rect Curves Path Affine ShapeTypes AffineOps RTac C12_proofs.
Local Open Scope R_scope.

(** * polar form of atan2 *)
Lemma sqrt_1_z2_pos (z : R) : 0 < sqrt (1 + z²).
Proof. apply sqrt_lt_R0. pose proof (Rle_0_sqr z). lra. Qed.

Lemma hyp_pos (x y : R) (Hx : 0 < x) : sqrt (x * x + y * y) = x * sqrt (1 + (y / x)²).
Proof.
  replace (x * x + y * y) with (x * x * (1 + (y / x)²)) by (unfold Rsqr; field; lra).
  rewrite sqrt_mult; [|nra|pose proof (Rle_0_sqr (y / x)); lra].
  rewrite sqrt_square by lra. reflexivity.
Qed.

Lemma hyp_neg (x y : R) (Hx : x < 0) : sqrt (x * x + y * y) = - x * sqrt (1 + (y / x)²).
Proof.
  replace (x * x + y * y) with ((- x) * (- x) * (1 + (y / x)²)) by (unfold Rsqr; field; lra).
  rewrite sqrt_mult; [|nra|pose proof (Rle_0_sqr (y / x)); lra].
  rewrite sqrt_square by lra. reflexivity.
Qed.

Lemma atan2_polar (x y : R) :
  sqrt (x * x + y * y) * cos (Ratan2 y x) = x /\ sqrt (x * x + y * y) * sin (Ratan2 y x) = y.
Proof.
  unfold Ratan2.
  destruct (Rlt_dec 0 x) as [Hx|Hx].
  { rewrite cos_atan, sin_atan, (hyp_pos x y Hx). pose proof (sqrt_1_z2_pos (y / x)). split; field; lra. }
  destruct (Rlt_dec x 0) as [Hx'|Hx'].
  { pose proof (sqrt_1_z2_pos (y / x)) as Hs.
    destruct (Rle_dec 0 y).
    - rewrite neg_cos, neg_sin, cos_atan, sin_atan, (hyp_neg x y Hx'). split; field; lra.
    - unfold Rminus. rewrite cos_plus, sin_plus, cos_neg, sin_neg, cos_PI, sin_PI, cos_atan, sin_atan, (hyp_neg x y Hx').
      split; field; lra. }
  assert (x = 0) by lra. subst x.
  replace (0 * 0 + y * y) with (y * y) by ring.
  destruct (Rlt_dec 0 y).
  { rewrite cos_PI2, sin_PI2, sqrt_square by lra. lra. }
  destruct (Rlt_dec y 0).
  { rewrite cos_neg, sin_neg, cos_PI2, sin_PI2. replace (y * y) with ((- y) * (- y)) by ring. rewrite sqrt_square by lra. lra. }
  assert (y = 0) by lra. subst y. rewrite cos_0, sin_0. replace (0 * 0) with 0 by ring. rewrite sqrt_0. lra.
Qed.

(** for a direction scaled by k > 0 off the unit circle, atan2 recovers the direction *)
Lemma atan2_unit (k ux uy : R) :
  0 < k -> ux * ux + uy * uy = 1 ->
  cos (Ratan2 (k * uy) (k * ux)) = ux /\ sin (Ratan2 (k * uy) (k * ux)) = uy.
Proof.
  intros Hk Hu. destruct (atan2_polar (k * ux) (k * uy)) as [Hc Hs].
  replace (k * ux * (k * ux) + k * uy * (k * uy)) with (k * k * (ux * ux + uy * uy)) in Hc, Hs by ring.
  rewrite Hu, Rmult_1_r, sqrt_square in Hc, Hs by lra.
  split; apply (Rmult_eq_reg_l k); lra.
Qed.

(** * the decomposition computed by [svd]: R(phi) diag(rx^2, ry^2) R(phi)^T = M M^T *)
Lemma svd_decomposition (m : Affine R) :
  let r := fst (aff_svd m) in let phi := snd (aff_svd m) in
  let C := cos phi in let S := sin phi in
  aa m * aa m + ac m * ac m = vx r * vx r * (C * C) + vy r * vy r * (S * S)
  /\ ab m * ab m + ad m * ad m = vx r * vx r * (S * S) + vy r * vy r * (C * C)
  /\ aa m * ab m + ac m * ad m = (vx r * vx r - vy r * vy r) * (S * C).
Proof.
  destruct (svd_invariants m) as (Hr & Hsum & _).
  destruct m as [a b c d e f]. cbv [aff_svd aff_determinant aa ab ac ad fst snd vx vy] in *. rs_unfold.
  cbv [Q2R Qnum Qden] in *. cbn [powerRZ] in *. change (Pos.to_nat 2) with 2%nat in *.
  remember (a * a + b * b + c * c + d * d) as s1 eqn:Es1.
  remember (a * a - b * b + c * c - d * d) as P eqn:EP.
  remember (a * b + c * d) as Q eqn:EQ.
  replace (P ^ 2 + 4 * Q ^ 2) with (P * P + 4 * (Q * Q)) in * by ring.
  remember (sqrt (P * P + 4 * (Q * Q))) as s2 eqn:Es2.
  replace (1 * / 2) with (/ 2) in * by lra.
  set (phi := / 2 * Ratan2 (2 * Q) P).
  destruct (atan2_polar P (2 * Q)) as [Hc Hs].
  replace (P * P + 2 * Q * (2 * Q)) with (P * P + 4 * (Q * Q)) in Hc, Hs by ring.
  rewrite <- Es2 in Hc, Hs.
  replace (Ratan2 (2 * Q) P) with (2 * phi) in Hc, Hs by (unfold phi; field).
  rewrite cos_2a in Hc. rewrite sin_2a in Hs.
  pose proof (sin2_cos2 phi) as H1. unfold Rsqr in H1.
  (* the squared radii *)
  pose proof (Rle_0_sqr P) as HP. pose proof (Rle_0_sqr Q) as HQ. unfold Rsqr in HP, HQ.
  assert (Hs2 : 0 <= s2) by (subst s2; apply sqrt_pos).
  assert (Hs2sq : s2 * s2 = P * P + 4 * (Q * Q)) by (subst s2; apply sqrt_sqrt; lra).
  pose proof (svd_identity a b c d) as Hid. rewrite <- Es1, <- EP, <- EQ in Hid.
  pose proof (Rle_0_sqr (a * d - b * c)) as Hdd. unfold Rsqr in Hdd.
  assert (Hle : s2 <= s1).
  { destruct (Rle_dec s2 s1) as [|Hn]; [assumption|]. exfalso.
    assert (Hs1 : 0 <= s1).
    { pose proof (Rle_0_sqr a). pose proof (Rle_0_sqr b). pose proof (Rle_0_sqr c). pose proof (Rle_0_sqr d).
      unfold Rsqr in *. lra. }
    assert (Hlt : s1 < s2) by lra.
    assert (s1 * s1 < s2 * s2) by (apply Rmult_le_0_lt_compat; assumption). lra. }
  rewrite !sqrt_sqrt by lra.
  set (C := cos phi) in *. set (S := sin phi) in *.
  split; [|split].
  - replace (/ 2 * (s1 + s2) * (C * C) + / 2 * (s1 - s2) * (S * S))
      with (/ 2 * (s1 * (S * S + C * C) + s2 * (C * C - S * S))) by ring.
    rewrite H1, Hc, Es1, EP. field.
  - replace (/ 2 * (s1 + s2) * (S * S) + / 2 * (s1 - s2) * (C * C))
      with (/ 2 * (s1 * (S * S + C * C) - s2 * (C * C - S * S))) by ring.
    rewrite H1, Hc, Es1, EP. field.
  - replace ((/ 2 * (s1 + s2) - / 2 * (s1 - s2)) * (S * C)) with (/ 2 * (s2 * (2 * S * C))) by ring.
    rewrite Hs. field.
Qed.

(** * orthogonal 2x2 matrices *)
Lemma orth_form (q11 q12 q21 q22 sg : R) :
  q11 * q11 + q12 * q12 = 1 -> q21 * q21 + q22 * q22 = 1 -> q11 * q21 + q12 * q22 = 0 ->
  q11 * q22 - q12 * q21 = sg ->
  q22 = sg * q11 /\ q21 = - sg * q12.
Proof. intros H1 H2 H3 H4. split; nsatz. Qed.

(** [M = (ma mc; mb md)] with [M M^T = R(C,S) diag(r1^2, r2^2) R^T] and determinant [sg r1 r2]
    factors as [R diag(r1,r2) Q] with [Q = (q11 q12; -sg q12, sg q11)] orthogonal. *)
Lemma arc_frame (ma mb mc md C S r1 r2 sg : R) :
  S * S + C * C = 1 -> 0 < r1 -> 0 < r2 ->
  ma * ma + mc * mc = r1 * r1 * (C * C) + r2 * r2 * (S * S) ->
  mb * mb + md * md = r1 * r1 * (S * S) + r2 * r2 * (C * C) ->
  ma * mb + mc * md = (r1 * r1 - r2 * r2) * (S * C) ->
  ma * md - mb * mc = sg * (r1 * r2) ->
  exists q11 q12 : R,
    q11 * q11 + q12 * q12 = 1
    /\ ma = C * r1 * q11 + sg * S * r2 * q12 /\ mb = S * r1 * q11 - sg * C * r2 * q12
    /\ mc = C * r1 * q12 - sg * S * r2 * q11 /\ md = S * r1 * q12 + sg * C * r2 * q11.
Proof.
  intros H1 Hr1 Hr2 Ha Hb Hab Hdet.
  (* Q = diag(1/r1,1/r2) R^T M *)
  set (i1 := / r1). set (i2 := / r2).
  assert (Hi1 : i1 * r1 = 1) by (unfold i1; field; lra).
  assert (Hi2 : i2 * r2 = 1) by (unfold i2; field; lra).
  set (q11 := i1 * (C * ma + S * mb)). set (q12 := i1 * (C * mc + S * md)).
  set (q21 := i2 * (- S * ma + C * mb)). set (q22 := i2 * (- S * mc + C * md)).
  assert (O1 : q11 * q11 + q12 * q12 = 1).
  { unfold q11, q12.
    replace (i1 * (C * ma + S * mb) * (i1 * (C * ma + S * mb)) + i1 * (C * mc + S * md) * (i1 * (C * mc + S * md)))
      with (i1 * i1 * (C * C * (ma * ma + mc * mc) + S * S * (mb * mb + md * md) + 2 * (S * C) * (ma * mb + mc * md))) by ring.
    rewrite Ha, Hb, Hab.
    replace (C * C * (r1 * r1 * (C * C) + r2 * r2 * (S * S)) + S * S * (r1 * r1 * (S * S) + r2 * r2 * (C * C)) +
             2 * (S * C) * ((r1 * r1 - r2 * r2) * (S * C)))
      with (r1 * r1 * ((S * S + C * C) * (S * S + C * C))) by ring.
    rewrite H1. replace (i1 * i1 * (r1 * r1 * (1 * 1))) with ((i1 * r1) * (i1 * r1)) by ring. rewrite Hi1. ring. }
  assert (O2 : q21 * q21 + q22 * q22 = 1).
  { unfold q21, q22.
    replace (i2 * (- S * ma + C * mb) * (i2 * (- S * ma + C * mb)) + i2 * (- S * mc + C * md) * (i2 * (- S * mc + C * md)))
      with (i2 * i2 * (S * S * (ma * ma + mc * mc) + C * C * (mb * mb + md * md) - 2 * (S * C) * (ma * mb + mc * md))) by ring.
    rewrite Ha, Hb, Hab.
    replace (S * S * (r1 * r1 * (C * C) + r2 * r2 * (S * S)) + C * C * (r1 * r1 * (S * S) + r2 * r2 * (C * C)) -
             2 * (S * C) * ((r1 * r1 - r2 * r2) * (S * C)))
      with (r2 * r2 * ((S * S + C * C) * (S * S + C * C))) by ring.
    rewrite H1. replace (i2 * i2 * (r2 * r2 * (1 * 1))) with ((i2 * r2) * (i2 * r2)) by ring. rewrite Hi2. ring. }
  assert (O3 : q11 * q21 + q12 * q22 = 0).
  { unfold q11, q12, q21, q22.
    replace (i1 * (C * ma + S * mb) * (i2 * (- S * ma + C * mb)) + i1 * (C * mc + S * md) * (i2 * (- S * mc + C * md)))
      with (i1 * i2 * ((C * C - S * S) * (ma * mb + mc * md) - (S * C) * ((ma * ma + mc * mc) - (mb * mb + md * md)))) by ring.
    rewrite Ha, Hb, Hab.
    replace ((C * C - S * S) * ((r1 * r1 - r2 * r2) * (S * C)) -
             S * C * (r1 * r1 * (C * C) + r2 * r2 * (S * S) - (r1 * r1 * (S * S) + r2 * r2 * (C * C)))) with 0 by ring.
    ring. }
  assert (O4 : q11 * q22 - q12 * q21 = sg).
  { unfold q11, q12, q21, q22.
    replace (i1 * (C * ma + S * mb) * (i2 * (- S * mc + C * md)) - i1 * (C * mc + S * md) * (i2 * (- S * ma + C * mb)))
      with (i1 * i2 * ((S * S + C * C) * (ma * md - mb * mc))) by ring.
    rewrite H1, Hdet. replace (i1 * i2 * (1 * (sg * (r1 * r2)))) with (sg * ((i1 * r1) * (i2 * r2))) by ring.
    rewrite Hi1, Hi2. ring. }
  destruct (orth_form _ _ _ _ _ O1 O2 O3 O4) as [E22 E21].
  (* M = R diag(r1,r2) Q *)
  assert (Ema : ma = C * r1 * q11 - S * r2 * q21).
  { unfold q11, q21. replace (C * r1 * (i1 * (C * ma + S * mb)) - S * r2 * (i2 * (- S * ma + C * mb)))
      with ((i1 * r1) * (C * (C * ma + S * mb)) - (i2 * r2) * (S * (- S * ma + C * mb))) by ring.
    rewrite Hi1, Hi2. replace (1 * (C * (C * ma + S * mb)) - 1 * (S * (- S * ma + C * mb))) with ((S * S + C * C) * ma) by ring.
    rewrite H1. ring. }
  assert (Emb : mb = S * r1 * q11 + C * r2 * q21).
  { unfold q11, q21. replace (S * r1 * (i1 * (C * ma + S * mb)) + C * r2 * (i2 * (- S * ma + C * mb)))
      with ((i1 * r1) * (S * (C * ma + S * mb)) + (i2 * r2) * (C * (- S * ma + C * mb))) by ring.
    rewrite Hi1, Hi2. replace (1 * (S * (C * ma + S * mb)) + 1 * (C * (- S * ma + C * mb))) with ((S * S + C * C) * mb) by ring.
    rewrite H1. ring. }
  assert (Emc : mc = C * r1 * q12 - S * r2 * q22).
  { unfold q12, q22. replace (C * r1 * (i1 * (C * mc + S * md)) - S * r2 * (i2 * (- S * mc + C * md)))
      with ((i1 * r1) * (C * (C * mc + S * md)) - (i2 * r2) * (S * (- S * mc + C * md))) by ring.
    rewrite Hi1, Hi2. replace (1 * (C * (C * mc + S * md)) - 1 * (S * (- S * mc + C * md))) with ((S * S + C * C) * mc) by ring.
    rewrite H1. ring. }
  assert (Emd : md = S * r1 * q12 + C * r2 * q22).
  { unfold q12, q22. replace (S * r1 * (i1 * (C * mc + S * md)) + C * r2 * (i2 * (- S * mc + C * md)))
      with ((i1 * r1) * (S * (C * mc + S * md)) + (i2 * r2) * (C * (- S * mc + C * md))) by ring.
    rewrite Hi1, Hi2. replace (1 * (S * (C * mc + S * md)) + 1 * (C * (- S * mc + C * md))) with ((S * S + C * C) * md) by ring.
    rewrite H1. ring. }
  clearbody q11 q12 q21 q22.
  exists q11, q12. rewrite E21 in Ema, Emb. rewrite E22 in Emc, Emd.
  split; [exact O1|]. repeat split; [rewrite Ema|rewrite Emb|rewrite Emc|rewrite Emd]; ring.
Qed.

(** The algebraic core. (c0,s0) = (cos,sin) of the start angle, (ct,st) of [t * sweep].
    [l = R^T M u(start)] is the image of the start direction in the frame of the new axes;
    it is [diag(r1,r2)] applied to a unit vector [(ux,uy)], and the image arc, started at the
    angle of [(ux,uy)] and swept by [sg * sweep], passes through [M u(start + t sweep)]. *)
Lemma arc_core (ma mb mc md C S r1 r2 sg c0 s0 ct st : R) :
  S * S + C * C = 1 -> 0 < r1 -> 0 < r2 -> sg * sg = 1 -> s0 * s0 + c0 * c0 = 1 ->
  ma * ma + mc * mc = r1 * r1 * (C * C) + r2 * r2 * (S * S) ->
  mb * mb + md * md = r1 * r1 * (S * S) + r2 * r2 * (C * C) ->
  ma * mb + mc * md = (r1 * r1 - r2 * r2) * (S * C) ->
  ma * md - mb * mc = sg * (r1 * r2) ->
  let wx := ma * c0 + mc * s0 in let wy := mb * c0 + md * s0 in
  let lx := C * wx + S * wy in let ly := - S * wx + C * wy in
  exists ux uy : R,
    ux * ux + uy * uy = 1 /\ lx = r1 * ux /\ ly = r2 * uy
    /\ (let cb := ux * ct - sg * uy * st in let sb := uy * ct + sg * ux * st in
        r1 * cb * C - r2 * sb * S = ma * (c0 * ct - s0 * st) + mc * (s0 * ct + c0 * st)
        /\ r1 * cb * S + r2 * sb * C = mb * (c0 * ct - s0 * st) + md * (s0 * ct + c0 * st)).
Proof.
  intros H1 Hr1 Hr2 Hsg H0 Ha Hb Hab Hdet wx wy lx ly.
  destruct (arc_frame ma mb mc md C S r1 r2 sg H1 Hr1 Hr2 Ha Hb Hab Hdet) as (q11 & q12 & Hq & Ema & Emb & Emc & Emd).
  exists (q11 * c0 + q12 * s0), (sg * (- q12 * c0 + q11 * s0)).
  unfold lx, ly, wx, wy. clear Ha Hb Hab Hdet lx ly wx wy. subst ma mb mc md.
  split; [|split; [|split; [|split]]].
  - replace ((q11 * c0 + q12 * s0) * (q11 * c0 + q12 * s0) + sg * (- q12 * c0 + q11 * s0) * (sg * (- q12 * c0 + q11 * s0)))
      with ((q11 * c0 + q12 * s0) * (q11 * c0 + q12 * s0) + (sg * sg) * ((- q12 * c0 + q11 * s0) * (- q12 * c0 + q11 * s0))) by ring.
    rewrite Hsg.
    replace ((q11 * c0 + q12 * s0) * (q11 * c0 + q12 * s0) + 1 * ((- q12 * c0 + q11 * s0) * (- q12 * c0 + q11 * s0)))
      with ((q11 * q11 + q12 * q12) * (s0 * s0 + c0 * c0)) by ring.
    rewrite Hq, H0. ring.
  - replace (C * ((C * r1 * q11 + sg * S * r2 * q12) * c0 + (C * r1 * q12 - sg * S * r2 * q11) * s0) +
             S * ((S * r1 * q11 - sg * C * r2 * q12) * c0 + (S * r1 * q12 + sg * C * r2 * q11) * s0))
      with ((S * S + C * C) * (r1 * (q11 * c0 + q12 * s0))) by ring.
    rewrite H1. ring.
  - replace (- S * ((C * r1 * q11 + sg * S * r2 * q12) * c0 + (C * r1 * q12 - sg * S * r2 * q11) * s0) +
             C * ((S * r1 * q11 - sg * C * r2 * q12) * c0 + (S * r1 * q12 + sg * C * r2 * q11) * s0))
      with ((S * S + C * C) * (r2 * (sg * (- q12 * c0 + q11 * s0)))) by ring.
    rewrite H1. ring.
  - cbv zeta.
    replace (r1 * ((q11 * c0 + q12 * s0) * ct - sg * (sg * (- q12 * c0 + q11 * s0)) * st) * C -
             r2 * (sg * (- q12 * c0 + q11 * s0) * ct + sg * (q11 * c0 + q12 * s0) * st) * S)
      with (r1 * ((q11 * c0 + q12 * s0) * ct - (sg * sg) * (- q12 * c0 + q11 * s0) * st) * C -
            r2 * (sg * (- q12 * c0 + q11 * s0) * ct + sg * (q11 * c0 + q12 * s0) * st) * S) by ring.
    rewrite Hsg. ring.
  - cbv zeta.
    replace (r1 * ((q11 * c0 + q12 * s0) * ct - sg * (sg * (- q12 * c0 + q11 * s0)) * st) * S +
             r2 * (sg * (- q12 * c0 + q11 * s0) * ct + sg * (q11 * c0 + q12 * s0) * st) * C)
      with (r1 * ((q11 * c0 + q12 * s0) * ct - (sg * sg) * (- q12 * c0 + q11 * s0) * st) * S +
            r2 * (sg * (- q12 * c0 + q11 * s0) * ct + sg * (q11 * c0 + q12 * s0) * st) * C) by ring.
    rewrite Hsg. ring.
Qed.

(** * the repaired [Affine * Arc] *)
Lemma arc_image (A : Affine R) (arc : Arc R) (t : R) :
  aff_determinant A <> 0 -> 0 < vx (arc_radii arc) -> 0 < vy (arc_radii arc) ->
  arc_eval (aff_mul_arc A arc) t = aff_apply A (arc_eval arc t).
Proof.
  destruct A as [a b c d e f], arc as [[cx cy] [rx ry] th0 dl phi].
  cbn [arc_radii vx vy]. intros Hdet Hrx Hry.
  unfold aff_mul_arc, ellipse_radii_and_rotation. rewrite svd_variants_agree.
  cbn [arc_center arc_radii arc_x_rotation arc_start_angle arc_sweep_angle].
  set (M := el_inner (aff_mul_ellipse (mkAffine a b c d e f) (ellipse_new (mkPoint cx cy) (mkVec2 rx ry) phi))).
  assert (HM : M = mkAffine ((a * cos phi + c * sin phi) * rx) ((b * cos phi + d * sin phi) * rx)
                            ((- a * sin phi + c * cos phi) * ry) ((- b * sin phi + d * cos phi) * ry)
                            (a * cx + c * cy + e) (b * cx + d * cy + f)).
  { unfold M. aff_unfold. rewrite (Rabs_pos_eq rx), (Rabs_pos_eq ry) by lra. rec_eq; ring. }
  assert (Hctr : ellipse_center (aff_mul_ellipse (mkAffine a b c d e f) (ellipse_new (mkPoint cx cy) (mkVec2 rx ry) phi))
                 = mkPoint (a * cx + c * cy + e) (b * cx + d * cy + f)).
  { fold M. unfold ellipse_center, aff_translation, to_point. fold M. rewrite HM. reflexivity. }
  rewrite Hctr. clear Hctr.
  pose proof (svd_invariants M) as Hinv. pose proof (svd_decomposition M) as Hdec.
  destruct (aff_svd M) as [[r1 r2] phi'] eqn:Hsvd.
  cbv zeta in Hinv, Hdec. cbn [fst snd vx vy] in Hinv, Hdec.
  rewrite HM in Hinv, Hdec. cbn [aa ab ac ad] in Hinv, Hdec. clear HM Hsvd M.
  unfold aff_determinant in Hinv, Hdet. cbn [aa ab ac ad] in Hinv, Hdet. rs_unfold.
  pose proof (sin2_cos2 phi) as Hphi. pose proof (sin2_cos2 phi') as Hphi'. pose proof (sin2_cos2 th0) as Hth0.
  unfold Rsqr in Hphi, Hphi', Hth0.
  set (ma := (a * cos phi + c * sin phi) * rx) in *. set (mb := (b * cos phi + d * sin phi) * rx) in *.
  set (mc := (- a * sin phi + c * cos phi) * ry) in *. set (md := (- b * sin phi + d * cos phi) * ry) in *.
  assert (HdM : ma * md - mb * mc = (a * d - b * c) * (rx * ry)).
  { unfold ma, mb, mc, md.
    replace ((a * cos phi + c * sin phi) * rx * ((- b * sin phi + d * cos phi) * ry) -
             (b * cos phi + d * sin phi) * rx * ((- a * sin phi + c * cos phi) * ry))
      with ((sin phi * sin phi + cos phi * cos phi) * ((a * d - b * c) * (rx * ry))) by ring.
    rewrite Hphi. ring. }
  destruct Hinv as ((Hr2 & Hr21) & _ & Hprod). rewrite HdM in Hprod.
  assert (Hrr : 0 < rx * ry) by (apply Rmult_lt_0_compat; assumption).
  assert (Hk : 0 < r1 * r2).
  { rewrite Hprod, Rabs_mult, (Rabs_pos_eq (rx * ry)) by lra.
    apply Rmult_lt_0_compat; [apply Rabs_pos_lt; exact Hdet|exact Hrr]. }
  assert (Hr1p : 0 < r1) by nra. assert (Hr2p : 0 < r2) by nra.
  destruct Hdec as (Ha & Hb & Hab).
  (* the orientation sign *)
  set (sg := if Rltb (a * d - b * c) 0 then -1 else 1).
  assert (Hsg : sg * sg = 1) by (unfold sg; destruct (Rltb (a * d - b * c) 0); ring).
  assert (Hdsg : ma * md - mb * mc = sg * (r1 * r2)).
  { rewrite Hprod, HdM, Rabs_mult, (Rabs_pos_eq (rx * ry)) by lra. unfold sg.
    destruct (Rltb_spec (a * d - b * c) 0).
    - rewrite Rabs_left by lra. ring.
    - rewrite Rabs_right by lra. ring. }
  destruct (arc_core ma mb mc md (cos phi') (sin phi') r1 r2 sg (cos th0) (sin th0) (cos (t * dl)) (sin (t * dl))
              Hphi' Hr1p Hr2p Hsg Hth0 Ha Hb Hab Hdsg) as (ux & uy & Hu & Hlx & Hly & Hx & Hy).
  cbv zeta in Hlx, Hly, Hx, Hy.
  (* the re-derived start angle points along (ux, uy) *)
  unfold arc_eval, arc_point_at. cbn [arc_center arc_radii arc_x_rotation arc_start_angle arc_sweep_angle].
  match goal with |- context [Ratan2 ?y ?x] => set (Y := y); set (X := x) end.
  assert (HY : Y = (r1 * r2) * uy /\ X = (r1 * r2) * ux).
  { unfold Y, X. aff_unfold. rewrite cos_neg, sin_neg.
    split.
    - replace ((((a * (cx + (rx * cos th0 * cos phi - ry * sin th0 * sin phi)) +
                  c * (cy + (rx * cos th0 * sin phi + ry * sin th0 * cos phi)) + e - (a * cx + c * cy + e)) * - sin phi' +
                 (b * (cx + (rx * cos th0 * cos phi - ry * sin th0 * sin phi)) +
                  d * (cy + (rx * cos th0 * sin phi + ry * sin th0 * cos phi)) + f - (b * cx + d * cy + f)) * cos phi')) * r1)
        with ((- sin phi' * (ma * cos th0 + mc * sin th0) + cos phi' * (mb * cos th0 + md * sin th0)) * r1)
        by (unfold ma, mb, mc, md; ring).
      rewrite Hly. ring.
    - replace ((((a * (cx + (rx * cos th0 * cos phi - ry * sin th0 * sin phi)) +
                  c * (cy + (rx * cos th0 * sin phi + ry * sin th0 * cos phi)) + e - (a * cx + c * cy + e)) * cos phi' -
                 (b * (cx + (rx * cos th0 * cos phi - ry * sin th0 * sin phi)) +
                  d * (cy + (rx * cos th0 * sin phi + ry * sin th0 * cos phi)) + f - (b * cx + d * cy + f)) * - sin phi')) * r2)
        with ((cos phi' * (ma * cos th0 + mc * sin th0) + sin phi' * (mb * cos th0 + md * sin th0)) * r2)
        by (unfold ma, mb, mc, md; ring).
      rewrite Hlx. ring. }
  destruct HY as [EY EX]. clearbody X Y. subst X Y.
  destruct (atan2_unit (r1 * r2) ux uy Hk Hu) as [Hcs Hss].
  set (st' := Ratan2 (r1 * r2 * uy) (r1 * r2 * ux)) in *.
  assert (Hsweep : (if Rltb (aff_determinant (mkAffine a b c d e f)) 0 then - dl else dl) = sg * dl).
  { unfold aff_determinant. cbn [aa ab ac ad]. rs_unfold. unfold sg.
    destruct (Rltb (a * d - b * c) 0); ring. }
  rs_unfold. rewrite Hsweep.
  assert (Hcb : cos (st' + t * (sg * dl)) = ux * cos (t * dl) - sg * uy * sin (t * dl)
                /\ sin (st' + t * (sg * dl)) = uy * cos (t * dl) + sg * ux * sin (t * dl)).
  { rewrite cos_plus, sin_plus, Hcs, Hss. unfold sg.
    destruct (Rltb (a * d - b * c) 0).
    - replace (t * (-1 * dl)) with (- (t * dl)) by ring. rewrite cos_neg, sin_neg. split; ring.
    - replace (t * (1 * dl)) with (t * dl) by ring. split; ring. }
  destruct Hcb as [Hcb Hsb].
  aff_unfold. rewrite Hcb, Hsb, cos_plus, sin_plus.
  f_equal.
  - replace (a * (cx + (rx * (cos th0 * cos (t * dl) - sin th0 * sin (t * dl)) * cos phi -
                       ry * (sin th0 * cos (t * dl) + cos th0 * sin (t * dl)) * sin phi)) +
             c * (cy + (rx * (cos th0 * cos (t * dl) - sin th0 * sin (t * dl)) * sin phi +
                       ry * (sin th0 * cos (t * dl) + cos th0 * sin (t * dl)) * cos phi)) + e)
      with (a * cx + c * cy + e + (ma * (cos th0 * cos (t * dl) - sin th0 * sin (t * dl)) +
                                   mc * (sin th0 * cos (t * dl) + cos th0 * sin (t * dl))))
      by (unfold ma, mc; ring).
    rewrite <- Hx. ring.
  - replace (b * (cx + (rx * (cos th0 * cos (t * dl) - sin th0 * sin (t * dl)) * cos phi -
                       ry * (sin th0 * cos (t * dl) + cos th0 * sin (t * dl)) * sin phi)) +
             d * (cy + (rx * (cos th0 * cos (t * dl) - sin th0 * sin (t * dl)) * sin phi +
                       ry * (sin th0 * cos (t * dl) + cos th0 * sin (t * dl)) * cos phi)) + f)
      with (b * cx + d * cy + f + (mb * (cos th0 * cos (t * dl) - sin th0 * sin (t * dl)) +
                                   md * (sin th0 * cos (t * dl) + cos th0 * sin (t * dl))))
      by (unfold mb, md; ring).
    rewrite <- Hy. ring.
Qed.

(** * the pinned [Affine * Arc] moves arcs *)

(** svd of a diagonal matrix diag(p, q) with |p| > |q|: radii (|p|, |q|), rotation 0 *)
Lemma svd_diag (p q e f : R) :
  q * q < p * p -> aff_svd (mkAffine p 0 0 q e f) = (mkVec2 (Rabs p) (Rabs q), 0).
Proof.
  intros Hpq. cbv [aff_svd aa ab ac ad]. rs_unfold. cbv [Q2R Qnum Qden]. cbn [powerRZ]. change (Pos.to_nat 2) with 2%nat.
  replace ((p * p - 0 * 0 + 0 * 0 - q * q) ^ 2 + 4 * (p * 0 + 0 * q) ^ 2) with (Rsqr (p * p - q * q)) by (unfold Rsqr; ring).
  rewrite sqrt_Rsqr by lra.
  replace (1 * / 2 * (p * p + 0 * 0 + 0 * 0 + q * q + (p * p - q * q))) with (Rsqr p) by (unfold Rsqr; field).
  replace (1 * / 2 * (p * p + 0 * 0 + 0 * 0 + q * q - (p * p - q * q))) with (Rsqr q) by (unfold Rsqr; field).
  rewrite !sqrt_Rsqr_abs.
  replace (2 * (p * 0 + 0 * q)) with 0 by ring.
  unfold Ratan2. destruct (Rlt_dec 0 (p * p - 0 * 0 + 0 * 0 - q * q)) as [|Hn]; [|exfalso; apply Hn; lra].
  unfold Rdiv. rewrite Rmult_0_l, atan_0. f_equal. ring.
Qed.

(** the identity map moves the start point of an arc whose x_rotation is pi *)
Lemma arc_pinned_refuted_identity :
  exists (arc : Arc R),
    0 < vx (arc_radii arc) /\ 0 < vy (arc_radii arc)
    /\ arc_eval (aff_mul_arc_pinned aff_identity arc) 0 <> aff_apply aff_identity (arc_eval arc 0).
Proof.
  exists (mkArc (mkPoint 0 0) (mkVec2 2 1) 0 1 PI). cbn [arc_radii vx vy]. split; [lra|split; [lra|]].
  unfold aff_mul_arc_pinned, ellipse_radii_and_rotation. rewrite svd_variants_agree.
  cbn [arc_center arc_radii arc_x_rotation arc_start_angle arc_sweep_angle].
  assert (HM : el_inner (aff_mul_ellipse aff_identity (ellipse_new (mkPoint 0 0) (mkVec2 2 1) PI))
               = mkAffine (-2) 0 0 (-1) 0 0).
  { aff_unfold. rewrite cos_PI, sin_PI, (Rabs_pos_eq 2), (Rabs_pos_eq 1) by lra. rec_eq; ring. }
  rewrite HM, svd_diag by lra.
  intros He. apply (f_equal px) in He. revert He.
  unfold ellipse_center. rewrite HM. clear HM. aff_unfold.
  replace (0 + 0 * 1) with 0 by ring. rewrite cos_0, sin_0, cos_PI, sin_PI.
  replace (Rabs (-2)) with 2 by (rewrite Rabs_left; lra). lra.
Qed.

(** a reflection keeps the direction of traversal: the end point of the image is not the image
    of the end point *)
Lemma arc_pinned_refuted_reflection :
  exists (arc : Arc R),
    0 < vx (arc_radii arc) /\ 0 < vy (arc_radii arc)
    /\ aff_determinant (aff_FLIP_Y (T := R)) <> 0
    /\ arc_eval (aff_mul_arc_pinned aff_FLIP_Y arc) 1 <> aff_apply aff_FLIP_Y (arc_eval arc 1).
Proof.
  exists (mkArc (mkPoint 0 0) (mkVec2 2 1) 0 (PI / 2) 0). cbn [arc_radii vx vy].
  split; [lra|split; [lra|split]].
  { aff_unfold. lra. }
  unfold aff_mul_arc_pinned, ellipse_radii_and_rotation. rewrite svd_variants_agree.
  cbn [arc_center arc_radii arc_x_rotation arc_start_angle arc_sweep_angle].
  assert (HM : el_inner (aff_mul_ellipse aff_FLIP_Y (ellipse_new (mkPoint 0 0) (mkVec2 2 1) 0))
               = mkAffine 2 0 0 (-1) 0 0).
  { aff_unfold. rewrite cos_0, sin_0, (Rabs_pos_eq 2), (Rabs_pos_eq 1) by lra. rec_eq; ring. }
  rewrite HM, svd_diag by lra.
  intros He. apply (f_equal py) in He. revert He.
  unfold ellipse_center. rewrite HM. clear HM. aff_unfold.
  replace (0 + 1 * (PI / 2)) with (PI / 2) by ring.
  rewrite cos_0, sin_0, cos_PI2, sin_PI2.
  replace (Rabs (-1)) with 1 by (rewrite Rabs_left; lra). lra.
Qed.

(** where the pinned code is right: it agrees with the repaired one whenever the re-derived
    angles are the copied ones *)
Lemma arc_pinned_vs_repaired (A : Affine R) (arc : Arc R) :
  arc_start_angle (aff_mul_arc A arc) = arc_start_angle arc ->
  arc_sweep_angle (aff_mul_arc A arc) = arc_sweep_angle arc ->
  aff_mul_arc_pinned A arc = aff_mul_arc A arc.
Proof.
  unfold aff_mul_arc, aff_mul_arc_pinned.
  destruct (ellipse_radii_and_rotation _) as [radii rot]. cbn [arc_start_angle arc_sweep_angle].
  intros -> ->. reflexivity.
Qed.

Lemma arc_pinned_refuted :
  (exists arc : Arc R,
     0 < vx (arc_radii arc) /\ 0 < vy (arc_radii arc)
     /\ arc_eval (aff_mul_arc_pinned aff_identity arc) 0 <> aff_apply aff_identity (arc_eval arc 0))
  /\ (exists arc : Arc R,
        0 < vx (arc_radii arc) /\ 0 < vy (arc_radii arc) /\ aff_determinant (aff_FLIP_Y (T := R)) <> 0
        /\ arc_eval (aff_mul_arc_pinned aff_FLIP_Y arc) 1 <> aff_apply aff_FLIP_Y (arc_eval arc 1)).
Proof. split; [exact arc_pinned_refuted_identity|exact arc_pinned_refuted_reflection]. Qed.

(** * (centre, radii, rotation) as reported by [radii_and_rotation] describe the ellipse through
    the image points: every point of the curve satisfies the implicit equation in the reported frame *)
Lemma svd_radii_pos (m : Affine R) :
  aff_determinant m <> 0 -> 0 < vx (fst (aff_svd m)) /\ 0 < vy (fst (aff_svd m)).
Proof.
  intros Hd. destruct (svd_invariants m) as ((H2 & H21) & _ & Hp). cbv zeta in *.
  assert (0 < Rabs (aff_determinant m)) by (apply Rabs_pos_lt; exact Hd).
  split; nra.
Qed.

Lemma ellipse_implicit (m : Affine R) (th : R) :
  aff_determinant m <> 0 ->
  let r := fst (aff_svd m) in let phi := snd (aff_svd m) in
  let p := ellipse_point (mkEllipse m) th in
  let dx := px p - ae m in let dy := py p - af m in
  let lx := cos phi * dx + sin phi * dy in let ly := - sin phi * dx + cos phi * dy in
  (lx / vx r) * (lx / vx r) + (ly / vy r) * (ly / vy r) = 1.
Proof.
  intros Hd.
  destruct (svd_radii_pos m Hd) as [Hr1 Hr2].
  destruct (svd_invariants m) as (_ & _ & Hp). destruct (svd_decomposition m) as (Ha & Hb & Hab).
  cbv zeta in *.
  destruct (aff_svd m) as [[r1 r2] phi]. cbn [fst snd vx vy] in *.
  destruct m as [a b c d e f]. unfold aff_determinant in Hd, Hp. cbn [aa ab ac ad ae af] in *. rs_unfold.
  unfold ellipse_point. cbn [el_inner]. aff_unfold.
  pose proof (sin2_cos2 phi) as Hphi. pose proof (sin2_cos2 th) as Hth. unfold Rsqr in Hphi, Hth.
  set (sg := if Rltb (a * d - b * c) 0 then -1 else 1).
  assert (Hsg : sg * sg = 1) by (unfold sg; destruct (Rltb (a * d - b * c) 0); ring).
  assert (Hdsg : a * d - b * c = sg * (r1 * r2)).
  { rewrite Hp. unfold sg. destruct (Rltb_spec (a * d - b * c) 0).
    - rewrite Rabs_left by lra. ring.
    - rewrite Rabs_right by lra. ring. }
  destruct (arc_core a b c d (cos phi) (sin phi) r1 r2 sg (cos th) (sin th) 1 0
              Hphi Hr1 Hr2 Hsg Hth Ha Hb Hab Hdsg) as (ux & uy & Hu & Hlx & Hly & _).
  cbv zeta in Hlx, Hly.
  replace (cos phi * (a * cos th + c * sin th + e - e) + sin phi * (b * cos th + d * sin th + f - f))
    with (cos phi * (a * cos th + c * sin th) + sin phi * (b * cos th + d * sin th)) by ring.
  replace (- sin phi * (a * cos th + c * sin th + e - e) + cos phi * (b * cos th + d * sin th + f - f))
    with (- sin phi * (a * cos th + c * sin th) + cos phi * (b * cos th + d * sin th)) by ring.
  rewrite Hlx, Hly.
  replace (r1 * ux / r1) with ux by (field; lra). replace (r2 * uy / r2) with uy by (field; lra).
  exact Hu.
Qed.

(** the radii reported for [Ellipse::new(c, (rx, ry), rot)] are the larger and the smaller of |rx|, |ry| *)
Lemma ellipse_new_radii (c : Point R) (radii : Vec2 R) (rot : R) :
  let r := fst (ellipse_radii_and_rotation (ellipse_new c radii rot)) in
  vx r = Rmax (Rabs (vx radii)) (Rabs (vy radii)) /\ vy r = Rmin (Rabs (vx radii)) (Rabs (vy radii)).
Proof.
  destruct c as [cx cy], radii as [rx ry]. cbn [vx vy]. unfold ellipse_radii_and_rotation. rewrite svd_variants_agree.
  set (M := el_inner (ellipse_new (mkPoint cx cy) (mkVec2 rx ry) rot)).
  destruct (svd_invariants M) as ((H2 & H21) & Hs & Hp). cbv zeta in *.
  assert (HM : M = mkAffine (cos rot * Rabs rx) (sin rot * Rabs rx) (- sin rot * Rabs ry) (cos rot * Rabs ry) cx cy).
  { unfold M. aff_unfold. rec_eq; ring. }
  destruct (fst (aff_svd M)) as [u v]. cbn [vx vy] in *.
  rewrite HM in Hs, Hp. unfold aff_determinant in Hp. cbn [aa ab ac ad] in Hs, Hp. rs_unfold.
  pose proof (sin2_cos2 rot) as Hrot. unfold Rsqr in Hrot.
  set (p := Rabs rx) in *. set (q := Rabs ry) in *.
  assert (Hp0 : 0 <= p) by apply Rabs_pos. assert (Hq0 : 0 <= q) by apply Rabs_pos.
  assert (Hs' : u * u + v * v = p * p + q * q).
  { rewrite Hs. replace (cos rot * p * (cos rot * p) + sin rot * p * (sin rot * p) + - sin rot * q * (- sin rot * q) + cos rot * q * (cos rot * q))
      with ((sin rot * sin rot + cos rot * cos rot) * (p * p + q * q)) by ring. rewrite Hrot. ring. }
  assert (Hp' : u * v = p * q).
  { rewrite Hp. replace (cos rot * p * (cos rot * q) - sin rot * p * (- sin rot * q))
      with ((sin rot * sin rot + cos rot * cos rot) * (p * q)) by ring.
    rewrite Hrot, Rmult_1_l. apply Rabs_pos_eq. apply Rmult_le_pos; assumption. }
  (* (u+v)^2 = (p+q)^2 and (u-v)^2 = (p-q)^2 *)
  assert (Hsum : u + v = p + q).
  { assert ((u + v) * (u + v) = (p + q) * (p + q)) by nra.
    assert (0 <= u + v) by lra. assert (0 <= p + q) by lra. nra. }
  assert (Hdiff : (u - v) * (u - v) = (p - q) * (p - q)) by nra.
  unfold Rmax, Rmin. destruct (Rle_dec p q) as [Hpq|Hpq].
  - assert (u - v = q - p) by nra. lra.
  - assert (u - v = p - q) by nra. lra.
Qed.

(** * the same facts for the svd the tree implements ([aff_svd_det]) *)
Lemma svd_det_invariants (m : Affine R) :
  let r := fst (aff_svd_det m) in
  0 <= vy r <= vx r
  /\ vx r * vx r + vy r * vy r = aa m * aa m + ab m * ab m + ac m * ac m + ad m * ad m
  /\ vx r * vy r = Rabs (aff_determinant m).
Proof. rewrite svd_variants_agree. apply svd_invariants. Qed.

Lemma svd_det_decomposition (m : Affine R) :
  let r := fst (aff_svd_det m) in let phi := snd (aff_svd_det m) in
  let C := cos phi in let S := sin phi in
  aa m * aa m + ac m * ac m = vx r * vx r * (C * C) + vy r * vy r * (S * S)
  /\ ab m * ab m + ad m * ad m = vx r * vx r * (S * S) + vy r * vy r * (C * C)
  /\ aa m * ab m + ac m * ad m = (vx r * vx r - vy r * vy r) * (S * C).
Proof. rewrite svd_variants_agree. apply svd_decomposition. Qed.

Lemma ellipse_det_implicit (e : Ellipse R) (th : R) :
  aff_determinant (el_inner e) <> 0 ->
  let r := fst (ellipse_radii_and_rotation e) in let phi := snd (ellipse_radii_and_rotation e) in
  let p := ellipse_point e th in
  let dx := px p - px (ellipse_center e) in let dy := py p - py (ellipse_center e) in
  let lx := cos phi * dx + sin phi * dy in let ly := - sin phi * dx + cos phi * dy in
  (lx / vx r) * (lx / vx r) + (ly / vy r) * (ly / vy r) = 1.
Proof.
  destruct e as [m]. cbn [el_inner]. intros Hd. unfold ellipse_radii_and_rotation. cbn [el_inner].
  rewrite svd_variants_agree. exact (ellipse_implicit m th Hd).
Qed.
