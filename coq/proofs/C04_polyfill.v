(** C04: the values of the pieces and the region-level statement for open polylines (real instance). *)
From Coq Require Import ZArith QArith Reals List Bool Lra Lia Psatz.
From KV Require Import Scalar RInst Geom Curves Path Affine Stroke RTac StrokeSpec C04_proofs C04_region C04_pieces C04_round C04_polyregion.
Import ListNotations.
Local Open Scope R_scope.

(** ** values of the pieces *)
Definition padd (P : Point R) (a : Vec2 R) : Point R := mkPoint (px P + vx a) (py P + vy a).

(** a positively oriented triangle P, P+a, P+b: winding in [0,1]; 0 for every q farther from P than
    both a and b are long *)
Lemma tri_sum_value (q P : Point R) (a b : Vec2 R) (k2 : R) :
  0 < rcross a b -> rdot a a <= k2 -> rdot b b <= k2 ->
  let T3 := (e q P (padd P a) + e q (padd P a) (padd P b) + e q (padd P b) P)%Z in
  (0 <= T3 <= 1)%Z /\ (k2 < dist2 q P -> T3 = 0%Z).
Proof.
  intros HK Ha Hb. cbv zeta.
  set (K := rcross a b) in *.
  set (al := rcross (vec P q) b / K). set (be := rcross a (vec P q) / K).
  destruct P as [x y], q as [qx qy], a as [ax ay], b as [bx by_].
  unfold e. rewrite !edge_w_term. unfold padd, vec, rcross, rdot, dist2 in *. cbn [px py vx vy] in *.
  pose proof (tri_wn y ay by_ al be K HK) as TW. cbv zeta in TW.
  assert (Hq : qy = y + al * ay + be * by_).
  { unfold al, be, K. field. unfold K in HK. lra. }
  assert (Hqx : qx = x + al * ax + be * bx).
  { unfold al, be, K. field. unfold K in HK. lra. }
  match goal with |- (0 <= ?T <= 1)%Z /\ _ => set (TT := T) end.
  match type of TW with (0 <= ?T <= 1)%Z /\ _ => set (T0 := T) in TW end.
  assert (ET : TT = T0).
  { unfold TT, T0. f_equal; [f_equal|]; (apply edge_term_ext; [exact Hq | ring | ring | rewrite Hq, Hqx; unfold K; ring]). }
  rewrite ET. destruct TW as (Tr & Tout & _). split; [exact Tr|].
  intros Hd. apply Tout.
  destruct (Rlt_dec al 0) as [|Na]; [left; assumption|].
  destruct (Rlt_dec be 0) as [|Nb]; [right; left; assumption|].
  destruct (Rlt_dec 1 (al + be)) as [|Ns]; [right; right; assumption|]. exfalso.
  assert (Hal : 0 <= al) by lra. assert (Hbe : 0 <= be) by lra. assert (Hs : al + be <= 1) by lra.
  (* |al a + be b|^2 <= k2 *)
  assert (Hab : ax * bx + ay * by_ <= k2).
  { pose proof (Rle_0_sqr (ax - bx)) as Q1. pose proof (Rle_0_sqr (ay - by_)) as Q2. unfold Rsqr in Q1, Q2.
    assert (E : (ax - bx) * (ax - bx) + (ay - by_) * (ay - by_) =
                (ax * ax + ay * ay) + (bx * bx + by_ * by_) - 2 * (ax * bx + ay * by_)) by ring.
    lra. }
  assert (Hk2 : 0 <= k2) by (pose proof (Rle_0_sqr ax) as Q1; pose proof (Rle_0_sqr ay) as Q2; unfold Rsqr in Q1, Q2; lra).
  rewrite Hq, Hqx in Hd.
  assert (Hd2 : (al * ax + be * bx) * (al * ax + be * bx) + (al * ay + be * by_) * (al * ay + be * by_) <= k2).
  { replace ((al * ax + be * bx) * (al * ax + be * bx) + (al * ay + be * by_) * (al * ay + be * by_))
      with (al * al * (ax * ax + ay * ay) + 2 * (al * be) * (ax * bx + ay * by_) + be * be * (bx * bx + by_ * by_)) by ring.
    assert (0 <= al * al) by nra. assert (0 <= be * be) by nra. assert (0 <= al * be) by nra.
    assert (al * al * (ax * ax + ay * ay) <= al * al * k2) by nra.
    assert (be * be * (bx * bx + by_ * by_) <= be * be * k2) by nra.
    assert (2 * (al * be) * (ax * bx + ay * by_) <= 2 * (al * be) * k2) by nra.
    assert ((al + be) * (al + be) <= 1) by nra.
    nra. }
  nra.
Qed.

(** the rectangle of one edge: foot parameter and signed relative distance of an arbitrary q *)

Lemma seg_point_of q w p0 p1 : p1 <> p0 -> 0 < w ->
  q = seg_point w p0 (vec p0 p1) (foot_par p0 p1 q) (rel_dist w p0 p1 q).
Proof.
  intros Hne Hw.
  assert (Hn : vnonzero (vec p0 p1)) by (apply vec_nonzero; intros E; apply Hne; symmetry; exact E).
  pose proof (vlen_pos _ Hn) as Hl. pose proof (vlen_sq (vec p0 p1)) as Hq.
  unfold foot_par, rel_dist, seg_point.
  destruct p0 as [x0 y0], p1 as [x1 y1], q as [qx qy]. unfold vec, rdot, rcross in *. cbn [px py vx vy] in *.
  set (tx := x1 - x0) in *. set (ty := y1 - y0) in *. set (l := vlen _) in *.
  f_equal.
  - transitivity (x0 + (qx - x0) * ((tx * tx + ty * ty) / (l * l))); [rewrite <- Hq; field; lra | field; lra].
  - transitivity (y0 + (qy - y0) * ((tx * tx + ty * ty) / (l * l))); [rewrite <- Hq; field; lra | field; lra].
Qed.

Lemma rect_sum_value (q p0 p1 : Point R) (w : R) : p1 <> p0 -> 0 < w ->
  let t := vec p0 p1 in
  let A := offs w (-1) t p0 in let B := offs w (-1) t p1 in
  let C := offs w 1 t p1 in let D := offs w 1 t p0 in
  let R4 := (e q A B + e q B C + e q C D + e q D A)%Z in
  let al := foot_par p0 p1 q in let be := rel_dist w p0 p1 q in
  (0 <= R4 <= 1)%Z /\
  (0 < al < 1 -> -1 < be < 1 -> R4 = 1%Z) /\
  (al < 0 \/ 1 < al \/ be < -1 \/ 1 < be -> R4 = 0%Z).
Proof.
  intros Hne Hw. cbv zeta.
  pose proof (seg_point_of q w p0 p1 Hne Hw) as Hq.
  set (al := foot_par p0 p1 q) in *. set (be := rel_dist w p0 p1 q) in *.
  assert (Hn : vnonzero (vec p0 p1)) by (apply vec_nonzero; intros E; apply Hne; symmetry; exact E).
  pose proof (vlen_pos _ Hn) as Hl.
  rewrite Hq. clearbody al be. clear Hq.
  unfold e. rewrite !edge_w_term.
  destruct p0 as [x0 y0], p1 as [x1 y1].
  unfold seg_point, offs, vec in *. cbn [px py vx vy] in *.
  set (tx := x1 - x0) in *. set (ty := y1 - y0) in *. set (l := vlen _) in *.
  set (k := (w / 2) * / l).
  assert (Hk : 0 < k) by (unfold k; apply Rmult_lt_0_compat; [lra | apply Rinv_0_lt_compat; exact Hl]).
  assert (HL2 : 0 < tx * tx + ty * ty) by (destruct Hn as [Hn|Hn]; cbn in Hn; nra).
  assert (HK : 0 < 2 * k * (tx * tx + ty * ty)) by nra.
  assert (Huv : ty <> 0 \/ 2 * k * tx <> 0).
  { destruct Hn as [Hn|Hn]; cbn in Hn; [right; fold tx in Hn; nra | left; exact Hn]. }
  pose proof (rect_wn (y0 + -1 * (w / 2) * (tx / l)) ty (2 * k * tx) al ((be + 1) / 2) (2 * k * (tx * tx + ty * ty)) HK Huv) as R.
  pose proof (rect_wn_range (y0 + -1 * (w / 2) * (tx / l)) ty (2 * k * tx) al ((be + 1) / 2) (2 * k * (tx * tx + ty * ty)) HK Huv) as Rr.
  cbv zeta in R, Rr.
  match goal with |- (0 <= ?W <= 1)%Z /\ _ => set (WW := W) end.
  match type of Rr with (0 <= ?W <= 1)%Z => set (W0 := W) in R, Rr end.
  assert (EW : WW = W0).
  { unfold WW, W0.
    assert (X1 : x1 = x0 + tx) by (unfold tx; ring). assert (Y1 : y1 = y0 + ty) by (unfold ty; ring).
    rewrite X1, Y1. unfold k, Rdiv.
    f_equal; [f_equal; [f_equal|]|]; apply edge_term_ext; field; lra. }
  rewrite EW. destruct R as [R1 R2]. split; [exact Rr|]. split.
  - intros Ha Hb. apply R1; lra.
  - intros Ho. apply R2. lra.
Qed.

(** parallel directions have equal or opposite unit vectors *)
Lemma unit_parallel (t t' : Vec2 R) : rcross t t' = 0 -> vnonzero t -> vnonzero t' ->
  (0 < rdot t t' -> vx t' / vlen t' = vx t / vlen t /\ vy t' / vlen t' = vy t / vlen t) /\
  (rdot t t' < 0 -> vx t' / vlen t' = - (vx t / vlen t) /\ vy t' / vlen t' = - (vy t / vlen t)) /\
  rdot t t' <> 0.
Proof.
  intros HX Hn Hn'. pose proof (vlen_pos t Hn) as Hl. pose proof (vlen_pos t' Hn') as Hl'.
  pose proof (vlen_sq t) as Q. pose proof (vlen_sq t') as Q'.
  pose proof (hyp_is_product t t') as HP. rewrite HX in HP.
  destruct t as [tx ty], t' as [ux uy]. unfold rcross, rdot in *. cbn [vx vy] in *.
  set (l := vlen (mkVec2 tx ty)) in *. set (l' := vlen (mkVec2 ux uy)) in *. set (D := tx * ux + ty * uy) in *.
  assert (HD2 : D * D = (l * l') * (l * l')).
  { assert (Hnn : 0 <= 0 * 0 + D * D) by (pose proof (Rle_0_sqr D) as QQ; unfold Rsqr in QQ; lra).
    rewrite <- HP, sqrt_sqrt by exact Hnn. ring. }
  assert (Hux : ux * (l * l) = tx * D).
  { rewrite Q. unfold D. replace (tx * (tx * ux + ty * uy)) with (ux * (tx * tx + ty * ty) + ty * (tx * uy - ty * ux)) by ring.
    rewrite HX. ring. }
  assert (Huy : uy * (l * l) = ty * D).
  { rewrite Q. unfold D. replace (ty * (tx * ux + ty * uy)) with (uy * (tx * tx + ty * ty) - tx * (tx * uy - ty * ux)) by ring.
    rewrite HX. ring. }
  assert (Hll : 0 < l * l') by (apply Rmult_lt_0_compat; assumption).
  split; [|split].
  - intros HDp. assert (HD : D = l * l') by nra.
    rewrite HD in Hux, Huy.
    split; apply (Rmult_eq_reg_r (l * l')); try lra; field_simplify; try lra; nra.
  - intros HDn. assert (HD : D = - (l * l')) by nra.
    rewrite HD in Hux, Huy.
    split; apply (Rmult_eq_reg_r (l * l')); try lra; field_simplify; try lra; nra.
  - intros E. rewrite E in HD2. nra.
Qed.

Lemma offs_parallel w s t t' P : rcross t t' = 0 -> vnonzero t -> vnonzero t' ->
  (0 < rdot t t' -> offs w s t' P = offs w s t P) /\
  (rdot t t' < 0 -> offs w s t' P = offs w (- s) t P).
Proof.
  intros HX Hn Hn'. destruct (unit_parallel t t' HX Hn Hn') as (Hp & Hm & _).
  split; intros HD; [destruct (Hp HD) as [Ex Ey] | destruct (Hm HD) as [Ex Ey]];
    unfold offs; f_equal.
  - replace (- vy t' / vlen t') with (- (vy t' / vlen t')) by (unfold Rdiv; ring). rewrite Ey. unfold Rdiv; ring.
  - rewrite Ex. reflexivity.
  - replace (- vy t' / vlen t') with (- (vy t' / vlen t')) by (unfold Rdiv; ring). rewrite Ey. unfold Rdiv; ring.
  - rewrite Ex. unfold Rdiv; ring.
Qed.

Lemma padd_vec (P Q : Point R) : padd P (vec P Q) = Q.
Proof. destruct P, Q. unfold padd, vec; cbn. f_equal; ring. Qed.

Section PieceValues.
Variable st : StrokeStyle R.
Variable q : Point R.
Hypothesis Hw : 0 < sk_width st.
Let w := sk_width st.
Let k2 := (w / 2) * (w / 2).

Lemma cross_offs s P t t' : vnonzero t -> vnonzero t' ->
  rcross (vec P (offs w s t P)) (vec P (offs w s t' P)) = s * s * k2 * rcross t t' / (vlen t * vlen t').
Proof.
  intros Hn Hn'. pose proof (vlen_pos t Hn) as Hl. pose proof (vlen_pos t' Hn') as Hl'.
  destruct t as [tx ty], t' as [ux uy], P as [x y]. unfold rcross, vec, offs, k2. cbn [px py vx vy].
  set (l := vlen (mkVec2 tx ty)) in *. set (l' := vlen (mkVec2 ux uy)) in *. field. lra.
Qed.

Lemma hex_is_rect P P' : hex st q P P' (vec P P') =
  (e q (om st (vec P P') P) (om st (vec P P') P') + e q (om st (vec P P') P') (op st (vec P P') P') +
   e q (op st (vec P P') P') (op st (vec P P') P) + e q (op st (vec P P') P) (om st (vec P P') P))%Z.
Proof.
  unfold hex. rewrite <- cross_section.
  set (t := vec P P').
  assert (E : (e q (op st t P) P + e q P (om st t P))%Z = e q (op st t P) (om st t P)).
  { rewrite <- (e_split q (op st t P) (om st t P) (1 / 2)) by lra.
    assert (Hm : lerp (op st t P) (om st t P) (1 / 2) = P).
    { destruct t as [tx ty], P as [x y]. unfold lerp, om, op, offs. cbn [px py vx vy]. unfold Rdiv.
      set (i := / vlen _). f_equal; field. }
    rewrite Hm. reflexivity. }
  lia.
Qed.

Lemma hex_value P P' : P' <> P ->
  let al := foot_par P P' q in let be := rel_dist w P P' q in
  (0 <= hex st q P P' (vec P P') <= 1)%Z /\
  (0 < al < 1 -> -1 < be < 1 -> hex st q P P' (vec P P') = 1%Z) /\
  (al < 0 \/ 1 < al \/ be < -1 \/ 1 < be -> hex st q P P' (vec P P') = 0%Z).
Proof.
  intros Hne. rewrite hex_is_rect. exact (rect_sum_value q P P' w Hne Hw).
Qed.

Lemma join_piece_value P t t' : vnonzero t -> vnonzero t' ->
  (0 <= join_piece st q P t t' <= 1)%Z /\ (k2 < dist2 q P -> join_piece st q P t t' = 0%Z).
Proof.
  intros Hn Hn'. pose proof (vlen_pos t Hn) as Hl. pose proof (vlen_pos t' Hn') as Hl'.
  assert (Hll : 0 < vlen t * vlen t') by (apply Rmult_lt_0_compat; assumption).
  assert (Hk2 : 0 < k2) by (unfold k2, w; nra).
  unfold join_piece.
  destruct (Rltb_spec 0 (rcross t t')) as [HX|HX]; [|destruct (Rltb_spec (rcross t t') 0) as [HX'|HX']].
  - (* left turn: forward triangle *)
    unfold tri_f, om. fold w.
    rewrite <- (padd_vec P (offs w (-1) t P)), <- (padd_vec P (offs w (-1) t' P)).
    apply (tri_sum_value q P _ _ k2).
    + rewrite cross_offs by assumption.
      apply Rmult_lt_0_compat; [nra | apply Rinv_0_lt_compat; exact Hll].
    + pose proof (offs_dist w (-1) t P Hn ltac:(ring)) as Hd.
      unfold dist2, rdot, vec in *. cbn [px py vx vy] in *. unfold k2. lra.
    + pose proof (offs_dist w (-1) t' P Hn' ltac:(ring)) as Hd.
      unfold dist2, rdot, vec in *. cbn [px py vx vy] in *. unfold k2. lra.
  - (* right turn: backward triangle *)
    unfold tri_b, op. fold w.
    rewrite <- (padd_vec P (offs w 1 t' P)), <- (padd_vec P (offs w 1 t P)).
    apply (tri_sum_value q P _ _ k2).
    + rewrite cross_offs by assumption.
      replace (rcross t' t) with (- rcross t t') by (unfold rcross; ring).
      replace (1 * 1 * k2 * - rcross t t' / (vlen t' * vlen t)) with (k2 * (- rcross t t') * / (vlen t * vlen t')) by (field; lra).
      apply Rmult_lt_0_compat; [nra | apply Rinv_0_lt_compat; exact Hll].
    + pose proof (offs_dist w 1 t' P Hn' ltac:(ring)) as Hd.
      unfold dist2, rdot, vec in *. cbn [px py vx vy] in *. unfold k2. lra.
    + pose proof (offs_dist w 1 t P Hn ltac:(ring)) as Hd.
      unfold dist2, rdot, vec in *. cbn [px py vx vy] in *. unfold k2. lra.
  - (* parallel: both triangles are degenerate and cancel *)
    assert (HX0 : rcross t t' = 0) by lra.
    assert (Z0 : (tri_f st q P t t' + tri_b st q P t t')%Z = 0%Z).
    { unfold tri_f, tri_b, om, op. fold w.
      destruct (unit_parallel t t' HX0 Hn Hn') as (_ & _ & HD).
      destruct (offs_parallel w (-1) t t' P HX0 Hn Hn') as [Om1 Om2].
      destruct (offs_parallel w 1 t t' P HX0 Hn Hn') as [Op1 Op2].
      destruct (Rlt_dec 0 (rdot t t')) as [Hp|Hnp].
      - rewrite (Om1 Hp), (Op1 Hp), !e_self.
        pose proof (e_antisym q P (offs w (-1) t P)). pose proof (e_antisym q P (offs w 1 t P)). lia.
      - assert (Hm : rdot t t' < 0) by lra.
        rewrite (Om2 Hm), (Op2 Hm).
        replace (- -1) with 1 by ring. replace (- (1)) with (-1) by ring.
        pose proof (cross_section st q t P) as CS. unfold Xs, om, op in CS. fold w in CS.
        pose proof (e_antisym q P (offs w (-1) t P)). pose proof (e_antisym q P (offs w 1 t P)).
        pose proof (e_antisym q (offs w 1 t P) (offs w (-1) t P)). lia. }
    rewrite Z0. split; [lia | reflexivity].
Qed.
End PieceValues.

(** ** assembling: the non-zero fill of the outline of an open polyline *)

Section Assembly.
Variable st : StrokeStyle R.
Variable q : Point R.
Hypothesis Hw : 0 < sk_width st.
Let w := sk_width st.
Let k2 := (w / 2) * (w / 2).

Lemma pt_neb_neq (p lp : Point R) : pt_neb p lp = true -> p <> lp.
Proof.
  intros E Heq. subst. unfold pt_neb, pt_eqb in E. destruct lp as [x y]; cbn [px py feqb RS] in E.
  apply negb_true_iff, andb_false_iff in E. destruct E as [E|E]; apply Reqb_false in E; lra.
Qed.

Lemma vec_nz_of_neb (p lp : Point R) : pt_neb p lp = true -> vnonzero (vec lp p).
Proof. intros E. apply vec_nonzero. intros H. apply (pt_neb_neq p lp E). symmetry; exact H. Qed.

Lemma pieces_nonneg ps : forall lp lt, vnonzero lt -> (0 <= pieces st q lp lt ps)%Z.
Proof.
  induction ps as [|p r IH]; intros lp lt Hn; cbn [pieces]; [lia|].
  destruct (pt_neb p lp) eqn:E; [|apply IH; exact Hn].
  pose proof (vec_nz_of_neb p lp E) as Hn'.
  destruct (join_piece_value st q Hw lp lt (vec lp p) Hn Hn') as [[J0 _] _].
  destruct (hex_value st q Hw lp p (pt_neb_neq p lp E)) as [[H0 _] _].
  specialize (IH p (vec lp p) Hn'). lia.
Qed.

Lemma pieces_ge_edge ps : forall lp lt a b, vnonzero lt -> In (a, b) (poly_edges lp ps) ->
  hex st q a b (vec a b) = 1%Z -> (1 <= pieces st q lp lt ps)%Z.
Proof.
  induction ps as [|p r IH]; intros lp lt a b Hn Hin H1; cbn [pieces poly_edges] in *; [destruct Hin|].
  destruct (pt_neb p lp) eqn:E; [|eapply IH; eauto].
  pose proof (vec_nz_of_neb p lp E) as Hn'.
  destruct (join_piece_value st q Hw lp lt (vec lp p) Hn Hn') as [[J0 _] _].
  destruct (hex_value st q Hw lp p (pt_neb_neq p lp E)) as [[H0 _] _].
  pose proof (pieces_nonneg r p (vec lp p) Hn') as P0.
  destruct Hin as [Hin|Hin].
  - injection Hin as <- <-. lia.
  - specialize (IH p (vec lp p) a b Hn' Hin H1). lia.
Qed.

Lemma pieces_zero ps : forall lp lt, vnonzero lt ->
  (forall a b, In (a, b) (poly_edges lp ps) -> hex st q a b (vec a b) = 0%Z /\ k2 < dist2 q a) ->
  pieces st q lp lt ps = 0%Z.
Proof.
  induction ps as [|p r IH]; intros lp lt Hn Hall; cbn [pieces poly_edges] in *; [reflexivity|].
  destruct (pt_neb p lp) eqn:E; [|apply IH; assumption].
  pose proof (vec_nz_of_neb p lp E) as Hn'.
  destruct (Hall lp p (or_introl eq_refl)) as [Hh Hd].
  destruct (join_piece_value st q Hw lp lt (vec lp p) Hn Hn') as [_ J0].
  rewrite (J0 Hd), Hh, (IH p (vec lp p) Hn'); [reflexivity|].
  intros a b Hin. apply Hall. right; exact Hin.
Qed.

(** the distance from q to its foot on the edge: (rel_dist * w/2)^2 *)
Lemma foot_dist (a b : Point R) : b <> a ->
  dist2 q (lerp a b (foot_par a b q)) = rel_dist w a b q * rel_dist w a b q * k2.
Proof.
  intros Hne. pose proof (seg_point_of q w a b Hne Hw) as Hq.
  assert (Hn : vnonzero (vec a b)) by (apply vec_nonzero; intros E; apply Hne; symmetry; exact E).
  pose proof (vlen_pos _ Hn) as Hl. pose proof (vlen_sq (vec a b)) as Q.
  set (al := foot_par a b q) in *. set (be := rel_dist w a b q) in *.
  rewrite Hq at 1. clearbody al be.
  destruct a as [x0 y0], b as [x1 y1]. unfold seg_point, lerp, dist2, vec, k2 in *. cbn [px py vx vy] in *.
  set (tx := x1 - x0) in *. set (ty := y1 - y0) in *. set (l := vlen _) in *.
  match goal with |- ?lhs = _ =>
    replace lhs with (be * be * ((w / 2) * (w / 2)) * ((tx * tx + ty * ty) / (l * l))) by (field; lra) end.
  rewrite <- Q. field. lra.
Qed.

Lemma far_outside_rect (a b : Point R) : b <> a -> seg_far a b q k2 ->
  let al := foot_par a b q in let be := rel_dist w a b q in
  al < 0 \/ 1 < al \/ be < -1 \/ 1 < be.
Proof.
  intros Hne Hfar. cbv zeta.
  destruct (Rlt_dec (foot_par a b q) 0) as [|N1]; [left; assumption|].
  destruct (Rlt_dec 1 (foot_par a b q)) as [|N2]; [right; left; assumption|].
  right; right.
  assert (Hu : 0 <= foot_par a b q <= 1) by lra.
  pose proof (Hfar _ Hu) as Hd. rewrite (foot_dist a b Hne) in Hd.
  assert (Hk : 0 < k2) by (unfold k2, w; nra).
  set (be := rel_dist w a b q) in *.
  destruct (Rlt_dec be (-1)) as [|N3]; [left; assumption|]. right.
  destruct (Rlt_dec 1 be) as [|N4]; [assumption|]. exfalso.
  assert (be * be <= 1) by nra. nra.
Qed.

Lemma lerp_0 (a b : Point R) : lerp a b 0 = a.
Proof. destruct a, b. unfold lerp; cbn. f_equal; ring. Qed.

Hypothesis Hbevel : sk_join st = JoinBevel.
Hypothesis Hpivot : sk_inner_pivot st = true.
Hypothesis Hsc : sk_start_cap st = CapButt.
Hypothesis Hec : sk_end_cap st = CapButt.

(** the property for an open polyline, bevel joins, butt caps, repaired join, join threshold 0:
    covered wherever the foot on some edge is interior and the distance below width/2;
    not filled anywhere farther than width/2 from every edge *)
Theorem open_polyline_region_thm tol p0 ps p1 r out :
  first_edge p0 ps = Some (p1, r) ->
  all_emitted (2 * tol / sk_width st) p1 (vec p0 p1) r ->
  stroke_undashed (MoveTo p0 :: map (@LineTo R) ps) st tol = Some out ->
  let edges := (p0, p1) :: poly_edges p1 r in
  (forall a b, In (a, b) edges ->
     0 < foot_par a b q < 1 -> -1 < rel_dist w a b q < 1 -> (1 <= outline_wn out q)%Z) /\
  ((forall a b, In (a, b) edges -> seg_far a b q k2) -> outline_wn out q = 0%Z) /\
  (0 <= outline_wn out q)%Z.
Proof.
  intros E Hall Hout. cbv zeta.
  rewrite (polyline_decomposition_thm st Hbevel Hpivot q tol p0 ps p1 r out Hsc Hec E Hall Hout).
  assert (Hne1 : p1 <> p0).
  { clear - E. induction ps as [|p ps IH]; cbn [first_edge] in E; [discriminate|].
    destruct (pt_neb p p0) eqn:En; [injection E as <- _; apply pt_neb_neq; exact En | apply IH; exact E]. }
  assert (Hn1 : vnonzero (vec p0 p1)) by (apply vec_nonzero; intros H; apply Hne1; symmetry; exact H).
  destruct (hex_value st q Hw p0 p1 Hne1) as ([H0 H1] & Hin1 & Hout1).
  pose proof (pieces_nonneg r p1 (vec p0 p1) Hn1) as P0.
  split; [|split].
  - intros a b [Hab|Hab] Ha Hb.
    + injection Hab as <- <-. rewrite (Hin1 Ha Hb). lia.
    + assert (Hne : b <> a).
      { clear - Hab. revert Hab. generalize p1 at 1. induction r as [|p r IH]; intros lp Hab; cbn [poly_edges] in Hab; [destruct Hab|].
        destruct (pt_neb p lp) eqn:En; [|eapply IH; eauto].
        destruct Hab as [Hab|Hab]; [injection Hab as <- <-; apply pt_neb_neq; exact En | eapply IH; eauto]. }
      destruct (hex_value st q Hw a b Hne) as (_ & Hin & _).
      pose proof (pieces_ge_edge r p1 (vec p0 p1) a b Hn1 Hab (Hin Ha Hb)). lia.
  - intros Hfar.
    rewrite (Hout1 (far_outside_rect p0 p1 Hne1 (Hfar p0 p1 (or_introl eq_refl)))).
    rewrite (pieces_zero r p1 (vec p0 p1) Hn1); [reflexivity|].
    intros a b Hab.
    assert (Hne : b <> a).
    { clear - Hab. revert Hab. generalize p1 at 1. induction r as [|p r IH]; intros lp Hab; cbn [poly_edges] in Hab; [destruct Hab|].
      destruct (pt_neb p lp) eqn:En; [|eapply IH; eauto].
      destruct Hab as [Hab|Hab]; [injection Hab as <- <-; apply pt_neb_neq; exact En | eapply IH; eauto]. }
    pose proof (Hfar a b (or_intror Hab)) as Hf.
    destruct (hex_value st q Hw a b Hne) as (_ & _ & Ho).
    split; [apply Ho; apply far_outside_rect; assumption|].
    specialize (Hf 0 ltac:(lra)). rewrite lerp_0 in Hf. exact Hf.
  - lia.
Qed.
End Assembly.
