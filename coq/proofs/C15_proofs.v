(** C15: polynomial solvers and the ITP bracketing solver — lemmas at the real instance
    (kurbo's code run in exact arithmetic; division is total, [fis_finite = true]: every
    lemma carries the non-zero guards the float code relies on). *)
From Coq Require Import ZArith QArith Reals List Bool Lra Lia Sorting.Sorted.
From Coq Require Nsatz.
From KV Require Import Scalar RInst Solvers RTac.
Import ListNotations.
Local Open Scope R_scope.

Ltac sv_unfold :=
  cbv [sv_quarter sv_mquarter sv_mhalf sv_m2 sv_4 sv_8 sv_9 sv_24 sv_third sv_mthird sv_sixth
       sv_two_thirds sv_two_ninths] in *;
  rs_unfold; cbv [Q2R Qnum Qden] in *.

(** * solve_quadratic *)

Lemma Rcopysign_sqr x s : Rcopysign x s * Rcopysign x s = x * x.
Proof. unfold Rcopysign. destruct (Rle_dec 0 s); minmax; nra. Qed.

Lemma Rcopysign_sign_nonneg x s : 0 <= s -> Rcopysign x s = Rabs x.
Proof. unfold Rcopysign. destruct (Rle_dec 0 s); lra. Qed.
Lemma Rcopysign_sign_neg x s : s < 0 -> Rcopysign x s = - Rabs x.
Proof. unfold Rcopysign. destruct (Rle_dec 0 s); lra. Qed.

(* the monic part: x^2 + sc1 x + sc0 *)
Lemma quad_main_real (sc0 sc1 : R) :
  quad_main sc0 sc1 =
    let arg := sc1 * sc1 - 4 * sc0 in
    if Rlt_dec arg 0 then []
    else if Req_EM_T arg 0 then [(-1 * / 2) * sc1]
    else
      let root1 := (-1 * / 2) * (sc1 + Rcopysign (sqrt arg) sc1) in
      let root2 := sc0 / root1 in
      if Rlt_dec root1 root2 then [root1; root2] else [root2; root1].
Proof.
  unfold quad_main. sv_unfold. cbv [negb Rltb Reqb].
  destruct (Rlt_dec _ 0); [reflexivity|].
  destruct (Req_EM_T _ 0); [reflexivity|].
  destruct (Rlt_dec _ _); reflexivity.
Qed.

Lemma solve_quadratic_real (c0 c1 c2 : R) :
  solve_quadratic c0 c1 c2 = quad_main (c0 * (1 / c2)) (c1 * (1 / c2)).
Proof. unfold solve_quadratic. rs_unfold. reflexivity. Qed.

Lemma quad_main_spec (sc0 sc1 : R) :
  let l := quad_main sc0 sc1 in
  (forall x, In x l <-> x * x + sc1 * x + sc0 = 0) /\ StronglySorted Rlt l.
Proof.
  rewrite quad_main_real. cbv zeta.
  set (arg := sc1 * sc1 - 4 * sc0).
  assert (Hsq : forall x, x * x + sc1 * x + sc0 = (x + sc1 / 2) * (x + sc1 / 2) - arg / 4)
    by (intro; unfold arg; field).
  destruct (Rlt_dec arg 0) as [Hneg|Hnn].
  - split; [|constructor]. intro x; split; [intros []|]. rewrite Hsq. intro. exfalso.
    pose proof (Rle_0_sqr (x + sc1 / 2)) as Hq. unfold Rsqr in Hq. lra.
  - destruct (Req_EM_T arg 0) as [Hz|Hnz].
    + split; [|repeat constructor]. intro x. rewrite Hsq, Hz. simpl. split.
      * intros [<-|[]]. field.
      * intro Hx. left. assert ((x + sc1 / 2) * (x + sc1 / 2) = 0) by lra.
        apply Rmult_integral in H. lra.
    + assert (Hpos : 0 < arg) by lra.
      set (s := Rcopysign (sqrt arg) sc1).
      assert (Hs2 : s * s = arg) by (unfold s; rewrite Rcopysign_sqr; apply sqrt_sqrt; lra).
      assert (Hsqrt : 0 < sqrt arg) by (apply sqrt_lt_R0; exact Hpos).
      set (root1 := (-1 * / 2) * (sc1 + s)).
      assert (Hr1nz : root1 <> 0).
      { unfold root1, s. destruct (Rle_dec 0 sc1).
        - rewrite Rcopysign_sign_nonneg by assumption. rewrite Rabs_pos_eq by lra. lra.
        - rewrite Rcopysign_sign_neg by lra. rewrite Rabs_pos_eq by lra. lra. }
      assert (Hroot1 : root1 * root1 + sc1 * root1 + sc0 = 0).
      { unfold root1. unfold arg in Hs2. nra. }
      set (root2 := sc0 / root1).
      assert (Hr2 : root2 = - sc1 - root1).
      { unfold root2. apply Rmult_eq_reg_r with root1; [|exact Hr1nz].
        unfold Rdiv. rewrite Rmult_assoc, Rinv_l by exact Hr1nz. nra. }
      assert (Hfac : forall x, x * x + sc1 * x + sc0 = (x - root1) * (x - root2)).
      { intro x. rewrite Hr2. nra. }
      assert (Hne : root1 <> root2).
      { rewrite Hr2. unfold root1. intro E. assert (s = 0) by lra. subst. nra. }
      assert (Hin : forall x, (x = root1 \/ x = root2) <-> x * x + sc1 * x + sc0 = 0).
      { intro x. rewrite Hfac. split.
        - intros [->| ->]; ring.
        - intro E. apply Rmult_integral in E. lra. }
      destruct (Rlt_dec root1 root2).
      * split; [|repeat constructor; assumption].
        intro x. rewrite <- Hin. simpl. intuition.
      * split; [|repeat constructor; lra].
        intro x. rewrite <- Hin. simpl. intuition.
Qed.

(** c2 <> 0: exactly the real roots, strictly ascending (so a double root appears once) *)
Lemma solve_quadratic_spec_main (c0 c1 c2 : R) : c2 <> 0 ->
  let l := solve_quadratic c0 c1 c2 in
  (forall x, In x l <-> c0 + c1 * x + c2 * (x * x) = 0) /\ StronglySorted Rlt l.
Proof.
  intros Hc2. cbv zeta. rewrite solve_quadratic_real.
  destruct (quad_main_spec (c0 * (1 / c2)) (c1 * (1 / c2))) as [Hin Hs].
  split; [|exact Hs]. intro x. rewrite Hin.
  replace (c0 + c1 * x + c2 * (x * x)) with (c2 * (x * x + c1 * (1 / c2) * x + c0 * (1 / c2))) by (field; exact Hc2).
  split; intro E.
  - rewrite E; ring.
  - apply Rmult_integral in E. destruct E; [contradiction|assumption].
Qed.

Lemma sorted_lt_length2 (l : list R) :
  StronglySorted Rlt l -> (forall a b c, In a l -> In b l -> In c l -> a = b \/ b = c \/ a = c) ->
  (length l <= 2)%nat.
Proof.
  intros Hs H3. destruct l as [|a [|b [|c l]]]; simpl; try lia.
  exfalso. inversion Hs as [|? ? Hs1 Ha]; subst. inversion Hs1 as [|? ? Hs2 Hb]; subst.
  inversion Ha as [|? ? Hab Ha']; subst. inversion Ha' as [|? ? Hac _]; subst.
  inversion Hb as [|? ? Hbc _]; subst.
  destruct (H3 a b c); simpl; auto; lra.
Qed.

Lemma quad_len_any (c0 c1 c2 : R) : (length (solve_quadratic c0 c1 c2) <= 2)%nat.
Proof.
  rewrite solve_quadratic_real, quad_main_real. cbv zeta.
  repeat match goal with |- context [if ?b then _ else _] => destruct b end; simpl; lia.
Qed.

(* the discriminant view *)
Lemma solve_quadratic_disc (c0 c1 c2 : R) : c2 <> 0 ->
  let D := c1 * c1 - 4 * c2 * c0 in
  (D < 0 -> solve_quadratic c0 c1 c2 = []) /\
  (D = 0 -> solve_quadratic c0 c1 c2 = [- c1 / (2 * c2)]) /\
  (0 < D -> exists x1 x2, solve_quadratic c0 c1 c2 = [x1; x2] /\ x1 < x2).
Proof.
  intros Hc2 D. rewrite solve_quadratic_real, quad_main_real. cbv zeta.
  set (arg := _ - _).
  assert (Harg : arg = D / (c2 * c2)) by (unfold arg, D; field; exact Hc2).
  assert (Hc22 : 0 < c2 * c2) by nra.
  assert (Hi : 0 < / (c2 * c2)) by (apply Rinv_0_lt_compat; exact Hc22).
  assert (Hsgn : (arg < 0 <-> D < 0) /\ (arg = 0 <-> D = 0)).
  { rewrite Harg. unfold Rdiv. split; split; intro; nra. }
  destruct Hsgn as [Hlt Heq].
  repeat split.
  - intro HD. destruct (Rlt_dec arg 0); [reflexivity|]. tauto.
  - intro HD. destruct (Rlt_dec arg 0); [exfalso; lra|].
    destruct (Req_EM_T arg 0); [|tauto]. f_equal. field. exact Hc2.
  - intro HD. destruct (Rlt_dec arg 0); [exfalso; lra|].
    destruct (Req_EM_T arg 0); [exfalso; lra|].
    pose proof (quad_main_spec (c0 * (1 / c2)) (c1 * (1 / c2))) as [_ Hs].
    rewrite quad_main_real in Hs. cbv zeta in Hs. fold arg in Hs.
    destruct (Rlt_dec arg 0); [lra|]. destruct (Req_EM_T arg 0); [lra|].
    match goal with |- context [if ?b then _ else _] => destruct b end;
      eexists; eexists; (split; [reflexivity|]);
      inversion Hs as [|? ? _ Hf]; subst; inversion Hf; subst; assumption.
Qed.

(** the linear block of solve_quadratic, reached when the scaled coefficients are not finite
    (c2 zero or tiny): generic in the scalar *)
Lemma solve_quadratic_linear_generic (T : Type) (S : Scalar T) (c0 c1 c2 : T) :
  (fis_finite (fmul c0 (fdiv f1 c2)) && fis_finite (fmul c1 (fdiv f1 c2)))%bool = false ->
  solve_quadratic c0 c1 c2 = quad_linear c0 c1.
Proof.
  intro Hf. unfold solve_quadratic.
  destruct (fis_finite (fmul c0 (fdiv f1 c2))), (fis_finite (fmul c1 (fdiv f1 c2))); simpl in *;
    try discriminate; reflexivity.
Qed.

(* at the reals: the linear root for c1 <> 0; all-zero gives [0] *)
Lemma quad_linear_real (c0 c1 : R) : c1 <> 0 ->
  quad_linear c0 c1 = [- c0 / c1] /\ c0 + c1 * (- c0 / c1) = 0.
Proof. intro H. unfold quad_linear. rs_unfold. split; [reflexivity|field; exact H]. Qed.

Lemma quad_linear_zero : quad_linear (T:=R) 0 0 = [0].
Proof. unfold quad_linear. rs_unfold. f_equal. unfold Rdiv. ring. Qed.

(** * solve_cubic *)

Lemma Rcbrt_cube x : Rcbrt x * Rcbrt x * Rcbrt x = x.
Proof.
  assert (P : forall y, 0 < y -> Rpower y (1 / 3) * Rpower y (1 / 3) * Rpower y (1 / 3) = y).
  { intros y Hy. rewrite <- !Rpower_plus. replace (1 / 3 + 1 / 3 + 1 / 3) with 1 by field.
    apply Rpower_1; exact Hy. }
  unfold Rcbrt. destruct (Rlt_dec 0 x); [apply P; assumption|].
  destruct (Rlt_dec x 0); [|replace x with 0 by lra; ring].
  pose proof (P (- x) ltac:(lra)). nra.
Qed.

Lemma cube_inj a b : a * a * a = b * b * b -> a = b.
Proof.
  intro E. assert (F : (a - b) * (a * a + a * b + b * b) = 0) by nra.
  apply Rmult_integral in F. destruct F as [F|F]; [lra|].
  assert (Hb : b * b = 0).
  { pose proof (Rle_0_sqr (a + b / 2)) as H1. pose proof (Rle_0_sqr b) as H2. unfold Rsqr in *. nra. }
  apply Rmult_integral in Hb. assert (b = 0) by lra. subst b.
  assert (Ha : a * a = 0) by nra. apply Rmult_integral in Ha. lra.
Qed.

(* the depressed cubic t^3 + 3 d0 t + de, where x = t - c2 *)
Lemma depress (c0 c1 c2 t : R) :
  let d0 := - c2 * c2 + c1 in
  let d1 := - c1 * c2 + c0 in
  let de := -2 * c2 * d0 + d1 in
  let x := t - c2 in
  x * x * x + 3 * c2 * (x * x) + 3 * c1 * x + c0 = t * t * t + 3 * d0 * t + de.
Proof. cbv zeta. ring. Qed.

Lemma disc_identity (c0 c1 c2 : R) :
  let d0 := - c2 * c2 + c1 in
  let d1 := - c1 * c2 + c0 in
  let d2 := c2 * c0 - c1 * c1 in
  let d := 4 * d0 * d2 - d1 * d1 in
  let de := -2 * c2 * d0 + d1 in
  de * de + d = -4 * (d0 * d0 * d0).
Proof. cbv zeta. ring. Qed.

(* one-root branch: Cardano *)
Lemma dep_one_root (d0 de d : R) : de * de + d = -4 * (d0 * d0 * d0) -> d < 0 ->
  let sq := sqrt (-1 * / 4 * d) in
  let r := -1 * / 2 * de in
  let t1 := Rcbrt (r + sq) + Rcbrt (r - sq) in
  t1 * t1 * t1 + 3 * d0 * t1 + de = 0.
Proof.
  intros Hid Hd sq r t1.
  assert (Hsq : sq * sq = -1 * / 4 * d) by (apply sqrt_sqrt; lra).
  set (u := Rcbrt (r + sq)) in *. set (v := Rcbrt (r - sq)) in *.
  assert (Hu : u * u * u = r + sq) by apply Rcbrt_cube.
  assert (Hv : v * v * v = r - sq) by apply Rcbrt_cube.
  assert (Huv : u * v = - d0).
  { apply cube_inj.
    replace (u * v * (u * v) * (u * v)) with ((u * u * u) * (v * v * v)) by ring.
    rewrite Hu, Hv. unfold r. nra. }
  unfold t1.
  replace ((u + v) * (u + v) * (u + v)) with (u * u * u + v * v * v + 3 * (u * v) * (u + v)) by ring.
  rewrite Hu, Hv, Huv. unfold r. lra.
Qed.

(* the same branch as the repaired variant [cubic_one_root_repaired] computes it: the
   non-cancelling cube root u, the other one as -d0/u *)
Lemma dep_one_root_stable (d0 de d : R) : de * de + d = -4 * (d0 * d0 * d0) -> d < 0 ->
  let sq := sqrt (-1 * / 4 * d) in
  let r := -1 * / 2 * de in
  let u := Rcbrt (r + Rcopysign sq r) in
  let v := if Req_EM_T u 0 then 0 else - d0 / u in
  let t1 := u + v in
  u <> 0 /\ t1 * t1 * t1 + 3 * d0 * t1 + de = 0.
Proof.
  intros Hid Hd sq r u v t1.
  assert (Hsq0 : 0 < sq) by (apply sqrt_lt_R0; lra).
  assert (Hsq : sq * sq = -1 * / 4 * d) by (apply sqrt_sqrt; lra).
  set (s := Rcopysign sq r) in *.
  assert (Hs2 : s * s = sq * sq) by apply Rcopysign_sqr.
  assert (Hu : u * u * u = r + s) by apply Rcbrt_cube.
  assert (Hrs : r + s <> 0).
  { unfold s. destruct (Rle_dec 0 r).
    - rewrite Rcopysign_sign_nonneg by assumption. rewrite Rabs_pos_eq by lra. lra.
    - rewrite Rcopysign_sign_neg by lra. rewrite Rabs_pos_eq by lra. lra. }
  assert (Hu0 : u <> 0) by (intro E; rewrite E in Hu; lra).
  split; [exact Hu0|].
  unfold t1, v. destruct (Req_EM_T u 0); [contradiction|].
  set (w := - d0 / u). assert (Huw : u * w = - d0) by (unfold w; field; exact Hu0).
  (* w^3 = -d0^3 / u^3 = (r^2 - s^2)/(r + s) = r - s *)
  assert (Hw : w * w * w = r - s).
  { apply Rmult_eq_reg_l with (u * u * u); [|rewrite Hu; exact Hrs].
    replace (u * u * u * (w * w * w)) with ((u * w) * (u * w) * (u * w)) by ring.
    rewrite Huw, Hu. unfold r in *. nra. }
  replace ((u + w) * (u + w) * (u + w)) with (u * u * u + w * w * w + 3 * (u * w) * (u + w)) by ring.
  rewrite Hu, Hw, Huw. unfold r. lra.
Qed.

(* the one-root branch returns the only real root *)
Lemma dep_one_root_unique (d0 de d t1 t : R) : de * de + d = -4 * (d0 * d0 * d0) -> d < 0 ->
  t1 * t1 * t1 + 3 * d0 * t1 + de = 0 -> t * t * t + 3 * d0 * t + de = 0 -> t = t1.
Proof.
  intros Hid Hd H1 H.
  assert (Hfac : (t - t1) * (t * t + t1 * t + (t1 * t1 + 3 * d0)) = 0) by nra.
  apply Rmult_integral in Hfac. destruct Hfac as [|Hq]; [lra|exfalso].
  (* de^2 + 4 d0^3 = (t1^2 + 4 d0) (t1^2 + d0)^2 > 0, so t1^2 + 4 d0 > 0 and the quadratic factor has no real root *)
  assert (Hde : de = - (t1 * t1 * t1 + 3 * d0 * t1)) by lra.
  assert (Hpos : 0 < (t1 * t1 + 4 * d0) * ((t1 * t1 + d0) * (t1 * t1 + d0))).
  { replace ((t1 * t1 + 4 * d0) * ((t1 * t1 + d0) * (t1 * t1 + d0)))
      with (de * de + 4 * (d0 * d0 * d0)) by (rewrite Hde; ring). lra. }
  assert (H4 : 0 < t1 * t1 + 4 * d0).
  { pose proof (Rle_0_sqr (t1 * t1 + d0)) as Hs. unfold Rsqr in Hs.
    destruct (Rle_dec (t1 * t1 + 4 * d0) 0); [|lra]. exfalso. nra. }
  pose proof (Rle_0_sqr (t + t1 / 2)) as Hs. unfold Rsqr in Hs. nra.
Qed.

(* double-root branch *)
Lemma dep_double_root (d0 de : R) : de * de = -4 * (d0 * d0 * d0) ->
  let t1 := Rcopysign (sqrt (- d0)) de in
  d0 = - (t1 * t1) /\ de = 2 * (t1 * t1 * t1).
Proof.
  intros Hid t1.
  assert (Hd0 : d0 <= 0).
  { destruct (Rle_dec d0 0); [assumption|exfalso].
    assert (0 < d0 * d0 * d0) by (apply Rmult_lt_0_compat; nra). nra. }
  assert (Ht2 : t1 * t1 = - d0).
  { unfold t1. rewrite Rcopysign_sqr. apply sqrt_sqrt. lra. }
  split; [lra|].
  assert (Hs : 0 <= sqrt (- d0)) by apply sqrt_pos.
  assert (Hde2 : de * de = (2 * (t1 * t1 * t1)) * (2 * (t1 * t1 * t1))).
  { rewrite Hid. replace d0 with (- (t1 * t1)) by lra. ring. }
  unfold t1 in *. destruct (Rle_dec 0 de).
  - rewrite Rcopysign_sign_nonneg in * by assumption. rewrite Rabs_pos_eq in * by assumption.
    set (s := sqrt (- d0)) in *. assert (0 <= s * s * s) by (repeat apply Rmult_le_pos; assumption). nra.
  - rewrite Rcopysign_sign_neg in * by lra. rewrite Rabs_pos_eq in * by assumption.
    set (s := sqrt (- d0)) in *. assert (0 <= s * s * s) by (repeat apply Rmult_le_pos; assumption). nra.
Qed.

(* three-root branch: trigonometric *)
Lemma cos_Ratan2 (y x : R) : 0 < y -> cos (Ratan2 y x) = x / sqrt (x * x + y * y).
Proof.
  intro Hy. assert (Hn : 0 < x * x + y * y) by nra.
  assert (Hs : 0 < sqrt (x * x + y * y)) by (apply sqrt_lt_R0; exact Hn).
  assert (Hcos : forall z, z <> 0 -> cos (atan (y / z)) = Rabs z / sqrt (z * z + y * y)).
  { intros z Hz. rewrite cos_atan. unfold Rsqr.
    replace (1 + y / z * (y / z)) with ((z * z + y * y) / (z * z)) by (field; exact Hz).
    rewrite sqrt_div_alt by nra. replace (z * z) with (Rsqr z) at 2 by reflexivity.
    rewrite sqrt_Rsqr_abs.
    assert (0 < sqrt (z * z + y * y)) by (apply sqrt_lt_R0; nra).
    assert (Rabs z <> 0) by (apply Rabs_no_R0; exact Hz).
    field. split; [lra|assumption]. }
  unfold Ratan2. destruct (Rlt_dec 0 x).
  - rewrite Hcos by lra. rewrite Rabs_pos_eq by lra. reflexivity.
  - destruct (Rlt_dec x 0).
    + assert (Hq : 0 <= y / x -> False).
      { intro. assert (y / x * x <= 0) by nra. unfold Rdiv in *. rewrite Rmult_assoc, Rinv_l in * by lra. lra. }
      destruct (Rle_dec 0 y); [|lra].
      rewrite neg_cos, Hcos by lra. rewrite Rabs_left by lra. field. lra.
    + assert (x = 0) by lra. subst. destruct (Rlt_dec 0 y); [|lra].
      rewrite cos_PI2. unfold Rdiv. ring.
Qed.

Lemma Ratan2_range (y x : R) : 0 < y -> 0 < Ratan2 y x < PI.
Proof.
  intro Hy. pose proof PI_RGT_0 as Hpi. unfold Ratan2.
  destruct (Rlt_dec 0 x).
  - assert (0 < y / x) by (apply Rdiv_lt_0_compat; lra).
    pose proof (atan_bound (y / x)). pose proof (atan_increasing 0 (y / x) ltac:(lra)) as Hi.
    rewrite atan_0 in Hi. lra.
  - destruct (Rlt_dec x 0).
    + destruct (Rle_dec 0 y); [|lra].
      assert (y / x < 0).
      { unfold Rdiv. assert (/ x < 0) by (apply Rinv_lt_0_compat; lra). nra. }
      pose proof (atan_bound (y / x)). pose proof (atan_increasing (y / x) 0 ltac:(lra)) as Hi.
      rewrite atan_0 in Hi. lra.
    + destruct (Rlt_dec 0 y); lra.
Qed.

Lemma cos_3a (a : R) : cos (3 * a) = 4 * (cos a * cos a * cos a) - 3 * cos a.
Proof.
  replace (3 * a) with (2 * a + a) by ring.
  rewrite cos_plus, cos_2a, sin_2a.
  pose proof (sin2_cos2 a) as H. unfold Rsqr in H.
  assert (HS : sin a * sin a = 1 - cos a * cos a) by lra.
  replace ((cos a * cos a - sin a * sin a) * cos a - 2 * sin a * cos a * sin a)
    with ((cos a * cos a - sin a * sin a) * cos a - 2 * cos a * (sin a * sin a)) by ring.
  rewrite HS. ring.
Qed.

(* the three values r with 4 r^3 - 3 r = cos(3 th) *)
Lemma trig_three (C S w : R) : C * C + S * S = 1 -> w * w = 3 ->
  let k := 4 * (C * C * C) - 3 * C in
  let r1 := / 2 * (- C + S * w) in
  let r2 := / 2 * (- C - S * w) in
  4 * (r1 * r1 * r1) - 3 * r1 = k /\ 4 * (r2 * r2 * r2) - 3 * r2 = k.
Proof.
  intros H1 H3. cbv zeta.
  assert (HS : S * S = 1 - C * C) by lra.
  split.
  - replace (4 * (/ 2 * (- C + S * w) * (/ 2 * (- C + S * w)) * (/ 2 * (- C + S * w))))
      with (/ 2 * (- (C * C * C) + 3 * (C * C) * S * w - 3 * C * (S * S) * (w * w) + S * (S * S) * w * (w * w))) by field.
    rewrite H3, HS. field.
  - replace (4 * (/ 2 * (- C - S * w) * (/ 2 * (- C - S * w)) * (/ 2 * (- C - S * w))))
      with (/ 2 * (- (C * C * C) - 3 * (C * C) * S * w - 3 * C * (S * S) * (w * w) - S * (S * S) * w * (w * w))) by field.
    rewrite H3, HS. field.
Qed.

Lemma dep_three_roots (d0 de d rho : R) : de * de + d = -4 * (d0 * d0 * d0) -> 0 < d ->
  let th := Ratan2 (sqrt d) (- de) * (1 / 3) in
  4 * (rho * rho * rho) - 3 * rho = 4 * (cos th * cos th * cos th) - 3 * cos th ->
  let t := 2 * sqrt (- d0) in
  let X := t * rho in
  X * X * X + 3 * d0 * X + de = 0.
Proof.
  intros Hid Hd th Hrho t X.
  assert (Hd03 : 0 < - (d0 * d0 * d0)) by nra.
  assert (Hd0 : d0 < 0).
  { destruct (Rlt_dec d0 0); [assumption|exfalso].
    assert (0 <= d0 * d0 * d0) by (repeat apply Rmult_le_pos; lra). lra. }
  set (s := sqrt (- d0)) in *.
  assert (Hs2 : s * s = - d0) by (apply sqrt_sqrt; lra).
  assert (Hs : 0 < s) by (apply sqrt_lt_R0; lra).
  rewrite <- cos_3a in Hrho.
  replace (3 * th) with (Ratan2 (sqrt d) (- de)) in Hrho by (unfold th; field).
  assert (Hsd : 0 < sqrt d) by (apply sqrt_lt_R0; exact Hd).
  rewrite cos_Ratan2 in Hrho by exact Hsd.
  rewrite (sqrt_sqrt d) in Hrho by lra.
  replace (- de * - de + d) with ((2 * (s * s * s)) * (2 * (s * s * s))) in Hrho
    by (replace (- de * - de + d) with (de * de + d) by ring; rewrite Hid; replace d0 with (- (s * s)) by lra; ring).
  replace (2 * (s * s * s) * (2 * (s * s * s))) with (Rsqr (2 * (s * s * s))) in Hrho by reflexivity.
  rewrite sqrt_Rsqr in Hrho by (assert (0 < s * s * s) by (repeat apply Rmult_lt_0_compat; assumption); lra).
  assert (Hs3 : s * s * s <> 0) by (assert (0 < s * s * s) by (repeat apply Rmult_lt_0_compat; assumption); lra).
  unfold X, t.
  replace (2 * s * rho * (2 * s * rho) * (2 * s * rho) + 3 * d0 * (2 * s * rho) + de)
    with (2 * (s * s * s) * (4 * (rho * rho * rho) - 3 * rho) + de)
    by (replace d0 with (- (s * s)) by lra; ring).
  rewrite Hrho. field. lra.
Qed.

(* the clamp [d0.min(0.0)] of repair commit fd4a7ab is the identity in exact arithmetic *)
Lemma clamp_id (d0 de d : R) : de * de + d = -4 * (d0 * d0 * d0) -> 0 <= d -> Rmin d0 0 = d0.
Proof.
  intros Hid Hd. apply Rmin_left. destruct (Rle_dec d0 0); [assumption|exfalso].
  assert (0 < d0 * d0 * d0) by (repeat apply Rmult_lt_0_compat; lra). nra.
Qed.

Definition cubic_monic (c0 c1 c2 x : R) : R := x * x * x + 3 * c2 * (x * x) + 3 * c1 * x + c0.

(* the branch structure of cubic_main at the reals, in terms of t (x = t - c2) *)
Lemma cubic_main_real (c0 c1 c2 : R) :
  let d0 := - c2 * c2 + c1 in
  let d1 := - c1 * c2 + c0 in
  let d2 := c2 * c0 - c1 * c1 in
  let d := 4 * d0 * d2 - d1 * d1 in
  let de := -2 * c2 * d0 + d1 in
  cubic_main c0 c1 c2 =
    if Rlt_dec d 0 then
      [Rcbrt (-1 * / 2 * de + sqrt (-1 * / 4 * d)) + Rcbrt (-1 * / 2 * de - sqrt (-1 * / 4 * d)) - c2]
    else if Req_EM_T d 0 then
      let t1 := Rcopysign (sqrt (- d0)) de in [t1 - c2; -2 * t1 - c2]
    else
      let th := Ratan2 (sqrt d) (- de) * (1 / 3) in
      let t := 2 * sqrt (- d0) in
      [t * cos th + - c2;
       t * (1 * / 2 * (- cos th + sin th * sqrt 3)) + - c2;
       t * (1 * / 2 * (- cos th - sin th * sqrt 3)) + - c2].
Proof.
  pose proof (disc_identity c0 c1 c2) as Hid.
  cbv zeta in *. unfold cubic_main. sv_unfold. cbv [Rltb Reqb Rleb].
  set (d0 := - c2 * c2 + c1) in *. set (d1 := - c1 * c2 + c0) in *.
  set (d2 := c2 * c0 - c1 * c1) in *. set (d := 4 * d0 * d2 - d1 * d1) in *.
  set (de := -2 * c2 * d0 + d1) in *.
  destruct (Rlt_dec d 0); destruct (Rle_dec 0 d); try lra; [reflexivity|].
  (* the clamp d0.min(0.0) is the identity: d >= 0 forces d0 <= 0 *)
  rewrite (clamp_id d0 de d Hid) by lra.
  destruct (Req_EM_T d 0); reflexivity.
Qed.

Lemma cubic_main_sound (c0 c1 c2 x : R) :
  In x (cubic_main c0 c1 c2) -> cubic_monic c0 c1 c2 x = 0.
Proof.
  pose proof (cubic_main_real c0 c1 c2) as E. pose proof (disc_identity c0 c1 c2) as Hid.
  pose proof (depress c0 c1 c2) as Hdep. unfold cubic_monic.
  cbv zeta in E, Hid, Hdep. rewrite E. clear E.
  set (d0 := - c2 * c2 + c1) in *. set (d1 := - c1 * c2 + c0) in *.
  set (d2 := c2 * c0 - c1 * c1) in *. set (d := 4 * d0 * d2 - d1 * d1) in *.
  set (de := -2 * c2 * d0 + d1) in *.
  destruct (Rlt_dec d 0) as [Hneg|Hnn].
  - intros [<-|[]]. rewrite Hdep. apply (dep_one_root d0 de d Hid Hneg).
  - destruct (Req_EM_T d 0) as [Hz|Hnz].
    + cbv zeta. rewrite Hz, Rplus_0_r in Hid.
      destruct (dep_double_root d0 de Hid) as [H0 H1]. cbv zeta in H0, H1.
      set (t1 := Rcopysign (sqrt (- d0)) de) in *.
      intros [<-|[<-|[]]]; rewrite Hdep; rewrite H0, H1; ring.
    + assert (Hpos : 0 < d) by lra. cbv zeta.
      set (th := Ratan2 (sqrt d) (- de) * (1 / 3)).
      assert (Hw : sqrt 3 * sqrt 3 = 3) by (apply sqrt_sqrt; lra).
      pose proof (sin2_cos2 th) as Hsc. unfold Rsqr in Hsc.
      destruct (trig_three (cos th) (sin th) (sqrt 3) ltac:(lra) Hw) as [Hr1 Hr2].
      cbv zeta in Hr1, Hr2. replace (1 * / 2) with (/ 2) by lra.
      assert (Hdep' : forall t, (t + - c2) * (t + - c2) * (t + - c2) + 3 * c2 * ((t + - c2) * (t + - c2)) +
                                 3 * c1 * (t + - c2) + c0 = t * t * t + 3 * d0 * t + de)
        by (intro t; rewrite <- Hdep; ring).
      intros [<-|[<-|[<-|[]]]]; rewrite Hdep';
        apply (dep_three_roots d0 de d _ Hid Hpos); fold th; [reflexivity|exact Hr1|exact Hr2].
Qed.

(* the scaling step of solve_cubic: x^3 + 3 s2 x^2 + 3 s1 x + s0 with s_i the scaled coefficients *)
Lemma solve_cubic_real (c0 c1 c2 c3 : R) :
  solve_cubic c0 c1 c2 c3 =
    cubic_main (c0 * (1 / c3)) (c1 * (1 / 3 * (1 / c3))) (c2 * (1 / 3 * (1 / c3))).
Proof. unfold solve_cubic. sv_unfold. reflexivity. Qed.

Lemma cubic_scale (c0 c1 c2 c3 x : R) : c3 <> 0 ->
  c0 + c1 * x + c2 * (x * x) + c3 * (x * x * x) =
  c3 * cubic_monic (c0 * (1 / c3)) (c1 * (1 / 3 * (1 / c3))) (c2 * (1 / 3 * (1 / c3))) x.
Proof. intro H. unfold cubic_monic. field. exact H. Qed.

Lemma solve_cubic_sound (c0 c1 c2 c3 x : R) : c3 <> 0 ->
  In x (solve_cubic c0 c1 c2 c3) -> c0 + c1 * x + c2 * (x * x) + c3 * (x * x * x) = 0.
Proof.
  intros H3 Hin. rewrite solve_cubic_real in Hin. apply cubic_main_sound in Hin.
  rewrite cubic_scale by exact H3. rewrite Hin. ring.
Qed.

Lemma cubic_main_len (c0 c1 c2 : R) : (length (cubic_main c0 c1 c2) <= 3)%nat.
Proof.
  pose proof (cubic_main_real c0 c1 c2) as E. cbv zeta in E. rewrite E.
  repeat match goal with |- context [if ?b then _ else _] => destruct b end; simpl; lia.
Qed.

Lemma solve_cubic_len (c0 c1 c2 c3 : R) : (length (solve_cubic c0 c1 c2 c3) <= 3)%nat.
Proof. rewrite solve_cubic_real. apply cubic_main_len. Qed.

(** c3 = 0 (or tiny): the scaled coefficients are not finite and the quadratic solver is used.
    Generic in the scalar (at the real instance the test never fires: x/0 = 0 is "finite"). *)
Lemma solve_cubic_delegates_generic (T : Type) (S : Scalar T) (c0 c1 c2 c3 : T) :
  (fis_finite (fmul c0 (fdiv f1 c3)) && fis_finite (fmul c1 (fmul (fdiv f1 f3) (fdiv f1 c3)))
   && fis_finite (fmul c2 (fmul (fdiv f1 f3) (fdiv f1 c3))))%bool = false ->
  solve_cubic c0 c1 c2 c3 = solve_quadratic c0 c1 c2.
Proof. intro Hf. unfold solve_cubic. cbv [sv_third]. rewrite Hf. reflexivity. Qed.

(** completeness: every real root is returned *)

Lemma three_distinct_roots_all (p q X0 X1 X2 t : R) :
  X0 <> X1 -> X0 <> X2 -> X1 <> X2 ->
  X0 * X0 * X0 + p * X0 + q = 0 -> X1 * X1 * X1 + p * X1 + q = 0 -> X2 * X2 * X2 + p * X2 + q = 0 ->
  t * t * t + p * t + q = 0 -> t = X0 \/ t = X1 \/ t = X2.
Proof.
  intros H01 H02 H12 P0 P1 P2 Pt.
  assert (Q : forall u, u * u * u + p * u + q = 0 -> u = X0 \/ u * u + X0 * u + (X0 * X0 + p) = 0).
  { intros u Pu. assert (F : (u - X0) * (u * u + X0 * u + (X0 * X0 + p)) = 0) by nra.
    apply Rmult_integral in F. destruct F; [left; lra|right; assumption]. }
  destruct (Q t Pt) as [|Qt]; [left; assumption|right].
  destruct (Q X1 P1) as [|Q1]; [exfalso; auto|]. destruct (Q X2 P2) as [|Q2]; [exfalso; auto|].
  assert (F1 : (t - X1) * (t + X1 + X0) = 0) by nra.
  apply Rmult_integral in F1. destruct F1 as [|F1]; [left; lra|right].
  assert (F2 : (X2 - X1) * (X2 + X1 + X0) = 0) by nra.
  apply Rmult_integral in F2. destruct F2 as [|F2]; [exfalso; apply H12; lra|]. lra.
Qed.

Lemma trig_order (th : R) : 0 < th < PI / 3 ->
  let r0 := cos th in
  let r1 := 1 * / 2 * (- cos th + sin th * sqrt 3) in
  let r2 := 1 * / 2 * (- cos th - sin th * sqrt 3) in
  r2 < r1 < r0.
Proof.
  intros Hth. cbv zeta. pose proof PI_RGT_0 as Hpi.
  assert (Hw : 0 < sqrt 3) by (apply sqrt_lt_R0; lra).
  assert (Hw2 : sqrt 3 * sqrt 3 = 3) by (apply sqrt_sqrt; lra).
  assert (HS : 0 < sin th) by (apply sin_gt_0; lra).
  assert (HD : 0 < sin (PI / 3 - th)) by (apply sin_gt_0; lra).
  rewrite sin_minus, sin_PI3, cos_PI3 in HD.
  split; [nra|].
  (* r0 - r1 = sqrt 3 * (sqrt3/2 C - 1/2 S) *)
  assert (E : cos th - 1 * / 2 * (- cos th + sin th * sqrt 3)
              = sqrt 3 * (sqrt 3 / 2 * cos th - 1 / 2 * sin th)) by (field_simplify; nra).
  assert (0 < sqrt 3 * (sqrt 3 / 2 * cos th - 1 / 2 * sin th)) by (apply Rmult_lt_0_compat; lra).
  lra.
Qed.

Lemma cubic_main_three (c0 c1 c2 : R) :
  let d0 := - c2 * c2 + c1 in
  let d1 := - c1 * c2 + c0 in
  let d2 := c2 * c0 - c1 * c1 in
  let d := 4 * d0 * d2 - d1 * d1 in
  0 < d -> exists x0 x1 x2, cubic_main c0 c1 c2 = [x0; x1; x2] /\ x2 < x1 < x0.
Proof.
  cbv zeta. intro Hd. pose proof (cubic_main_real c0 c1 c2) as E. pose proof (disc_identity c0 c1 c2) as Hid.
  cbv zeta in E, Hid. rewrite E. clear E.
  set (d0 := - c2 * c2 + c1) in *. set (d1 := - c1 * c2 + c0) in *.
  set (d2 := c2 * c0 - c1 * c1) in *. set (d := 4 * d0 * d2 - d1 * d1) in *.
  set (de := -2 * c2 * d0 + d1) in *.
  destruct (Rlt_dec d 0); [lra|]. destruct (Req_EM_T d 0); [lra|].
  do 3 eexists. split; [reflexivity|].
  assert (Hd0 : d0 < 0).
  { destruct (Rlt_dec d0 0); [assumption|exfalso].
    assert (0 <= d0 * d0 * d0) by (repeat apply Rmult_le_pos; lra). nra. }
  assert (Ht : 0 < 2 * sqrt (- d0)) by (assert (0 < sqrt (- d0)) by (apply sqrt_lt_R0; lra); lra).
  assert (Hsd : 0 < sqrt d) by (apply sqrt_lt_R0; exact Hd).
  pose proof (Ratan2_range (sqrt d) (- de) Hsd) as Hr.
  destruct (trig_order (Ratan2 (sqrt d) (- de) * (1 / 3)) ltac:(lra)) as [H21 H10].
  split; nra.
Qed.

Lemma cubic_main_complete (c0 c1 c2 x : R) :
  cubic_monic c0 c1 c2 x = 0 -> In x (cubic_main c0 c1 c2).
Proof.
  intro Hx.
  (* every returned value is a root *)
  pose proof (cubic_main_sound c0 c1 c2) as Hsound.
  pose proof (cubic_main_three c0 c1 c2) as H3.
  pose proof (cubic_main_real c0 c1 c2) as E. pose proof (disc_identity c0 c1 c2) as Hid.
  pose proof (depress c0 c1 c2) as Hdep. unfold cubic_monic in *.
  cbv zeta in E, Hid, Hdep, H3. rewrite E in *. clear E.
  set (d0 := - c2 * c2 + c1) in *. set (d1 := - c1 * c2 + c0) in *.
  set (d2 := c2 * c0 - c1 * c1) in *. set (d := 4 * d0 * d2 - d1 * d1) in *.
  set (de := -2 * c2 * d0 + d1) in *.
  assert (Hdx : forall y, y * y * y + 3 * c2 * (y * y) + 3 * c1 * y + c0
                          = (y + c2) * (y + c2) * (y + c2) + 3 * d0 * (y + c2) + de).
  { intro y. rewrite <- (Hdep (y + c2)). replace (y + c2 - c2) with y by ring. reflexivity. }
  destruct (Rlt_dec d 0) as [Hneg|Hnn].
  - left. set (t1 := Rcbrt _ + Rcbrt _).
    assert (H1 : t1 * t1 * t1 + 3 * d0 * t1 + de = 0) by apply (dep_one_root d0 de d Hid Hneg).
    rewrite Hdx in Hx.
    pose proof (dep_one_root_unique d0 de d t1 (x + c2) Hid Hneg H1 Hx). lra.
  - destruct (Req_EM_T d 0) as [Hz|Hnz].
    + cbv zeta. rewrite Hz, Rplus_0_r in Hid.
      destruct (dep_double_root d0 de Hid) as [H0 H1]. cbv zeta in H0, H1.
      set (t1 := Rcopysign (sqrt (- d0)) de) in *.
      rewrite Hdx, H0, H1 in Hx. set (t := x + c2) in *.
      assert (F : (t - t1) * ((t - t1) * (t + 2 * t1)) = 0) by nra.
      apply Rmult_integral in F. destruct F as [F|F]; [left; unfold t in F; lra|].
      apply Rmult_integral in F. destruct F as [F|F]; [left|right; left]; unfold t in F; lra.
    + assert (Hpos : 0 < d) by lra. destruct (H3 Hpos) as (x0 & x1 & x2 & El & Hord).
      cbv zeta in El |- *. rewrite El in *.
      assert (S0 := Hsound x0 ltac:(simpl; auto)). assert (S1 := Hsound x1 ltac:(simpl; auto)).
      assert (S2 := Hsound x2 ltac:(simpl; auto)).
      rewrite Hdx in Hx, S0, S1, S2.
      destruct (three_distinct_roots_all (3 * d0) de (x0 + c2) (x1 + c2) (x2 + c2) (x + c2)) as [F|[F|F]];
        try lra; simpl; [left|right; left|right; right; left]; lra.
Qed.

Lemma solve_cubic_exact (c0 c1 c2 c3 x : R) : c3 <> 0 ->
  (In x (solve_cubic c0 c1 c2 c3) <-> c0 + c1 * x + c2 * (x * x) + c3 * (x * x * x) = 0).
Proof.
  intro H3. split; [apply solve_cubic_sound; exact H3|].
  intro Hx. rewrite solve_cubic_real. apply cubic_main_complete.
  rewrite cubic_scale in Hx by exact H3. apply Rmult_integral in Hx. destruct Hx; [contradiction|assumption].
Qed.

(** * solve_quartic *)

Definition quartic_poly (c0 c1 c2 c3 c4 x : R) : R :=
  c0 + c1 * x + c2 * (x * x) + c3 * (x * x * x) + c4 * (x * x * x * x).

(* the quadratic factor x^2 + a x + b solved by solve_quadratic(b, a, 1.0) *)
Lemma monic_quadratic_roots (a b x : R) :
  In x (solve_quadratic b a f1) <-> x * x + a * x + b = 0.
Proof.
  destruct (solve_quadratic_spec_main b a 1 ltac:(lra)) as [H _]. rs_unfold.
  rewrite H. split; intro; lra.
Qed.

Lemma quartic_roots_of_factors_spec (a1 b1 a2 b2 x : R) :
  In x (quartic_roots_of_factors ((a1, b1), (a2, b2))) <->
  (x * x + a1 * x + b1 = 0 \/ x * x + a2 * x + b2 = 0).
Proof.
  unfold quartic_roots_of_factors. rewrite in_app_iff, !monic_quadratic_roots. tauto.
Qed.

Lemma quartic_roots_of_factors_len (qs : (R * R) * (R * R)) :
  (length (quartic_roots_of_factors qs) <= 4)%nat.
Proof.
  destruct qs as [[a1 b1] [a2 b2]]. unfold quartic_roots_of_factors. rewrite app_length.
  pose proof (quad_len_any b1 a1 f1). pose proof (quad_len_any b2 a2 f1). lia.
Qed.

Lemma solve_quartic_inner_spec (a b c d : R) (rescale : bool) :
  match factor_quartic_inner a b c d rescale with
  | Some ((a1, b1), (a2, b2)) =>
      exists l, solve_quartic_inner a b c d rescale = Some l /\ (length l <= 4)%nat /\
        forall x, In x l <-> (x * x + a1 * x + b1 = 0 \/ x * x + a2 * x + b2 = 0)
  | None => solve_quartic_inner a b c d rescale = None
  end.
Proof.
  unfold solve_quartic_inner. destruct (factor_quartic_inner a b c d rescale) as [[[a1 b1] [a2 b2]]|]; [|reflexivity].
  eexists. split; [reflexivity|]. split; [apply quartic_roots_of_factors_len|].
  intro x. apply quartic_roots_of_factors_spec.
Qed.

Lemma K_Q_pos : 0 < sv_K_Q (T:=R).
Proof.
  unfold sv_K_Q. rs_unfold. unfold Q2R. cbn [Qnum Qden].
  apply Rmult_lt_0_compat; [apply IZR_lt; reflexivity|lra].
Qed.

(** delegation, generic in the scalar *)
Lemma solve_quartic_c4_zero_generic (T : Type) (S : Scalar T) (c0 c1 c2 c3 c4 : T) :
  feqb c4 f0 = true -> solve_quartic c0 c1 c2 c3 c4 = solve_cubic c0 c1 c2 c3.
Proof. intro H. unfold solve_quartic. rewrite H. reflexivity. Qed.

Lemma solve_quartic_c0_zero_generic (T : Type) (S : Scalar T) (c0 c1 c2 c3 c4 : T) :
  feqb c4 f0 = false -> feqb c0 f0 = true ->
  solve_quartic c0 c1 c2 c3 c4 = solve_cubic c1 c2 c3 c4 ++ [f0].
Proof. intros H4 H0. unfold solve_quartic. rewrite H4, H0. reflexivity. Qed.

Lemma solve_quartic_c0_zero_exact (c1 c2 c3 c4 x : R) : c4 <> 0 ->
  (In x (solve_quartic 0 c1 c2 c3 c4) <-> quartic_poly 0 c1 c2 c3 c4 x = 0).
Proof.
  intro H4. rewrite solve_quartic_c0_zero_generic.
  2: { rs_unfold. apply Reqb_false. exact H4. }
  2: { rs_unfold. apply Reqb_true. reflexivity. }
  rewrite in_app_iff, (solve_cubic_exact c1 c2 c3 c4 x H4). unfold quartic_poly. rs_unfold. simpl.
  split.
  - intros [E|[<-|[]]]; [|ring]. replace (0 + c1 * x + c2 * (x * x) + c3 * (x * x * x) + c4 * (x * x * x * x))
      with (x * (c1 + c2 * x + c3 * (x * x) + c4 * (x * x * x))) by ring. rewrite E. ring.
  - intro E. assert (F : x * (c1 + c2 * x + c3 * (x * x) + c4 * (x * x * x)) = 0) by lra.
    apply Rmult_integral in F. destruct F; [right; left; lra|left; assumption].
Qed.

(** the general case, relative to exactness of the factoring step *)
Definition factoring_exact : Prop :=
  forall (a b c d : R) (rescale : bool) a1 b1 a2 b2,
    factor_quartic_inner a b c d rescale = Some ((a1, b1), (a2, b2)) ->
    forall x, x * x * x * x + a * (x * x * x) + b * (x * x) + c * x + d
              = (x * x + a1 * x + b1) * (x * x + a2 * x + b2).

Lemma inner_exact (a b c d : R) (rescale : bool) (l : list R) : factoring_exact ->
  solve_quartic_inner a b c d rescale = Some l ->
  (length l <= 4)%nat /\
  forall x, In x l <-> x * x * x * x + a * (x * x * x) + b * (x * x) + c * x + d = 0.
Proof.
  intros FE Hl. pose proof (solve_quartic_inner_spec a b c d rescale) as Hs.
  pose proof (FE a b c d rescale) as Hf.
  destruct (factor_quartic_inner a b c d rescale) as [[[a1 b1] [a2 b2]]|].
  - destruct Hs as (l' & El & Hlen & Hin). rewrite El in Hl. injection Hl as <-.
    split; [exact Hlen|]. intro x. rewrite Hin, (Hf _ _ _ _ eq_refl x). split.
    + intros [E|E]; rewrite E; ring.
    + intro E. apply Rmult_integral in E. exact E.
  - rewrite Hs in Hl. discriminate.
Qed.

Lemma quartic_scale_K (a b c d K y : R) : K <> 0 ->
  let x := y / K in
  y * y * y * y + a * (y * y * y) + b * (y * y) + c * y + d =
  (K * K * K * K) * (x * x * x * x + a / K * (x * x * x) + b / powerRZ K 2 * (x * x) + c / powerRZ K 3 * x + d / powerRZ K 4).
Proof. intro HK. cbv zeta. simpl powerRZ. field. exact HK. Qed.

Lemma solve_quartic_general (c0 c1 c2 c3 c4 : R) : factoring_exact -> c4 <> 0 -> c0 <> 0 ->
  let l := solve_quartic c0 c1 c2 c3 c4 in
  (length l <= 4)%nat /\
  (forall x, In x l -> quartic_poly c0 c1 c2 c3 c4 x = 0) /\
  ((exists r, solve_quartic_inner (c3 / c4) (c2 / c4) (c1 / c4) (c0 / c4) false = Some r \/
              solve_quartic_inner (c3 / c4 / sv_K_Q) (c2 / c4 / powerRZ sv_K_Q 2) (c1 / c4 / powerRZ sv_K_Q 3)
                                  (c0 / c4 / powerRZ sv_K_Q 4) false = Some r \/
              solve_quartic_inner (c3 / c4 / sv_K_Q) (c2 / c4 / powerRZ sv_K_Q 2) (c1 / c4 / powerRZ sv_K_Q 3)
                                  (c0 / c4 / powerRZ sv_K_Q 4) true = Some r) ->
   forall x, quartic_poly c0 c1 c2 c3 c4 x = 0 -> In x l).
Proof.
  intros FE H4 H0. cbv zeta. unfold solve_quartic.
  replace (feqb c4 f0) with false by (symmetry; rs_unfold; apply Reqb_false; exact H4).
  replace (feqb c0 f0) with false by (symmetry; rs_unfold; apply Reqb_false; exact H0).
  change (@fdiv R RS) with Rdiv. change (@fpowi R RS) with powerRZ. change (@fmul R RS) with Rmult.
  set (a := c3 / c4). set (b := c2 / c4). set (c := c1 / c4). set (d := c0 / c4).
  pose proof K_Q_pos as HK. set (K := sv_K_Q) in *. clearbody K.
  assert (Hmon : forall x, quartic_poly c0 c1 c2 c3 c4 x
                           = c4 * (x * x * x * x + a * (x * x * x) + b * (x * x) + c * x + d)).
  { intro x. unfold quartic_poly, a, b, c, d. field. exact H4. }
  assert (Hzero : forall x, quartic_poly c0 c1 c2 c3 c4 x = 0 <->
                            x * x * x * x + a * (x * x * x) + b * (x * x) + c * x + d = 0).
  { intro x. rewrite Hmon. split; intro E; [apply Rmult_integral in E; destruct E; [contradiction|assumption]|rewrite E; ring]. }
  (* scaled attempts *)
  assert (Hscaled : forall rescale r,
            solve_quartic_inner (a / K) (b / powerRZ K 2) (c / powerRZ K 3) (d / powerRZ K 4) rescale = Some r ->
            (length (map (fun x => (x * K)%R) r) <= 4)%nat /\
            forall y, In y (map (fun x => x * K) r) <-> quartic_poly c0 c1 c2 c3 c4 y = 0).
  { intros rescale r Hr. destruct (inner_exact _ _ _ _ _ _ FE Hr) as [Hlen Hin].
    split; [rewrite map_length; exact Hlen|]. intro y. rewrite Hzero.
    rewrite (quartic_scale_K a b c d K y) by lra. cbv zeta. rewrite in_map_iff. split.
    - intros (x & <- & Hx). apply Hin in Hx. replace (x * K / K) with x by (field; lra). rewrite Hx. ring.
    - intro E. apply Rmult_integral in E. destruct E as [E|E].
      + exfalso. assert (0 < K * K * K * K) by (repeat apply Rmult_lt_0_compat; assumption). lra.
      + exists (y / K). split; [field; lra|]. apply Hin. exact E. }
  destruct (solve_quartic_inner a b c d false) as [r0|] eqn:E0.
  - destruct (inner_exact _ _ _ _ _ _ FE E0) as [Hlen Hin].
    split; [exact Hlen|]. split; intros; [apply Hzero, Hin; assumption|apply Hin, Hzero; assumption].
  - destruct (solve_quartic_inner (a / K) _ _ _ false) as [r1|] eqn:E1.
    + destruct (Hscaled false r1 E1) as [Hlen Hin]. split; [exact Hlen|].
      split; intros; [apply Hin; assumption|apply Hin; assumption].
    + destruct (solve_quartic_inner (a / K) _ _ _ true) as [r2|] eqn:E2.
      * destruct (Hscaled true r2 E2) as [Hlen Hin]. split; [exact Hlen|].
        split; intros; [apply Hin; assumption|apply Hin; assumption].
      * split; [simpl; lia|]. split; [intros x []|].
        intros (r & [F|[F|F]]); discriminate.
Qed.

(** * solve_itp *)
From Flocq Require Import Core.Raux.

Lemma itp_point_real (a b k1 ya yb se : R) :
  itp_point a b k1 ya yb se =
    let x1_2 := 1 * / 2 * (a + b) in
    let r := se - 1 * / 2 * (b - a) in
    let xf := (yb * a - ya * b) / (yb - ya) in
    let sigma := x1_2 - xf in
    let delta := k1 * powerRZ (b - a) 2 in
    let xt := if Rle_dec delta (Rabs (x1_2 - xf)) then xf + Rcopysign delta sigma else x1_2 in
    if Rle_dec (Rabs (xt - x1_2)) r then xt else x1_2 - Rcopysign r sigma.
Proof.
  unfold itp_point. rs_unfold. cbv [Q2R Qnum Qden Rleb]. cbv zeta.
  destruct (Rle_dec _ (Rabs _)); destruct (Rle_dec _ _); reflexivity.
Qed.

(* the next point lies strictly inside the bracket and within r of the midpoint *)
Lemma itp_point_bounds (a b k1 ya yb se : R) :
  a < b -> ya < 0 -> 0 < yb -> 0 <= k1 -> b - a <= 2 * se ->
  let x := itp_point a b k1 ya yb se in
  a < x < b /\ x - a <= se /\ b - x <= se.
Proof.
  intros Hab Hya Hyb Hk Hse. cbv zeta. rewrite itp_point_real. cbv zeta.
  set (x1_2 := 1 * / 2 * (a + b)). set (r := se - 1 * / 2 * (b - a)).
  set (xf := (yb * a - ya * b) / (yb - ya)). set (sigma := x1_2 - xf).
  set (delta := k1 * powerRZ (b - a) 2).
  assert (Hr : 0 <= r) by (unfold r; lra).
  assert (Hden : 0 < yb - ya) by lra.
  assert (Hxf : a < xf < b).
  { assert (E1 : xf - a = - ya * (b - a) / (yb - ya)) by (unfold xf; field; lra).
    assert (E2 : b - xf = yb * (b - a) / (yb - ya)) by (unfold xf; field; lra).
    assert (0 < - ya * (b - a) / (yb - ya)) by (apply Rdiv_lt_0_compat; nra).
    assert (0 < yb * (b - a) / (yb - ya)) by (apply Rdiv_lt_0_compat; nra). lra. }
  assert (Hdelta : 0 <= delta).
  { unfold delta. simpl powerRZ. apply Rmult_le_pos; [exact Hk|]. nra. }
  assert (Hmid : a < x1_2 < b) by (unfold x1_2; lra).
  set (xt := if Rle_dec delta (Rabs sigma) then xf + Rcopysign delta sigma else x1_2).
  (* xt lies between xf and the midpoint *)
  assert (Hxt : (xf <= xt <= x1_2 /\ 0 <= sigma) \/ (x1_2 <= xt <= xf /\ sigma < 0)).
  { unfold xt. destruct (Rle_dec 0 sigma) as [Hs|Hs].
    - left. split; [|exact Hs]. destruct (Rle_dec delta (Rabs sigma)) as [Hd|Hd].
      + rewrite Rcopysign_sign_nonneg by exact Hs. rewrite Rabs_pos_eq in * by assumption.
        unfold sigma in *. lra.
      + unfold sigma in *. lra.
    - right. split; [|lra]. destruct (Rle_dec delta (Rabs sigma)) as [Hd|Hd].
      + rewrite Rcopysign_sign_neg by lra. rewrite (Rabs_pos_eq delta) by assumption.
        rewrite Rabs_left in Hd by lra. unfold sigma in *. lra.
      + unfold sigma in *. lra. }
  assert (Hgoal : forall x, a < x < b -> Rabs (x - x1_2) <= r -> a < x < b /\ x - a <= se /\ b - x <= se).
  { intros x Hx Habs. split; [exact Hx|]. apply Rabs_le_inv in Habs. unfold r, x1_2 in *. lra. }
  destruct (Rle_dec (Rabs (xt - x1_2)) r) as [Hin|Hout].
  - apply Hgoal; [|exact Hin]. destruct Hxt as [[? ?]|[? ?]]; lra.
  - destruct Hxt as [[Hb Hs]|[Hb Hs]].
    + rewrite Rcopysign_sign_nonneg by exact Hs. rewrite Rabs_pos_eq by exact Hr.
      assert (r < x1_2 - xt) by (rewrite Rabs_left1 in Hout by lra; lra).
      apply Hgoal; [lra|]. rewrite Rabs_left1 by lra. lra.
    + rewrite Rcopysign_sign_neg by exact Hs. rewrite Rabs_pos_eq by exact Hr.
      assert (r < xt - x1_2) by (rewrite Rabs_pos_eq in Hout by lra; lra).
      apply Hgoal; [lra|]. rewrite Rabs_pos_eq by lra. lra.
Qed.

(* what the loop returns: an exact zero, or the midpoint of a sign-change bracket of width <= 2 eps *)
Definition itp_post (f : R -> R) (eps a b x : R) : Prop :=
  a < x < b /\
  (f x = 0 \/ exists a' b', a <= a' /\ a' < b' /\ b' <= b /\ f a' < 0 /\ 0 < f b' /\
                            b' - a' <= 2 * eps /\ x = 1 * / 2 * (a' + b')).

Lemma itp_loop_real (fuel : nat) (f : R -> R) (eps k1 a b ya yb se : R) :
  itp_loop fuel f eps k1 a b ya yb se =
    if Rlt_dec (2 * eps) (b - a) then
      match fuel with
      | O => None
      | S fuel' =>
          let x1_2 := 1 * / 2 * (a + b) in
          if (if Rle_dec x1_2 a then true else false) || (if Rle_dec b x1_2 then true else false)
          then Some (1 * / 2 * (a + b))
          else
          let xitp := itp_point a b k1 ya yb se in
          let yitp := f xitp in
          if Rlt_dec 0 yitp then itp_loop fuel' f eps k1 a xitp ya yitp (se * (1 * / 2))
          else if Rlt_dec yitp 0 then itp_loop fuel' f eps k1 xitp b yitp yb (se * (1 * / 2))
          else Some xitp
      end
    else Some (1 * / 2 * (a + b)).
Proof.
  destruct fuel; simpl; rs_unfold; cbv [Q2R Qnum Qden Rltb Rleb]; cbv zeta;
    destruct (Rlt_dec (2 * eps) (b - a)); try reflexivity.
  destruct (_ || _); [reflexivity|].
  destruct (Rlt_dec 0 _); [reflexivity|]. destruct (Rlt_dec _ 0); reflexivity.
Qed.

(* over the reals the midpoint of a < b is strictly inside: the "collapsed bracket" exit is never taken *)
Lemma itp_break_unreachable (a b : R) : a < b ->
  (if Rle_dec (1 * / 2 * (a + b)) a then true else false) || (if Rle_dec b (1 * / 2 * (a + b)) then true else false) = false.
Proof. intro H. destruct (Rle_dec _ a); [lra|]. destruct (Rle_dec b _); [lra|]. reflexivity. Qed.

(** bracket invariant + termination within n iterations when se <= eps * 2^n *)
Lemma itp_loop_spec (f : R -> R) (eps k1 : R) : 0 <= k1 ->
  forall (n fuel : nat) (a b ya yb se : R),
    (n <= fuel)%nat -> a < b -> ya < 0 -> 0 < yb -> f a < 0 -> 0 < f b ->
    b - a <= 2 * se -> se <= eps * 2 ^ n ->
    exists x, itp_loop fuel f eps k1 a b ya yb se = Some x /\ itp_post f eps a b x.
Proof.
  intros Hk. induction n as [|n IH]; intros fuel a b ya yb se Hfuel Hab Hya Hyb Hfa Hfb Hw Hse;
    rewrite itp_loop_real.
  - simpl in Hse. destruct (Rlt_dec (2 * eps) (b - a)); [exfalso; lra|].
    eexists. split; [reflexivity|]. split; [lra|]. right. exists a, b. repeat split; lra.
  - destruct (Rlt_dec (2 * eps) (b - a)) as [Hgo|Hstop].
    2: { eexists. split; [reflexivity|]. split; [lra|]. right. exists a, b. repeat split; lra. }
    destruct fuel as [|fuel]; [lia|]. cbv zeta. rewrite (itp_break_unreachable a b Hab).
    destruct (itp_point_bounds a b k1 ya yb se Hab Hya Hyb Hk Hw) as (Hx & Hxa & Hxb).
    set (x := itp_point a b k1 ya yb se) in *.
    assert (Hse' : se * (1 * / 2) <= eps * 2 ^ n) by (simpl in Hse; lra).
    destruct (Rlt_dec 0 (f x)) as [Hpos|Hnp].
    + destruct (IH fuel a x ya (f x) (se * (1 * / 2)) ltac:(lia) ltac:(lra) Hya Hpos Hfa Hpos ltac:(lra) Hse')
        as (r & Er & (Hr & Hpost)).
      exists r. split; [exact Er|]. split; [lra|]. destruct Hpost as [?|(a' & b' & ?)]; [left; assumption|].
      right. exists a', b'. intuition lra.
    + destruct (Rlt_dec (f x) 0) as [Hneg|Hnn].
      * destruct (IH fuel x b (f x) yb (se * (1 * / 2)) ltac:(lia) ltac:(lra) Hneg Hyb Hneg Hfb ltac:(lra) Hse')
          as (r & Er & (Hr & Hpost)).
        exists r. split; [exact Er|]. split; [lra|]. destruct Hpost as [?|(a' & b' & ?)]; [left; assumption|].
        right. exists a', b'. intuition lra.
      * exists x. split; [reflexivity|]. split; [exact Hx|]. left. lra.
Qed.

(* the iteration budget n1_2 = max(ceil(log2((b-a)/eps)) - 1, 0) makes b - a <= eps * 2^(n1_2+1) *)
Lemma itp_n1_2_bound (a b eps : R) : 0 < eps -> a < b ->
  (0 <= itp_n1_2 a b eps)%Z /\ b - a <= 2 * (eps * powerRZ 2 (itp_n1_2 a b eps)).
Proof.
  intros Heps Hab. unfold itp_n1_2, sv_log2. rs_unfold.
  set (q := (b - a) / eps). assert (Hq : 0 < q) by (apply Rdiv_lt_0_compat; lra).
  assert (Hba : b - a = q * eps) by (unfold q; field; lra).
  set (L := ln q / ln 2). set (z := Zceil L).
  assert (Hln2 : 0 < ln 2) by (rewrite <- ln_1; apply ln_increasing; lra).
  assert (HqL : q = Rpower 2 L).
  { unfold Rpower, L. replace (ln q / ln 2 * ln 2) with (ln q) by (field; lra). symmetry. apply exp_ln. exact Hq. }
  pose proof (Zceil_ub L) as Hub. fold z in Hub.
  split; [apply Z.le_max_l|].
  unfold Rmax. destruct (Rle_dec (IZR z - 1) 0) as [Hle|Hgt].
  - replace (Ztrunc 0) with 0%Z by (symmetry; apply (Ztrunc_IZR 0)). simpl.
    assert (L <= 1) by lra.
    assert (q <= 2).
    { rewrite HqL. replace 2 with (Rpower 2 1) at 2 by (apply Rpower_1; lra). apply Rle_Rpower; lra. }
    nra.
  - rewrite <- minus_IZR, Ztrunc_IZR.
    assert (Hz : (1 <= z - 1 + 1)%Z) by (apply le_IZR; rewrite plus_IZR, minus_IZR; lra).
    rewrite Z.max_r by lia.
    assert (E : 2 * powerRZ 2 (z - 1) = powerRZ 2 z).
    { replace z with (1 + (z - 1))%Z at 2 by lia. rewrite powerRZ_add by lra. simpl. ring. }
    assert (q <= powerRZ 2 z).
    { rewrite powerRZ_Rpower by lra. rewrite HqL. apply Rle_Rpower; lra. }
    nra.
Qed.

(* guard nmax <= 1023: beyond it the code caps the power of two (2^min(nmax,1023)) *)
Lemma solve_itp_spec_1023 (fuel : nat) (f : R -> R) (a b eps k1 ya yb : R) (n0 : Z) :
  0 < eps -> a < b -> 0 <= k1 -> (0 <= n0)%Z ->
  ya < 0 -> 0 < yb -> f a < 0 -> 0 < f b ->
  let nmax := (n0 + itp_n1_2 a b eps)%Z in
  (nmax <= 1023)%Z -> (Z.to_nat nmax <= fuel)%nat ->
  exists x, solve_itp fuel f a b eps n0 k1 ya yb = Some x /\ itp_post f eps a b x.
Proof.
  intros Heps Hab Hk Hn0 Hya Hyb Hfa Hfb nmax H64 Hfuel.
  destruct (itp_n1_2_bound a b eps Heps Hab) as [Hn1 Hw].
  unfold solve_itp. fold nmax.
  rewrite (Z.min_l nmax (2 ^ 64 - 1)) by (change (2 ^ 64 - 1)%Z with 18446744073709551615%Z; lia).
  rewrite (Z.min_l nmax 1023) by exact H64.
  change (@fmul R RS) with Rmult. change (@fpowi R RS) with powerRZ. change (@f2 R RS) with 2.
  assert (Hnm : (0 <= nmax)%Z) by (unfold nmax; lia).
  assert (Epow : powerRZ 2 nmax = 2 ^ Z.to_nat nmax).
  { rewrite pow_powerRZ, Z2Nat.id by exact Hnm. reflexivity. }
  apply (itp_loop_spec f eps k1 Hk (Z.to_nat nmax)); try assumption.
  - (* b - a <= 2 * (eps * 2^nmax): 2^n1_2 <= 2^nmax *)
    assert (powerRZ 2 (itp_n1_2 a b eps) <= powerRZ 2 nmax).
    { unfold nmax. rewrite powerRZ_add by lra.
      assert (1 <= powerRZ 2 n0).
      { rewrite <- (Z2Nat.id n0) by exact Hn0. rewrite <- pow_powerRZ. apply pow_R1_Rle. lra. }
      assert (0 < powerRZ 2 (itp_n1_2 a b eps)) by (apply powerRZ_lt; lra). nra. }
    nra.
  - rewrite Epow. lra.
Qed.

Lemma solve_itp_spec (fuel : nat) (f : R -> R) (a b eps k1 ya yb : R) (n0 : Z) :
  0 < eps -> a < b -> 0 <= k1 -> (0 <= n0)%Z ->
  ya < 0 -> 0 < yb -> f a < 0 -> 0 < f b ->
  let nmax := (n0 + itp_n1_2 a b eps)%Z in
  (nmax < 64)%Z -> (Z.to_nat nmax <= fuel)%nat ->
  exists x, solve_itp fuel f a b eps n0 k1 ya yb = Some x /\ itp_post f eps a b x.
Proof. intros. apply solve_itp_spec_1023; try assumption. lia. Qed.

(** for a monotone function: within epsilon of every zero in the bracket (or itself a zero) *)
Lemma itp_post_monotone (f : R -> R) (eps a b x : R) :
  (forall u v, u <= v -> f u <= f v) -> itp_post f eps a b x ->
  f x = 0 \/ forall z, f z = 0 -> Rabs (x - z) <= eps.
Proof.
  intros Hmono [_ [Hz|(a' & b' & _ & Hlt & _ & Hfa & Hfb & Hw & ->)]]; [left; exact Hz|right].
  intros z Hfz.
  assert (a' < z). { destruct (Rlt_dec a' z); [assumption|exfalso]. pose proof (Hmono z a' ltac:(lra)). lra. }
  assert (z < b'). { destruct (Rlt_dec z b'); [assumption|exfalso]. pose proof (Hmono b' z ltac:(lra)). lra. }
  apply Rabs_le. lra.
Qed.

(* an upper bound of the iteration budget: (b - a) <= eps * 2^k gives n1_2 <= k *)
Lemma itp_n1_2_upper (a b eps : R) (k : nat) : 0 < eps -> a < b ->
  b - a <= eps * 2 ^ k -> (itp_n1_2 a b eps <= Z.of_nat k)%Z.
Proof.
  intros Heps Hab Hk. unfold itp_n1_2, sv_log2. rs_unfold.
  set (q := (b - a) / eps). assert (Hq : 0 < q) by (apply Rdiv_lt_0_compat; lra).
  assert (Hqk : q <= 2 ^ k).
  { unfold q. apply Rmult_le_reg_r with eps; [exact Heps|]. unfold Rdiv. rewrite Rmult_assoc, Rinv_l by lra. lra. }
  assert (Hln2 : 0 < ln 2) by (rewrite <- ln_1; apply ln_increasing; lra).
  assert (HL : ln q / ln 2 <= INR k).
  { apply Rmult_le_reg_r with (ln 2); [exact Hln2|]. unfold Rdiv. rewrite Rmult_assoc, Rinv_l by lra.
    rewrite Rmult_1_r. rewrite <- ln_pow by lra. destruct (Req_dec q (2 ^ k)) as [->|]; [lra|].
    left. apply ln_increasing; lra. }
  rewrite INR_IZR_INZ in HL. apply Zceil_glb in HL. set (z := Zceil _) in *.
  unfold Rmax. destruct (Rle_dec (IZR z - 1) 0).
  - replace (Ztrunc 0) with 0%Z by (symmetry; apply (Ztrunc_IZR 0)). lia.
  - rewrite <- minus_IZR, Ztrunc_IZR. lia.
Qed.

(** the repaired variant of the one-root branch (not in the code) is the same real function *)
Lemma cubic_one_root_repaired_eq (c0 c1 c2 : R) :
  let d0 := - c2 * c2 + c1 in
  let d1 := - c1 * c2 + c0 in
  let d2 := c2 * c0 - c1 * c1 in
  4 * d0 * d2 - d1 * d1 < 0 ->
  cubic_one_root_repaired c0 c1 c2 = cubic_one_root_pinned c0 c1 c2.
Proof.
  cbv zeta. intro Hd. pose proof (disc_identity c0 c1 c2) as Hid. cbv zeta in Hid.
  unfold cubic_one_root_repaired, cubic_one_root_pinned. sv_unfold. cbv [Reqb].
  set (d0 := - c2 * c2 + c1) in *. set (d1 := - c1 * c2 + c0) in *.
  set (d2 := c2 * c0 - c1 * c1) in *. set (d := 4 * d0 * d2 - d1 * d1) in *.
  set (de := -2 * c2 * d0 + d1) in *.
  destruct (dep_one_root_stable d0 de d Hid Hd) as [_ Hs]. cbv zeta in Hs.
  pose proof (dep_one_root d0 de d Hid Hd) as Hp. cbv zeta in Hp.
  f_equal. revert Hs.
  match goal with |- context [Req_EM_T ?u 0] => destruct (Req_EM_T u 0) end;
    intro Hs; eapply dep_one_root_unique; eauto.
Qed.
