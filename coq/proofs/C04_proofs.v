(** C04: the polyline stroker — structure of the outline (any scalar), offset geometry, joins,
    caps and radius bounds (real instance). *)
From Coq Require Import ZArith QArith Reals List Bool Lra Lia Psatz.
From KV Require Import Scalar RInst Geom Curves Path Affine Stroke RTac StrokeSpec.
Import ListNotations.

(** * Part 1: structure, for every scalar type (so also for binary64) *)
Section Structure.
Context {T : Type} `{Scalar T}.
Notation PE := (PathEl T).

Lemma Forall_app_intro {A} (P : A -> Prop) l1 l2 : Forall P l1 -> Forall P l2 -> Forall P (l1 ++ l2).
Proof. intros; apply Forall_app; split; assumption. Qed.

Lemma segs_map_curve a l : Forall (@is_seg T) (map (curve_of a) l).
Proof. induction l as [|[[p1 p2] p3] l IH]; constructor; [exact I | exact IH]. Qed.

Lemma round_join_segs tol c n ang : Forall (@is_seg T) (round_join_els tol c n ang).
Proof. apply segs_map_curve. Qed.
Lemma round_join_rev_segs tol c n ang : Forall (@is_seg T) (round_join_rev_els tol c n ang).
Proof. apply segs_map_curve. Qed.

Ltac split_ifs :=
  repeat match goal with
  | |- context [if ?b then _ else _] => destruct b
  | |- context [match ?j with JoinBevel => _ | JoinMiter => _ | JoinRound => _ end] => destruct j
  end.

Lemma join_els_segs st p0 ab th tan :
  Forall (@is_seg T) (fst (fst (join_els st p0 ab th tan))) /\
  Forall (@is_seg T) (snd (fst (join_els st p0 ab th tan))).
Proof.
  unfold join_els.
  split_ifs; cbn [fst snd app];
  repeat match goal with
  | |- _ /\ _ => split
  | |- Forall _ (_ :: _) => constructor
  | |- Forall _ [] => constructor
  | |- is_seg _ => exact I
  | |- Forall _ (round_join_els _ _ _ _) => apply round_join_segs
  | |- Forall _ (round_join_rev_els _ _ _ _) => apply round_join_rev_segs
  end.
Qed.

(** a forward/backward path is empty or one MoveTo followed by drawing elements *)
Definition path_shape (l : list PE) : Prop :=
  l = [] \/ exists p segs, l = MoveTo p :: segs /\ Forall (@is_seg T) segs.

Lemma rev_el_segs e0 e : Forall (@is_seg T) (rev_el e0 e).
Proof. destruct e; cbn; repeat constructor. Qed.

Lemma extend_reversed_segs l : Forall (@is_seg T) (extend_reversed l).
Proof.
  induction l as [|e0 [|e1 r] IH]; cbn; try constructor.
  apply Forall_app_intro; [exact IH | apply rev_el_segs].
Qed.

Lemma closed_contours_app (a b : list PE) : closed_contours a -> closed_contours b -> closed_contours (a ++ b).
Proof.
  induction 1 as [|p body rest Hb Hr IH]; intros Hb2; [exact Hb2|].
  cbn. rewrite <- app_assoc. cbn. constructor; auto.
Qed.

Lemma square_cap_false_segs c d : Forall (@is_seg T) (square_cap_els false c d).
Proof. cbn. repeat constructor. Qed.

(** the state between two elements *)
Record SInv (c : StrokeCtx T) : Prop := {
  si_out : closed_contours (cx_output c);
  si_fwd : path_shape (cx_forward c);
  si_bwd : path_shape (cx_backward c);
  si_both : cx_forward c = [] <-> cx_backward c = [] }.

Lemma path_shape_app l segs : l <> [] -> path_shape l -> Forall (@is_seg T) segs -> path_shape (l ++ segs).
Proof.
  intros Hne [->|(p & s & -> & Hs)] Hsegs; [congruence|].
  right. exists p, (s ++ segs). split; [reflexivity | apply Forall_app_intro; assumption].
Qed.

Lemma do_join_sinv st tan c : SInv c -> SInv (do_join st tan c) /\ cx_forward (do_join st tan c) <> [].
Proof.
  intros [Ho Hf Hb Hfb]. unfold do_join.
  destruct (cx_forward c) as [|e f] eqn:Ef.
  - assert (Eb : cx_backward c = []) by (apply Hfb; reflexivity). rewrite Eb.
    split; [constructor; cbn; auto|cbn; discriminate].
    + right. eexists _, []. split; [reflexivity|constructor].
    + right. eexists _, []. split; [reflexivity|constructor].
    + split; discriminate.
  - pose proof (join_els_segs st (cx_last_pt c) (cx_last_tan c) (cx_join_thresh c) tan) as [Jf Jb].
    destruct (join_els st (cx_last_pt c) (cx_last_tan c) (cx_join_thresh c) tan) as [[jf jb] tag].
    cbn [fst snd] in Jf, Jb.
    assert (Hbne : cx_backward c <> []) by (intros E; apply Hfb in E; discriminate).
    split; [constructor; cbn; auto|cbn; discriminate].
    + rewrite <- Ef in *. change (e :: f ++ jf) with ((e :: f) ++ jf). rewrite <- Ef.
      apply path_shape_app; auto. rewrite Ef; discriminate.
    + apply path_shape_app; auto.
    + split; intros E.
      * discriminate.
      * apply app_eq_nil in E. destruct E; contradiction.
Qed.

Lemma set_last_tan_sinv t c : SInv c -> SInv (set_last_tan t c).
Proof. intros [? ? ? ?]; constructor; cbn; auto. Qed.

Lemma do_line_sinv st t p c : SInv c -> cx_forward c <> [] -> SInv (do_line st t p c) /\ cx_forward (do_line st t p c) <> [].
Proof.
  intros [Ho Hf Hb Hfb] Hne.
  assert (Hbne : cx_backward c <> []) by (intros E; apply Hfb in E; contradiction).
  split; [constructor; cbn; auto|].
  - apply path_shape_app; auto. repeat constructor.
  - apply path_shape_app; auto. repeat constructor.
  - split; intros E; apply app_eq_nil in E; destruct E; discriminate.
  - cbn. intros E; apply app_eq_nil in E; destruct E; discriminate.
Qed.

Lemma line_step_sinv st t p c : SInv c -> SInv (line_step st t p c) /\ cx_forward (line_step st t p c) <> [].
Proof.
  intros Hc. unfold line_step.
  destruct (do_join_sinv st t c Hc) as [H1 N1].
  apply do_line_sinv; [apply set_last_tan_sinv; exact H1 | exact N1].
Qed.

Definition end_cap_els (st : StrokeStyle T) (c : StrokeCtx T) : list PE :=
  match sk_end_cap st with
  | CapButt => [LineTo (last_end (cx_backward c))]
  | CapRound => round_cap_els tol_1e_3 (cx_last_pt c) (pt_sub (cx_last_pt c) (last_end (cx_backward c)))
  | CapSquare => square_cap_els false (cx_last_pt c) (pt_sub (cx_last_pt c) (last_end (cx_backward c)))
  end.

Definition start_cap_els (st : StrokeStyle T) (c : StrokeCtx T) : list PE :=
  match sk_start_cap st with
  | CapButt => [ClosePath]
  | CapRound => round_cap_els tol_1e_3 (cx_start_pt c) (cx_start_norm c)
  | CapSquare => square_cap_els true (cx_start_pt c) (cx_start_norm c)
  end.

Lemma finish_nonempty st c : cx_forward c <> [] ->
  finish st c =
  mkCtx (cx_output c ++ cx_forward c ++ end_cap_els st c ++ extend_reversed (cx_backward c) ++ start_cap_els st c)
        [] [] (cx_start_pt c) (cx_start_norm c) (cx_start_tan c) (cx_last_pt c) (cx_last_tan c) (cx_join_thresh c).
Proof.
  intros Hne. unfold finish, end_cap_els, start_cap_els.
  destruct (cx_forward c) as [|e f]; [contradiction|].
  f_equal. rewrite <- !app_assoc. reflexivity.
Qed.

Lemma finish_empty st c : cx_forward c = [] -> finish st c = c.
Proof. intros E. unfold finish. rewrite E. reflexivity. Qed.

Lemma end_cap_segs st c : Forall (@is_seg T) (end_cap_els st c).
Proof.
  unfold end_cap_els. destruct (sk_end_cap st);
    [repeat constructor | apply square_cap_false_segs | apply round_join_segs].
Qed.

Lemma start_cap_closes st c : sk_start_cap st <> CapRound ->
  exists segs, start_cap_els st c = segs ++ [ClosePath] /\ Forall (@is_seg T) segs.
Proof.
  unfold start_cap_els. destruct (sk_start_cap st); intros Hcap; [| |congruence].
  - exists []. split; [reflexivity|constructor].
  - eexists [_; _]. split; [reflexivity|repeat constructor].
Qed.

Lemma finish_sinv st c : sk_start_cap st <> CapRound -> SInv c ->
  SInv (finish st c) /\ cx_forward (finish st c) = [].
Proof.
  intros Hcap [Ho Hf Hb Hfb].
  destruct (cx_forward c) as [|e f] eqn:Ef.
  - rewrite finish_empty by exact Ef. split; [constructor; auto; rewrite Ef; auto | exact Ef].
  - rewrite finish_nonempty by (rewrite Ef; discriminate).
    split; [|reflexivity]. constructor; cbn; [|left; reflexivity|left; reflexivity|tauto].
    rewrite Ef.
    destruct Hf as [Hf|(p & s & Hf & Hs)]; [discriminate|]. rewrite Hf.
    destruct (start_cap_closes st c Hcap) as (sc & -> & Hsc).
    apply closed_contours_app; [exact Ho|].
    cbn.
    replace (s ++ end_cap_els st c ++ extend_reversed (cx_backward c) ++ sc ++ [ClosePath])
      with ((s ++ end_cap_els st c ++ extend_reversed (cx_backward c) ++ sc) ++ ClosePath :: [])
      by (rewrite <- !app_assoc; reflexivity).
    constructor; [|constructor].
    repeat apply Forall_app_intro; auto using end_cap_segs, extend_reversed_segs.
Qed.

Lemma finish_closed_sinv st c : SInv c ->
  SInv (finish_closed st c) /\ cx_forward (finish_closed st c) = [].
Proof.
  intros Hc. unfold finish_closed.
  destruct (cx_forward c) as [|e f] eqn:Ef.
  - split; [exact Hc | exact Ef].
  - destruct (do_join_sinv st (cx_start_tan c) c Hc) as [[Ho Hf Hb Hfb] Hne].
    set (c1 := do_join st (cx_start_tan c) c) in *.
    split; [|reflexivity]. constructor; cbn; [|left; reflexivity|left; reflexivity|tauto].
    destruct Hf as [Hf|(p & s & Hf & Hs)]; [contradiction|]. rewrite Hf.
    apply closed_contours_app.
    + apply closed_contours_app; [exact Ho|].
      cbn. change (s ++ [ClosePath]) with (s ++ ClosePath :: []). constructor; [exact Hs|constructor].
    + cbn. change (extend_reversed (cx_backward c1) ++ [ClosePath])
        with (extend_reversed (cx_backward c1) ++ ClosePath :: []).
      constructor; [apply extend_reversed_segs | constructor].
Qed.

Lemma stroke_step_sinv st c e c' : sk_start_cap st <> CapRound -> SInv c ->
  stroke_step st c e = Some c' -> SInv c'.
Proof.
  intros Hcap Hc. unfold stroke_step. destruct e; try discriminate.
  - intros [= <-]. destruct (finish_sinv st c Hcap Hc) as [[Ho Hf Hb Hfb] _].
    constructor; cbn; auto.
  - destruct (pt_neb p (cx_last_pt c)); intros [= <-]; [apply line_step_sinv; exact Hc | exact Hc].
  - intros [= <-]. apply finish_closed_sinv.
    destruct (pt_neb (cx_last_pt c) (cx_start_pt c)); [apply line_step_sinv; exact Hc | exact Hc].
Qed.

Lemma stroke_loop_sinv st els : forall c c', sk_start_cap st <> CapRound -> SInv c ->
  stroke_loop st c els = Some c' -> SInv c'.
Proof.
  induction els as [|e r IH]; cbn; intros c c' Hcap Hc.
  - intros [= <-]; exact Hc.
  - destruct (stroke_step st c e) as [c1|] eqn:E1; [|discriminate].
    intros Hl. apply (IH c1 c' Hcap); [|exact Hl]. eapply stroke_step_sinv; eauto.
Qed.

Lemma ctx_init_sinv st tol : SInv (ctx_init st tol).
Proof. constructor; cbn; [constructor|left; reflexivity|left; reflexivity|tauto]. Qed.

(** every contour of the outline starts with MoveTo, draws, and ends with ClosePath
    (start caps butt and square; a round start cap ends the contour with an arc instead) *)
Theorem stroke_contours_closed_any_scalar st els tol out :
  sk_start_cap st <> CapRound ->
  stroke_undashed els st tol = Some out -> closed_contours out.
Proof.
  intros Hcap. unfold stroke_undashed.
  destruct (stroke_loop st (ctx_init st tol) els) as [c|] eqn:El; [|discriminate].
  intros [= <-].
  pose proof (stroke_loop_sinv st els _ _ Hcap (ctx_init_sinv st tol) El) as Hc.
  destruct (finish_sinv st c Hcap Hc) as [[Ho _ _ _] _]. exact Ho.
Qed.

(** the model answers on exactly the inputs made of MoveTo / LineTo / ClosePath *)
Lemma stroke_step_total st c e : is_poly_el e -> exists c', stroke_step st c e = Some c'.
Proof. destruct e; cbn; try contradiction; intros _; try (destruct (pt_neb _ _)); eauto. Qed.

Lemma stroke_loop_total st els : Forall (@is_poly_el T) els -> forall c, exists c', stroke_loop st c els = Some c'.
Proof.
  induction 1 as [|e r He Hr IH]; intros c; cbn; [eauto|].
  destruct (stroke_step_total st c e He) as [c1 ->]. apply IH.
Qed.

Theorem stroke_defined_on_polylines st els tol :
  Forall (@is_poly_el T) els -> exists out, stroke_undashed els st tol = Some out.
Proof.
  intros Hp. unfold stroke_undashed.
  destruct (stroke_loop_total st els Hp (ctx_init st tol)) as [c ->]. eauto.
Qed.

End Structure.
