(** C04: the polyline stroker — structure of the outline (any scalar), offset geometry, joins,
    caps and radius bounds (real instance). *)
From Coq Require Import ZArith QArith Reals List Bool Lra Lia Psatz.
From KV Require Import Scalar RInst Geom Curves Path Affine Stroke RTac StrokeSpec.
Import ListNotations.

(** * Part 1: structure, for every scalar type (so also for binary64) *)
Section Structure.
Context {T : Type} `{Scalar T}.
Notation PE := (PathEl T).

Lemma Forall_app_intro {A} (P : A -> Prop) l1 l2 : Forall P l1 -> Forall P l2 -> Forall P (l1 ++ l2).
Proof. intros; apply Forall_app; split; assumption. Qed.

Lemma segs_map_curve a l : Forall (@is_seg T) (map (curve_of a) l).
Proof. induction l as [|[[p1 p2] p3] l IH]; constructor; [exact I | exact IH]. Qed.

Lemma round_join_segs tol c n ang : Forall (@is_seg T) (round_join_els tol c n ang).
Proof. apply segs_map_curve. Qed.
Lemma round_join_rev_segs tol c n ang : Forall (@is_seg T) (round_join_rev_els tol c n ang).
Proof. apply segs_map_curve. Qed.

Ltac split_ifs :=
  repeat match goal with
  | |- context [if ?b then _ else _] => destruct b
  | |- context [match ?j with JoinBevel => _ | JoinMiter => _ | JoinRound => _ end] => destruct j
  end.

Lemma join_els_segs st p0 ab th tan :
  Forall (@is_seg T) (fst (fst (join_els st p0 ab th tan))) /\
  Forall (@is_seg T) (snd (fst (join_els st p0 ab th tan))).
Proof.
  unfold join_els.
  split_ifs; cbn [fst snd app];
  repeat match goal with
  | |- _ /\ _ => split
  | |- Forall _ (_ :: _) => constructor
  | |- Forall _ [] => constructor
  | |- is_seg _ => exact I
  | |- Forall _ (round_join_els _ _ _ _) => apply round_join_segs
  | |- Forall _ (round_join_rev_els _ _ _ _) => apply round_join_rev_segs
  end.
Qed.

(** a forward/backward path is empty or one MoveTo followed by drawing elements *)
Definition path_shape (l : list PE) : Prop :=
  l = [] \/ exists p segs, l = MoveTo p :: segs /\ Forall (@is_seg T) segs.

Lemma rev_el_segs e0 e : Forall (@is_seg T) (rev_el e0 e).
Proof. destruct e; cbn; repeat constructor. Qed.

Lemma extend_reversed_segs l : Forall (@is_seg T) (extend_reversed l).
Proof.
  induction l as [|e0 [|e1 r] IH]; cbn; try constructor.
  apply Forall_app_intro; [exact IH | apply rev_el_segs].
Qed.

Lemma closed_contours_app (a b : list PE) : closed_contours a -> closed_contours b -> closed_contours (a ++ b).
Proof.
  induction 1 as [|p body rest Hb Hr IH]; intros Hb2; [exact Hb2|].
  cbn. rewrite <- app_assoc. cbn. constructor; auto.
Qed.

Lemma square_cap_false_segs c d : Forall (@is_seg T) (square_cap_els false c d).
Proof. cbn. repeat constructor. Qed.

(** the state between two elements *)
Record SInv (c : StrokeCtx T) : Prop := {
  si_out : closed_contours (cx_output c);
  si_fwd : path_shape (cx_forward c);
  si_bwd : path_shape (cx_backward c);
  si_both : cx_forward c = [] <-> cx_backward c = [] }.

Lemma path_shape_app l segs : l <> [] -> path_shape l -> Forall (@is_seg T) segs -> path_shape (l ++ segs).
Proof.
  intros Hne [->|(p & s & -> & Hs)] Hsegs; [congruence|].
  right. exists p, (s ++ segs). split; [reflexivity | apply Forall_app_intro; assumption].
Qed.

Lemma do_join_sinv st tan c : SInv c -> SInv (do_join st tan c) /\ cx_forward (do_join st tan c) <> [].
Proof.
  intros [Ho Hf Hb Hfb]. unfold do_join.
  destruct (cx_forward c) as [|e f] eqn:Ef.
  - assert (Eb : cx_backward c = []) by (apply Hfb; reflexivity). rewrite Eb.
    split; [constructor; cbn; auto|cbn; discriminate].
    + right. eexists _, []. split; [reflexivity|constructor].
    + right. eexists _, []. split; [reflexivity|constructor].
    + split; discriminate.
  - pose proof (join_els_segs st (cx_last_pt c) (cx_last_tan c) (cx_join_thresh c) tan) as [Jf Jb].
    destruct (join_els st (cx_last_pt c) (cx_last_tan c) (cx_join_thresh c) tan) as [[jf jb] tag].
    cbn [fst snd] in Jf, Jb.
    assert (Hbne : cx_backward c <> []) by (intros E; apply Hfb in E; discriminate).
    split; [constructor; cbn; auto|cbn; discriminate].
    + rewrite <- Ef in *. change (e :: f ++ jf) with ((e :: f) ++ jf). rewrite <- Ef.
      apply path_shape_app; auto. rewrite Ef; discriminate.
    + apply path_shape_app; auto.
    + split; intros E.
      * discriminate.
      * apply app_eq_nil in E. destruct E; contradiction.
Qed.

Lemma set_last_tan_sinv t c : SInv c -> SInv (set_last_tan t c).
Proof. intros [? ? ? ?]; constructor; cbn; auto. Qed.

Lemma do_line_sinv st t p c : SInv c -> cx_forward c <> [] -> SInv (do_line st t p c) /\ cx_forward (do_line st t p c) <> [].
Proof.
  intros [Ho Hf Hb Hfb] Hne.
  assert (Hbne : cx_backward c <> []) by (intros E; apply Hfb in E; contradiction).
  split; [constructor; cbn; auto|].
  - apply path_shape_app; auto. repeat constructor.
  - apply path_shape_app; auto. repeat constructor.
  - split; intros E; apply app_eq_nil in E; destruct E; discriminate.
  - cbn. intros E; apply app_eq_nil in E; destruct E; discriminate.
Qed.

Lemma line_step_sinv st t p c : SInv c -> SInv (line_step st t p c) /\ cx_forward (line_step st t p c) <> [].
Proof.
  intros Hc. unfold line_step.
  destruct (do_join_sinv st t c Hc) as [H1 N1].
  apply do_line_sinv; [apply set_last_tan_sinv; exact H1 | exact N1].
Qed.

Definition end_cap_els (st : StrokeStyle T) (c : StrokeCtx T) : list PE :=
  match sk_end_cap st with
  | CapButt => [LineTo (last_end (cx_backward c))]
  | CapRound => round_cap_els tol_1e_3 (cx_last_pt c) (pt_sub (cx_last_pt c) (last_end (cx_backward c)))
  | CapSquare => square_cap_els false (cx_last_pt c) (pt_sub (cx_last_pt c) (last_end (cx_backward c)))
  end.

Definition start_cap_els (st : StrokeStyle T) (c : StrokeCtx T) : list PE :=
  match sk_start_cap st with
  | CapButt => [ClosePath]
  | CapRound => round_cap_els tol_1e_3 (cx_start_pt c) (cx_start_norm c)
  | CapSquare => square_cap_els true (cx_start_pt c) (cx_start_norm c)
  end.

Lemma finish_nonempty st c : cx_forward c <> [] ->
  finish st c =
  mkCtx (cx_output c ++ cx_forward c ++ end_cap_els st c ++ extend_reversed (cx_backward c) ++ start_cap_els st c)
        [] [] (cx_start_pt c) (cx_start_norm c) (cx_start_tan c) (cx_last_pt c) (cx_last_tan c) (cx_join_thresh c).
Proof.
  intros Hne. unfold finish, end_cap_els, start_cap_els.
  destruct (cx_forward c) as [|e f]; [contradiction|].
  f_equal. rewrite <- !app_assoc. reflexivity.
Qed.

Lemma finish_empty st c : cx_forward c = [] -> finish st c = c.
Proof. intros E. unfold finish. rewrite E. reflexivity. Qed.

Lemma finish_closed_nonempty st c : cx_forward c <> [] ->
  let c1 := do_join st (cx_start_tan c) c in
  finish_closed st c =
  mkCtx (cx_output c1 ++ cx_forward c1 ++ [ClosePath] ++ [MoveTo (last_end (cx_backward c1))] ++
         extend_reversed (cx_backward c1) ++ [ClosePath])
        [] [] (cx_start_pt c1) (cx_start_norm c1) (cx_start_tan c1) (cx_last_pt c1) (cx_last_tan c1) (cx_join_thresh c1).
Proof.
  intros Hne. cbv zeta. unfold finish_closed.
  destruct (cx_forward c) as [|e f]; [contradiction|].
  f_equal. rewrite <- !app_assoc. reflexivity.
Qed.

Lemma finish_closed_empty st c : cx_forward c = [] -> finish_closed st c = c.
Proof. intros E. unfold finish_closed. rewrite E. reflexivity. Qed.

Lemma end_cap_segs st c : Forall (@is_seg T) (end_cap_els st c).
Proof.
  unfold end_cap_els. destruct (sk_end_cap st);
    [repeat constructor | apply square_cap_false_segs | apply round_join_segs].
Qed.

Lemma start_cap_closes st c : sk_start_cap st <> CapRound ->
  exists segs, start_cap_els st c = segs ++ [ClosePath] /\ Forall (@is_seg T) segs.
Proof.
  unfold start_cap_els. destruct (sk_start_cap st); intros Hcap; [| |congruence].
  - exists []. split; [reflexivity|constructor].
  - eexists [_; _]. split; [reflexivity|repeat constructor].
Qed.

Lemma finish_sinv st c : sk_start_cap st <> CapRound -> SInv c ->
  SInv (finish st c) /\ cx_forward (finish st c) = [].
Proof.
  intros Hcap [Ho Hf Hb Hfb].
  destruct (cx_forward c) as [|e f] eqn:Ef.
  - rewrite finish_empty by exact Ef. split; [constructor; auto; rewrite Ef; auto | exact Ef].
  - rewrite finish_nonempty by (rewrite Ef; discriminate).
    split; [|reflexivity]. constructor; cbn; [|left; reflexivity|left; reflexivity|tauto].
    rewrite Ef.
    destruct Hf as [Hf|(p & s & Hf & Hs)]; [discriminate|]. rewrite Hf.
    destruct (start_cap_closes st c Hcap) as (sc & -> & Hsc).
    apply closed_contours_app; [exact Ho|].
    cbn.
    replace (s ++ end_cap_els st c ++ extend_reversed (cx_backward c) ++ sc ++ [ClosePath])
      with ((s ++ end_cap_els st c ++ extend_reversed (cx_backward c) ++ sc) ++ ClosePath :: [])
      by (rewrite <- !app_assoc; reflexivity).
    constructor; [|constructor].
    repeat apply Forall_app_intro; auto using end_cap_segs, extend_reversed_segs.
Qed.

Lemma finish_closed_sinv st c : SInv c ->
  SInv (finish_closed st c) /\ cx_forward (finish_closed st c) = [].
Proof.
  intros Hc. unfold finish_closed.
  destruct (cx_forward c) as [|e f] eqn:Ef.
  - split; [exact Hc | exact Ef].
  - destruct (do_join_sinv st (cx_start_tan c) c Hc) as [[Ho Hf Hb Hfb] Hne].
    set (c1 := do_join st (cx_start_tan c) c) in *.
    split; [|reflexivity]. constructor; cbn; [|left; reflexivity|left; reflexivity|tauto].
    destruct Hf as [Hf|(p & s & Hf & Hs)]; [contradiction|]. rewrite Hf.
    apply closed_contours_app.
    + apply closed_contours_app; [exact Ho|].
      cbn. change (s ++ [ClosePath]) with (s ++ ClosePath :: []). constructor; [exact Hs|constructor].
    + cbn. change (extend_reversed (cx_backward c1) ++ [ClosePath])
        with (extend_reversed (cx_backward c1) ++ ClosePath :: []).
      constructor; [apply extend_reversed_segs | constructor].
Qed.

Lemma stroke_step_sinv st c e c' : sk_start_cap st <> CapRound -> SInv c ->
  stroke_step st c e = Some c' -> SInv c'.
Proof.
  intros Hcap Hc. unfold stroke_step. destruct e; try discriminate.
  - intros [= <-]. destruct (finish_sinv st c Hcap Hc) as [[Ho Hf Hb Hfb] _].
    constructor; cbn; auto.
  - destruct (pt_neb p (cx_last_pt c)); intros [= <-]; [apply line_step_sinv; exact Hc | exact Hc].
  - intros [= <-]. apply finish_closed_sinv.
    destruct (pt_neb (cx_last_pt c) (cx_start_pt c)); [apply line_step_sinv; exact Hc | exact Hc].
Qed.

Lemma stroke_loop_sinv st els : forall c c', sk_start_cap st <> CapRound -> SInv c ->
  stroke_loop st c els = Some c' -> SInv c'.
Proof.
  induction els as [|e r IH]; cbn; intros c c' Hcap Hc.
  - intros [= <-]; exact Hc.
  - destruct (stroke_step st c e) as [c1|] eqn:E1; [|discriminate].
    intros Hl. apply (IH c1 c' Hcap); [|exact Hl]. eapply stroke_step_sinv; eauto.
Qed.

Lemma ctx_init_sinv st tol : SInv (ctx_init st tol).
Proof. constructor; cbn; [constructor|left; reflexivity|left; reflexivity|tauto]. Qed.

(** every contour of the outline starts with MoveTo, draws, and ends with ClosePath
    (start caps butt and square; a round start cap ends the contour with an arc instead) *)
Theorem stroke_contours_closed_any_scalar st els tol out :
  sk_start_cap st <> CapRound ->
  stroke_undashed els st tol = Some out -> closed_contours out.
Proof.
  intros Hcap. unfold stroke_undashed.
  destruct (stroke_loop st (ctx_init st tol) els) as [c|] eqn:El; [|discriminate].
  intros [= <-].
  pose proof (stroke_loop_sinv st els _ _ Hcap (ctx_init_sinv st tol) El) as Hc.
  destruct (finish_sinv st c Hcap Hc) as [[Ho _ _ _] _]. exact Ho.
Qed.

(** the model answers on exactly the inputs made of MoveTo / LineTo / ClosePath *)
Lemma stroke_step_total st c e : is_poly_el e -> exists c', stroke_step st c e = Some c'.
Proof. destruct e; cbn; try contradiction; intros _; try (destruct (pt_neb _ _)); eauto. Qed.

Lemma stroke_loop_total st els : Forall (@is_poly_el T) els -> forall c, exists c', stroke_loop st c els = Some c'.
Proof.
  induction 1 as [|e r He Hr IH]; intros c; cbn; [eauto|].
  destruct (stroke_step_total st c e He) as [c1 ->]. apply IH.
Qed.

Theorem stroke_defined_on_polylines st els tol :
  Forall (@is_poly_el T) els -> exists out, stroke_undashed els st tol = Some out.
Proof.
  intros Hp. unfold stroke_undashed.
  destruct (stroke_loop_total st els Hp (ctx_init st tol)) as [c ->]. eauto.
Qed.

End Structure.

(** * Part 2: geometry at the real instance *)
Local Open Scope R_scope.

Ltac sk_unfold :=
  cbv [left_norm s_scale_v v_scale v_hypot pt_sub_v pt_add_v pt_sub v_cross v_dot v_neg v_add v_sub
       offs along vlen dist2 rdot rcross vec aff_apply
       aa ab ac ad ae af px py vx vy fst snd] in *;
  rs_unfold; cbv [Q2R Qnum Qden] in *.

Lemma vlen_pos t : vnonzero t -> 0 < vlen t.
Proof.
  destruct t as [x y]; unfold vnonzero, vlen; cbn; intros Hn.
  apply sqrt_lt_R0. destruct Hn; nra.
Qed.

Lemma vlen_sq t : vlen t * vlen t = vx t * vx t + vy t * vy t.
Proof. destruct t as [x y]; unfold vlen; cbn. apply sqrt_sqrt. nra. Qed.

Lemma v_hypot_vlen (t : Vec2 R) : v_hypot t = vlen t.
Proof. reflexivity. Qed.

(** the model's offset points are [offs] (no guard: both sides are the same polynomial in 1/|t|) *)
Lemma pt_sub_left_norm w t p : pt_sub_v p (left_norm w t) = offs w (-1) t p.
Proof.
  destruct t as [tx ty], p as [x y]. sk_unfold. set (l := sqrt (tx * tx + ty * ty)).
  f_equal; unfold Rdiv; ring.
Qed.

Lemma pt_add_left_norm w t p : pt_add_v p (left_norm w t) = offs w 1 t p.
Proof.
  destruct t as [tx ty], p as [x y]. sk_unfold. set (l := sqrt (tx * tx + ty * ty)).
  f_equal; unfold Rdiv; ring.
Qed.

(** [offs w s t p] is at distance w/2 from p, perpendicular to t, on the side of sign s *)
Lemma offs_dist w s t p : vnonzero t -> s * s = 1 -> dist2 (offs w s t p) p = (w / 2) * (w / 2).
Proof.
  intros Hn Hs. pose proof (vlen_pos t Hn) as Hl. pose proof (vlen_sq t) as Hq.
  destruct t as [tx ty], p as [x y]. unfold dist2, offs in *; cbn [px py vx vy] in *.
  set (l := vlen _) in *.
  replace ((x + s * (w / 2) * (- ty / l) - x) * (x + s * (w / 2) * (- ty / l) - x) +
           (y + s * (w / 2) * (tx / l) - y) * (y + s * (w / 2) * (tx / l) - y))
    with ((s * s) * (w / 2) * (w / 2) * ((tx * tx + ty * ty) / (l * l))) by (field; lra).
  rewrite <- Hq, Hs. field. lra.
Qed.

Lemma offs_perp w s t p : vnonzero t -> rdot (vec p (offs w s t p)) t = 0.
Proof.
  intros Hn. pose proof (vlen_pos t Hn) as Hl.
  destruct t as [tx ty], p as [x y]. unfold rdot, vec, offs in *; cbn [px py vx vy] in *.
  set (l := vlen _) in *. field. lra.
Qed.

Lemma offs_side w s t p : vnonzero t -> rcross t (vec p (offs w s t p)) = s * (w / 2) * vlen t.
Proof.
  intros Hn. pose proof (vlen_pos t Hn) as Hl. pose proof (vlen_sq t) as Hq.
  destruct t as [tx ty], p as [x y]. unfold rcross, vec, offs in *; cbn [px py vx vy] in *.
  set (l := vlen _) in *.
  replace (tx * (y + s * (w / 2) * (tx / l) - y) - ty * (x + s * (w / 2) * (- ty / l) - x))
    with (s * (w / 2) * ((tx * tx + ty * ty) / l)) by (field; lra).
  rewrite <- Hq. field. lra.
Qed.

(** moving along the unit tangent *)
Lemma along_dot d t p q : vnonzero t -> rdot (vec p (along d t q)) t = rdot (vec p q) t + d * vlen t.
Proof.
  intros Hn. pose proof (vlen_pos t Hn) as Hl. pose proof (vlen_sq t) as Hq.
  destruct t as [tx ty], p as [x y], q as [u v]. unfold rdot, vec, along in *; cbn [px py vx vy] in *.
  set (l := vlen _) in *.
  replace ((u + d * (tx / l) - x) * tx + (v + d * (ty / l) - y) * ty)
    with ((u - x) * tx + (v - y) * ty + d * ((tx * tx + ty * ty) / l)) by (field; lra).
  rewrite <- Hq. field. lra.
Qed.

Lemma along_offs_dist d w s t p : vnonzero t -> s * s = 1 ->
  dist2 (along d t (offs w s t p)) p = (w / 2) * (w / 2) + d * d.
Proof.
  intros Hn Hs. pose proof (vlen_pos t Hn) as Hl. pose proof (vlen_sq t) as Hq.
  destruct t as [tx ty], p as [x y]. unfold dist2, along, offs in *; cbn [px py vx vy] in *.
  set (l := vlen _) in *.
  match goal with |- ?lhs = _ =>
    replace lhs with (((s * s) * (w / 2) * (w / 2) + d * d) * ((tx * tx + ty * ty) / (l * l))) by (field; lra)
  end.
  rewrite <- Hq, Hs. field. lra.
Qed.

(** ** joins: the model's [join_els] in the vocabulary of the specification *)
Lemma join_els_spec st p0 ab th cd :
  let X := rcross ab cd in let D := rdot ab cd in let Hy := sqrt (X * X + D * D) in
  join_els st p0 ab th cd =
  if Rleb D 0 || Rleb (Hy * th) (Rabs X) then
    (piv_f st p0 X ++ fst (fst (join_core st p0 ab cd)), piv_b st p0 X ++ snd (fst (join_core st p0 ab cd)),
     snd (join_core st p0 ab cd))
  else ([], [], 0%Z).
Proof.
  cbv zeta. unfold join_els, join_core, piv_f, piv_b, miter_pt.
  change (s_scale_v (fhalf * sk_width st / v_hypot ab)%S (mkVec2 (- vy ab)%S (vx ab))) with (left_norm (sk_width st) ab).
  cbn [fleb fltb feqb fabs fmul fhypot fadd fpowi fatan2 fneg RS f0 f2 fofZ].
  change (v_cross ab cd) with (rcross ab cd). change (v_dot ab cd) with (rdot ab cd).
  rewrite !pt_sub_left_norm, !pt_add_left_norm.
  replace (powerRZ (sk_miter_limit st) 2) with (sk_miter_limit st * sk_miter_limit st) by (unfold powerRZ; simpl; ring).
  destruct (Rleb (rdot ab cd) 0 || Rleb _ _); [|reflexivity].
  destruct (sk_join st); cbn [fst snd]; try reflexivity.
  - repeat match goal with |- context [if ?b then _ else _] => destruct b end; cbn [fst snd]; reflexivity.
  - repeat match goal with |- context [if ?b then _ else _] => destruct b end; cbn [fst snd]; reflexivity.
Qed.

Lemma hyp_is_product ab cd :
  sqrt (rcross ab cd * rcross ab cd + rdot ab cd * rdot ab cd) = vlen ab * vlen cd.
Proof.
  pose proof (vlen_sq ab) as Ha. pose proof (vlen_sq cd) as Hc.
  assert (0 <= vlen ab) by (unfold vlen; apply sqrt_pos).
  assert (0 <= vlen cd) by (unfold vlen; apply sqrt_pos).
  destruct ab as [ax ay], cd as [cx cy]. unfold rcross, rdot in *. cbn [vx vy] in *.
  set (a := vlen (mkVec2 ax ay)) in *. set (c := vlen (mkVec2 cx cy)) in *.
  replace ((ax * cy - ay * cx) * (ax * cy - ay * cx) + (ax * cx + ay * cy) * (ax * cx + ay * cy))
    with ((a * c) * (a * c)).
  - apply sqrt_square. nra.
  - transitivity ((a * a) * (c * c)); [ring|]. rewrite Ha, Hc. ring.
Qed.

(* the miter point lies on both offset lines *)
Lemma miter_on_lines w s p0 ab cd : vnonzero ab -> vnonzero cd -> rcross ab cd <> 0 ->
  rcross ab (vec (offs w s ab p0) (miter_pt w s p0 ab cd)) = 0 /\
  rcross cd (vec (offs w s cd p0) (miter_pt w s p0 ab cd)) = 0.
Proof.
  intros Ha Hc HX. pose proof (vlen_pos ab Ha) as La. pose proof (vlen_pos cd Hc) as Lc.
  destruct ab as [ax ay], cd as [cx cy], p0 as [x y].
  unfold miter_pt, rcross, vec, offs in *. cbn [px py vx vy] in *.
  set (a := vlen (mkVec2 ax ay)) in *. set (c := vlen (mkVec2 cx cy)) in *.
  split; field; lra.
Qed.

Lemma miter_kernel ax ay cx cy a c mx my s k :
  a * a = ax * ax + ay * ay -> c * c = cx * cx + cy * cy -> s * s = 1 ->
  ax * cy - ay * cx <> 0 ->
  ax * my - ay * mx = s * k * a -> cx * my - cy * mx = s * k * c ->
  (mx * mx + my * my) * (a * c + (ax * cx + ay * cy)) = k * k * (2 * (a * c)).
Proof.
  intros Qa Qc Hs HX E1 E2.
  set (X := ax * cy - ay * cx) in *. set (D := ax * cx + ay * cy) in *.
  assert (Hmx : X * mx = s * k * (a * cx - c * ax)).
  { replace (X * mx) with (cx * (ax * my - ay * mx) - ax * (cx * my - cy * mx)) by (unfold X; ring).
    rewrite E1, E2. ring. }
  assert (Hmy : X * my = s * k * (a * cy - c * ay)).
  { replace (X * my) with (cy * (ax * my - ay * mx) - ay * (cx * my - cy * mx)) by (unfold X; ring).
    rewrite E1, E2. ring. }
  assert (HX2 : X * X = (a * c - D) * (a * c + D)).
  { transitivity ((a * a) * (c * c) - D * D); [rewrite Qa, Qc; unfold X, D; ring | ring]. }
  assert (Hne : a * c - D <> 0).
  { intros E. rewrite E in HX2. assert (X * X = 0) by lra. apply HX. nra. }
  assert (Hm : X * X * (mx * mx + my * my) = k * k * (2 * (a * c)) * (a * c - D)).
  { replace (X * X * (mx * mx + my * my)) with ((X * mx) * (X * mx) + (X * my) * (X * my)) by ring.
    rewrite Hmx, Hmy.
    transitivity ((s * s) * (k * k) * ((a * a) * (cx * cx + cy * cy) - 2 * (a * c) * D + (c * c) * (ax * ax + ay * ay))).
    - unfold D; ring.
    - rewrite Hs, <- Qa, <- Qc. ring. }
  rewrite HX2 in Hm.
  apply (Rmult_eq_reg_l (a * c - D)); [|exact Hne]. lra.
Qed.

(** distance of the miter point from the vertex: |M - p0|^2 (|ab||cd| + ab.cd) = (w/2)^2 2 |ab||cd| *)
Lemma miter_dist w s p0 ab cd : vnonzero ab -> vnonzero cd -> rcross ab cd <> 0 -> s * s = 1 ->
  dist2 (miter_pt w s p0 ab cd) p0 * (vlen ab * vlen cd + rdot ab cd) =
  (w / 2) * (w / 2) * (2 * (vlen ab * vlen cd)).
Proof.
  intros Ha Hc HX Hs.
  destruct (miter_on_lines w s p0 ab cd Ha Hc HX) as [L1 L2].
  pose proof (offs_side w s ab p0 Ha) as S1. pose proof (offs_side w s cd p0 Hc) as S2.
  pose proof (vlen_sq ab) as Qa. pose proof (vlen_sq cd) as Qc.
  set (M := miter_pt w s p0 ab cd) in *.
  set (o1 := offs w s ab p0) in *. set (o2 := offs w s cd p0) in *.
  destruct ab as [ax ay], cd as [cx cy], p0 as [x y], M as [mx my], o1 as [ux uy], o2 as [vx' vy'].
  unfold dist2, rcross, rdot, vec in *. cbn [px py vx vy] in *.
  apply miter_kernel with (s := s) (k := w / 2); auto; lra.
Qed.

Lemma cauchy_strict ab cd : vnonzero ab -> vnonzero cd -> rcross ab cd <> 0 ->
  0 < vlen ab * vlen cd + rdot ab cd /\ 0 < vlen ab * vlen cd - rdot ab cd.
Proof.
  intros Ha Hc HX. pose proof (vlen_pos ab Ha) as La. pose proof (vlen_pos cd Hc) as Lc.
  pose proof (vlen_sq ab) as Qa. pose proof (vlen_sq cd) as Qc.
  destruct ab as [ax ay], cd as [cx cy]. unfold rcross, rdot in *. cbn [vx vy] in *.
  set (a := vlen (mkVec2 ax ay)) in *. set (c := vlen (mkVec2 cx cy)) in *.
  assert (HX2 : (ax * cy - ay * cx) * (ax * cy - ay * cx) = (a * c - (ax * cx + ay * cy)) * (a * c + (ax * cx + ay * cy))).
  { transitivity ((a * a) * (c * c) - (ax * cx + ay * cy) * (ax * cx + ay * cy)); [rewrite Qa, Qc; ring | ring]. }
  assert (0 < (ax * cy - ay * cx) * (ax * cy - ay * cx)) by nra.
  assert (0 < a * c) by nra.
  nra.
Qed.

(** whenever the miter point is emitted (2 hypot < (hypot + dot) limit^2) it is within limit * w/2 of the vertex *)
Lemma miter_within_limit w s p0 ab cd ml : vnonzero ab -> vnonzero cd -> rcross ab cd <> 0 -> s * s = 1 ->
  2 * (vlen ab * vlen cd) < (vlen ab * vlen cd + rdot ab cd) * (ml * ml) ->
  dist2 (miter_pt w s p0 ab cd) p0 < (w / 2) * (w / 2) * (ml * ml) \/ w = 0.
Proof.
  intros Ha Hc HX Hs Hlim.
  pose proof (miter_dist w s p0 ab cd Ha Hc HX Hs) as Hd.
  destruct (cauchy_strict ab cd Ha Hc HX) as [Hp _].
  destruct (Req_dec w 0) as [->|Hw]; [right; reflexivity|left].
  set (d := dist2 _ _) in *. set (h := vlen ab * vlen cd) in *. set (D := rdot ab cd) in *.
  assert (0 < (w / 2) * (w / 2)) by nra.
  apply (Rmult_lt_reg_r (h + D)); [exact Hp|]. rewrite Hd. nra.
Qed.

(** which side is the outer one: along the incoming direction, the new offset point lies ahead of the
    old one on the side of sign s iff  - s * cross > 0  (s = -1 forward, s = 1 backward) *)
Lemma offset_gap w s p0 ab cd : vnonzero ab -> vnonzero cd ->
  rdot ab (vec (offs w s ab p0) (offs w s cd p0)) = - s * (w / 2) * rcross ab cd / vlen cd.
Proof.
  intros Ha Hc. pose proof (vlen_pos ab Ha) as La. pose proof (vlen_pos cd Hc) as Lc.
  destruct ab as [ax ay], cd as [cx cy], p0 as [x y].
  unfold rdot, rcross, vec, offs in *. cbn [px py vx vy] in *.
  set (a := vlen (mkVec2 ax ay)) in *. set (c := vlen (mkVec2 cx cy)) in *.
  field. lra.
Qed.

(** * Part 3: the state between two elements, and what every element adds (real instance) *)

Lemma pt_neb_vnonzero (p q : Point R) : pt_neb p q = true -> vnonzero (pt_sub p q).
Proof.
  destruct p as [x y], q as [u v]. unfold pt_neb, pt_eqb, vnonzero, pt_sub. cbn [px py vx vy feqb fsub RS].
  intros Hn. apply negb_true_iff, andb_false_iff in Hn.
  destruct Hn as [Hn|Hn]; apply Reqb_false in Hn; [left|right]; lra.
Qed.

Lemma pt_neb_vnonzero_sym (p q : Point R) : pt_neb p q = true -> vnonzero (pt_sub q p).
Proof.
  destruct p as [x y], q as [u v]. unfold pt_neb, pt_eqb, vnonzero, pt_sub. cbn [px py vx vy feqb fsub RS].
  intros Hn. apply negb_true_iff, andb_false_iff in Hn.
  destruct Hn as [Hn|Hn]; apply Reqb_false in Hn; [left|right]; lra.
Qed.

Lemma pt_neb_sym (p q : Point R) : pt_neb p q = pt_neb q p.
Proof.
  destruct p as [x y], q as [u v]. unfold pt_neb, pt_eqb. cbn [px py feqb RS]. f_equal.
  unfold Reqb. destruct (Req_EM_T x u), (Req_EM_T u x), (Req_EM_T y v), (Req_EM_T v y); try reflexivity; congruence.
Qed.

Lemma pt_neb_false_eq (p q : Point R) : pt_neb p q = false -> p = q.
Proof.
  destruct p as [x y], q as [u v]. unfold pt_neb, pt_eqb. cbn [px py feqb RS].
  intros Hn. apply negb_false_iff, andb_true_iff in Hn. destruct Hn as [A B].
  apply Reqb_true in A, B. subst; reflexivity.
Qed.

Lemma last_end_snoc {T} `{Scalar T} (l : list (PathEl T)) e : last_end (l ++ [e]) = el_end_or e.
Proof. unfold last_end. rewrite last_last. reflexivity. Qed.

Lemma last_end_app_ne {T} `{Scalar T} (l m : list (PathEl T)) : m <> [] -> last_end (l ++ m) = last_end m.
Proof.
  intros Hm. destruct (exists_last Hm) as (m' & e & ->).
  rewrite app_assoc, !last_end_snoc. reflexivity.
Qed.

Section GInv.
Variable st : StrokeStyle R.
Let w := sk_width st.
Variable P : Point R -> Prop.
Variable V : list (Point R).

Hypothesis HP_offs : forall p t s, In p V -> vnonzero t -> s = 1 \/ s = -1 -> P (offs w s t p).
Hypothesis HP_piv : forall p, In p V -> P p.
Hypothesis HP_join : forall p0 ab cd, In p0 V -> vnonzero ab -> vnonzero cd ->
  all_ends P (fst (fst (join_core st p0 ab cd))) /\ all_ends P (snd (fst (join_core st p0 ab cd))).
Hypothesis HP_endcap : forall p t, In p V -> vnonzero t -> all_ends P (end_cap_at st p t).
Hypothesis HP_startcap : forall p t, In p V -> vnonzero t -> all_ends P (start_cap_at st p t).

Definition g_state (c : StrokeCtx R) : Prop :=
  (cx_forward c = [] /\ cx_backward c = [] /\ cx_last_pt c = cx_start_pt c) \/
  (exists f b,
     cx_forward c = MoveTo (offs w (-1) (cx_start_tan c) (cx_start_pt c)) :: f /\
     cx_backward c = MoveTo (offs w 1 (cx_start_tan c) (cx_start_pt c)) :: b /\
     last_end (cx_forward c) = offs w (-1) (cx_last_tan c) (cx_last_pt c) /\
     last_end (cx_backward c) = offs w 1 (cx_last_tan c) (cx_last_pt c) /\
     cx_start_norm c = left_norm w (cx_start_tan c) /\
     vnonzero (cx_start_tan c) /\ vnonzero (cx_last_tan c) /\
     Forall (@is_seg R) f /\ Forall (@is_seg R) b /\
     all_ends P (cx_forward c) /\ all_ends P (cx_backward c)).

Record GInv (c : StrokeCtx R) : Prop := {
  g_out : all_ends P (cx_output c);
  g_lp : In (cx_last_pt c) V;
  g_sp : In (cx_start_pt c) V;
  g_st : g_state c }.

Lemma all_ends_app (a b : list (PathEl R)) : all_ends P a -> all_ends P b -> all_ends P (a ++ b).
Proof. apply Forall_app_intro. Qed.

Lemma piv_ends p0 X : In p0 V -> all_ends P (piv_f st p0 X) /\ all_ends P (piv_b st p0 X).
Proof.
  intros Hin. unfold piv_f, piv_b.
  destruct (sk_inner_pivot st), (Rltb 0 X), (Rltb X 0); split; repeat constructor; cbn; auto.
Qed.

Lemma join_els_ends p0 ab th cd : In p0 V -> vnonzero ab -> vnonzero cd ->
  all_ends P (fst (fst (join_els st p0 ab th cd))) /\ all_ends P (snd (fst (join_els st p0 ab th cd))).
Proof.
  intros Hin Ha Hc. rewrite join_els_spec.
  destruct (Rleb _ _ || Rleb _ _); cbn [fst snd]; [|split; constructor].
  destruct (piv_ends p0 (rcross ab cd) Hin) as [Pf Pb].
  destruct (HP_join p0 ab cd Hin Ha Hc) as [Jf Jb].
  split; apply all_ends_app; assumption.
Qed.

Lemma join_els_is_segs p0 ab th cd :
  Forall (@is_seg R) (fst (fst (join_els st p0 ab th cd))) /\ Forall (@is_seg R) (snd (fst (join_els st p0 ab th cd))).
Proof. apply join_els_segs. Qed.

(** [line_step] in closed form *)
Lemma line_step_empty t p1 c : cx_forward c = [] -> cx_backward c = [] ->
  line_step st t p1 c =
  mkCtx (cx_output c)
        [MoveTo (offs w (-1) t (cx_last_pt c)); LineTo (offs w (-1) t p1)]
        [MoveTo (offs w 1 t (cx_last_pt c)); LineTo (offs w 1 t p1)]
        (cx_start_pt c) (left_norm w t) t p1 t (cx_join_thresh c).
Proof.
  intros Ef Eb. unfold line_step, do_join. rewrite Ef, Eb. unfold set_last_tan, do_line. cbn.
  rewrite !pt_sub_left_norm, !pt_add_left_norm. reflexivity.
Qed.

Lemma line_step_nonempty t p1 c : cx_forward c <> [] ->
  let j := join_els st (cx_last_pt c) (cx_last_tan c) (cx_join_thresh c) t in
  line_step st t p1 c =
  mkCtx (cx_output c)
        (cx_forward c ++ fst (fst j) ++ [LineTo (offs w (-1) t p1)])
        (cx_backward c ++ snd (fst j) ++ [LineTo (offs w 1 t p1)])
        (cx_start_pt c) (cx_start_norm c) (cx_start_tan c) p1 t (cx_join_thresh c).
Proof.
  intros Hne. cbv zeta. unfold line_step, do_join.
  destruct (cx_forward c) as [|e f] eqn:Ef; [contradiction|].
  destruct (join_els st (cx_last_pt c) (cx_last_tan c) (cx_join_thresh c) t) as [[jf jb] tag].
  unfold set_last_tan, do_line. cbn.
  rewrite !pt_sub_left_norm, !pt_add_left_norm, <- !app_assoc. reflexivity.
Qed.

Lemma line_step_ginv t p1 c : GInv c -> In p1 V -> t = pt_sub p1 (cx_last_pt c) -> vnonzero t ->
  GInv (line_step st t p1 c) /\ cx_forward (line_step st t p1 c) <> [].
Proof.
  intros [Go Glp Gsp Gs] Hin Ht Hn.
  destruct Gs as [(Ef & Eb & Els)|(f & b & Ef & Eb & Lf & Lb & Sn & Nst & Nlt & Sf & Sb & Pf & Pb)].
  - rewrite (line_step_empty t p1 c Ef Eb). split; [|discriminate].
    constructor; cbn; auto.
    right. eexists _, _. cbn. rewrite <- Els.
    repeat split; try reflexivity; auto; repeat constructor; cbn; auto.
  - assert (Hne : cx_forward c <> []) by (rewrite Ef; discriminate).
    rewrite (line_step_nonempty t p1 c Hne). cbv zeta.
    destruct (join_els_ends (cx_last_pt c) (cx_last_tan c) (cx_join_thresh c) t Glp Nlt Hn) as [Jf Jb].
    destruct (join_els_is_segs (cx_last_pt c) (cx_last_tan c) (cx_join_thresh c) t) as [Zf Zb].
    set (j := join_els st (cx_last_pt c) (cx_last_tan c) (cx_join_thresh c) t) in *.
    split; [|cbn; rewrite Ef; discriminate].
    constructor; cbn; auto.
    right. exists (f ++ fst (fst j) ++ [LineTo (offs w (-1) t p1)]), (b ++ snd (fst j) ++ [LineTo (offs w 1 t p1)]).
    rewrite Ef, Eb.
    cbn [app cx_output cx_forward cx_backward cx_start_pt cx_start_norm cx_start_tan cx_last_pt cx_last_tan cx_join_thresh].
    repeat split; auto.
    + rewrite app_comm_cons, app_assoc, last_end_snoc. reflexivity.
    + rewrite app_comm_cons, app_assoc, last_end_snoc. reflexivity.
    + repeat apply Forall_app_intro; auto. repeat constructor.
    + repeat apply Forall_app_intro; auto. repeat constructor.
    + rewrite app_comm_cons, <- Ef. repeat apply all_ends_app; auto. repeat constructor; cbn; auto.
    + rewrite app_comm_cons, <- Eb. repeat apply all_ends_app; auto. repeat constructor; cbn; auto.
Qed.

Definition not_close (e : PathEl R) : Prop := e <> ClosePath.

Lemma el_end_or_ok e : not_close e -> end_ok P e -> P (el_end_or e).
Proof. destruct e; unfold not_close, end_ok, el_end_or; cbn; auto. congruence. Qed.

Lemma rev_el_ends e0 e1 : not_close e0 -> end_ok P e0 -> all_ends P (rev_el e0 e1).
Proof.
  intros Hn He. pose proof (el_end_or_ok e0 Hn He) as Hp.
  destruct e1; cbn; repeat constructor; exact Hp.
Qed.

Lemma ext_rev_ends l : Forall not_close l -> all_ends P l -> all_ends P (extend_reversed l).
Proof.
  induction l as [|e0 [|e1 r] IH]; intros Hn Hp; cbn; try constructor.
  inversion Hn as [|? ? Hn0 Hn1]; inversion Hp as [|? ? Hp0 Hp1]; subst.
  apply all_ends_app; [apply IH; assumption | apply rev_el_ends; assumption].
Qed.

Lemma last_end_ok l : l <> [] -> Forall not_close l -> all_ends P l -> P (last_end l).
Proof.
  intros Hne Hn Hp. destruct (exists_last Hne) as (l' & e & ->).
  rewrite last_end_snoc. apply Forall_app in Hn, Hp. destruct Hn as [_ Hn], Hp as [_ Hp].
  inversion Hn; inversion Hp; subst. apply el_end_or_ok; assumption.
Qed.

Lemma seg_not_close e : is_seg e -> not_close e.
Proof. destruct e; cbn; unfold not_close; try contradiction; discriminate. Qed.

Lemma shape_not_close p segs : Forall (@is_seg R) segs -> Forall not_close (MoveTo p :: segs).
Proof.
  intros Hs. constructor; [discriminate|].
  eapply Forall_impl; [|exact Hs]. intros; apply seg_not_close; assumption.
Qed.

Lemma do_join_nonempty tan c : cx_forward c <> [] ->
  let j := join_els st (cx_last_pt c) (cx_last_tan c) (cx_join_thresh c) tan in
  do_join st tan c =
  mkCtx (cx_output c) (cx_forward c ++ fst (fst j)) (cx_backward c ++ snd (fst j))
        (cx_start_pt c) (cx_start_norm c) (cx_start_tan c) (cx_last_pt c) (cx_last_tan c) (cx_join_thresh c).
Proof.
  intros Hne. cbv zeta. unfold do_join.
  destruct (cx_forward c) as [|e f] eqn:Ef; [contradiction|].
  destruct (join_els st (cx_last_pt c) (cx_last_tan c) (cx_join_thresh c) tan) as [[jf jb] tag].
  reflexivity.
Qed.

Lemma end_cap_els_at c : last_end (cx_backward c) = offs w 1 (cx_last_tan c) (cx_last_pt c) ->
  end_cap_els st c = end_cap_at st (cx_last_pt c) (cx_last_tan c).
Proof. intros E. unfold end_cap_els, end_cap_at. rewrite E. reflexivity. Qed.

Lemma start_cap_els_at c : cx_start_norm c = left_norm w (cx_start_tan c) ->
  start_cap_els st c = start_cap_at st (cx_start_pt c) (cx_start_tan c).
Proof. intros E. unfold start_cap_els, start_cap_at. rewrite E. reflexivity. Qed.

Lemma finish_ginv c : GInv c ->
  all_ends P (cx_output (finish st c)) /\ cx_forward (finish st c) = [] /\ cx_backward (finish st c) = [] /\
  cx_start_pt (finish st c) = cx_start_pt c /\ cx_last_pt (finish st c) = cx_last_pt c.
Proof.
  intros [Go Glp Gsp Gs].
  destruct Gs as [(Ef & Eb & Els)|(f & b & Ef & Eb & Lf & Lb & Sn & Nst & Nlt & Sf & Sb & Pf & Pb)].
  - rewrite (finish_empty st c Ef). auto.
  - assert (Hne : cx_forward c <> []) by (rewrite Ef; discriminate).
    rewrite (finish_nonempty st c Hne). cbn. repeat split; auto.
    rewrite (end_cap_els_at c Lb), (start_cap_els_at c Sn).
    repeat apply all_ends_app; auto.
    apply ext_rev_ends; auto. rewrite Eb. apply shape_not_close; assumption.
Qed.

Lemma finish_closed_ginv c : GInv c -> cx_last_pt c = cx_start_pt c -> GInv (finish_closed st c).
Proof.
  intros Hg Els. pose proof Hg as [Go Glp Gsp Gs].
  destruct Gs as [(Ef & Eb & _)|(f & b & Ef & Eb & Lf & Lb & Sn & Nst & Nlt & Sf & Sb & Pf & Pb)].
  - rewrite (finish_closed_empty st c Ef). exact Hg.
  - assert (Hne : cx_forward c <> []) by (rewrite Ef; discriminate).
    rewrite (finish_closed_nonempty st c Hne). cbv zeta.
    rewrite (do_join_nonempty (cx_start_tan c) c Hne). cbv zeta.
    destruct (join_els_ends (cx_last_pt c) (cx_last_tan c) (cx_join_thresh c) (cx_start_tan c) Glp Nlt Nst) as [Jf Jb].
    destruct (join_els_is_segs (cx_last_pt c) (cx_last_tan c) (cx_join_thresh c) (cx_start_tan c)) as [Zf Zb].
    set (j := join_els st (cx_last_pt c) (cx_last_tan c) (cx_join_thresh c) (cx_start_tan c)) in *.
    cbn [cx_output cx_forward cx_backward cx_start_pt cx_start_norm cx_start_tan cx_last_pt cx_last_tan cx_join_thresh].
    assert (Hnc : Forall not_close (cx_backward c ++ snd (fst j))).
    { rewrite Eb. change (MoveTo (offs w 1 (cx_start_tan c) (cx_start_pt c)) :: b) with ([MoveTo (offs w 1 (cx_start_tan c) (cx_start_pt c))] ++ b).
      rewrite <- app_assoc. apply shape_not_close. apply Forall_app_intro; assumption. }
    assert (Hpb : all_ends P (cx_backward c ++ snd (fst j))) by (apply all_ends_app; assumption).
    constructor; cbn [cx_output cx_forward cx_backward cx_start_pt cx_start_norm cx_start_tan cx_last_pt cx_last_tan]; auto.
    + repeat apply all_ends_app; auto.
      * repeat constructor.
      * constructor; [|constructor]. unfold end_ok; cbn.
        apply last_end_ok; auto. rewrite Eb; discriminate.
      * apply ext_rev_ends; assumption.
      * repeat constructor.
    + left. auto.
Qed.

(** one element: MoveTo / LineTo / ClosePath whose point belongs to [V] *)
Lemma stroke_step_ginv c e c' : GInv c -> (forall p, In p (el_pts e) -> In p V) ->
  stroke_step st c e = Some c' -> GInv c'.
Proof.
  intros Hg Hin. unfold stroke_step. destruct e; try discriminate.
  - intros [= <-]. destruct (finish_ginv c Hg) as (Ho & Ef & Eb & _ & _).
    assert (In p V) by (apply Hin; cbn; auto).
    constructor; cbn; auto. left. auto.
  - destruct (pt_neb p (cx_last_pt c)) eqn:En; intros [= <-]; [|exact Hg].
    apply line_step_ginv; auto. + apply Hin; cbn; auto. + apply pt_neb_vnonzero; exact En.
  - intros [= <-]. pose proof Hg as [Go Glp Gsp Gs].
    destruct (pt_neb (cx_last_pt c) (cx_start_pt c)) eqn:En.
    + assert (Hn : vnonzero (pt_sub (cx_start_pt c) (cx_last_pt c))) by (apply pt_neb_vnonzero_sym; exact En).
      destruct (line_step_ginv (pt_sub (cx_start_pt c) (cx_last_pt c)) (cx_start_pt c) c Hg Gsp eq_refl Hn) as [Hg1 _].
      apply finish_closed_ginv; [exact Hg1|].
      unfold line_step, do_line. cbn.
      unfold do_join. destruct (cx_forward c); [reflexivity|].
      destruct (join_els _ _ _ _ _) as [[? ?] ?]. reflexivity.
    + apply finish_closed_ginv; [exact Hg|]. apply pt_neb_false_eq; exact En.
Qed.

Lemma stroke_loop_ginv els : forall c c', GInv c -> (forall e p, In e els -> In p (el_pts e) -> In p V) ->
  stroke_loop st c els = Some c' -> GInv c'.
Proof.
  induction els as [|e r IH]; cbn; intros c c' Hg Hin.
  - intros [= <-]; exact Hg.
  - destruct (stroke_step st c e) as [c1|] eqn:E1; [|discriminate].
    intros Hl. apply (IH c1 c'); [|intros; eapply Hin; eauto|exact Hl].
    eapply stroke_step_ginv; eauto.
Qed.

Lemma ctx_init_ginv tol : In pt_origin V -> GInv (ctx_init st tol).
Proof. intros Ho. constructor; cbn; auto. constructor. left. auto. Qed.

(** every end point of the outline satisfies [P] *)
Lemma stroke_all_ends els tol out : In pt_origin V ->
  (forall e p, In e els -> In p (el_pts e) -> In p V) ->
  stroke_undashed els st tol = Some out -> all_ends P out.
Proof.
  intros Ho Hin. unfold stroke_undashed.
  destruct (stroke_loop st (ctx_init st tol) els) as [c|] eqn:El; [|discriminate].
  intros [= <-].
  pose proof (stroke_loop_ginv els _ _ (ctx_init_ginv tol Ho) Hin El) as Hg.
  apply (finish_ginv c Hg).
Qed.
End GInv.

(** ** caps *)
Ltac pts_eq :=
  repeat match goal with
  | |- @eq (list _) (_ :: _) (_ :: _) => f_equal
  | |- @eq (PathEl _) (LineTo _) (LineTo _) => f_equal
  | |- @eq (PathEl _) (MoveTo _) (MoveTo _) => f_equal
  | |- @eq (Point _) (mkPoint _ _) (mkPoint _ _) => f_equal
  end.

Lemma square_cap_end w t c :
  square_cap_els false c (pt_sub c (offs w 1 t c)) =
  [LineTo (along (w / 2) t (offs w (-1) t c)); LineTo (along (w / 2) t (offs w 1 t c)); LineTo (offs w 1 t c)].
Proof.
  destruct t as [tx ty], c as [x y].
  unfold square_cap_els. cbv [app].
  sk_unfold. set (l := sqrt (tx * tx + ty * ty)).
  pts_eq; unfold Rdiv; ring.
Qed.

Lemma square_cap_start w t c :
  square_cap_els true c (left_norm w t) =
  [LineTo (along (- (w / 2)) t (offs w 1 t c)); LineTo (along (- (w / 2)) t (offs w (-1) t c)); ClosePath].
Proof.
  destruct t as [tx ty], c as [x y].
  unfold square_cap_els. cbv [app].
  sk_unfold. set (l := sqrt (tx * tx + ty * ty)).
  pts_eq; unfold Rdiv; ring.
Qed.

(** ** every outline vertex is within the style's reach of a source vertex (bevel / miter joins, butt / square caps) *)
Lemma reach2_ge_half st : (sk_width st / 2) * (sk_width st / 2) <= reach2 st.
Proof.
  unfold reach2. cbv zeta. set (k := sk_width st / 2).
  match goal with |- _ <= _ * Rmax 1 ?m => pose proof (Rmax_l 1 m); set (mm := Rmax 1 m) in * end.
  assert (0 <= k * k) by nra. nra.
Qed.

Lemma reach2_ge_miter st : sk_join st = JoinMiter ->
  (sk_width st / 2) * (sk_width st / 2) * (sk_miter_limit st * sk_miter_limit st) <= reach2 st.
Proof.
  intros Hj. unfold reach2. cbv zeta. rewrite Hj. set (k := sk_width st / 2).
  match goal with |- _ <= _ * Rmax 1 (Rmax ?a ?b) =>
    pose proof (Rmax_r 1 (Rmax a b)); pose proof (Rmax_l a b); set (mm := Rmax 1 (Rmax a b)) in *; set (m2 := Rmax a b) in * end.
  assert (0 <= k * k) by nra. nra.
Qed.

Lemma reach2_ge_square st : is_square (sk_start_cap st) || is_square (sk_end_cap st) = true ->
  2 * ((sk_width st / 2) * (sk_width st / 2)) <= reach2 st.
Proof.
  intros Hs. unfold reach2. cbv zeta. rewrite Hs. set (k := sk_width st / 2).
  match goal with |- _ <= _ * Rmax 1 (Rmax ?a ?b) =>
    pose proof (Rmax_r 1 (Rmax a b)); pose proof (Rmax_r a b); set (mm := Rmax 1 (Rmax a b)) in *; set (m2 := Rmax a b) in * end.
  assert (0 <= k * k) by nra. nra.
Qed.

Lemma dist2_self p : dist2 p p = 0.
Proof. unfold dist2. ring. Qed.

Section Radius.
Variable st : StrokeStyle R.
Variable V : list (Point R).
Hypothesis Hw : 0 < sk_width st.
Let w := sk_width st.
Let r2 := reach2 st.

Lemma near_offs p t s : In p V -> vnonzero t -> s = 1 \/ s = -1 -> near V r2 (offs w s t p).
Proof.
  intros Hin Hn Hs. exists p. split; [exact Hin|].
  rewrite offs_dist; [apply reach2_ge_half | exact Hn | destruct Hs; subst; ring].
Qed.

Lemma near_self p : In p V -> near V r2 p.
Proof.
  intros Hin. exists p. split; [exact Hin|]. rewrite dist2_self.
  pose proof (reach2_ge_half st). unfold r2. nra.
Qed.

Lemma near_miter p0 ab cd s : In p0 V -> vnonzero ab -> vnonzero cd -> rcross ab cd <> 0 -> s = 1 \/ s = -1 ->
  sk_join st = JoinMiter ->
  2 * sqrt (rcross ab cd * rcross ab cd + rdot ab cd * rdot ab cd) <
  (sqrt (rcross ab cd * rcross ab cd + rdot ab cd * rdot ab cd) + rdot ab cd) * (sk_miter_limit st * sk_miter_limit st) ->
  near V r2 (miter_pt w s p0 ab cd).
Proof.
  intros Hin Ha Hc HX Hs Hj Hlim. rewrite hyp_is_product in Hlim.
  exists p0. split; [exact Hin|].
  assert (Hss : s * s = 1) by (destruct Hs; subst; ring).
  destruct (miter_within_limit w s p0 ab cd (sk_miter_limit st) Ha Hc HX Hss Hlim) as [Hd|Hd].
  - pose proof (reach2_ge_miter st Hj). unfold r2, w in *. lra.
  - unfold w in Hd. lra.
Qed.

Lemma radius_join p0 ab cd : sk_join st <> JoinRound -> In p0 V -> vnonzero ab -> vnonzero cd ->
  all_ends (near V r2) (fst (fst (join_core st p0 ab cd))) /\ all_ends (near V r2) (snd (fst (join_core st p0 ab cd))).
Proof.
  intros Hj Hin Ha Hc. unfold join_core. cbv zeta. fold w.
  destruct (sk_join st) eqn:Ej; [| |congruence].
  - cbn [fst snd]. split; repeat constructor; unfold end_ok; cbn; apply near_offs; auto.
  - destruct (Rltb_spec (2 * sqrt (rcross ab cd * rcross ab cd + rdot ab cd * rdot ab cd))
                        ((sqrt (rcross ab cd * rcross ab cd + rdot ab cd * rdot ab cd) + rdot ab cd) *
                         (sk_miter_limit st * sk_miter_limit st))) as [Hlim|Hlim].
    + destruct (Rltb_spec 0 (rcross ab cd)) as [Hx|Hx]; [|destruct (Rltb_spec (rcross ab cd) 0) as [Hx'|Hx']];
        cbn [fst snd]; split; repeat constructor; unfold end_ok; cbn;
        try (apply near_offs; auto); apply near_miter; auto; lra.
    + cbn [fst snd]. split; repeat constructor; unfold end_ok; cbn; apply near_offs; auto.
Qed.

Lemma radius_endcap p t : sk_end_cap st <> CapRound -> In p V -> vnonzero t -> all_ends (near V r2) (end_cap_at st p t).
Proof.
  intros Hc Hin Hn. unfold end_cap_at. fold w. destruct (sk_end_cap st) eqn:Ec; [| |congruence].
  - repeat constructor. unfold end_ok; cbn. apply near_offs; auto.
  - rewrite square_cap_end.
    assert (Hsq : 2 * ((w / 2) * (w / 2)) <= r2).
    { apply reach2_ge_square. rewrite Ec. cbn. apply orb_true_r. }
    repeat constructor; unfold end_ok; cbn; try (apply near_offs; auto);
      exists p; (split; [exact Hin|]); rewrite along_offs_dist; auto; try ring; lra.
Qed.

Lemma radius_startcap p t : sk_start_cap st <> CapRound -> In p V -> vnonzero t -> all_ends (near V r2) (start_cap_at st p t).
Proof.
  intros Hc Hin Hn. unfold start_cap_at. fold w. destruct (sk_start_cap st) eqn:Ec; [| |congruence].
  - repeat constructor.
  - rewrite square_cap_start.
    assert (Hsq : 2 * ((w / 2) * (w / 2)) <= r2).
    { apply reach2_ge_square. rewrite Ec. reflexivity. }
    repeat constructor; unfold end_ok; cbn;
      exists p; (split; [exact Hin|]); rewrite along_offs_dist; auto; try ring; lra.
Qed.
End Radius.

Theorem outline_within_radius st els tol out :
  0 < sk_width st -> sk_join st <> JoinRound -> sk_start_cap st <> CapRound -> sk_end_cap st <> CapRound ->
  stroke_undashed els st tol = Some out ->
  all_ends (near (pt_origin :: flat_map (@el_pts R) els) (reach2 st)) out.
Proof.
  intros Hw Hj Hsc Hec Hs.
  set (V := pt_origin :: flat_map (@el_pts R) els).
  apply (stroke_all_ends st (near V (reach2 st)) V) with (els := els) (tol := tol); auto.
  - intros; apply near_offs; auto.
  - intros; apply near_self; auto.
  - intros; apply radius_join; auto.
  - intros; apply radius_endcap; auto.
  - intros; apply radius_startcap; auto.
  - left; reflexivity.
  - intros e p He Hp. right. apply in_flat_map. exists e. split; assumption.
Qed.

(** ** the forward and backward paths of a polyline are the -/+ offsets of its edges, joined by [join_els] *)
Section Sides.
Variable st : StrokeStyle R.
Let w := sk_width st.

Lemma pt_sub_vec (p q : Point R) : pt_sub p q = vec q p.
Proof. reflexivity. Qed.

Lemma lines_nonempty ps : forall c, cx_forward c <> [] ->
  stroke_loop st c (map (@LineTo R) ps) =
  Some (mkCtx (cx_output c)
              (cx_forward c ++ side_rest st (cx_join_thresh c) false (cx_last_pt c) (cx_last_tan c) ps)
              (cx_backward c ++ side_rest st (cx_join_thresh c) true (cx_last_pt c) (cx_last_tan c) ps)
              (cx_start_pt c) (cx_start_norm c) (cx_start_tan c)
              (fst (last_state (cx_last_pt c) (cx_last_tan c) ps))
              (snd (last_state (cx_last_pt c) (cx_last_tan c) ps)) (cx_join_thresh c)).
Proof.
  induction ps as [|p r IH]; intros c Hne.
  - cbn. rewrite !app_nil_r. destruct c; reflexivity.
  - cbn [map stroke_loop stroke_step side_rest last_state].
    destruct (pt_neb p (cx_last_pt c)) eqn:En.
    + rewrite pt_sub_vec, (line_step_nonempty st _ p c Hne). cbv zeta.
      rewrite IH by (cbn; intros E; apply app_eq_nil in E; destruct E; contradiction).
      cbn [cx_output cx_forward cx_backward cx_start_pt cx_start_norm cx_start_tan cx_last_pt cx_last_tan cx_join_thresh].
      unfold side_join, sgn. fold w. rewrite <- !app_assoc. reflexivity.
    + apply IH; exact Hne.
Qed.

Lemma lines_empty ps : forall c, cx_forward c = [] -> cx_backward c = [] ->
  stroke_loop st c (map (@LineTo R) ps) =
  Some (match first_edge (cx_last_pt c) ps with
        | None => c
        | Some (p1, r) =>
            let t := vec (cx_last_pt c) p1 in
            mkCtx (cx_output c)
                  (side_path st (cx_join_thresh c) false (cx_last_pt c) ps)
                  (side_path st (cx_join_thresh c) true (cx_last_pt c) ps)
                  (cx_start_pt c) (left_norm w t) t
                  (fst (last_state p1 t r)) (snd (last_state p1 t r)) (cx_join_thresh c)
        end).
Proof.
  induction ps as [|p r IH]; intros c Ef Eb.
  - reflexivity.
  - cbn [map stroke_loop stroke_step side_path first_edge].
    destruct (pt_neb p (cx_last_pt c)) eqn:En.
    + rewrite pt_sub_vec, (line_step_empty st _ p c Ef Eb). fold w.
      rewrite lines_nonempty by (cbn; discriminate).
      cbn [cx_output cx_forward cx_backward cx_start_pt cx_start_norm cx_start_tan cx_last_pt cx_last_tan cx_join_thresh app].
      unfold sgn. reflexivity.
    + apply IH; assumption.
Qed.

Lemma last_end_side_rest th side ps : forall lp lt pre,
  last_end pre = offs w (sgn side) lt lp ->
  last_end (pre ++ side_rest st th side lp lt ps) =
  offs w (sgn side) (snd (last_state lp lt ps)) (fst (last_state lp lt ps)).
Proof.
  induction ps as [|p r IH]; intros lp lt pre Hl.
  - cbn. rewrite app_nil_r. exact Hl.
  - cbn [side_rest last_state]. destruct (pt_neb p lp).
    + set (q := offs (sk_width st) (sgn side) (vec lp p) p).
      replace (pre ++ side_join st side lp lt th (vec lp p) ++ LineTo q :: side_rest st th side p (vec lp p) r)
        with ((pre ++ side_join st side lp lt th (vec lp p) ++ [LineTo q]) ++ side_rest st th side p (vec lp p) r)
        by (rewrite <- !app_assoc; reflexivity).
      apply IH. rewrite !app_assoc, last_end_snoc. reflexivity.
    + apply IH; exact Hl.
Qed.

Lemma last_end_side_path th side p0 ps p1 r : first_edge p0 ps = Some (p1, r) ->
  last_end (side_path st th side p0 ps) =
  offs w (sgn side) (snd (last_state p1 (vec p0 p1) r)) (fst (last_state p1 (vec p0 p1) r)).
Proof.
  induction ps as [|p q IH]; cbn [first_edge side_path]; [discriminate|].
  destruct (pt_neb p p0).
  - intros [= <- <-].
    change (MoveTo (offs (sk_width st) (sgn side) (vec p0 p) p0)
            :: LineTo (offs (sk_width st) (sgn side) (vec p0 p) p) :: side_rest st th side p (vec p0 p) q)
      with ([MoveTo (offs (sk_width st) (sgn side) (vec p0 p) p0); LineTo (offs (sk_width st) (sgn side) (vec p0 p) p)]
            ++ side_rest st th side p (vec p0 p) q).
    apply last_end_side_rest. reflexivity.
  - exact IH.
Qed.

Lemma side_path_nonempty th side p0 ps p1 r : first_edge p0 ps = Some (p1, r) -> side_path st th side p0 ps <> [].
Proof.
  induction ps as [|p q IH]; cbn [first_edge side_path]; [discriminate|].
  destruct (pt_neb p p0); [discriminate | exact IH].
Qed.

Lemma side_path_none th side p0 ps : first_edge p0 ps = None -> side_path st th side p0 ps = [].
Proof.
  induction ps as [|p q IH]; cbn [first_edge side_path]; [reflexivity|].
  destruct (pt_neb p p0); [discriminate | exact IH].
Qed.

Lemma stroke_loop_app (a b : list (PathEl R)) : forall c,
  stroke_loop st c (a ++ b) = match stroke_loop st c a with Some c' => stroke_loop st c' b | None => None end.
Proof.
  induction a as [|e a IH]; intros c; cbn; [reflexivity|].
  destruct (stroke_step st c e); [apply IH | reflexivity].
Qed.

(** the state after [MoveTo p0] at the very beginning *)
Definition ctx_at (tol : R) (p0 : Point R) : StrokeCtx R :=
  mkCtx [] [] [] p0 v_zero v_zero p0 v_zero (2 * tol / w).

Lemma after_first_move tol p0 : stroke_step st (ctx_init st tol) (MoveTo p0) = Some (ctx_at tol p0).
Proof. reflexivity. Qed.

(** the state after the lines of a polyline that starts with MoveTo *)
Definition polyline_ctx (tol : R) (p0 : Point R) (ps : list (Point R)) : StrokeCtx R :=
  match first_edge p0 ps with
  | None => ctx_at tol p0
  | Some (p1, r) =>
      let t := vec p0 p1 in
      mkCtx [] (side_path st (2 * tol / w) false p0 ps) (side_path st (2 * tol / w) true p0 ps)
            p0 (left_norm w t) t (fst (last_state p1 t r)) (snd (last_state p1 t r)) (2 * tol / w)
  end.

Lemma polyline_loop tol p0 ps :
  stroke_loop st (ctx_init st tol) (MoveTo p0 :: map (@LineTo R) ps) = Some (polyline_ctx tol p0 ps).
Proof.
  cbn [stroke_loop]. rewrite after_first_move.
  rewrite lines_empty by reflexivity. unfold polyline_ctx. cbn [ctx_at cx_last_pt].
  destruct (first_edge p0 ps) as [[p1 r]|]; reflexivity.
Qed.

(** offset_sides: the forward path is the -w/2 offset, the backward path the +w/2 offset, of every edge,
    on the same side for the whole sub-path *)
Theorem offset_sides_thm tol p0 ps c :
  stroke_loop st (ctx_init st tol) (MoveTo p0 :: map (@LineTo R) ps) = Some c ->
  cx_forward c = side_path st (2 * tol / w) false p0 ps /\
  cx_backward c = side_path st (2 * tol / w) true p0 ps /\ cx_output c = [].
Proof.
  rewrite polyline_loop. intros [= <-]. unfold polyline_ctx.
  destruct (first_edge p0 ps) as [[p1 r]|] eqn:E; cbn; auto.
  rewrite !side_path_none by exact E. auto.
Qed.

(** the whole outline of an open polyline: one contour *)
Theorem open_polyline_outline_thm tol p0 ps :
  stroke_undashed (MoveTo p0 :: map (@LineTo R) ps) st tol =
  Some (match first_edge p0 ps with
        | None => []
        | Some (p1, r) =>
            let t1 := vec p0 p1 in
            let lp := fst (last_state p1 t1 r) in
            let lt := snd (last_state p1 t1 r) in
            side_path st (2 * tol / w) false p0 ps ++ end_cap_at st lp lt ++
            extend_reversed (side_path st (2 * tol / w) true p0 ps) ++ start_cap_at st p0 t1
        end).
Proof.
  unfold stroke_undashed. rewrite polyline_loop. unfold polyline_ctx.
  destruct (first_edge p0 ps) as [[p1 r]|] eqn:E.
  - cbv zeta. rewrite finish_nonempty by (cbn; eapply side_path_nonempty; eauto).
    cbn [cx_output cx_forward cx_backward app].
    rewrite end_cap_els_at, start_cap_els_at; cbn [cx_backward cx_last_pt cx_last_tan cx_start_pt cx_start_tan cx_start_norm]; try reflexivity.
    apply (last_end_side_path _ true _ _ _ _ E).
  - reflexivity.
Qed.

(** the whole outline of a closed polyline: two contours *)
Theorem closed_polyline_outline_thm tol p0 ps :
  stroke_undashed (MoveTo p0 :: map (@LineTo R) ps ++ [ClosePath]) st tol =
  Some (match first_edge p0 (ps ++ [p0]) with
        | None => []
        | Some (p1, r) =>
            let th := 2 * tol / w in
            let t1 := vec p0 p1 in
            let lp := fst (last_state p1 t1 r) in
            let lt := snd (last_state p1 t1 r) in
            let fwd := side_path st th false p0 (ps ++ [p0]) ++ side_join st false lp lt th t1 in
            let bwd := side_path st th true p0 (ps ++ [p0]) ++ side_join st true lp lt th t1 in
            fwd ++ [ClosePath] ++ [MoveTo (last_end bwd)] ++ extend_reversed bwd ++ [ClosePath]
        end).
Proof.
  assert (Hloop : stroke_loop st (ctx_init st tol) (MoveTo p0 :: map (@LineTo R) ps ++ [ClosePath]) =
                  Some (finish_closed st (polyline_ctx tol p0 (ps ++ [p0])))).
  { change (MoveTo p0 :: map (@LineTo R) ps ++ [ClosePath]) with ((MoveTo p0 :: map (@LineTo R) ps) ++ [ClosePath]).
    rewrite stroke_loop_app, polyline_loop. cbn [stroke_loop stroke_step].
    f_equal. f_equal.
    (* ClosePath behaves as LineTo start_pt *)
    assert (Hsp : cx_start_pt (polyline_ctx tol p0 ps) = p0).
    { unfold polyline_ctx. destruct (first_edge p0 ps) as [[? ?]|]; reflexivity. }
    rewrite Hsp.
    pose proof (polyline_loop tol p0 (ps ++ [p0])) as H1.
    change (MoveTo p0 :: map (@LineTo R) (ps ++ [p0])) with ((MoveTo p0 :: map (@LineTo R) (ps ++ [p0]))) in H1.
    rewrite map_app in H1. cbn [map] in H1.
    change (MoveTo p0 :: map (@LineTo R) ps ++ [LineTo p0]) with ((MoveTo p0 :: map (@LineTo R) ps) ++ [LineTo p0]) in H1.
    rewrite stroke_loop_app, polyline_loop in H1. cbn [stroke_loop stroke_step] in H1.
    rewrite (pt_neb_sym p0) in H1.
    destruct (pt_neb (cx_last_pt (polyline_ctx tol p0 ps)) p0) eqn:En; injection H1 as H1; exact H1. }
  unfold stroke_undashed. rewrite Hloop. unfold polyline_ctx.
  destruct (first_edge p0 (ps ++ [p0])) as [[p1 r]|] eqn:E.
  - cbv zeta.
    rewrite finish_closed_nonempty by (cbn; eapply side_path_nonempty; eauto). cbv zeta.
    rewrite do_join_nonempty by (cbn; eapply side_path_nonempty; eauto). cbv zeta.
    cbn [cx_output cx_forward cx_backward cx_start_pt cx_start_norm cx_start_tan cx_last_pt cx_last_tan cx_join_thresh app].
    rewrite finish_empty by reflexivity. cbn [cx_output]. unfold side_join. reflexivity.
  - rewrite finish_closed_empty by reflexivity. reflexivity.
Qed.
End Sides.

(** ** a single segment *)
Lemma pt_neb_of_neq (p q : Point R) : p <> q -> pt_neb p q = true.
Proof.
  intros Hn. destruct (pt_neb p q) eqn:E; [reflexivity|]. apply pt_neb_false_eq in E. contradiction.
Qed.

Lemma vec_nonzero (p q : Point R) : p <> q -> vnonzero (vec p q).
Proof.
  intros Hn. destruct p as [x y], q as [u v]. unfold vnonzero, vec; cbn.
  destruct (Req_dec u x) as [->|]; [|left; lra]. destruct (Req_dec v y) as [->|]; [|right; lra].
  exfalso; apply Hn; reflexivity.
Qed.

Theorem single_segment_butt_exact_thm st tol p0 p1 :
  p1 <> p0 -> sk_start_cap st = CapButt -> sk_end_cap st = CapButt ->
  let t := vec p0 p1 in let w := sk_width st in
  stroke_undashed [MoveTo p0; LineTo p1] st tol =
  Some [MoveTo (offs w (-1) t p0); LineTo (offs w (-1) t p1); LineTo (offs w 1 t p1); LineTo (offs w 1 t p0); ClosePath].
Proof.
  intros Hn Hs He. cbv zeta.
  change [MoveTo p0; LineTo p1] with (MoveTo p0 :: map (@LineTo R) [p1]).
  rewrite open_polyline_outline_thm. cbn [first_edge]. rewrite (pt_neb_of_neq p1 p0 Hn).
  cbv zeta. cbn [last_state fst snd side_path side_rest]. rewrite (pt_neb_of_neq p1 p0 Hn).
  unfold end_cap_at, start_cap_at. rewrite Hs, He. reflexivity.
Qed.

Theorem single_segment_square_exact_thm st tol p0 p1 :
  p1 <> p0 -> sk_start_cap st = CapSquare -> sk_end_cap st = CapSquare ->
  let t := vec p0 p1 in let w := sk_width st in
  stroke_undashed [MoveTo p0; LineTo p1] st tol =
  Some [MoveTo (offs w (-1) t p0); LineTo (offs w (-1) t p1);
        LineTo (along (w / 2) t (offs w (-1) t p1)); LineTo (along (w / 2) t (offs w 1 t p1)); LineTo (offs w 1 t p1);
        LineTo (offs w 1 t p0);
        LineTo (along (- (w / 2)) t (offs w 1 t p0)); LineTo (along (- (w / 2)) t (offs w (-1) t p0)); ClosePath].
Proof.
  intros Hn Hs He. cbv zeta.
  change [MoveTo p0; LineTo p1] with (MoveTo p0 :: map (@LineTo R) [p1]).
  rewrite open_polyline_outline_thm. cbn [first_edge]. rewrite (pt_neb_of_neq p1 p0 Hn).
  cbv zeta. cbn [last_state fst snd side_path side_rest]. rewrite (pt_neb_of_neq p1 p0 Hn).
  unfold end_cap_at, start_cap_at. rewrite Hs, He. rewrite square_cap_end, square_cap_start. reflexivity.
Qed.

(** the butt rectangle is traversed with positive orientation: twice its signed area is 2 * width * length *)
Lemma single_segment_orientation w t p0 p1 : t = vec p0 p1 -> vnonzero t ->
  shoelace2 [offs w (-1) t p0; offs w (-1) t p1; offs w 1 t p1; offs w 1 t p0] = 2 * (w * vlen t).
Proof.
  intros Ht Hn. pose proof (vlen_pos t Hn) as Hl. pose proof (vlen_sq t) as Hq. subst t.
  destruct p0 as [x y], p1 as [u v]. unfold shoelace2, shoelace_from, offs, vec in *. cbn [px py vx vy] in *.
  set (l := vlen _) in *.
  match goal with |- ?lhs = _ =>
    replace lhs with (2 * w * (((u - x) * (u - x) + (v - y) * (v - y)) / l)) by (field; lra)
  end.
  rewrite <- Hq. field. lra.
Qed.

(** ** joins: threshold, outer side, miter point *)
Lemma Rltb_t a b : a < b -> Rltb a b = true. Proof. apply Rltb_true. Qed.
Lemma Rltb_f a b : b <= a -> Rltb a b = false. Proof. apply Rltb_false. Qed.
Lemma Rleb_t a b : a <= b -> Rleb a b = true. Proof. apply Rleb_true. Qed.
Lemma Rleb_f a b : b < a -> Rleb a b = false. Proof. apply Rleb_false. Qed.

Section Joins.
Variable st : StrokeStyle R.
Variables (p0 : Point R) (ab cd : Vec2 R) (th : R).
Let w := sk_width st.
Let X := rcross ab cd.
Let D := rdot ab cd.
Let Hy := sqrt (X * X + D * D).
Let j := join_els st p0 ab th cd.

(** nothing is added when the turn is below the join threshold *)
Theorem join_skipped_thm : 0 < D -> Rabs X < Hy * th -> j = ([], [], 0%Z).
Proof.
  intros HD HX. unfold j. rewrite join_els_spec. cbv zeta. fold X D Hy.
  rewrite (Rleb_f D 0 HD), (Rleb_f _ _ HX). reflexivity.
Qed.


Lemma emitted_test : emitted ab cd th -> Rleb D 0 || Rleb (Hy * th) (Rabs X) = true.
Proof. unfold emitted. fold X D Hy. intros [H|H]; [rewrite (Rleb_t _ _ H); reflexivity | rewrite (Rleb_t _ _ H); apply orb_true_r]. Qed.

Lemma join_emitted : emitted ab cd th ->
  j = (piv_f st p0 X ++ fst (fst (join_core st p0 ab cd)), piv_b st p0 X ++ snd (fst (join_core st p0 ab cd)),
       snd (join_core st p0 ab cd)).
Proof. intros He. unfold j. rewrite join_els_spec. cbv zeta. fold X D Hy. rewrite (emitted_test He). reflexivity. Qed.

(** bevel: one line to the new offset point on each side (after the pivot on the inner side, if enabled) *)
Theorem bevel_join_thm : emitted ab cd th -> sk_join st = JoinBevel ->
  fst (fst j) = piv_f st p0 X ++ [LineTo (offs w (-1) cd p0)] /\
  snd (fst j) = piv_b st p0 X ++ [LineTo (offs w 1 cd p0)].
Proof. intros He Hj. rewrite (join_emitted He). unfold join_core. rewrite Hj. cbn [fst snd]. auto. Qed.

(** miter, left turn: the miter point goes to the forward path (outer side), it lies on both forward offset
    lines and within miter_limit * w/2 of the vertex; the backward path gets the plain line *)
Theorem miter_left_thm : emitted ab cd th -> sk_join st = JoinMiter -> vnonzero ab -> vnonzero cd -> 0 < w ->
  2 * Hy < (Hy + D) * (sk_miter_limit st * sk_miter_limit st) -> 0 < X ->
  let M := miter_pt w (-1) p0 ab cd in
  fst (fst j) = [LineTo M; LineTo (offs w (-1) cd p0)] /\
  snd (fst j) = piv_b st p0 X ++ [LineTo (offs w 1 cd p0)] /\
  rcross ab (vec (offs w (-1) ab p0) M) = 0 /\ rcross cd (vec (offs w (-1) cd p0) M) = 0 /\
  dist2 M p0 < (w / 2) * (w / 2) * (sk_miter_limit st * sk_miter_limit st).
Proof.
  intros He Hj Ha Hc Hw Hlim HX. cbv zeta.
  rewrite (join_emitted He). unfold join_core. rewrite Hj. cbv zeta. fold X D Hy w.
  rewrite (Rltb_t _ _ Hlim), (Rltb_t _ _ HX). cbn [fst snd].
  assert (Hx0 : rcross ab cd <> 0) by (fold X; lra).
  destruct (miter_on_lines w (-1) p0 ab cd Ha Hc Hx0) as [L1 L2].
  repeat split; auto.
  - unfold piv_f. rewrite (Rltb_t _ _ HX). destruct (sk_inner_pivot st); reflexivity.
  - unfold Hy, X, D in Hlim. rewrite hyp_is_product in Hlim.
    destruct (miter_within_limit w (-1) p0 ab cd (sk_miter_limit st) Ha Hc Hx0 ltac:(ring) Hlim); [assumption|lra].
Qed.

(** miter, right turn: mirrored — the miter point goes to the backward path *)
Theorem miter_right_thm : emitted ab cd th -> sk_join st = JoinMiter -> vnonzero ab -> vnonzero cd -> 0 < w ->
  2 * Hy < (Hy + D) * (sk_miter_limit st * sk_miter_limit st) -> X < 0 ->
  let M := miter_pt w 1 p0 ab cd in
  fst (fst j) = piv_f st p0 X ++ [LineTo (offs w (-1) cd p0)] /\
  snd (fst j) = [LineTo M; LineTo (offs w 1 cd p0)] /\
  rcross ab (vec (offs w 1 ab p0) M) = 0 /\ rcross cd (vec (offs w 1 cd p0) M) = 0 /\
  dist2 M p0 < (w / 2) * (w / 2) * (sk_miter_limit st * sk_miter_limit st).
Proof.
  intros He Hj Ha Hc Hw Hlim HX. cbv zeta.
  rewrite (join_emitted He). unfold join_core. rewrite Hj. cbv zeta. fold X D Hy w.
  rewrite (Rltb_t _ _ Hlim), (Rltb_f 0 X ltac:(lra)), (Rltb_t _ _ HX). cbn [fst snd].
  assert (Hx0 : rcross ab cd <> 0) by (fold X; lra).
  destruct (miter_on_lines w 1 p0 ab cd Ha Hc Hx0) as [L1 L2].
  repeat split; auto.
  - unfold piv_b. rewrite (Rltb_f 0 X ltac:(lra)). destruct (sk_inner_pivot st); reflexivity.
  - unfold Hy, X, D in Hlim. rewrite hyp_is_product in Hlim.
    destruct (miter_within_limit w 1 p0 ab cd (sk_miter_limit st) Ha Hc Hx0 ltac:(ring) Hlim); [assumption|lra].
Qed.

(** miter beyond the limit (or a straight/reversing turn): bevel *)
Theorem miter_fallback_thm : emitted ab cd th -> sk_join st = JoinMiter ->
  ~ (2 * Hy < (Hy + D) * (sk_miter_limit st * sk_miter_limit st)) \/ X = 0 ->
  fst (fst j) = piv_f st p0 X ++ [LineTo (offs w (-1) cd p0)] /\
  snd (fst j) = piv_b st p0 X ++ [LineTo (offs w 1 cd p0)].
Proof.
  intros He Hj Hc. rewrite (join_emitted He). unfold join_core. rewrite Hj. cbv zeta. fold X D Hy w.
  destruct (Rltb_spec (2 * Hy) ((Hy + D) * (sk_miter_limit st * sk_miter_limit st))) as [Hl|Hl].
  - destruct Hc as [Hc|Hc]; [contradiction|].
    rewrite (Rltb_f 0 X ltac:(lra)), (Rltb_f X 0 ltac:(lra)). cbn [fst snd]. auto.
  - cbn [fst snd]. auto.
Qed.

(** which side is outer: for a left turn (cross > 0) the new forward offset point lies ahead of the old one
    along the incoming direction (a gap to fill) and the new backward one behind it (overlap); mirrored
    for a right turn. The inner-side pivot, when enabled, goes to the other side than the miter point. *)
Theorem join_outer_side_thm : vnonzero ab -> vnonzero cd -> 0 < w ->
  (0 < X ->
     0 < rdot ab (vec (offs w (-1) ab p0) (offs w (-1) cd p0)) /\
     rdot ab (vec (offs w 1 ab p0) (offs w 1 cd p0)) < 0 /\
     piv_f st p0 X = [] /\ piv_b st p0 X = (if sk_inner_pivot st then [LineTo p0] else [])) /\
  (X < 0 ->
     rdot ab (vec (offs w (-1) ab p0) (offs w (-1) cd p0)) < 0 /\
     0 < rdot ab (vec (offs w 1 ab p0) (offs w 1 cd p0)) /\
     piv_b st p0 X = [] /\ piv_f st p0 X = (if sk_inner_pivot st then [LineTo p0] else [])) /\
  (X = 0 -> piv_f st p0 X = [] /\ piv_b st p0 X = []).
Proof.
  intros Ha Hc Hw. pose proof (vlen_pos cd Hc) as Lc.
  rewrite !offset_gap by assumption. fold X.
  assert (Hq : forall s, - s * (w / 2) * X / vlen cd = (- s * (w / 2) * X) * / vlen cd) by (intros; reflexivity).
  assert (Hi : 0 < / vlen cd) by (apply Rinv_0_lt_compat; exact Lc).
  set (i := / vlen cd) in *.
  split; [|split]; intros HX; unfold piv_f, piv_b.
  - rewrite (Rltb_t _ _ HX). assert (0 < (w / 2) * X * i) by (apply Rmult_lt_0_compat; nra).
    repeat split; try (rewrite Hq; nra); destruct (sk_inner_pivot st); reflexivity.
  - rewrite (Rltb_f 0 X ltac:(lra)), (Rltb_t _ _ HX).
    assert (0 < (w / 2) * (- X) * i) by (apply Rmult_lt_0_compat; nra).
    repeat split; try (rewrite Hq; nra); destruct (sk_inner_pivot st); reflexivity.
  - rewrite (Rltb_f 0 X ltac:(lra)), (Rltb_f X 0 ltac:(lra)). destruct (sk_inner_pivot st); auto.
Qed.
End Joins.

(** ** caps: where the cap points are *)
Section Caps.
Variable st : StrokeStyle R.
Let w := sk_width st.
Variables (p : Point R) (t : Vec2 R).
Hypothesis Ht : vnonzero t.
Hypothesis Hw : 0 < w.

(** butt: the end is cut straight across, from the forward offset point to the backward one, both at w/2 *)
Theorem butt_cap_thm :
  (sk_end_cap st = CapButt -> end_cap_at st p t = [LineTo (offs w 1 t p)]) /\
  (sk_start_cap st = CapButt -> start_cap_at st p t = [ClosePath]) /\
  dist2 (offs w 1 t p) p = (w / 2) * (w / 2) /\ dist2 (offs w (-1) t p) p = (w / 2) * (w / 2) /\
  rdot (vec p (offs w 1 t p)) t = 0 /\ rdot (vec p (offs w (-1) t p)) t = 0 /\
  0 < rcross t (vec p (offs w 1 t p)) /\ rcross t (vec p (offs w (-1) t p)) < 0.
Proof.
  pose proof (vlen_pos t Ht) as Hl.
  repeat split.
  - intros E. unfold end_cap_at. rewrite E. reflexivity.
  - intros E. unfold start_cap_at. rewrite E. reflexivity.
  - apply offs_dist; [exact Ht | ring].
  - apply offs_dist; [exact Ht | ring].
  - apply offs_perp; exact Ht.
  - apply offs_perp; exact Ht.
  - rewrite offs_side by exact Ht. apply Rmult_lt_0_compat; nra.
  - rewrite offs_side by exact Ht. assert (0 < (w / 2) * vlen t) by (apply Rmult_lt_0_compat; nra). nra.
Qed.

(** square, at the end of the sub-path: two corners at distance sqrt 2 * w/2 from the end point, both
    beyond it (positive component w/2 along the tangent), then back to the backward offset point *)
Theorem square_end_cap_thm : sk_end_cap st = CapSquare ->
  let q1 := along (w / 2) t (offs w (-1) t p) in
  let q2 := along (w / 2) t (offs w 1 t p) in
  end_cap_at st p t = [LineTo q1; LineTo q2; LineTo (offs w 1 t p)] /\
  dist2 q1 p = 2 * ((w / 2) * (w / 2)) /\ dist2 q2 p = 2 * ((w / 2) * (w / 2)) /\
  rdot (vec p q1) t = (w / 2) * vlen t /\ rdot (vec p q2) t = (w / 2) * vlen t /\ 0 < (w / 2) * vlen t.
Proof.
  intros E. cbv zeta. pose proof (vlen_pos t Ht) as Hl.
  repeat split.
  - unfold end_cap_at. rewrite E. apply square_cap_end.
  - rewrite along_offs_dist; [ring | exact Ht | ring].
  - rewrite along_offs_dist; [ring | exact Ht | ring].
  - rewrite along_dot, offs_perp by exact Ht. ring.
  - rewrite along_dot, offs_perp by exact Ht. ring.
  - apply Rmult_lt_0_compat; nra.
Qed.

(** square, at the start: the mirror image — both corners lie before the start point *)
Theorem square_start_cap_thm : sk_start_cap st = CapSquare ->
  let r1 := along (- (w / 2)) t (offs w 1 t p) in
  let r2 := along (- (w / 2)) t (offs w (-1) t p) in
  start_cap_at st p t = [LineTo r1; LineTo r2; ClosePath] /\
  dist2 r1 p = 2 * ((w / 2) * (w / 2)) /\ dist2 r2 p = 2 * ((w / 2) * (w / 2)) /\
  rdot (vec p r1) t = - ((w / 2) * vlen t) /\ rdot (vec p r2) t = - ((w / 2) * vlen t).
Proof.
  intros E. cbv zeta.
  repeat split.
  - unfold start_cap_at. rewrite E. apply square_cap_start.
  - rewrite along_offs_dist; [ring | exact Ht | ring].
  - rewrite along_offs_dist; [ring | exact Ht | ring].
  - rewrite along_dot, offs_perp by exact Ht. ring.
  - rewrite along_dot, offs_perp by exact Ht. ring.
Qed.
End Caps.

(** ** number of contours *)
Lemma n_contours_app {T} `{Scalar T} (a b : list (PathEl T)) : n_contours (a ++ b) = (n_contours a + n_contours b)%nat.
Proof. unfold n_contours. rewrite filter_app, app_length. reflexivity. Qed.

Lemma n_contours_segs {T} `{Scalar T} (l : list (PathEl T)) : Forall is_seg l -> n_contours l = 0%nat.
Proof.
  induction 1 as [|e l He Hl IH]; [reflexivity|].
  unfold n_contours in *. cbn. destruct e; cbn in *; try contradiction; exact IH.
Qed.

Section Count.
Variable st : StrokeStyle R.

Lemma side_join_segs side p0 ab th cd : Forall (@is_seg R) (side_join st side p0 ab th cd).
Proof. unfold side_join. destruct (join_els_segs st p0 ab th cd). destruct side; assumption. Qed.

Lemma side_rest_segs th side ps : forall lp lt, Forall (@is_seg R) (side_rest st th side lp lt ps).
Proof.
  induction ps as [|p r IH]; intros lp lt; cbn [side_rest]; [constructor|].
  destruct (pt_neb p lp); [|apply IH].
  apply Forall_app_intro; [apply side_join_segs|]. constructor; [exact I | apply IH].
Qed.

Lemma side_path_contours th side p0 ps p1 r : first_edge p0 ps = Some (p1, r) ->
  n_contours (side_path st th side p0 ps) = 1%nat.
Proof.
  induction ps as [|p q IH]; cbn [first_edge side_path]; [discriminate|].
  destruct (pt_neb p p0); [|exact IH]. intros _.
  change (MoveTo ?a :: ?l) with ([MoveTo a] ++ l). rewrite n_contours_app.
  rewrite (n_contours_segs (LineTo _ :: _)); [reflexivity|].
  constructor; [exact I | apply side_rest_segs].
Qed.

Lemma end_cap_at_segs p t : Forall (@is_seg R) (end_cap_at st p t).
Proof.
  unfold end_cap_at. destruct (sk_end_cap st);
    [repeat constructor | apply square_cap_false_segs | apply round_join_segs].
Qed.

Lemma start_cap_at_contours p t : n_contours (start_cap_at st p t) = 0%nat.
Proof.
  unfold start_cap_at. destruct (sk_start_cap st); try reflexivity.
  apply n_contours_segs. apply round_join_segs.
Qed.

Lemma first_edge_some p0 ps : (exists p, In p ps /\ p <> p0) -> exists p1 r, first_edge p0 ps = Some (p1, r).
Proof.
  induction ps as [|q ps IH]; intros (p & Hin & Hn); [destruct Hin|].
  cbn [first_edge]. destruct (pt_neb q p0) eqn:E; [eauto|].
  apply IH. destruct Hin as [<-|Hin]; [|eauto].
  apply pt_neb_false_eq in E. contradiction.
Qed.

Lemma first_edge_none p0 ps : (forall p, In p ps -> p = p0) -> first_edge p0 ps = None.
Proof.
  induction ps as [|q ps IH]; intros Hall; [reflexivity|].
  cbn [first_edge]. rewrite (Hall q (or_introl eq_refl)).
  assert (E : pt_neb p0 p0 = false).
  { unfold pt_neb, pt_eqb. destruct p0 as [x y]; cbn [px py feqb RS]. apply negb_false_iff, andb_true_iff; split; apply Reqb_true; reflexivity. }
  rewrite E. apply IH. intros; apply Hall; right; assumption.
Qed.

(** an open sub-path with at least one non-degenerate segment gives exactly one contour; none otherwise *)
Theorem open_subpath_one_contour_thm tol p0 ps out :
  stroke_undashed (MoveTo p0 :: map (@LineTo R) ps) st tol = Some out ->
  ((exists p, In p ps /\ p <> p0) -> n_contours out = 1%nat) /\
  ((forall p, In p ps -> p = p0) -> out = []).
Proof.
  rewrite open_polyline_outline_thm. intros [= <-]. split.
  - intros He. destruct (first_edge_some p0 ps He) as (p1 & r & E). rewrite E. cbv zeta.
    rewrite !n_contours_app, (side_path_contours _ false _ _ _ _ E).
    rewrite (n_contours_segs (end_cap_at _ _ _)) by apply end_cap_at_segs.
    rewrite (n_contours_segs (extend_reversed _)) by apply extend_reversed_segs.
    rewrite start_cap_at_contours. reflexivity.
  - intros Ha. rewrite (first_edge_none p0 ps Ha). reflexivity.
Qed.

(** a closed sub-path gives exactly two: the forward path closed, and the backward path reversed and closed *)
Theorem closed_subpath_two_contours_thm tol p0 ps out :
  stroke_undashed (MoveTo p0 :: map (@LineTo R) ps ++ [ClosePath]) st tol = Some out ->
  ((exists p, In p ps /\ p <> p0) -> n_contours out = 2%nat) /\
  ((forall p, In p ps -> p = p0) -> out = []).
Proof.
  rewrite closed_polyline_outline_thm. intros [= <-]. split.
  - intros (p & Hin & Hn).
    destruct (first_edge_some p0 (ps ++ [p0])) as (p1 & r & E).
    { exists p. split; [apply in_or_app; left; exact Hin | exact Hn]. }
    rewrite E. cbv zeta.
    rewrite !n_contours_app, (side_path_contours _ false _ _ _ _ E).
    match goal with |- context [join_els st ?a ?b ?c ?d] => destruct (join_els_segs st a b c d) as [Jf Jb] end.
    rewrite (n_contours_segs _ Jf).
    match goal with |- context [ClosePath :: MoveTo ?x :: ?l] =>
      change (ClosePath :: MoveTo x :: l) with ([ClosePath; MoveTo x] ++ l) end.
    rewrite !n_contours_app.
    rewrite (n_contours_segs (extend_reversed _)) by apply extend_reversed_segs.
    reflexivity.
  - intros Ha. rewrite (first_edge_none p0 (ps ++ [p0])); [reflexivity|].
    intros q Hq. apply in_app_or in Hq. destruct Hq as [Hq|[<-|[]]]; [apply Ha; exact Hq | reflexivity].
Qed.
End Count.
