(** C17: cubic-to-quadratic conversion — lemmas at the real instance (and, where no
    arithmetic law is needed, for every scalar). *)
From Coq Require Import ZArith QArith Reals List Bool Lra Lia Psatz.
From Flocq Require Import Core.Raux.
From KV Require Import Scalar RInst Geom Curves ToQuads RTac C06_proofs.
Import ListNotations.
Local Open Scope R_scope.

Ltac tq_unfold :=
  cbv [quad_of_cubic to_quads_piece to_quads_t0 to_quads_t1 to_quads_err to_quads_max_hypot2
       approx_quad_control crossing_point cubic_parameters cubic_from_parameters cubic_subdivide_3
       split_generic_piece v_div_exact v_zero pt_zero f4 f6 f8 f12 f27 f432 f1_5 f0_125
       cubic_subdivide cubic_subsegment cubic_deriv cubic_eval
       quad_raise quad_eval
       pt_lerp pt_midpoint v_lerp pt_add_v pt_sub_v pt_sub v_add v_sub s_scale_v v_scale v_neg v_div
       v_dot v_cross v_hypot2 v_hypot
       to_point to_vec2 two_thirds one_third one_sixth fquarter
       px py vx vy q0 q1 q2 c0 c1 c2 c3 fst snd] in *;
  rs_unfold; cbv [Q2R Qnum Qden] in *.

(** * to_quads: the ranges tile [0,1] *)

Section Generic.
Context {T : Type} `{Scalar T}.

Lemma to_quads_n_length (c : CubicBez T) n : length (to_quads_n c n) = n.
Proof. unfold to_quads_n. now rewrite map_length, seq_length. Qed.

Lemma to_quads_n_nth (c : CubicBez T) n i : (i < n)%nat ->
  nth_error (to_quads_n c n) i = Some (to_quads_piece c (Z.of_nat n) (Z.of_nat i)).
Proof.
  intros Hi. unfold to_quads_n.
  rewrite nth_error_map, nth_error_nth' with (d := O) by now rewrite seq_length.
  now rewrite seq_nth.
Qed.

(* consecutive ranges share their bound: it is the same expression, hence the same scalar *)
Lemma to_quads_shared_bound (c : CubicBez T) n i :
  snd (fst (to_quads_piece c n i)) = fst (fst (to_quads_piece c n (i + 1))).
Proof. reflexivity. Qed.

(* the quadratics' end points are the cubic's points at the range ends: same expression *)
Lemma to_quads_piece_endpoints (c : CubicBez T) n i :
  let '(t0, t1, q) := to_quads_piece c n i in
  q0 q = cubic_eval c t0 /\ q2 q = cubic_eval c t1.
Proof. split; reflexivity. Qed.

(* consecutive quadratics are joined: the same expression again *)
Lemma to_quads_joined (c : CubicBez T) n i :
  q2 (snd (to_quads_piece c n i)) = q0 (snd (to_quads_piece c n (i + 1))).
Proof. reflexivity. Qed.

Lemma to_quads_count_ge_1 (c : CubicBez T) a : (1 <= to_quads_count c a)%Z.
Proof. unfold to_quads_count. lia. Qed.

Lemma to_quads_length (c : CubicBez T) a : (1 <= length (to_quads c a))%nat.
Proof. unfold to_quads. rewrite to_quads_n_length. pose proof (to_quads_count_ge_1 c a). lia. Qed.

End Generic.

Lemma to_quads_range (c : CubicBez R) (n i : nat) :
  fst (fst (to_quads_piece c (Z.of_nat n) (Z.of_nat i))) = INR i / INR n /\
  snd (fst (to_quads_piece c (Z.of_nat n) (Z.of_nat i))) = INR (i + 1) / INR n.
Proof.
  cbv [to_quads_piece to_quads_t0 to_quads_t1 fst snd]. rs_unfold.
  rewrite !INR_IZR_INZ. split; [reflexivity|]. do 2 f_equal. lia.
Qed.

Lemma to_quads_first_last (c : CubicBez R) (n : nat) : (1 <= n)%nat ->
  fst (fst (to_quads_piece c (Z.of_nat n) 0)) = 0 /\
  snd (fst (to_quads_piece c (Z.of_nat n) (Z.of_nat (n - 1)))) = 1.
Proof.
  intros Hn. cbv [to_quads_piece to_quads_t0 to_quads_t1 fst snd]. rs_unfold. split.
  - unfold Rdiv. ring.
  - replace (Z.of_nat (n - 1) + 1)%Z with (Z.of_nat n) by lia.
    apply Rinv_r. apply not_0_IZR. lia.
Qed.

(** * The error of one piece *)

(* third difference of a cubic *)
Definition d3x (s : CubicBez R) : R := px (c3 s) - 3 * px (c2 s) + 3 * px (c1 s) - px (c0 s).
Definition d3y (s : CubicBez R) : R := py (c3 s) - 3 * py (c2 s) + 3 * py (c1 s) - py (c0 s).
Definition bump (t : R) : R := t * (t - / 2) * (t - 1).

Lemma to_quads_error_formula (s : CubicBez R) t :
  px (cubic_eval s t) - px (quad_eval (quad_of_cubic s) t) = d3x s * bump t /\
  py (cubic_eval s t) - py (quad_eval (quad_of_cubic s) t) = d3y s * bump t.
Proof.
  destruct s as [[x0 y0] [x1 y1] [x2 y2] [x3 y3]]. unfold d3x, d3y, bump. tq_unfold.
  split; field.
Qed.

Lemma cubic_bump_bound t : 0 <= t <= 1 -> 432 * (bump t * bump t) <= 1.
Proof.
  intros Ht.
  set (u := t - / 2).
  assert (Hu : - / 2 <= u <= / 2) by (unfold u; lra).
  assert (B : bump t = u * (u * u - / 4)) by (unfold bump, u; field).
  rewrite B. clearbody u.
  assert (E : 1 - 432 * (u * (u * u - / 4) * (u * (u * u - / 4))) = (1 - 12 * (u * u)) * (1 - 12 * (u * u)) * (1 - 3 * (u * u))) by field.
  assert (0 <= (1 - 12 * (u * u)) * (1 - 12 * (u * u))) by apply Rle_0_sqr.
  assert (0 <= 1 - 3 * (u * u)) by nra.
  assert (0 <= (1 - 12 * (u * u)) * (1 - 12 * (u * u)) * (1 - 3 * (u * u))) by (apply Rmult_le_pos; assumption).
  lra.
Qed.

(* the code's [err] is the squared length of the third difference *)
Lemma to_quads_err_d3 (c : CubicBez R) : to_quads_err c = d3x c * d3x c + d3y c * d3y c.
Proof. destruct c as [[x0 y0] [x1 y1] [x2 y2] [x3 y3]]. unfold d3x, d3y. tq_unfold. ring. Qed.

(* the third difference of a sub-segment scales with the cube of its length *)
Lemma d3_subsegment (c : CubicBez R) t0 t1 :
  d3x (cubic_subsegment c t0 t1) = (t1 - t0) * (t1 - t0) * (t1 - t0) * d3x c /\
  d3y (cubic_subsegment c t0 t1) = (t1 - t0) * (t1 - t0) * (t1 - t0) * d3y c.
Proof. destruct c as [[x0 y0] [x1 y1] [x2 y2] [x3 y3]]. unfold d3x, d3y. tq_unfold. split; field. Qed.

(** one piece whose third difference is small enough stays within [a] at corresponding parameters *)
Lemma piece_within (s : CubicBez R) a u :
  0 <= u <= 1 -> d3x s * d3x s + d3y s * d3y s <= 432 * (a * a) ->
  pt_distance_squared (cubic_eval s u) (quad_eval (quad_of_cubic s) u) <= a * a.
Proof.
  intros Hu Hd.
  destruct (to_quads_error_formula s u) as [Ex Ey].
  unfold pt_distance_squared, v_hypot2, v_dot, pt_sub. cbn [vx vy]. rs_unfold.
  rewrite Ex, Ey.
  pose proof (cubic_bump_bound u Hu) as Hb.
  set (b := bump u * bump u) in *.
  assert (0 <= b) by (unfold b; apply Rle_0_sqr).
  replace (d3x s * bump u * (d3x s * bump u) + d3y s * bump u * (d3y s * bump u))
    with ((d3x s * d3x s + d3y s * d3y s) * b) by (unfold b; ring).
  assert (0 <= d3x s * d3x s + d3y s * d3y s) by (pose proof (Rle_0_sqr (d3x s)); pose proof (Rle_0_sqr (d3y s)); unfold Rsqr in *; lra).
  assert (0 <= a * a) by apply Rle_0_sqr.
  nra.
Qed.

Lemma sqrt_le_of_sq x a : 0 <= a -> x <= a * a -> R_sqrt.sqrt x <= a.
Proof.
  intros Ha Hx. rewrite <- (sqrt_square a Ha). apply sqrt_le_1_alt. exact Hx.
Qed.

Lemma to_quads_within_accuracy_n (c : CubicBez R) a (n i : nat) u :
  (i < n)%nat -> 0 <= a -> to_quads_err c <= INR n ^ 6 * (432 * a * a) -> 0 <= u <= 1 ->
  let '(t0, t1, q) := to_quads_piece c (Z.of_nat n) (Z.of_nat i) in
  pt_distance (cubic_eval c (t0 + u * (t1 - t0))) (quad_eval q u) <= a.
Proof.
  intros Hi Ha Herr Hu.
  pose proof (to_quads_range c n i) as [E0 E1].
  unfold to_quads_piece in *. cbn [fst snd] in E0, E1.
  set (t0 := to_quads_t0 (Z.of_nat n) (Z.of_nat i)) in *.
  set (t1 := to_quads_t1 (Z.of_nat n) (Z.of_nat i)) in *.
  rewrite <- cubic_subsegment_eval.
  set (s := cubic_subsegment c t0 t1).
  change (R_sqrt.sqrt (pt_distance_squared (cubic_eval s u) (quad_eval (quad_of_cubic s) u)) <= a).
  apply sqrt_le_of_sq; [exact Ha|].
  apply piece_within; [exact Hu|].
  destruct (d3_subsegment c t0 t1) as [Dx Dy]. fold s in Dx, Dy. rewrite Dx, Dy.
  rewrite to_quads_err_d3 in Herr.
  assert (Hn : 0 < INR n) by (apply lt_0_INR; lia).
  assert (Hh : t1 - t0 = / INR n).
  { rewrite E0, E1, plus_INR. simpl INR. field. lra. }
  rewrite Hh.
  set (e := d3x c * d3x c + d3y c * d3y c) in *.
  set (h := / INR n).
  assert (Hhp : 0 < h) by (apply Rinv_0_lt_compat; exact Hn).
  replace (h * h * h * d3x c * (h * h * h * d3x c) + h * h * h * d3y c * (h * h * h * d3y c))
    with (h ^ 6 * e) by (unfold e; ring).
  assert (Hh6 : h ^ 6 * INR n ^ 6 = 1).
  { rewrite <- Rpow_mult_distr. unfold h. rewrite Rinv_l by lra. apply pow1. }
  assert (0 < h ^ 6) by (apply pow_lt; exact Hhp).
  replace (432 * (a * a)) with (h ^ 6 * (INR n ^ 6 * (432 * a * a))).
  - apply Rmult_le_compat_l; [lra | exact Herr].
  - rewrite <- Rmult_assoc, Hh6. ring.
Qed.

(** the count the code computes satisfies the bound (over the reals: [powf] is the exact
    power, [ceil] the integer ceiling, [as usize] truncation) *)
Lemma to_quads_count_enough (c : CubicBez R) a : 0 < a ->
  to_quads_err c <= IZR (to_quads_count c a) ^ 6 * (432 * a * a).
Proof.
  intros Ha.
  pose proof (to_quads_count_ge_1 c a) as H1.
  assert (Hm : 0 < 432 * a * a) by nra.
  assert (He : 0 <= to_quads_err c).
  { rewrite to_quads_err_d3. pose proof (Rle_0_sqr (d3x c)); pose proof (Rle_0_sqr (d3y c)); unfold Rsqr in *; lra. }
  destruct (Req_dec (to_quads_err c) 0) as [Z | NZ].
  { rewrite Z. apply Rmult_le_pos; [|lra]. apply pow_le. apply IZR_le. lia. }
  assert (Hx : 0 < to_quads_err c / (432 * a * a)) by (apply Rdiv_lt_0_compat; lra).
  unfold to_quads_count in *.
  set (x := (to_quads_err c / to_quads_max_hypot2 a)%S) in *.
  assert (Ex : x = to_quads_err c / (432 * a * a)) by (unfold x, to_quads_max_hypot2, f432; rs_unfold; reflexivity).
  assert (Ep : fpowf x one_sixth = Rpower x (/ 6)).
  { unfold one_sixth. rs_unfold. unfold Rpowf.
    destruct (Req_EM_T (1 / 6) 0) as [A|_]; [lra|].
    destruct (Rlt_dec 0 x) as [_|B]; [|exfalso; apply B; rewrite Ex; exact Hx].
    f_equal. lra. }
  rewrite Ep.
  set (r := Rpower x (/ 6)).
  assert (Hr : 0 < r) by (unfold r, Rpower; apply exp_pos).
  assert (Hr6 : r ^ 6 = x).
  { unfold r. rewrite <- Rpower_pow by (unfold Rpower; apply exp_pos).
    rewrite Rpower_mult. replace (/ 6 * INR 6) with 1 by (simpl; field).
    apply Rpower_1. rewrite Ex; exact Hx. }
  set (z := Zceil r).
  assert (Hz : r <= IZR z) by apply Zceil_ub.
  change (fceil r) with (IZR z).
  change (fto_usize (IZR z)) with (Z.max 0 (Ztrunc (IZR z))).
  rewrite Ztrunc_IZR.
  set (n := Z.max (Z.max 0 z) 1).
  assert (Hn : r <= IZR n) by (apply Rle_trans with (IZR z); [exact Hz | apply IZR_le; unfold n; lia]).
  assert (Hp : x <= IZR n ^ 6) by (rewrite <- Hr6; apply pow_incr; lra).
  rewrite Ex in Hp.
  apply Rmult_le_compat_r with (r := 432 * a * a) in Hp; [|lra].
  unfold Rdiv in Hp. rewrite Rmult_assoc, Rinv_l, Rmult_1_r in Hp by lra. exact Hp.
Qed.

Lemma to_quads_within_accuracy (c : CubicBez R) a i t0 t1 q u :
  0 < a -> nth_error (to_quads c a) i = Some (t0, t1, q) -> 0 <= u <= 1 ->
  pt_distance (cubic_eval c (t0 + u * (t1 - t0))) (quad_eval q u) <= a.
Proof.
  intros Ha Hn Hu. unfold to_quads in Hn.
  set (n := Z.to_nat (to_quads_count c a)) in *.
  assert (Hi : (i < n)%nat).
  { rewrite <- (to_quads_n_length c n). apply nth_error_Some. rewrite Hn. discriminate. }
  rewrite to_quads_n_nth in Hn by exact Hi.
  pose proof (to_quads_count_ge_1 c a) as H1.
  pose proof (to_quads_within_accuracy_n c a n i u Hi (Rlt_le _ _ Ha)) as W.
  assert (Hp : to_quads_piece c (Z.of_nat n) (Z.of_nat i) = (t0, t1, q)) by congruence.
  rewrite Hp in W. apply W; [|exact Hu].
  unfold n. rewrite INR_IZR_INZ, Z2Nat.id by lia. apply to_quads_count_enough. exact Ha.
Qed.

(** * fit_inside *)

(* the point lies within [d] of the origin *)
Definition within (d : R) (p : Point R) : Prop := px p * px p + py p * py p <= d * d.

Lemma hypot_le_within d (p : Point R) :
  (v_hypot (to_vec2 p) <=? d)%S = true -> 0 <= d /\ within d p.
Proof.
  unfold v_hypot, to_vec2, within. cbn [vx vy]. rs_unfold. intros Hh. apply Rleb_true in Hh.
  set (s := px p * px p + py p * py p) in *.
  assert (Hs : 0 <= s) by (unfold s; pose proof (Rle_0_sqr (px p)); pose proof (Rle_0_sqr (py p)); unfold Rsqr in *; lra).
  pose proof (sqrt_pos s) as Hp. split; [lra|].
  rewrite <- (sqrt_sqrt s Hs). apply Rmult_le_compat; lra.
Qed.

Lemma hypot_not_gt_within d (p : Vec2 R) :
  (v_hypot p >? d)%S = false -> 0 <= d /\ within d (to_point p).
Proof.
  intros Hh. apply (hypot_le_within d (to_point p)).
  unfold v_hypot, to_point, to_vec2 in *. cbn [vx vy px py] in *. revert Hh. rs_unfold.
  intros Hh. apply Rltb_false in Hh. apply Rleb_true. exact Hh.
Qed.

Lemma within_hypot d (p : Point R) : 0 <= d -> within d p -> pt_distance p (mkPoint 0 0) <= d.
Proof.
  intros Hd Hw. unfold pt_distance, v_hypot, pt_sub, within in *. cbn [vx vy px py]. rs_unfold.
  apply sqrt_le_of_sq; [exact Hd|]. rewrite !Rminus_0_r. exact Hw.
Qed.

Lemma conv2 ax ay bx by_ d t :
  ax * ax + ay * ay <= d * d -> bx * bx + by_ * by_ <= d * d -> 0 <= t <= 1 ->
  ((1 - t) * ax + t * bx) * ((1 - t) * ax + t * bx) + ((1 - t) * ay + t * by_) * ((1 - t) * ay + t * by_) <= d * d.
Proof.
  intros HA HB Ht.
  set (S := ax * ax + ay * ay) in *. set (U := bx * bx + by_ * by_) in *.
  set (P := ax * bx + ay * by_).
  assert (HP : 2 * P <= S + U).
  { unfold P, S, U. pose proof (Rle_0_sqr (ax - bx)). pose proof (Rle_0_sqr (ay - by_)). unfold Rsqr in *. lra. }
  replace (((1 - t) * ax + t * bx) * ((1 - t) * ax + t * bx) + ((1 - t) * ay + t * by_) * ((1 - t) * ay + t * by_))
    with ((1 - t) * (1 - t) * S + t * (1 - t) * (2 * P) + t * t * U) by (unfold S, U, P; ring).
  assert (0 <= (1 - t) * (1 - t)) by apply Rle_0_sqr.
  assert (0 <= t * t) by apply Rle_0_sqr.
  assert (0 <= t * (1 - t)) by (apply Rmult_le_pos; lra).
  assert ((1 - t) * (1 - t) * S <= (1 - t) * (1 - t) * (d * d)) by (apply Rmult_le_compat_l; lra).
  assert (t * t * U <= t * t * (d * d)) by (apply Rmult_le_compat_l; lra).
  assert (t * (1 - t) * (2 * P) <= t * (1 - t) * (2 * (d * d))) by (apply Rmult_le_compat_l; lra).
  replace (d * d) with ((1 - t) * (1 - t) * (d * d) + t * (1 - t) * (2 * (d * d)) + t * t * (d * d)) at 4 by ring.
  lra.
Qed.

Definition lerpP (a b : Point R) (t : R) : Point R :=
  mkPoint ((1 - t) * px a + t * px b) ((1 - t) * py a + t * py b).

Lemma within_lerp d a b t : within d a -> within d b -> 0 <= t <= 1 -> within d (lerpP a b t).
Proof. intros. unfold within, lerpP. cbn [px py]. apply conv2; assumption. Qed.

Lemma cubic_eval_casteljau (c : CubicBez R) t :
  cubic_eval c t =
  lerpP (lerpP (lerpP (c0 c) (c1 c) t) (lerpP (c1 c) (c2 c) t) t)
        (lerpP (lerpP (c1 c) (c2 c) t) (lerpP (c2 c) (c3 c) t) t) t.
Proof.
  destruct c as [[x0 y0] [x1 y1] [x2 y2] [x3 y3]]. unfold lerpP. tq_unfold. f_equal; ring.
Qed.

(** convex-hull property *)
Lemma cubic_hull d (c : CubicBez R) t :
  within d (c0 c) -> within d (c1 c) -> within d (c2 c) -> within d (c3 c) -> 0 <= t <= 1 ->
  within d (cubic_eval c t).
Proof.
  intros. rewrite cubic_eval_casteljau. repeat apply within_lerp; assumption.
Qed.

Lemma fit_inside_mid (c : CubicBez R) :
  to_point (v_scale (v_add (v_add (to_vec2 (c0 c)) (s_scale_v f3 (v_add (to_vec2 (c1 c)) (to_vec2 (c2 c))))) (to_vec2 (c3 c))) f0_125)
  = cubic_eval c (/ 2).
Proof. destruct c as [[x0 y0] [x1 y1] [x2 y2] [x3 y3]]. tq_unfold. f_equal; field. Qed.

Lemma cubic_subdivide_eval (c : CubicBez R) u :
  cubic_eval (fst (cubic_subdivide c)) u = cubic_eval c (u / 2) /\
  cubic_eval (snd (cubic_subdivide c)) u = cubic_eval c (/ 2 + u / 2).
Proof.
  rewrite cubic_subdivide_is_subsegment. cbn [fst snd]. rewrite !cubic_subsegment_eval.
  split; f_equal; field.
Qed.

Lemma cubic_subdivide_ends (c : CubicBez R) :
  c0 (fst (cubic_subdivide c)) = c0 c /\ c3 (fst (cubic_subdivide c)) = cubic_eval c (/ 2) /\
  c0 (snd (cubic_subdivide c)) = cubic_eval c (/ 2) /\ c3 (snd (cubic_subdivide c)) = c3 c.
Proof.
  unfold cubic_subdivide. cbn [fst snd c0 c3]. unfold fhalf. rs_unfold. rewrite Q2R_half. auto.
Qed.

Lemma fit_inside_sound fuel : forall (c : CubicBez R) d,
  fit_inside fuel c d = Some true -> within d (c0 c) -> within d (c3 c) ->
  forall t, 0 <= t <= 1 -> within d (cubic_eval c t).
Proof.
  induction fuel as [|k IH]; intros c d Hf H0 H3 t Ht; [discriminate|].
  cbn [fit_inside] in Hf.
  destruct ((v_hypot (to_vec2 (c2 c)) <=? d)%S && (v_hypot (to_vec2 (c1 c)) <=? d)%S) eqn:E.
  - apply andb_true_iff in E. destruct E as [E2 E1].
    apply hypot_le_within in E2, E1. apply cubic_hull; tauto.
  - match type of Hf with (if ?b then _ else _) = _ => destruct b eqn:Em end; [discriminate|].
    apply hypot_not_gt_within in Em. destruct Em as [Hd Hm]. rewrite fit_inside_mid in Hm.
    destruct (cubic_subdivide_ends c) as (L0 & L3 & R0 & R3).
    destruct (cubic_subdivide c) as [l r] eqn:Es. cbn [fst snd] in *.
    destruct (fit_inside k l d) as [[|]|] eqn:El; try discriminate.
    pose proof (cubic_subdivide_eval c) as Hev. rewrite Es in Hev. cbn [fst snd] in Hev.
    destruct (Rle_dec t (/ 2)) as [Hl|Hr].
    + replace t with ((2 * t) / 2) by field. rewrite <- (proj1 (Hev (2 * t))).
      apply (IH l d El); [rewrite L0; exact H0 | rewrite L3; exact Hm | lra].
    + replace t with (/ 2 + (2 * t - 1) / 2) by field. rewrite <- (proj2 (Hev (2 * t - 1))).
      apply (IH r d Hf); [rewrite R0; exact Hm | rewrite R3; exact H3 | lra].
Qed.

(** the guards on the two end points are needed: [fit_inside] never looks at [p0], [p3] on its
    first return path (its callers have checked them) *)
Lemma fit_inside_needs_endpoint_guard :
  exists (c : CubicBez R) d, fit_inside 1 c d = Some true /\ ~ within d (cubic_eval c 0).
Proof.
  exists (mkCubic (mkPoint 5 0) (mkPoint 0 0) (mkPoint 0 0) (mkPoint 0 0)), 1. split.
  - cbn [fit_inside c1 c2]. unfold v_hypot, to_vec2. cbn [vx vy px py]. rs_unfold.
    replace (0 * 0 + 0 * 0) with 0 by ring. rewrite sqrt_0.
    unfold Rleb. destruct (Rle_dec 0 1); [reflexivity | lra].
  - unfold within. tq_unfold. lra.
Qed.

(** * split_into_n: every branch produces the sub-segments over [i/n, (i+1)/n] *)

Ltac cubic_eq := destruct_cubics; tq_unfold; rec_eq; field
with destruct_cubics :=
  repeat match goal with c : CubicBez R |- _ => destruct c as [[? ?] [? ?] [? ?] [? ?]] end.

Lemma subsegment_subsegment (c : CubicBez R) a b u v :
  cubic_subsegment (cubic_subsegment c a b) u v = cubic_subsegment c (a + u * (b - a)) (a + v * (b - a)).
Proof. cubic_eq. Qed.

Lemma subsegment_0_1 (c : CubicBez R) : cubic_subsegment c 0 1 = c.
Proof. cubic_eq. Qed.

Lemma cubic_subdivide_3_is_subsegment (c : CubicBez R) :
  cubic_subdivide_3 c = (cubic_subsegment c 0 (/ 3), cubic_subsegment c (/ 3) (2 / 3), cubic_subsegment c (2 / 3) 1).
Proof. cubic_eq. Qed.

Lemma split_generic_piece_is_subsegment (c : CubicBez R) (n i : nat) : (1 <= n)%nat ->
  split_generic_piece c (Z.of_nat n) (Z.of_nat i) = cubic_subsegment c (INR i / INR n) (INR (i + 1) / INR n).
Proof.
  intros Hn. rewrite plus_INR, !INR_IZR_INZ. simpl (IZR (Z.of_nat 1)).
  assert (HN : IZR (Z.of_nat n) <> 0) by (apply not_0_IZR; lia).
  destruct c as [[x0 y0] [x1 y1] [x2 y2] [x3 y3]].
  cbv [split_generic_piece cubic_parameters]. tq_unfold.
  set (N := IZR (Z.of_nat n)) in *. set (I := IZR (Z.of_nat i)) in *. clearbody N I.
  rec_eq.
  all: field; exact HN.
Qed.

Definition split_spec (c : CubicBez R) (n : nat) : list (CubicBez R) :=
  map (fun i => cubic_subsegment c (INR i / INR n) (INR (i + 1) / INR n)) (seq 0 n).

Ltac list_eq := repeat match goal with |- @eq (list _) (_ :: _) (_ :: _) => f_equal end.

Lemma sub_eq (c : CubicBez R) a b a' b' : a = a' -> b = b' -> cubic_subsegment c a b = cubic_subsegment c a' b'.
Proof. intros -> ->. reflexivity. Qed.

Lemma split_into_n_small (c : CubicBez R) :
  split_into_n c 1 = split_spec c 1 /\ split_into_n c 2 = split_spec c 2 /\ split_into_n c 3 = split_spec c 3 /\
  split_into_n c 4 = split_spec c 4 /\ split_into_n c 6 = split_spec c 6.
Proof.
  unfold split_spec. cbv [seq map split_into_n].
  rewrite !cubic_subdivide_is_subsegment. cbv iota beta.
  rewrite ?cubic_subdivide_is_subsegment, !cubic_subdivide_3_is_subsegment. cbv iota beta.
  rewrite !subsegment_subsegment.
  repeat split; list_eq.
  - transitivity (cubic_subsegment c 0 1); [symmetry; apply subsegment_0_1 | apply sub_eq; cbv [INR Nat.add]; field].
  all: apply sub_eq; cbv [INR Nat.add]; field.
Qed.

Lemma split_into_n_spec (c : CubicBez R) n : (1 <= n)%nat -> split_into_n c n = split_spec c n.
Proof.
  intros Hn. destruct (split_into_n_small c) as (S1 & S2 & S3 & S4 & S6).
  assert (G : forall m, (1 <= m)%nat ->
            map (fun i => split_generic_piece c (Z.of_nat m) (Z.of_nat i)) (seq 0 m) = split_spec c m).
  { intros m Hm. unfold split_spec. apply map_ext. intros i. apply split_generic_piece_is_subsegment. exact Hm. }
  do 7 (destruct n as [|n]; [first [lia | assumption | apply G; lia]|]).
  apply G. lia.
Qed.

