(** C10: shape outlines. Lemmas at the real instance of model/ShapePaths.v. *)
From Coq Require Import ZArith QArith Reals List Bool Lra Lia Psatz.
From Coquelicot Require Import Coquelicot.
From Flocq Require Import Core.Raux.
From KV Require Import Scalar RInst Geom Curves Rect Affine Path ShapeTypes ShapePaths RTac OutlineSpec C10_interval.
Import ListNotations.
Local Open Scope R_scope.

(** * 1. Real analysis of the standard circular piece *)

Definition gpoly (t : R) : R := t * (t - 1/2) * (t - 1).

Lemma gpoly_sq_bound t : 0 <= t <= 1 -> 0 <= gpoly t ^ 2 <= 1 / 432.
Proof.
  intros Ht. split. { apply pow2_ge_0. }
  set (u := t - 1/2).
  assert (Hu : -1/2 <= u <= 1/2) by (unfold u; lra).
  assert (E : 1 - 432 * gpoly t ^ 2 = (1 - 12 * u^2)^2 * (1 - 3 * u^2)) by (unfold gpoly, u; field).
  assert (0 <= (1 - 12 * u^2)^2) by apply pow2_ge_0.
  assert (0 <= 1 - 3 * u^2) by nra.
  assert (0 <= (1 - 12 * u^2)^2 * (1 - 3 * u^2)) by (apply Rmult_le_pos; assumption).
  lra.
Qed.

(** the radial defect of the unit piece of half-quarter-angle tangent [tau] is a perfect square *)
Lemma unit_piece_identity tau t :
  let C := ((1 - tau^2)^2 - 4 * tau^2) / (1 + tau^2)^2 in
  let S := 4 * tau * (1 - tau^2) / (1 + tau^2)^2 in
  let k := 4/3 * tau in
  unit_x k C S t ^ 2 + unit_y k C S t ^ 2 - 1 = 64 * tau^6 / (1 + tau^2)^2 * gpoly t ^ 2.
Proof.
  intros C S k. unfold C, S, k, unit_x, unit_y, gpoly.
  assert (1 + tau^2 <> 0) by nra.
  field. assumption.
Qed.

Lemma cos_sin_2x x : cos x <> 0 ->
  cos (2 * x) = (1 - tan x ^ 2) / (1 + tan x ^ 2) /\ sin (2 * x) = 2 * tan x / (1 + tan x ^ 2).
Proof.
  intros Hc. rewrite cos_2a, sin_2a. unfold tan.
  pose proof (sin2_cos2 x) as Hsc. unfold Rsqr in Hsc.
  set (s := sin x) in *. set (c := cos x) in *.
  assert (Hd : s * s + c * c <> 0) by lra.
  split.
  - transitivity ((c * c - s * s) / (s * s + c * c)). { rewrite Hsc. field. }
    field. split; [assumption | nra].
  - transitivity (2 * s * c / (s * s + c * c)). { rewrite Hsc. field. }
    field. split; [assumption | nra].
Qed.

Lemma cos_sin_4x x : cos x <> 0 ->
  let tau := tan x in
  cos (4 * x) = ((1 - tau^2)^2 - 4 * tau^2) / (1 + tau^2)^2 /\
  sin (4 * x) = 4 * tau * (1 - tau^2) / (1 + tau^2)^2.
Proof.
  intros Hc tau.
  assert (H1 : 1 + tau^2 <> 0) by nra.
  destruct (cos_sin_2x x Hc) as [E1 E2]. fold tau in E1, E2.
  replace (4 * x) with (2 * (2 * x)) by ring.
  rewrite (cos_2a (2 * x)), (sin_2a (2 * x)), E1, E2.
  split; field; assumption.
Qed.

Lemma sin_le_poly5 x : 0 <= x <= 3 -> sin x <= x * (1 - x^2/6 + x^4/120).
Proof.
  intros Hx.
  assert (Hpi : x <= 4) by lra.
  destruct (pre_sin_bound x 0 (proj1 Hx) Hpi) as [_ H].
  replace (2 * (0 + 1))%nat with 2%nat in H by reflexivity.
  unfold sin_approx, sin_term in H. simpl in H.
  lra.
Qed.

Lemma even_facts x : sin x ^ 6 = sin (Rabs x) ^ 6 /\ cos x = cos (Rabs x) /\ x ^ 6 = Rabs x ^ 6.
Proof.
  unfold Rabs. destruct (Rcase_abs x).
  - rewrite sin_neg, cos_neg. repeat split; ring.
  - repeat split; reflexivity.
Qed.

(** The standard piece of angle [4x] (arm (4/3) tan x) lies outside the unit circle and within
    [Kc x^6] of it, for every |x| <= 0.3927. *)
Lemma std_piece_bound x t : 0 <= t <= 1 -> Rabs x <= 3927/10000 ->
  let k := 4/3 * tan x in
  let W := unit_x k (cos (4*x)) (sin (4*x)) t ^ 2 + unit_y k (cos (4*x)) (sin (4*x)) t ^ 2 in
  1 <= W /\ 1 <= sqrt W <= 1 + Kc * x ^ 6.
Proof.
  intros Ht Hx k W.
  pose proof xmax_lt_pi2 as Hpi2.
  assert (Hy0 : 0 <= Rabs x) by apply Rabs_pos.
  destruct (even_facts x) as (Es & Ec & Ex).
  set (y := Rabs x) in *.
  assert (Hcy : 0 < cos y) by (apply cos_gt_0; lra).
  assert (Hc : cos x <> 0) by (rewrite Ec; lra).
  destruct (cos_sin_4x x Hc) as [E1 E2]. cbv zeta in E1, E2.
  pose proof (unit_piece_identity (tan x) t) as Hid. cbv zeta in Hid.
  rewrite <- E1, <- E2 in Hid. fold k in Hid. fold W in Hid.
  (* tau^6/(1+tau^2)^2 = sin^6 / cos^2 *)
  assert (Htau : tan x ^ 6 / (1 + tan x ^ 2) ^ 2 = sin x ^ 6 / cos x ^ 2).
  { pose proof (sin2_cos2 x) as Hsc. unfold Rsqr in Hsc. unfold tan.
    set (s := sin x) in *. set (c := cos x) in *.
    transitivity (s ^ 6 / c ^ 2 / ((s * s + c * c) ^ 2)).
    - field. split; [assumption | nra].
    - rewrite Hsc. field. assumption. }
  assert (HW : W - 1 = 64 * (sin x ^ 6 / cos x ^ 2) * gpoly t ^ 2).
  { rewrite Hid, <- Htau. field. nra. }
  destruct (gpoly_sq_bound t Ht) as [Hg0 Hg1].
  set (g2 := gpoly t ^ 2) in *.
  set (M := sin x ^ 6 / cos x ^ 2) in *.
  assert (HM0 : 0 <= M).
  { unfold M. apply Rmult_le_pos. rewrite Es. apply pow_le.
    apply sin_ge_0; [assumption | lra]. apply Rlt_le, Rinv_0_lt_compat. rewrite Ec. nra. }
  assert (HW1 : 1 <= W) by nra.
  (* M <= y^6 P^6 / cos^2 *)
  set (P := 1 - y^2/6 + y^4/120).
  assert (Hsin : 0 <= sin y <= y * P).
  { split. apply sin_ge_0; lra. apply sin_le_poly5. lra. }
  assert (Hs6 : sin y ^ 6 <= (y * P) ^ 6) by (apply pow_incr; assumption).
  pose proof (trig_bound y (conj Hy0 Hx)) as Htb. fold P in Htb.
  pose proof Kc_pos as HK.
  assert (Hc2 : 0 < cos y ^ 2) by nra.
  assert (HMb : 4/27 * M <= (2 * Kc + Kc^2 * y^6) * y^6).
  { unfold M. rewrite Es, Ec.
    apply Rmult_le_reg_r with (cos y ^ 2); [assumption|].
    replace (4 / 27 * (sin y ^ 6 / cos y ^ 2) * cos y ^ 2) with (4/27 * sin y ^ 6) by (field; lra).
    assert (0 <= y^6) by (apply pow_le; assumption).
    replace ((y * P) ^ 6) with (y^6 * P^6) in Hs6 by ring.
    nra. }
  assert (HWb : W <= (1 + Kc * y^6) ^ 2).
  { assert (64 * M * g2 <= 4/27 * M) by nra. nra. }
  split; [assumption|]. split.
  - rewrite <- sqrt_1 at 1. apply sqrt_le_1_alt. assumption.
  - rewrite Ex. fold y.
    assert (0 <= y^6) by (apply pow_le; assumption).
    assert (H1 : 0 <= 1 + Kc * y^6) by nra.
    rewrite <- (sqrt_pow2 (1 + Kc * y^6) H1). apply sqrt_le_1_alt. assumption.
Qed.

(** * 2. Contours and [Segments::next] *)

Lemma forallb_map_const {A B} (f : A -> B) (p : B -> bool) (l : list A) :
  (forall a, p (f a) = true) -> forallb p (map f l) = true.
Proof. intros Hp. induction l; simpl; [reflexivity | rewrite Hp, IHl; reflexivity]. Qed.

Lemma contour_end_app (s : Point R) b1 b2 :
  contour_end s (b1 ++ b2) = contour_end (contour_end s b1) b2.
Proof. unfold contour_end. apply fold_left_app. Qed.

Lemma chain_app (s : Point R) b1 b2 :
  chain s (b1 ++ b2) = chain s b1 ++ chain (contour_end s b1) b2.
Proof.
  revert s. induction b1 as [|e r IH]; intros s; simpl; [reflexivity|].
  destruct e; simpl; rewrite ?IH; reflexivity.
Qed.

(** what [Segments::next] makes of a contour body: exactly the chained pieces *)
Lemma segs_from_body (start last : Point R) body tail :
  forallb is_draw body = true ->
  segs_from (Some (start, last)) (body ++ tail) =
  match segs_from (Some (start, contour_end last body)) tail with
  | Some l => Some (chain last body ++ l)
  | None => None
  end.
Proof.
  revert last. induction body as [|e r IH]; intros last Hd.
  - simpl. destruct (segs_from _ tail); reflexivity.
  - simpl in Hd. apply andb_true_iff in Hd. destruct Hd as [He Hr].
    destruct e; try discriminate He; simpl; rewrite (IH _ Hr); unfold contour_end; simpl;
      destruct (segs_from _ tail); reflexivity.
Qed.

Lemma segments_open els (start : Point R) body :
  open_contour els start body -> segments els = Some (chain start body).
Proof.
  intros [-> Hd]. unfold segments. simpl.
  rewrite <- (app_nil_r body), (segs_from_body start start body [] Hd). simpl.
  rewrite !app_nil_r. reflexivity.
Qed.

(** a closed contour: the pieces, plus the closing line unless the body already ends at the start *)
Lemma segments_closed els (start : Point R) body :
  closed_contour els start body ->
  segments els = Some (chain start body ++
    (if pt_neb (contour_end start body) start then [SegLine (mkLine (contour_end start body) start)] else [])).
Proof.
  intros [-> Hd]. unfold segments. simpl.
  rewrite (segs_from_body start start body [ClosePath] Hd). simpl.
  destruct (pt_neb (contour_end start body) start); reflexivity.
Qed.

Lemma last_cons {A} (x : A) l d : last (x :: l) d = last l x.
Proof.
  revert x d. induction l as [|y l IH]; intros x d; [reflexivity|].
  change (last (x :: y :: l) d) with (last (y :: l) d). rewrite !IH. reflexivity.
Qed.

(** a body made of curves whose end points are linked *)
Section ChainCurves.
Variables (A : Type) (S E P1 P2 : A -> Point R).
Fixpoint linked (p : Point R) (l : list A) : Prop :=
  match l with [] => True | a :: r => S a = p /\ linked (E a) r end.
Lemma chain_curves p l : linked p l ->
  chain p (map (fun a => CurveTo (P1 a) (P2 a) (E a)) l) =
  map (fun a => SegCubic (mkCubic (S a) (P1 a) (P2 a) (E a))) l.
Proof.
  revert p. induction l as [|a r IH]; intros p Hl; simpl; [reflexivity|].
  destruct Hl as [<- Hr]. rewrite (IH _ Hr). reflexivity.
Qed.
Lemma contour_end_curves p l :
  contour_end p (map (fun a => CurveTo (P1 a) (P2 a) (E a)) l) = last (map E l) p.
Proof.
  revert p. induction l as [|a r IH]; intros p; [reflexivity|].
  change (contour_end p (map _ (a :: r))) with
    (contour_end (E a) (map (fun a => CurveTo (P1 a) (P2 a) (E a)) r)).
  rewrite IH. simpl map. rewrite last_cons. reflexivity.
Qed.
End ChainCurves.

(** * 3. Circle *)

Ltac sp_unfold :=
  cbv [circle_params circle_piece sample_ellipse rotate_pt point_on_circle
       c_1_9608em4 c_1_1163 c_arm4 c_3_999999 c_quarter frac_pi_2 two_pi one_sixth_ four_thirds
       inv_two_pi branch4_limit
       cubic_eval line_eval pt_lerp v_lerp pt_add_v pt_sub_v pt_sub v_add v_sub s_scale_v v_scale
       to_point to_vec2 px py vx vy c0 c1 c2 c3 l0 l1 fst snd
       ci_center ci_radius arc_center arc_radii arc_start_angle arc_sweep_angle arc_x_rotation] in *;
  rs_unfold; cbv [Q2R Qnum Qden] in *.

Lemma Rpower_sixth_pow y : 0 < y -> Rpower y (1 / 6) ^ 6 = y.
Proof.
  intros Hy. rewrite <- (Rpower_pow 6) by apply exp_pos.
  rewrite Rpower_mult. replace (1 / 6 * INR 6) with 1 by (simpl; field).
  apply Rpower_1. assumption.
Qed.

Lemma Rpower_sixth_gt4 y : 4096 < y -> 4 < Rpower y (1 / 6).
Proof.
  intros Hy.
  assert (E : Rpower 4096 (1/6) = 4).
  { replace 4096 with (Rpower 4 (INR 6)) by (rewrite Rpower_pow by lra; simpl; ring).
    rewrite Rpower_mult. replace (INR 6 * (1 / 6)) with 1 by (simpl; field).
    apply Rpower_1. lra. }
  rewrite <- E. apply Rlt_Rpower_l; lra.
Qed.

Lemma usize_of_ceil x : 0 <= x -> Z.max 0 (Ztrunc (IZR (Zceil x))) = Zceil x.
Proof.
  intros Hx. rewrite Ztrunc_IZR. apply Z.max_r.
  apply le_IZR. pose proof (Zceil_ub x). lra.
Qed.

(** what [Circle::path_elements] picks *)
Lemma circle_params_spec (r tol : R) :
  let se := Rabs r / tol in
  exists n arm, circle_params r tol = (n, arm) /\
    ((se < 1 / (19608 / 100000000) /\ n = 4%Z /\ arm = arm4) \/
     (1 / (19608 / 100000000) <= se /\ (5 <= n)%Z /\ arm = 4/3 * tan (PI / 2 / IZR n) /\
      11163 / 10000 * se <= IZR n ^ 6)).
Proof.
  intros se. sp_unfold. fold se.
  destruct (Rltb_spec se (1 / (19608 * / 100000000))) as [Hlt | Hge].
  - exists 4%Z, (551915024494 * / 1000000000000). split; [reflexivity|]. left.
    split; [exact Hlt|]. split; [reflexivity|]. unfold arm4. reflexivity.
  - apply Rnot_lt_le in Hge.
    assert (Hse : 5099 < se) by lra.
    set (y := 11163 * / 10000 * se).
    assert (Hy : 4096 < y) by (unfold y; lra).
    unfold Rpowf. destruct (Req_EM_T (1 / 6) 0) as [Hbad | _]; [lra|].
    destruct (Rlt_dec 0 y) as [_ | Hbad]; [|lra].
    set (v := Rpower y (1 / 6)).
    assert (Hv : 4 < v) by (apply Rpower_sixth_gt4; assumption).
    rewrite usize_of_ceil by lra.
    set (n := Zceil v).
    assert (Hn : v <= IZR n) by apply Zceil_ub.
    exists n, (4 / 3 * tan (PI / 2 / IZR n)). split; [reflexivity|]. right.
    split; [exact Hge|]. split.
    + assert (4 < IZR n) by lra. apply lt_IZR in H. lia.
    + split; [reflexivity|].
      change (y <= IZR n ^ 6). rewrite <- (Rpower_sixth_pow y) by lra. fold v.
      apply pow_incr. lra.
Qed.

Section CircleGeom.
Variables (cx cy r k dl : R).
Definition circ_pt (i : Z) : Point R := mkPoint (cx + r * cos (dl * IZR i)) (cy + r * sin (dl * IZR i)).
Definition circ_p1 (i : Z) : Point R :=
  let th0 := dl * IZR (i - 1) in
  mkPoint (cx + r * (cos th0 - k * sin th0)) (cy + r * (sin th0 + k * cos th0)).
Definition circ_p2 (i : Z) : Point R :=
  let th1 := dl * IZR i in
  mkPoint (cx + r * (cos th1 + k * sin th1)) (cy + r * (sin th1 - k * cos th1)).
Definition circ_el (i : Z) : PathEl R := CurveTo (circ_p1 i) (circ_p2 i) (circ_pt i).
Definition circ_cubic (i : Z) : CubicBez R := mkCubic (circ_pt (i - 1)) (circ_p1 i) (circ_p2 i) (circ_pt i).

Lemma circle_piece_ideal (n i : Z) : dl * IZR n = 2 * PI ->
  circle_piece (mkCircle (mkPoint cx cy) r) dl k n i = circ_el i.
Proof.
  intros Hn. unfold circ_el, circ_p1, circ_p2, circ_pt. sp_unfold.
  replace (dl * IZR i - dl) with (dl * IZR (i - 1)) by (rewrite minus_IZR; ring).
  destruct (Z.eqb_spec i n) as [-> | Hne]; [|reflexivity].
  rewrite Hn, cos_2PI, sin_2PI. reflexivity.
Qed.

Lemma circ_linked (a N : nat) :
  linked Z (fun i => circ_pt (i - 1)) circ_pt (circ_pt (Z.of_nat a - 1)) (map Z.of_nat (seq a N)).
Proof.
  revert a. induction N as [|N IH]; intros a; simpl; [exact I|].
  split; [reflexivity|].
  replace (Z.of_nat a) with (Z.of_nat (S a) - 1)%Z at 1 by lia. apply IH.
Qed.

(** a piece is the unit piece, rotated to its start angle, scaled by r, moved to the centre *)
Lemma circ_cubic_offset (i : Z) (t : R) :
  let A := unit_x k (cos dl) (sin dl) t in
  let B := unit_y k (cos dl) (sin dl) t in
  let th0 := dl * IZR (i - 1) in
  let P := cubic_eval (circ_cubic i) t in
  px P - cx = r * (cos th0 * A - sin th0 * B) /\ py P - cy = r * (sin th0 * A + cos th0 * B).
Proof.
  intros A B th0 P. unfold P, A, B, circ_cubic, circ_p1, circ_p2, circ_pt, unit_x, unit_y.
  replace (dl * IZR i) with (th0 + dl) by (unfold th0; rewrite minus_IZR; ring).
  fold th0. rewrite cos_plus, sin_plus. sp_unfold. split; ring.
Qed.
End CircleGeom.

Lemma dist_scaled (P : Point R) cx cy r u v :
  px P - cx = r * u -> py P - cy = r * v ->
  dist P (mkPoint cx cy) = Rabs r * sqrt (u ^ 2 + v ^ 2).
Proof.
  intros Hx Hy. unfold dist. cbn [px py]. rewrite Hx, Hy.
  replace ((r * u) ^ 2 + (r * v) ^ 2) with (Rsqr r * (u ^ 2 + v ^ 2)) by (unfold Rsqr; ring).
  rewrite sqrt_mult_alt by apply Rle_0_sqr. rewrite sqrt_Rsqr_abs. reflexivity.
Qed.

Lemma rot_norm c s A B : c * c + s * s = 1 ->
  (c * A - s * B) ^ 2 + (s * A + c * B) ^ 2 = A ^ 2 + B ^ 2.
Proof. intros H. transitivity ((c * c + s * s) * (A ^ 2 + B ^ 2)); [ring | rewrite H; ring]. Qed.

Lemma cos_sin_1 x : cos x * cos x + sin x * sin x = 1.
Proof. pose proof (sin2_cos2 x) as H. unfold Rsqr in H. lra. Qed.

Lemma circ_cubic_dist cx cy r k dl i t :
  dist (cubic_eval (circ_cubic cx cy r k dl i) t) (mkPoint cx cy) =
  Rabs r * sqrt (unit_x k (cos dl) (sin dl) t ^ 2 + unit_y k (cos dl) (sin dl) t ^ 2).
Proof.
  destruct (circ_cubic_offset cx cy r k dl i t) as [Hx Hy].
  rewrite (dist_scaled _ _ _ _ _ _ Hx Hy). f_equal. f_equal.
  apply rot_norm, cos_sin_1.
Qed.

(** the element list of a circle, with the parameters abstracted *)
Lemma circle_elements_ideal (c : Circle R) (tol : R) n arm :
  circle_params (ci_radius c) tol = (n, arm) -> (0 < n)%Z ->
  let cx := px (ci_center c) in let cy := py (ci_center c) in
  let r := ci_radius c in let dl := 2 * PI / IZR n in
  circle_path_elements c tol =
  MoveTo (circ_pt cx cy r dl 0) :: map (circ_el cx cy r arm dl) (zrange1 n) ++ [ClosePath].
Proof.
  intros Hp Hn cx cy r dl. unfold circle_path_elements. rewrite Hp. cbn [fst snd].
  assert (Hdl : dl * IZR n = 2 * PI).
  { unfold dl. field. apply not_0_IZR. lia. }
  f_equal.
  - unfold circ_pt. rewrite Rmult_0_r, cos_0, sin_0. destruct c as [[x y] rr]. sp_unfold.
    unfold cx, cy, r. f_equal. f_equal; ring.
  - f_equal. apply map_ext. intros i.
    destruct c as [[x y] rr]. change (two_pi / fofZ n) with dl.
    apply circle_piece_ideal. exact Hdl.
Qed.

Lemma zrange1_length n : length (zrange1 n) = Z.to_nat n.
Proof. unfold zrange1. rewrite map_length, seq_length. reflexivity. Qed.

Lemma zrange1_In n i : In i (zrange1 n) <-> (1 <= i <= n)%Z.
Proof.
  unfold zrange1. rewrite in_map_iff. split.
  - intros (k & <- & Hk). apply in_seq in Hk. lia.
  - intros Hi. exists (Z.to_nat i). split; [lia|]. apply in_seq. lia.
Qed.

Lemma zrange1_snoc n : (1 <= n)%Z -> zrange1 n = zrange1 (n - 1) ++ [n].
Proof.
  intros Hn. unfold zrange1.
  replace (Z.to_nat n) with (S (Z.to_nat (n - 1))) by lia.
  rewrite seq_S, map_app. simpl. do 2 f_equal. lia.
Qed.

(** ** structure, closure, single traversal *)
Lemma circle_contour (c : Circle R) (tol : R) :
  exists n arm,
    circle_params (ci_radius c) tol = (n, arm) /\ (4 <= n)%Z /\
    let cx := px (ci_center c) in let cy := py (ci_center c) in
    let r := ci_radius c in let dl := 2 * PI / IZR n in
    let start := mkPoint (cx + r) cy in
    let body := map (circ_el cx cy r arm dl) (zrange1 n) in
    dl * IZR n = 2 * PI /\
    closed_contour (circle_path_elements c tol) start body /\
    length body = Z.to_nat n /\ forallb is_curve body = true /\
    contour_end start body = start /\
    chain start body = map (fun i => SegCubic (circ_cubic cx cy r arm dl i)) (zrange1 n).
Proof.
  destruct (circle_params_spec (ci_radius c) tol) as (n & arm & Hp & Hcase).
  exists n, arm. split; [exact Hp|].
  assert (Hn : (4 <= n)%Z) by (destruct Hcase as [(_ & -> & _) | (_ & H5 & _)]; lia).
  split; [exact Hn|]. intros cx cy r dl start body.
  assert (Hdl : dl * IZR n = 2 * PI) by (unfold dl; field; apply not_0_IZR; lia).
  assert (Hstart : circ_pt cx cy r dl 0 = start).
  { unfold circ_pt, start. rewrite Rmult_0_r, cos_0, sin_0. f_equal; ring. }
  split; [exact Hdl|]. split.
  { split.
    - rewrite (circle_elements_ideal c tol n arm Hp) by lia. fold cx cy r dl. rewrite Hstart. reflexivity.
    - apply forallb_map_const. reflexivity. }
  split. { unfold body. rewrite map_length. apply zrange1_length. }
  split. { apply forallb_map_const. reflexivity. }
  split.
  - unfold body, circ_el. rewrite contour_end_curves.
    rewrite (zrange1_snoc n) by lia. rewrite map_app. cbn [map]. rewrite last_last.
    unfold circ_pt, start. rewrite Hdl, cos_2PI, sin_2PI. f_equal; ring.
  - unfold body, circ_el, circ_cubic. apply chain_curves.
    rewrite <- Hstart. unfold zrange1. apply (circ_linked cx cy r dl 1).
Qed.

(** every point of the circle outline is within the tolerance of the ideal circle *)
Lemma circle_within_tolerance (c : Circle R) (tol : R) start body P :
  0 < tol ->
  closed_contour (circle_path_elements c tol) start body ->
  on_outline start body P ->
  Rabs (dist P (ci_center c) - Rabs (ci_radius c)) <= tol.
Proof.
  intros Htol Hcc Hon.
  destruct (circle_params_spec (ci_radius c) tol) as (n & arm & Hp & Hcase).
  destruct (circle_contour c tol) as (n' & arm' & Hp' & Hn & H). rewrite Hp in Hp'. inversion Hp'; subst n' arm'.
  cbv zeta in H. destruct H as (Hdl & Hcc' & _ & _ & _ & Hchain).
  set (cx := px (ci_center c)) in *. set (cy := py (ci_center c)) in *.
  set (r := ci_radius c) in *. set (dl := 2 * PI / IZR n) in *.
  (* the contour decomposition is unique *)
  destruct Hcc as [E1 _]. destruct Hcc' as [E2 _]. rewrite E1 in E2.
  injection E2 as Es Eb. apply app_inv_tail in Eb. subst start body.
  destruct Hon as (s & t & Hin & Ht & ->). rewrite Hchain in Hin.
  apply in_map_iff in Hin. destruct Hin as (i & <- & _). cbn [seg_eval].
  replace (ci_center c) with (mkPoint cx cy) by (destruct c as [[x y] rr]; reflexivity).
  rewrite circ_cubic_dist.
  set (W := unit_x arm (cos dl) (sin dl) t ^ 2 + unit_y arm (cos dl) (sin dl) t ^ 2).
  replace (Rabs r * sqrt W - Rabs r) with (Rabs r * (sqrt W - 1)) by ring.
  rewrite Rabs_mult, Rabs_Rabsolu.
  pose proof (Rabs_pos r) as Hr0.
  destruct Hcase as [(Hse & -> & ->) | (Hse & Hn5 & -> & Hpow)].
  - (* four pieces, Mortensen's arm *)
    assert (Edl : dl = PI / 2) by (unfold dl; simpl; field).
    unfold W. rewrite Edl, cos_PI2, sin_PI2.
    pose proof (circle4_radial_error t Ht) as H4.
    assert (Rabs r * (19608 / 100000000) < tol).
    { apply (Rmult_lt_reg_r (/ tol)); [apply Rinv_0_lt_compat; assumption|].
      unfold Rdiv in *. rewrite Rinv_r by lra.
      replace (Rabs r * (19608 * / 100000000) * / tol) with (Rabs r * / tol * (19608 * / 100000000)) by ring.
      assert (0 < 19608 * / 100000000) by lra.
      apply (Rmult_lt_reg_r (/ (19608 * / 100000000))); [apply Rinv_0_lt_compat; assumption|].
      rewrite Rmult_assoc, Rinv_r by lra. lra. }
    set (e4 := Rabs (sqrt (unit_x arm4 0 1 t ^ 2 + unit_y arm4 0 1 t ^ 2) - 1)) in *.
    assert (0 <= e4) by apply Rabs_pos. nra.
  - (* n >= 5 pieces, arm (4/3) tan (pi/(2n)) *)
    assert (HnR : 5 <= IZR n) by (apply IZR_le in Hn5; exact Hn5).
    set (x := PI / 2 / IZR n).
    assert (E4x : dl = 4 * x) by (unfold dl, x; field; lra).
    pose proof PI_bounds as Hpi.
    assert (Hx : 0 <= x <= 3927/10000).
    { unfold x. split.
      - apply Rmult_le_pos; [lra|]. apply Rlt_le, Rinv_0_lt_compat. lra.
      - apply (Rmult_le_reg_r (IZR n)); [lra|]. unfold Rdiv. rewrite Rmult_assoc, Rinv_l by lra. nra. }
    assert (Hxa : Rabs x <= 3927/10000) by (rewrite Rabs_pos_eq; lra).
    destruct (std_piece_bound x t Ht Hxa) as (_ & Hlo & Hhi). cbv zeta in Hlo, Hhi.
    rewrite <- E4x in Hlo, Hhi.
    change (1 <= sqrt W) in Hlo. change (sqrt W <= 1 + Kc * x ^ 6) in Hhi.
    rewrite (Rabs_pos_eq (sqrt W - 1)) by lra.
    assert (EK : Kc * x ^ 6 = 11163 / 10000 / IZR n ^ 6).
    { unfold Kc, x. field. split; lra. }
    rewrite EK in Hhi.
    assert (Hn6 : 0 < IZR n ^ 6) by (apply pow_lt; lra).
    assert (Hb : Rabs r * (11163 / 10000 / IZR n ^ 6) <= tol).
    { apply (Rmult_le_reg_r (IZR n ^ 6)); [assumption|].
      replace (Rabs r * (11163 / 10000 / IZR n ^ 6) * IZR n ^ 6) with (11163 / 10000 * Rabs r) by (field; lra).
      replace (11163 / 10000 * (Rabs r / tol)) with (11163 / 10000 * Rabs r / tol) in Hpow by (field; lra).
      apply (Rmult_le_compat_r tol) in Hpow; [|lra].
      replace (11163 / 10000 * Rabs r / tol * tol) with (11163 / 10000 * Rabs r) in Hpow by (field; lra).
      lra. }
    assert (sqrt W - 1 <= 11163 / 10000 / IZR n ^ 6) by lra.
    assert (0 <= sqrt W - 1) by lra.
    nra.
Qed.

(** * 4. Arcs *)

Section ArcGeom.
Variables (cx cy rx ry rot arm step a0 : R).
Let C := mkPoint cx cy.
Definition samp (th : R) : Vec2 R := sample_ellipse (mkVec2 rx ry) rot th.
Definition arc_pt (i : nat) : Point R := pt_add_v C (samp (a0 + INR i * step)).
Definition arc_p1 (i : nat) : Point R :=
  let th0 := a0 + INR i * step in pt_add_v C (v_add (samp th0) (s_scale_v arm (samp (th0 + PI / 2)))).
Definition arc_p2 (i : nat) : Point R :=
  let th1 := a0 + INR (S i) * step in pt_add_v C (v_sub (samp th1) (s_scale_v arm (samp (th1 + PI / 2)))).
Definition arc_el (i : nat) : PathEl R := CurveTo (arc_p1 i) (arc_p2 i) (arc_pt (S i)).
Definition arc_cubic (i : nat) : CubicBez R := mkCubic (arc_pt i) (arc_p1 i) (arc_p2 i) (arc_pt (S i)).

(** [ArcAppendIter]: piece i runs from eccentric angle a0 + i*step to a0 + (i+1)*step *)
Lemma arc_iter_spec (fuel i0 : nat) :
  arc_iter fuel C (mkVec2 rx ry) rot arm step (a0 + INR i0 * step) (samp (a0 + INR i0 * step))
  = map arc_el (seq i0 fuel).
Proof.
  revert i0. induction fuel as [|fuel IH]; intros i0; [reflexivity|].
  assert (E : a0 + INR i0 * step + step = a0 + INR (S i0) * step) by (rewrite S_INR; ring).
  cbn [arc_iter seq map]. cbv [frac_pi_2]. rs_unfold. rewrite E.
  f_equal. apply (IH (S i0)).
Qed.

Lemma arc_linked (i0 fuel : nat) : linked nat arc_pt (fun i => arc_pt (S i)) (arc_pt i0) (seq i0 fuel).
Proof.
  revert i0. induction fuel as [|fuel IH]; intros i0; simpl; [exact I|].
  split; [reflexivity | apply IH].
Qed.

Lemma arc_chain (fuel : nat) :
  chain (arc_pt 0) (map arc_el (seq 0 fuel)) = map (fun i => SegCubic (arc_cubic i)) (seq 0 fuel).
Proof. unfold arc_el, arc_cubic. apply chain_curves. apply arc_linked. Qed.

(** a piece is the unit piece rotated to its start angle, stretched by the radii, rotated, moved *)
Lemma arc_cubic_offset (i : nat) (t : R) :
  let A := unit_x arm (cos step) (sin step) t in
  let B := unit_y arm (cos step) (sin step) t in
  let th0 := a0 + INR i * step in
  let U1 := cos th0 * A - sin th0 * B in
  let U2 := sin th0 * A + cos th0 * B in
  cubic_eval (arc_cubic i) t =
  mkPoint (cx + (rx * U1 * cos rot - ry * U2 * sin rot)) (cy + (rx * U1 * sin rot + ry * U2 * cos rot)).
Proof.
  intros A B th0 U1 U2. unfold U1, U2, A, B, arc_cubic, arc_p1, arc_p2, arc_pt, samp, unit_x, unit_y, C.
  replace (a0 + INR (S i) * step) with (th0 + step) by (unfold th0; rewrite S_INR; ring).
  fold th0. sp_unfold.
  repeat (rewrite ?cos_plus, ?sin_plus). rewrite cos_PI2, sin_PI2. f_equal; ring.
Qed.
End ArcGeom.

(** the point of the ideal ellipse nearest (in the pre-image) to an affine image of a vector of norm N >= 1 *)
Lemma ellipse_near cx cy rx ry rot U1 U2 :
  let N := sqrt (U1 ^ 2 + U2 ^ 2) in
  1 <= N ->
  within (Rmax (Rabs rx) (Rabs ry) * (N - 1))
         (on_ellipse (mkPoint cx cy) (mkVec2 rx ry) rot)
         (mkPoint (cx + (rx * U1 * cos rot - ry * U2 * sin rot)) (cy + (rx * U1 * sin rot + ry * U2 * cos rot))).
Proof.
  intros N HN.
  assert (HN0 : N <> 0) by lra.
  assert (HNN : N * N = U1 ^ 2 + U2 ^ 2).
  { unfold N. rewrite sqrt_sqrt; [reflexivity|]. nra. }
  set (w1 := U1 / N). set (w2 := U2 / N).
  exists (mkPoint (cx + (rx * w1 * cos rot - ry * w2 * sin rot)) (cy + (rx * w1 * sin rot + ry * w2 * cos rot))).
  split.
  - exists w1, w2. split.
    + unfold w1, w2. replace ((U1 / N) ^ 2 + (U2 / N) ^ 2) with ((U1 ^ 2 + U2 ^ 2) / (N * N)) by (field; assumption).
      rewrite HNN. field. rewrite <- HNN. nra.
    + sp_unfold. reflexivity.
  - unfold dist. cbn [px py].
    set (m := Rmax (Rabs rx) (Rabs ry)).
    assert (Hm0 : 0 <= m) by (unfold m; pose proof (Rabs_pos rx); pose proof (Rmax_l (Rabs rx) (Rabs ry)); lra).
    set (d1 := U1 - w1). set (d2 := U2 - w2).
    pose proof (cos_sin_1 rot) as Hcs.
    replace ((cx + (rx * U1 * cos rot - ry * U2 * sin rot) - (cx + (rx * w1 * cos rot - ry * w2 * sin rot))) ^ 2 +
             (cy + (rx * U1 * sin rot + ry * U2 * cos rot) - (cy + (rx * w1 * sin rot + ry * w2 * cos rot))) ^ 2)
      with ((cos rot * cos rot + sin rot * sin rot) * ((rx * d1) ^ 2 + (ry * d2) ^ 2)) by (unfold d1, d2; ring).
    rewrite Hcs, Rmult_1_l.
    assert (Hd : d1 ^ 2 + d2 ^ 2 = (N - 1) ^ 2).
    { unfold d1, d2, w1, w2.
      replace ((U1 - U1 / N) ^ 2 + (U2 - U2 / N) ^ 2) with ((U1 ^ 2 + U2 ^ 2) * ((N - 1) / N) ^ 2) by (field; assumption).
      rewrite <- HNN. field. assumption. }
    assert (Hrx : rx ^ 2 <= m ^ 2).
    { replace (rx ^ 2) with (Rabs rx ^ 2) by (rewrite <- !Rsqr_pow2, <- Rsqr_abs; reflexivity).
      apply pow_incr. split; [apply Rabs_pos | apply Rmax_l]. }
    assert (Hry : ry ^ 2 <= m ^ 2).
    { replace (ry ^ 2) with (Rabs ry ^ 2) by (rewrite <- !Rsqr_pow2, <- Rsqr_abs; reflexivity).
      apply pow_incr. split; [apply Rabs_pos | apply Rmax_r]. }
    assert (Hle : (rx * d1) ^ 2 + (ry * d2) ^ 2 <= (m * (N - 1)) ^ 2).
    { replace ((m * (N - 1)) ^ 2) with (m ^ 2 * (d1 ^ 2 + d2 ^ 2)) by (rewrite Hd; ring).
      assert (0 <= d1 ^ 2) by apply pow2_ge_0. assert (0 <= d2 ^ 2) by apply pow2_ge_0. nra. }
    assert (H0 : 0 <= m * (N - 1)) by (apply Rmult_le_pos; lra).
    rewrite <- (sqrt_pow2 (m * (N - 1)) H0). apply sqrt_le_1_alt. exact Hle.
Qed.

Lemma Rsignum_tan (sw x : R) : (0 <= sw -> 0 <= x) -> (sw < 0 -> x <= 0) ->
  tan (Rabs x) * Rsignum sw = tan x.
Proof.
  intros Hp Hn. unfold Rsignum. destruct (Rle_dec 0 sw) as [H | H].
  - rewrite Rabs_pos_eq by auto. ring.
  - apply Rnot_le_lt in H. specialize (Hn H).
    rewrite <- Rabs_Ropp, Rabs_pos_eq by lra. rewrite tan_neg. ring.
Qed.

(** what [Arc::append_iter] picks *)
Lemma arc_params_spec (a : Arc R) (tol : R) :
  let sw := arc_sweep_angle a in
  let p := arc_params a tol in
  let n := ap_n p in let step := ap_angle_step p in
  (0 <= n)%Z /\ (sw = 0 -> n = 0%Z) /\ (sw <> 0 -> (1 <= n)%Z) /\
  IZR n * step = sw /\
  ap_arm_len p = 4 / 3 * tan (step / 4) /\
  Rabs (step / 4) <= 3927 / 10000 /\
  (0 < tol -> Rmax (vx (arc_radii a)) (vy (arc_radii a)) * (Kc * (step / 4) ^ 6) <= tol).
Proof.
  intros sw p n step.
  destruct a as [ctr [rx ry] st sw' rot]. subst sw p n step. unfold arc_params.
  cbn [arc_sweep_angle arc_radii vx vy ap_n ap_angle_step ap_arm_len].
  cbv [c_1_1163 c_3_999999 c_quarter one_sixth_ four_thirds inv_two_pi two_pi]. rs_unfold.
  cbv [Q2R Qnum Qden]. rename sw' into sw.
  set (m := Rmax rx ry). set (se := m / tol).
  set (v := Rpowf (11163 * / 10000 * se) (1 / 6)).
  set (ne := Rmax v (3999999 * / 1000000)).
  set (q := ne * Rabs sw * (1 / (2 * PI))).
  pose proof PI_bounds as Hpi.
  assert (Hne : 3999999 / 1000000 <= ne) by (unfold ne; apply Rmax_r).
  assert (Hq0 : 0 <= q).
  { unfold q. apply Rmult_le_pos; [apply Rmult_le_pos; [lra | apply Rabs_pos]|].
    apply Rlt_le. unfold Rdiv. rewrite Rmult_1_l. apply Rinv_0_lt_compat. lra. }
  rewrite usize_of_ceil by exact Hq0.
  set (n := Zceil q).
  assert (Hnq : q <= IZR n) by apply Zceil_ub.
  assert (Hn0 : (0 <= n)%Z) by (apply le_IZR; lra).
  split; [exact Hn0|].
  split.
  { intros ->. unfold n, q. rewrite Rabs_R0, Rmult_0_r, Rmult_0_l. apply (Zceil_IZR 0). }
  assert (Hpos : sw <> 0 -> 0 < q).
  { intros Hsw. unfold q. apply Rmult_lt_0_compat; [apply Rmult_lt_0_compat; [lra | apply Rabs_pos_lt; exact Hsw]|].
    unfold Rdiv. rewrite Rmult_1_l. apply Rinv_0_lt_compat. lra. }
  split.
  { intros Hsw. specialize (Hpos Hsw). assert (0 < IZR n) by lra. apply lt_IZR in H. lia. }
  destruct (Req_dec sw 0) as [Hz | Hnz].
  { (* zero sweep: n = 0, step = 0/0 = 0 *)
    subst sw. assert (En : n = 0%Z).
    { unfold n, q. rewrite Rabs_R0, Rmult_0_r, Rmult_0_l. apply (Zceil_IZR 0). }
    rewrite En.
    assert (E0 : 0 / IZR 0 = 0) by (unfold Rdiv; apply Rmult_0_l).
    rewrite E0.
    assert (E1 : 0 / 4 = 0) by (unfold Rdiv; apply Rmult_0_l).
    rewrite E1.
    split. { ring. }
    split. { replace (1 * / 4 * 0) with 0 by ring. rewrite Rabs_R0, tan_0. ring. }
    split. { rewrite Rabs_R0. lra. }
    intros Htol. replace (0 ^ 6) with 0 by ring. rewrite !Rmult_0_r. lra. }
  specialize (Hpos Hnz).
  assert (HnR : 0 < IZR n) by lra.
  set (step := sw / IZR n).
  split. { unfold step. field. lra. }
  assert (Hstep : Rabs step <= 2 * PI / ne).
  { unfold step. unfold Rdiv. rewrite Rabs_mult, (Rabs_pos_eq (/ IZR n)) by (apply Rlt_le, Rinv_0_lt_compat; lra).
    apply (Rmult_le_reg_r (IZR n)); [lra|]. rewrite Rmult_assoc, Rinv_l by lra. rewrite Rmult_1_r.
    apply Rle_trans with (2 * PI * / ne * q).
    - unfold q. right. field. split; lra.
    - apply Rmult_le_compat_l; [|exact Hnq]. apply Rmult_le_pos; [lra|]. apply Rlt_le, Rinv_0_lt_compat. lra. }
  assert (Hx : Rabs (step / 4) <= PI / (2 * ne)).
  { unfold Rdiv at 1. rewrite Rabs_mult, (Rabs_pos_eq (/ 4)) by lra.
    replace (PI / (2 * ne)) with (2 * PI / ne * / 4) by (field; lra). lra. }
  split.
  { (* the arm *)
    replace (1 * / 4 * step) with (step / 4) by field. rewrite Rmult_assoc. f_equal.
    apply Rsignum_tan.
    - intros H. unfold step. apply Rmult_le_pos; [|apply Rlt_le, Rinv_0_lt_compat; lra].
      unfold Rdiv. apply Rmult_le_pos; [exact H | apply Rlt_le, Rinv_0_lt_compat; lra].
    - intros H. unfold step. 
      assert (sw / IZR n < 0). { unfold Rdiv. apply (Rmult_lt_reg_r (IZR n)); [lra|]. rewrite Rmult_assoc, Rinv_l by lra. lra. }
      lra. }
  split.
  { apply Rle_trans with (PI / (2 * ne)); [exact Hx|].
    apply Rle_trans with (PI / (2 * (3999999 / 1000000))); [|apply xmax_bound].
    unfold Rdiv. apply Rmult_le_compat_l; [lra|]. apply Rinv_le_contravar; lra. }
  intros Htol.
  (* Kc x^6 <= 1.1163 / ne^6 <= tol / m *)
  pose proof Kc_pos as HK.
  set (x := step / 4) in *.
  assert (Hx6 : x ^ 6 <= (PI / (2 * ne)) ^ 6).
  { rewrite (proj2 (proj2 (even_facts x))).
    apply pow_incr. split; [apply Rabs_pos | exact Hx]. }
  assert (Hne6 : 0 < ne ^ 6) by (apply pow_lt; lra).
  assert (EK : Kc * (PI / (2 * ne)) ^ 6 = 11163 / 10000 / ne ^ 6).
  { unfold Kc. field. split; lra. }
  assert (HKx : Kc * x ^ 6 <= 11163 / 10000 / ne ^ 6).
  { rewrite <- EK. apply Rmult_le_compat_l; lra. }
  assert (HKx0 : 0 <= Kc * x ^ 6).
  { apply Rmult_le_pos; [lra|]. replace (x ^ 6) with ((x ^ 3) ^ 2) by ring. apply pow2_ge_0. }
  destruct (Rle_dec m 0) as [Hm | Hm].
  { (* both radii non-positive: the bound is trivial or m = 0 *)
    apply Rle_trans with 0; [|lra]. 
    replace 0 with (0 * (Kc * x ^ 6)) by ring. apply Rmult_le_compat_r; assumption. }
  apply Rnot_le_lt in Hm.
  assert (Hse : 0 < se) by (unfold se; apply Rmult_lt_0_compat; [exact Hm | apply Rinv_0_lt_compat; exact Htol]).
  set (y := 11163 * / 10000 * se) in *.
  assert (Hy : 0 < y) by (unfold y; lra).
  assert (Hv : v = Rpower y (1 / 6)).
  { unfold v, Rpowf. destruct (Req_EM_T (1 / 6) 0); [lra|]. destruct (Rlt_dec 0 y); [reflexivity | lra]. }
  assert (Hv6 : y <= ne ^ 6).
  { rewrite <- (Rpower_sixth_pow y Hy), <- Hv. apply pow_incr. split.
    - rewrite Hv. apply Rlt_le, exp_pos.
    - unfold ne. apply Rmax_l. }
  apply Rle_trans with (m * (11163 / 10000 / ne ^ 6)).
  { apply Rmult_le_compat_l; lra. }
  apply (Rmult_le_reg_r (ne ^ 6)); [exact Hne6|].
  replace (m * (11163 / 10000 / ne ^ 6) * ne ^ 6) with (11163 / 10000 * m) by (field; lra).
  assert (Ey : y * tol = 11163 / 10000 * m) by (unfold y, se; field; lra).
  rewrite <- Ey. rewrite (Rmult_comm tol). apply Rmult_le_compat_r; lra.
Qed.

(** the element list of [Arc::append_iter]: n pieces tiling [start, start + sweep] *)
Lemma arc_append_ideal (a : Arc R) (tol : R) :
  let p := arc_params a tol in
  arc_append_elements a tol =
  map (arc_el (px (arc_center a)) (py (arc_center a)) (vx (arc_radii a)) (vy (arc_radii a))
              (arc_x_rotation a) (ap_arm_len p) (ap_angle_step p) (arc_start_angle a))
      (seq 0 (Z.to_nat (ap_n p))).
Proof.
  intros p. unfold arc_append_elements. fold p.
  destruct a as [[cx cy] [rx ry] a0 sw rot]. cbn [arc_center arc_radii arc_x_rotation arc_start_angle px py vx vy].
  rewrite <- (arc_iter_spec cx cy rx ry rot (ap_arm_len p) (ap_angle_step p) a0 (Z.to_nat (ap_n p)) 0).
  unfold samp. simpl INR. replace (a0 + 0 * ap_angle_step p) with a0 by ring. reflexivity.
Qed.

Lemma arc_start_pt (a : Arc R) step :
  pt_add_v (arc_center a) (sample_ellipse (arc_radii a) (arc_x_rotation a) (arc_start_angle a)) =
  arc_pt (px (arc_center a)) (py (arc_center a)) (vx (arc_radii a)) (vy (arc_radii a))
         (arc_x_rotation a) step (arc_start_angle a) 0.
Proof.
  destruct a as [[cx cy] [rx ry] a0 sw rot]. unfold arc_pt, samp. simpl INR.
  cbn [arc_center arc_radii arc_x_rotation arc_start_angle px py vx vy].
  replace (a0 + 0 * step) with a0 by ring. reflexivity.
Qed.

(** every point of an arc's outline is within the tolerance of the ideal ellipse *)
Lemma arc_within_tolerance (a : Arc R) (tol : R) P :
  0 < tol -> 0 <= vx (arc_radii a) -> 0 <= vy (arc_radii a) ->
  on_outline (pt_add_v (arc_center a) (sample_ellipse (arc_radii a) (arc_x_rotation a) (arc_start_angle a)))
             (arc_append_elements a tol) P ->
  within tol (on_ellipse (arc_center a) (arc_radii a) (arc_x_rotation a)) P.
Proof.
  intros Htol Hrx Hry Hon.
  destruct (arc_params_spec a tol) as (_ & _ & _ & _ & Harm & Hx & Hb). specialize (Hb Htol).
  set (p := arc_params a tol) in *.
  rewrite (arc_append_ideal a tol) in Hon. fold p in Hon.
  rewrite (arc_start_pt a (ap_angle_step p)) in Hon.
  destruct Hon as (s & t & Hin & Ht & ->).
  rewrite arc_chain in Hin. apply in_map_iff in Hin. destruct Hin as (i & <- & _). cbn [seg_eval].
  rewrite arc_cubic_offset. rewrite Harm.
  set (step := ap_angle_step p) in *. set (x := step / 4) in *.
  destruct a as [[cx cy] [rx ry] a0 sw rot]. cbn [arc_center arc_radii arc_x_rotation arc_start_angle px py vx vy] in *.
  destruct (std_piece_bound x t Ht Hx) as (_ & Hlo & Hhi). cbv zeta in Hlo, Hhi.
  replace (4 * x) with step in Hlo, Hhi by (unfold x; field).
  set (A := unit_x (4 / 3 * tan x) (cos step) (sin step) t) in *.
  set (B := unit_y (4 / 3 * tan x) (cos step) (sin step) t) in *.
  set (th0 := a0 + INR i * step).
  set (U1 := cos th0 * A - sin th0 * B). set (U2 := sin th0 * A + cos th0 * B).
  assert (EN : U1 ^ 2 + U2 ^ 2 = A ^ 2 + B ^ 2) by (apply rot_norm, cos_sin_1).
  destruct (ellipse_near cx cy rx ry rot U1 U2) as (Q & HQ & Hd).
  { rewrite EN. exact Hlo. }
  exists Q. split; [exact HQ|].
  eapply Rle_trans; [exact Hd|]. rewrite EN.
  rewrite !Rabs_pos_eq by assumption.
  apply Rle_trans with (Rmax rx ry * (Kc * x ^ 6)); [|exact Hb].
  apply Rmult_le_compat_l; [|lra].
  apply Rle_trans with rx; [assumption | apply Rmax_l].
Qed.

(** * 8. The nearest ideal point stays inside the piece's own angular range *)

(** a vector counter-clockwise of (1,0) and clockwise of (cos dl, sin dl) points at an angle in [0, dl] *)
Lemma direction_in_wedge p q dl : 0 < dl < PI ->
  0 <= q -> 0 <= p * sin dl - q * cos dl ->
  let N := sqrt (p * p + q * q) in 0 < N ->
  exists psi, 0 <= psi <= dl /\ p = N * cos psi /\ q = N * sin psi.
Proof.
  intros Hdl Hq Hw N HN.
  assert (HNN : N * N = p * p + q * q) by (unfold N; apply sqrt_sqrt; nra).
  assert (Hx : -1 <= p / N <= 1).
  { assert (Hp : p * p <= N * N) by nra.
    split; apply (Rmult_le_reg_r N); try lra; unfold Rdiv; rewrite Rmult_assoc, Rinv_l by lra; nra. }
  set (psi := acos (p / N)).
  destruct (acos_bound (p / N)) as [Hp0 Hp1]. fold psi in Hp0, Hp1.
  assert (Ec : cos psi = p / N) by (apply cos_acos; exact Hx).
  assert (Es : sin psi = q / N).
  { unfold psi. rewrite sin_acos by exact Hx.
    replace (1 - (p / N)²) with ((q / N)²) by (unfold Rsqr; field_simplify_eq; [nra | lra]).
    apply sqrt_Rsqr. apply Rmult_le_pos; [exact Hq | apply Rlt_le, Rinv_0_lt_compat; exact HN]. }
  exists psi. split; [split; [exact Hp0|] | split].
  - destruct (Rle_dec psi dl) as [H | H]; [exact H | exfalso]. apply Rnot_le_lt in H.
    assert (Hs : 0 < sin (psi - dl)) by (apply sin_gt_0; lra).
    rewrite sin_minus, Ec, Es in Hs.
    assert (Hs' : 0 < (q * cos dl - p * sin dl) / N).
    { replace ((q * cos dl - p * sin dl) / N) with (q / N * cos dl - p / N * sin dl) by (field; lra). exact Hs. }
    assert (0 < q * cos dl - p * sin dl).
    { apply (Rmult_lt_reg_r (/ N)); [apply Rinv_0_lt_compat; exact HN|]. rewrite Rmult_0_l. exact Hs'. }
    lra.
  - rewrite Ec. field. lra.
  - rewrite Es. field. lra.
Qed.

Lemma tan_range x : 0 <= x <= 3927/10000 -> 0 <= tan x <= 1.
Proof.
  intros Hx. pose proof PI_bounds as Hpi.
  destruct (Req_dec x 0) as [-> | Hx0]; [rewrite tan_0; lra|].
  split.
  - apply Rlt_le, tan_gt_0; lra.
  - rewrite <- tan_PI4. apply Rlt_le, tan_increasing; lra.
Qed.

(** the standard piece of angle 4x > 0 stays in the wedge between its two end directions *)
Lemma std_piece_in_wedge x t : 0 <= t <= 1 -> 0 < x <= 3927/10000 ->
  let k := 4/3 * tan x in
  let A := unit_x k (cos (4*x)) (sin (4*x)) t in
  let B := unit_y k (cos (4*x)) (sin (4*x)) t in
  0 <= B /\ 0 <= A * sin (4*x) - B * cos (4*x).
Proof.
  intros Ht Hx k A B. pose proof PI_bounds as Hpi. pose proof xmax_lt_pi2 as Hpi2.
  assert (Hc : cos x <> 0) by (assert (0 < cos x) by (apply cos_gt_0; lra); lra).
  destruct (cos_sin_4x x Hc) as [E1 E2]. cbv zeta in E1, E2.
  destruct (tan_range x) as [Ht0 Ht1]; [lra|].
  set (tau := tan x) in *. set (C := cos (4 * x)) in *. set (S := sin (4 * x)) in *.
  assert (HS : 0 <= S) by (unfold S; apply sin_ge_0; lra).
  assert (Hk : 0 <= k) by (unfold k; lra).
  assert (HCS : C * C + S * S = 1) by (unfold C, S; apply cos_sin_1).
  assert (HSk : 0 <= S - k * C).
  { assert (E : S - k * C = 4 * tau / 3 * (2 + 3 * tau ^ 2 - tau ^ 4) / (1 + tau ^ 2) ^ 2).
    { unfold k. rewrite E1, E2. field. nra. }
    rewrite E.
    assert (Hu : 0 <= tau ^ 2 <= 1) by nra.
    assert (0 <= 2 + 3 * tau ^ 2 - tau ^ 4) by (replace (tau ^ 4) with (tau ^ 2 * tau ^ 2) by ring; nra).
    apply Rmult_le_pos; [apply Rmult_le_pos; [lra | assumption]|].
    apply Rlt_le, Rinv_0_lt_compat. nra. }
  assert (H1 : 0 <= (1 - t) ^ 3) by (apply pow_le; lra).
  assert (H2 : 0 <= (1 - t) ^ 2 * t) by (apply Rmult_le_pos; [apply pow2_ge_0 | lra]).
  assert (H3 : 0 <= (1 - t) * t ^ 2) by (apply Rmult_le_pos; [lra | apply pow2_ge_0]).
  assert (H4 : 0 <= t ^ 3) by (apply pow_le; lra).
  split.
  - unfold B, unit_y.
    replace (3 * (1 - t) ^ 2 * t * k + 3 * (1 - t) * t ^ 2 * (S - k * C) + t ^ 3 * S)
      with (3 * ((1 - t) ^ 2 * t) * k + 3 * ((1 - t) * t ^ 2) * (S - k * C) + t ^ 3 * S) by ring.
    assert (0 <= (1 - t) ^ 2 * t * k) by (apply Rmult_le_pos; assumption).
    assert (0 <= (1 - t) * t ^ 2 * (S - k * C)) by (apply Rmult_le_pos; assumption).
    assert (0 <= t ^ 3 * S) by (apply Rmult_le_pos; assumption). lra.
  - replace (A * S - B * C)
      with ((1 - t) ^ 3 * S + 3 * ((1 - t) ^ 2 * t) * (S - k * C) + 3 * ((1 - t) * t ^ 2) * k * (C * C + S * S))
      by (unfold A, B, unit_x, unit_y; ring).
    rewrite HCS.
    assert (0 <= (1 - t) ^ 3 * S) by (apply Rmult_le_pos; assumption).
    assert (0 <= (1 - t) ^ 2 * t * (S - k * C)) by (apply Rmult_le_pos; assumption).
    assert (0 <= (1 - t) * t ^ 2 * k) by (apply Rmult_le_pos; assumption). lra.
Qed.

(** mirror symmetry of the unit piece *)
Lemma unit_piece_mirror k C S t :
  unit_x (- k) C (- S) t = unit_x k C S t /\ unit_y (- k) C (- S) t = - unit_y k C S t.
Proof. unfold unit_x, unit_y. split; ring. Qed.

(** direction of a point of the standard piece of (signed) angle dl = 4x: angle u*dl for some u in [0,1] *)
Lemma std_piece_direction x t : 0 <= t <= 1 -> x <> 0 -> Rabs x <= 3927/10000 ->
  let k := 4/3 * tan x in
  let A := unit_x k (cos (4*x)) (sin (4*x)) t in
  let B := unit_y k (cos (4*x)) (sin (4*x)) t in
  let N := sqrt (A ^ 2 + B ^ 2) in
  exists u, 0 <= u <= 1 /\ A = N * cos (u * (4*x)) /\ B = N * sin (u * (4*x)).
Proof.
  intros Ht Hx0 Hx k A B N. pose proof PI_bounds as Hpi.
  destruct (std_piece_bound x t Ht Hx) as (HW & HN1 & _). cbv zeta in HW, HN1. fold k A B in HW, HN1. fold N in HN1.
  destruct (Rlt_dec 0 x) as [Hpos | Hneg].
  - rewrite Rabs_pos_eq in Hx by lra.
    destruct (std_piece_in_wedge x t Ht (conj Hpos Hx)) as [HB Hw]. fold k A B in HB, Hw.
    destruct (direction_in_wedge A B (4 * x)) as (psi & Hpsi & EA & EB); try assumption; try lra.
    { replace (A * A + B * B) with (A ^ 2 + B ^ 2) by ring. fold N. lra. }
    replace (A * A + B * B) with (A ^ 2 + B ^ 2) in EA, EB by ring. fold N in EA, EB.
    exists (psi / (4 * x)). split.
    + split; [apply Rmult_le_pos; [lra | apply Rlt_le, Rinv_0_lt_compat; lra]|].
      apply (Rmult_le_reg_r (4 * x)); [lra|]. unfold Rdiv. rewrite Rmult_assoc, Rinv_l by lra. lra.
    + replace (psi / (4 * x) * (4 * x)) with psi by (field; lra). split; assumption.
  - assert (Hx' : 0 < - x) by lra. set (y := - x).
    assert (Hy : 0 < y <= 3927/10000). { split; [exact Hx'|]. unfold y. rewrite <- Rabs_Ropp in Hx. rewrite Rabs_pos_eq in Hx; lra. }
    destruct (std_piece_in_wedge y t Ht Hy) as [HB Hw]. cbv zeta in HB, Hw.
    assert (Ek : 4 / 3 * tan y = - k) by (unfold y, k; rewrite tan_neg; ring).
    assert (Ec : cos (4 * y) = cos (4 * x)) by (unfold y; replace (4 * - x) with (- (4 * x)) by ring; apply cos_neg).
    assert (Es : sin (4 * y) = - sin (4 * x)) by (unfold y; replace (4 * - x) with (- (4 * x)) by ring; apply sin_neg).
    rewrite Ek, Ec, Es in HB, Hw.
    destruct (unit_piece_mirror k (cos (4 * x)) (sin (4 * x)) t) as [Mx My].
    rewrite Mx, My in Hw. rewrite My in HB. fold A B in HB, Hw. rewrite <- Ec, <- Es in Hw.
    destruct (direction_in_wedge A (- B) (4 * y)) as (psi & Hpsi & EA & EB); try assumption; try lra.
    { replace (A * A + - B * - B) with (A ^ 2 + B ^ 2) by ring. fold N. lra. }
    replace (A * A + - B * - B) with (A ^ 2 + B ^ 2) in EA, EB by ring. fold N in EA, EB.
    exists (psi / (4 * y)). split.
    + split; [apply Rmult_le_pos; [lra | apply Rlt_le, Rinv_0_lt_compat; lra]|].
      apply (Rmult_le_reg_r (4 * y)); [lra|]. unfold Rdiv. rewrite Rmult_assoc, Rinv_l by lra. lra.
    + replace (psi / (4 * y) * (4 * x)) with (- psi) by (unfold y; field; lra).
      rewrite cos_neg, sin_neg. split; lra.
Qed.

Lemma ellipse_near_param cx cy rx ry rot N phi : 1 <= N ->
  dist (mkPoint (cx + (rx * (N * cos phi) * cos rot - ry * (N * sin phi) * sin rot))
                (cy + (rx * (N * cos phi) * sin rot + ry * (N * sin phi) * cos rot)))
       (pt_add_v (mkPoint cx cy) (sample_ellipse (mkVec2 rx ry) rot phi))
  <= Rmax (Rabs rx) (Rabs ry) * (N - 1).
Proof.
  intros HN. unfold dist. sp_unfold.
  set (m := Rmax (Rabs rx) (Rabs ry)).
  assert (Hm0 : 0 <= m) by (unfold m; pose proof (Rabs_pos rx); pose proof (Rmax_l (Rabs rx) (Rabs ry)); lra).
  pose proof (cos_sin_1 rot) as Hcs. pose proof (cos_sin_1 phi) as Hcp.
  replace ((cx + (rx * (N * cos phi) * cos rot - ry * (N * sin phi) * sin rot) - (cx + (rx * cos phi * cos rot - ry * sin phi * sin rot))) ^ 2 +
           (cy + (rx * (N * cos phi) * sin rot + ry * (N * sin phi) * cos rot) - (cy + (rx * cos phi * sin rot + ry * sin phi * cos rot))) ^ 2)
    with ((cos rot * cos rot + sin rot * sin rot) * ((N - 1) ^ 2 * ((rx * cos phi) ^ 2 + (ry * sin phi) ^ 2))) by ring.
  rewrite Hcs, Rmult_1_l.
  assert (Hrx : rx ^ 2 <= m ^ 2).
  { replace (rx ^ 2) with (Rabs rx ^ 2) by (rewrite <- !Rsqr_pow2, <- Rsqr_abs; reflexivity).
    apply pow_incr. split; [apply Rabs_pos | apply Rmax_l]. }
  assert (Hry : ry ^ 2 <= m ^ 2).
  { replace (ry ^ 2) with (Rabs ry ^ 2) by (rewrite <- !Rsqr_pow2, <- Rsqr_abs; reflexivity).
    apply pow_incr. split; [apply Rabs_pos | apply Rmax_r]. }
  assert (Hle : (rx * cos phi) ^ 2 + (ry * sin phi) ^ 2 <= m ^ 2).
  { assert (0 <= cos phi * cos phi) by nra. assert (0 <= sin phi * sin phi) by nra.
    replace (m ^ 2) with (m ^ 2 * (cos phi * cos phi + sin phi * sin phi)) by (rewrite Hcp; ring). nra. }
  assert (H0 : 0 <= m * (N - 1)) by (apply Rmult_le_pos; lra).
  rewrite <- (sqrt_pow2 (m * (N - 1)) H0). apply sqrt_le_1_alt.
  assert (0 <= (N - 1) ^ 2) by apply pow2_ge_0.
  replace ((m * (N - 1)) ^ 2) with ((N - 1) ^ 2 * m ^ 2) by ring.
  apply Rmult_le_compat_l; assumption.
Qed.

(** every point of an arc's outline is within the tolerance of the ideal ARC: the witness on the
    ellipse has its eccentric angle inside [start, start + sweep] *)
Lemma arc_within_tolerance_of_arc (a : Arc R) (tol : R) P :
  0 < tol -> 0 <= vx (arc_radii a) -> 0 <= vy (arc_radii a) ->
  on_outline (pt_add_v (arc_center a) (sample_ellipse (arc_radii a) (arc_x_rotation a) (arc_start_angle a)))
             (arc_append_elements a tol) P ->
  within tol (on_arc (arc_center a) (arc_radii a) (arc_x_rotation a) (arc_start_angle a) (arc_sweep_angle a)) P.
Proof.
  intros Htol Hrx Hry Hon.
  destruct (arc_params_spec a tol) as (Hn0 & Hz & _ & Hsw & Harm & Hx & Hb). specialize (Hb Htol).
  set (p := arc_params a tol) in *.
  rewrite (arc_append_ideal a tol) in Hon. fold p in Hon.
  rewrite (arc_start_pt a (ap_angle_step p)) in Hon.
  destruct Hon as (s & t & Hin & Ht & ->).
  rewrite arc_chain in Hin. apply in_map_iff in Hin. destruct Hin as (i & <- & Hi). cbn [seg_eval].
  apply in_seq in Hi.
  rewrite arc_cubic_offset. rewrite Harm.
  set (step := ap_angle_step p) in *. set (x := step / 4) in *. set (n := ap_n p) in *.
  destruct a as [[cx cy] [rx ry] a0 sw rot]. cbn [arc_center arc_radii arc_x_rotation arc_start_angle arc_sweep_angle px py vx vy] in *.
  assert (HnR : INR (Z.to_nat n) = IZR n) by (rewrite INR_IZR_INZ, Z2Nat.id by exact Hn0; reflexivity).
  assert (Hn1 : 1 <= IZR n).
  { rewrite <- HnR. replace 1 with (INR 1) by reflexivity. apply le_INR. lia. }
  assert (Hsw0 : sw <> 0).
  { intros E. specialize (Hz E). fold n in Hz. rewrite Hz in Hn1. simpl in Hn1. lra. }
  assert (Hstep : step <> 0) by (intros E; rewrite E, Rmult_0_r in Hsw; auto).
  assert (Hx0 : x <> 0) by (unfold x; intros E; apply Hstep; lra).
  destruct (std_piece_bound x t Ht Hx) as (_ & Hlo & Hhi). cbv zeta in Hlo, Hhi.
  destruct (std_piece_direction x t Ht Hx0 Hx) as (u & Hu & EA & EB). cbv zeta in EA, EB.
  replace (4 * x) with step in Hlo, Hhi, EA, EB by (unfold x; field).
  set (A := unit_x (4 / 3 * tan x) (cos step) (sin step) t) in *.
  set (B := unit_y (4 / 3 * tan x) (cos step) (sin step) t) in *.
  set (N := sqrt (A ^ 2 + B ^ 2)) in *.
  set (th0 := a0 + INR i * step).
  set (phi := th0 + u * step).
  assert (EU1 : cos th0 * A - sin th0 * B = N * cos phi).
  { unfold phi. rewrite cos_plus. rewrite EA at 1. rewrite EB at 1. ring. }
  assert (EU2 : sin th0 * A + cos th0 * B = N * sin phi).
  { unfold phi. rewrite sin_plus. rewrite EA at 1. rewrite EB at 1. ring. }
  rewrite EU1, EU2.
  exists (pt_add_v (mkPoint cx cy) (sample_ellipse (mkVec2 rx ry) rot phi)). split.
  - (* the witness is on the arc *)
    exists ((INR i + u) / IZR n). split.
    + assert (Hi' : INR i + 1 <= IZR n).
      { rewrite <- HnR. rewrite <- S_INR. apply le_INR. lia. }
      pose proof (pos_INR i).
      split.
      * apply Rmult_le_pos; [lra | apply Rlt_le, Rinv_0_lt_compat; lra].
      * apply (Rmult_le_reg_r (IZR n)); [lra|]. unfold Rdiv. rewrite Rmult_assoc, Rinv_l by lra. lra.
    + do 2 f_equal. unfold phi, th0. rewrite <- Hsw. field. lra.
  - eapply Rle_trans; [apply ellipse_near_param; exact Hlo|].
    rewrite !Rabs_pos_eq by assumption.
    apply Rle_trans with (Rmax rx ry * (Kc * x ^ 6)); [|exact Hb].
    apply Rmult_le_compat_l; [|lra].
    apply Rle_trans with rx; [assumption | apply Rmax_l].
Qed.

(** ** where an arc's outline ends *)
Lemma arc_contour_end cx cy rx ry rot arm step a0 (n : nat) :
  contour_end (arc_pt cx cy rx ry rot step a0 0) (map (arc_el cx cy rx ry rot arm step a0) (seq 0 n))
  = arc_pt cx cy rx ry rot step a0 n.
Proof.
  unfold arc_el. rewrite contour_end_curves.
  destruct n as [|k]; [reflexivity|].
  rewrite seq_S, map_app. cbn [map]. rewrite last_last. reflexivity.
Qed.

Lemma arc_end_pt (a : Arc R) (tol : R) :
  let p := arc_params a tol in
  arc_pt (px (arc_center a)) (py (arc_center a)) (vx (arc_radii a)) (vy (arc_radii a))
         (arc_x_rotation a) (ap_angle_step p) (arc_start_angle a) (Z.to_nat (ap_n p)) =
  pt_add_v (arc_center a)
           (sample_ellipse (arc_radii a) (arc_x_rotation a) (arc_start_angle a + arc_sweep_angle a)).
Proof.
  intros p. destruct (arc_params_spec a tol) as (Hn0 & _ & _ & Hsw & _). fold p in Hn0, Hsw.
  destruct a as [[cx cy] [rx ry] a0 sw rot]. cbn [arc_center arc_radii arc_x_rotation arc_start_angle arc_sweep_angle px py vx vy] in *.
  unfold arc_pt, samp. rewrite INR_IZR_INZ, Z2Nat.id by exact Hn0. rewrite Hsw. reflexivity.
Qed.

(** start, body and end of an arc's own contour *)
Lemma arc_contour (a : Arc R) (tol : R) :
  let start := pt_add_v (arc_center a) (sample_ellipse (arc_radii a) (arc_x_rotation a) (arc_start_angle a)) in
  let body := arc_append_elements a tol in
  open_contour (arc_path_elements a tol) start body /\
  forallb is_curve body = true /\
  length body = Z.to_nat (ap_n (arc_params a tol)) /\
  contour_end start body =
    pt_add_v (arc_center a) (sample_ellipse (arc_radii a) (arc_x_rotation a) (arc_start_angle a + arc_sweep_angle a)).
Proof.
  intros start body. unfold body. rewrite (arc_append_ideal a tol).
  split. { split; [unfold arc_path_elements; rewrite (arc_append_ideal a tol); reflexivity|].
           apply forallb_map_const. reflexivity. }
  split. { apply forallb_map_const. reflexivity. }
  split. { rewrite map_length, seq_length. reflexivity. }
  unfold start. rewrite (arc_start_pt a (ap_angle_step (arc_params a tol))).
  rewrite arc_contour_end. apply arc_end_pt.
Qed.

Lemma sample_period radii rot th : sample_ellipse radii rot (th + 2 * PI) = sample_ellipse radii rot th.
Proof.
  unfold sample_ellipse. rs_unfold. rewrite cos_plus, sin_plus, cos_2PI, sin_2PI.
  replace (cos th * 1 - sin th * 0) with (cos th) by ring.
  replace (sin th * 1 + cos th * 0) with (sin th) by ring. reflexivity.
Qed.

(** ** Ellipse: a full turn of its SVD arc; returns to its start *)
Lemma ellipse_contour (e : Ellipse R) (tol : R) :
  let a := ellipse_as_arc e in
  let start := pt_add_v (arc_center a) (sample_ellipse (arc_radii a) (arc_x_rotation a) 0) in
  let body := arc_append_elements a tol in
  open_contour (ellipse_path_elements e tol) start body /\
  forallb is_curve body = true /\ (1 <= length body)%nat /\
  contour_end start body = start.
Proof.
  intros a start body.
  destruct (arc_contour a tol) as (Hoc & Hcurve & Hlen & Hend).
  assert (Ha0 : arc_start_angle a = 0) by reflexivity.
  assert (Hsw : arc_sweep_angle a = 2 * PI) by (unfold a, ellipse_as_arc, two_pi; rs_unfold; reflexivity).
  rewrite Ha0 in Hoc, Hend. fold start body in Hoc, Hend, Hcurve, Hlen.
  split; [exact Hoc|]. split; [exact Hcurve|]. split.
  - rewrite Hlen. destruct (arc_params_spec a tol) as (_ & _ & Hn1 & _).
    assert (arc_sweep_angle a <> 0) by (rewrite Hsw; pose proof PI_RGT_0; lra).
    specialize (Hn1 H). lia.
  - rewrite Hend, Hsw. unfold start. f_equal. apply sample_period.
Qed.

Lemma svd_stable_radii_nonneg (m : Affine R) : 0 <= vx (fst (svd_stable m)) /\ 0 <= vy (fst (svd_stable m)).
Proof.
  unfold svd_stable. cbn [fst vx vy]. rs_unfold. split; [apply sqrt_pos|].
  destruct (Reqb_spec (sqrt (Q2R (1 # 2) * (aa m * aa m + ab m * ab m + ac m * ac m + ad m * ad m +
      sqrt (powerRZ (aa m * aa m - ab m * ab m + ac m * ac m - ad m * ad m) 2 +
            4 * powerRZ (aa m * ab m + ac m * ad m) 2)))) 0) as [E | NE].
  - lra.
  - apply Rmin_glb; [|apply sqrt_pos].
    apply Rmult_le_pos; [apply Rabs_pos|]. apply Rlt_le, Rinv_0_lt_compat.
    match goal with |- 0 < sqrt ?z => pose proof (sqrt_pos z) end. lra.
Qed.

Lemma ellipse_within_tolerance (e : Ellipse R) (tol : R) P :
  0 < tol ->
  let a := ellipse_as_arc e in
  on_outline (pt_add_v (arc_center a) (sample_ellipse (arc_radii a) (arc_x_rotation a) 0))
             (arc_append_elements a tol) P ->
  within tol (on_ellipse (ellipse_center e) (fst (svd_stable (el_inner e))) (snd (svd_stable (el_inner e)))) P.
Proof.
  intros Htol a Hon.
  destruct (svd_stable_radii_nonneg (el_inner e)) as [Hx Hy].
  exact (arc_within_tolerance a tol P Htol Hx Hy Hon).
Qed.

(** ** contours assembled from arcs and lines *)
Definition on_segment (A B P : Point R) : Prop := exists t, 0 <= t <= 1 /\ P = line_eval (mkLine A B) t.

Lemma on_outline_app start b1 b2 P :
  on_outline start (b1 ++ b2) P <-> on_outline start b1 P \/ on_outline (contour_end start b1) b2 P.
Proof.
  unfold on_outline. rewrite chain_app. split.
  - intros (s & t & Hin & Ht & E). apply in_app_iff in Hin. destruct Hin as [H | H]; [left | right]; exists s, t; auto.
  - intros [(s & t & Hin & Ht & E) | (s & t & Hin & Ht & E)]; exists s, t; (split; [apply in_app_iff; auto | auto]).
Qed.

Lemma on_outline_line start q r P :
  on_outline start (LineTo q :: r) P <-> on_segment start q P \/ on_outline q r P.
Proof.
  unfold on_outline, on_segment. cbn [chain]. split.
  - intros (s & t & [<- | Hin] & Ht & E); [left; exists t; auto | right; exists s, t; auto].
  - intros [(t & Ht & E) | (s & t & Hin & Ht & E)].
    + exists (SegLine (mkLine start q)), t. split; [left; reflexivity | auto].
    + exists s, t. split; [right; exact Hin | auto].
Qed.

Lemma on_outline_nil start P : ~ on_outline start [] P.
Proof. intros (s & t & [] & _). Qed.

Lemma poc_eq_sample (c : Point R) r th :
  point_on_circle c r th = pt_add_v c (sample_ellipse (mkVec2 r r) 0 th).
Proof. sp_unfold. rewrite cos_0, sin_0. f_equal; ring. Qed.

(** ** CircleSegment *)
Lemma circle_segment_contour (s : CircleSegment R) (tol : R) :
  let c := cs_center s in
  let st := cs_start_angle s in let sw := cs_sweep_angle s in
  let start := point_on_circle c (cs_inner_radius s) st in
  let l1 := point_on_circle c (cs_outer_radius s) st in
  let l2 := point_on_circle c (cs_inner_radius s) (st + sw) in
  let body := LineTo l1 :: arc_append_elements (cs_outer_arc s) tol ++ LineTo l2 :: arc_append_elements (cs_inner_arc s) tol in
  open_contour (circle_segment_path_elements s tol) start body /\
  contour_end l1 (arc_append_elements (cs_outer_arc s) tol) = point_on_circle c (cs_outer_radius s) (st + sw) /\
  contour_end start body = start.
Proof.
  intros c st sw start l1 l2 body.
  destruct (arc_contour (cs_outer_arc s) tol) as ((_ & Hd1) & Hc1 & _ & He1).
  destruct (arc_contour (cs_inner_arc s) tol) as ((_ & Hd2) & Hc2 & _ & He2).
  cbn [cs_outer_arc cs_inner_arc arc_center arc_radii arc_x_rotation arc_start_angle arc_sweep_angle] in He1, He2.
  rewrite <- !poc_eq_sample in He1, He2. fold c st sw l1 l2 in He1, He2.
  split; [split|split].
  - reflexivity.
  - unfold body. cbn [forallb is_draw]. rewrite forallb_app. cbn [forallb is_draw]. rewrite Hd1, Hd2. reflexivity.
  - exact He1.
  - unfold body. change (contour_end start (LineTo l1 :: ?r)) with (contour_end l1 r).
    rewrite contour_end_app.
    change (contour_end ?p (LineTo l2 :: ?r)) with (contour_end l2 r).
    unfold l2. etransitivity; [exact He2|]. unfold start. f_equal.
    rs_unfold. ring.
Qed.

Lemma circle_segment_within_tolerance (s : CircleSegment R) (tol : R) P :
  0 < tol -> 0 <= cs_outer_radius s -> 0 <= cs_inner_radius s ->
  let c := cs_center s in
  let st := cs_start_angle s in let sw := cs_sweep_angle s in
  let ro := cs_outer_radius s in let ri := cs_inner_radius s in
  let start := point_on_circle c ri st in
  let body := LineTo (point_on_circle c ro st) :: arc_append_elements (cs_outer_arc s) tol
              ++ LineTo (point_on_circle c ri (st + sw)) :: arc_append_elements (cs_inner_arc s) tol in
  on_outline start body P ->
  on_segment (point_on_circle c ri st) (point_on_circle c ro st) P \/
  within tol (on_arc c (mkVec2 ro ro) 0 st sw) P \/
  on_segment (point_on_circle c ro (st + sw)) (point_on_circle c ri (st + sw)) P \/
  within tol (on_arc c (mkVec2 ri ri) 0 (st + sw) (- sw)) P.
Proof.
  intros Htol Hro Hri c st sw ro ri start body Hon.
  destruct (circle_segment_contour s tol) as (_ & He1 & _). cbv zeta in He1. fold c st sw ro ri in He1.
  unfold body in Hon. apply on_outline_line in Hon. destruct Hon as [H | Hon]; [left; exact H|].
  apply on_outline_app in Hon. destruct Hon as [H | Hon].
  - right; left. rewrite poc_eq_sample in H.
    exact (arc_within_tolerance_of_arc (cs_outer_arc s) tol P Htol Hro Hro H).
  - rewrite He1 in Hon. apply on_outline_line in Hon. destruct Hon as [H | H]; [right; right; left; exact H|].
    right; right; right. rewrite poc_eq_sample in H.
    exact (arc_within_tolerance_of_arc (cs_inner_arc s) tol P Htol Hri Hri H).
Qed.

(** ** RoundedRect *)

(** the order of emission: start, corner arc, edge, corner arc, edge, corner arc, edge, corner arc, close
    (holds for every scalar type, so also for the binary64 instance) *)
Lemma rounded_rect_elements {T} `{Scalar T} (rr : RoundedRect T) (tol : T) :
  let r := rr_rect rr in let q := rr_radii rr in
  rounded_rect_path_elements rr tol =
  MoveTo (mkPoint (rx0 r) (fadd (ry0 r) (r_top_left q)))
  :: arc_append_elements (rr_corner_arc 2 (mkPoint (fadd (rx0 r) (r_top_left q)) (fadd (ry0 r) (r_top_left q))) (r_top_left q)) tol
  ++ LineTo (mkPoint (fsub (rx1 r) (r_top_right q)) (ry0 r))
  :: arc_append_elements (rr_corner_arc 3 (mkPoint (fsub (rx1 r) (r_top_right q)) (fadd (ry0 r) (r_top_right q))) (r_top_right q)) tol
  ++ LineTo (mkPoint (rx1 r) (fsub (ry1 r) (r_bottom_right q)))
  :: arc_append_elements (rr_corner_arc 0 (mkPoint (fsub (rx1 r) (r_bottom_right q)) (fsub (ry1 r) (r_bottom_right q))) (r_bottom_right q)) tol
  ++ LineTo (mkPoint (fadd (rx0 r) (r_bottom_left q)) (ry1 r))
  :: arc_append_elements (rr_corner_arc 1 (mkPoint (fadd (rx0 r) (r_bottom_left q)) (fsub (ry1 r) (r_bottom_left q))) (r_bottom_left q)) tol
  ++ [ClosePath].
Proof. reflexivity. Qed.

(** the four points where a circle of radius r about (cx, cy) meets the axes, by quarter index *)
Definition axis_pt (cx cy r : R) (k : Z) : Point R :=
  match (k mod 4)%Z with
  | 0%Z => mkPoint (cx + r) cy
  | 1%Z => mkPoint cx (cy + r)
  | 2%Z => mkPoint (cx - r) cy
  | _ => mkPoint cx (cy - r)
  end.

Lemma corner_sample cx cy r (k : Z) : (0 <= k <= 4)%Z ->
  pt_add_v (mkPoint cx cy) (sample_ellipse (mkVec2 r r) 0 (PI / 2 * IZR k)) = axis_pt cx cy r k.
Proof.
  intros Hk. sp_unfold. rewrite cos_0, sin_0.
  assert (k = 0 \/ k = 1 \/ k = 2 \/ k = 3 \/ k = 4)%Z as [-> | [-> | [-> | [-> | ->]]]] by lia; unfold axis_pt;
    match goal with |- context [(?z mod 4)%Z] => let m := eval vm_compute in (z mod 4)%Z in change ((z mod 4)%Z) with m end; cbv iota.
  - replace (PI / 2 * 0) with 0 by ring. rewrite cos_0, sin_0. f_equal; ring.
  - replace (PI / 2 * 1) with (PI / 2) by ring. rewrite cos_PI2, sin_PI2. f_equal; ring.
  - replace (PI / 2 * 2) with PI by field. rewrite cos_PI, sin_PI. f_equal; ring.
  - replace (PI / 2 * 3) with (3 * (PI / 2)) by ring. rewrite cos_3PI2, sin_3PI2. f_equal; ring.
  - replace (PI / 2 * 4) with (2 * PI) by field. rewrite cos_2PI, sin_2PI. f_equal; ring.
Qed.

(** one corner: starts and ends on the axes of its circle, and stays within tol of that circle *)
Lemma corner_arc_facts cx cy r (k : Z) (tol : R) : (0 <= k <= 3)%Z ->
  let a := rr_corner_arc k (mkPoint cx cy) r in
  let E := arc_append_elements a tol in
  forallb is_draw E = true /\ (1 <= length E)%nat /\
  contour_end (axis_pt cx cy r k) E = axis_pt cx cy r (k + 1) /\
  (0 < tol -> 0 <= r -> forall P, on_outline (axis_pt cx cy r k) E P ->
     within tol (on_arc (mkPoint cx cy) (mkVec2 r r) 0 (PI / 2 * IZR k) (PI / 2)) P).
Proof.
  intros Hk a E.
  destruct (arc_contour a tol) as ((_ & Hd) & _ & Hlen & Hend).
  assert (Est : arc_start_angle a = PI / 2 * IZR k) by (unfold a, rr_corner_arc, frac_pi_2; rs_unfold; reflexivity).
  assert (Esw : arc_sweep_angle a = PI / 2) by (unfold a, rr_corner_arc, frac_pi_2; rs_unfold; reflexivity).
  assert (Hs : pt_add_v (arc_center a) (sample_ellipse (arc_radii a) (arc_x_rotation a) (arc_start_angle a)) = axis_pt cx cy r k).
  { rewrite Est. apply corner_sample. lia. }
  rewrite Hs in Hend. fold E in Hd, Hlen, Hend.
  split; [exact Hd|]. split.
  { rewrite Hlen. destruct (arc_params_spec a tol) as (_ & _ & Hn1 & _).
    assert (arc_sweep_angle a <> 0) by (rewrite Esw; pose proof PI_RGT_0; lra). specialize (Hn1 H). lia. }
  split.
  { rewrite Hend, Est, Esw. replace (PI / 2 * IZR k + PI / 2) with (PI / 2 * IZR (k + 1)) by (rewrite plus_IZR; ring).
    apply corner_sample. lia. }
  intros Htol Hr P Hon. rewrite <- Hs in Hon.
  pose proof (arc_within_tolerance_of_arc a tol P Htol Hr Hr Hon) as H.
  rewrite Est, Esw in H. exact H.
Qed.

Section RoundedRectR.
Variables (rr : RoundedRect R) (tol : R).
Let x0 := rx0 (rr_rect rr). Let y0 := ry0 (rr_rect rr).
Let x1 := rx1 (rr_rect rr). Let y1 := ry1 (rr_rect rr).
Let tl := r_top_left (rr_radii rr). Let tr := r_top_right (rr_radii rr).
Let br := r_bottom_right (rr_radii rr). Let bl := r_bottom_left (rr_radii rr).

Definition rr_c0 := mkPoint (x0 + tl) (y0 + tl).
Definition rr_c1 := mkPoint (x1 - tr) (y0 + tr).
Definition rr_c2 := mkPoint (x1 - br) (y1 - br).
Definition rr_c3 := mkPoint (x0 + bl) (y1 - bl).
Definition rr_E0 := arc_append_elements (rr_corner_arc 2 rr_c0 tl) tol.
Definition rr_E1 := arc_append_elements (rr_corner_arc 3 rr_c1 tr) tol.
Definition rr_E2 := arc_append_elements (rr_corner_arc 0 rr_c2 br) tol.
Definition rr_E3 := arc_append_elements (rr_corner_arc 1 rr_c3 bl) tol.
(** start of the contour and the three points the straight edges run to *)
Definition rr_m0 := mkPoint x0 (y0 + tl).
Definition rr_p1 := mkPoint (x1 - tr) y0.
Definition rr_p2 := mkPoint x1 (y1 - br).
Definition rr_p3 := mkPoint (x0 + bl) y1.
(** where the corner arcs end = where the straight edges start *)
Definition rr_q0 := mkPoint (x0 + tl) y0.
Definition rr_q1 := mkPoint x1 (y0 + tr).
Definition rr_q2 := mkPoint (x1 - br) y1.
Definition rr_q3 := mkPoint x0 (y1 - bl).
Definition rr_body := rr_E0 ++ LineTo rr_p1 :: rr_E1 ++ LineTo rr_p2 :: rr_E2 ++ LineTo rr_p3 :: rr_E3.

Ltac pt_ring := unfold axis_pt;
  match goal with |- context [(?z mod 4)%Z] => let m := eval vm_compute in (z mod 4)%Z in change ((z mod 4)%Z) with m end;
  cbv iota; f_equal; ring.

Lemma rr_corner_ends :
  contour_end rr_m0 rr_E0 = rr_q0 /\ contour_end rr_p1 rr_E1 = rr_q1 /\
  contour_end rr_p2 rr_E2 = rr_q2 /\ contour_end rr_p3 rr_E3 = rr_q3.
Proof.
  destruct (corner_arc_facts (x0 + tl) (y0 + tl) tl 2 tol ltac:(lia)) as (_ & _ & H0 & _).
  destruct (corner_arc_facts (x1 - tr) (y0 + tr) tr 3 tol ltac:(lia)) as (_ & _ & H1 & _).
  destruct (corner_arc_facts (x1 - br) (y1 - br) br 0 tol ltac:(lia)) as (_ & _ & H2 & _).
  destruct (corner_arc_facts (x0 + bl) (y1 - bl) bl 1 tol ltac:(lia)) as (_ & _ & H3 & _).
  replace (axis_pt (x0 + tl) (y0 + tl) tl 2) with rr_m0 in H0 by (unfold rr_m0; pt_ring).
  replace (axis_pt (x0 + tl) (y0 + tl) tl (2 + 1)) with rr_q0 in H0 by (unfold rr_q0; pt_ring).
  replace (axis_pt (x1 - tr) (y0 + tr) tr 3) with rr_p1 in H1 by (unfold rr_p1; pt_ring).
  replace (axis_pt (x1 - tr) (y0 + tr) tr (3 + 1)) with rr_q1 in H1 by (unfold rr_q1; pt_ring).
  replace (axis_pt (x1 - br) (y1 - br) br 0) with rr_p2 in H2 by (unfold rr_p2; pt_ring).
  replace (axis_pt (x1 - br) (y1 - br) br (0 + 1)) with rr_q2 in H2 by (unfold rr_q2; pt_ring).
  replace (axis_pt (x0 + bl) (y1 - bl) bl 1) with rr_p3 in H3 by (unfold rr_p3; pt_ring).
  replace (axis_pt (x0 + bl) (y1 - bl) bl (1 + 1)) with rr_q3 in H3 by (unfold rr_q3; pt_ring).
  repeat split; assumption.
Qed.

Lemma rounded_rect_contour :
  closed_contour (rounded_rect_path_elements rr tol) rr_m0 rr_body /\
  (1 <= length rr_E0)%nat /\ (1 <= length rr_E1)%nat /\ (1 <= length rr_E2)%nat /\ (1 <= length rr_E3)%nat /\
  contour_end rr_m0 rr_body = rr_q3.
Proof.
  destruct (corner_arc_facts (x0 + tl) (y0 + tl) tl 2 tol ltac:(lia)) as (D0 & L0 & _ & _).
  destruct (corner_arc_facts (x1 - tr) (y0 + tr) tr 3 tol ltac:(lia)) as (D1 & L1 & _ & _).
  destruct (corner_arc_facts (x1 - br) (y1 - br) br 0 tol ltac:(lia)) as (D2 & L2 & _ & _).
  destruct (corner_arc_facts (x0 + bl) (y1 - bl) bl 1 tol ltac:(lia)) as (D3 & L3 & _ & _).
  destruct rr_corner_ends as (H0 & H1 & H2 & H3).
  split; [split|].
  - rewrite rounded_rect_elements. unfold rr_body, rr_E0, rr_E1, rr_E2, rr_E3, rr_m0.
    repeat (rewrite <- app_assoc || rewrite <- app_comm_cons). reflexivity.
  - unfold rr_body. rewrite !forallb_app. cbn [forallb is_draw]. rewrite !forallb_app. cbn [forallb is_draw].
    rewrite !forallb_app. cbn [forallb is_draw].
    change (forallb is_draw rr_E0 = true) in D0. change (forallb is_draw rr_E1 = true) in D1.
    change (forallb is_draw rr_E2 = true) in D2. change (forallb is_draw rr_E3 = true) in D3.
    rewrite D0, D1, D2, D3. reflexivity.
  - repeat (split; [assumption|]).
    unfold rr_body. rewrite contour_end_app.
    change (contour_end ?p (LineTo rr_p1 :: ?r)) with (contour_end rr_p1 r). rewrite contour_end_app.
    change (contour_end ?p (LineTo rr_p2 :: ?r)) with (contour_end rr_p2 r). rewrite contour_end_app.
    change (contour_end ?p (LineTo rr_p3 :: ?r)) with (contour_end rr_p3 r). exact H3.
Qed.

(** every point of the outline lies within tol of its corner circle, or exactly on an ideal edge *)
Lemma rounded_rect_within_tolerance P :
  0 < tol -> 0 <= tl -> 0 <= tr -> 0 <= br -> 0 <= bl ->
  on_outline rr_m0 rr_body P ->
  within tol (on_arc rr_c0 (mkVec2 tl tl) 0 (PI / 2 * 2) (PI / 2)) P \/ on_segment rr_q0 rr_p1 P \/
  within tol (on_arc rr_c1 (mkVec2 tr tr) 0 (PI / 2 * 3) (PI / 2)) P \/ on_segment rr_q1 rr_p2 P \/
  within tol (on_arc rr_c2 (mkVec2 br br) 0 (PI / 2 * 0) (PI / 2)) P \/ on_segment rr_q2 rr_p3 P \/
  within tol (on_arc rr_c3 (mkVec2 bl bl) 0 (PI / 2 * 1) (PI / 2)) P.
Proof.
  intros Htol Htl Htr Hbr Hbl Hon.
  destruct (corner_arc_facts (x0 + tl) (y0 + tl) tl 2 tol ltac:(lia)) as (_ & _ & _ & W0).
  destruct (corner_arc_facts (x1 - tr) (y0 + tr) tr 3 tol ltac:(lia)) as (_ & _ & _ & W1).
  destruct (corner_arc_facts (x1 - br) (y1 - br) br 0 tol ltac:(lia)) as (_ & _ & _ & W2).
  destruct (corner_arc_facts (x0 + bl) (y1 - bl) bl 1 tol ltac:(lia)) as (_ & _ & _ & W3).
  replace (axis_pt (x0 + tl) (y0 + tl) tl 2) with rr_m0 in W0 by (unfold rr_m0; pt_ring).
  replace (axis_pt (x1 - tr) (y0 + tr) tr 3) with rr_p1 in W1 by (unfold rr_p1; pt_ring).
  replace (axis_pt (x1 - br) (y1 - br) br 0) with rr_p2 in W2 by (unfold rr_p2; pt_ring).
  replace (axis_pt (x0 + bl) (y1 - bl) bl 1) with rr_p3 in W3 by (unfold rr_p3; pt_ring).
  destruct rr_corner_ends as (H0 & H1 & H2 & H3).
  unfold rr_body in Hon.
  apply on_outline_app in Hon. destruct Hon as [H | Hon]; [left; exact (W0 Htol Htl P H)|].
  rewrite H0 in Hon. apply on_outline_line in Hon. destruct Hon as [H | Hon]; [right; left; exact H|].
  apply on_outline_app in Hon. destruct Hon as [H | Hon]; [right; right; left; exact (W1 Htol Htr P H)|].
  rewrite H1 in Hon. apply on_outline_line in Hon. destruct Hon as [H | Hon]; [do 3 right; left; exact H|].
  apply on_outline_app in Hon. destruct Hon as [H | Hon]; [do 4 right; left; exact (W2 Htol Hbr P H)|].
  rewrite H2 in Hon. apply on_outline_line in Hon. destruct Hon as [H | Hon]; [do 5 right; left; exact H|].
  do 6 right. exact (W3 Htol Hbl P Hon).
Qed.
End RoundedRectR.

(** [RoundedRect::from_rect] produces non-negative radii (so the guards above are met by construction) *)
Lemma from_rect_radii_nonneg (rect : Rect R) (radii : RoundedRectRadii R) :
  let q := rr_radii (rounded_rect_from_rect rect radii) in
  0 <= r_top_left q /\ 0 <= r_top_right q /\ 0 <= r_bottom_right q /\ 0 <= r_bottom_left q.
Proof.
  destruct rect as [a b c d]. destruct radii as [r1 r2 r3 r4].
  cbv [rounded_rect_from_rect radii_clamp radii_abs rect_abs rect_width rect_height rr_radii
       r_top_left r_top_right r_bottom_right r_bottom_left rx0 ry0 rx1 ry1]. rs_unfold.
  assert (H : 0 <= Rmin (Rmax a c - Rmin a c) (Rmax b d - Rmin b d) / 2) by (unfold Rmin, Rmax; repeat destruct Rle_dec; lra).
  pose proof (Rabs_pos r1). pose proof (Rabs_pos r2). pose proof (Rabs_pos r3). pose proof (Rabs_pos r4).
  repeat split; apply Rmin_glb; assumption.
Qed.

(** * 5. The SVD behind [Ellipse::path_elements] *)

Lemma sqrt_sq_sum_pos x y : x <> 0 \/ y <> 0 -> 0 < sqrt (x * x + y * y).
Proof. intros H. apply sqrt_lt_R0. destruct H; nra. Qed.

(** polar form of atan2 *)
Lemma atan2_cos_sin (y x : R) : x <> 0 \/ y <> 0 ->
  cos (Ratan2 y x) = x / sqrt (x * x + y * y) /\ sin (Ratan2 y x) = y / sqrt (x * x + y * y).
Proof.
  intros Hne. pose proof (sqrt_sq_sum_pos x y Hne) as Hr.
  unfold Ratan2.
  destruct (Rlt_dec 0 x) as [Hx | Hx].
  - (* x > 0 *)
    assert (E : sqrt (x * x + y * y) = x * sqrt (1 + (y / x)²)).
    { transitivity (sqrt (x² * (1 + (y / x)²))). { f_equal. unfold Rsqr. field. lra. }
      rewrite sqrt_mult_alt by apply Rle_0_sqr. rewrite sqrt_Rsqr by lra. reflexivity. }
    rewrite cos_atan, sin_atan, E.
    assert (0 < sqrt (1 + (y / x)²)). { apply sqrt_lt_R0. pose proof (Rle_0_sqr (y / x)). lra. }
    split; field; split; lra.
  - destruct (Rlt_dec x 0) as [Hx' | Hx'].
    + (* x < 0 *)
      assert (E : sqrt (x * x + y * y) = - x * sqrt (1 + (y / x)²)).
      { transitivity (sqrt ((- x)² * (1 + (y / x)²))). { f_equal. unfold Rsqr. field. lra. }
        rewrite sqrt_mult_alt by apply Rle_0_sqr. rewrite sqrt_Rsqr by lra. reflexivity. }
      assert (0 < sqrt (1 + (y / x)²)). { apply sqrt_lt_R0. pose proof (Rle_0_sqr (y / x)). lra. }
      destruct (Rle_dec 0 y).
      * rewrite cos_plus, sin_plus, cos_PI, sin_PI, cos_atan, sin_atan, E. split; field; split; lra.
      * rewrite cos_minus, sin_minus, cos_PI, sin_PI, cos_atan, sin_atan, E. split; field; split; lra.
    + assert (x = 0) by lra. subst x.
      assert (Hy : y <> 0) by (destruct Hne; [lra | assumption]).
      replace (0 * 0 + y * y) with (y²) by (unfold Rsqr; ring).
      destruct (Rlt_dec 0 y).
      * rewrite cos_PI2, sin_PI2, sqrt_Rsqr by lra. split; field; lra.
      * destruct (Rlt_dec y 0); [|lra].
        rewrite cos_neg, sin_neg, cos_PI2, sin_PI2.
        replace (y²) with ((- y)²) by (unfold Rsqr; ring). rewrite sqrt_Rsqr by lra. split; field; lra.
Qed.

Section Svd.
Variables (a b c d e f : R).
Let m := mkAffine a b c d e f.
Let X := a * a - b * b + c * c - d * d.
Let Y := 2 * (a * b + c * d).
Let S1 := a * a + b * b + c * c + d * d.
Let S2 := sqrt (X * X + Y * Y).
Let det := a * d - b * c.

Lemma svd_S_facts : 0 <= S2 <= S1 /\ S1 * S1 - S2 * S2 = 4 * (det * det).
Proof.
  assert (HD : 0 <= X * X + Y * Y) by nra.
  assert (HS2 : S2 * S2 = X * X + Y * Y) by (unfold S2; apply sqrt_sqrt; exact HD).
  assert (H0 : 0 <= S2) by (unfold S2; apply sqrt_pos).
  assert (HS1 : 0 <= S1) by (unfold S1; nra).
  assert (E : S1 * S1 - S2 * S2 = 4 * (det * det)) by (rewrite HS2; unfold S1, X, Y, det; ring).
  split; [split; [exact H0|] | exact E].
  assert (0 <= det * det) by nra. nra.
Qed.

Lemma aff_svd_unfold :
  aff_svd m = (mkVec2 (sqrt (/ 2 * (S1 + S2))) (sqrt (/ 2 * (S1 - S2))), / 2 * Ratan2 Y X).
Proof.
  unfold aff_svd, m. cbn [aa ab ac ad]. rs_unfold. cbv [Q2R Qnum Qden]. unfold powerRZ. simpl pow.
  unfold S1, S2, X, Y.
  replace ((a * a - b * b + c * c - d * d) * ((a * a - b * b + c * c - d * d) * 1) + 4 * ((a * b + c * d) * ((a * b + c * d) * 1)))
    with ((a * a - b * b + c * c - d * d) * (a * a - b * b + c * c - d * d) + 2 * (a * b + c * d) * (2 * (a * b + c * d))) by ring.
  replace (1 * / 2) with (/ 2) by field. reflexivity.
Qed.

Lemma svd_radii_sq :
  let rx := sqrt (/ 2 * (S1 + S2)) in let ry := sqrt (/ 2 * (S1 - S2)) in
  rx * rx = / 2 * (S1 + S2) /\ ry * ry = / 2 * (S1 - S2) /\ rx * ry = Rabs det /\ 0 <= ry <= rx.
Proof.
  destruct svd_S_facts as [[H0 H1] E]. intros rx ry.
  assert (Hx : 0 <= / 2 * (S1 + S2)) by lra. assert (Hy : 0 <= / 2 * (S1 - S2)) by lra.
  split; [apply sqrt_sqrt; exact Hx|]. split; [apply sqrt_sqrt; exact Hy|]. split.
  - unfold rx, ry. rewrite <- sqrt_mult by assumption.
    replace (/ 2 * (S1 + S2) * (/ 2 * (S1 - S2))) with (Rsqr det) by (unfold Rsqr; nra).
    apply sqrt_Rsqr_abs.
  - split; [apply sqrt_pos|]. apply sqrt_le_1_alt. lra.
Qed.

(** at the reals the repaired formula for the minor radius is the pinned one *)
Lemma svd_stable_eq_aff_svd : svd_stable m = aff_svd m.
Proof.
  rewrite aff_svd_unfold.
  unfold svd_stable, m. cbn [aa ab ac ad]. rs_unfold. cbv [Q2R Qnum Qden]. unfold powerRZ. simpl pow.
  replace ((a * a - b * b + c * c - d * d) * ((a * a - b * b + c * c - d * d) * 1) + 4 * ((a * b + c * d) * ((a * b + c * d) * 1)))
    with (X * X + Y * Y) by (unfold X, Y; ring).
  replace (1 * / 2) with (/ 2) by field.
  fold S1. fold S2. fold det. fold X Y.
  destruct svd_radii_sq as (Ex & Ey & Exy & Hord). cbv zeta in *.
  set (rx := sqrt (/ 2 * (S1 + S2))) in *. set (ry := sqrt (/ 2 * (S1 - S2))) in *.
  f_equal. f_equal.
  destruct (Reqb_spec rx 0) as [E0 | NE].
  - lra.
  - replace (Rabs det / rx) with ry by (rewrite <- Exy; field; exact NE).
    apply Rmin_left. lra.
Qed.

(** R(theta) diag(rx^2, ry^2) R(theta)^T = A A^T *)
Lemma svd_gram :
  let rx := vx (fst (aff_svd m)) in let ry := vy (fst (aff_svd m)) in let th := snd (aff_svd m) in
  rx * rx * (cos th * cos th) + ry * ry * (sin th * sin th) = a * a + c * c /\
  (rx * rx - ry * ry) * (sin th * cos th) = a * b + c * d /\
  rx * rx * (sin th * sin th) + ry * ry * (cos th * cos th) = b * b + d * d.
Proof.
  rewrite aff_svd_unfold. cbn [fst snd vx vy].
  destruct svd_radii_sq as (Ex & Ey & _ & _). cbv zeta in *. rewrite Ex, Ey.
  set (th := / 2 * Ratan2 Y X).
  assert (E2 : Ratan2 Y X = 2 * th) by (unfold th; field).
  pose proof (cos_2a th) as C2. pose proof (sin_2a th) as S2a. pose proof (cos_sin_1 th) as CS.
  rewrite <- E2 in C2, S2a.
  destruct (Req_dec X 0) as [HX | HX]; [destruct (Req_dec Y 0) as [HY | HY]|].
  - (* conformal map: X = Y = 0 *)
    assert (Hth : th = 0).
    { unfold th, Ratan2. rewrite HX, HY. destruct (Rlt_dec 0 0); [lra|]. ring. }
    assert (HS2 : S2 = 0) by (unfold S2; rewrite HX, HY; replace (0 * 0 + 0 * 0) with 0 by ring; apply sqrt_0).
    rewrite Hth, cos_0, sin_0, HS2. unfold S1, X, Y in *. repeat split; nra.
  - destruct (atan2_cos_sin Y X (or_intror HY)) as [Hc Hs]. fold S2 in Hc, Hs.
    assert (HS2 : 0 < S2) by (apply sqrt_sq_sum_pos; right; exact HY).
    rewrite Hc in C2. rewrite Hs in S2a.
    assert (C2' : X = S2 * (cos th * cos th - sin th * sin th)) by (rewrite <- C2; field; lra).
    assert (S2' : Y = S2 * (2 * sin th * cos th)) by (rewrite <- S2a; field; lra).
    unfold S1, X, Y in *. repeat split; nra.
  - destruct (atan2_cos_sin Y X (or_introl HX)) as [Hc Hs]. fold S2 in Hc, Hs.
    assert (HS2 : 0 < S2) by (apply sqrt_sq_sum_pos; left; exact HX).
    rewrite Hc in C2. rewrite Hs in S2a.
    assert (C2' : X = S2 * (cos th * cos th - sin th * sin th)) by (rewrite <- C2; field; lra).
    assert (S2' : Y = S2 * (2 * sin th * cos th)) by (rewrite <- S2a; field; lra).
    unfold S1, X, Y in *. repeat split; nra.
Qed.
End Svd.

(** the image of the unit circle under an invertible linear map, as a quadric *)
Lemma unit_image_iff a b c d v1 v2 : a * d - b * c <> 0 ->
  (exists w1 w2, w1 ^ 2 + w2 ^ 2 = 1 /\ v1 = a * w1 + c * w2 /\ v2 = b * w1 + d * w2) <->
  (b * b + d * d) * (v1 * v1) - 2 * (a * b + c * d) * (v1 * v2) + (a * a + c * c) * (v2 * v2)
    = (a * d - b * c) * (a * d - b * c).
Proof.
  intros Hdet. split.
  - intros (w1 & w2 & Hw & -> & ->).
    transitivity ((a * d - b * c) * (a * d - b * c) * (w1 ^ 2 + w2 ^ 2)); [ring | rewrite Hw; ring].
  - intros H. exists ((d * v1 - c * v2) / (a * d - b * c)), ((a * v2 - b * v1) / (a * d - b * c)).
    split; [|split; field; exact Hdet].
    transitivity (((b * b + d * d) * (v1 * v1) - 2 * (a * b + c * d) * (v1 * v2) + (a * a + c * c) * (v2 * v2))
                  / ((a * d - b * c) * (a * d - b * c))); [field; exact Hdet|].
    rewrite H. field. exact Hdet.
Qed.

(** Ellipse-as-arc: the ellipse of the SVD radii and rotation is the image of the unit circle under
    the stored affine map (invertible maps) *)
Lemma ellipse_svd_same_set a b c d e f Q : a * d - b * c <> 0 ->
  let s := svd_stable (mkAffine a b c d e f) in
  on_ellipse (mkPoint e f) (fst s) (snd s) Q <-> on_affine_circle a b c d e f Q.
Proof.
  intros Hdet s. unfold s. rewrite svd_stable_eq_aff_svd.
  destruct (svd_gram a b c d e f) as (G1 & G2 & G3). cbv zeta in G1, G2, G3.
  pose proof (svd_radii_sq a b c d) as H. cbv zeta in H. destruct H as (_ & _ & Exy & _).
  rewrite (aff_svd_unfold a b c d e f) in *. cbn [fst snd vx vy] in *.
  set (rx := sqrt _) in *. set (ry := sqrt (/ 2 * (_ - _))) in *. set (th := / 2 * Ratan2 _ _) in *.
  (* the map R(th) diag(rx, ry) *)
  set (a' := rx * cos th). set (b' := rx * sin th). set (c' := - (ry * sin th)). set (d' := ry * cos th).
  pose proof (cos_sin_1 th) as CS.
  assert (Hdet' : a' * d' - b' * c' = rx * ry).
  { unfold a', b', c', d'. transitivity (rx * ry * (cos th * cos th + sin th * sin th)); [ring | rewrite CS; ring]. }
  assert (Hdet2 : (a' * d' - b' * c') * (a' * d' - b' * c') = (a * d - b * c) * (a * d - b * c)).
  { rewrite Hdet', Exy. unfold Rabs. destruct (Rcase_abs (a * d - b * c)); ring. }
  assert (Hdet'' : a' * d' - b' * c' <> 0) by (intros E0; rewrite E0 in Hdet2; nra).
  destruct Q as [qx qy].
  transitivity ((b * b + d * d) * ((qx - e) * (qx - e)) - 2 * (a * b + c * d) * ((qx - e) * (qy - f))
                + (a * a + c * c) * ((qy - f) * (qy - f)) = (a * d - b * c) * (a * d - b * c)).
  - rewrite <- Hdet2.
    replace (b * b + d * d) with (b' * b' + d' * d') by (unfold b', d'; nra).
    replace (a * b + c * d) with (a' * b' + c' * d') by (unfold a', b', c', d'; nra).
    replace (a * a + c * c) with (a' * a' + c' * c') by (unfold a', c'; nra).
    rewrite <- (unit_image_iff a' b' c' d' (qx - e) (qy - f) Hdet'').
    unfold on_ellipse. sp_unfold. unfold a', b', c', d'.
    split; intros (w1 & w2 & Hw & Hq); exists w1, w2; (split; [exact Hw|]).
    + injection Hq as -> ->. split; ring.
    + destruct Hq as [Hq1 Hq2]. f_equal; lra.
  - rewrite <- (unit_image_iff a b c d (qx - e) (qy - f) Hdet).
    unfold on_affine_circle.
    split; intros (w1 & w2 & Hw & Hq); exists w1, w2; (split; [exact Hw|]).
    + destruct Hq as [Hq1 Hq2]. f_equal; lra.
    + injection Hq as -> ->. split; ring.
Qed.

Lemma ellipse_within_tolerance_of_affine_image a b c d e f (tol : R) P :
  0 < tol -> a * d - b * c <> 0 ->
  let el := mkEllipse (mkAffine a b c d e f) in
  let arc := ellipse_as_arc el in
  on_outline (pt_add_v (arc_center arc) (sample_ellipse (arc_radii arc) (arc_x_rotation arc) 0))
             (arc_append_elements arc tol) P ->
  within tol (on_affine_circle a b c d e f) P.
Proof.
  intros Htol Hdet el arc Hon.
  destruct (ellipse_within_tolerance el tol P Htol Hon) as (Q & HQ & Hd).
  exists Q. split; [|exact Hd].
  apply (ellipse_svd_same_set a b c d e f Q Hdet). exact HQ.
Qed.

(** * 6. End points on the shape, control arms tangent *)

Lemma circ_pt_on_circle cx cy r dl i : on_circle (mkPoint cx cy) r (circ_pt cx cy r dl i).
Proof.
  unfold on_circle.
  rewrite (dist_scaled _ cx cy r (cos (dl * IZR i)) (sin (dl * IZR i))) by (unfold circ_pt; cbn [px py]; ring).
  replace (cos (dl * IZR i) ^ 2 + sin (dl * IZR i) ^ 2) with 1 by (pose proof (cos_sin_1 (dl * IZR i)); nra).
  rewrite sqrt_1. ring.
Qed.

(** both control arms of a circle piece are perpendicular to the radius at their end point *)
Lemma circ_arms_tangent cx cy r k dl i :
  let p0 := circ_pt cx cy r dl (i - 1) in let p1 := circ_p1 cx cy r k dl i in
  let p2 := circ_p2 cx cy r k dl i in let p3 := circ_pt cx cy r dl i in
  (px p1 - px p0) * (px p0 - cx) + (py p1 - py p0) * (py p0 - cy) = 0 /\
  (px p2 - px p3) * (px p3 - cx) + (py p2 - py p3) * (py p3 - cy) = 0.
Proof. unfold circ_pt, circ_p1, circ_p2. cbn [px py]. split; ring. Qed.

(** the tangent vector of the ellipse parametrisation *)
Definition ellipse_tangent (radii : Vec2 R) (rot th : R) : Vec2 R :=
  rotate_pt (mkVec2 (- (vx radii * sin th)) (vy radii * cos th)) rot.

Lemma ellipse_tangent_is_derivative radii rot th :
  is_derive (fun u => vx (sample_ellipse radii rot u)) th (vx (ellipse_tangent radii rot th)) /\
  is_derive (fun u => vy (sample_ellipse radii rot u)) th (vy (ellipse_tangent radii rot th)).
Proof.
  destruct radii as [rx ry]. unfold ellipse_tangent. sp_unfold. split; auto_derive; trivial; ring.
Qed.

Lemma sample_quarter_turn radii rot th : sample_ellipse radii rot (th + PI / 2) = ellipse_tangent radii rot th.
Proof.
  destruct radii as [rx ry]. unfold ellipse_tangent. sp_unfold.
  rewrite cos_plus, sin_plus, cos_PI2, sin_PI2. f_equal; ring.
Qed.

(** every on-curve point of an arc outline is the ellipse sample at its angle, and the control arms
    are [arm] times the tangent there *)
Lemma arc_pieces_on_shape cx cy rx ry rot arm step a0 (i : nat) :
  let c := mkPoint cx cy in let radii := mkVec2 rx ry in
  let th0 := a0 + INR i * step in let th1 := a0 + INR (S i) * step in
  on_ellipse c radii rot (arc_pt cx cy rx ry rot step a0 i) /\
  pt_sub (arc_p1 cx cy rx ry rot arm step a0 i) (arc_pt cx cy rx ry rot step a0 i)
    = s_scale_v arm (ellipse_tangent radii rot th0) /\
  pt_sub (arc_pt cx cy rx ry rot step a0 (S i)) (arc_p2 cx cy rx ry rot arm step a0 i)
    = s_scale_v arm (ellipse_tangent radii rot th1).
Proof.
  intros c radii th0 th1. split; [|split].
  - exists (cos th0), (sin th0). split; [pose proof (cos_sin_1 th0); nra|]. reflexivity.
  - unfold arc_p1, arc_pt, samp. fold th0. rewrite sample_quarter_turn. fold radii.
    destruct (sample_ellipse radii rot th0) as [u v]. destruct (ellipse_tangent radii rot th0) as [p q].
    sp_unfold. f_equal; ring.
  - unfold arc_p2, arc_pt, samp. fold th1. rewrite sample_quarter_turn. fold radii.
    destruct (sample_ellipse radii rot th1) as [u v]. destruct (ellipse_tangent radii rot th1) as [p q].
    sp_unfold. f_equal; ring.
Qed.

(** * 7. Shapes that are already polygons *)
Lemma rect_segments_exact (r : Rect R) :
  let p00 := mkPoint (rx0 r) (ry0 r) in let p10 := mkPoint (rx1 r) (ry0 r) in
  let p11 := mkPoint (rx1 r) (ry1 r) in let p01 := mkPoint (rx0 r) (ry1 r) in
  path_segments_of (rect_path_elements r) =
  Some ([SegLine (mkLine p00 p10); SegLine (mkLine p10 p11); SegLine (mkLine p11 p01)]
        ++ (if Reqb (ry0 r) (ry1 r) then [] else [SegLine (mkLine p01 p00)])).
Proof.
  intros p00 p10 p11 p01. unfold path_segments_of, rect_path_elements, segments. cbn [segs_from seg_step el_end].
  unfold pt_neb, pt_eqb. cbn [px py]. rs_unfold.
  destruct (Reqb_spec (rx0 r) (rx0 r)) as [_ | N]; [|contradiction N; reflexivity].
  cbn [andb]. destruct (Reqb_spec (ry1 r) (ry0 r)) as [E | N]; destruct (Reqb_spec (ry0 r) (ry1 r)) as [E' | N']; try reflexivity.
  - contradiction N'. symmetry. exact E.
  - contradiction N. symmetry. exact E'.
Qed.

(** * 9. Non-vacuity helpers *)
Lemma on_outline_first_curve start p1 p2 p3 r : on_outline start (CurveTo p1 p2 p3 :: r) start.
Proof.
  exists (SegCubic (mkCubic start p1 p2 p3)), 0. split; [left; reflexivity|]. split; [lra|].
  destruct start as [x y]. destruct p1, p2, p3. cbn [seg_eval]. sp_unfold. f_equal; ring.
Qed.

Lemma circle_example_4 : circle_params 1 (1 / 10) = (4%Z, arm4).
Proof.
  destruct (circle_params_spec 1 (1 / 10)) as (n & arm & Hp & [(_ & -> & ->) | (Hge & _)]); [exact Hp|].
  cbv zeta in Hge. rewrite Rabs_R1 in Hge. lra.
Qed.

Lemma circle_example_11 : fst (circle_params 1000 (1 / 1000)) = 11%Z.
Proof.
  unfold circle_params. sp_unfold.
  destruct (Rltb_spec (Rabs 1000 / (1 / 1000)) (1 / (19608 * / 100000000))) as [Hlt | _].
  { rewrite Rabs_pos_eq in Hlt by lra. lra. }
  cbn [fst]. rewrite Rabs_pos_eq by lra.
  pose proof sixth_root_example as [Hlo Hhi].
  unfold Rpowf. destruct (Req_EM_T (1 / 6) 0); [lra|].
  destruct (Rlt_dec 0 (11163 * / 10000 * (1000 / (1 / 1000)))); [|lra].
  change (11163 * / 10000) with (11163 / 10000).
  set (v := Rpower _ _) in *.
  rewrite usize_of_ceil by lra.
  apply Zceil_imp. simpl IZR. lra.
Qed.

Lemma circle_outline_nonempty (c : Circle R) (tol : R) :
  exists start body P, closed_contour (circle_path_elements c tol) start body /\ on_outline start body P.
Proof.
  destruct (circle_contour c tol) as (n & arm & _ & Hn & H). cbv zeta in H. destruct H as (_ & Hcc & _).
  eexists _, _, _. split; [exact Hcc|].
  rewrite (zrange1_snoc n) by lia.
  assert (E : zrange1 (n - 1) = 1%Z :: map Z.of_nat (seq 2 (Z.to_nat (n - 2)))).
  { unfold zrange1. replace (Z.to_nat (n - 1)) with (S (Z.to_nat (n - 2))) by lia. reflexivity. }
  rewrite E. cbn [map app]. unfold circ_el at 1. apply on_outline_first_curve.
Qed.

Lemma arc_example_nonempty :
  let a := mkArc (mkPoint 0 0) (mkVec2 2 1) 0 1 0 in
  exists P, on_outline (pt_add_v (arc_center a) (sample_ellipse (arc_radii a) (arc_x_rotation a) (arc_start_angle a)))
                       (arc_append_elements a (1 / 100)) P.
Proof.
  intros a. destruct (arc_params_spec a (1 / 100)) as (_ & _ & Hn1 & _).
  assert (H : arc_sweep_angle a <> 0) by (cbn; lra). specialize (Hn1 H).
  rewrite (arc_append_ideal a (1 / 100)).
  replace (Z.to_nat (ap_n (arc_params a (1 / 100)))) with (S (Z.to_nat (ap_n (arc_params a (1 / 100)) - 1))) by lia.
  cbn [seq map]. unfold arc_el at 1. eexists. apply on_outline_first_curve.
Qed.
