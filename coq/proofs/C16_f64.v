(** C16: binary64 addition and multiplication are commutative (Coq's primitive floats have a single
    NaN), so the spellings theorem holds for the executable binary64 instance as it stands. *)
From Coq Require Import ZArith List Bool Floats Lia.
From KV Require Import Scalar F64 Geom Curves Path ShapeTypes Svg SvgSpec C16_lex C16_parse.
Import ListNotations.

Lemma SFadd_comm prec emax x y : SFadd prec emax x y = SFadd prec emax y x.
Proof.
  destruct x as [sx|sx| |sx mx ex], y as [sy|sy| |sy my ey]; cbn; try reflexivity.
  - destruct sx, sy; reflexivity.
  - destruct sx, sy; reflexivity.
  - rewrite (Z.min_comm ey ex), Z.add_comm. reflexivity.
Qed.

Lemma SFmul_comm prec emax x y : SFmul prec emax x y = SFmul prec emax y x.
Proof.
  destruct x as [sx|sx| |sx mx ex], y as [sy|sy| |sy my ey]; cbn; try reflexivity;
    try (rewrite (xorb_comm sy sx); reflexivity).
  rewrite (xorb_comm sy sx), (Pos.mul_comm my mx), (Z.add_comm ey ex). reflexivity.
Qed.

Lemma float_eq_SF x y : Prim2SF x = Prim2SF y -> x = y.
Proof. intros E. rewrite <- (SF2Prim_Prim2SF x), <- (SF2Prim_Prim2SF y), E. reflexivity. Qed.

Lemma float_add_comm (a b : float) : fadd a b = fadd b a.
Proof. apply float_eq_SF. cbn. rewrite !add_spec. apply SFadd_comm. Qed.
Lemma float_mul_comm (a b : float) : fmul a b = fmul b a.
Proof. apply float_eq_SF. cbn. rewrite !mul_spec. apply SFmul_comm. Qed.

(** on binary64 itself (no rounding abstraction): every valid spelling parses to the meaning computed
    with the same floating-point operations *)
Theorem spellings_f64 (num_of : list Z -> option float) (frem : float -> float -> float)
        (cmds : list (@SCmd float)) sps tail :
  spells_ok num_of None cmds sps -> all_ws tail ->
  from_svg num_of frem fixed (render cmds sps tail) = interp frem cmds.
Proof. apply spellings_generic; [exact float_add_comm|intros a; apply float_mul_comm]. Qed.

From KV Require Import C16_roundtrip.
Theorem roundtrip_elements_f64 (num_of : list Z -> option float) (show : float -> list Z) (frem : float -> float -> float) :
  (forall x, F.is_finite x = true -> shown_str (show x)) ->
  (forall x, F.is_finite x = true -> num_of (show x) = Some x) ->
  forall els : list (PathEl float),
  starts_with_move els -> Forall (el_fin (fun x => F.is_finite x = true)) els -> closes_followed els ->
  from_svg num_of frem fixed (write_to show els) = Ok els.
Proof.
  intros Hs Hp els. apply (roundtrip_elements num_of show frem (fun x => F.is_finite x = true)); auto.
  - exact float_add_comm.
  - intros a; apply float_mul_comm.
Qed.
