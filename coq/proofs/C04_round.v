(** C04: round caps at the real instance (uses the interval tactic for one numeric bound). *)
From Coq Require Import ZArith QArith Reals List Bool Lra Lia Psatz.
From Flocq Require Import Core.Raux.
From Interval Require Import Tactic.
From KV Require Import Scalar RInst Geom Curves Path Affine Stroke RTac StrokeSpec C04_proofs.
Import ListNotations.
Local Open Scope R_scope.

(** ** a round cap ends exactly opposite to where it starts (real instance: exact sin/cos) *)
Lemma arc_n_cap : arc_n (mkVec2 f1 f1) fpi tol_1e_3 = 2.
Proof.
  unfold arc_n, tol_1e_3, c_1_1163, c_3_999999. rs_unfold. cbn [vx vy]. cbv [Q2R Qnum Qden].
  assert (Hp : Rpowf (11163 * / 10000 * (Rmax 1 1 / (1 * / 1000))) (1 / 6) <= 3999999 * / 1000000).
  { unfold Rpowf. destruct (Req_EM_T (1 / 6) 0) as [E|_]; [lra|].
    rewrite Rmax_left by lra.
    destruct (Rlt_dec 0 (11163 * / 10000 * (1 / (1 * / 1000)))) as [_|N]; [|exfalso; apply N; lra].
    unfold Rpower. interval. }
  rewrite (Rmax_right _ _ Hp).
  pose proof PI_RGT_0 as Hpi. rewrite (Rabs_pos_eq PI) by lra.
  replace (3999999 * / 1000000 * PI * (1 / (2 * PI))) with (3999999 / 2000000) by (field; lra).
  f_equal. apply Zceil_imp. simpl. lra.
Qed.

Lemma round_cap_two c n : exists e1 p1 p2,
  round_cap_els tol_1e_3 c n = [e1; CurveTo p1 p2 (pt_sub_v c n)].
Proof.
  unfold round_cap_els, round_join_els, arc_cubics.
  rewrite arc_n_cap.
  change (fto_usize (T:=R) 2) with (Z.max 0 (Ztrunc 2)).
  replace (Ztrunc 2) with 2%Z by (symmetry; apply (Ztrunc_IZR 2)).
  change (Z.to_nat (Z.max 0 2)) with 2%nat.
  cbn [arc_iter map curve_of].
  eexists _, _, _. f_equal. f_equal. f_equal.
  destruct c as [cx cy], n as [nx ny].
  unfold aff_apply, pt_add_v, pt_sub_v, sample_ellipse, rotate_pt, pt_origin, frac_pi_2. cbn [aa ab ac ad ae af px py vx vy].
  rs_unfold.
  replace (PI - PI + PI / 2 + PI / 2) with PI by field.
  rewrite cos_PI, sin_PI, cos_0, sin_0. f_equal; ring.
Qed.

Lemma side_path_head st th side p0 ps p1 r : first_edge p0 ps = Some (p1, r) ->
  side_path st th side p0 ps =
  MoveTo (offs (sk_width st) (sgn side) (vec p0 p1) p0) :: LineTo (offs (sk_width st) (sgn side) (vec p0 p1) p1)
  :: side_rest st th side p1 (vec p0 p1) r.
Proof.
  induction ps as [|p q IH]; cbn [first_edge side_path]; [discriminate|].
  destruct (pt_neb p p0); [intros [= <- <-]; reflexivity | exact IH].
Qed.

(** with a round start cap the (single) contour of an open sub-path is not closed by ClosePath but ends,
    by the cap arc, exactly at the point it started from *)
Theorem round_cap_returns_thm st tol p0 ps p1 r out :
  sk_start_cap st = CapRound -> first_edge p0 ps = Some (p1, r) ->
  stroke_undashed (MoveTo p0 :: map (@LineTo R) ps) st tol = Some out ->
  exists rest, out = MoveTo (offs (sk_width st) (-1) (vec p0 p1) p0) :: rest /\
               Forall (@is_seg R) rest /\
               last_end out = offs (sk_width st) (-1) (vec p0 p1) p0.
Proof.
  intros Hc E. rewrite open_polyline_outline_thm, E. cbv zeta. intros [= <-].
  rewrite (side_path_head st _ false p0 ps p1 r E). cbn [sgn app].
  eexists. split; [reflexivity|]. split.
  - constructor; [exact I|].
    repeat apply Forall_app_intro.
    + apply side_rest_segs.
    + apply end_cap_at_segs.
    + apply extend_reversed_segs.
    + unfold start_cap_at. rewrite Hc. apply round_join_segs.
  - unfold start_cap_at at 1. rewrite Hc. cbv zeta.
    destruct (round_cap_two p0 (left_norm (sk_width st) (vec p0 p1))) as (e1 & q1 & q2 & Hr).
    rewrite Hr.
    rewrite !app_comm_cons, !app_assoc.
    change [e1; CurveTo q1 q2 (pt_sub_v p0 (left_norm (sk_width st) (vec p0 p1)))]
      with ([e1] ++ [CurveTo q1 q2 (pt_sub_v p0 (left_norm (sk_width st) (vec p0 p1)))]).
    rewrite app_assoc, last_end_snoc. cbn. apply pt_sub_left_norm.
Qed.
