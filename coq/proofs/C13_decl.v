(** C13, part 2: the incremental specification [spec_go] of C13_sim.v unfolds the declarative
    one of spec/DashSpec.v ([subpaths], [plain], [subpath_out]): the machine computes
    [dash_spec_from].  Any scalar. *)
From Coq Require Import ZArith List Bool Arith Lia.
From KV Require Import Scalar Geom Curves Path Dash DashSpec C13_sim.
Import ListNotations.


Section Decl.
Context {T : Type} `{Scalar T}.
Local Open Scope S_scope.

Variable arclen : PathSeg T -> T.
Variable inv_arclen : PathSeg T -> T -> T.
Variable dashes : list T.
Variable init : Phase T.

Notation nm := (@not_move T).
Notation spieces := (seg_pieces inv_arclen dashes).
Notation sswitches := (seg_switches inv_arclen dashes).
Notation fin_els := (@final_els T _).
Notation sseg := (spec_seg arclen inv_arclen dashes).
Notation sgo := (spec_go arclen inv_arclen dashes init).
Notation pl := (plain arclen inv_arclen dashes).
Notation spout := (subpath_out arclen inv_arclen dashes).

(** empty, or beginning with a MoveTo *)
Definition hmb (l : list (PathEl T)) : bool := match l with [] => true | e :: _ => negb (nm e) end.
Definition is_move (e : PathEl T) : bool := negb (nm e).

Lemma nm_seg_to_el (s : PathSeg T) : nm (seg_to_el s) = true.
Proof. destruct s; reflexivity. Qed.

Lemma all_nm_fin seg t (ph : Phase T) : forallb nm (fin_els seg t ph) = true.
Proof. unfold final_els. destruct (p_act ph); simpl; auto. rewrite nm_seg_to_el. reflexivity. Qed.

(** ** Shape of the pieces of one segment *)
Lemma sw_shape fuel seg : forall t srem ph sw t' srem' phm,
  sswitches fuel seg t srem ph = Some (sw, t', srem', phm) ->
  if p_act ph then
    match sw with
    | [] => p_act phm = true
    | x :: rest => nm x = true /\ hmb (rest ++ fin_els seg t' phm) = true /\
                   (rest ++ fin_els seg t' phm = [] -> p_act phm = false)
    end
  else hmb (sw ++ fin_els seg t' phm) = true /\ (sw ++ fin_els seg t' phm = [] -> p_act phm = false).
Proof.
  induction fuel; intros t srem ph sw t' srem' phm; simpl.
  - destruct (p_rem ph <? srem); [discriminate|]. intros X; inversion X; subst.
    destruct (p_act phm) eqn:A; auto. unfold final_els. rewrite A. simpl. auto.
  - destruct (p_rem ph <? srem) eqn:E.
    + destruct (sswitches fuel seg (switch_t inv_arclen seg t ph) (srem - p_rem ph) (ph_next dashes ph))
        as [[[[a b] c] d]|] eqn:E2; [|discriminate].
      intros X; inversion X; subst. specialize (IHfuel _ _ _ _ _ _ _ E2).
      unfold ph_next in IHfuel. simpl in IHfuel.
      destruct (p_act ph) eqn:A; simpl in IHfuel.
      * unfold switch_el. rewrite A. split; [apply nm_seg_to_el|]. exact IHfuel.
      * unfold switch_el. rewrite A. simpl. split; auto. discriminate.
    + intros X; inversion X; subst.
      destruct (p_act phm) eqn:A; auto. unfold final_els. rewrite A. simpl. auto.
Qed.

(** ** List facts *)
Lemma takeWhile_all (l : list (PathEl T)) : forallb nm l = true -> takeWhile nm l = l.
Proof. induction l; simpl; auto. destruct (nm a); simpl; [intros; f_equal; auto|discriminate]. Qed.
Lemma dropWhile_all (l : list (PathEl T)) : forallb nm l = true -> dropWhile nm l = [].
Proof. induction l; simpl; auto. destruct (nm a); simpl; [auto|discriminate]. Qed.
Lemma takeWhile_app_all (l k : list (PathEl T)) :
  forallb nm l = true -> takeWhile nm (l ++ k) = l ++ takeWhile nm k.
Proof. induction l; simpl; auto. destruct (nm a); simpl; [intros; f_equal; auto|discriminate]. Qed.
Lemma dropWhile_app_all (l k : list (PathEl T)) :
  forallb nm l = true -> dropWhile nm (l ++ k) = dropWhile nm k.
Proof. induction l; simpl; auto. destruct (nm a); simpl; [auto|discriminate]. Qed.
Lemma takeWhile_hm (k : list (PathEl T)) : hmb k = true -> takeWhile nm k = [].
Proof. destruct k; simpl; auto. destruct (nm p); simpl; [discriminate|auto]. Qed.
Lemma dropWhile_hm (k : list (PathEl T)) : hmb k = true -> dropWhile nm k = k.
Proof. destruct k; simpl; auto. destruct (nm p); simpl; [discriminate|auto]. Qed.
Lemma takeWhile_app_ex (l k : list (PathEl T)) :
  existsb is_move l = true -> takeWhile nm (l ++ k) = takeWhile nm l.
Proof.
  induction l; simpl; [discriminate|]. unfold is_move at 1. destruct (nm a); simpl; auto.
  intros; f_equal; auto.
Qed.
Lemma dropWhile_app_ex (l k : list (PathEl T)) :
  existsb is_move l = true -> dropWhile nm (l ++ k) = dropWhile nm l ++ k.
Proof.
  induction l; simpl; [discriminate|]. unfold is_move at 1. destruct (nm a); simpl; auto.
Qed.
Lemma not_ex_all (l : list (PathEl T)) : existsb is_move l = false -> forallb nm l = true.
Proof.
  induction l; simpl; auto. unfold is_move at 1. destruct (nm a); simpl; [auto|discriminate].
Qed.
Lemma hm_ex (k : list (PathEl T)) : hmb k = true -> k <> [] -> existsb is_move k = true.
Proof. destruct k; simpl; [congruence|]. unfold is_move. intros ->. reflexivity. Qed.
Lemma existsb_app_l (l k : list (PathEl T)) : existsb is_move l = true -> existsb is_move (l ++ k) = true.
Proof. intros. rewrite existsb_app, H0. reflexivity. Qed.

(** ** What is known in the middle of a sub-path *)
(** [Rel acc pcs nsw ph m em]: after the segments [acc] of the current sub-path, with pieces [pcs],
    [nsw] switches and phase [ph], the incremental specification is in mode [m] and has emitted [em] *)
Inductive Rel : list (PathSeg T) -> list (PathEl T) -> nat -> Phase T -> Mode -> list (PathEl T) -> Prop :=
| rel_fresh : Rel [] [] 0 init Fresh []
| rel_stashing s0 acc pcs ph :
    p_act init = true -> forallb nm pcs = true -> p_act ph = true ->
    Rel (s0 :: acc) pcs 0 ph (Stashing (MoveTo (seg_start s0) :: pcs)) []
| rel_broken_on s0 acc pcs nsw ph :
    p_act init = true -> nsw <> 0%nat -> (existsb is_move pcs = true \/ p_act ph = false) ->
    Rel (s0 :: acc) pcs nsw ph (Broken (MoveTo (seg_start s0) :: takeWhile nm pcs)) (dropWhile nm pcs)
| rel_broken_off s0 acc pcs nsw ph :
    p_act init = false -> hmb pcs = true -> (pcs = [] -> p_act ph = false) ->
    Rel (s0 :: acc) pcs nsw ph (Broken []) pcs.

Lemma spieces_eq fuel seg ph :
  spieces fuel seg f0 (arclen seg) ph =
  match sswitches fuel seg f0 (arclen seg) ph with
  | None => None
  | Some (sw, t', srem', phm) => Some (sw ++ fin_els seg t' phm, length sw, ph_final phm srem')
  end.
Proof. apply seg_pieces_switches. Qed.

(** one more segment *)
Lemma rel_seg fuel seg acc pcs nsw ph m em e1 n1 ph1 :
  Rel acc pcs nsw ph m em ->
  spieces fuel seg f0 (arclen seg) ph = Some (e1, n1, ph1) ->
  exists o1 m', sseg fuel seg m ph = Some (o1, m', ph1) /\
                Rel (acc ++ [seg]) (pcs ++ e1) (nsw + n1) ph1 m' (em ++ o1).
Proof.
  intros HR Hp. rewrite spieces_eq in Hp. unfold spec_seg.
  destruct (sswitches fuel seg f0 (arclen seg) ph) as [[[[sw t'] srem'] phm]|] eqn:E; [|discriminate].
  inversion Hp; subst e1 n1 ph1. clear Hp.
  pose proof (sw_shape _ _ _ _ _ _ _ _ _ E) as Sh.
  assert (Hact : p_act (ph_final phm srem') = p_act phm) by reflexivity.
  destruct HR as [|s0 acc pcs ph A0 Hall Aph|s0 acc pcs nsw ph A0 Hn Hst|s0 acc pcs nsw ph A0 Hhm Hnil].
  - (* fresh *)
    simpl mode0. destruct (p_act init) eqn:A0.
    + destruct sw as [|x rest]; simpl.
      * eexists. eexists. split; [reflexivity|].
        apply rel_stashing; auto. apply all_nm_fin.
      * destruct Sh as (Hx & Hh & Hn).
        eexists. eexists. split; [reflexivity|].
        replace (x :: rest ++ fin_els seg t' phm) with ([x] ++ (rest ++ fin_els seg t' phm)) by reflexivity.
        assert (Hxs : forallb nm [x] = true) by (simpl; rewrite Hx; reflexivity).
        pose proof (@rel_broken_on seg [] ([x] ++ (rest ++ fin_els seg t' phm)) (Datatypes.S (length rest)) (ph_final phm srem') A0) as R.
        rewrite (takeWhile_app_all _ _ Hxs), (takeWhile_hm _ Hh), (dropWhile_app_all _ _ Hxs), (dropWhile_hm _ Hh) in R.
        apply R; [lia|].
        destruct (rest ++ fin_els seg t' phm) eqn:Er.
        { right. simpl. apply Hn. reflexivity. }
        { left. rewrite !existsb_app. rewrite (hm_ex _ Hh) by discriminate. rewrite ?orb_true_r. reflexivity. }
    + destruct Sh as (Hh & Hn). simpl.
      eexists. eexists. split; [reflexivity|].
      apply rel_broken_off; auto; intros Z; simpl; apply Hn; exact Z.
  - (* stashing *)
    simpl mode0. rewrite Aph in Sh. destruct sw as [|x rest]; simpl.
    + eexists. eexists. split; [reflexivity|]. simpl.
      apply rel_stashing; auto.
      rewrite forallb_app, Hall. apply all_nm_fin.
    + destruct Sh as (Hx & Hh & Hn).
      eexists. eexists. split; [reflexivity|].
      assert (Hxs : forallb nm (pcs ++ [x]) = true) by (rewrite forallb_app, Hall; simpl; rewrite Hx; reflexivity).
      pose proof (@rel_broken_on s0 (acc ++ [seg]) ((pcs ++ [x]) ++ (rest ++ fin_els seg t' phm)) (0 + Datatypes.S (length rest)) (ph_final phm srem') A0) as R.
      rewrite (takeWhile_app_all _ _ Hxs), (takeWhile_hm _ Hh), (dropWhile_app_all _ _ Hxs), (dropWhile_hm _ Hh) in R.
      rewrite app_nil_r in R. rewrite <- app_assoc in R.
      apply R; [lia|].
      destruct (rest ++ fin_els seg t' phm) eqn:Er.
      { right. simpl. apply Hn. reflexivity. }
      { left. rewrite !existsb_app. rewrite (hm_ex (p :: l) Hh) by discriminate. rewrite ?orb_true_r. reflexivity. }
  - (* broken, started on *)
    simpl mode0. eexists. eexists. split; [reflexivity|]. simpl app.
    assert (Hh : existsb is_move pcs = true \/ (hmb (sw ++ fin_els seg t' phm) = true /\ (sw ++ fin_els seg t' phm = [] -> p_act phm = false))).
    { destruct Hst as [Hex|Hoff]; [left; auto|right]. rewrite Hoff in Sh. exact Sh. }
    pose proof (@rel_broken_on s0 (acc ++ [seg]) (pcs ++ (sw ++ fin_els seg t' phm)) (nsw + length sw) (ph_final phm srem') A0) as R.
    destruct (existsb is_move pcs) eqn:Ex.
    + rewrite (takeWhile_app_ex _ _ Ex), (dropWhile_app_ex _ _ Ex) in R. apply R; [lia|].
      left. apply existsb_app_l; auto.
    + destruct Hh as [Hh|(Hh & Hn2)]; [discriminate|].
      pose proof (not_ex_all _ Ex) as Hall.
      rewrite (takeWhile_app_all _ _ Hall), (takeWhile_hm _ Hh), (dropWhile_app_all _ _ Hall), (dropWhile_hm _ Hh) in R.
      rewrite app_nil_r in R. rewrite (dropWhile_all _ Hall), (takeWhile_all _ Hall). simpl.
      apply R; [lia|].
      destruct (sw ++ fin_els seg t' phm) eqn:Er.
      { right. simpl. apply Hn2. reflexivity. }
      { left. rewrite !existsb_app. rewrite (hm_ex (p :: l) Hh) by discriminate. rewrite ?orb_true_r. reflexivity. }
  - (* broken, started off *)
    simpl mode0. eexists. eexists. split; [reflexivity|]. simpl app.
    apply rel_broken_off; auto.
    + destruct pcs as [|p0 pr]; [|exact Hhm]. simpl.
      rewrite (Hnil eq_refl) in Sh. apply Sh.
    + intros Z. apply app_eq_nil in Z. destruct Z as [Z1 Z2]. subst pcs.
      rewrite (Hnil eq_refl) in Sh. simpl. apply Sh. exact Z2.
Qed.


(** ** [plain] over an appended run of segments *)
Lemma plain_app fuel : forall a b ph0,
  pl fuel (a ++ b) ph0 =
  match pl fuel a ph0 with
  | None => None
  | Some (p1, n1, ph1) =>
      match pl fuel b ph1 with
      | None => None
      | Some (p2, n2, ph2) => Some (p1 ++ p2, (n1 + n2)%nat, ph2)
      end
  end.
Proof.
  induction a as [|s a IH]; intros b ph0; simpl.
  - destruct (pl fuel b ph0) as [[[p2 n2] ph2]|]; reflexivity.
  - destruct (spieces fuel s f0 (arclen s) ph0) as [[[e1 n1] ph1]|]; [|reflexivity].
    rewrite IH. destruct (pl fuel a ph1) as [[[p1 m1] ph2]|]; [|reflexivity].
    destruct (pl fuel b ph2) as [[[p2 n2] ph3]|]; [|reflexivity].
    rewrite app_assoc, Nat.add_assoc. reflexivity.
Qed.

Lemma plain_snoc fuel acc seg pcs nsw ph :
  pl fuel acc init = Some (pcs, nsw, ph) ->
  pl fuel (acc ++ [seg]) init =
  match spieces fuel seg f0 (arclen seg) ph with
  | None => None
  | Some (e1, n1, ph1) => Some (pcs ++ e1, (nsw + n1)%nat, ph1)
  end.
Proof.
  intros Hp. rewrite plain_app, Hp. simpl.
  destruct (spieces fuel seg f0 (arclen seg) ph) as [[[e1 n1] ph1]|]; [|reflexivity].
  rewrite app_nil_r, Nat.add_0_r. reflexivity.
Qed.

Lemma plain_prefix fuel a b : pl fuel (a ++ b) init <> None -> pl fuel a init <> None.
Proof. rewrite plain_app. destruct (pl fuel a init); congruence. Qed.

(** ** The end of a sub-path *)
Lemma out_open fuel start acc pcs nsw ph m em :
  Rel acc pcs nsw ph m em -> pl fuel acc init = Some (pcs, nsw, ph) ->
  spout fuel init (mkSub start acc false) = Some (em ++ flush_open m).
Proof.
  intros HR Hp. unfold subpath_out. simpl sp_segs. simpl sp_closed.
  destruct HR as [|s0 acc pcs ph A0 Hall Aph|s0 acc pcs nsw ph A0 Hn Hst|s0 acc pcs nsw ph A0 Hhm Hnil];
    [reflexivity| | |]; rewrite Hp, A0; simpl.
  - rewrite (dropWhile_all _ Hall), (takeWhile_all _ Hall). reflexivity.
  - reflexivity.
  - rewrite (dropWhile_hm _ Hhm). reflexivity.
Qed.

Lemma out_closed fuel start acc pcs nsw ph m em :
  Rel acc pcs nsw ph m em -> pl fuel acc init = Some (pcs, nsw, ph) ->
  spout fuel init (mkSub start acc true) = Some (em ++ flush_closed m ph).
Proof.
  intros HR Hp. unfold subpath_out. simpl sp_segs. simpl sp_closed.
  destruct HR as [|s0 acc pcs ph A0 Hall Aph|s0 acc pcs nsw ph A0 Hn Hst|s0 acc pcs nsw ph A0 Hhm Hnil];
    [reflexivity| | |]; rewrite Hp, A0; simpl.
  - rewrite (takeWhile_all _ Hall). reflexivity.
  - destruct nsw; [congruence|]. simpl. destruct (p_act ph); reflexivity.
  - rewrite andb_false_r. rewrite (dropWhile_hm _ Hhm). destruct (p_act ph); reflexivity.
Qed.

Lemma concat_opt_cons (x : option (list (PathEl T))) l out :
  concat_opt (x :: l) = Some out ->
  exists a b, x = Some a /\ concat_opt l = Some b /\ out = a ++ b.
Proof.
  simpl. destruct x as [a|]; [|discriminate]. destruct (concat_opt l) as [b|]; [|discriminate].
  intros X; inversion X; eauto.
Qed.

Lemma spout_plain fuel start acc c a :
  acc <> [] -> spout fuel init (mkSub start acc c) = Some a -> pl fuel acc init <> None.
Proof.
  unfold subpath_out; simpl. destruct acc; [congruence|]. intros _.
  destruct (pl fuel (p :: acc) init); congruence.
Qed.

(** the segments accumulated so far can be dashed whenever the whole can *)
Lemma decl_prefix fuel : forall els start last acc out,
  concat_opt (map (spout fuel init) (subpaths_go els start last acc)) = Some out ->
  pl fuel acc init <> None.
Proof.
  induction els as [|e r IH]; intros start last acc out Hc.
  - destruct acc; [simpl; congruence|].
    cbn [subpaths_go map] in Hc. apply concat_opt_cons in Hc. destruct Hc as (a & b & Ha & _ & _).
    eapply spout_plain; eauto. congruence.
  - destruct e; cbn [subpaths_go map] in Hc.
    + destruct acc; [simpl; congruence|].
      apply concat_opt_cons in Hc. destruct Hc as (a & b & Ha & _ & _).
      eapply spout_plain; eauto. congruence.
    + apply IH in Hc. eapply plain_prefix; eauto.
    + apply IH in Hc. eapply plain_prefix; eauto.
    + apply IH in Hc. eapply plain_prefix; eauto.
    + destruct (pt_neb last start); cbn [map] in Hc.
      * apply concat_opt_cons in Hc. destruct Hc as (a & b & Ha & _ & _).
        eapply plain_prefix. eapply spout_plain; eauto. destruct acc; discriminate.
      * destruct acc; [simpl; congruence|].
        apply concat_opt_cons in Hc. destruct Hc as (a & b & Ha & _ & _).
        eapply spout_plain; eauto. congruence.
Qed.

Lemma decl_seg fuel r seg start p1
  (IH : forall start last acc pcs nsw ph m em out,
      pl fuel acc init = Some (pcs, nsw, ph) -> Rel acc pcs nsw ph m em ->
      concat_opt (map (spout fuel init) (subpaths_go r start last acc)) = Some out ->
      exists o', sgo fuel r start last m ph = Some o' /\ out = em ++ o') :
  forall acc pcs nsw ph m em out,
  pl fuel acc init = Some (pcs, nsw, ph) -> Rel acc pcs nsw ph m em ->
  concat_opt (map (spout fuel init) (subpaths_go r start p1 (acc ++ [seg]))) = Some out ->
  exists o1 m' ph1 o', sseg fuel seg m ph = Some (o1, m', ph1) /\
     sgo fuel r start p1 m' ph1 = Some o' /\ out = em ++ o1 ++ o'.
Proof.
  intros acc pcs nsw ph m em out Hp HR Hc.
  pose proof (decl_prefix _ _ _ _ _ _ Hc) as Hne.
  rewrite (plain_snoc fuel acc _ pcs nsw ph Hp) in Hne.
  destruct (spieces fuel seg f0 (arclen seg) ph) as [[[e1 n1] ph1]|] eqn:Es; [|congruence].
  destruct (rel_seg _ _ _ _ _ _ _ _ _ _ _ HR Es) as (o1 & m' & Hs & HR').
  assert (Hp' : pl fuel (acc ++ [seg]) init = Some (pcs ++ e1, (nsw + n1)%nat, ph1)).
  { rewrite (plain_snoc fuel acc _ pcs nsw ph Hp), Es. reflexivity. }
  destruct (IH _ _ _ _ _ _ _ _ _ Hp' HR' Hc) as (o' & Hg & Ho).
  exists o1, m', ph1, o'. repeat split; auto. rewrite Ho, app_assoc. reflexivity.
Qed.

Lemma decl_main fuel : forall els start last acc pcs nsw ph m em out,
  pl fuel acc init = Some (pcs, nsw, ph) -> Rel acc pcs nsw ph m em ->
  concat_opt (map (spout fuel init) (subpaths_go els start last acc)) = Some out ->
  exists o', sgo fuel els start last m ph = Some o' /\ out = em ++ o'.
Proof.
  induction els as [|e r IH]; intros start last acc pcs nsw ph m em out Hp HR Hc.
  - cbn [subpaths_go map concat_opt] in Hc. rewrite (out_open fuel start _ _ _ _ _ _ HR Hp) in Hc. inversion Hc; subst.
    exists (flush_open m). split; [reflexivity|]. rewrite app_nil_r. reflexivity.
  - destruct e as [p|p1|p1 p2|p1 p2 p3|].
    + cbn [subpaths_go map] in Hc. apply concat_opt_cons in Hc. destruct Hc as (a & b & Ha & Hb & ->).
      rewrite (out_open fuel start _ _ _ _ _ _ HR Hp) in Ha. inversion Ha; subst a.
      destruct (IH p p [] [] 0%nat init Fresh [] b eq_refl rel_fresh Hb) as (o' & Hg & ->).
      simpl. rewrite Hg. eexists. split; [reflexivity|]. simpl. rewrite app_assoc. reflexivity.
    + cbn [subpaths_go] in Hc.
      destruct (decl_seg fuel r _ start _ IH _ _ _ _ _ _ _ Hp HR Hc) as (o1 & m' & ph1 & o' & Hs & Hg & ->).
      simpl. rewrite Hs, Hg. eexists. split; reflexivity.
    + cbn [subpaths_go] in Hc.
      destruct (decl_seg fuel r _ start _ IH _ _ _ _ _ _ _ Hp HR Hc) as (o1 & m' & ph1 & o' & Hs & Hg & ->).
      simpl. rewrite Hs, Hg. eexists. split; reflexivity.
    + cbn [subpaths_go] in Hc.
      destruct (decl_seg fuel r _ start _ IH _ _ _ _ _ _ _ Hp HR Hc) as (o1 & m' & ph1 & o' & Hs & Hg & ->).
      simpl. rewrite Hs, Hg. eexists. split; reflexivity.
    + cbn [subpaths_go] in Hc. simpl. destruct (pt_neb last start) eqn:E; cbn [map] in Hc.
      * apply concat_opt_cons in Hc. destruct Hc as (a & b & Ha & Hb & ->).
        assert (Hne : pl fuel (acc ++ [SegLine (mkLine last start)]) init <> None).
        { eapply spout_plain; eauto. destruct acc; discriminate. }
        rewrite (plain_snoc fuel acc _ pcs nsw ph Hp) in Hne.
        destruct (spieces fuel (SegLine (mkLine last start)) f0 (arclen (SegLine (mkLine last start))) ph)
          as [[[e1 n1] ph1]|] eqn:Es; [|congruence].
        destruct (rel_seg _ _ _ _ _ _ _ _ _ _ _ HR Es) as (o1 & m' & Hs & HR').
        assert (Hp' : pl fuel (acc ++ [SegLine (mkLine last start)]) init = Some (pcs ++ e1, (nsw + n1)%nat, ph1)).
        { rewrite (plain_snoc fuel acc _ pcs nsw ph Hp), Es. reflexivity. }
        rewrite (out_closed fuel start _ _ _ _ _ _ HR' Hp') in Ha. inversion Ha; subst a.
        destruct (IH start start [] [] 0%nat init Fresh [] b eq_refl rel_fresh Hb) as (o' & Hg & ->).
        rewrite Hs, Hg. eexists. split; [reflexivity|]. simpl. rewrite <- !app_assoc. reflexivity.
      * apply concat_opt_cons in Hc. destruct Hc as (a & b & Ha & Hb & ->).
        rewrite (out_closed fuel start _ _ _ _ _ _ HR Hp) in Ha. inversion Ha; subst a.
        destruct (IH start last [] [] 0%nat init Fresh [] b eq_refl rel_fresh Hb) as (o' & Hg & ->).
        rewrite Hg. eexists. split; [reflexivity|]. simpl. rewrite <- !app_assoc. reflexivity.
Qed.


(** ** What [subpath_out] is, case by case *)
Lemma plain_rel fuel : forall acc pcs nsw ph,
  pl fuel acc init = Some (pcs, nsw, ph) -> exists m em, Rel acc pcs nsw ph m em.
Proof.
  induction acc as [|seg acc IH] using rev_ind; intros pcs nsw ph Hp.
  - simpl in Hp. inversion Hp; subst. exists Fresh, []. constructor.
  - pose proof Hp as Hp2. rewrite plain_app in Hp2.
    destruct (pl fuel acc init) as [[[p1 n1] ph1]|] eqn:E1; [|discriminate].
    destruct (IH _ _ _ eq_refl) as (m & em & HR).
    rewrite (plain_snoc fuel acc seg p1 n1 ph1 E1) in Hp.
    destruct (spieces fuel seg f0 (arclen seg) ph1) as [[[e1 n2] ph2]|] eqn:Es; [|discriminate].
    inversion Hp; subst.
    destruct (rel_seg _ _ _ _ _ _ _ _ _ _ _ HR Es) as (o1 & m' & _ & HR'). eauto.
Qed.

Lemma takeWhile_dropWhile (l : list (PathEl T)) : takeWhile nm l ++ dropWhile nm l = l.
Proof. induction l; simpl; auto. destruct (nm a); simpl; [f_equal; auto|reflexivity]. Qed.

Lemma dropWhile_ex_ne (l : list (PathEl T)) : existsb is_move l = true -> dropWhile nm l <> [].
Proof.
  induction l; simpl; [discriminate|]. unfold is_move at 1. destruct (nm a); simpl; [auto|discriminate].
Qed.

(** a closed sub-path *)
Theorem closed_cases fuel start s0 r pcs nsw phe :
  pl fuel (s0 :: r) init = Some (pcs, nsw, phe) ->
  exists out, spout fuel init (mkSub start (s0 :: r) true) = Some out /\
  (p_act init = true -> nsw = 0%nat ->
     out = MoveTo (seg_start s0) :: pcs ++ [ClosePath] /\ forallb nm pcs = true /\ p_act phe = true) /\
  (p_act init = true -> nsw <> 0%nat -> p_act phe = true ->
     out = dropWhile nm pcs ++ takeWhile nm pcs /\ dropWhile nm pcs <> []) /\
  (p_act init = true -> nsw <> 0%nat -> p_act phe = false ->
     out = dropWhile nm pcs ++ MoveTo (seg_start s0) :: takeWhile nm pcs) /\
  (p_act init = false -> out = pcs).
Proof.
  intros Hp. destruct (plain_rel _ _ _ _ _ Hp) as (m & em & HR).
  rewrite (out_closed fuel start _ _ _ _ _ _ HR Hp). eexists. split; [reflexivity|].
  inversion HR as [ | s0' acc' pcs' ph' A0 Hall Aph | s0' acc' pcs' nsw' ph' A0 Hn Hst | s0' acc' pcs' nsw' ph' A0 Hhm Hnil]; subst.
  - split; [|split; [|split]].
    + intros _ _. split; [reflexivity|split; [exact Hall|exact Aph]].
    + intros _ Hn. congruence.
    + intros _ Hn. congruence.
    + intros A1. congruence.
  - split; [|split; [|split]].
    + intros _ H0. contradiction.
    + intros _ _ Hact. simpl. rewrite Hact. split; [reflexivity|].
      destruct Hst as [Hex|Hoff]; [apply dropWhile_ex_ne; exact Hex|congruence].
    + intros _ _ Hact. simpl. rewrite Hact. reflexivity.
    + intros A1. congruence.
  - split; [|split; [|split]]; try (intros A1; congruence).
    intros _. simpl. destruct (p_act phe); simpl; apply app_nil_r.
Qed.

(** an open sub-path *)
Theorem open_cases fuel start s0 r pcs nsw phe :
  pl fuel (s0 :: r) init = Some (pcs, nsw, phe) ->
  exists out, spout fuel init (mkSub start (s0 :: r) false) = Some out /\
  (p_act init = true -> out = dropWhile nm pcs ++ MoveTo (seg_start s0) :: takeWhile nm pcs) /\
  (p_act init = false -> out = pcs).
Proof.
  intros Hp. destruct (plain_rel _ _ _ _ _ Hp) as (m & em & HR).
  rewrite (out_open fuel start _ _ _ _ _ _ HR Hp). eexists. split; [reflexivity|].
  inversion HR as [ | s0' acc' pcs' ph' A0 Hall Aph | s0' acc' pcs' nsw' ph' A0 Hn Hst | s0' acc' pcs' nsw' ph' A0 Hhm Hnil]; subst.
  - split; [|intros A1; congruence]. intros _. simpl.
    rewrite (dropWhile_all _ Hall), (takeWhile_all _ Hall). reflexivity.
  - split; [|intros A1; congruence]. intros _. reflexivity.
  - split; [intros A1; congruence|]. intros _. simpl. apply app_nil_r.
Qed.

(** the output is the concatenation of the outputs of the sub-paths *)
Lemma concat_opt_Forall2 (A : Type) (f : A -> option (list (PathEl T))) (l : list A) out :
  concat_opt (map f l) = Some out ->
  exists outs, Forall2 (fun x o => f x = Some o) l outs /\ out = concat outs.
Proof.
  revert out; induction l as [|x l IH]; intros out Hc.
  - simpl in Hc. inversion Hc. exists []. split; [constructor|reflexivity].
  - cbn [map] in Hc. apply concat_opt_cons in Hc. destruct Hc as (a & b & Ha & Hb & ->).
    destruct (IH b Hb) as (outs & HF & ->). exists (a :: outs). split; [constructor; auto|reflexivity].
Qed.

(** ** The machine computes the declarative specification *)
Hypothesis pt_neb_refl : forall p : Point T, pt_neb p p = false.

Theorem machine_dash_spec fuel els out :
  dash_spec_from arclen inv_arclen dashes fuel init els = Some out ->
  exists n, Runs arclen inv_arclen dashes init (init_state init els) out n /\
            (n <= 2 * length out + 5 * length els + 2)%nat.
Proof.
  intros Hd. unfold dash_spec_from, subpaths in Hd.
  destruct (decl_main fuel els origin origin [] [] 0%nat init Fresh [] out eq_refl rel_fresh Hd) as (o' & Hg & ->).
  simpl. eapply machine_spec_go; eauto.
Qed.

End Decl.
