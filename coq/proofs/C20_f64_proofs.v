(** C20 on binary64 itself: the lattice laws of model/Rect.v at the [F64] instance, for all non-NaN
    coordinates (infinities included, -0 and +0 identified by every comparison).
    Method: [xv] (F64_exact.v) embeds the non-NaN binary64 numbers into the reals monotonically and sends
    Rust's min/max to Rmin/Rmax, so [rv]/[pv] (coordinate-wise [xv]) is a homomorphism from the float
    run of union / intersect / contains / overlaps / contains_rect / abs / from_points / union_pt / winding
    to their real run; the theorems of C20_proofs.v are pulled back along it. Witness points needed by
    existential statements are float points (corners, max of corners). *)
From Coq Require Import ZArith Reals List Bool Floats Lra Lia.
From Flocq Require Import Core.Zaux Core.Raux Core.Defs Core.Generic_fmt Core.FLT Core.Round_NE IEEE754.BinarySingleNaN IEEE754.PrimFloat.
From KV Require Import Scalar RInst F64 Geom Rect RTac RectSpec C20_proofs F64_exact.
Local Open Scope R_scope.

(** * vocabulary on floats (what Properties/C20_f64.v is stated in) *)
Definition fle (x y : pfloat) : Prop := PrimFloat.leb x y = true.
Definition flt (x y : pfloat) : Prop := PrimFloat.ltb x y = true.
Definition pt_nn (p : Point pfloat) : Prop := nn (px p) /\ nn (py p).
Definition rect_nn (r : Rect pfloat) : Prop := nn (rx0 r) /\ nn (ry0 r) /\ nn (rx1 r) /\ nn (ry1 r).
Definition fnonneg (r : Rect pfloat) : Prop := fle (rx0 r) (rx1 r) /\ fle (ry0 r) (ry1 r).
Definition fin_closed (r : Rect pfloat) (p : Point pfloat) : Prop :=
  (fle (rx0 r) (px p) /\ fle (px p) (rx1 r)) /\ (fle (ry0 r) (py p) /\ fle (py p) (ry1 r)).
Definition fin_half_open (r : Rect pfloat) (p : Point pfloat) : Prop :=
  (fle (rx0 r) (px p) /\ flt (px p) (rx1 r)) /\ (fle (ry0 r) (py p) /\ flt (py p) (ry1 r)).
Definition fsubset (a b : Rect pfloat) : Prop :=
  fle (rx0 b) (rx0 a) /\ fle (ry0 b) (ry0 a) /\ fle (rx1 a) (rx1 b) /\ fle (ry1 a) (ry1 b).
Definition fmeet (a b : Rect pfloat) : Prop := exists p, fin_closed a p /\ fin_closed b p.
(** numerically equal rectangles (the correspondence check's equality: -0 = +0) *)
Definition rect_same (a b : Rect pfloat) : Prop :=
  F.same (rx0 a) (rx0 b) = true /\ F.same (ry0 a) (ry0 b) = true /\
  F.same (rx1 a) (rx1 b) = true /\ F.same (ry1 a) (ry1 b) = true.

(** * the homomorphism *)
Definition rv (r : Rect pfloat) : Rect R := mkRect (xv (rx0 r)) (xv (ry0 r)) (xv (rx1 r)) (xv (ry1 r)).
Definition pv (p : Point pfloat) : Point R := mkPoint (xv (px p)) (xv (py p)).

Lemma fle_nn x y : fle x y -> nn x /\ nn y.
Proof.
  unfold fle, nn. intros H.
  destruct (PrimFloat.is_nan x) eqn:Ex; [destruct (cmp_nan x y (or_introl Ex)) as (_ & L & _); congruence|].
  destruct (PrimFloat.is_nan y) eqn:Ey; [destruct (cmp_nan x y (or_intror Ey)) as (_ & L & _); congruence|].
  split; reflexivity.
Qed.
Lemma flt_nn x y : flt x y -> nn x /\ nn y.
Proof.
  unfold flt, nn. intros H.
  destruct (PrimFloat.is_nan x) eqn:Ex; [destruct (cmp_nan x y (or_introl Ex)) as (L & _ & _); congruence|].
  destruct (PrimFloat.is_nan y) eqn:Ey; [destruct (cmp_nan x y (or_intror Ey)) as (L & _ & _); congruence|].
  split; reflexivity.
Qed.
Lemma fle_xv x y : nn x -> nn y -> (fle x y <-> xv x <= xv y).
Proof. intros Nx Ny. unfold fle. rewrite (leb_xv x y Nx Ny). apply Rleb_true. Qed.
Lemma flt_xv x y : nn x -> nn y -> (flt x y <-> xv x < xv y).
Proof. intros Nx Ny. unfold flt. rewrite (ltb_xv x y Nx Ny). apply Rltb_true. Qed.
Lemma fle_to x y : fle x y -> xv x <= xv y.
Proof. intros H. destruct (fle_nn x y H). apply fle_xv; assumption. Qed.
Lemma flt_to x y : flt x y -> xv x < xv y.
Proof. intros H. destruct (flt_nn x y H). apply flt_xv; assumption. Qed.
Lemma same_xv_iff x y : nn x -> nn y -> (F.same x y = true <-> xv x = xv y).
Proof. intros Nx Ny. rewrite (same_xv x y Nx Ny). apply Reqb_true. Qed.

Lemma fnonneg_nn r : fnonneg r -> rect_nn r.
Proof. intros [A B]. destruct (fle_nn _ _ A), (fle_nn _ _ B). repeat split; assumption. Qed.
Lemma fsubset_nn a b : fsubset a b -> rect_nn a /\ rect_nn b.
Proof.
  intros (A & B & C & D). destruct (fle_nn _ _ A), (fle_nn _ _ B), (fle_nn _ _ C), (fle_nn _ _ D).
  repeat split; assumption.
Qed.
Lemma fin_closed_nn r p : fin_closed r p -> pt_nn p /\ rect_nn r.
Proof.
  intros ((A & B) & (C & D)). destruct (fle_nn _ _ A), (fle_nn _ _ B), (fle_nn _ _ C), (fle_nn _ _ D).
  repeat split; assumption.
Qed.

Lemma fnonneg_rv r : rect_nn r -> (fnonneg r <-> nonneg (rv r)).
Proof.
  intros (A & B & C & D). unfold fnonneg, nonneg, rv. cbn [rx0 ry0 rx1 ry1].
  rewrite (fle_xv _ _ A C), (fle_xv _ _ B D). reflexivity.
Qed.
Lemma fsubset_rv a b : rect_nn a -> rect_nn b -> (fsubset a b <-> subset (rv a) (rv b)).
Proof.
  intros (A & B & C & D) (A' & B' & C' & D'). unfold fsubset, subset, rv. cbn [rx0 ry0 rx1 ry1].
  rewrite (fle_xv _ _ A' A), (fle_xv _ _ B' B), (fle_xv _ _ C C'), (fle_xv _ _ D D'). reflexivity.
Qed.
Lemma fin_closed_rv r p : rect_nn r -> pt_nn p -> (fin_closed r p <-> in_closed (rv r) (pv p)).
Proof.
  intros (A & B & C & D) (X & Y). unfold fin_closed, in_closed, rv, pv. cbn [rx0 ry0 rx1 ry1 px py].
  rewrite (fle_xv _ _ A X), (fle_xv _ _ X C), (fle_xv _ _ B Y), (fle_xv _ _ Y D). reflexivity.
Qed.
Lemma fin_half_open_rv r p : rect_nn r -> pt_nn p -> (fin_half_open r p <-> in_half_open (rv r) (pv p)).
Proof.
  intros (A & B & C & D) (X & Y). unfold fin_half_open, in_half_open, rv, pv. cbn [rx0 ry0 rx1 ry1 px py].
  rewrite (fle_xv _ _ A X), (flt_xv _ _ X C), (fle_xv _ _ B Y), (flt_xv _ _ Y D). reflexivity.
Qed.
Lemma rect_same_rv a b : rect_nn a -> rect_nn b -> (rect_same a b <-> rv a = rv b).
Proof.
  intros (A & B & C & D) (A' & B' & C' & D'). unfold rect_same, rv.
  rewrite (same_xv_iff _ _ A A'), (same_xv_iff _ _ B B'), (same_xv_iff _ _ C C'), (same_xv_iff _ _ D D').
  split; [intros (-> & -> & -> & ->); reflexivity|intros E; injection E; auto].
Qed.

(** the operations commute with [rv] *)
Ltac f64_ops := cbn [fmin fmax fleb fltb feqb F64 RS] in *.

Lemma rv_union a b : rect_nn a -> rect_nn b ->
  rect_nn (rect_union a b) /\ rv (rect_union a b) = rect_union (rv a) (rv b).
Proof.
  intros (A & B & C & D) (A' & B' & C' & D'). unfold rect_union, rect_nn, rv. cbn [rx0 ry0 rx1 ry1]. f64_ops.
  destruct (min_xv _ _ A A') as [N1 ->], (min_xv _ _ B B') as [N2 ->],
           (max_xv _ _ C C') as [N3 ->], (max_xv _ _ D D') as [N4 ->].
  repeat split; assumption.
Qed.
Lemma rv_union_pt a p : rect_nn a -> pt_nn p ->
  rect_nn (rect_union_pt a p) /\ rv (rect_union_pt a p) = rect_union_pt (rv a) (pv p).
Proof.
  intros (A & B & C & D) (X & Y). unfold rect_union_pt, rect_nn, rv, pv. cbn [rx0 ry0 rx1 ry1 px py]. f64_ops.
  destruct (min_xv _ _ A X) as [N1 ->], (min_xv _ _ B Y) as [N2 ->],
           (max_xv _ _ C X) as [N3 ->], (max_xv _ _ D Y) as [N4 ->].
  repeat split; assumption.
Qed.
Lemma rv_intersect a b : rect_nn a -> rect_nn b ->
  rect_nn (rect_intersect a b) /\ rv (rect_intersect a b) = rect_intersect (rv a) (rv b).
Proof.
  intros (A & B & C & D) (A' & B' & C' & D'). unfold rect_intersect, rect_nn, rv. cbn [rx0 ry0 rx1 ry1]. f64_ops.
  destruct (max_xv _ _ A A') as [N1 E1], (max_xv _ _ B B') as [N2 E2],
           (min_xv _ _ C C') as [N3 E3], (min_xv _ _ D D') as [N4 E4].
  destruct (max_xv _ _ N3 N1) as [N5 E5], (max_xv _ _ N4 N2) as [N6 E6].
  rewrite E5, E6, E1, E2, E3, E4. repeat split; assumption.
Qed.
Lemma rv_abs r : rect_nn r -> rect_nn (rect_abs r) /\ rv (rect_abs r) = rect_abs (rv r).
Proof.
  intros (A & B & C & D). unfold rect_abs, rect_nn, rv. cbn [rx0 ry0 rx1 ry1]. f64_ops.
  destruct (min_xv _ _ A C) as [N1 ->], (min_xv _ _ B D) as [N2 ->],
           (max_xv _ _ A C) as [N3 ->], (max_xv _ _ B D) as [N4 ->].
  repeat split; assumption.
Qed.
Lemma contains_rv r p : rect_nn r -> pt_nn p -> rect_contains r p = rect_contains (rv r) (pv p).
Proof.
  intros (A & B & C & D) (X & Y). unfold rect_contains, rv, pv. cbn [rx0 ry0 rx1 ry1 px py]. f64_ops.
  rewrite (leb_xv _ _ A X), (ltb_xv _ _ X C), (leb_xv _ _ B Y), (ltb_xv _ _ Y D). reflexivity.
Qed.
Lemma overlaps_rv a b : rect_nn a -> rect_nn b -> rect_overlaps a b = rect_overlaps (rv a) (rv b).
Proof.
  intros (A & B & C & D) (A' & B' & C' & D'). unfold rect_overlaps, rv. cbn [rx0 ry0 rx1 ry1]. f64_ops.
  rewrite (leb_xv _ _ A C'), (leb_xv _ _ A' C), (leb_xv _ _ B D'), (leb_xv _ _ B' D). reflexivity.
Qed.
Lemma contains_rect_rv a b : rect_nn a -> rect_nn b -> rect_contains_rect a b = rect_contains_rect (rv a) (rv b).
Proof.
  intros (A & B & C & D) (A' & B' & C' & D'). unfold rect_contains_rect, rv. cbn [rx0 ry0 rx1 ry1]. f64_ops.
  rewrite (leb_xv _ _ A A'), (leb_xv _ _ B B'), (leb_xv _ _ C' C), (leb_xv _ _ D' D). reflexivity.
Qed.

(** * the laws *)
Lemma f_union_lub a b : rect_nn a -> rect_nn b ->
  fsubset a (rect_union a b) /\ fsubset b (rect_union a b) /\
  forall c, fsubset a c -> fsubset b c -> fsubset (rect_union a b) c.
Proof.
  intros Na Nb. destruct (rv_union a b Na Nb) as [Nu Eu].
  destruct (union_lub (rv a) (rv b)) as (H1 & H2 & H3). rewrite <- Eu in *.
  split; [apply fsubset_rv; assumption|]. split; [apply fsubset_rv; assumption|].
  intros c Hac Hbc. destruct (fsubset_nn _ _ Hac) as [_ Nc].
  apply fsubset_rv; try assumption. apply H3; apply fsubset_rv; assumption.
Qed.
Lemma f_union_nonneg a b : fnonneg a -> fnonneg b -> fnonneg (rect_union a b).
Proof.
  intros Ha Hb. pose proof (fnonneg_nn a Ha) as Na. pose proof (fnonneg_nn b Hb) as Nb.
  destruct (rv_union a b Na Nb) as [Nu Eu]. apply fnonneg_rv; [assumption|]. rewrite Eu.
  apply union_nonneg; apply fnonneg_rv; assumption.
Qed.
(** corner containment is inclusion of the closed rectangles (as sets of float points) *)
Lemma f_subset_set a b : fnonneg a ->
  (fsubset a b <-> forall p, fin_closed a p -> fin_closed b p).
Proof.
  intros Ha. pose proof (fnonneg_nn a Ha) as Na. split.
  - intros Hs p Hp. destruct (fsubset_nn _ _ Hs) as [_ Nb]. destruct (fin_closed_nn _ _ Hp) as [Np _].
    apply fin_closed_rv; try assumption.
    apply (proj1 (subset_set (rv a) (rv b) (proj1 (fnonneg_rv a Na) Ha))).
    + apply fsubset_rv; assumption.
    + apply fin_closed_rv; assumption.
  - intros Hp. destruct Na as (A & B & C & D).
    assert (R1 : forall x, nn x -> fle x x) by (intros x Nx; apply fle_xv; try assumption; lra).
    destruct Ha as [Hx Hy].
    pose proof (Hp (mkPoint (rx0 a) (ry0 a))) as P1. pose proof (Hp (mkPoint (rx1 a) (ry1 a))) as P2.
    unfold fin_closed in P1, P2. cbn [px py] in P1, P2.
    destruct P1 as ((? & ?) & (? & ?)); [repeat split; auto|].
    destruct P2 as ((? & ?) & (? & ?)); [repeat split; auto|].
    repeat split; assumption.
Qed.

(** overlaps <-> the closed rectangles share a float point; the witness is (max x0s, max y0s) *)
Lemma fmeet_to a b : fmeet a b -> meet (rv a) (rv b).
Proof.
  intros [p [Ha Hb]]. destruct (fin_closed_nn _ _ Ha) as [Np Na]. destruct (fin_closed_nn _ _ Hb) as [_ Nb].
  exists (pv p). split; apply fin_closed_rv; assumption.
Qed.
Lemma f_overlaps_iff_meet a b : fnonneg a -> fnonneg b -> (rect_overlaps a b = true <-> fmeet a b).
Proof.
  intros Ha Hb. pose proof (fnonneg_nn a Ha) as Na. pose proof (fnonneg_nn b Hb) as Nb.
  pose proof (proj1 (fnonneg_rv a Na) Ha) as Ra. pose proof (proj1 (fnonneg_rv b Nb) Hb) as Rb.
  rewrite (overlaps_rv a b Na Nb). split.
  - intros Ho. apply (overlaps_iff_meet _ _ Ra Rb), (meet_iff _ _ Ra Rb) in Ho.
    exists (mkPoint (F.max (rx0 a) (rx0 b)) (F.max (ry0 a) (ry0 b))).
    destruct Na as (A & B & C & D), Nb as (A' & B' & C' & D').
    destruct (max_xv _ _ A A') as [N1 E1], (max_xv _ _ B B') as [N2 E2].
    unfold nonneg, rv in Ra, Rb, Ho. cbn [rx0 ry0 rx1 ry1] in Ra, Rb, Ho.
    split; (apply fin_closed_rv; [repeat split; assumption|split; assumption|]);
      unfold in_closed, rv, pv; cbn [rx0 ry0 rx1 ry1 px py]; rewrite E1, E2; revert Ho; minmax.
  - intros Hm. apply (overlaps_iff_meet _ _ Ra Rb). apply fmeet_to. exact Hm.
Qed.
Lemma f_overlaps_sym a b : rect_overlaps a b = rect_overlaps b a.
Proof.
  unfold rect_overlaps. f64_ops.
  destruct (PrimFloat.leb (rx0 a) (rx1 b)), (PrimFloat.leb (rx0 b) (rx1 a)),
           (PrimFloat.leb (ry0 a) (ry1 b)), (PrimFloat.leb (ry0 b) (ry1 a)); reflexivity.
Qed.

Lemma f_intersect_glb a b : fnonneg a -> fnonneg b -> fmeet a b ->
  let i := rect_intersect a b in
  fnonneg i /\ fsubset i a /\ fsubset i b /\
  forall c, fnonneg c -> fsubset c a -> fsubset c b -> fsubset c i.
Proof.
  intros Ha Hb Hm i. pose proof (fnonneg_nn a Ha) as Na. pose proof (fnonneg_nn b Hb) as Nb.
  destruct (rv_intersect a b Na Nb) as [Ni Ei]. fold i in Ni, Ei.
  destruct (intersect_glb (rv a) (rv b) (proj1 (fnonneg_rv a Na) Ha) (proj1 (fnonneg_rv b Nb) Hb) (fmeet_to a b Hm))
    as (H1 & H2 & H3 & H4). rewrite <- Ei in *.
  split; [apply fnonneg_rv; assumption|]. split; [apply fsubset_rv; assumption|].
  split; [apply fsubset_rv; assumption|].
  intros c Hc Hca Hcb. pose proof (fnonneg_nn c Hc) as Nc.
  apply fsubset_rv; try assumption. apply H4; [apply fnonneg_rv|apply fsubset_rv|apply fsubset_rv]; assumption.
Qed.

(** disjoint: the intersection has non-negative extent and is degenerate along an axis; if moreover its
    width and height are finite (no overflow in the two subtractions), its area is a zero *)
Lemma f_intersect_disjoint a b : fnonneg a -> fnonneg b -> ~ fmeet a b ->
  let i := rect_intersect a b in
  fnonneg i /\ (F.same (rx0 i) (rx1 i) = true \/ F.same (ry0 i) (ry1 i) = true).
Proof.
  intros Ha Hb Hm i. pose proof (fnonneg_nn a Ha) as Na. pose proof (fnonneg_nn b Hb) as Nb.
  pose proof (proj1 (fnonneg_rv a Na) Ha) as Ra. pose proof (proj1 (fnonneg_rv b Nb) Hb) as Rb.
  destruct (rv_intersect a b Na Nb) as [Ni Ei]. fold i in Ni, Ei.
  assert (Hm' : ~ meet (rv a) (rv b)).
  { intros M. apply Hm. apply (f_overlaps_iff_meet a b Ha Hb). rewrite (overlaps_rv a b Na Nb).
    apply (overlaps_iff_meet _ _ Ra Rb). exact M. }
  destruct (intersect_disjoint (rv a) (rv b) Ra Rb Hm') as [H1 H2]. rewrite <- Ei in *.
  split; [apply fnonneg_rv; assumption|].
  destruct Ni as (A & B & C & D).
  unfold rect_area, rect_width, rect_height, rv in H2. cbn [rx0 ry0 rx1 ry1] in H2. rs_unfold.
  apply Rmult_integral in H2. destruct H2 as [H2|H2]; [left|right]; apply same_xv_iff; try assumption; lra.
Qed.
Lemma degenerate_area_zero (r : Rect pfloat) :
  ffin (rx0 r) -> ffin (rx1 r) -> ffin (ry0 r) -> ffin (ry1 r) ->
  F.same (rx0 r) (rx1 r) = true \/ F.same (ry0 r) (ry1 r) = true ->
  ffin (rect_width r) -> ffin (rect_height r) ->
  PrimFloat.is_zero (rect_area r) = true.
Proof.
  intros A C B D Hd Fw Fh. unfold rect_area, rect_width, rect_height in *. cbn [fmul fsub F64] in *.
  assert (Z : fv (rx1 r - rx0 r)%float = 0 \/ fv (ry1 r - ry0 r)%float = 0).
  { destruct Hd as [Hd|Hd]; [left|right].
    - apply same_xv_iff in Hd; try (apply ffin_nn; assumption). rewrite !xv_fv in Hd by assumption.
      rewrite (sub_fin_inv _ _ C A Fw), Hd, Rminus_diag_eq by reflexivity. apply round_0, valid_rnd_round_mode.
    - apply same_xv_iff in Hd; try (apply ffin_nn; assumption). rewrite !xv_fv in Hd by assumption.
      rewrite (sub_fin_inv _ _ D B Fh), Hd, Rminus_diag_eq by reflexivity. apply round_0, valid_rnd_round_mode. }
  assert (E : rnd64 (fv (rx1 r - rx0 r)%float * fv (ry1 r - ry0 r)%float) = 0).
  { destruct Z as [-> | ->]; rewrite ?Rmult_0_l, ?Rmult_0_r; apply round_0, valid_rnd_round_mode. }
  destruct (mul_fv _ _ Fw Fh) as [F V]; [rewrite E, Rabs_R0; apply big_pos|].
  apply (fv_zero_iff _ F). rewrite V. exact E.
Qed.

Lemma f_contains_half_open r p : rect_contains r p = true <-> fin_half_open r p.
Proof.
  unfold rect_contains, fin_half_open, fle, flt. f64_ops. rewrite !andb_true_iff. tauto.
Qed.

(** contains_rect <-> union = container, as numerical equality of rectangles; and in the -> direction the
    union is the container bit for bit except where a coordinate of the container is a zero *)
Lemma f_contains_rect_spec a b : rect_contains_rect a b = true <-> fsubset b a.
Proof. unfold rect_contains_rect, fsubset, fle. f64_ops. rewrite !andb_true_iff. tauto. Qed.
Lemma f_contains_rect_iff_union_eq a b : rect_nn a -> rect_nn b ->
  (rect_contains_rect a b = true <-> rect_same (rect_union a b) a).
Proof.
  intros Na Nb. destruct (rv_union a b Na Nb) as [Nu Eu].
  rewrite (contains_rect_rv a b Na Nb), (rect_same_rv _ _ Nu Na), Eu.
  apply contains_rect_iff_union_eq'.
Qed.

(** abs: non-negative extent, the same corner coordinates (as a set, per axis), identity on rectangles that
    already have non-negative extent (numerically; bit for bit on the min side) *)
Lemma f_abs_spec r : rect_nn r ->
  let a := rect_abs r in
  fnonneg a /\
  ((rx0 a = rx0 r /\ rx1 a = rx1 r) \/ (rx0 a = rx1 r /\ rx1 a = rx0 r) \/ (rx0 a = rx0 r /\ rx1 a = rx0 r /\ F.same (rx0 r) (rx1 r) = true)) /\
  ((ry0 a = ry0 r /\ ry1 a = ry1 r) \/ (ry0 a = ry1 r /\ ry1 a = ry0 r) \/ (ry0 a = ry0 r /\ ry1 a = ry0 r /\ F.same (ry0 r) (ry1 r) = true)) /\
  (fnonneg r -> rect_same a r).
Proof.
  intros Nr a. destruct (rv_abs r Nr) as [Na Ea]. fold a in Na, Ea.
  destruct (abs_spec (rv r)) as (H1 & _ & _ & H4). rewrite <- Ea in *.
  split; [apply fnonneg_rv; assumption|].
  destruct Nr as (A & B & C & D).
  assert (AX : forall x y, nn x -> nn y ->
            (F.min x y = x /\ F.max x y = y) \/ (F.min x y = y /\ F.max x y = x) \/
            (F.min x y = x /\ F.max x y = x /\ F.same x y = true)).
  { intros x y Nx Ny. rewrite (min_sel x y Nx Ny), (max_sel x y Nx Ny), (same_xv x y Nx Ny),
      (ltb_xv x y Nx Ny), (ltb_xv y x Ny Nx).
    destruct (Rltb_spec (xv x) (xv y)), (Rltb_spec (xv y) (xv x)); try lra; auto.
    right. right. repeat split. apply Reqb_true. lra. }
  split; [exact (AX _ _ A C)|]. split; [exact (AX _ _ B D)|].
  intros Hr. apply rect_same_rv; try assumption; [repeat split; assumption|].
  apply H4. apply fnonneg_rv; [repeat split; assumption|exact Hr].
Qed.
Lemma f_from_points_abs x0 y0 x1 y1 : nn x0 -> nn y0 -> nn x1 -> nn y1 ->
  rect_from_points (mkPoint x0 y0) (mkPoint x1 y1) = rect_abs (mkRect x0 y0 x1 y1) /\
  rect_same (rect_from_points (mkPoint x1 y1) (mkPoint x0 y0)) (rect_abs (mkRect x0 y0 x1 y1)).
Proof.
  intros A B C D. split; [reflexivity|].
  unfold rect_from_points. cbn [px py].
  destruct (rv_abs (mkRect x1 y1 x0 y0)) as [N1 E1]; [repeat split; assumption|].
  destruct (rv_abs (mkRect x0 y0 x1 y1)) as [N2 E2]; [repeat split; assumption|].
  apply rect_same_rv; try assumption. rewrite E1, E2.
  destruct (from_points_abs (xv x0) (xv y0) (xv x1) (xv y1)) as [F1 F2].
  unfold rect_from_points in F1, F2. cbn [px py] in F1, F2. unfold rv. cbn [rx0 ry0 rx1 ry1].
  exact F2.
Qed.

Lemma f_union_pt_lub r p : fnonneg r -> pt_nn p ->
  let u := rect_union_pt r p in
  fsubset r u /\ fin_closed u p /\ forall c, fsubset r c -> fin_closed c p -> fsubset u c.
Proof.
  intros Hr Np u. pose proof (fnonneg_nn r Hr) as Nr.
  destruct (rv_union_pt r p Nr Np) as [Nu Eu]. fold u in Nu, Eu.
  destruct (union_pt_lub (rv r) (pv p) (proj1 (fnonneg_rv r Nr) Hr)) as (H1 & H2 & H3). rewrite <- Eu in *.
  split; [apply fsubset_rv; assumption|]. split; [apply fin_closed_rv; assumption|].
  intros c Hc Hp. destruct (fsubset_nn _ _ Hc) as [_ Nc].
  apply fsubset_rv; try assumption. apply H3; [apply fsubset_rv|apply fin_closed_rv]; assumption.
Qed.

(** two rectangles sharing an edge tile their union under the half-open rule *)
Lemma f_rect_tiling_x (x0 xm x1 y0 y1 : pfloat) p : fle x0 xm -> fle xm x1 -> nn y0 -> nn y1 -> pt_nn p ->
  let l := mkRect x0 y0 xm y1 in let r := mkRect xm y0 x1 y1 in let whole := mkRect x0 y0 x1 y1 in
  rect_contains whole p = xorb (rect_contains l p) (rect_contains r p) /\
  (rect_contains l p && rect_contains r p = false).
Proof.
  intros H1 H2 B D [Nx Ny] l r whole. destruct (fle_nn _ _ H1) as [A M]. destruct (fle_nn _ _ H2) as [_ C].
  rewrite (contains_rv whole p), (contains_rv l p), (contains_rv r p) by (repeat split; assumption).
  apply (rect_tiling_x (xv x0) (xv xm) (xv x1) (xv y0) (xv y1) (pv p)).
  split; apply fle_to; assumption.
Qed.

(** what a NaN coordinate does (why the theorems exclude it): every comparison with it is false, and
    Rust's min/max return the other operand *)
Lemma nan_behaviour (x : pfloat) :
  PrimFloat.leb nan x = false /\ PrimFloat.leb x nan = false /\ F.min nan x = x /\ F.max x nan = x.
Proof.
  destruct (cmp_nan nan x (or_introl eq_refl)) as (_ & L1 & _).
  destruct (cmp_nan x nan (or_intror eq_refl)) as (_ & L2 & _).
  repeat split; try assumption.
  unfold F.max. destruct (PrimFloat.is_nan x) eqn:E; [|reflexivity].
  rewrite is_nan_equiv in E. rewrite <- (B2Prim_Prim2B x). destruct (Prim2B x); try discriminate. reflexivity.
Qed.

(** abs keeps the extents: width(abs r) is |width r| as binary64 numbers (both are the correctly rounded
    |x1 - x0|, rounding to nearest even being symmetric), provided the subtraction does not overflow *)
Lemma fv_abs y : fv (abs y) = Rabs (fv y).
Proof. unfold fv. rewrite abs_equiv. apply B2R_Babs. Qed.
Lemma ffin_abs y : ffin (abs y) <-> ffin y.
Proof. rewrite !ffin_B, abs_equiv, is_finite_Babs. reflexivity. Qed.
Lemma rnd_abs x : rnd64 (Rabs x) = Rabs (rnd64 x).
Proof. apply (@round_NE_abs radix2 fexp64 (fexp_correct prec emax eq_refl)). Qed.
Lemma f_abs_width x0 x1 : ffin x0 -> ffin x1 -> ffin (x1 - x0)%float ->
  ffin (F.max x0 x1 - F.min x0 x1)%float /\ F.same (F.max x0 x1 - F.min x0 x1)%float (abs (x1 - x0)%float) = true.
Proof.
  intros F0 F1 Fd. pose proof (ffin_nn _ F0) as N0. pose proof (ffin_nn _ F1) as N1.
  destruct (max_xv x0 x1 N0 N1) as [_ EM]. destruct (min_xv x0 x1 N0 N1) as [_ Em].
  pose proof (max_ffin x0 x1 F0 F1) as FM. pose proof (min_ffin x0 x1 F0 F1) as Fm.
  rewrite !xv_fv in EM, Em by assumption.
  assert (E : rnd64 (fv (F.max x0 x1) - fv (F.min x0 x1)) = Rabs (fv (x1 - x0)%float)).
  { rewrite (sub_fin_inv x1 x0 F1 F0 Fd), <- rnd_abs, EM, Em. f_equal. minmax. }
  destruct (sub_fv _ _ FM Fm) as [F V]; [rewrite E, Rabs_Rabsolu; apply fv_lt_big|].
  split; [exact F|]. apply fv_same; [exact F|apply ffin_abs; exact Fd|]. rewrite V, E, fv_abs. reflexivity.
Qed.
Lemma f_abs_extents (r : Rect pfloat) :
  ffin (rx0 r) -> ffin (ry0 r) -> ffin (rx1 r) -> ffin (ry1 r) ->
  ffin (rect_width r) -> ffin (rect_height r) ->
  F.same (rect_width (rect_abs r)) (abs (rect_width r)) = true /\
  F.same (rect_height (rect_abs r)) (abs (rect_height r)) = true.
Proof.
  intros A B C D Fw Fh. unfold rect_width, rect_height, rect_abs in *. cbn [rx0 ry0 rx1 ry1 fsub fmin fmax F64] in *.
  split; [apply (f_abs_width _ _ A C Fw)|apply (f_abs_width _ _ B D Fh)].
Qed.

(** the vocabulary, unfolded (Properties/C20_f64.v) *)
Lemma vocabulary (x y : pfloat) (a b : Rect pfloat) (p : Point pfloat) :
  (fle x y <-> PrimFloat.leb x y = true) /\ (flt x y <-> PrimFloat.ltb x y = true) /\
  (fle x y -> nn x /\ nn y) /\ (flt x y -> nn x /\ nn y) /\
  (rect_nn a <-> nn (rx0 a) /\ nn (ry0 a) /\ nn (rx1 a) /\ nn (ry1 a)) /\
  (fnonneg a <-> fle (rx0 a) (rx1 a) /\ fle (ry0 a) (ry1 a)) /\
  (fsubset a b <-> fle (rx0 b) (rx0 a) /\ fle (ry0 b) (ry0 a) /\ fle (rx1 a) (rx1 b) /\ fle (ry1 a) (ry1 b)) /\
  (fin_closed a p <-> (fle (rx0 a) (px p) /\ fle (px p) (rx1 a)) /\ (fle (ry0 a) (py p) /\ fle (py p) (ry1 a))) /\
  (fin_half_open a p <-> (fle (rx0 a) (px p) /\ flt (px p) (rx1 a)) /\ (fle (ry0 a) (py p) /\ flt (py p) (ry1 a))) /\
  (fmeet a b <-> exists q, fin_closed a q /\ fin_closed b q) /\
  (rect_same a b <-> F.same (rx0 a) (rx0 b) = true /\ F.same (ry0 a) (ry0 b) = true /\
                     F.same (rx1 a) (rx1 b) = true /\ F.same (ry1 a) (ry1 b) = true).
Proof.
  split; [reflexivity|]. split; [reflexivity|]. split; [apply fle_nn|]. split; [apply flt_nn|].
  split; [reflexivity|]. split; [reflexivity|]. split; [reflexivity|]. split; [reflexivity|].
  split; [reflexivity|]. split; reflexivity.
Qed.

(** * witnesses (binary64 literals, evaluated) *)
Local Open Scope float_scope.
Definition ra : Rect pfloat := mkRect (-0x1.8p+1) (-0) 0x1.0000000000001p+1 0x1p-1074.
Definition rb : Rect pfloat := mkRect 0x1p+1 0 infinity 0x1.fffffffffffffp+1023.
Definition rc : Rect pfloat := mkRect 0x1.8p+1 2 0x1p+2 3.
Definition pw : Point pfloat := mkPoint 0x1p+1 0.
Lemma ex_fle_dec x y : PrimFloat.leb x y = true -> fle x y. Proof. exact (fun H => H). Qed.
Lemma witnesses :
  fnonneg ra /\ fnonneg rb /\ fnonneg rc /\ fmeet ra rb /\ ~ fmeet ra rc /\
  rect_overlaps ra rb = true /\ rect_overlaps ra rc = false /\ pt_nn pw /\
  rect_nn (mkRect 3 4 (-1) neg_infinity).
Proof.
  assert (Ha : fnonneg ra) by (split; vm_compute; reflexivity).
  assert (Hb : fnonneg rb) by (split; vm_compute; reflexivity).
  assert (Hc : fnonneg rc) by (split; vm_compute; reflexivity).
  split; [exact Ha|]. split; [exact Hb|]. split; [exact Hc|].
  split; [exists pw; repeat split; vm_compute; reflexivity|].
  split; [intros M; apply (f_overlaps_iff_meet ra rc Ha Hc) in M; vm_compute in M; discriminate M|].
  repeat split; vm_compute; reflexivity.
Qed.
(** the area of the (degenerate) intersection of two disjoint finite rectangles can be NaN: 0 * inf *)
Definition tall_a : Rect pfloat := mkRect 0 (-0x1.8p+1023) 1 0x1.8p+1023.
Definition tall_b : Rect pfloat := mkRect 2 (-0x1.8p+1023) 3 0x1.8p+1023.
Lemma disjoint_area_nan :
  fnonneg tall_a /\ fnonneg tall_b /\ rect_overlaps tall_a tall_b = false /\
  PrimFloat.is_nan (rect_area (rect_intersect tall_a tall_b)) = true /\
  rect_is_finite tall_a = true /\ rect_is_finite tall_b = true.
Proof. repeat split; vm_compute; reflexivity. Qed.
(** finite extents / a degenerate finite rectangle: hypotheses of [degenerate_area_zero], [f_abs_extents] *)
Definition rdeg : Rect pfloat := mkRect 2 (-0x1.8p+3) 2 0x1.4p+2.
Definition rflip : Rect pfloat := mkRect 0x1.0000000000001p+1 5 (-0x1.8p+1) (-0x1p-1074).
Lemma extents_witness :
  (ffin (rx0 rdeg) /\ ffin (rx1 rdeg) /\ ffin (ry0 rdeg) /\ ffin (ry1 rdeg) /\
   F.same (rx0 rdeg) (rx1 rdeg) = true /\ ffin (rect_width rdeg) /\ ffin (rect_height rdeg)) /\
  (ffin (rx0 rflip) /\ ffin (ry0 rflip) /\ ffin (rx1 rflip) /\ ffin (ry1 rflip) /\
   ffin (rect_width rflip) /\ ffin (rect_height rflip) /\
   PrimFloat.ltb (rect_width rflip) 0 = true /\ PrimFloat.ltb 0 (rect_width (rect_abs rflip)) = true).
Proof. repeat split; vm_compute; reflexivity. Qed.
