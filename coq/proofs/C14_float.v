(** C14: the binary64 instance of the "float line" of C14_proofs.v.
    Every finite binary64 number is an integer multiple of 2^-1074; that integer is the index.
    For finite 0 <= s <= e <= 1 the computed midpoint 0.5 * (s + e) (two roundings, as in
    fit.rs) lies between s and e.  Hence the recursion of fit_to_bezpath_rec ends on binary64 for
    EVERY source curve — including one that answers NaN everywhere. *)
From Coq Require Import ZArith Reals Floats Lia Lra Psatz List Bool.
From Flocq Require Import Core.Zaux Core.Raux Core.Defs Core.Generic_fmt Core.FLT Core.Float_prop Core.Round_NE
  IEEE754.BinarySingleNaN IEEE754.PrimFloat.
From KV Require Import Scalar F64 Totality C14_proofs.
Import ListNotations.
Local Open Scope R_scope.

Notation emin64 := (SpecFloat.emin prec emax).
Notation fexp64 := (SpecFloat.fexp prec emax).
#[local] Instance Hprec64' : FLX.Prec_gt_0 prec := eq_refl _.
#[local] Instance Hmax64' : Prec_lt_emax prec emax := eq_refl _.

Notation pfloat := PrimFloat.float.

Definition fin (x : pfloat) : Prop := is_finite (Prim2B x) = true.
Definition fval (x : pfloat) : R := B2R (Prim2B x).
(** the finite numbers of [0, 1] *)
Definition unitf (x : pfloat) : Prop := fin x /\ 0 <= fval x <= 1.

(** the index: fval x = idx x * 2^-1074 *)
Definition idx (x : pfloat) : Z := Zfloor (fval x * bpow radix2 1074).

Lemma fval_format x : generic_format radix2 fexp64 (fval x).
Proof. apply generic_format_B2R. Qed.

Lemma idx_exact x : IZR (idx x) = fval x * bpow radix2 1074.
Proof.
  unfold idx. destruct (FLT_format_generic radix2 emin64 prec _ (fval_format x)) as [f Hf Hm He].
  rewrite Hf. unfold F2R.
  replace (IZR (Fnum f) * bpow radix2 (Fexp f) * bpow radix2 1074) with (IZR (Fnum f) * bpow radix2 (Fexp f + 1074)).
  2:{ rewrite bpow_plus. ring. }
  assert (Hp : (0 <= Fexp f + 1074)%Z) by (change emin64 with (-1074)%Z in He; lia).
  rewrite <- (IZR_Zpower radix2 _ Hp), <- mult_IZR, Zfloor_IZR. reflexivity.
Qed.

Lemma idx_le a b : (idx a <= idx b)%Z <-> fval a <= fval b.
Proof.
  pose proof (bpow_gt_0 radix2 1074) as Hp.
  split; intros Hab.
  - apply IZR_le in Hab. rewrite !idx_exact in Hab. nra.
  - apply le_IZR. rewrite !idx_exact. nra.
Qed.

Lemma idx_eq a b : idx a = idx b <-> fval a = fval b.
Proof.
  pose proof (bpow_gt_0 radix2 1074) as Hp.
  split; intros Hab.
  - apply (f_equal IZR) in Hab. rewrite !idx_exact in Hab. nra.
  - apply eq_IZR. rewrite !idx_exact. rewrite Hab. reflexivity.
Qed.

Lemma eqb_fval a b : fin a -> fin b -> (PrimFloat.eqb a b = true <-> fval a = fval b).
Proof.
  intros Ha Hb. rewrite eqb_equiv, (Beqb_correct _ _ _ _ Ha Hb).
  unfold fval. destruct (Req_bool_spec (B2R (Prim2B a)) (B2R (Prim2B b))); split; auto; discriminate.
Qed.

(** twice a number of the format is in the format (barring overflow, which [<= 1] excludes) *)
Lemma double_format (x : R) : generic_format radix2 fexp64 x -> generic_format radix2 fexp64 (2 * x).
Proof.
  intros Hx. destruct (FLT_format_generic radix2 emin64 prec _ Hx) as [f Hf Hm He].
  apply generic_format_FLT. exists (Float radix2 (Fnum f) (Fexp f + 1)).
  - rewrite Hf. unfold F2R. cbn [Fnum Fexp]. rewrite bpow_plus. change (bpow radix2 1) with 2. ring.
  - exact Hm.
  - cbn [Fexp]. lia.
Qed.

Lemma format_0 : generic_format radix2 fexp64 0. Proof. apply generic_format_0. Qed.
Lemma format_2 : generic_format radix2 fexp64 2.
Proof. change 2 with (bpow radix2 1). apply generic_format_bpow. cbv. discriminate. Qed.

Lemma half_val : fval 0x1p-1%float = / 2.
Proof. unfold fval. cbv -[IZR Rmult Rinv bpow]. unfold F2R. cbn. lra. Qed.

Notation rnd64 := (round radix2 fexp64 (round_mode mode_NE)).

Lemma rnd_le x y : x <= y -> rnd64 x <= rnd64 y.
Proof.
  intros. apply round_le; [apply (fexp_correct prec emax); reflexivity|apply valid_rnd_round_mode|assumption].
Qed.
Lemma rnd_id x : generic_format radix2 fexp64 x -> rnd64 x = x.
Proof. intros. apply round_generic; [apply valid_rnd_round_mode|assumption]. Qed.

Lemma small_lt_emax x : Rabs x <= 2 -> Rabs x < bpow radix2 emax.
Proof.
  intros Hx. apply Rle_lt_trans with (1 := Hx).
  change 2 with (bpow radix2 1). apply bpow_lt. reflexivity.
Qed.

(** s + e, rounded *)
Lemma add_spec_unit s e : unitf s -> unitf e ->
  fin (s + e)%float /\ fval (s + e)%float = rnd64 (fval s + fval e).
Proof.
  intros [Fs [Hs0 Hs1]] [Fe [He0 He1]].
  unfold fin, fval. rewrite add_equiv.
  pose proof (Bplus_correct prec emax _ _ mode_NE (Prim2B s) (Prim2B e) Fs Fe) as HP.
  assert (B : 0 <= rnd64 (B2R (Prim2B s) + B2R (Prim2B e)) <= 2).
  { split.
    - apply Rle_trans with (rnd64 0); [rewrite (rnd_id 0 format_0); lra|apply rnd_le; unfold fval in *; lra].
    - apply Rle_trans with (rnd64 2); [apply rnd_le; unfold fval in *; lra|rewrite (rnd_id 2 format_2); lra]. }
  rewrite Rlt_bool_true in HP.
  - destruct HP as (H1 & H2 & _). split; assumption.
  - apply small_lt_emax. rewrite Rabs_pos_eq; lra.
Qed.

(** 0.5 * x, rounded, for finite 0 <= x <= 2 *)
Lemma half_spec x : fin x -> 0 <= fval x <= 2 ->
  fin (0x1p-1 * x)%float /\ fval (0x1p-1 * x)%float = rnd64 (/ 2 * fval x).
Proof.
  intros Fx [Hx0 Hx2].
  unfold fin. unfold fval at 2. rewrite mul_equiv.
  pose proof (Bmult_correct prec emax _ _ mode_NE (Prim2B 0x1p-1%float) (Prim2B x)) as HM.
  change (B2R (Prim2B 0x1p-1%float)) with (fval 0x1p-1%float) in HM. rewrite half_val in HM.
  assert (B : 0 <= rnd64 (/ 2 * B2R (Prim2B x)) <= 2).
  { split.
    - apply Rle_trans with (rnd64 0); [rewrite (rnd_id 0 format_0); lra|apply rnd_le; unfold fval in *; lra].
    - apply Rle_trans with (rnd64 2); [apply rnd_le; unfold fval in *; lra|rewrite (rnd_id 2 format_2); lra]. }
  rewrite Rlt_bool_true in HM.
  - destruct HM as (H1 & H2 & _). split; [|unfold fval; rewrite mul_equiv; exact H1].
    eapply eq_trans; [exact H2|]. unfold fin in Fx. rewrite Fx. reflexivity.
  - apply small_lt_emax. rewrite Rabs_pos_eq; lra.
Qed.

(** the midpoint of fit_to_bezpath_rec on binary64 *)
Lemma mid_spec s e : unitf s -> unitf e -> fval s <= fval e ->
  unitf (fit_mid s e) /\ fval s <= fval (fit_mid s e) <= fval e.
Proof.
  intros Us Ue Hle.
  destruct (add_spec_unit s e Us Ue) as (Fa & Va).
  destruct Us as [Fs [Hs0 Hs1]]. destruct Ue as [Fe [He0 He1]].
  assert (B2 : 2 * fval s <= fval (s + e)%float <= 2 * fval e).
  { rewrite Va. split.
    - apply Rle_trans with (rnd64 (2 * fval s)); [rewrite rnd_id by (apply double_format, fval_format); lra|apply rnd_le; lra].
    - apply Rle_trans with (rnd64 (2 * fval e)); [apply rnd_le; lra|rewrite rnd_id by (apply double_format, fval_format); lra]. }
  destruct (half_spec (s + e)%float Fa ltac:(lra)) as (Fh & Vh).
  change (fit_mid s e) with (0x1p-1 * (s + e))%float.
  assert (B : fval s <= fval (0x1p-1 * (s + e))%float <= fval e).
  { rewrite Vh. split.
    - apply Rle_trans with (rnd64 (fval s)); [rewrite rnd_id by apply fval_format; lra|apply rnd_le; lra].
    - apply Rle_trans with (rnd64 (fval e)); [apply rnd_le; lra|rewrite rnd_id by apply fval_format; lra]. }
  split; [|exact B]. split; [exact Fh|lra].
Qed.

(** the binary64 instance of the float line *)
Lemma f64_eqb_idx a b : unitf a -> unitf b -> (feqb a b = true <-> idx a = idx b).
Proof.
  intros [Fa _] [Fb _]. change (feqb a b) with (PrimFloat.eqb a b).
  rewrite (eqb_fval a b Fa Fb), idx_eq. reflexivity.
Qed.
Lemma f64_mid_dom s e : unitf s -> unitf e -> fval s <= fval e -> unitf (fit_mid s e).
Proof. intros Us Ue H. apply (mid_spec s e Us Ue H). Qed.

(** * the recursion of fit_to_bezpath_rec ends on binary64, whatever the source *)
Theorem bisect_f64_total (nofit : pfloat -> pfloat -> bool) (s e : pfloat) :
  unitf s -> unitf e -> fval s <= fval e ->
  exists fuel n l, bisect fuel nofit s e = Some (n, l) /\
    (1 <= n <= 2 * Z.max (idx e - idx s) 1 - 1)%Z /\ (1 <= length l)%nat /\
    forall j, bisect (fuel + j) nofit s e = Some (n, l).
Proof.
  intros Us Ue Hle.
  assert (Hi : (idx s <= idx e)%Z) by (apply idx_le; exact Hle).
  destruct (@bisect_total pfloat F64 unitf idx f64_eqb_idx
              (fun a b Ha Hb H => f64_mid_dom a b Ha Hb (proj1 (idx_le a b) H))
              (fun a b Ha Hb H => conj (proj2 (idx_le a (fit_mid a b)) (proj1 (proj2 (mid_spec a b Ha Hb (proj1 (idx_le a b) H)))))
                                       (proj2 (idx_le (fit_mid a b) b) (proj2 (proj2 (mid_spec a b Ha Hb (proj1 (idx_le a b) H))))))
              nofit (S (Z.to_nat (idx e - idx s))) s e Us Ue Hi ltac:(lia))
    as (n & l & E & B & L & _).
  exists (S (Z.to_nat (idx e - idx s))), n, l. repeat split; try assumption; try lia.
  intros j. apply bisect_fuel_mono. exact E.
Qed.

(** in particular on the range 0..1 that fit_to_bezpath starts from *)
Lemma unitf_0 : unitf 0%float. Proof. split; [reflexivity|]. unfold fval. cbn. lra. Qed.
Lemma unitf_1 : unitf 1%float.
Proof. split; [reflexivity|]. unfold fval. cbv -[IZR Rmult Rinv bpow Rle]. unfold F2R. cbn. lra. Qed.

Corollary fit_recursion_terminates_f64 (nofit : pfloat -> pfloat -> bool) :
  exists fuel n l, forall j, bisect (fuel + j) nofit 0%float 1%float = Some (n, l).
Proof.
  destruct (bisect_f64_total nofit 0%float 1%float unitf_0 unitf_1) as (fuel & n & l & _ & _ & _ & Hj).
  { destruct unitf_0 as [_ [_ H0]], unitf_1 as [_ [H1 _]].
    assert (fval 0%float = 0) by (unfold fval; cbn; lra).
    lra. }
  exists fuel, n, l. exact Hj.
Qed.

(** what the chains look like: the deepest one runs along 0 (1075 levels: 2^-1 ... 2^-1074, then
    0.5 * (0 + 2^-1074) rounds to 0); everywhere else 53 more levels after the binade is reached *)
Example chain_depths :
  bisect_depth 1200 (marked [0x0.0000000000001p-1022%float]) 0%float 1%float = Some 1075%nat /\
  bisect_depth 1200 (marked [0x1.fffffffffffffp-1%float]) 0%float 1%float = Some 54%nat /\
  bisect_depth 1200 (marked [0x1.5555555555555p-2%float]) 0%float 1%float = Some 55%nat.
Proof. vm_compute. repeat split. Qed.
