(** C04: executable witness (binary64 instance, exactly representable numbers) for the inner-join defect. *)
From Coq Require Import ZArith List Bool Floats.
From KV Require Import Scalar F64 Geom Curves Path Affine Stroke StrokeSpec.
Import ListNotations.

(** ** the join of the pinned code (no pivot on the inner side) leaves a covered point unfilled.
    Witness, all numbers exactly representable: M(0,0) L(1,0) L(1,10), width 4, bevel joins, butt caps.
    q = (-0.5, 0.25) is at distance 1.5 < width/2 from (1, 0.25), an interior point of the second segment,
    yet the outline winds 0 times around it; with the repaired join it winds once. *)
Local Open Scope float_scope.
Definition witness_path : list (PathEl float) :=
  [MoveTo (mkPoint 0 0); LineTo (mkPoint 1 0); LineTo (mkPoint 1 10)].
Definition witness_style (pivot : bool) : StrokeStyle float := mkStyle 4 JoinBevel 4 CapButt CapButt pivot.
Definition witness_q : Point float := mkPoint (-0x1p-1) 0x1p-2.

Definition witness_tol : float := 0x1p-4.
(* the outline the pinned join produces: forward (0,-2) (1,-2) (3,0) (3,10), cap, backward reversed
   (-1,10) (-1,0) (1,2) (0,2) *)
Definition witness_outline : list (PathEl float) :=
  [MoveTo (mkPoint 0 (-2)); LineTo (mkPoint 1 (-2)); LineTo (mkPoint 3 0); LineTo (mkPoint 3 10);
   LineTo (mkPoint (-1) 10); LineTo (mkPoint (-1) 0); LineTo (mkPoint 1 2); LineTo (mkPoint 0 2); ClosePath].

Lemma pinned_inner_join_outline :
  stroke_undashed witness_path (witness_style false) witness_tol = Some witness_outline.
Proof. vm_compute. reflexivity. Qed.

Lemma pinned_inner_join_winding :
  option_map (fun out => outline_wn out witness_q) (stroke_undashed witness_path (witness_style false) witness_tol) = Some 0%Z.
Proof. vm_compute. reflexivity. Qed.

Lemma repaired_inner_join_winding :
  option_map (fun out => outline_wn out witness_q) (stroke_undashed witness_path (witness_style true) witness_tol) = Some 1%Z.
Proof. vm_compute. reflexivity. Qed.

Lemma pinned_outline_winding : outline_wn witness_outline witness_q = 0%Z.
Proof. vm_compute. reflexivity. Qed.
