(** Small tactic library for goals about the real instance of the models. *)
From Coq Require Import ZArith QArith Reals List Bool Lra Lia.
From KV Require Import Scalar RInst.
Local Open Scope R_scope.

(** turn boolean comparison facts into propositions, everywhere *)
Ltac bool_to_prop :=
  repeat match goal with
  | H : _ && _ = true |- _ => apply andb_true_iff in H; destruct H
  | H : _ && _ = false |- _ => apply andb_false_iff in H
  | H : _ || _ = true |- _ => apply orb_true_iff in H
  | H : _ || _ = false |- _ => apply orb_false_iff in H; destruct H
  | H : negb _ = true |- _ => apply negb_true_iff in H
  | H : negb _ = false |- _ => apply negb_false_iff in H
  | H : Rltb _ _ = true |- _ => apply Rltb_true in H
  | H : Rltb _ _ = false |- _ => apply Rltb_false in H
  | H : Rleb _ _ = true |- _ => apply Rleb_true in H
  | H : Rleb _ _ = false |- _ => apply Rleb_false in H
  | H : Reqb _ _ = true |- _ => apply Reqb_true in H
  | H : Reqb _ _ = false |- _ => apply Reqb_false in H
  | |- _ && _ = true => apply andb_true_iff; split
  | |- Rltb _ _ = true => apply Rltb_true
  | |- Rltb _ _ = false => apply Rltb_false
  | |- Rleb _ _ = true => apply Rleb_true
  | |- Rleb _ _ = false => apply Rleb_false
  | |- Reqb _ _ = true => apply Reqb_true
  | |- Reqb _ _ = false => apply Reqb_false
  end.

(** case split on every Rmin / Rmax / Rabs in sight, then linear arithmetic *)
Ltac minmax :=
  unfold Rmin, Rmax, Rabs in *;
  repeat match goal with
  | |- context [Rle_dec ?a ?b] => destruct (Rle_dec a b)
  | H : context [Rle_dec ?a ?b] |- _ => destruct (Rle_dec a b)
  | |- context [Rcase_abs ?a] => destruct (Rcase_abs a)
  | H : context [Rcase_abs ?a] |- _ => destruct (Rcase_abs a)
  end; try lra.

(** destruct every boolean comparison appearing as the scrutinee of an [if] *)
Ltac case_ifs :=
  repeat match goal with
  | |- context [if Rltb ?a ?b then _ else _] => destruct (Rltb_spec a b)
  | |- context [if Rleb ?a ?b then _ else _] => destruct (Rleb_spec a b)
  | |- context [if Reqb ?a ?b then _ else _] => destruct (Reqb_spec a b)
  | H : context [if Rltb ?a ?b then _ else _] |- _ => destruct (Rltb_spec a b)
  | H : context [if Rleb ?a ?b then _ else _] |- _ => destruct (Rleb_spec a b)
  | H : context [if Reqb ?a ?b then _ else _] |- _ => destruct (Reqb_spec a b)
  end.
