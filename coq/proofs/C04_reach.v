(** C04: the outer bound for every polyline style without round parts: the outline of a sub-path is a sum of
    closed polygons each of which stays within the style's reach of one source vertex or one source edge
    (fans at the vertices, a generalised rectangle per edge); hence it does not wind around any point
    farther than the reach from every edge. Any tolerance, any join outcome, pinned or repaired join. *)
From Coq Require Import ZArith QArith Reals List Bool Lra Lia Psatz.
From KV Require Import Scalar RInst Geom Curves Path Affine Stroke RTac StrokeSpec C04_proofs C04_region C04_pieces C04_round C04_polyregion C04_polyfill C04_polyclosed C04_fans.
Import ListNotations.
Local Open Scope R_scope.

Definition pts_of (l : list (PathEl R)) : list (Point R) := map (@el_end_or R _) l.
Definition is_lineto (e : PathEl R) : Prop := match e with LineTo _ => True | _ => False end.

Lemma lineto_pts l : Forall is_lineto l -> l = map (@LineTo R) (pts_of l).
Proof. induction 1 as [|e l He Hl IH]; [reflexivity|]. destruct e; try contradiction. cbn. f_equal. exact IH. Qed.

Lemma pts_of_app a b : pts_of (a ++ b) = pts_of a ++ pts_of b.
Proof. apply map_app. Qed.

Section Reach.
Variable st : StrokeStyle R.
Hypothesis Hw : 0 < sk_width st.
Hypothesis Hjoin : sk_join st <> JoinRound.
Let w := sk_width st.
Let R2 := reach2 st.
Variable q : Point R.
Notation ee := (e q).
Notation cc := (closed_chain q).

Ltac antisym_facts :=
  repeat match goal with
  | |- context [e q ?a ?b] =>
      lazymatch goal with
      | H : e q a b = (- e q b a)%Z |- _ => fail
      | _ => pose proof (e_antisym q a b)
      end
  end.

Ltac antisym_hyps :=
  repeat match goal with
  | H : context [e q ?a ?b] |- _ =>
      lazymatch goal with
      | H' : e q a b = (- e q b a)%Z |- _ => fail
      | _ => pose proof (e_antisym q a b)
      end
  end.

(** joins are lists of LineTo whose points are within reach of the vertex *)
Lemma join_lineto side P t th t' : Forall is_lineto (side_join st side P t th t').
Proof.
  unfold side_join. cbv zeta. rewrite join_els_spec. cbv zeta.
  destruct (Rleb _ _ || Rleb _ _); [|destruct side; constructor].
  unfold piv_f, piv_b, join_core. cbv zeta.
  destruct (sk_join st) eqn:Ej; [| |congruence]; destruct side; cbn [fst snd];
    repeat match goal with |- context [if ?b then _ else _] => destruct b end; cbn [fst snd app];
    repeat constructor.
Qed.

Definition jpts (side : bool) (P : Point R) (t : Vec2 R) (th : R) (t' : Vec2 R) : list (Point R) :=
  pts_of (side_join st side P t th t').

Lemma side_join_jpts side P t th t' : side_join st side P t th t' = map (@LineTo R) (jpts side P t th t').
Proof. apply lineto_pts, join_lineto. Qed.

Definition nearP (P x : Point R) : Prop := dist2 x P <= R2.

Lemma all_ends_near_pts P l : all_ends (near [P] R2) l -> Forall (nearP P) (pts_of l) \/ exists e, In e l /\ el_end e = None.
Proof.
  induction 1 as [|e l He Hl IH]; [left; constructor|].
  destruct IH as [IH|(e' & Hin & Hn)]; [|right; exists e'; split; [right; exact Hin | exact Hn]].
  destruct (el_end e) as [p|] eqn:Ee.
  - left. constructor; [|exact IH]. unfold end_ok in He. rewrite Ee in He.
    destruct He as (p' & [<-|[]] & Hd). unfold nearP, el_end_or. rewrite Ee. exact Hd.
  - right. exists e. split; [left; reflexivity | exact Ee].
Qed.

Lemma jpts_near side P t th t' : vnonzero t -> vnonzero t' -> Forall (nearP P) (jpts side P t th t').
Proof.
  intros Hn Hn'. unfold jpts.
  assert (HA : all_ends (near [P] R2) (side_join st side P t th t')).
  { unfold side_join. cbv zeta. rewrite join_els_spec. cbv zeta.
    destruct (Rleb _ _ || Rleb _ _); [|destruct side; constructor].
    destruct (radius_join st [P] Hw P t t' Hjoin (or_introl eq_refl) Hn Hn') as [Jf Jb].
    assert (Pv : all_ends (near [P] R2) (piv_f st P (rcross t t')) /\ all_ends (near [P] R2) (piv_b st P (rcross t t'))).
    { assert (HP : end_ok (near [P] R2) (LineTo P)) by (unfold end_ok; cbn; apply (near_self st [P]); left; reflexivity).
      unfold piv_f, piv_b, all_ends. destruct (sk_inner_pivot st), (Rltb 0 (rcross t t')), (Rltb (rcross t t') 0);
        split; try (apply Forall_nil); apply Forall_cons; try exact HP; apply Forall_nil. }
    destruct Pv as [Pf Pb].
    destruct side; cbn [fst snd]; apply Forall_app_intro; assumption. }
  destruct (all_ends_near_pts P _ HA) as [H|(e' & Hin & Hnone)]; [exact H|].
  exfalso. pose proof (join_lineto side P t th t') as HL. rewrite Forall_forall in HL.
  specialize (HL e' Hin). destruct e'; try contradiction. discriminate.
Qed.

(** general point-level form of the two sides *)
Fixpoint grest (th : R) (side : bool) (lp : Point R) (lt : Vec2 R) (ps : list (Point R)) : list (Point R) :=
  match ps with
  | [] => []
  | p :: r =>
      if pt_neb p lp then jpts side lp lt th (vec lp p) ++ offs w (sgn side) (vec lp p) p :: grest th side p (vec lp p) r
      else grest th side lp lt r
  end.

Lemma side_rest_grest th side ps : forall lp lt, side_rest st th side lp lt ps = map (@LineTo R) (grest th side lp lt ps).
Proof.
  induction ps as [|p r IH]; intros lp lt; [reflexivity|].
  cbn [side_rest grest]. destruct (pt_neb p lp); [|apply IH].
  rewrite side_join_jpts, IH, map_app. reflexivity.
Qed.

Lemma last_grest th side ps : forall lp lt d, d = offs w (sgn side) lt lp ->
  last (grest th side lp lt ps) d = offs w (sgn side) (snd (last_state lp lt ps)) (fst (last_state lp lt ps)).
Proof.
  induction ps as [|p r IH]; intros lp lt d Hd; [exact Hd|].
  cbn [grest last_state]. destruct (pt_neb p lp); [|apply IH; exact Hd].
  rewrite last_app_cons. apply IH. reflexivity.
Qed.

(** the pieces: fans at a vertex, generalised rectangle along an edge *)
Definition gstep (th : R) (P : Point R) (t : Vec2 R) (P' : Point R) : Z :=
  let t' := vec P P' in
  let Jf := jpts false P t th t' in let Jb := jpts true P t th t' in
  (cc P (om st t P :: Jf) - cc P (op st t P :: Jb)
   + cc P [last Jf (om st t P); om st t' P'; P'; op st t' P'; last Jb (op st t P)])%Z.

Fixpoint gpieces (th : R) (lp : Point R) (lt : Vec2 R) (ps : list (Point R)) : Z :=
  match ps with
  | [] => 0%Z
  | p :: r => if pt_neb p lp then (gstep th lp lt p + gpieces th p (vec lp p) r)%Z else gpieces th lp lt r
  end.

Lemma gstep_identity th ps : forall lp lt,
  (chain_from q (om st lt lp) (grest th false lp lt ps)
   + Xs st q (fst (last_state lp lt ps)) (snd (last_state lp lt ps))
   - chain_from q (op st lt lp) (grest th true lp lt ps))%Z
  = (Xs st q lp lt + gpieces th lp lt ps)%Z.
Proof.
  induction ps as [|p r IH]; intros lp lt.
  - cbn. lia.
  - cbn [grest last_state gpieces]. destruct (pt_neb p lp); [|apply IH].
    specialize (IH p (vec lp p)). set (t' := vec lp p) in *. unfold gstep. fold t'. cbv zeta.
    set (Jf := jpts false lp lt th t'). set (Jb := jpts true lp lt th t').
    unfold sgn. change (offs w (-1) t' p) with (om st t' p). change (offs w 1 t' p) with (op st t' p).
    set (CF := chain_from q (om st t' p) (grest th false p t' r)) in *.
    set (CB := chain_from q (op st t' p) (grest th true p t' r)) in *.
    rewrite !chain_from_app. cbn [chain_from]. fold CF CB.
    unfold closed_chain. rewrite !last_cons. cbn [chain_from last].
    set (A2 := last Jf (om st lt lp)). set (D2 := last Jb (op st lt lp)).
    set (cF := chain_from q (om st lt lp) Jf). set (cB := chain_from q (op st lt lp) Jb).
    unfold Xs in *. antisym_facts. lia.
Qed.

(** far from the edge, nothing of a step winds around q *)
Lemma half_le_reach : (w / 2) * (w / 2) <= R2.
Proof. apply reach2_ge_half. Qed.

Lemma near_om P t : vnonzero t -> nearP P (om st t P).
Proof. intros Hn. unfold nearP, om. rewrite offs_dist; [apply half_le_reach | exact Hn | ring]. Qed.
Lemma near_op P t : vnonzero t -> nearP P (op st t P).
Proof. intros Hn. unfold nearP, op. rewrite offs_dist; [apply half_le_reach | exact Hn | ring]. Qed.
Lemma near_refl P : nearP P P.
Proof. unfold nearP. rewrite dist2_self. pose proof half_le_reach. nra. Qed.

Lemma last_near P (L : list (Point R)) d : nearP P d -> Forall (nearP P) L -> nearP P (last L d).
Proof.
  intros Hd HL. revert d Hd. induction HL as [|x L Hx HL IH]; intros d Hd; [exact Hd|].
  rewrite last_cons. apply IH. exact Hx.
Qed.

Lemma gstep_far th P t P' : vnonzero t -> pt_neb P' P = true -> seg_far P P' q R2 -> gstep th P t P' = 0%Z.
Proof.
  intros Hn Hne Hfar. pose proof (vec_nz_of_neb P' P Hne) as Hn'.
  unfold gstep. cbv zeta. set (t' := vec P P') in *.
  pose proof (jpts_near false P t th t' Hn Hn') as NF. pose proof (jpts_near true P t th t' Hn Hn') as NB.
  set (Jf := jpts false P t th t') in *. set (Jb := jpts true P t th t') in *.
  rewrite Forall_forall in NF, NB.
  rewrite (poly_far q P P' R2 P (om st t P :: Jf) Hfar), (poly_far q P P' R2 P (op st t P :: Jb) Hfar),
          (poly_far q P P' R2 P _ Hfar); [reflexivity| | |].
  - intros x [<-|[<-|[<-|[<-|[<-|[<-|[]]]]]]].
    + left; apply near_refl.
    + left. apply last_near; [apply near_om; exact Hn | apply Forall_forall; exact NF].
    + right. apply near_om; exact Hn'.
    + right; apply near_refl.
    + right. apply near_op; exact Hn'.
    + left. apply last_near; [apply near_op; exact Hn | apply Forall_forall; exact NB].
  - intros x [<-|[<-|Hx]]; left; [apply near_refl | apply near_op; exact Hn | apply NB; exact Hx].
  - intros x [<-|[<-|Hx]]; left; [apply near_refl | apply near_om; exact Hn | apply NF; exact Hx].
Qed.

Lemma gpieces_far th ps : forall lp lt, vnonzero lt ->
  (forall a b, In (a, b) (poly_edges lp ps) -> seg_far a b q R2) -> gpieces th lp lt ps = 0%Z.
Proof.
  induction ps as [|p r IH]; intros lp lt Hn Hall; cbn [gpieces poly_edges] in *; [reflexivity|].
  destruct (pt_neb p lp) eqn:E; [|apply IH; assumption].
  rewrite (gstep_far th lp lt p Hn E (Hall lp p (or_introl eq_refl))).
  rewrite (IH p (vec lp p) (vec_nz_of_neb p lp E)); [reflexivity|].
  intros a b Hin. apply Hall. right; exact Hin.
Qed.

(** caps without arcs *)
Hypothesis Hsc : sk_start_cap st <> CapRound.
Hypothesis Hec : sk_end_cap st <> CapRound.

Definition ecap_pts (p : Point R) (t : Vec2 R) : list (Point R) := pts_of (end_cap_at st p t).
Definition scap_pts (p : Point R) (t : Vec2 R) : list (Point R) :=
  match sk_start_cap st with CapSquare => [along (- (w / 2)) t (op st t p); along (- (w / 2)) t (om st t p)] | _ => [] end.

Lemma end_cap_pts p t : end_cap_at st p t = map (@LineTo R) (ecap_pts p t) /\
  last (ecap_pts p t) p = op st t p /\ ecap_pts p t <> [].
Proof.
  unfold ecap_pts, end_cap_at. fold w. destruct (sk_end_cap st) eqn:E; [| |congruence].
  - cbn. repeat split; discriminate.
  - rewrite square_cap_end. cbn. repeat split; discriminate.
Qed.

Lemma start_cap_pts p t : start_cap_at st p t = map (@LineTo R) (scap_pts p t) ++ [ClosePath].
Proof.
  unfold scap_pts, start_cap_at. fold w. destruct (sk_start_cap st) eqn:E; [| |congruence].
  - reflexivity.
  - rewrite square_cap_start. reflexivity.
Qed.

Lemma ecap_near p t : vnonzero t -> Forall (nearP p) (ecap_pts p t).
Proof.
  intros Hn. unfold ecap_pts.
  pose proof (radius_endcap st [p] p t Hec (or_introl eq_refl) Hn) as HA.
  destruct (all_ends_near_pts p _ HA) as [H|(e' & Hin & Hnone)]; [exact H|]. exfalso.
  destruct (end_cap_pts p t) as (El & _ & _). rewrite El in Hin. apply in_map_iff in Hin.
  destruct Hin as (x & <- & _). discriminate.
Qed.

Lemma scap_near p t : vnonzero t -> Forall (nearP p) (scap_pts p t).
Proof.
  intros Hn. pose proof (radius_startcap st [p] p t Hsc (or_introl eq_refl) Hn) as HA.
  rewrite start_cap_pts in HA. apply Forall_app in HA. destruct HA as [HA _].
  destruct (all_ends_near_pts p _ HA) as [H|(e' & Hin & Hnone)].
  - unfold pts_of in H. rewrite map_map in H. cbn in H. rewrite map_id in H. exact H.
  - exfalso. apply in_map_iff in Hin. destruct Hin as (x & <- & _). discriminate.
Qed.

(** winding of an open sub-path's outline in point form *)
Lemma wn_open_general f0 fs Ce b0 bs Cs : Ce <> [] -> last Ce f0 = last bs b0 ->
  outline_wn (MoveTo f0 :: map (@LineTo R) fs ++ map (@LineTo R) Ce ++
              extend_reversed (MoveTo b0 :: map (@LineTo R) bs) ++ map (@LineTo R) Cs ++ [ClosePath]) q =
  (chain_from q f0 fs + chain_from q (last fs f0) Ce - chain_from q b0 bs + chain_from q b0 Cs + ee (last Cs b0) f0)%Z.
Proof.
  intros Hne Hl. unfold outline_wn. cbn [outline_wn_from]. rewrite edge_w_self, Z.add_0_l.
  rewrite wn_lines, wn_lines, ext_rev_lines, wn_lines, wn_lines. cbn [el_end_or el_end outline_wn_from].
  assert (E : last Ce (last fs f0) = last bs b0).
  { rewrite <- Hl. destruct (exists_last Hne) as (c & x & ->). rewrite !last_last. reflexivity. }
  rewrite E, chain_from_revtail, last_revtail, edge_w_self. unfold e. ring.
Qed.

Lemma last_default_irrel {A} (l : list A) d1 d2 : l <> [] -> last l d1 = last l d2.
Proof. intros Hne. destruct (exists_last Hne) as (c & x & ->). rewrite !last_last. reflexivity. Qed.

Lemma last_edge_exists ps : forall p0 p1, exists a, In (a, last ps p1) ((p0, p1) :: poly_edges p1 ps).
Proof.
  induction ps as [|p r IH]; intros p0 p1; [exists p0; left; reflexivity|].
  rewrite last_cons. cbn [poly_edges]. destruct (pt_neb p p1) eqn:En.
  - destruct (IH p1 p) as (a & Hin). exists a. right. exact Hin.
  - apply pt_neb_false_eq in En. subst p. apply IH.
Qed.

(** the exact decomposition of the outline of one open sub-path, any style without round parts:
    the generalised rectangle of the first edge, the steps, the fan of the end cap, the fan of the start cap *)
Theorem open_general_decomposition tol p0 ps p1 r out :
  first_edge p0 ps = Some (p1, r) ->
  stroke_undashed (MoveTo p0 :: map (@LineTo R) ps) st tol = Some out ->
  let th := 2 * tol / sk_width st in let t1 := vec p0 p1 in
  let lp := fst (last_state p1 t1 r) in let lt := snd (last_state p1 t1 r) in
  outline_wn out q =
  (cc p0 [om st t1 p0; om st t1 p1; p1; op st t1 p1; op st t1 p0] + gpieces th p1 t1 r +
   cc lp (om st lt lp :: ecap_pts lp lt) + cc p0 (op st t1 p0 :: scap_pts p0 t1 ++ [om st t1 p0]))%Z.
Proof.
  intros E Hout. rewrite open_polyline_outline_thm, E in Hout. cbv zeta in Hout. injection Hout as <-.
  cbv zeta. set (th := 2 * tol / sk_width st). set (t1 := vec p0 p1).
  destruct (first_edge_suffix p0 ps p1 r E) as (Hneb & _ & _).
  set (lp := fst (last_state p1 t1 r)) in *. set (lt := snd (last_state p1 t1 r)) in *.
  rewrite !(side_path_head st th _ p0 ps p1 r E), !side_rest_grest. fold t1. unfold sgn.
  destruct (end_cap_pts lp lt) as (Ece & Lce & Nce). rewrite Ece, start_cap_pts.
  set (restF := grest th false p1 t1 r). set (restB := grest th true p1 t1 r).
  change (MoveTo (offs (sk_width st) (-1) t1 p0) :: LineTo (offs (sk_width st) (-1) t1 p1) :: map (@LineTo R) restF)
    with (MoveTo (om st t1 p0) :: map (@LineTo R) (om st t1 p1 :: restF)).
  change (MoveTo (offs (sk_width st) 1 t1 p0) :: LineTo (offs (sk_width st) 1 t1 p1) :: map (@LineTo R) restB)
    with (MoveTo (op st t1 p0) :: map (@LineTo R) (op st t1 p1 :: restB)).
  pose proof (fun side => last_grest th side r p1 t1 _ eq_refl) as LFB. fold lp lt in LFB.
  pose proof (LFB false) as LF. pose proof (LFB true) as LB. cbn [sgn] in LF, LB. fold restF in LF. fold restB in LB.
  assert (Hl : last (ecap_pts lp lt) (om st t1 p0) = last (op st t1 p1 :: restB) (op st t1 p0)).
  { rewrite last_cons. change (op st t1 p1) with (offs w 1 t1 p1). rewrite LB.
    destruct (exists_last Nce) as (c & x & Ex). rewrite Ex in *. rewrite last_last in *. exact Lce. }
  cbn [app].
  rewrite (wn_open_general (om st t1 p0) (om st t1 p1 :: restF) (ecap_pts lp lt) (op st t1 p0) (op st t1 p1 :: restB)
             (scap_pts p0 t1) Nce Hl).
  cbn [chain_from]. rewrite last_cons. change (last restF (om st t1 p1)) with (last restF (offs w (-1) t1 p1)). rewrite LF.
  pose proof (gstep_identity th r p1 t1) as SI. fold restF restB lp lt in SI.
  unfold closed_chain. rewrite !last_cons. cbn [chain_from last].
  rewrite (last_default_irrel _ _ lp Nce), Lce. rewrite chain_from_app, last_last. cbn [chain_from].
  change (offs w (-1) lt lp) with (om st lt lp) in *. change (offs w (-1) t1 p1) with (om st t1 p1) in *.
  unfold Xs in SI.
  set (CE := chain_from q (om st lt lp) (ecap_pts lp lt)) in *.
  set (CS := chain_from q (op st t1 p0) (scap_pts p0 t1)) in *.
  set (LS := last (scap_pts p0 t1) (op st t1 p0)) in *.
  antisym_facts. antisym_hyps. lia.
Qed.

(** ... and of one closed sub-path: the closing join contributes its two fans *)
Theorem closed_general_decomposition tol p0 ps p1 r out :
  first_edge p0 (ps ++ [p0]) = Some (p1, r) ->
  stroke_undashed (MoveTo p0 :: map (@LineTo R) ps ++ [ClosePath]) st tol = Some out ->
  let th := 2 * tol / sk_width st in let t1 := vec p0 p1 in
  let lt := snd (last_state p1 t1 r) in
  outline_wn out q =
  (cc p0 [om st t1 p0; om st t1 p1; p1; op st t1 p1; op st t1 p0] + gpieces th p1 t1 r +
   cc p0 (om st lt p0 :: jpts false p0 lt th t1 ++ [om st t1 p0]) -
   cc p0 (op st lt p0 :: jpts true p0 lt th t1 ++ [op st t1 p0]))%Z.
Proof.
  intros E Hout. rewrite closed_polyline_outline_thm, E in Hout. cbv zeta in Hout. injection Hout as <-.
  cbv zeta. set (th := 2 * tol / sk_width st). set (t1 := vec p0 p1).
  destruct (first_edge_suffix p0 (ps ++ [p0]) p1 r E) as (Hneb & Hlast & _).
  assert (Hlp : fst (last_state p1 t1 r) = p0) by (rewrite last_state_fst, Hlast, last_last; reflexivity).
  rewrite Hlp. set (lt := snd (last_state p1 t1 r)) in *.
  rewrite !(side_path_head st th _ p0 (ps ++ [p0]) p1 r E), !side_rest_grest.
  pose proof (side_join_jpts false p0 lt th t1) as JF. pose proof (side_join_jpts true p0 lt th t1) as JB.
  unfold side_join in JF, JB. cbv zeta in JF, JB. rewrite JF, JB. clear JF JB.
  fold t1. unfold sgn.
  set (Jf := jpts false p0 lt th t1). set (Jb := jpts true p0 lt th t1).
  set (restF := grest th false p1 t1 r). set (restB := grest th true p1 t1 r).
  pose proof (fun side => last_grest th side r p1 t1 _ eq_refl) as LFB. fold lt in LFB. rewrite Hlp in LFB.
  pose proof (LFB false) as LF. pose proof (LFB true) as LB. cbn [sgn] in LF, LB. fold restF in LF. fold restB in LB.
  change (MoveTo (offs (sk_width st) (-1) t1 p0) :: LineTo (offs (sk_width st) (-1) t1 p1) :: map (@LineTo R) restF)
    with (MoveTo (om st t1 p0) :: map (@LineTo R) (om st t1 p1 :: restF)).
  change (MoveTo (offs (sk_width st) 1 t1 p0) :: LineTo (offs (sk_width st) 1 t1 p1) :: map (@LineTo R) restB)
    with (MoveTo (op st t1 p0) :: map (@LineTo R) (op st t1 p1 :: restB)).
  change ((MoveTo (om st t1 p0) :: map (@LineTo R) (om st t1 p1 :: restF)) ++ map (@LineTo R) Jf)
    with (MoveTo (om st t1 p0) :: (map (@LineTo R) (om st t1 p1 :: restF) ++ map (@LineTo R) Jf)).
  change ((MoveTo (op st t1 p0) :: map (@LineTo R) (op st t1 p1 :: restB)) ++ map (@LineTo R) Jb)
    with (MoveTo (op st t1 p0) :: (map (@LineTo R) (op st t1 p1 :: restB) ++ map (@LineTo R) Jb)).
  rewrite <- !map_app.
  set (fs := (om st t1 p1 :: restF) ++ Jf). set (bs := (op st t1 p1 :: restB) ++ Jb).
  rewrite (last_end_lines (MoveTo (op st t1 p0)) bs). cbn [el_end_or el_end].
  pose proof (wn_two_contours q (om st t1 p0) fs (op st t1 p0) bs) as W2. cbn [app] in W2. cbn [app]. rewrite W2. clear W2.
  unfold fs, bs. rewrite !chain_from_app. cbn [chain_from]. rewrite !last_cons.
  change (last restF (om st t1 p1)) with (last restF (offs w (-1) t1 p1)).
  change (last restB (op st t1 p1)) with (last restB (offs w 1 t1 p1)). rewrite LF, LB.
  change (offs w (-1) lt p0) with (om st lt p0). change (offs w 1 lt p0) with (op st lt p0).
  assert (LFs : last ((om st t1 p1 :: restF) ++ Jf) (om st t1 p0) = last Jf (om st lt p0)).
  { destruct Jf as [|x Jf'] eqn:EJ; [rewrite app_nil_r, last_cons; exact LF|].
    rewrite last_app_cons. rewrite last_cons. reflexivity. }
  assert (LBs : last ((op st t1 p1 :: restB) ++ Jb) (op st t1 p0) = last Jb (op st lt p0)).
  { destruct Jb as [|x Jb'] eqn:EJ; [rewrite app_nil_r, last_cons; exact LB|].
    rewrite last_app_cons. rewrite last_cons. reflexivity. }
  rewrite LFs, LBs.
  pose proof (gstep_identity th r p1 t1) as SI. fold restF restB lt in SI. rewrite Hlp in SI.
  unfold closed_chain. rewrite !last_cons. cbn [chain_from last].
  rewrite !chain_from_app, !last_last. cbn [chain_from].
  unfold Xs in SI.
  set (cF := chain_from q (om st lt p0) Jf) in *. set (cB := chain_from q (op st lt p0) Jb) in *.
  set (A2 := last Jf (om st lt p0)) in *. set (D2 := last Jb (op st lt p0)) in *.
  antisym_facts. antisym_hyps. lia.
Qed.

(** the outer bound for one open sub-path *)
Theorem open_reach_thm tol p0 ps p1 r out :
  first_edge p0 ps = Some (p1, r) ->
  stroke_undashed (MoveTo p0 :: map (@LineTo R) ps) st tol = Some out ->
  (forall a b, In (a, b) ((p0, p1) :: poly_edges p1 r) -> seg_far a b q R2) ->
  outline_wn out q = 0%Z.
Proof.
  intros E Hout Hfar. rewrite open_polyline_outline_thm, E in Hout. cbv zeta in Hout. injection Hout as <-.
  set (th := 2 * tol / sk_width st). set (t1 := vec p0 p1).
  destruct (first_edge_suffix p0 ps p1 r E) as (Hneb & _ & _).
  pose proof (vec_nz_of_neb p1 p0 Hneb) as Hn1. fold t1 in Hn1.
  pose proof (last_state_nz r p1 t1 Hn1) as Hnl.
  set (lp := fst (last_state p1 t1 r)) in *. set (lt := snd (last_state p1 t1 r)) in *.
  rewrite !(side_path_head st th _ p0 ps p1 r E), !side_rest_grest. fold t1. unfold sgn.
  destruct (end_cap_pts lp lt) as (Ece & Lce & Nce). rewrite Ece, start_cap_pts.
  set (restF := grest th false p1 t1 r). set (restB := grest th true p1 t1 r).
  change (MoveTo (offs (sk_width st) (-1) t1 p0) :: LineTo (offs (sk_width st) (-1) t1 p1) :: map (@LineTo R) restF)
    with (MoveTo (om st t1 p0) :: map (@LineTo R) (om st t1 p1 :: restF)).
  change (MoveTo (offs (sk_width st) 1 t1 p0) :: LineTo (offs (sk_width st) 1 t1 p1) :: map (@LineTo R) restB)
    with (MoveTo (op st t1 p0) :: map (@LineTo R) (op st t1 p1 :: restB)).
  (* last points of the two sides *)
  pose proof (fun side => last_grest th side r p1 t1 _ eq_refl) as LFB. fold lp lt in LFB.
  pose proof (LFB false) as LF. pose proof (LFB true) as LB. cbn [sgn] in LF, LB. fold restF in LF. fold restB in LB.
  assert (Hl : last (ecap_pts lp lt) (om st t1 p0) = last (op st t1 p1 :: restB) (op st t1 p0)).
  { rewrite last_cons. change (op st t1 p1) with (offs w 1 t1 p1). rewrite LB.
    destruct (exists_last Nce) as (c & x & Ex). rewrite Ex in *. rewrite last_last in *. exact Lce. }
  cbn [app].
  rewrite (wn_open_general (om st t1 p0) (om st t1 p1 :: restF) (ecap_pts lp lt) (op st t1 p0) (op st t1 p1 :: restB)
             (scap_pts p0 t1) Nce Hl).
  cbn [chain_from]. rewrite last_cons. change (last restF (om st t1 p1)) with (last restF (offs w (-1) t1 p1)). rewrite LF.
  (* the sums along the path *)
  pose proof (gstep_identity th r p1 t1) as SI. fold restF restB lp lt in SI.
  rewrite (gpieces_far th r p1 t1 Hn1) in SI by (intros a b Hin; apply Hfar; right; exact Hin).
  (* end fan at lp *)
  assert (Hfar_last : exists a, seg_far a lp q R2 \/ seg_far lp a q R2).
  { destruct (last_edge_exists r p0 p1) as (a & Hin). exists a. left. apply Hfar.
    unfold lp. rewrite last_state_fst. exact Hin. }
  assert (EF : cc lp (offs w (-1) lt lp :: ecap_pts lp lt) = 0%Z).
  { pose proof (ecap_near lp lt Hnl) as NE. rewrite Forall_forall in NE.
    destruct Hfar_last as (a & [Hf|Hf]).
    - apply (poly_far q a lp R2 _ _ Hf). intros x [<-|[<-|Hx]]; right; [apply near_refl | apply near_om; exact Hnl | apply NE; exact Hx].
    - apply (poly_far q lp a R2 _ _ Hf). intros x [<-|[<-|Hx]]; left; [apply near_refl | apply near_om; exact Hnl | apply NE; exact Hx]. }
  (* start fan at p0 and the first generalised rectangle *)
  pose proof (Hfar p0 p1 (or_introl eq_refl)) as Hf0.
  assert (SF : cc p0 (op st t1 p0 :: scap_pts p0 t1 ++ [om st t1 p0]) = 0%Z).
  { pose proof (scap_near p0 t1 Hn1) as NS. rewrite Forall_forall in NS.
    apply (poly_far q p0 p1 R2 _ _ Hf0). intros x [<-|[<-|Hx]]; left; [apply near_refl | apply near_op; exact Hn1|].
    apply in_app_or in Hx. destruct Hx as [Hx|[<-|[]]]; [apply NS; exact Hx | apply near_om; exact Hn1]. }
  assert (GH : cc p0 [om st t1 p0; om st t1 p1; p1; op st t1 p1; op st t1 p0] = 0%Z).
  { apply (poly_far q p0 p1 R2 _ _ Hf0).
    intros x [<-|[<-|[<-|[<-|[<-|[<-|[]]]]]]];
      [left; apply near_refl | left; apply near_om; exact Hn1 | right; apply near_om; exact Hn1 | right; apply near_refl
      | right; apply near_op; exact Hn1 | left; apply near_op; exact Hn1]. }
  unfold closed_chain in EF, SF, GH. rewrite !last_cons in EF, SF, GH. cbn [chain_from last] in EF, SF, GH.
  rewrite (last_default_irrel _ _ lp Nce), Lce in EF. rewrite chain_from_app, last_last in SF. cbn [chain_from] in SF.
  change (offs w (-1) lt lp) with (om st lt lp) in *. change (offs w (-1) t1 p1) with (om st t1 p1) in *.
  unfold Xs in SI.
  set (CE := chain_from q (om st lt lp) (ecap_pts lp lt)) in *.
  set (CS := chain_from q (op st t1 p0) (scap_pts p0 t1)) in *.
  set (LS := last (scap_pts p0 t1) (op st t1 p0)) in *.
  antisym_facts. antisym_hyps. lia.
Qed.

(** the outer bound for one closed sub-path *)
Theorem closed_reach_thm tol p0 ps p1 r out :
  first_edge p0 (ps ++ [p0]) = Some (p1, r) ->
  stroke_undashed (MoveTo p0 :: map (@LineTo R) ps ++ [ClosePath]) st tol = Some out ->
  (forall a b, In (a, b) ((p0, p1) :: poly_edges p1 r) -> seg_far a b q R2) ->
  outline_wn out q = 0%Z.
Proof.
  intros E Hout Hfar. rewrite closed_polyline_outline_thm, E in Hout. cbv zeta in Hout. injection Hout as <-.
  set (th := 2 * tol / sk_width st). set (t1 := vec p0 p1).
  destruct (first_edge_suffix p0 (ps ++ [p0]) p1 r E) as (Hneb & Hlast & _).
  pose proof (vec_nz_of_neb p1 p0 Hneb) as Hn1. fold t1 in Hn1.
  pose proof (last_state_nz r p1 t1 Hn1) as Hnl.
  assert (Hlp : fst (last_state p1 t1 r) = p0) by (rewrite last_state_fst, Hlast, last_last; reflexivity).
  rewrite Hlp. set (lt := snd (last_state p1 t1 r)) in *.
  rewrite !(side_path_head st th _ p0 (ps ++ [p0]) p1 r E), !side_rest_grest.
  pose proof (side_join_jpts false p0 lt th t1) as JF. pose proof (side_join_jpts true p0 lt th t1) as JB.
  unfold side_join in JF, JB. cbv zeta in JF, JB. rewrite JF, JB. clear JF JB.
  fold t1. unfold sgn.
  set (Jf := jpts false p0 lt th t1). set (Jb := jpts true p0 lt th t1).
  set (restF := grest th false p1 t1 r). set (restB := grest th true p1 t1 r).
  pose proof (fun side => last_grest th side r p1 t1 _ eq_refl) as LFB. fold lt in LFB. rewrite Hlp in LFB.
  pose proof (LFB false) as LF. pose proof (LFB true) as LB. cbn [sgn] in LF, LB. fold restF in LF. fold restB in LB.
  change (MoveTo (offs (sk_width st) (-1) t1 p0) :: LineTo (offs (sk_width st) (-1) t1 p1) :: map (@LineTo R) restF)
    with (MoveTo (om st t1 p0) :: map (@LineTo R) (om st t1 p1 :: restF)).
  change (MoveTo (offs (sk_width st) 1 t1 p0) :: LineTo (offs (sk_width st) 1 t1 p1) :: map (@LineTo R) restB)
    with (MoveTo (op st t1 p0) :: map (@LineTo R) (op st t1 p1 :: restB)).
  change ((MoveTo (om st t1 p0) :: map (@LineTo R) (om st t1 p1 :: restF)) ++ map (@LineTo R) Jf)
    with (MoveTo (om st t1 p0) :: (map (@LineTo R) (om st t1 p1 :: restF) ++ map (@LineTo R) Jf)).
  change ((MoveTo (op st t1 p0) :: map (@LineTo R) (op st t1 p1 :: restB)) ++ map (@LineTo R) Jb)
    with (MoveTo (op st t1 p0) :: (map (@LineTo R) (op st t1 p1 :: restB) ++ map (@LineTo R) Jb)).
  rewrite <- !map_app.
  set (fs := (om st t1 p1 :: restF) ++ Jf). set (bs := (op st t1 p1 :: restB) ++ Jb).
  rewrite (last_end_lines (MoveTo (op st t1 p0)) bs). cbn [el_end_or el_end].
  pose proof (wn_two_contours q (om st t1 p0) fs (op st t1 p0) bs) as W2. cbn [app] in W2. cbn [app]. rewrite W2. clear W2.
  unfold fs, bs. rewrite !chain_from_app. cbn [chain_from]. rewrite !last_cons.
  change (last restF (om st t1 p1)) with (last restF (offs w (-1) t1 p1)).
  change (last restB (op st t1 p1)) with (last restB (offs w 1 t1 p1)). rewrite LF, LB.
  change (offs w (-1) lt p0) with (om st lt p0). change (offs w 1 lt p0) with (op st lt p0).
  (* ends of the closed contours *)
  assert (LFs : last ((om st t1 p1 :: restF) ++ Jf) (om st t1 p0) = last Jf (om st lt p0)).
  { destruct Jf as [|x Jf'] eqn:EJ; [rewrite app_nil_r, last_cons; exact LF|].
    rewrite last_app_cons. rewrite last_cons. reflexivity. }
  assert (LBs : last ((op st t1 p1 :: restB) ++ Jb) (op st t1 p0) = last Jb (op st lt p0)).
  { destruct Jb as [|x Jb'] eqn:EJ; [rewrite app_nil_r, last_cons; exact LB|].
    rewrite last_app_cons. rewrite last_cons. reflexivity. }
  rewrite LFs, LBs.
  pose proof (gstep_identity th r p1 t1) as SI. fold restF restB lt in SI. rewrite Hlp in SI.
  rewrite (gpieces_far th r p1 t1 Hn1) in SI by (intros a b Hin; apply Hfar; right; exact Hin).
  pose proof (Hfar p0 p1 (or_introl eq_refl)) as Hf0.
  pose proof (jpts_near false p0 lt th t1 Hnl Hn1) as NF. pose proof (jpts_near true p0 lt th t1 Hnl Hn1) as NB.
  fold Jf in NF. fold Jb in NB. rewrite Forall_forall in NF, NB.
  assert (FF : cc p0 (om st lt p0 :: Jf ++ [om st t1 p0]) = 0%Z).
  { apply (poly_far q p0 p1 R2 _ _ Hf0). intros x [<-|[<-|Hx]]; left; [apply near_refl | apply near_om; exact Hnl|].
    apply in_app_or in Hx. destruct Hx as [Hx|[<-|[]]]; [apply NF; exact Hx | apply near_om; exact Hn1]. }
  assert (FB : cc p0 (op st lt p0 :: Jb ++ [op st t1 p0]) = 0%Z).
  { apply (poly_far q p0 p1 R2 _ _ Hf0). intros x [<-|[<-|Hx]]; left; [apply near_refl | apply near_op; exact Hnl|].
    apply in_app_or in Hx. destruct Hx as [Hx|[<-|[]]]; [apply NB; exact Hx | apply near_op; exact Hn1]. }
  assert (GH : cc p0 [om st t1 p0; om st t1 p1; p1; op st t1 p1; op st t1 p0] = 0%Z).
  { apply (poly_far q p0 p1 R2 _ _ Hf0).
    intros x [<-|[<-|[<-|[<-|[<-|[<-|[]]]]]]];
      [left; apply near_refl | left; apply near_om; exact Hn1 | right; apply near_om; exact Hn1 | right; apply near_refl
      | right; apply near_op; exact Hn1 | left; apply near_op; exact Hn1]. }
  unfold closed_chain in FF, FB, GH. rewrite !last_cons in FF, FB, GH. cbn [chain_from last] in FF, FB, GH.
  rewrite chain_from_app, last_last in FF, FB. cbn [chain_from] in FF, FB.
  unfold Xs in SI.
  set (cF := chain_from q (om st lt p0) Jf) in *. set (cB := chain_from q (op st lt p0) Jb) in *.
  set (A2 := last Jf (om st lt p0)) in *. set (D2 := last Jb (op st lt p0)) in *.
  antisym_facts. antisym_hyps. lia.
Qed.
End Reach.
