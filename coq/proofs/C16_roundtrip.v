(** C16: writing a path and parsing it back. *)
From Coq Require Import ZArith List Bool Lia.
From KV Require Import Scalar Geom Curves Path ShapeTypes Svg SvgSpec C16_lex C16_parse.
Import ListNotations.
Local Open Scope Z_scope.

Section RoundTrip.
Context {T : Type} `{Scalar T}.
Variable num_of : list Z -> option T.
Variable show : T -> list Z.
Variable frem : T -> T -> T.
(** the coordinates the hypotheses about [show] cover (finite ones, for binary64) *)
Variable fin : T -> Prop.

Local Open Scope S_scope.
Hypothesis fadd_comm : forall a b : T, a + b = b + a.
Hypothesis fmul2_comm : forall a : T, f2 * a = a * f2.
(** Rust's [Display for f64] prints -?d+(.d+)? and [parse] reads it back *)
Hypothesis show_shape : forall x, fin x -> shown_str (show x).
Hypothesis show_parse : forall x, fin x -> num_of (show x) = Some x.

Local Notation El := (PathEl T).
Local Notation Cmd := (@SCmd T).

Definition pt_fin (p : Point T) : Prop := fin (px p) /\ fin (py p).
Definition el_fin (e : El) : Prop :=
  match e with
  | MoveTo p | LineTo p => pt_fin p
  | QuadTo p1 p2 => pt_fin p1 /\ pt_fin p2
  | CurveTo p1 p2 p3 => pt_fin p1 /\ pt_fin p2 /\ pt_fin p3
  | ClosePath => True
  end.

(** the element list as absolute commands, and the way [write_to] spells them *)
Definition cmd_of (e : El) : Cmd :=
  match e with
  | MoveTo p => CM false p
  | LineTo p => CL false p
  | QuadTo p1 p2 => CQ false p1 p2
  | CurveTo p1 p2 p3 => CC false p1 p2 p3
  | ClosePath => CZ false
  end.
Definition show_pt (p : Point T) : list (list Z) := [show (px p); show (py p)].
Definition spell_of (first : bool) (e : El) : Spell :=
  let lead := if first then [] else [32%Z] in
  match e with
  | MoveTo p | LineTo p => mkSpell false lead [] (show_pt p) [[44%Z]]
  | QuadTo p1 p2 => mkSpell false lead [] (show_pt p1 ++ show_pt p2) [[44%Z]; [32%Z]; [44%Z]]
  | CurveTo p1 p2 p3 =>
      mkSpell false lead [] (show_pt p1 ++ show_pt p2 ++ show_pt p3) [[44%Z]; [32%Z]; [44%Z]; [32%Z]; [44%Z]]
  | ClosePath => mkSpell false lead [] [] []
  end.

Lemma render_cmd_write first e :
  render_cmd (cmd_of e) (spell_of first e) = (if first then [] else [32%Z]) ++ write_el show e.
Proof.
  destruct e as [p|p|p1 p2|p1 p2 p3|]; unfold render_cmd, write_el, write_pt; cbn;
    rewrite <- ?app_assoc; cbn; rewrite ?app_nil_r; reflexivity.
Qed.

Lemma render_rest els :
  render (map cmd_of els) (map (spell_of false) els) [] = flat_map (fun e => 32%Z :: write_el show e) els.
Proof.
  induction els as [|e r IH]; cbn [map render flat_map]; auto.
  rewrite render_cmd_write, IH. reflexivity.
Qed.

Lemma write_to_cons e r : write_to show (e :: r) = write_el show e ++ flat_map (fun e => 32%Z :: write_el show e) r.
Proof.
  revert e. induction r as [|e2 r IH]; intros e.
  - cbn. rewrite app_nil_r. reflexivity.
  - change (write_to show (e :: e2 :: r)) with (write_el show e ++ [32%Z] ++ write_to show (e2 :: r)).
    rewrite IH. reflexivity.
Qed.

Definition spells_of (els : list El) : list Spell :=
  match els with [] => [] | e :: r => spell_of true e :: map (spell_of false) r end.

Lemma write_to_render els : write_to show els = render (map cmd_of els) (spells_of els) [].
Proof.
  destruct els as [|e r]; auto. cbn [spells_of map render].
  rewrite render_cmd_write, render_rest, write_to_cons. reflexivity.
Qed.

(** [show x] is a token of the number grammar *)
Lemma shown_number s : shown_str s -> number_tok s.
Proof.
  intros (sg & a & b & -> & Hsg & Ha & Hda & Hb).
  destruct Hb as [->|(f & -> & Hf & Hdf)].
  - exists sg, a, []. rewrite app_nil_r. repeat split; auto.
    + destruct Hsg as [->| ->]; [left|right; left]; auto.
    + left; split; auto.
    + left; auto.
  - exists sg, (a ++ 46 :: f), []. rewrite app_nil_r. repeat split; auto.
    + destruct Hsg as [->| ->]; [left|right; left]; auto.
    + right. exists a, f. repeat split; auto.
    + left; auto.
Qed.

Lemma Sep_comma : Sep [44]. Proof. exists [], [], true. repeat split. Qed.
Lemma Sep_space : Sep [32]. Proof. exists [32], [], false. repeat split. Qed.

Lemma arg_ok_show x : fin x -> arg_ok num_of (ANum x) (show x).
Proof. intros Hx. split; [apply shown_number, show_shape; auto|apply show_parse; auto]. Qed.

Lemma spell_of_ok prev first e : el_fin e -> spell_ok num_of prev (cmd_of e) (spell_of first e).
Proof.
  pose proof Sep_comma. pose proof Sep_space.
  assert (Hne : forall a b : Z, [a] = [] -> b = b) by reflexivity.
  destruct e as [p|p|p1 p2|p1 p2 p3|]; cbn [el_fin]; unfold pt_fin; intros Hf;
    unfold spell_ok; cbn [cmd_of spell_of sp_omit sp_args sp_seps sp_lead sp_first cmd_args pt_args show_pt app];
    (split; [repeat constructor; try apply arg_ok_show; tauto|]);
    (split; [cbn [seps_ok]; repeat split; auto; try discriminate|]);
    (split; [destruct first; reflexivity|reflexivity]).
Qed.

Lemma spells_of_ok els : Forall el_fin els -> spells_ok num_of None (map cmd_of els) (spells_of els).
Proof.
  destruct els as [|e r]; cbn; auto. intros Hf. inversion Hf as [|? ? He Hr]; subst.
  split; [apply spell_of_ok; auto|].
  generalize (Some (cmd_of e, spell_of true e)). clear Hf He.
  induction Hr as [|e2 r2 He2 Hr2 IH]; intros prev; cbn; auto.
  split; [apply spell_of_ok; auto|apply IH].
Qed.

(** ** what the parser returns: the elements, with the MoveTo a ClosePath implies made explicit *)
Fixpoint insert_moves (start : Point T) (pending : bool) (els : list El) : list El :=
  match els with
  | [] => []
  | MoveTo p :: r => MoveTo p :: insert_moves p false r
  | ClosePath :: r => (if pending then [MoveTo start] else []) ++ ClosePath :: insert_moves start true r
  | e :: r => (if pending then [MoveTo start] else []) ++ e :: insert_moves start false r
  end.

Definition starts_with_move (els : list El) : Prop :=
  match els with [] => True | MoveTo _ :: _ => True | _ => False end.

Lemma interp_from_els els : forall cur start prev pending,
  interp_from frem (mkIS true cur start prev pending) (map cmd_of els) = Ok (insert_moves start pending els).
Proof.
  induction els as [|e r IH]; intros cur start prev pending; cbn [map interp_from insert_moves]; auto.
  destruct e as [p|p|p1 p2|p1 p2 p3|];
    cbn [cmd_of interp_step i_started i_cur i_start i_pending i_prev negb absolute];
    rewrite IH; destruct pending; reflexivity.
Qed.

Lemma interp_els els : starts_with_move els ->
  interp frem (map cmd_of els) = Ok (insert_moves origin false els).
Proof.
  destruct els as [|e r]; cbn [starts_with_move]; auto. destruct e; try contradiction. intros _.
  unfold interp. cbn [map interp_from cmd_of interp_step absolute i_cur i_init].
  rewrite interp_from_els. reflexivity.
Qed.

(** the text written for a path parses to the path with the implied MoveTo's made explicit *)
Theorem parse_write els : starts_with_move els -> Forall el_fin els ->
  from_svg num_of frem fixed (write_to show els) = Ok (insert_moves origin false els).
Proof.
  intros Hs Hf. rewrite write_to_render.
  rewrite (spellings_generic num_of frem fadd_comm fmul2_comm) by (try apply spells_of_ok; auto; reflexivity).
  apply interp_els; auto.
Qed.

(** every ClosePath is followed by a MoveTo or by the end *)
Fixpoint closes_followed (els : list El) : Prop :=
  match els with
  | [] => True
  | ClosePath :: r => starts_with_move r /\ closes_followed r
  | _ :: r => closes_followed r
  end.

Lemma insert_moves_id els : forall start pending,
  closes_followed els -> (pending = true -> starts_with_move els) ->
  insert_moves start pending els = els.
Proof.
  induction els as [|e r IH]; intros start pending Hc Hp; auto.
  destruct e as [p|p|p1 p2|p1 p2 p3|]; cbn [insert_moves closes_followed] in *.
  - rewrite IH; auto. discriminate.
  - destruct pending; [destruct (Hp eq_refl)|]. cbn. rewrite IH; auto. discriminate.
  - destruct pending; [destruct (Hp eq_refl)|]. cbn. rewrite IH; auto. discriminate.
  - destruct pending; [destruct (Hp eq_refl)|]. cbn. rewrite IH; auto. discriminate.
  - destruct pending; [destruct (Hp eq_refl)|]. destruct Hc as (Hs & Hc). cbn. rewrite IH; auto.
Qed.

Theorem roundtrip_elements els : starts_with_move els -> Forall el_fin els -> closes_followed els ->
  from_svg num_of frem fixed (write_to show els) = Ok els.
Proof.
  intros Hs Hf Hc. rewrite parse_write; auto. rewrite insert_moves_id; auto; discriminate.
Qed.

(** ** segments *)
Hypothesis feqb_eq : forall a b : T, feqb a b = true -> a = b.

Lemma pt_eqb_eq (a b : Point T) : pt_eqb a b = true -> a = b.
Proof.
  destruct a, b. unfold pt_eqb; cbn. intros E. apply andb_true_iff in E as [E1 E2].
  apply feqb_eq in E1, E2. congruence.
Qed.

(** after a ClosePath the iterator stands at the start of the sub-path *)
Lemma close_state (s l : Point T) :
  exists out, seg_step (Some (s, l)) ClosePath = Some ((s, s), out).
Proof.
  cbn. unfold pt_neb. destruct (pt_eqb l s) eqn:E; cbn; eauto.
  apply pt_eqb_eq in E. subst. eauto.
Qed.

Lemma segs_insert els : forall s l pending, (pending = true -> l = s) ->
  segs_from (Some (s, l)) (insert_moves s pending els) = segs_from (Some (s, l)) els.
Proof.
  induction els as [|e r IH]; intros s l pending Hp; auto.
  assert (Hpre : forall rest, segs_from (Some (s, l)) ((if pending then [MoveTo s] else []) ++ rest)
                              = segs_from (Some (s, l)) rest).
  { intros rest. destruct pending; auto. rewrite (Hp eq_refl). cbn.
    destruct (segs_from (Some (s, s)) rest); reflexivity. }
  destruct e as [p|p|p1 p2|p1 p2 p3|]; cbn [insert_moves]; rewrite ?Hpre.
  - cbn [segs_from seg_step el_end]. rewrite (IH p p false) by discriminate. reflexivity.
  - cbn [segs_from seg_step el_end]. rewrite (IH s p false) by discriminate. reflexivity.
  - cbn [segs_from seg_step el_end]. rewrite (IH s p2 false) by discriminate. reflexivity.
  - cbn [segs_from seg_step el_end]. rewrite (IH s p3 false) by discriminate. reflexivity.
  - cbn [segs_from]. destruct (close_state s l) as (out & ->). rewrite (IH s s true) by reflexivity. reflexivity.
Qed.

Lemma segments_insert els : starts_with_move els ->
  segments (insert_moves origin false els) = segments els.
Proof.
  destruct els as [|e r]; auto. destruct e; cbn [starts_with_move]; try contradiction. intros _.
  unfold segments. cbn [insert_moves segs_from seg_step el_end].
  rewrite (segs_insert r p p false) by discriminate. reflexivity.
Qed.

Theorem roundtrip_segments els : starts_with_move els -> Forall el_fin els ->
  exists els', from_svg num_of frem fixed (write_to show els) = Ok els' /\ segments els' = segments els.
Proof.
  intros Hs Hf. eexists. split; [apply parse_write; auto|apply segments_insert; auto].
Qed.

End RoundTrip.
