(** C04: crossing contributions of edges — splitting, antisymmetry — and the crossing-number winding of
    the two kinds of convex pieces a polyline's outline is made of (rectangle, triangle). Real instance.
    The case analyses are discharged by deciding every comparison with [lra] after the products have
    been given their signs. *)
From Coq Require Import ZArith QArith Reals List Bool Lra Lia Psatz.
From KV Require Import Scalar RInst Geom Curves Path Affine Stroke RTac StrokeSpec C04_proofs C04_region.
Import ListNotations.
Local Open Scope R_scope.

(** splitting an edge at a point between its ends does not change its crossing contribution *)
Lemma edge_term_split (qy y0 d S lam : R) : 0 <= lam <= 1 ->
  (edge_term qy y0 (y0 + lam * d) (lam * S) + edge_term qy (y0 + lam * d) (y0 + d) ((1 - lam) * S))%Z =
  edge_term qy y0 (y0 + d) S.
Proof.
  intros Hl. unfold edge_term.
  assert (Cd : d < 0 \/ d = 0 \/ 0 < d) by lra.
  assert (Cs : S < 0 \/ S = 0 \/ 0 < S) by lra.
  assert (Cl : lam = 0 \/ 0 < lam < 1 \/ lam = 1) by lra.
  destruct Cd as [Hd|[Hd|Hd]]; destruct Cs as [Hs|[Hs|Hs]]; destruct Cl as [Hlam|[Hlam|Hlam]];
    sign_of (lam * d); sign_of (d - lam * d); sign_of (lam * S); sign_of ((1 - lam) * S);
    set (a := lam * d) in *; set (S1 := lam * S) in *; set (S2 := (1 - lam) * S) in *;
    dec_tests; cbn; try reflexivity; exfalso; lra.
Qed.

Ltac sign_of' x := first [ assert (x < 0) by nra | assert (x = 0) by nra | assert (0 < x) by nra | idtac ].

Ltac tri_fin :=
  split;
  [ dec_tests; cbn; try lia; exfalso; lra
  | split;
    [ intros ?; dec_tests; cbn; try reflexivity; exfalso; lra
    | intros ? ? ? ?; try (exfalso; lra); dec_tests; cbn; try reflexivity; exfalso; lra ] ].

(** crossing-number winding of a positively oriented triangle P, P+a, P+b (cross(a,b) = K > 0) about
    q = P + al*a + be*b: never negative, at most 1, and 0 strictly outside *)
Lemma tri_wn (Py u v al be K : R) : 0 < K ->
  let qy := Py + al * u + be * v in
  let T := (edge_term qy Py (Py + u) (be * K) + edge_term qy (Py + u) (Py + v) ((1 - al - be) * K) +
            edge_term qy (Py + v) Py (al * K))%Z in
  (0 <= T <= 1)%Z /\ (al < 0 \/ be < 0 \/ 1 < al + be -> T = 0%Z) /\
  (u <> 0 \/ v <> 0 -> 0 < al -> 0 < be -> al + be < 1 -> T = 1%Z).
Proof.
  intros HK. cbv zeta. unfold edge_term.
  assert (Cu : u < 0 \/ u = 0 \/ 0 < u) by lra.
  assert (Cv : v < 0 \/ v = 0 \/ 0 < v) by lra.
  assert (Cw : v < u \/ v = u \/ u < v) by lra.
  assert (Ca : al < 0 \/ al = 0 \/ 0 < al) by lra.
  assert (Cb : be < 0 \/ be = 0 \/ 0 < be) by lra.
  assert (Cs : al + be < 1 \/ al + be = 1 \/ 1 < al + be) by lra.
  destruct Cu as [Hu|[Hu|Hu]]; destruct Cv as [Hv|[Hv|Hv]]; destruct Cw as [Hw|[Hw|Hw]]; try (exfalso; lra);
  destruct Ca as [Ha|[Ha|Ha]]; destruct Cb as [Hb|[Hb|Hb]]; destruct Cs as [Hs|[Hs|Hs]]; try (exfalso; lra);
  sign_of (al * u); sign_of (be * v); sign_of (be * u); sign_of (al * v);
  sign_of (u - al * u - be * u); sign_of (v - al * v - be * v);
  sign_of (be * v - be * u); sign_of (al * u - al * v);
  sign_of (be * K); sign_of ((1 - al - be) * K); sign_of (al * K);
  set (a := al * u) in *; set (b := be * v) in *; set (b' := be * u) in *; set (a' := al * v) in *;
  set (S1 := be * K) in *; set (S2 := (1 - al - be) * K) in *; set (S3 := al * K) in *;
  tri_fin.
Qed.

Lemma edge_term_antisym (qy y0 y1 S : R) : edge_term qy y0 y1 S = (- edge_term qy y1 y0 (- S))%Z.
Proof.
  unfold edge_term.
  assert (Cd : y0 < y1 \/ y0 = y1 \/ y1 < y0) by lra.
  assert (Cs : S < 0 \/ S = 0 \/ 0 < S) by lra.
  destruct Cd as [Hd|[Hd|Hd]]; destruct Cs as [Hs|[Hs|Hs]]; dec_tests; cbn; try reflexivity; exfalso; lra.
Qed.

(** the rectangle's winding is 0 or 1 everywhere, boundary included *)
Lemma rect_wn_range (Ay u v al ga K : R) : 0 < K -> (u <> 0 \/ v <> 0) ->
  let qy := Ay + al * u + ga * v in
  let W := (edge_term qy Ay (Ay + u) (ga * K) + edge_term qy (Ay + u) (Ay + u + v) ((1 - al) * K) +
            edge_term qy (Ay + u + v) (Ay + v) ((1 - ga) * K) + edge_term qy (Ay + v) Ay (al * K))%Z in
  (0 <= W <= 1)%Z.
Proof.
  intros HK Huv. cbv zeta. unfold edge_term.
  assert (Cu : u < 0 \/ u = 0 \/ 0 < u) by lra.
  assert (Cv : v < 0 \/ v = 0 \/ 0 < v) by lra.
  assert (Ca : al < 0 \/ al = 0 \/ 0 < al < 1 \/ al = 1 \/ 1 < al) by lra.
  assert (Cg : ga < 0 \/ ga = 0 \/ 0 < ga < 1 \/ ga = 1 \/ 1 < ga) by lra.
  destruct Cu as [Hu|[Hu|Hu]]; destruct Cv as [Hv|[Hv|Hv]]; try (exfalso; lra);
  destruct Ca as [Ha|[Ha|[Ha|[Ha|Ha]]]]; destruct Cg as [Hg|[Hg|[Hg|[Hg|Hg]]]];
  sign_of (al * u); sign_of (u - al * u); sign_of (ga * v); sign_of (v - ga * v);
  sign_of (ga * K); sign_of ((1 - al) * K); sign_of ((1 - ga) * K); sign_of (al * K);
  set (a := al * u) in *; set (b := ga * v) in *;
  set (S1 := ga * K) in *; set (S2 := (1 - al) * K) in *; set (S3 := (1 - ga) * K) in *; set (S4 := al * K) in *;
  dec_tests; cbn; try lia; exfalso; lra.
Qed.
