(** C13, part 1: the four-state machine of model/Dash.v (all repairs on) computes exactly the
    structural specification [dash_spec_from] of spec/DashSpec.v — for every element list,
    over any scalar (nothing here depends on arithmetic). *)
From Coq Require Import ZArith List Bool Arith Lia.
From KV Require Import Scalar Geom Curves Path Dash DashSpec.
Import ListNotations.

Set Implicit Arguments.

Section Sim.
Context {T : Type} `{Scalar T}.
Local Open Scope S_scope.

Variable arclen : PathSeg T -> T.
Variable inv_arclen : PathSeg T -> T -> T.
Variable dashes : list T.
Variable init : Phase T.

(** Rust's [==] on the points that occur is reflexive (no NaN coordinates) *)
Hypothesis pt_neb_refl : forall p : Point T, pt_neb p p = false.

Notation DSt := (DS T).
Notation tickF := (tick arclen inv_arclen fixes_all dashes init).
Notation runF := (run arclen inv_arclen fixes_all dashes init).
Notation stepF := (step arclen inv_arclen fixes_all dashes init).
Notation gil := (get_input_loop arclen fixes_all init).

(** ** Executions *)

(** [steps s k o s']: [k] iterations of [next]'s loop, none of them the last, take [s] to [s']
    and emit [o] *)
Inductive steps : DSt -> nat -> list (PathEl T) -> DSt -> Prop :=
| steps_0 s : steps s 0 [] s
| steps_cont s s' k o s'' : tickF s = TCont s' -> steps s' k o s'' -> steps s (S k) o s''
| steps_emit s el s' k o s'' : tickF s = TEmit el s' -> steps s' k o s'' -> steps s (S k) (el :: o) s''.

Lemma steps_trans s k o s' k' o' s'' :
  steps s k o s' -> steps s' k' o' s'' -> steps s (k + k') (o ++ o') s''.
Proof.
  induction 1; intros; simpl; auto.
  - eapply steps_cont; eauto.
  - eapply steps_emit; eauto.
Qed.

Lemma steps_one_cont s s' : tickF s = TCont s' -> steps s 1 [] s'.
Proof. intros; eapply steps_cont; eauto; constructor. Qed.
Lemma steps_one_emit s el s' : tickF s = TEmit el s' -> steps s 1 [el] s'.
Proof. intros; eapply steps_emit; eauto; constructor. Qed.

(** [Runs s o n]: from [s] the iterator emits exactly [o] and ends, in [n] iterations *)
Definition Runs (s : DSt) (o : list (PathEl T)) (n : nat) : Prop := runF n s = Some (o, n).

Lemma run_mono f s r : runF f s = Some r -> forall g, (f <= g)%nat -> runF g s = Some r.
Proof.
  revert s r; induction f; intros s r Hr g Hg; simpl in Hr; [discriminate|].
  destruct g; [lia|]. simpl.
  destruct (tickF s); auto.
  - destruct (runF f s0) eqn:E; [|discriminate].
    rewrite (IHf _ _ E g) by lia. exact Hr.
  - destruct (runF f s0) eqn:E; [|discriminate].
    rewrite (IHf _ _ E g) by lia. exact Hr.
Qed.

Lemma Runs_done s : tickF s = TDone -> Runs s [] 1.
Proof. unfold Runs; simpl; intros ->; reflexivity. Qed.

Lemma steps_Runs s k o s' o' n :
  steps s k o s' -> Runs s' o' n -> Runs s (o ++ o') (k + n).
Proof.
  unfold Runs. induction 1; intros; simpl; auto.
  - rewrite H0. rewrite (IHsteps H2). reflexivity.
  - rewrite H0. rewrite (IHsteps H2). reflexivity.
Qed.

Lemma Runs_fuel s o n f : Runs s o n -> (n <= f)%nat -> runF f s = Some (o, n).
Proof. intros; eapply run_mono; eauto. Qed.


(** ** States, written out *)
Definition mkg (idone : bool) (els : list (PathEl T)) (cp : bool) (ph : Phase T) (st : DashState) (seg : PathSeg T)
    (t srem : T) (start last : Point T) (S : list (PathEl T)) (six : nat) : DSt :=
  mkDS els idone cp (p_ix ph) (p_act ph) st seg t (p_rem ph) srem start last S six.
Notation mk := (mkg false).

(** the phase after a switch *)
Definition ph_next (ph : Phase T) : Phase T :=
  let ix := next_ix dashes (p_ix ph) in mkPhase ix (nth ix dashes f0) (negb (p_act ph)).

(** the element a switch emits *)
Definition switch_el (seg : PathSeg T) (t : T) (ph : Phase T) : PathEl T :=
  let sub := seg_subsegment seg t f1 in
  let t1 := inv_arclen sub (p_rem ph) in
  if p_act ph then seg_to_el (seg_subsegment sub f0 t1) else MoveTo (seg_eval sub t1).
Definition switch_t (seg : PathSeg T) (t : T) (ph : Phase T) : T :=
  t + inv_arclen (seg_subsegment seg t f1) (p_rem ph) * (f1 - t).

(** [seg_pieces] without the final piece: the switches inside the segment, and where they leave us *)
Fixpoint seg_switches (fuel : nat) (seg : PathSeg T) (t srem : T) (ph : Phase T)
  : option (list (PathEl T) * T * T * Phase T) :=
  if p_rem ph <? srem then
    match fuel with
    | O => None
    | S f =>
        match seg_switches f seg (switch_t seg t ph) (srem - p_rem ph) (ph_next ph) with
        | Some (sw, t', srem', phm) => Some (switch_el seg t ph :: sw, t', srem', phm)
        | None => None
        end
    end
  else Some ([], t, srem, ph).

Definition final_els (seg : PathSeg T) (t : T) (ph : Phase T) : list (PathEl T) :=
  if p_act ph then [seg_to_el (seg_subsegment seg t f1)] else [].
Definition ph_final (ph : Phase T) (srem : T) : Phase T := mkPhase (p_ix ph) (p_rem ph - srem) (p_act ph).

Lemma seg_pieces_switches fuel seg : forall t srem ph,
  seg_pieces inv_arclen dashes fuel seg t srem ph =
  match seg_switches fuel seg t srem ph with
  | None => None
  | Some (sw, t', srem', phm) => Some (sw ++ final_els seg t' phm, length sw, ph_final phm srem')
  end.
Proof.
  induction fuel; intros; simpl.
  - destruct (p_rem ph <? srem); reflexivity.
  - destruct (p_rem ph <? srem); [|reflexivity].
    unfold switch_t, ph_next in *. rewrite IHfuel.
    match goal with |- context [seg_switches fuel ?a ?b ?c ?d] => destruct (seg_switches fuel a b c d) as [[[[sw t'] srem'] phm]|] end;
      reflexivity.
Qed.

Lemma seg_switches_final fuel seg : forall t srem ph sw t' srem' phm,
  seg_switches fuel seg t srem ph = Some (sw, t', srem', phm) -> (p_rem phm <? srem') = false.
Proof.
  induction fuel; intros t srem ph sw t' srem' phm; simpl.
  - destruct (p_rem ph <? srem) eqn:E; [discriminate|]. intros X; inversion X; subst; auto.
  - destruct (p_rem ph <? srem) eqn:E.
    + destruct (seg_switches fuel seg (switch_t seg t ph) (srem - p_rem ph) (ph_next ph)) as [[[[a b] c] d]|] eqn:E2; [|discriminate].
      intros X; inversion X; subst. eapply IHfuel; eauto.
    + intros X; inversion X; subst; auto.
Qed.

(** ** Single iterations *)

(** a switch in state Working *)
Lemma tick_switch_W els cp ph seg t srem start last S six :
  (p_rem ph <? srem) = true ->
  tickF (mk els cp ph Working seg t srem start last S six) =
  TEmit (switch_el seg t ph) (mk els cp (ph_next ph) Working seg (switch_t seg t ph) (srem - p_rem ph) start last S six).
Proof.
  intros E. destruct ph as [ix rem act]. unfold mk, tick, step; simpl in *. rewrite E.
  destruct act; reflexivity.
Qed.

(** a switch in state ToStash with a non-empty stash: the piece is stashed, the dash is broken *)
Lemma tick_switch_S els cp ph seg t srem start last e S six :
  (p_rem ph <? srem) = true -> p_act ph = true ->
  tickF (mk els cp ph ToStash seg t srem start last (e :: S) six) =
  TCont (mk els cp (ph_next ph) Working seg (switch_t seg t ph) (srem - p_rem ph) start last ((e :: S) ++ [switch_el seg t ph]) six).
Proof.
  intros E A. destruct ph as [ix rem act]. simpl in A; subst act.
  unfold mk, tick, step; simpl in *. rewrite E. reflexivity.
Qed.

(** the first iteration on a fresh sub-path in state ToStash *)
Lemma tick_first_on els cp ph seg t srem start last six :
  p_act ph = true ->
  tickF (mk els cp ph ToStash seg t srem start last [] six) =
  TCont (mk els cp ph ToStash seg t srem start last [MoveTo (seg_start seg)] six).
Proof.
  intros A. destruct ph as [ix rem act]. simpl in A; subst act. reflexivity.
Qed.
Lemma tick_first_off els cp ph seg t srem start last six :
  p_act ph = false ->
  tickF (mk els cp ph ToStash seg t srem start last [] six) =
  TCont (mk els cp ph Working seg t srem start last [] six).
Proof.
  intros A. destruct ph as [ix rem act]. simpl in A; subst act. reflexivity.
Qed.

(** all the switches of a segment, in state Working *)
Lemma steps_switches_W fuel seg start last S six els cp : forall t srem ph sw t' srem' phm,
  seg_switches fuel seg t srem ph = Some (sw, t', srem', phm) ->
  steps (mk els cp ph Working seg t srem start last S six) (length sw) sw
        (mk els cp phm Working seg t' srem' start last S six).
Proof.
  induction fuel; intros t srem ph sw t' srem' phm; simpl.
  - destruct (p_rem ph <? srem); [discriminate|]. intros X; inversion X; subst. constructor.
  - destruct (p_rem ph <? srem) eqn:E.
    + destruct (seg_switches fuel seg (switch_t seg t ph) (srem - p_rem ph) (ph_next ph)) as [[[[a b] c] d]|] eqn:E2; [|discriminate].
      intros X; inversion X; subst. simpl.
      eapply steps_emit. { apply tick_switch_W; auto. }
      eapply IHfuel; eauto.
    + intros X; inversion X; subst. constructor.
Qed.


(** ** [get_input] on written-out states *)

Definition el_seg (last : Point T) (e : PathEl T) : option (PathSeg T * Point T) :=
  match e with
  | LineTo p1 => Some (SegLine (mkLine last p1), p1)
  | QuadTo p1 p2 => Some (SegQuad (mkQuad last p1 p2), p2)
  | CurveTo p1 p2 p3 => Some (SegCubic (mkCubic last p1 p2 p3), p3)
  | _ => None
  end.

Lemma gil_nil els ph st seg t srem start last S six :
  gil [] (mk els false ph st seg t srem start last S six)
  = mkg true [] false ph FromStash seg t srem start last S six.
Proof. reflexivity. Qed.

Lemma gil_move p r els ph st seg t srem start last S six :
  gil (MoveTo p :: r) (mk els false ph st seg t srem start last S six)
  = gil r (mk r false init (if is_nil S then st else FromStash) seg t srem p p S six).
Proof. simpl. destruct S; reflexivity. Qed.

Lemma gil_seg e r seg' p1 els ph st seg t srem start last S six :
  el_seg last e = Some (seg', p1) ->
  gil (e :: r) (mk els false ph st seg t srem start last S six)
  = mk r false ph st seg' f0 (arclen seg') start p1 S six.
Proof. destruct e; simpl; intros X; inversion X; subst; reflexivity. Qed.

Lemma gil_close_seg r els ph st seg t srem start last S six :
  pt_neb last start = true ->
  gil (ClosePath :: r) (mk els false ph st seg t srem start last S six)
  = mk r true ph st (SegLine (mkLine last start)) f0 (arclen (SegLine (mkLine last start))) start start S six.
Proof. intros E. simpl. rewrite E. reflexivity. Qed.

Lemma gil_close_direct r els ph st seg t srem start last S six :
  pt_neb last start = false ->
  gil (ClosePath :: r) (mk els false ph st seg t srem start last S six)
  = set_cur_t f0 (handle_closepath fixes_all init (mk r true ph st seg t srem start last S six)).
Proof. intros E. simpl. rewrite E. reflexivity. Qed.

Lemma gil_pending r ph st seg t srem start last S six :
  gil r (mk r true ph st seg t srem start last S six)
  = set_cur_t f0 (handle_closepath fixes_all init (mk r true ph st seg t srem start last S six)).
Proof. destruct r; reflexivity. Qed.

Lemma hc_tostash r ph seg t srem start last S six :
  set_cur_t f0 (handle_closepath fixes_all init (mk r true ph ToStash seg t srem start last S six))
  = mk r true init FromStash seg f0 srem start last (S ++ [ClosePath]) six.
Proof. reflexivity. Qed.

Lemma hc_working r ph seg t srem start last S six :
  set_cur_t f0 (handle_closepath fixes_all init (mk r true ph Working seg t srem start last S six))
  = mk r true init FromStash seg f0 srem start last S (if p_act ph then 1%nat else six).
Proof. destruct ph as [ix rem act]; destruct act; reflexivity. Qed.

Lemma hc_need r ph seg t srem start last S six :
  set_cur_t f0 (handle_closepath fixes_all init (mk r true ph NeedInput seg t srem start last S six))
  = mk r true init FromStash seg f0 srem start last S six.
Proof. destruct ph as [ix rem act]; destruct act; reflexivity. Qed.

Lemma hc_fromstash r ph seg t srem start last S six :
  set_cur_t f0 (handle_closepath fixes_all init (mk r true ph FromStash seg t srem start last S six))
  = mk r true init FromStash seg f0 srem start last S six.
Proof. destruct ph as [ix rem act]; destruct act; reflexivity. Qed.

(** ** Replaying the stash *)
Lemma skipn_S_tl (A : Type) (l : list A) : forall n, skipn (Datatypes.S n) l = tl (skipn n l).
Proof.
  induction l; intros n. { destruct n; reflexivity. }
  destruct n. { reflexivity. }
  change (skipn (Datatypes.S (Datatypes.S n)) (a :: l)) with (skipn (Datatypes.S n) l).
  rewrite IHl. reflexivity.
Qed.

Lemma tick_replay idone els cp ph seg t srem start last S six el :
  nth_error S six = Some el ->
  tickF (mkg idone els cp ph FromStash seg t srem start last S six)
  = TEmit el (mkg idone els cp ph FromStash seg t srem start last S (Datatypes.S six)).
Proof. intros E. unfold tick; simpl. rewrite E. reflexivity. Qed.

Lemma steps_replay idone els cp ph seg t srem start last S : forall six,
  steps (mkg idone els cp ph FromStash seg t srem start last S six)
        (length (skipn six S)) (skipn six S)
        (mkg idone els cp ph FromStash seg t srem start last S (six + length (skipn six S))).
Proof.
  intros six. remember (length (skipn six S)) as n eqn:En. revert six En.
  induction n; intros six En.
  - destruct (skipn six S) eqn:E; [|discriminate]. rewrite Nat.add_0_r. constructor.
  - destruct (skipn six S) as [|el rest] eqn:E; [discriminate|].
    assert (Hn : nth_error S six = Some el).
    { rewrite <- (firstn_skipn six S) at 1. rewrite E.
      assert (Hl : length (firstn six S) = six).
      { apply firstn_length_le. destruct (le_lt_dec six (length S)); auto.
        rewrite skipn_all2 in E by lia. discriminate. }
      rewrite nth_error_app2 by lia. rewrite Hl, Nat.sub_diag. reflexivity. }
    assert (Hr : skipn (Datatypes.S six) S = rest).
    { rewrite skipn_S_tl, E. reflexivity. }
    eapply steps_emit. { apply tick_replay; eauto. }
    replace (six + Datatypes.S n)%nat with (Datatypes.S six + n)%nat by lia.
    simpl in En. injection En as En.
    rewrite <- Hr. apply IHn. rewrite Hr. exact En.
Qed.

Lemma nth_error_after_replay (S : list (PathEl T)) six : nth_error S (six + length (skipn six S)) = None.
Proof. apply nth_error_None. rewrite skipn_length. lia. Qed.

(** the iteration after the replay *)
Lemma tick_clear_done els cp ph seg t srem start last S six :
  nth_error S six = None ->
  tickF (mkg true els cp ph FromStash seg t srem start last S six) = TDone.
Proof. intros E. unfold tick; simpl. rewrite E. reflexivity. Qed.

Lemma tick_clear_close els ph seg t srem start last S six :
  nth_error S six = None ->
  tickF (mk els true ph FromStash seg t srem start last S six)
  = TCont (mk els false ph NeedInput seg t srem start last [] 0).
Proof. intros E. unfold tick; simpl. rewrite E. reflexivity. Qed.

Lemma tick_clear_move els ph seg t srem start last S six :
  nth_error S six = None ->
  tickF (mk els false ph FromStash seg t srem start last S six)
  = TCont (mk els false ph ToStash seg t srem start last [] 0).
Proof. intros E. unfold tick; simpl. rewrite E. reflexivity. Qed.

(** the last iteration on a segment: the rest of the segment, then [get_input] *)
Lemma tick_final_W els cp ph seg t srem start last S six :
  (p_rem ph <? srem) = false ->
  tickF (mk els cp ph Working seg t srem start last S six)
  = let s' := gil els (mk els cp (ph_final ph srem) Working seg t srem start last S six) in
    match final_els seg t ph with
    | el :: _ => TEmit el s'
    | [] => TCont s'
    end.
Proof.
  intros E. destruct ph as [ix rem act]. unfold mkg, tick, step, final_els, ph_final; simpl in *. rewrite E.
  destruct act; reflexivity.
Qed.

Lemma tick_final_S els cp ph seg t srem start last e S six :
  (p_rem ph <? srem) = false -> p_act ph = true ->
  tickF (mk els cp ph ToStash seg t srem start last (e :: S) six)
  = TCont (gil els (mk els cp (ph_final ph srem) ToStash seg t srem start last ((e :: S) ++ final_els seg t ph) six)).
Proof.
  intros E A. destruct ph as [ix rem act]. simpl in A; subst act.
  unfold mkg, tick, step, final_els, ph_final; simpl in *. rewrite E. reflexivity.
Qed.

(** the iteration in state NeedInput *)
Definition after_need (s' : DSt) : DSt :=
  if is_NeedInput (state s') then set_state ToStash s' else s'.

Lemma tick_need els ph seg t srem start last S six :
  tickF (mk els false ph NeedInput seg t srem start last S six)
  = let s' := gil els (mk els false ph NeedInput seg t srem start last S six) in
    if input_done s' then TDone else TCont (after_need s').
Proof.
  unfold tick, after_need; simpl. unfold get_input; simpl.
  match goal with |- context [input_done ?x] => destruct (input_done x) end; auto.
  match goal with |- context [is_NeedInput ?x] => destruct (is_NeedInput x) end; auto.
Qed.


(** ** The incremental form of the specification *)

(** what is known about the sub-path being dashed: nothing emitted yet / the first dash is still
    unbroken and withheld / the first dash (possibly empty) is complete and withheld *)
Inductive Mode := Fresh | Stashing (S : list (PathEl T)) | Broken (S : list (PathEl T)).

Definition mode0 (m : Mode) (ph : Phase T) (seg : PathSeg T) : Mode :=
  match m with
  | Fresh => if p_act ph then Stashing [MoveTo (seg_start seg)] else Broken []
  | _ => m
  end.

Definition spec_seg (fuel : nat) (seg : PathSeg T) (m : Mode) (ph : Phase T)
  : option (list (PathEl T) * Mode * Phase T) :=
  match seg_switches fuel seg f0 (arclen seg) ph with
  | None => None
  | Some (sw, t', srem', phm) =>
      let fin := final_els seg t' phm in
      let ph' := ph_final phm srem' in
      Some (match mode0 m ph seg with
            | Stashing l =>
                match sw with
                | [] => ([], Stashing (l ++ fin), ph')
                | e :: r => (r ++ fin, Broken (l ++ [e]), ph')
                end
            | Broken l => (sw ++ fin, Broken l, ph')
            | Fresh => ([], Fresh, ph')
            end)
  end.

Definition flush_open (m : Mode) : list (PathEl T) :=
  match m with Fresh => [] | Stashing l => l | Broken l => l end.
Definition flush_closed (m : Mode) (ph : Phase T) : list (PathEl T) :=
  match m with
  | Fresh => []
  | Stashing l => l ++ [ClosePath]
  | Broken l => if p_act ph then tl l else l
  end.

Fixpoint spec_go (fuel : nat) (els : list (PathEl T)) (start last : Point T) (m : Mode) (ph : Phase T)
  : option (list (PathEl T)) :=
  match els with
  | [] => Some (flush_open m)
  | MoveTo p :: r =>
      match spec_go fuel r p p Fresh init with
      | Some o => Some (flush_open m ++ o)
      | None => None
      end
  | ClosePath :: r =>
      if pt_neb last start then
        match spec_seg fuel (SegLine (mkLine last start)) m ph with
        | None => None
        | Some (o1, m', ph') =>
            match spec_go fuel r start start Fresh init with
            | Some o => Some (o1 ++ flush_closed m' ph' ++ o)
            | None => None
            end
        end
      else
        match spec_go fuel r start last Fresh init with
        | Some o => Some (flush_closed m ph ++ o)
        | None => None
        end
  | e :: r =>
      match el_seg last e with
      | Some (seg, p1) =>
          match spec_seg fuel seg m ph with
          | None => None
          | Some (o1, m', ph') =>
              match spec_go fuel r start p1 m' ph' with
              | Some o => Some (o1 ++ o)
              | None => None
              end
          end
      | None => None
      end
  end.

(** ** Machine states that correspond to the incremental specification *)

(** [Cfg cp s W m P start last ph els]: [s] is about to run [get_input] on [els]
    ([W]: from the NeedInput arm of [next]); [P] is still to be replayed from the stash *)
Inductive Cfg : bool -> DSt -> bool -> Mode -> list (PathEl T) -> Point T -> Point T -> Phase T
                -> list (PathEl T) -> Prop :=
| cfg_stashing cp els ph seg t srem start last e S :
    p_act ph = true ->
    Cfg cp (mk els cp ph ToStash seg t srem start last (e :: S) 0) false (Stashing (e :: S)) [] start last ph els
| cfg_broken cp els ph seg t srem start last S :
    (S <> [] \/ p_act init = false) ->
    Cfg cp (mk els cp ph Working seg t srem start last S 0) false (Broken S) [] start last ph els
| cfg_fresh_flush els seg t srem start last e P :
    pt_neb last start = false ->
    Cfg false (mk els false init FromStash seg t srem start last (e :: P) 0) false Fresh (e :: P) start last init els
| cfg_fresh_need els seg t srem start last :
    pt_neb last start = false ->
    Cfg false (mk els false init NeedInput seg t srem start last [] 0) true Fresh [] start last init els
| cfg_fresh_working els seg t srem start last :
    pt_neb last start = false ->
    p_act init = false ->
    Cfg false (mk els false init Working seg t srem start last [] 0) false Fresh [] start last init els.

Definition After (W : bool) (s' : DSt) (o : list (PathEl T)) (n : nat) : Prop :=
  if W then (if input_done s' then o = [] /\ n = 0%nat else Runs (after_need s') o n)
  else Runs s' o n.

(** ** One segment *)

Lemma seg_W fuel r cp seg start last S : forall t srem ph sw t' srem' phm,
  seg_switches fuel seg t srem ph = Some (sw, t', srem', phm) ->
  forall o n,
  Runs (gil r (mk r cp (ph_final phm srem') Working seg t' srem' start last S 0)) o n ->
  Runs (mk r cp ph Working seg t srem start last S 0) (sw ++ final_els seg t' phm ++ o) (length sw + (1 + n)).
Proof.
  intros t srem ph sw t' srem' phm Hs o n Hr.
  eapply steps_Runs. { eapply steps_switches_W; eauto. }
  pose proof (seg_switches_final _ _ _ _ _ Hs) as Hf.
  pose proof (tick_final_W r cp phm seg t' srem' start last S 0 Hf) as Ht. cbv zeta in Ht.
  destruct (final_els seg t' phm) as [|el l] eqn:Ef.
  - simpl. change (Runs (mk r cp phm Working seg t' srem' start last S 0) ([] ++ o) (1 + n)).
    eapply steps_Runs; [eapply steps_one_cont; eauto|exact Hr].
  - assert (l = []). { unfold final_els in Ef. destruct (p_act phm); inversion Ef; auto. } subst l.
    change (Runs (mk r cp phm Working seg t' srem' start last S 0) ([el] ++ o) (1 + n)).
    eapply steps_Runs; [eapply steps_one_emit; eauto|exact Hr].
Qed.


Lemma seg_switches_nil fuel seg t srem ph t' srem' phm :
  seg_switches fuel seg t srem ph = Some ([], t', srem', phm) ->
  t' = t /\ srem' = srem /\ phm = ph /\ (p_rem ph <? srem) = false.
Proof.
  destruct fuel; simpl; destruct (p_rem ph <? srem) eqn:E; try discriminate.
  - intros X; inversion X; auto.
  - destruct (seg_switches fuel seg (switch_t seg t ph) (srem - p_rem ph) (ph_next ph)) as [[[[a b] c] d]|]; discriminate.
  - intros X; inversion X; auto.
Qed.

Lemma seg_switches_cons fuel seg t srem ph x rest t' srem' phm :
  seg_switches fuel seg t srem ph = Some (x :: rest, t', srem', phm) ->
  (p_rem ph <? srem) = true /\ x = switch_el seg t ph /\
  exists f, seg_switches f seg (switch_t seg t ph) (srem - p_rem ph) (ph_next ph) = Some (rest, t', srem', phm).
Proof.
  destruct fuel; simpl; destruct (p_rem ph <? srem) eqn:E; try discriminate.
  destruct (seg_switches fuel seg (switch_t seg t ph) (srem - p_rem ph) (ph_next ph)) as [[[[a b] c] d]|] eqn:E2; [|discriminate].
  intros X; inversion X; subst. repeat split; auto. exists fuel; auto.
Qed.

(** number of withheld elements: each has been stashed in one iteration and costs one more *)
Definition wt (m : Mode) : nat := length (flush_open m).

(** a segment while the first dash is still unbroken *)
Lemma seg_stashing fuel cp r seg start last ph e S t srem sw t' srem' phm :
  p_act ph = true ->
  seg_switches fuel seg t srem ph = Some (sw, t', srem', phm) ->
  let fin := final_els seg t' phm in
  let ph' := ph_final phm srem' in
  let s := mk r cp ph ToStash seg t srem start last (e :: S) 0 in
  match sw with
  | [] => exists k sF, Cfg cp sF false (Stashing ((e :: S) ++ fin)) [] start last ph' r /\
            (forall o n, Runs (gil r sF) o n -> Runs s ([] ++ o) (k + n)) /\ (k <= 1)%nat
  | x :: rest => exists k sF, Cfg cp sF false (Broken ((e :: S) ++ [x])) [] start last ph' r /\
            (forall o n, Runs (gil r sF) o n -> Runs s ((rest ++ fin) ++ o) (k + n)) /\
            (k <= length rest + 2)%nat
  end.
Proof.
  intros A Hs fin ph' s. destruct sw as [|x rest].
  - apply seg_switches_nil in Hs. destruct Hs as (-> & -> & -> & Hf).
    exists 1%nat. eexists. split; [|split; [|lia]].
    + simpl. eapply cfg_stashing. exact A.
    + intros o n Hr. eapply steps_Runs; [|exact Hr].
      eapply steps_one_cont. subst s. rewrite (tick_final_S r cp ph seg t srem start last e S 0 Hf A). reflexivity.
  - apply seg_switches_cons in Hs. destruct Hs as (Hc & -> & f & Hs).
    exists (1 + (length rest + 1))%nat. eexists. split; [|split; [|lia]].
    + eapply cfg_broken. left. destruct S; discriminate.
    + intros o n Hr. replace (1 + (length rest + 1) + n)%nat with (1 + (length rest + (1 + n)))%nat by lia.
      change ((rest ++ fin) ++ o) with ([] ++ ((rest ++ fin) ++ o)).
      eapply steps_Runs. { eapply steps_one_cont. subst s. apply tick_switch_S; auto. }
      rewrite <- app_assoc. eapply seg_W; eauto.
Qed.

(** a segment once the first dash is complete *)
Lemma seg_broken fuel cp r seg start last ph S t srem sw t' srem' phm :
  (S <> [] \/ p_act init = false) ->
  seg_switches fuel seg t srem ph = Some (sw, t', srem', phm) ->
  exists k sF, Cfg cp sF false (Broken S) [] start last (ph_final phm srem') r /\
    (forall o n, Runs (gil r sF) o n ->
      Runs (mk r cp ph Working seg t srem start last S 0) ((sw ++ final_els seg t' phm) ++ o) (k + n)) /\
    (k <= length sw + 1)%nat.
Proof.
  intros HS Hs. exists (length sw + 1)%nat. eexists. split; [|split; [|lia]].
  - eapply cfg_broken. exact HS.
  - intros o n Hr. replace (length sw + 1 + n)%nat with (length sw + (1 + n))%nat by lia.
    rewrite <- app_assoc. eapply seg_W; eauto.
Qed.

(** the states in which a freshly loaded segment is met *)
Inductive LCfg (cp : bool) (r : list (PathEl T)) (seg : PathSeg T) (start last : Point T)
  : DSt -> Mode -> Phase T -> Prop :=
| l_stashing ph e S : p_act ph = true ->
    LCfg cp r seg start last (mk r cp ph ToStash seg f0 (arclen seg) start last (e :: S) 0) (Stashing (e :: S)) ph
| l_broken ph S : (S <> [] \/ p_act init = false) ->
    LCfg cp r seg start last (mk r cp ph Working seg f0 (arclen seg) start last S 0) (Broken S) ph
| l_fresh_tostash :
    LCfg cp r seg start last (mk r cp init ToStash seg f0 (arclen seg) start last [] 0) Fresh init
| l_fresh_working : p_act init = false ->
    LCfg cp r seg start last (mk r cp init Working seg f0 (arclen seg) start last [] 0) Fresh init.

Lemma seg_cfg fuel cp r seg start last s m ph o1 m' ph' :
  LCfg cp r seg start last s m ph ->
  spec_seg fuel seg m ph = Some (o1, m', ph') ->
  exists k sF, Cfg cp sF false m' [] start last ph' r /\
    (forall o n, Runs (gil r sF) o n -> Runs s (o1 ++ o) (k + n)) /\
    (k + wt m <= length o1 + wt m' + 2)%nat.
Proof.
  intros HL Hs. unfold spec_seg in Hs.
  destruct (seg_switches fuel seg f0 (arclen seg) ph) as [[[[sw t'] srem'] phm]|] eqn:E; [|discriminate].
  destruct HL as [ph e S A|ph S HS| |A].
  - simpl in Hs. pose proof (@seg_stashing fuel cp r seg start last ph e S _ _ _ _ _ _ A E) as L. cbv zeta in L.
    destruct sw as [|x rest]; inversion Hs; subst; destruct L as (k & sF & HC & HR & HB);
      exists k, sF; (split; [exact HC|split; [exact HR|]]); unfold wt; simpl; rewrite ?app_length; simpl; lia.
  - simpl in Hs. inversion Hs; subst.
    destruct (@seg_broken fuel cp r seg start last ph S _ _ _ _ _ _ HS E) as (k & sF & HC & HR & HB).
    exists k, sF. split; [exact HC|split; [exact HR|]]. unfold wt; simpl. rewrite app_length. lia.
  - simpl in Hs. destruct (p_act init) eqn:A.
    + pose proof (@seg_stashing fuel cp r seg start last init (MoveTo (seg_start seg)) [] _ _ _ _ _ _ A E) as L. cbv zeta in L.
      destruct sw as [|x rest]; inversion Hs; subst.
      * destruct L as (k & sF & HC & HR & HB). exists (1 + k)%nat, sF. split; [exact HC|split].
        { intros o n Hr. specialize (HR o n Hr).
          replace (1 + k + n)%nat with (1 + (k + n))%nat by lia.
          change ([] ++ o) with ([] ++ ([] ++ o)).
          eapply steps_Runs; [|exact HR]. eapply steps_one_cont. apply tick_first_on; auto. }
        { unfold wt; simpl. lia. }
      * destruct L as (k & sF & HC & HR & HB). exists (1 + k)%nat, sF. split; [exact HC|split].
        { intros o n Hr. specialize (HR o n Hr).
          replace (1 + k + n)%nat with (1 + (k + n))%nat by lia.
          change ((rest ++ final_els seg t' phm) ++ o) with ([] ++ ((rest ++ final_els seg t' phm) ++ o)).
          eapply steps_Runs; [|exact HR]. eapply steps_one_cont. apply tick_first_on; auto. }
        { unfold wt; simpl. rewrite app_length. lia. }
    + inversion Hs; subst.
      destruct (@seg_broken fuel cp r seg start last init [] _ _ _ _ _ _ (or_intror A) E) as (k & sF & HC & HR & HB).
      exists (1 + k)%nat, sF. split; [exact HC|split].
      { intros o n Hr. specialize (HR o n Hr).
        replace (1 + k + n)%nat with (1 + (k + n))%nat by lia.
        change ((sw ++ final_els seg t' phm) ++ o) with ([] ++ ((sw ++ final_els seg t' phm) ++ o)).
        eapply steps_Runs; [|exact HR]. eapply steps_one_cont. apply tick_first_off; auto. }
      { unfold wt; simpl. rewrite app_length. lia. }
  - simpl in Hs. rewrite A in Hs. inversion Hs; subst.
    destruct (@seg_broken fuel cp r seg start last init [] _ _ _ _ _ _ (or_intror A) E) as (k & sF & HC & HR & HB).
    exists k, sF. split; [exact HC|split; [exact HR|]]. unfold wt; simpl. rewrite app_length. lia.
Qed.

(** ** Closing, ending *)

Lemma need_run els ph seg t srem start last o n :
  After true (gil els (mk els false ph NeedInput seg t srem start last [] 0)) o n ->
  Runs (mk els false ph NeedInput seg t srem start last [] 0) o (1 + n).
Proof.
  unfold After. intros HA.
  pose proof (tick_need els ph seg t srem start last [] 0) as Ht. cbv zeta in Ht.
  destruct (input_done (gil els (mk els false ph NeedInput seg t srem start last [] 0))).
  - destruct HA as [-> ->]. apply Runs_done. exact Ht.
  - change o with ([] ++ o). eapply steps_Runs; [|exact HA]. eapply steps_one_cont. exact Ht.
Qed.

(** after [handle_closepath]: replay the stash from [six], then back to NeedInput *)
Lemma close_from r seg t srem start last L six o n :
  Runs (mk r false init NeedInput seg t srem start last [] 0) o n ->
  Runs (mk r true init FromStash seg t srem start last L six) (skipn six L ++ o) (length (skipn six L) + (1 + n)).
Proof.
  intros Hr. eapply steps_Runs. { apply steps_replay. }
  change o with ([] ++ o). eapply steps_Runs; [|exact Hr].
  eapply steps_one_cont. apply tick_clear_close. apply nth_error_after_replay.
Qed.

Lemma final_from ph seg t srem start last L six :
  Runs (mkg true [] false ph FromStash seg t srem start last L six) (skipn six L) (length (skipn six L) + 1).
Proof.
  rewrite <- (app_nil_r (skipn six L)) at 1.
  eapply steps_Runs. { apply steps_replay. }
  apply Runs_done. apply tick_clear_done. apply nth_error_after_replay.
Qed.

Lemma close_cfg r sF m start last ph :
  Cfg true sF false m [] start last ph r ->
  exists k seg t srem, (forall o n,
    Runs (mk r false init NeedInput seg t srem start last [] 0) o n ->
    Runs (gil r sF) (flush_closed m ph ++ o) (k + n)) /\ (k <= length (flush_closed m ph) + 1)%nat.
Proof.
  intros HC. inversion HC; subst.
  - rewrite gil_pending, hc_tostash.
    eexists. exists seg, f0, srem. split.
    + intros o n Hr.
      pose proof (@close_from r seg f0 srem start last ((e :: S) ++ [ClosePath]) 0 o n Hr) as L. simpl skipn in L.
      simpl flush_closed. rewrite <- Nat.add_assoc. exact L.
    + simpl. lia.
  - rewrite gil_pending, hc_working.
    assert (E : skipn (if p_act ph then 1%nat else 0%nat) S = if p_act ph then tl S else S).
    { destruct (p_act ph); [destruct S|]; reflexivity. }
    exists (length (if p_act ph then tl S else S) + 1)%nat, seg, f0, srem. split.
    + intros o n Hr.
      pose proof (@close_from r seg f0 srem start last S (if p_act ph then 1%nat else 0%nat) o n Hr) as L.
      simpl flush_closed. rewrite E in L. rewrite <- Nat.add_assoc. exact L.
    + simpl. lia.
Qed.

(** ** From a configuration to a loaded segment *)

Definition loaded (cp : bool) (r : list (PathEl T)) (seg : PathSeg T) (p1 : Point T) (s : DSt) : DSt :=
  mkDS r false cp (dash_ix s) (is_active s) (state s) seg f0 (dash_remaining s) (arclen seg)
       (start_pt s) p1 (stash s) (stash_ix s).

Lemma load_cfg r seg p1 s W m P start last ph els0 :
  Cfg false s W m P start last ph els0 ->
  exists k sl, LCfg false r seg start p1 sl m ph /\
    (forall o n, Runs sl o n -> After W (loaded false r seg p1 s) (P ++ o) (k + n)) /\
    (k <= length P + 1)%nat.
Proof.
  intros HC. inversion HC; subst; unfold loaded; simpl.
  - exists 0%nat. eexists. split; [|split; [|lia]]. { apply l_stashing; eauto. } intros o n Hr. exact Hr.
  - exists 0%nat. eexists. split; [|split; [|lia]]. { apply l_broken; eauto. } intros o n Hr. exact Hr.
  - exists (length (e :: P0) + 1)%nat. eexists. split; [|split; [|simpl; lia]]. { apply l_fresh_tostash. }
    intros o n Hr. unfold After.
    change (Runs (mk r false init FromStash seg f0 (arclen seg) start p1 (e :: P0) 0) ((e :: P0) ++ o) (length (e :: P0) + 1 + n)).
    rewrite <- Nat.add_assoc.
    eapply steps_Runs. { apply (steps_replay false r false init seg f0 (arclen seg) start p1 (e :: P0) 0). }
    change o with ([] ++ o). eapply steps_Runs; [|exact Hr].
    eapply steps_one_cont. apply tick_clear_move. apply (nth_error_after_replay (e :: P0) 0).
  - exists 0%nat. eexists. split; [|split; [|lia]]. { apply l_fresh_tostash. } intros o n Hr. exact Hr.
  - exists 0%nat. eexists. split; [|split; [|lia]]. { apply l_fresh_working; auto. } intros o n Hr. exact Hr.
Qed.

Lemma gil_seg_loaded e r seg' p1 s W m P start last ph els0 :
  Cfg false s W m P start last ph els0 ->
  el_seg last e = Some (seg', p1) ->
  gil (e :: r) s = loaded false r seg' p1 s.
Proof. intros HC E. inversion HC; subst; erewrite gil_seg by eauto; reflexivity. Qed.

(** ** The main simulation, with the count of iterations *)

(** iterations still to come, against what they will emit and consume *)
Definition bound (n : nat) (m : Mode) (P out els : list (PathEl T)) : Prop :=
  (n + wt m + length P <= 2 * length (P ++ out) + 5 * length els + 1)%nat.

Definition IHyp (fuel : nat) (r : list (PathEl T)) : Prop :=
  forall s W m P start last ph out,
    Cfg false s W m P start last ph r ->
    spec_go fuel r start last m ph = Some out ->
    exists n, After W (gil r s) (P ++ out) n /\ bound n m P out r.

Lemma step_seg fuel e r seg p1 s W m P start last ph els0 o1 m' ph' o :
  IHyp fuel r ->
  Cfg false s W m P start last ph els0 ->
  el_seg last e = Some (seg, p1) ->
  spec_seg fuel seg m ph = Some (o1, m', ph') ->
  spec_go fuel r start p1 m' ph' = Some o ->
  exists n, After W (gil (e :: r) s) (P ++ o1 ++ o) n /\ bound n m P (o1 ++ o) (e :: r).
Proof.
  intros IH HC Eseg Hs Hg.
  rewrite (@gil_seg_loaded e r seg p1 _ _ _ _ _ _ _ _ HC Eseg).
  destruct (@load_cfg r seg p1 _ _ _ _ _ _ _ _ HC) as (k1 & sl & HL & HR1 & HB1).
  edestruct seg_cfg as (k2 & sF & HC2 & HR2 & HB2); [exact HL|exact Hs|].
  edestruct IH as (n & HA & HB); [exact HC2|exact Hg|]. unfold After in HA. simpl in HA.
  exists (k1 + (k2 + n))%nat. split. { apply HR1. apply HR2. exact HA. }
  unfold bound in *. simpl in HB. rewrite !app_length in *. simpl. lia.
Qed.

Lemma step_move fuel p r s W m P start last ph els0 o :
  IHyp fuel r ->
  Cfg false s W m P start last ph els0 ->
  spec_go fuel r p p Fresh init = Some o ->
  exists n, After W (gil (MoveTo p :: r) s) (P ++ flush_open m ++ o) n /\
            bound n m P (flush_open m ++ o) (MoveTo p :: r).
Proof.
  intros IH HC Hg. inversion HC; subst; rewrite gil_move; simpl.
  - edestruct IH as (n & HA & HB); [eapply cfg_fresh_flush; apply pt_neb_refl|exact Hg|].
    exists n. split; [exact HA|]. unfold bound, wt in *. simpl in *. rewrite !app_length in *. simpl in *. lia.
  - destruct S as [|e S'].
    + destruct H0 as [H0|H0]; [congruence|].
      edestruct IH as (n & HA & HB); [eapply cfg_fresh_working; [apply pt_neb_refl|exact H0]|exact Hg|].
      exists n. split; [exact HA|]. unfold bound, wt in *. simpl in *. lia.
    + edestruct IH as (n & HA & HB); [eapply cfg_fresh_flush; apply pt_neb_refl|exact Hg|].
      exists n. split; [exact HA|]. unfold bound, wt in *. simpl in *. rewrite !app_length in *. simpl in *. lia.
  - edestruct IH as (n & HA & HB); [eapply cfg_fresh_flush; apply pt_neb_refl|exact Hg|].
    exists n. split; [exact HA|]. unfold bound, wt in *. simpl in *. rewrite !app_length in *. simpl in *. lia.
  - edestruct IH as (n & HA & HB); [eapply cfg_fresh_need; apply pt_neb_refl|exact Hg|].
    exists n. split; [exact HA|]. unfold bound, wt in *. simpl in *. lia.
  - edestruct IH as (n & HA & HB); [eapply cfg_fresh_working; [apply pt_neb_refl|assumption]|exact Hg|].
    exists n. split; [exact HA|]. unfold bound, wt in *. simpl in *. lia.
Qed.

Lemma step_nil s W m P start last ph els0 :
  Cfg false s W m P start last ph els0 ->
  exists n, After W (gil [] s) (P ++ flush_open m) n /\ bound n m P (flush_open m) [].
Proof.
  intros HC. inversion HC; subst; rewrite gil_nil; simpl.
  - eexists. split; [apply (final_from ph seg t srem start last (e :: S) 0)|]. unfold bound, wt; simpl. lia.
  - eexists. split; [apply (final_from ph seg t srem start last S 0)|]. unfold bound, wt; simpl. lia.
  - eexists. split; [rewrite app_nil_r; apply (final_from init seg t srem start last (e :: P0) 0)|].
    unfold bound, wt; simpl. rewrite app_nil_r. lia.
  - exists 0%nat. split; [split; reflexivity|]. unfold bound, wt; simpl. lia.
  - eexists. split; [apply (final_from init seg t srem start last [] 0)|]. unfold bound, wt; simpl. lia.
Qed.

Lemma after_close fuel r seg t srem start last o :
  IHyp fuel r ->
  pt_neb last start = false ->
  spec_go fuel r start last Fresh init = Some o ->
  exists n, Runs (mk r false init NeedInput seg t srem start last [] 0) o n /\
            (n <= 2 * length o + 5 * length r + 2)%nat.
Proof.
  intros IH E Hg.
  edestruct IH as (n & HA & HB); [eapply cfg_fresh_need; exact E|exact Hg|].
  exists (1 + n)%nat. split; [apply need_run; exact HA|]. unfold bound, wt in HB. simpl in HB. lia.
Qed.

Lemma skipn_if (b : bool) (S : list (PathEl T)) :
  skipn (if b then 1%nat else 0%nat) S = if b then tl S else S.
Proof. destruct b; [destruct S|]; reflexivity. Qed.

Lemma step_close_direct fuel r s W m P start last ph els0 o :
  IHyp fuel r ->
  Cfg false s W m P start last ph els0 ->
  pt_neb last start = false ->
  spec_go fuel r start last Fresh init = Some o ->
  exists n, After W (gil (ClosePath :: r) s) (P ++ flush_closed m ph ++ o) n /\
            bound n m P (flush_closed m ph ++ o) (ClosePath :: r).
Proof.
  intros IH HC E Hg. inversion HC; subst; rewrite (gil_close_direct _ _ _ _ _ _ _ _ _ _ _ E).
  - rewrite hc_tostash.
    destruct (@after_close fuel r seg f0 srem start last o IH E Hg) as (n & Hr & Hn).
    eexists. split; [simpl; apply (@close_from r seg f0 srem start last ((e :: S) ++ [ClosePath]) 0 o n Hr)|].
    unfold bound, wt. simpl. rewrite !app_length. simpl. lia.
  - rewrite hc_working.
    destruct (@after_close fuel r seg f0 srem start last o IH E Hg) as (n & Hr & Hn).
    pose proof (@close_from r seg f0 srem start last S (if p_act ph then 1%nat else 0%nat) o n Hr) as L.
    rewrite skipn_if in L.
    eexists. split; [simpl; exact L|].
    unfold bound, wt. simpl. rewrite !app_length.
    assert (length S <= length (if p_act ph then tl S else S) + 1)%nat by (destruct (p_act ph), S; simpl; lia).
    lia.
  - rewrite hc_fromstash.
    destruct (@after_close fuel r seg f0 srem start last o IH E Hg) as (n & Hr & Hn).
    eexists. split; [simpl; apply (@close_from r seg f0 srem start last (e :: P0) 0 o n Hr)|].
    unfold bound, wt. simpl. rewrite !app_length. simpl. lia.
  - rewrite hc_need.
    destruct (@after_close fuel r seg f0 srem start last o IH E Hg) as (n & Hr & Hn).
    eexists. split; [simpl; apply (@close_from r seg f0 srem start last [] 0 o n Hr)|].
    unfold bound, wt. simpl. lia.
  - rewrite hc_working. rewrite H1.
    destruct (@after_close fuel r seg f0 srem start last o IH E Hg) as (n & Hr & Hn).
    eexists. split; [simpl; apply (@close_from r seg f0 srem start last [] 0 o n Hr)|].
    unfold bound, wt. simpl. lia.
Qed.

Lemma flush_closed_wt (m : Mode) (ph : Phase T) : (wt m <= length (flush_closed m ph) + 1)%nat.
Proof. unfold wt. destruct m as [|l|l]; simpl; [lia|rewrite app_length; simpl; lia|]. destruct (p_act ph), l; simpl; lia. Qed.

Lemma step_close_seg fuel r s W m P start last ph els0 o1 m' ph' o :
  IHyp fuel r ->
  Cfg false s W m P start last ph els0 ->
  pt_neb last start = true ->
  spec_seg fuel (SegLine (mkLine last start)) m ph = Some (o1, m', ph') ->
  spec_go fuel r start start Fresh init = Some o ->
  exists n, After W (gil (ClosePath :: r) s) (P ++ o1 ++ flush_closed m' ph' ++ o) n /\
            bound n m P (o1 ++ flush_closed m' ph' ++ o) (ClosePath :: r).
Proof.
  intros IH HC E Hs Hg.
  pose proof (flush_closed_wt m' ph') as Hw.
  inversion HC; subst; try congruence; rewrite (gil_close_seg _ _ _ _ _ _ _ _ _ _ _ E).
  - edestruct seg_cfg as (k2 & sF & HC2 & HR2 & HB2); [eapply l_stashing|exact Hs|]; [eassumption|].
    destruct (close_cfg HC2) as (k3 & seg3 & t3 & srem3 & HR3 & HB3).
    destruct (@after_close fuel r seg3 t3 srem3 start start o IH (pt_neb_refl start) Hg) as (n & Hr & Hn).
    exists (k2 + (k3 + n))%nat. split; [simpl; apply HR2; apply HR3; exact Hr|].
    unfold bound. simpl. rewrite !app_length. simpl. lia.
  - edestruct seg_cfg as (k2 & sF & HC2 & HR2 & HB2); [eapply l_broken|exact Hs|]; [eassumption|].
    destruct (close_cfg HC2) as (k3 & seg3 & t3 & srem3 & HR3 & HB3).
    destruct (@after_close fuel r seg3 t3 srem3 start start o IH (pt_neb_refl start) Hg) as (n & Hr & Hn).
    exists (k2 + (k3 + n))%nat. split; [simpl; apply HR2; apply HR3; exact Hr|].
    unfold bound. simpl. rewrite !app_length. simpl. lia.
Qed.

Lemma main_sim fuel : forall els, IHyp fuel els.
Proof.
  induction els as [|e r IH]; unfold IHyp; intros s W m P start last ph out HC Hg.
  - simpl in Hg. inversion Hg; subst. eapply step_nil; eauto.
  - destruct e as [p|p1|p1 p2|p1 p2 p3|].
    + simpl in Hg. destruct (spec_go fuel r p p Fresh init) as [o|] eqn:Eg; [|discriminate].
      inversion Hg; subst. eapply step_move; eauto.
    + simpl in Hg.
      destruct (spec_seg fuel (SegLine (mkLine last p1)) m ph) as [[[o1 m'] ph']|] eqn:Es; [|discriminate].
      destruct (spec_go fuel r start p1 m' ph') as [o|] eqn:Eg; [|discriminate].
      inversion Hg; subst. eapply step_seg; eauto. reflexivity.
    + simpl in Hg.
      destruct (spec_seg fuel (SegQuad (mkQuad last p1 p2)) m ph) as [[[o1 m'] ph']|] eqn:Es; [|discriminate].
      destruct (spec_go fuel r start p2 m' ph') as [o|] eqn:Eg; [|discriminate].
      inversion Hg; subst. eapply step_seg; eauto. reflexivity.
    + simpl in Hg.
      destruct (spec_seg fuel (SegCubic (mkCubic last p1 p2 p3)) m ph) as [[[o1 m'] ph']|] eqn:Es; [|discriminate].
      destruct (spec_go fuel r start p3 m' ph') as [o|] eqn:Eg; [|discriminate].
      inversion Hg; subst. eapply step_seg; eauto. reflexivity.
    + simpl in Hg. destruct (pt_neb last start) eqn:E.
      * destruct (spec_seg fuel (SegLine (mkLine last start)) m ph) as [[[o1 m'] ph']|] eqn:Es; [|discriminate].
        destruct (spec_go fuel r start start Fresh init) as [o|] eqn:Eg; [|discriminate].
        inversion Hg; subst. eapply step_close_seg; eauto.
      * destruct (spec_go fuel r start last Fresh init) as [o|] eqn:Eg; [|discriminate].
        inversion Hg; subst. eapply step_close_direct; eauto.
Qed.

(** the whole run from the initial state, and how many iterations of [next] it takes at most *)
Theorem machine_spec_go fuel els out :
  spec_go fuel els origin origin Fresh init = Some out ->
  exists n, Runs (init_state init els) out n /\ (n <= 2 * length out + 5 * length els + 2)%nat.
Proof.
  intros Hg.
  pose proof (@main_sim fuel els) as M. unfold IHyp in M.
  edestruct M as (n & HA & HB); [eapply cfg_fresh_need; apply pt_neb_refl|exact Hg|].
  exists (1 + n)%nat. split; [apply need_run; exact HA|].
  unfold bound, wt in HB. simpl in HB. lia.
Qed.

End Sim.
