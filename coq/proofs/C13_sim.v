(** C13, part 1: the four-state machine of model/Dash.v (all repairs on) computes exactly the
    structural specification [dash_spec_from] of spec/DashSpec.v — for every element list,
    over any scalar (nothing here depends on arithmetic). *)
From Coq Require Import ZArith List Bool Arith Lia.
From KV Require Import Scalar Geom Curves Path Dash DashSpec.
Import ListNotations.

Set Implicit Arguments.

Section Sim.
Context {T : Type} `{Scalar T}.
Local Open Scope S_scope.

Variable arclen : PathSeg T -> T.
Variable inv_arclen : PathSeg T -> T -> T.
Variable dashes : list T.
Variable init : Phase T.

Notation DSt := (DS T).
Notation tickF := (tick arclen inv_arclen fixes_all dashes init).
Notation runF := (run arclen inv_arclen fixes_all dashes init).
Notation stepF := (step arclen inv_arclen fixes_all dashes init).
Notation gil := (get_input_loop arclen fixes_all init).

(** ** Executions *)

(** [steps s k o s']: [k] iterations of [next]'s loop, none of them the last, take [s] to [s']
    and emit [o] *)
Inductive steps : DSt -> nat -> list (PathEl T) -> DSt -> Prop :=
| steps_0 s : steps s 0 [] s
| steps_cont s s' k o s'' : tickF s = TCont s' -> steps s' k o s'' -> steps s (S k) o s''
| steps_emit s el s' k o s'' : tickF s = TEmit el s' -> steps s' k o s'' -> steps s (S k) (el :: o) s''.

Lemma steps_trans s k o s' k' o' s'' :
  steps s k o s' -> steps s' k' o' s'' -> steps s (k + k') (o ++ o') s''.
Proof.
  induction 1; intros; simpl; auto.
  - eapply steps_cont; eauto.
  - eapply steps_emit; eauto.
Qed.

Lemma steps_one_cont s s' : tickF s = TCont s' -> steps s 1 [] s'.
Proof. intros; eapply steps_cont; eauto; constructor. Qed.
Lemma steps_one_emit s el s' : tickF s = TEmit el s' -> steps s 1 [el] s'.
Proof. intros; eapply steps_emit; eauto; constructor. Qed.

(** [Runs s o n]: from [s] the iterator emits exactly [o] and ends, in [n] iterations *)
Definition Runs (s : DSt) (o : list (PathEl T)) (n : nat) : Prop := runF n s = Some (o, n).

Lemma run_mono f s r : runF f s = Some r -> forall g, (f <= g)%nat -> runF g s = Some r.
Proof.
  revert s r; induction f; intros s r Hr g Hg; simpl in Hr; [discriminate|].
  destruct g; [lia|]. simpl.
  destruct (tickF s); auto.
  - destruct (runF f s0) eqn:E; [|discriminate].
    rewrite (IHf _ _ E g) by lia. exact Hr.
  - destruct (runF f s0) eqn:E; [|discriminate].
    rewrite (IHf _ _ E g) by lia. exact Hr.
Qed.

Lemma Runs_done s : tickF s = TDone -> Runs s [] 1.
Proof. unfold Runs; simpl; intros ->; reflexivity. Qed.

Lemma steps_Runs s k o s' o' n :
  steps s k o s' -> Runs s' o' n -> Runs s (o ++ o') (k + n).
Proof.
  unfold Runs. induction 1; intros; simpl; auto.
  - rewrite H0. rewrite (IHsteps H2). reflexivity.
  - rewrite H0. rewrite (IHsteps H2). reflexivity.
Qed.

Lemma Runs_fuel s o n f : Runs s o n -> (n <= f)%nat -> runF f s = Some (o, n).
Proof. intros; eapply run_mono; eauto. Qed.


(** ** States, written out *)
Definition mk (els : list (PathEl T)) (cp : bool) (ph : Phase T) (st : DashState) (seg : PathSeg T)
    (t srem : T) (start last : Point T) (S : list (PathEl T)) (six : nat) : DSt :=
  mkDS els false cp (p_ix ph) (p_act ph) st seg t (p_rem ph) srem start last S six.

(** the phase after a switch *)
Definition ph_next (ph : Phase T) : Phase T :=
  let ix := next_ix dashes (p_ix ph) in mkPhase ix (nth ix dashes f0) (negb (p_act ph)).

(** the element a switch emits *)
Definition switch_el (seg : PathSeg T) (t : T) (ph : Phase T) : PathEl T :=
  let sub := seg_subsegment seg t f1 in
  let t1 := inv_arclen sub (p_rem ph) in
  if p_act ph then seg_to_el (seg_subsegment sub f0 t1) else MoveTo (seg_eval sub t1).
Definition switch_t (seg : PathSeg T) (t : T) (ph : Phase T) : T :=
  t + inv_arclen (seg_subsegment seg t f1) (p_rem ph) * (f1 - t).

(** [seg_pieces] without the final piece: the switches inside the segment, and where they leave us *)
Fixpoint seg_switches (fuel : nat) (seg : PathSeg T) (t srem : T) (ph : Phase T)
  : option (list (PathEl T) * T * T * Phase T) :=
  if p_rem ph <? srem then
    match fuel with
    | O => None
    | S f =>
        match seg_switches f seg (switch_t seg t ph) (srem - p_rem ph) (ph_next ph) with
        | Some (sw, t', srem', phm) => Some (switch_el seg t ph :: sw, t', srem', phm)
        | None => None
        end
    end
  else Some ([], t, srem, ph).

Definition final_els (seg : PathSeg T) (t : T) (ph : Phase T) : list (PathEl T) :=
  if p_act ph then [seg_to_el (seg_subsegment seg t f1)] else [].
Definition ph_final (ph : Phase T) (srem : T) : Phase T := mkPhase (p_ix ph) (p_rem ph - srem) (p_act ph).

Lemma seg_pieces_switches fuel seg : forall t srem ph,
  seg_pieces inv_arclen dashes fuel seg t srem ph =
  match seg_switches fuel seg t srem ph with
  | None => None
  | Some (sw, t', srem', phm) => Some (sw ++ final_els seg t' phm, length sw, ph_final phm srem')
  end.
Proof.
  induction fuel; intros; simpl.
  - destruct (p_rem ph <? srem); reflexivity.
  - destruct (p_rem ph <? srem); [|reflexivity].
    unfold switch_t, ph_next in *. rewrite IHfuel.
    match goal with |- context [seg_switches fuel ?a ?b ?c ?d] => destruct (seg_switches fuel a b c d) as [[[[sw t'] srem'] phm]|] end;
      reflexivity.
Qed.

Lemma seg_switches_final fuel seg : forall t srem ph sw t' srem' phm,
  seg_switches fuel seg t srem ph = Some (sw, t', srem', phm) -> (p_rem phm <? srem') = false.
Proof.
  induction fuel; intros t srem ph sw t' srem' phm; simpl.
  - destruct (p_rem ph <? srem) eqn:E; [discriminate|]. intros X; inversion X; subst; auto.
  - destruct (p_rem ph <? srem) eqn:E.
    + destruct (seg_switches fuel seg (switch_t seg t ph) (srem - p_rem ph) (ph_next ph)) as [[[[a b] c] d]|] eqn:E2; [|discriminate].
      intros X; inversion X; subst. eapply IHfuel; eauto.
    + intros X; inversion X; subst; auto.
Qed.

(** ** Single iterations *)

(** a switch in state Working *)
Lemma tick_switch_W els cp ph seg t srem start last S six :
  (p_rem ph <? srem) = true ->
  tickF (mk els cp ph Working seg t srem start last S six) =
  TEmit (switch_el seg t ph) (mk els cp (ph_next ph) Working seg (switch_t seg t ph) (srem - p_rem ph) start last S six).
Proof.
  intros E. destruct ph as [ix rem act]. unfold mk, tick, step; simpl in *. rewrite E.
  destruct act; reflexivity.
Qed.

(** a switch in state ToStash with a non-empty stash: the piece is stashed, the dash is broken *)
Lemma tick_switch_S els cp ph seg t srem start last e S six :
  (p_rem ph <? srem) = true -> p_act ph = true ->
  tickF (mk els cp ph ToStash seg t srem start last (e :: S) six) =
  TCont (mk els cp (ph_next ph) Working seg (switch_t seg t ph) (srem - p_rem ph) start last ((e :: S) ++ [switch_el seg t ph]) six).
Proof.
  intros E A. destruct ph as [ix rem act]. simpl in A; subst act.
  unfold mk, tick, step; simpl in *. rewrite E. reflexivity.
Qed.

(** the first iteration on a fresh sub-path in state ToStash *)
Lemma tick_first_on els cp ph seg t srem start last six :
  p_act ph = true ->
  tickF (mk els cp ph ToStash seg t srem start last [] six) =
  TCont (mk els cp ph ToStash seg t srem start last [MoveTo (seg_start seg)] six).
Proof.
  intros A. destruct ph as [ix rem act]. simpl in A; subst act. reflexivity.
Qed.
Lemma tick_first_off els cp ph seg t srem start last six :
  p_act ph = false ->
  tickF (mk els cp ph ToStash seg t srem start last [] six) =
  TCont (mk els cp ph Working seg t srem start last [] six).
Proof.
  intros A. destruct ph as [ix rem act]. simpl in A; subst act. reflexivity.
Qed.

(** all the switches of a segment, in state Working *)
Lemma steps_switches_W fuel seg start last S six els cp : forall t srem ph sw t' srem' phm,
  seg_switches fuel seg t srem ph = Some (sw, t', srem', phm) ->
  steps (mk els cp ph Working seg t srem start last S six) (length sw) sw
        (mk els cp phm Working seg t' srem' start last S six).
Proof.
  induction fuel; intros t srem ph sw t' srem' phm; simpl.
  - destruct (p_rem ph <? srem); [discriminate|]. intros X; inversion X; subst. constructor.
  - destruct (p_rem ph <? srem) eqn:E.
    + destruct (seg_switches fuel seg (switch_t seg t ph) (srem - p_rem ph) (ph_next ph)) as [[[[a b] c] d]|] eqn:E2; [|discriminate].
      intros X; inversion X; subst. simpl.
      eapply steps_emit. { apply tick_switch_W; auto. }
      eapply IHfuel; eauto.
    + intros X; inversion X; subst. constructor.
Qed.

End Sim.
