(** C01: winding number by ray casting — lemmas at the real instance (kurbo's code run in exact
    arithmetic; division is total, [fis_finite = true]: the per-piece lemmas for curved pieces carry the
    guard "leading coefficient non-zero" that the solvers rely on). *)
From Coq Require Import ZArith QArith Reals List Bool Lra Lia Psatz.
From Coquelicot Require Import Coquelicot.
From KV Require Import Scalar RInst Geom Curves Path Solvers Winding RTac WindingSpec C06_proofs.
Import ListNotations.
Local Open Scope R_scope.

Ltac w_unfold :=
  cbv [winding_inner winding_inner_pinned winding_inner_gen w_side w_nearer_end seg_start seg_end
       l0 l1 q0 q1 q2 c0 c1 c2 c3 px py] in *;
  rs_unfold.

(** * Lines *)

Lemma edge_x_at_le_up (s e p : Point R) : py s < py e ->
  (edge_x_at s e p <= px p <-> (py p - py s) * (px e - px s) <= (px p - px s) * (py e - py s)).
Proof.
  intro H. unfold edge_x_at.
  assert (D : py e - py s > 0) by lra.
  rewrite <- (Rle_div_l _ _ _ D). lra.
Qed.

Lemma edge_x_at_le_down (s e p : Point R) : py e < py s ->
  (edge_x_at s e p <= px p <-> (px p - px s) * (py e - py s) <= (py p - py s) * (px e - px s)).
Proof.
  intro H. unfold edge_x_at.
  assert (D : py s - py e > 0) by lra.
  replace ((py p - py s) * (px e - px s) / (py e - py s))
    with ((- ((py p - py s) * (px e - px s))) / (py s - py e)) by (field; lra).
  assert (E : px s + - ((py p - py s) * (px e - px s)) / (py s - py e) <= px p <->
              - ((py p - py s) * (px e - px s)) / (py s - py e) <= px p - px s) by lra.
  rewrite E, (Rle_div_l _ _ _ D). lra.
Qed.

(* the edge's point on the row of p lies between the end abscissae *)
Lemma edge_x_at_between (s e p : Point R) : py s <> py e ->
  Rmin (py s) (py e) <= py p <= Rmax (py s) (py e) ->
  Rmin (px s) (px e) <= edge_x_at s e p <= Rmax (px s) (px e).
Proof.
  intros Hne Hr. unfold edge_x_at.
  set (lam := (py p - py s) / (py e - py s)).
  assert (Hlam : 0 <= lam <= 1).
  { unfold lam. destruct (Rlt_dec (py s) (py e)).
    - assert (D : py e - py s > 0) by lra. split.
      + apply Rle_div_r; [exact D|]. minmax.
      + apply Rle_div_l; [exact D|]. minmax.
    - assert (D : py s - py e > 0) by lra.
      replace ((py p - py s) / (py e - py s)) with ((py s - py p) / (py s - py e)) by (field; lra).
      split.
      + apply Rle_div_r; [exact D|]. minmax.
      + apply Rle_div_l; [exact D|]. minmax. }
  replace (px s + (py p - py s) * (px e - px s) / (py e - py s)) with (px s + lam * (px e - px s))
    by (unfold lam; field; lra).
  unfold Rmin, Rmax; destruct (Rle_dec (px s) (px e)); nra.
Qed.

(** [winding_inner] on a line is the classical half-open crossing rule, for every p (both variants) *)
Lemma line_piece_crossing_gen (fx : bool) (l : Line R) (p : Point R) :
  winding_inner_gen fx (SegLine l) p = edge_crossing (l0 l) (l1 l) p.
Proof.
  destruct l as [[sx sy] [ex ey]], p as [x y].
  unfold edge_crossing. cbn [l0 l1 py px].
  pose proof (edge_x_at_le_up (mkPoint sx sy) (mkPoint ex ey) (mkPoint x y)) as Hup.
  pose proof (edge_x_at_le_down (mkPoint sx sy) (mkPoint ex ey) (mkPoint x y)) as Hdn.
  pose proof (edge_x_at_between (mkPoint sx sy) (mkPoint ex ey) (mkPoint x y)) as Hbt.
  cbn [px py] in Hup, Hdn, Hbt.
  set (X := edge_x_at _ _ _) in *. clearbody X.
  w_unfold. cbv [orb].
  destruct (Rlt_dec sy ey) as [U|NU].
  - (* upward *)
    destruct (Rltb_spec sy ey); [|lra].
    destruct (Rltb_spec y sy); [destruct (Rle_dec sy y); [lra|reflexivity]|].
    destruct (Rleb_spec ey y); [destruct (Rle_dec sy y); [|lra]; destruct (Rlt_dec y ey); [lra|reflexivity]|].
    destruct (Rle_dec sy y); [|lra]. destruct (Rlt_dec y ey); [|lra].
    specialize (Hup U). assert (Hb : Rmin sx ex <= X <= Rmax sx ex) by (apply Hbt; minmax).
    destruct (Rltb_spec x (Rmin sx ex)); [destruct (Rle_dec X x); [lra|reflexivity]|].
    destruct (Rleb_spec (Rmax sx ex) x); [destruct (Rle_dec X x); [reflexivity|lra]|].
    match goal with |- context [Rleb ?a 0] => destruct (Rleb_spec a 0) as [T|T] end; destruct (Rle_dec X x) as [C|C]; try reflexivity; exfalso.
    + apply C, Hup. nra.
    + apply Hup in C. apply T. nra.
  - destruct (Rltb_spec sy ey); [lra|].
    destruct (Rlt_dec ey sy) as [Dn|ND].
    + destruct (Rltb_spec ey sy); [|lra].
      destruct (Rltb_spec y ey); [destruct (Rle_dec ey y); [lra|reflexivity]|].
      destruct (Rleb_spec sy y); [destruct (Rle_dec ey y); [|lra]; destruct (Rlt_dec y sy); [lra|reflexivity]|].
      destruct (Rle_dec ey y); [|lra]. destruct (Rlt_dec y sy); [|lra].
      specialize (Hdn Dn). assert (Hb : Rmin sx ex <= X <= Rmax sx ex) by (apply Hbt; minmax).
      destruct (Rltb_spec x (Rmin sx ex)); [destruct (Rle_dec X x); [lra|reflexivity]|].
      destruct (Rleb_spec (Rmax sx ex) x); [destruct (Rle_dec X x); [reflexivity|lra]|].
      match goal with |- context [Rleb ?a 0] => destruct (Rleb_spec a 0) as [T|T] end; destruct (Rle_dec X x) as [C|C]; try reflexivity; exfalso.
      * apply C, Hdn. nra.
      * apply Hdn in C. apply T. nra.
    + destruct (Rltb_spec ey sy); [lra|reflexivity].
Qed.

(** * Sums *)
Lemma fold_left_add_acc (l : list Z) (a : Z) : fold_left Z.add l a = (a + fold_left Z.add l 0)%Z.
Proof.
  revert a. induction l as [|x l IH]; intro a; simpl; [lia|].
  rewrite IH, (IH x). lia.
Qed.
Lemma sum_Z_nil : sum_Z [] = 0%Z. Proof. reflexivity. Qed.
Lemma sum_Z_cons (x : Z) (l : list Z) : sum_Z (x :: l) = (x + sum_Z l)%Z.
Proof. unfold sum_Z. simpl. rewrite fold_left_add_acc. reflexivity. Qed.
Lemma sum_Z_app (a b : list Z) : sum_Z (a ++ b) = (sum_Z a + sum_Z b)%Z.
Proof. induction a as [|x a IH]; [rewrite sum_Z_nil; simpl; lia|]. simpl. rewrite !sum_Z_cons, IH. lia. Qed.
Lemma sum_Z_sumZ (l : list Z) : sum_Z l = sumZ l.
Proof. induction l as [|x l IH]; [reflexivity|]. rewrite sum_Z_cons, IH. reflexivity. Qed.
Lemma sum_Z_rev (l : list Z) : sum_Z (rev l) = sum_Z l.
Proof. induction l as [|x l IH]; [reflexivity|]. simpl. rewrite sum_Z_app, IH, !sum_Z_cons, sum_Z_nil. lia. Qed.
Lemma sum_Z_map_opp {A} (f : A -> Z) (l : list A) : sum_Z (map (fun x => (- f x)%Z) l) = (- sum_Z (map f l))%Z.
Proof. induction l as [|x l IH]; [reflexivity|]. simpl. rewrite !sum_Z_cons, IH. lia. Qed.
Lemma sum_Z_map_ext {A} (f g : A -> Z) (l : list A) :
  (forall x, In x l -> f x = g x) -> sum_Z (map f l) = sum_Z (map g l).
Proof.
  induction l as [|x l IH]; intro H; [reflexivity|]. simpl. rewrite !sum_Z_cons, IH, H; auto with datatypes.
Qed.
Lemma sum_Z_map_zero {A} (f : A -> Z) (l : list A) : (forall x, In x l -> f x = 0%Z) -> sum_Z (map f l) = 0%Z.
Proof.
  induction l as [|x l IH]; intro H; [reflexivity|]. simpl. rewrite sum_Z_cons, IH, H; auto with datatypes.
Qed.

(** * A piece whose control points are all on or left of the column of p contributes
      above(start) - above(end): only comparisons are involved (any kind of piece, no solver). *)
Ltac finish_cmp := try reflexivity; try lra; try (exfalso; minmax; fail).

Lemma piece_right_of_all (fx : bool) (s : PathSeg R) (p : Point R) :
  (forall c, In c (seg_ctrl s) -> px c <= px p) ->
  winding_inner_gen fx s p = (above p (seg_start s) - above p (seg_end s))%Z.
Proof.
  intro H. unfold above.
  destruct s as [[[sx sy] [ex ey]] | [[sx sy] [mx my] [ex ey]] | [[sx sy] [ax ay] [bx by_] [ex ey]]];
    destruct p as [x y]; cbn [seg_ctrl seg_start seg_end l0 l1 q0 q2 c0 c3 py] in *.
  - assert (sx <= x) by (apply (H (mkPoint sx sy)); simpl; auto).
    assert (ex <= x) by (apply (H (mkPoint ex ey)); simpl; auto).
    clear H. w_unfold. cbv [orb].
    destruct (Rlt_dec y sy), (Rlt_dec y ey); case_ifs; finish_cmp.
  - assert (sx <= x) by (apply (H (mkPoint sx sy)); simpl; auto).
    assert (mx <= x) by (apply (H (mkPoint mx my)); simpl; auto).
    assert (ex <= x) by (apply (H (mkPoint ex ey)); simpl; auto).
    clear H. w_unfold. cbv [orb].
    destruct (Rlt_dec y sy), (Rlt_dec y ey); case_ifs; finish_cmp.
  - assert (sx <= x) by (apply (H (mkPoint sx sy)); simpl; auto).
    assert (ax <= x) by (apply (H (mkPoint ax ay)); simpl; auto).
    assert (bx <= x) by (apply (H (mkPoint bx by_)); simpl; auto 6).
    assert (ex <= x) by (apply (H (mkPoint ex ey)); simpl; auto 6).
    clear H. w_unfold. cbv [orb].
    destruct (Rlt_dec y sy), (Rlt_dec y ey); case_ifs; finish_cmp.
Qed.

Lemma piece_left_of_all (fx : bool) (s : PathSeg R) (p : Point R) :
  (forall c, In c (seg_ctrl s) -> px p < px c) -> winding_inner_gen fx s p = 0%Z.
Proof.
  intro H.
  destruct s as [[[sx sy] [ex ey]] | [[sx sy] [mx my] [ex ey]] | [[sx sy] [ax ay] [bx by_] [ex ey]]];
    destruct p as [x y]; cbn [seg_ctrl px] in *.
  - assert (x < sx) by (apply (H (mkPoint sx sy)); simpl; auto).
    assert (x < ex) by (apply (H (mkPoint ex ey)); simpl; auto).
    clear H. w_unfold. cbv [orb]. case_ifs; finish_cmp.
  - assert (x < sx) by (apply (H (mkPoint sx sy)); simpl; auto).
    assert (x < mx) by (apply (H (mkPoint mx my)); simpl; auto).
    assert (x < ex) by (apply (H (mkPoint ex ey)); simpl; auto).
    clear H. w_unfold. cbv [orb]. case_ifs; finish_cmp.
  - assert (x < sx) by (apply (H (mkPoint sx sy)); simpl; auto).
    assert (x < ax) by (apply (H (mkPoint ax ay)); simpl; auto).
    assert (x < bx) by (apply (H (mkPoint bx by_)); simpl; auto 6).
    assert (x < ex) by (apply (H (mkPoint ex ey)); simpl; auto 6).
    clear H. w_unfold. cbv [orb]. case_ifs; finish_cmp.
Qed.

(* a piece whose row range does not contain the row of p contributes 0 *)
Lemma piece_out_of_rows (fx : bool) (s : PathSeg R) (p : Point R) :
  (py p < Rmin (py (seg_start s)) (py (seg_end s)) \/ Rmax (py (seg_start s)) (py (seg_end s)) <= py p) ->
  winding_inner_gen fx s p = 0%Z.
Proof.
  intro H. unfold winding_inner_gen.
  set (sy := py (seg_start s)) in *. set (ey := py (seg_end s)) in *. set (y := py p) in *.
  clearbody sy ey y. rs_unfold. cbv [orb]. case_ifs; try reflexivity; exfalso; minmax.
Qed.

(** * Telescoping over a chain of pieces whose consecutive end points are equal values *)
Lemma chain_sum_right (fx : bool) (p : Point R) : forall (ps : list (PathSeg R)) (a b : Point R),
  chain_from_to a ps b -> right_of_all p ps ->
  sum_Z (map (fun s => winding_inner_gen fx s p) ps) = (above p a - above p b)%Z.
Proof.
  induction ps as [|s r IH]; intros a b Hc Hr; simpl in Hc.
  - subst. cbn. lia.
  - destruct Hc as [Hs Hc]. simpl. rewrite sum_Z_cons.
    rewrite (IH _ _ Hc) by (intros s' c Hin; apply Hr; simpl; auto).
    rewrite piece_right_of_all by (intros c Hin; apply (Hr s); simpl; auto).
    rewrite Hs. lia.
Qed.

Lemma closed_chain_outside_right_zero (fx : bool) (ps : list (PathSeg R)) (p : Point R) :
  closed_chain ps -> right_of_all p ps -> sum_Z (map (fun s => winding_inner_gen fx s p) ps) = 0%Z.
Proof.
  intros Hc Hr. destruct ps as [|s r]; [reflexivity|].
  unfold closed_chain in Hc. rewrite (chain_sum_right fx p _ _ _ Hc Hr). lia.
Qed.

Lemma chain_outside_left_zero (fx : bool) (ps : list (PathSeg R)) (p : Point R) :
  left_of_all p ps -> sum_Z (map (fun s => winding_inner_gen fx s p) ps) = 0%Z.
Proof.
  intro H. apply sum_Z_map_zero. intros s Hin. apply piece_left_of_all. intros c Hc. apply (H s c Hin Hc).
Qed.

(** * Segments without interior extrema; lines *)
Lemma seg_winding_line (l : Line R) (p : Point R) :
  seg_winding (SegLine l) p = edge_crossing (l0 l) (l1 l) p.
Proof.
  unfold seg_winding, seg_winding_gen, w_pieces_gen, w_extrema_ranges. cbn.
  rewrite line_piece_crossing_gen. lia.
Qed.

(** * Closed polygons: [MoveTo v0; LineTo v1; ...; LineTo vn; ClosePath] *)
Fixpoint lines_from (prev : Point R) (vs : list (Point R)) : list (PathSeg R) :=
  match vs with
  | [] => []
  | v :: r => SegLine (mkLine prev v) :: lines_from v r
  end.
Fixpoint last_pt (prev : Point R) (vs : list (Point R)) : Point R :=
  match vs with
  | [] => prev
  | v :: r => last_pt v r
  end.

Lemma segs_from_lines : forall (vs : list (Point R)) (start prev : Point R) (rest : list (PathEl R)),
  segs_from (Some (start, prev)) (map (@LineTo R) vs ++ rest) =
  option_map (app (lines_from prev vs)) (segs_from (Some (start, last_pt prev vs)) rest).
Proof.
  induction vs as [|v r IH]; intros start prev rest; simpl.
  - destruct (segs_from _ rest); reflexivity.
  - rewrite IH. destruct (segs_from _ rest); reflexivity.
Qed.

Definition polygon_els (v0 : Point R) (vs : list (Point R)) : list (PathEl R) :=
  MoveTo v0 :: map (@LineTo R) vs ++ [ClosePath].

Definition closing_edge (v0 last : Point R) : list (PathSeg R) :=
  if pt_neb last v0 then [SegLine (mkLine last v0)] else [].

Lemma segments_polygon (v0 : Point R) (vs : list (Point R)) :
  segments (polygon_els v0 vs) = Some (lines_from v0 vs ++ closing_edge v0 (last_pt v0 vs)).
Proof.
  unfold segments, polygon_els. cbn [segs_from seg_step el_end].
  rewrite segs_from_lines. cbn [segs_from seg_step el_end]. unfold closing_edge.
  destruct (pt_neb _ _); reflexivity.
Qed.

Lemma pt_neb_false (a b : Point R) : pt_neb a b = false -> a = b.
Proof.
  destruct a as [ax ay], b as [bx by_]. unfold pt_neb, pt_eqb. cbn [px py]. rs_unfold.
  intro H. apply negb_false_iff in H. bool_to_prop. subst. reflexivity.
Qed.

Lemma edge_crossing_flat (s e p : Point R) : py s = py e -> edge_crossing s e p = 0%Z.
Proof. intro H. unfold edge_crossing. rewrite H. destruct (Rlt_dec (py e) (py e)); [lra|reflexivity]. Qed.

Lemma cyc_edges_lines (v0 : Point R) : forall (vs : list (Point R)) (prev : Point R) (p : Point R),
  sumZ (map (fun se => edge_crossing (fst se) (snd se) p) (cyc_edges_from v0 prev vs)) =
  (sum_Z (map (fun s => seg_winding s p) (lines_from prev vs))
   + edge_crossing (last_pt prev vs) v0 p)%Z.
Proof.
  induction vs as [|v r IH]; intros prev p; simpl.
  - unfold sum_Z; simpl. lia.
  - rewrite IH, sum_Z_cons, seg_winding_line. cbn [l0 l1]. lia.
Qed.

Lemma polygon_winding_crossing_number (v0 : Point R) (vs : list (Point R)) (p : Point R) :
  path_winding (polygon_els v0 vs) p = Some (poly_crossing_number v0 vs p).
Proof.
  unfold path_winding, path_winding_gen. rewrite segments_polygon. f_equal.
  unfold poly_crossing_number, cyc_edges. rewrite cyc_edges_lines.
  unfold segs_winding_gen. rewrite map_app, sum_Z_app. fold (seg_winding (T:=R)).
  f_equal. unfold closing_edge.
  destruct (pt_neb (last_pt v0 vs) v0) eqn:E.
  - cbn [map]. rewrite sum_Z_cons, sum_Z_nil, seg_winding_line. cbn [l0 l1]. lia.
  - apply pt_neb_false in E. rewrite E. cbn [map]. rewrite sum_Z_nil, edge_crossing_flat; reflexivity.
Qed.

(** * Division-free form of the crossing rule *)
Definition orient (s e p : Point R) : R :=
  (py p - py s) * (px e - px s) - (px p - px s) * (py e - py s).

Definition edge_crossing' (s e p : Point R) : Z :=
  if Rlt_dec (py s) (py e) then
    (if Rle_dec (py s) (py p) then if Rlt_dec (py p) (py e) then
       if Rle_dec (orient s e p) 0 then (-1)%Z else 0%Z else 0%Z else 0%Z)
  else if Rlt_dec (py e) (py s) then
    (if Rle_dec (py e) (py p) then if Rlt_dec (py p) (py s) then
       if Rle_dec 0 (orient s e p) then 1%Z else 0%Z else 0%Z else 0%Z)
  else 0%Z.

Lemma edge_crossing_orient (s e p : Point R) : edge_crossing s e p = edge_crossing' s e p.
Proof.
  unfold edge_crossing, edge_crossing', orient.
  destruct (Rlt_dec (py s) (py e)) as [U|NU].
  - pose proof (edge_x_at_le_up s e p U) as H.
    destruct (Rle_dec (py s) (py p)); [|reflexivity]. destruct (Rlt_dec (py p) (py e)); [|reflexivity].
    destruct (Rle_dec (edge_x_at s e p) (px p)) as [C|C], (Rle_dec _ 0) as [O|O]; try reflexivity; exfalso.
    + apply H in C. lra.
    + apply C, H. lra.
  - destruct (Rlt_dec (py e) (py s)) as [D|ND]; [|reflexivity].
    pose proof (edge_x_at_le_down s e p D) as H.
    destruct (Rle_dec (py e) (py p)); [|reflexivity]. destruct (Rlt_dec (py p) (py s)); [|reflexivity].
    destruct (Rle_dec (edge_x_at s e p) (px p)) as [C|C], (Rle_dec 0 _) as [O|O]; try reflexivity; exfalso.
    + apply H in C. lra.
    + apply C, H. lra.
Qed.

(** * Reversal *)
Lemma edge_crossing_reverse (s e p : Point R) : edge_crossing e s p = (- edge_crossing s e p)%Z.
Proof.
  rewrite !edge_crossing_orient. unfold edge_crossing'.
  assert (O : orient e s p = - orient s e p) by (unfold orient; ring).
  rewrite O.
  destruct (Rlt_dec (py s) (py e)), (Rlt_dec (py e) (py s)); try lra; try reflexivity.
  - destruct (Rle_dec (py s) (py p)); [|reflexivity]. destruct (Rlt_dec (py p) (py e)); [|reflexivity].
    destruct (Rle_dec (orient s e p) 0), (Rle_dec 0 (- orient s e p)); try reflexivity; lra.
  - destruct (Rle_dec (py e) (py p)); [|reflexivity]. destruct (Rlt_dec (py p) (py s)); [|reflexivity].
    destruct (Rle_dec 0 (orient s e p)), (Rle_dec (- orient s e p) 0); try reflexivity; lra.
Qed.

Lemma winding_inner_reverse_line (fx : bool) (l : Line R) (p : Point R) :
  winding_inner_gen fx (seg_reverse (SegLine l)) p = (- winding_inner_gen fx (SegLine l) p)%Z.
Proof. cbn [seg_reverse]. rewrite !line_piece_crossing_gen. cbn [l0 l1]. apply edge_crossing_reverse. Qed.

(** * Splitting a line at an interior parameter *)
Lemma edge_crossing_split (s e p : Point R) (t : R) : 0 < t < 1 ->
  let m := line_eval (mkLine s e) t in
  (edge_crossing s m p + edge_crossing m e p)%Z = edge_crossing s e p.
Proof.
  intros Ht m. rewrite !edge_crossing_orient. unfold edge_crossing'.
  destruct s as [sx sy], e as [ex ey], p as [x y].
  assert (Hmx : px m = sx + t * (ex - sx)) by (unfold m; crv_unfold; ring).
  assert (Hmy : py m = sy + t * (ey - sy)) by (unfold m; crv_unfold; ring).
  assert (O1 : orient (mkPoint sx sy) m (mkPoint x y) = t * orient (mkPoint sx sy) (mkPoint ex ey) (mkPoint x y))
    by (unfold orient; cbn [px py]; rewrite Hmx, Hmy; ring).
  assert (O2 : orient m (mkPoint ex ey) (mkPoint x y) = (1 - t) * orient (mkPoint sx sy) (mkPoint ex ey) (mkPoint x y))
    by (unfold orient; cbn [px py]; rewrite Hmx, Hmy; ring).
  rewrite O1, O2. set (o := orient _ _ _). clearbody o. cbn [px py]. rewrite !Hmy. clear Hmx Hmy O1 O2. clearbody m.
  destruct (Rlt_dec sy ey) as [U|NU].
  - assert (sy < sy + t * (ey - sy) < ey) by nra.
    destruct (Rlt_dec sy (sy + t * (ey - sy))); [|lra]. destruct (Rlt_dec (sy + t * (ey - sy)) ey); [|lra].
    destruct (Rle_dec sy y); [|destruct (Rle_dec (sy + t * (ey - sy)) y); [lra|reflexivity]].
    destruct (Rlt_dec y ey); [|destruct (Rlt_dec y (sy + t * (ey - sy))); [lra|]; destruct (Rle_dec (sy + t * (ey - sy)) y); reflexivity].
    destruct (Rlt_dec y (sy + t * (ey - sy))), (Rle_dec (sy + t * (ey - sy)) y); try lra;
      destruct (Rle_dec o 0), (Rle_dec (t * o) 0), (Rle_dec ((1 - t) * o) 0); try reflexivity; exfalso; nra.
  - destruct (Rlt_dec ey sy) as [D|ND].
    + assert (ey < sy + t * (ey - sy) < sy) by nra.
      destruct (Rlt_dec sy (sy + t * (ey - sy))); [lra|]. destruct (Rlt_dec (sy + t * (ey - sy)) ey); [lra|].
      destruct (Rlt_dec (sy + t * (ey - sy)) sy); [|lra]. destruct (Rlt_dec ey (sy + t * (ey - sy))); [|lra].
      destruct (Rle_dec ey y); [|destruct (Rle_dec (sy + t * (ey - sy)) y); [lra|reflexivity]].
      destruct (Rlt_dec y sy); [|destruct (Rlt_dec y (sy + t * (ey - sy))); [lra|]; destruct (Rle_dec (sy + t * (ey - sy)) y); reflexivity].
      destruct (Rlt_dec y (sy + t * (ey - sy))), (Rle_dec (sy + t * (ey - sy)) y); try lra;
        destruct (Rle_dec 0 o), (Rle_dec 0 (t * o)), (Rle_dec 0 ((1 - t) * o)); try reflexivity; exfalso; nra.
    + assert (E : ey = sy) by lra. subst ey.
      replace (sy + t * (sy - sy)) with sy by ring.
      destruct (Rlt_dec sy sy); [lra|reflexivity].
Qed.

Lemma winding_split_line (fx : bool) (l : Line R) (p : Point R) (t : R) : 0 < t < 1 ->
  Z.add (winding_inner_gen fx (SegLine (line_subsegment l 0 t)) p)
        (winding_inner_gen fx (SegLine (line_subsegment l t 1)) p)
  = winding_inner_gen fx (SegLine l) p.
Proof.
  intro Ht. rewrite !line_piece_crossing_gen. destruct l as [s e]. cbn [l0 l1 line_subsegment].
  assert (E0 : line_eval (mkLine s e) 0 = s) by (destruct s, e; crv_unfold; f_equal; ring).
  assert (E1 : line_eval (mkLine s e) 1 = e) by (destruct s, e; crv_unfold; f_equal; ring).
  rewrite E0, E1. apply edge_crossing_split. exact Ht.
Qed.

(** * Curved monotone pieces *)

(* the loop over the solver's roots, for any exact root list of y(t) = yv, y injective on [0,1]:
   the crossing parameter t decides; the default (no root in [0,1]) is not reached *)
Lemma first_root_exact (roots : list R) (yf xf : R -> R) (yv xv : R) (sign dflt : Z) (t : R) :
  (forall u, In u roots -> yf u = yv) -> In t roots ->
  (forall u v, 0 <= u <= 1 -> 0 <= v <= 1 -> yf u = yf v -> u = v) ->
  0 <= t <= 1 -> yf t = yv ->
  w_first_root roots xf xv sign dflt = if Rle_dec (xf t) xv then sign else 0%Z.
Proof.
  intros Hs Hin Hinj Ht Hy. induction roots as [|u r IH]; [destruct Hin|].
  cbn [w_first_root]. rs_unfold.
  destruct (Rleb_spec 0 u) as [U0|U0]; [destruct (Rleb_spec u 1) as [U1|U1]|]; cbn [andb].
  - assert (u = t) by (apply Hinj; try lra; rewrite Hy; apply Hs; simpl; auto). subst u.
    destruct (Rleb_spec (xf t) xv), (Rle_dec (xf t) xv); try reflexivity; lra.
  - apply IH; [intros; apply Hs; simpl; auto|]. destruct Hin as [E|Hin]; [subst; lra|exact Hin].
  - apply IH; [intros; apply Hs; simpl; auto|]. destruct Hin as [E|Hin]; [subst; lra|exact Hin].
Qed.

(* the loop when no listed root lies in [0,1] *)
Lemma first_root_none (roots : list R) (xf : R -> R) (xv : R) (sign dflt : Z) :
  (forall u, In u roots -> ~ 0 <= u <= 1) -> w_first_root roots xf xv sign dflt = dflt.
Proof.
  intro H. induction roots as [|u r IH]; [reflexivity|]. cbn [w_first_root]. rs_unfold.
  destruct (Rleb_spec 0 u), (Rleb_spec u 1); cbn [andb]; try (apply IH; intros; apply H; simpl; auto).
  exfalso. apply (H u); simpl; auto.
Qed.

(* convex hull in x *)
Lemma quad_hull_x (q : QuadBez R) (t : R) : 0 <= t <= 1 ->
  Rmin (Rmin (px (q0 q)) (px (q2 q))) (px (q1 q)) <= px (quad_eval q t)
    <= Rmax (Rmax (px (q0 q)) (px (q2 q))) (px (q1 q)).
Proof.
  intro Ht. destruct q as [[sx sy] [mx my] [ex ey]]. crv_unfold.
  assert (W0 : 0 <= (1 - t) * (1 - t)) by nra.
  assert (W1 : 0 <= (1 - t) * t) by nra.
  assert (W2 : 0 <= t * t) by nra.
  set (lo := Rmin (Rmin sx ex) mx). set (hi := Rmax (Rmax sx ex) mx).
  assert (lo <= sx <= hi /\ lo <= mx <= hi /\ lo <= ex <= hi) as (A & B & C) by (unfold lo, hi; minmax).
  clearbody lo hi. split; nra.
Qed.

Lemma cubic_hull_x (c : CubicBez R) (t : R) : 0 <= t <= 1 ->
  Rmin (Rmin (Rmin (px (c0 c)) (px (c3 c))) (px (c1 c))) (px (c2 c)) <= px (cubic_eval c t)
    <= Rmax (Rmax (Rmax (px (c0 c)) (px (c3 c))) (px (c1 c))) (px (c2 c)).
Proof.
  intro Ht. destruct c as [[sx sy] [ax ay] [bx by_] [ex ey]]. crv_unfold.
  assert (W0 : 0 <= (1 - t) * (1 - t) * (1 - t)) by (apply Rmult_le_pos; nra).
  assert (W1 : 0 <= (1 - t) * (1 - t) * t) by (apply Rmult_le_pos; nra).
  assert (W2 : 0 <= (1 - t) * t * t) by (apply Rmult_le_pos; nra).
  assert (W3 : 0 <= t * t * t) by (apply Rmult_le_pos; nra).
  set (lo := Rmin (Rmin (Rmin sx ex) ax) bx). set (hi := Rmax (Rmax (Rmax sx ex) ax) bx).
  assert (lo <= sx <= hi /\ lo <= ax <= hi /\ lo <= bx <= hi /\ lo <= ex <= hi) as (A & B & C & D)
    by (unfold lo, hi; minmax).
  clearbody lo hi.
  set (w0 := (1 - t) * (1 - t) * (1 - t)) in *. set (w1 := (1 - t) * (1 - t) * t) in *.
  set (w2 := (1 - t) * t * t) in *. set (w3 := t * t * t) in *.
  assert (S : w0 + 3 * w1 + 3 * w2 + w3 = 1) by (unfold w0, w1, w2, w3; ring).
  replace (sx * w0 + (ax * ((1 - t) * (1 - t) * 3) + (bx * ((1 - t) * 3) + ex * t) * t) * t)
    with (sx * w0 + ax * (3 * w1) + bx * (3 * w2) + ex * w3) by (unfold w0, w1, w2, w3; ring).
  clearbody w0 w1 w2 w3. split; nra.
Qed.

From KV Require C15_proofs.

Definition dir_sign (sy ey : R) : Z := if Rlt_dec sy ey then (-1)%Z else 1%Z.

Lemma quad_y_poly (q : QuadBez R) (u : R) :
  py (quad_eval q u) =
  py (q0 q) + (2 * (py (q1 q) - py (q0 q))) * u + (py (q2 q) - 2 * py (q1 q) + py (q0 q)) * (u * u).
Proof. destruct q as [[sx sy] [mx my] [ex ey]]. crv_unfold. ring. Qed.

Lemma cubic_y_poly (c : CubicBez R) (u : R) :
  py (cubic_eval c u) =
  py (c0 c) + (3 * (py (c1 c) - py (c0 c))) * u + (3 * (py (c2 c) - 2 * py (c1 c) + py (c0 c))) * (u * u)
  + (py (c3 c) - 3 * py (c2 c) + 3 * py (c1 c) - py (c0 c)) * (u * u * u).
Proof. destruct c as [[sx sy] [ax ay] [bx by_] [ex ey]]. crv_unfold. ring. Qed.

Lemma w_side_quad (fx : bool) (q : QuadBez R) (p : Point R) (sign : Z) (t : R) :
  py (q2 q) - 2 * py (q1 q) + py (q0 q) <> 0 ->
  y_injective (quad_eval q) -> 0 <= t <= 1 -> py (quad_eval q t) = py p ->
  w_side fx (SegQuad q) p sign = if Rle_dec (px (quad_eval q t)) (px p) then sign else 0%Z.
Proof.
  intros Ha Hinj Ht Hy.
  pose proof (quad_hull_x q t Ht) as Hh.
  assert (Hpoly : forall u, py (quad_eval q u) - py p =
            (py (q0 q) - py p) + (2 * (py (q1 q) - py (q0 q))) * u + (py (q2 q) - 2 * py (q1 q) + py (q0 q)) * (u * u))
    by (intro u; rewrite quad_y_poly; ring).
  unfold w_side. cbn [seg_start seg_end].
  set (roots := solve_quadratic _ _ _).
  assert (Hr : forall u, In u roots <->
             (py (q0 q) - py p) + (2 * (py (q1 q) - py (q0 q))) * u + (py (q2 q) - 2 * py (q1 q) + py (q0 q)) * (u * u) = 0).
  { apply (C15_proofs.solve_quadratic_spec_main (py (q0 q) - py p) (2 * (py (q1 q) - py (q0 q)))
             (py (q2 q) - 2 * py (q1 q) + py (q0 q))). exact Ha. }
  clearbody roots.
  set (X := px (quad_eval q t)) in *.
  set (lo := Rmin _ _) in Hh. set (hi := Rmax _ _) in Hh.
  change (fmin (fmin (px (q0 q)) (px (q2 q))) (px (q1 q))) with lo.
  change (fmax (fmax (px (q0 q)) (px (q2 q))) (px (q1 q))) with hi.
  change (@fltb R RS) with Rltb. change (@fleb R RS) with Rleb.
  destruct (Rltb_spec (px p) lo); [destruct (Rle_dec X (px p)); [lra|reflexivity]|].
  destruct (Rleb_spec hi (px p)); [destruct (Rle_dec X (px p)); [reflexivity|lra]|].
  apply (first_root_exact roots (fun u => py (quad_eval q u)) (fun u => px (quad_eval q u)) (py p) (px p)).
  - intros u Hu. apply Hr in Hu. pose proof (Hpoly u) as E. rewrite Hu in E. lra.
  - apply Hr. rewrite <- Hpoly. lra.
  - exact Hinj.
  - exact Ht.
  - exact Hy.
Qed.

Lemma quad_piece_crossing (fx : bool) (q : QuadBez R) (p : Point R) (t : R) :
  py (q2 q) - 2 * py (q1 q) + py (q0 q) <> 0 ->
  y_injective (quad_eval q) -> 0 <= t <= 1 -> py (quad_eval q t) = py p ->
  Rmin (py (q0 q)) (py (q2 q)) <= py p < Rmax (py (q0 q)) (py (q2 q)) ->
  winding_inner_gen fx (SegQuad q) p =
    if Rle_dec (px (quad_eval q t)) (px p) then dir_sign (py (q0 q)) (py (q2 q)) else 0%Z.
Proof.
  intros Ha Hinj Ht Hy Hrows. unfold winding_inner_gen. cbn [seg_start seg_end].
  rewrite !(w_side_quad fx q p _ t Ha Hinj Ht Hy).
  unfold dir_sign. set (sy := py (q0 q)) in *. set (ey := py (q2 q)) in *. set (y := py p) in *.
  clearbody sy ey y. rs_unfold. cbv [orb].
  destruct (Rlt_dec sy ey); case_ifs; try reflexivity; exfalso; minmax.
Qed.

(** the named solver hypothesis for cubic pieces (C15 proves it for the model of [solve_cubic]) *)
Definition cubic_solver_exact : Prop :=
  forall c0 c1 c2 c3 : R, c3 <> 0 ->
  forall x, In x (solve_cubic c0 c1 c2 c3) <-> cubic_poly c0 c1 c2 c3 x = 0.

Lemma w_side_cubic (fx : bool) (c : CubicBez R) (p : Point R) (sign : Z) (t : R) :
  cubic_solver_exact ->
  py (c3 c) - 3 * py (c2 c) + 3 * py (c1 c) - py (c0 c) <> 0 ->
  y_injective (cubic_eval c) -> 0 <= t <= 1 -> py (cubic_eval c t) = py p ->
  w_side fx (SegCubic c) p sign = if Rle_dec (px (cubic_eval c t)) (px p) then sign else 0%Z.
Proof.
  intros Hsolver Ha Hinj Ht Hy.
  pose proof (cubic_hull_x c t Ht) as Hh.
  assert (Hpoly : forall u, py (cubic_eval c u) - py p =
            cubic_poly (py (c0 c) - py p) (3 * (py (c1 c) - py (c0 c)))
                       (3 * (py (c2 c) - 2 * py (c1 c) + py (c0 c)))
                       (py (c3 c) - 3 * py (c2 c) + 3 * py (c1 c) - py (c0 c)) u)
    by (intro u; rewrite cubic_y_poly; unfold cubic_poly; ring).
  unfold w_side. cbn [seg_start seg_end].
  set (roots := solve_cubic _ _ _ _).
  assert (Hr : forall u, In u roots <->
             cubic_poly (py (c0 c) - py p) (3 * (py (c1 c) - py (c0 c)))
                       (3 * (py (c2 c) - 2 * py (c1 c) + py (c0 c)))
                       (py (c3 c) - 3 * py (c2 c) + 3 * py (c1 c) - py (c0 c)) u = 0).
  { apply (Hsolver (py (c0 c) - py p) (3 * (py (c1 c) - py (c0 c)))
                   (3 * (py (c2 c) - 2 * py (c1 c) + py (c0 c)))
                   (py (c3 c) - 3 * py (c2 c) + 3 * py (c1 c) - py (c0 c))). exact Ha. }
  clearbody roots.
  set (X := px (cubic_eval c t)) in *.
  set (lo := Rmin _ _) in Hh. set (hi := Rmax _ _) in Hh.
  change (fmin (fmin (fmin (px (c0 c)) (px (c3 c))) (px (c1 c))) (px (c2 c))) with lo.
  change (fmax (fmax (fmax (px (c0 c)) (px (c3 c))) (px (c1 c))) (px (c2 c))) with hi.
  change (@fltb R RS) with Rltb. change (@fleb R RS) with Rleb.
  destruct (Rltb_spec (px p) lo); [destruct (Rle_dec X (px p)); [lra|reflexivity]|].
  destruct (Rleb_spec hi (px p)); [destruct (Rle_dec X (px p)); [reflexivity|lra]|].
  apply (first_root_exact roots (fun u => py (cubic_eval c u)) (fun u => px (cubic_eval c u)) (py p) (px p)).
  - intros u Hu. apply Hr in Hu. pose proof (Hpoly u) as E. rewrite Hu in E. lra.
  - apply Hr. rewrite <- Hpoly. lra.
  - exact Hinj.
  - exact Ht.
  - exact Hy.
Qed.

Lemma cubic_piece_crossing_partial (fx : bool) (c : CubicBez R) (p : Point R) (t : R) :
  cubic_solver_exact ->
  py (c3 c) - 3 * py (c2 c) + 3 * py (c1 c) - py (c0 c) <> 0 ->
  y_injective (cubic_eval c) -> 0 <= t <= 1 -> py (cubic_eval c t) = py p ->
  Rmin (py (c0 c)) (py (c3 c)) <= py p < Rmax (py (c0 c)) (py (c3 c)) ->
  winding_inner_gen fx (SegCubic c) p =
    if Rle_dec (px (cubic_eval c t)) (px p) then dir_sign (py (c0 c)) (py (c3 c)) else 0%Z.
Proof.
  intros Hs Ha Hinj Ht Hy Hrows. unfold winding_inner_gen. cbn [seg_start seg_end].
  rewrite !(w_side_cubic fx c p _ t Hs Ha Hinj Ht Hy).
  unfold dir_sign. set (sy := py (c0 c)) in *. set (ey := py (c3 c)) in *. set (y := py p) in *.
  clearbody sy ey y. rs_unfold. cbv [orb].
  destruct (Rlt_dec sy ey); case_ifs; try reflexivity; exfalso; minmax.
Qed.

Lemma cubic_solver_exact_C15 : cubic_solver_exact.
Proof. intros c0 c1 c2 c3 H3 x. unfold cubic_poly. apply C15_proofs.solve_cubic_exact. exact H3. Qed.

(** * Existence of the crossing (intermediate values): a piece that spans the row of p meets it *)
Lemma line_y_poly (l : Line R) (u : R) :
  py (line_eval l u) = py (l0 l) + u * (py (l1 l) - py (l0 l)).
Proof. destruct l as [[sx sy] [ex ey]]. crv_unfold. ring. Qed.

Lemma seg_y_continuous (s : PathSeg R) : continuity (fun t => py (seg_eval s t)).
Proof.
  intro x. destruct s as [l|q|c]; cbn [seg_eval].
  - apply continuity_pt_ext with (f := fun u => py (l0 l) + u * (py (l1 l) - py (l0 l))).
    + intro u. symmetry. apply line_y_poly.
    + reg.
  - apply continuity_pt_ext with
      (f := fun u => py (q0 q) + (2 * (py (q1 q) - py (q0 q))) * u + (py (q2 q) - 2 * py (q1 q) + py (q0 q)) * (u * u)).
    + intro u. symmetry. apply quad_y_poly.
    + reg.
  - apply continuity_pt_ext with
      (f := fun u => py (c0 c) + (3 * (py (c1 c) - py (c0 c))) * u
                     + (3 * (py (c2 c) - 2 * py (c1 c) + py (c0 c))) * (u * u)
                     + (py (c3 c) - 3 * py (c2 c) + 3 * py (c1 c) - py (c0 c)) * (u * u * u)).
    + intro u. symmetry. apply cubic_y_poly.
    + reg.
Qed.

Lemma piece_row_has_crossing (s : PathSeg R) (p : Point R) :
  Rmin (py (seg_start s)) (py (seg_end s)) <= py p <= Rmax (py (seg_start s)) (py (seg_end s)) ->
  exists t, 0 <= t <= 1 /\ py (seg_eval s t) = py p.
Proof.
  intro H. destruct (seg_eval_endpoints s) as [E0 E1].
  destruct (IVT_gen (fun t => py (seg_eval s t)) 0 1 (py p) (seg_y_continuous s)) as [t [Ht Hy]].
  - cbv beta. rewrite E0, E1. exact H.
  - exists t. split; [|exact Hy]. revert Ht. unfold Rmin, Rmax. destruct (Rle_dec 0 1); lra.
Qed.

(** * The monotone pieces form a chain from the segment's start to its end *)
Section GenericPieces.
Context {T : Type} `{Scalar T}.

(* for any scalar instance (binary64 included): the stored end points of consecutive sub-segments are the
   same value [seg_eval s t]; the chain runs from [seg_eval s t0] to [seg_eval s 1] *)
Lemma subsegment_start_generic (s : PathSeg T) (t0 t1 : T) : seg_start (seg_subsegment s t0 t1) = seg_eval s t0.
Proof. destruct s; reflexivity. Qed.
Lemma subsegment_end_generic (s : PathSeg T) (t0 t1 : T) : seg_end (seg_subsegment s t0 t1) = seg_eval s t1.
Proof. destruct s; reflexivity. Qed.

Lemma ranges_chain_generic (s : PathSeg T) : forall (ts : list T) (t0 : T),
  chain_from_to (seg_eval s t0)
    (map (fun r => seg_subsegment s (fst r) (snd r)) (w_ranges_from t0 ts)) (seg_eval s f1).
Proof.
  induction ts as [|t r IH]; intro t0; cbn [w_ranges_from map chain_from_to fst snd].
  - rewrite subsegment_start_generic, subsegment_end_generic. split; reflexivity.
  - rewrite subsegment_start_generic, subsegment_end_generic. split; [reflexivity|apply IH].
Qed.

Lemma subpieces_chain_generic (s : PathSeg T) :
  chain_from_to (seg_eval s f0) (w_subpieces s) (seg_eval s f1).
Proof. unfold w_subpieces, w_extrema_ranges. apply ranges_chain_generic. Qed.
End GenericPieces.

Lemma subpieces_chain (s : PathSeg R) : chain_from_to (seg_start s) (w_subpieces s) (seg_end s).
Proof.
  destruct (seg_eval_endpoints s) as [E0 E1].
  pose proof (subpieces_chain_generic s) as H.
  change (@f0 R RS) with 0 in H. change (@f1 R RS) with 1 in H. rewrite E0, E1 in H. exact H.
Qed.

Lemma pieces_share_endpoints (fx : bool) (s : PathSeg R) :
  chain_from_to (seg_start s) (w_pieces_gen fx s) (seg_end s).
Proof.
  unfold w_pieces_gen. destruct fx; [|apply subpieces_chain].
  destruct (w_extrema_ranges s) as [|r [|r' rs]]; [apply subpieces_chain | cbn; auto | apply subpieces_chain].
Qed.

(** the whole path: concatenating the pieces of a chain of segments gives a chain *)
Lemma chain_app (a b c : Point R) (l1 l2 : list (PathSeg R)) :
  chain_from_to a l1 b -> chain_from_to b l2 c -> chain_from_to a (l1 ++ l2) c.
Proof.
  revert a. induction l1 as [|s r IH]; intros a H1 H2; simpl in *.
  - subst. exact H2.
  - destruct H1 as [Hs H1]. split; [exact Hs|]. apply IH; assumption.
Qed.

Lemma pieces_of_chain (fx : bool) : forall (segs : list (PathSeg R)) (a b : Point R),
  chain_from_to a segs b -> chain_from_to a (flat_map (w_pieces_gen fx) segs) b.
Proof.
  induction segs as [|s r IH]; intros a b H; simpl in *; [exact H|].
  destruct H as [Hs H]. subst a. eapply chain_app; [apply pieces_share_endpoints|apply IH; exact H].
Qed.

Lemma segs_winding_flat (fx : bool) (segs : list (PathSeg R)) (p : Point R) :
  segs_winding_gen fx segs p = sum_Z (map (fun piece => winding_inner_gen fx piece p) (flat_map (w_pieces_gen fx) segs)).
Proof.
  unfold segs_winding_gen. induction segs as [|s r IH]; [reflexivity|].
  cbn [map flat_map]. rewrite sum_Z_cons, map_app, sum_Z_app, IH. reflexivity.
Qed.

(** * Closed chains of segments: a point on or right of every control column of the pieces has winding 0 *)
Lemma segs_outside_right_zero (fx : bool) (segs : list (PathSeg R)) (p a : Point R) :
  chain_from_to a segs a -> right_of_all p (flat_map (w_pieces_gen fx) segs) ->
  segs_winding_gen fx segs p = 0%Z.
Proof.
  intros Hc Hr. rewrite segs_winding_flat.
  rewrite (chain_sum_right fx p _ a a (pieces_of_chain fx segs a a Hc) Hr). lia.
Qed.

Lemma segs_outside_left_zero (fx : bool) (segs : list (PathSeg R)) (p : Point R) :
  left_of_all p (flat_map (w_pieces_gen fx) segs) -> segs_winding_gen fx segs p = 0%Z.
Proof. intro H. rewrite segs_winding_flat. apply chain_outside_left_zero. exact H. Qed.

(** * Polygons: outside the box of the vertices *)
Lemma lines_from_chain : forall (vs : list (Point R)) (prev : Point R),
  chain_from_to prev (lines_from prev vs) (last_pt prev vs).
Proof. induction vs as [|v r IH]; intro prev; simpl; [reflexivity|]. split; [reflexivity|apply IH]. Qed.

Lemma polygon_segs_chain (v0 : Point R) (vs : list (Point R)) :
  chain_from_to v0 (lines_from v0 vs ++ closing_edge v0 (last_pt v0 vs)) v0.
Proof.
  eapply chain_app; [apply lines_from_chain|]. unfold closing_edge.
  destruct (pt_neb (last_pt v0 vs) v0) eqn:E; simpl; [auto|]. apply pt_neb_false in E. exact E.
Qed.

Lemma last_pt_in : forall (vs : list (Point R)) (prev : Point R), In (last_pt prev vs) (prev :: vs).
Proof. induction vs as [|v r IH]; intro prev; simpl; [auto|]. right. apply (IH v). Qed.

Lemma lines_from_ctrl : forall (vs : list (Point R)) (prev : Point R) (s : PathSeg R) (c : Point R),
  In s (lines_from prev vs) -> In c (seg_ctrl s) -> In c (prev :: vs).
Proof.
  induction vs as [|v r IH]; intros prev s c Hs Hc; simpl in Hs; [contradiction|].
  destruct Hs as [<-|Hs].
  - simpl in Hc. destruct Hc as [<-|[<-|[]]]; simpl; auto.
  - right. apply (IH v s c Hs Hc).
Qed.

Lemma polygon_segs_ctrl (v0 : Point R) (vs : list (Point R)) (s : PathSeg R) (c : Point R) :
  In s (lines_from v0 vs ++ closing_edge v0 (last_pt v0 vs)) -> In c (seg_ctrl s) -> In c (v0 :: vs).
Proof.
  intros Hs Hc. apply in_app_or in Hs. destruct Hs as [Hs|Hs]; [eapply lines_from_ctrl; eassumption|].
  unfold closing_edge in Hs. destruct (pt_neb _ _); [|contradiction].
  destruct Hs as [<-|[]]. simpl in Hc. destruct Hc as [<-|[<-|[]]]; [apply last_pt_in|simpl; auto].
Qed.

Lemma line_pieces (s : PathSeg R) : (exists l, s = SegLine l) -> w_pieces_gen true s = [s].
Proof. intros [l ->]. reflexivity. Qed.

Lemma polygon_segs_are_lines (v0 : Point R) (vs : list (Point R)) (s : PathSeg R) :
  In s (lines_from v0 vs ++ closing_edge v0 (last_pt v0 vs)) -> exists l, s = SegLine l.
Proof.
  intro Hs. apply in_app_or in Hs. destruct Hs as [Hs|Hs].
  - revert v0 Hs. induction vs as [|v r IH]; intros v0 Hs; simpl in Hs; [contradiction|].
    destruct Hs as [<-|Hs]; [eexists; reflexivity|apply (IH v Hs)].
  - unfold closing_edge in Hs. destruct (pt_neb _ _); [|contradiction]. destruct Hs as [<-|[]]. eexists; reflexivity.
Qed.

Lemma flat_map_singleton {A} (f : A -> list A) (l : list A) : (forall x, In x l -> f x = [x]) -> flat_map f l = l.
Proof.
  induction l as [|x l IH]; intro H; [reflexivity|]. simpl. rewrite H by (simpl; auto).
  rewrite IH by (intros; apply H; simpl; auto). reflexivity.
Qed.

Lemma polygon_outside_zero (v0 : Point R) (vs : list (Point R)) (p : Point R) :
  (forall v, In v (v0 :: vs) -> px v <= px p) \/ (forall v, In v (v0 :: vs) -> px p < px v) \/
  (forall v, In v (v0 :: vs) -> py p < py v) \/ (forall v, In v (v0 :: vs) -> py v <= py p) ->
  path_winding (polygon_els v0 vs) p = Some 0%Z.
Proof.
  intro H. unfold path_winding, path_winding_gen. rewrite segments_polygon. f_equal.
  set (segs := lines_from v0 vs ++ closing_edge v0 (last_pt v0 vs)).
  assert (Hflat : flat_map (w_pieces_gen true) segs = segs).
  { apply flat_map_singleton. intros s Hs. apply line_pieces. eapply polygon_segs_are_lines. exact Hs. }
  destruct H as [H|[H|[H|H]]].
  - apply (segs_outside_right_zero true segs p v0); [apply polygon_segs_chain|].
    rewrite Hflat. intros s c Hs Hc. apply H. eapply polygon_segs_ctrl; eassumption.
  - apply segs_outside_left_zero. rewrite Hflat. intros s c Hs Hc. apply H. eapply polygon_segs_ctrl; eassumption.
  - rewrite segs_winding_flat, Hflat. apply sum_Z_map_zero. intros s Hs. apply piece_out_of_rows. left.
    destruct (polygon_segs_are_lines v0 vs s Hs) as [l ->]. cbn [seg_start seg_end].
    assert (py p < py (l0 l)) by (apply H; eapply polygon_segs_ctrl; [exact Hs|simpl; auto]).
    assert (py p < py (l1 l)) by (apply H; eapply polygon_segs_ctrl; [exact Hs|simpl; auto]).
    minmax.
  - rewrite segs_winding_flat, Hflat. apply sum_Z_map_zero. intros s Hs. apply piece_out_of_rows. right.
    destruct (polygon_segs_are_lines v0 vs s Hs) as [l ->]. cbn [seg_start seg_end].
    assert (py (l0 l) <= py p) by (apply H; eapply polygon_segs_ctrl; [exact Hs|simpl; auto]).
    assert (py (l1 l) <= py p) by (apply H; eapply polygon_segs_ctrl; [exact Hs|simpl; auto]).
    minmax.
Qed.

(** * Reversing a closed polygon negates its winding number (every p) *)
Lemma combine_app_eq {A B} : forall (l1 l2 : list A) (m1 m2 : list B), length l1 = length m1 ->
  combine (l1 ++ l2) (m1 ++ m2) = combine l1 m1 ++ combine l2 m2.
Proof.
  induction l1 as [|x l1 IH]; intros l2 m1 m2 H; destruct m1 as [|y m1]; simpl in *; try discriminate; [reflexivity|].
  f_equal. apply IH. lia.
Qed.
Lemma rev_combine {A B} : forall (a : list A) (b : list B), length a = length b ->
  combine (rev a) (rev b) = rev (combine a b).
Proof.
  induction a as [|x a IH]; intros b H; destruct b as [|y b]; simpl in *; try discriminate; [reflexivity|].
  rewrite combine_app_eq by (rewrite !rev_length; lia). rewrite IH by lia. reflexivity.
Qed.
Lemma combine_swap {A B} : forall (a : list A) (b : list B),
  combine b a = map (fun xy => (snd xy, fst xy)) (combine a b).
Proof. induction a as [|x a IH]; intros [|y b]; simpl; try reflexivity. f_equal. apply IH. Qed.

Lemma cyc_edges_combine (first : Point R) : forall (vs : list (Point R)) (prev : Point R),
  cyc_edges_from first prev vs = combine (prev :: vs) (vs ++ [first]).
Proof. induction vs as [|v r IH]; intro prev; simpl; [reflexivity|]. f_equal. apply IH. Qed.

Lemma sumZ_app (a b : list Z) : sumZ (a ++ b) = (sumZ a + sumZ b)%Z.
Proof. rewrite <- !sum_Z_sumZ. apply sum_Z_app. Qed.
Lemma sumZ_rev (l : list Z) : sumZ (rev l) = sumZ l.
Proof. rewrite <- !sum_Z_sumZ. apply sum_Z_rev. Qed.

Lemma poly_crossing_number_reverse (v0 : Point R) (vs : list (Point R)) (p : Point R) :
  poly_crossing_number v0 (rev vs) p = (- poly_crossing_number v0 vs p)%Z.
Proof.
  unfold poly_crossing_number, cyc_edges. rewrite !cyc_edges_combine.
  replace (v0 :: rev vs) with (rev (vs ++ [v0])) by (rewrite rev_app_distr; reflexivity).
  replace (rev vs ++ [v0]) with (rev (v0 :: vs)) by reflexivity.
  rewrite rev_combine by (rewrite app_length; simpl; lia).
  rewrite map_rev, sumZ_rev, (combine_swap (v0 :: vs) (vs ++ [v0])), map_map. cbn [fst snd].
  rewrite <- !sum_Z_sumZ.
  rewrite (sum_Z_map_ext _ (fun x => (- edge_crossing (fst x) (snd x) p)%Z))
    by (intros; apply edge_crossing_reverse).
  apply sum_Z_map_opp.
Qed.

Lemma polygon_winding_reverse (v0 : Point R) (vs : list (Point R)) (p : Point R) (w : Z) :
  path_winding (polygon_els v0 vs) p = Some w -> path_winding (polygon_els v0 (rev vs)) p = Some (- w)%Z.
Proof.
  rewrite !polygon_winding_crossing_number, poly_crossing_number_reverse. intro H. injection H as <-. reflexivity.
Qed.

(** reversing any chain of pieces negates the sum, given the per-piece law *)
Lemma chain_reverse_sum (fx : bool) (ps : list (PathSeg R)) (p : Point R) :
  (forall s, In s ps -> winding_inner_gen fx (seg_reverse s) p = (- winding_inner_gen fx s p)%Z) ->
  sum_Z (map (fun s => winding_inner_gen fx s p) (rev (map (fun s => seg_reverse s) ps))) =
  (- sum_Z (map (fun s => winding_inner_gen fx s p) ps))%Z.
Proof.
  intro H. rewrite map_rev, sum_Z_rev, map_map.
  rewrite (sum_Z_map_ext _ (fun s => (- winding_inner_gen fx s p)%Z)) by exact H.
  apply sum_Z_map_opp.
Qed.

(** * Reversal of a curved monotone piece *)
Lemma dir_sign_swap (a b : R) : a <> b -> dir_sign b a = (- dir_sign a b)%Z.
Proof. intro H. unfold dir_sign. destruct (Rlt_dec b a), (Rlt_dec a b); try reflexivity; lra. Qed.

Lemma rows_cases (sy ey y : R) :
  (sy <> ey /\ Rmin sy ey <= y < Rmax sy ey) \/ (y < Rmin sy ey \/ Rmax sy ey <= y).
Proof. unfold Rmin, Rmax. destruct (Rle_dec sy ey); destruct (Rlt_dec y sy), (Rlt_dec y ey); lra. Qed.

Lemma winding_inner_reverse_quad (fx : bool) (q : QuadBez R) (p : Point R) :
  py (q2 q) - 2 * py (q1 q) + py (q0 q) <> 0 -> y_injective (quad_eval q) ->
  winding_inner_gen fx (seg_reverse (SegQuad q)) p = (- winding_inner_gen fx (SegQuad q) p)%Z.
Proof.
  intros Ha Hinj. cbn [seg_reverse].
  destruct (rows_cases (py (q0 q)) (py (q2 q)) (py p)) as [[Hne Hrows]|Hout].
  - destruct (piece_row_has_crossing (SegQuad q) p) as [t [Ht Hy]]; [cbn [seg_start seg_end]; lra|].
    cbn [seg_eval] in Hy.
    assert (Hrev : forall u, quad_eval (mkQuad (q2 q) (q1 q) (q0 q)) u = quad_eval q (1 - u))
      by (intro u; apply (seg_reverse_eval (SegQuad q) u)).
    rewrite (quad_piece_crossing fx q p t Ha Hinj Ht Hy Hrows).
    rewrite (quad_piece_crossing fx (mkQuad (q2 q) (q1 q) (q0 q)) p (1 - t)); cbn [q0 q1 q2].
    + rewrite Hrev. replace (1 - (1 - t)) with t by ring. rewrite dir_sign_swap by exact Hne.
      destruct (Rle_dec _ _); lia.
    + lra.
    + intros u v Hu Hv E. rewrite !Hrev in E. apply Hinj in E; lra.
    + lra.
    + rewrite Hrev. replace (1 - (1 - t)) with t by ring. exact Hy.
    + rewrite Rmin_comm, Rmax_comm. exact Hrows.
  - rewrite !piece_out_of_rows; [reflexivity| |]; cbn [seg_start seg_end q0 q2]; [|rewrite Rmin_comm, Rmax_comm]; exact Hout.
Qed.

Lemma winding_inner_reverse_cubic (fx : bool) (c : CubicBez R) (p : Point R) :
  cubic_solver_exact ->
  py (c3 c) - 3 * py (c2 c) + 3 * py (c1 c) - py (c0 c) <> 0 -> y_injective (cubic_eval c) ->
  winding_inner_gen fx (seg_reverse (SegCubic c)) p = (- winding_inner_gen fx (SegCubic c) p)%Z.
Proof.
  intros Hs Ha Hinj. cbn [seg_reverse].
  destruct (rows_cases (py (c0 c)) (py (c3 c)) (py p)) as [[Hne Hrows]|Hout].
  - destruct (piece_row_has_crossing (SegCubic c) p) as [t [Ht Hy]]; [cbn [seg_start seg_end]; lra|].
    cbn [seg_eval] in Hy.
    assert (Hrev : forall u, cubic_eval (mkCubic (c3 c) (c2 c) (c1 c) (c0 c)) u = cubic_eval c (1 - u))
      by (intro u; apply (seg_reverse_eval (SegCubic c) u)).
    rewrite (cubic_piece_crossing_partial fx c p t Hs Ha Hinj Ht Hy Hrows).
    rewrite (cubic_piece_crossing_partial fx (mkCubic (c3 c) (c2 c) (c1 c) (c0 c)) p (1 - t) Hs); cbn [c0 c1 c2 c3].
    + rewrite Hrev. replace (1 - (1 - t)) with t by ring. rewrite dir_sign_swap by exact Hne.
      destruct (Rle_dec _ _); lia.
    + lra.
    + intros u v Hu Hv E. rewrite !Hrev in E. apply Hinj in E; lra.
    + lra.
    + rewrite Hrev. replace (1 - (1 - t)) with t by ring. exact Hy.
    + rewrite Rmin_comm, Rmax_comm. exact Hrows.
  - rewrite !piece_out_of_rows; [reflexivity| |]; cbn [seg_start seg_end c0 c3]; [|rewrite Rmin_comm, Rmax_comm]; exact Hout.
Qed.

(** a piece the per-piece theorems apply to: monotone in y, and (curved pieces) a coordinate polynomial of full
    degree in y — the guard the solvers' divisions need at the real instance *)
Definition regular_piece (s : PathSeg R) : Prop :=
  match s with
  | SegLine _ => True
  | SegQuad q => py (q2 q) - 2 * py (q1 q) + py (q0 q) <> 0 /\ y_injective (quad_eval q)
  | SegCubic c => py (c3 c) - 3 * py (c2 c) + 3 * py (c1 c) - py (c0 c) <> 0 /\ y_injective (cubic_eval c)
  end.

Lemma winding_inner_reverse (fx : bool) (s : PathSeg R) (p : Point R) :
  regular_piece s -> winding_inner_gen fx (seg_reverse s) p = (- winding_inner_gen fx s p)%Z.
Proof.
  destruct s as [l|q|c]; cbn [regular_piece].
  - intros _. apply winding_inner_reverse_line.
  - intros [Ha Hi]. apply winding_inner_reverse_quad; assumption.
  - intros [Ha Hi]. apply winding_inner_reverse_cubic; [apply cubic_solver_exact_C15|assumption|assumption].
Qed.

Lemma contains_iff_nonzero (els : list (PathEl R)) (p : Point R) (w : Z) :
  path_winding els p = Some w -> path_contains els p = Some (negb (w =? 0)%Z).
Proof. intro Hw. unfold path_contains, path_contains_gen. fold (path_winding els p). rewrite Hw. reflexivity. Qed.

(** * Examples (non-vacuity) *)
Ltac decide_crossings :=
  unfold poly_crossing_number, cyc_edges; cbn [cyc_edges_from map fst snd sumZ];
  rewrite !edge_crossing_orient; unfold edge_crossing', orient; cbn [px py];
  repeat match goal with
  | |- context [Rlt_dec ?a ?b] => destruct (Rlt_dec a b); try lra
  | |- context [Rle_dec ?a ?b] => destruct (Rle_dec a b); try lra
  end; try reflexivity.

Lemma ex_square :
  path_winding (polygon_els (mkPoint 0 0) [mkPoint 1 0; mkPoint 1 1; mkPoint 0 1]) (mkPoint (/ 2) (/ 2)) = Some 1%Z.
Proof. rewrite polygon_winding_crossing_number. f_equal. decide_crossings. Qed.

Lemma ex_square_vertex_row :
  path_winding (polygon_els (mkPoint 0 0) [mkPoint 1 0; mkPoint 1 1; mkPoint 0 1]) (mkPoint 3 1) = Some 0%Z.
Proof. rewrite polygon_winding_crossing_number. f_equal. decide_crossings. Qed.

Lemma ex_square_reversed :
  path_winding (polygon_els (mkPoint 0 0) (rev [mkPoint 1 0; mkPoint 1 1; mkPoint 0 1])) (mkPoint (/ 2) (/ 2)) = Some (-1)%Z.
Proof. apply (polygon_winding_reverse _ _ _ 1%Z). exact ex_square. Qed.

Lemma ex_quad_regular : regular_piece (SegQuad (mkQuad (mkPoint 0 0) (mkPoint 1 1) (mkPoint 0 3))).
Proof.
  cbn [regular_piece q0 q1 q2 py]. split; [lra|].
  intros t u Ht Hu E. rewrite !quad_y_poly in E. cbn [q0 q1 q2 py] in E.
  assert (F : (t - u) * (2 + t + u) = 0) by nra.
  apply Rmult_integral in F. destruct F; lra.
Qed.

Ltac decide_ifs :=
  repeat match goal with
  | |- context [Rlt_dec ?a ?b] => destruct (Rlt_dec a b); try lra
  | |- context [Rle_dec ?a ?b] => destruct (Rle_dec a b); try lra
  end; try reflexivity.

Lemma ex_quad_piece :
  let q := mkQuad (mkPoint 0 0) (mkPoint 1 1) (mkPoint 0 3) in
  regular_piece (SegQuad q) /\
  winding_inner (SegQuad q) (mkPoint 2 (5 / 4)) = (-1)%Z /\ winding_inner (SegQuad q) (mkPoint (/ 4) (5 / 4)) = 0%Z.
Proof.
  intro q. pose proof ex_quad_regular as Hreg. split; [exact Hreg|]. destruct Hreg as [Ha Hi].
  (* the crossing of the row y = 5/4 is at t = 1/2: y(1/2) = 2/2 + 1/4, x(1/2) = 1/2 *)
  assert (Hy : py (quad_eval q (/ 2)) = 5 / 4) by (unfold q; crv_unfold; field).
  assert (Hx : px (quad_eval q (/ 2)) = / 2) by (unfold q; crv_unfold; field).
  split.
  - unfold winding_inner. rewrite (quad_piece_crossing true q (mkPoint 2 (5 / 4)) (/ 2) Ha Hi); cbn [px py].
    + rewrite Hx. unfold dir_sign, q. cbn [q0 q2 py]. decide_ifs.
    + lra.
    + exact Hy.
    + unfold q; cbn [q0 q2 py]. minmax.
  - unfold winding_inner. rewrite (quad_piece_crossing true q (mkPoint (/ 4) (5 / 4)) (/ 2) Ha Hi); cbn [px py].
    + rewrite Hx. unfold dir_sign, q. cbn [q0 q2 py]. decide_ifs.
    + lra.
    + exact Hy.
    + unfold q; cbn [q0 q2 py]. minmax.
Qed.

Lemma ex_closed_chain :
  let ps := [SegQuad (mkQuad (mkPoint 0 0) (mkPoint 1 1) (mkPoint 0 3)); SegLine (mkLine (mkPoint 0 3) (mkPoint 0 0))] in
  closed_chain ps /\ right_of_all (mkPoint 5 3) ps.
Proof.
  intro ps. split.
  - cbn. auto.
  - intros s c Hs Hc. unfold ps in Hs. cbn in Hs.
    destruct Hs as [<-|[<-|[]]]; cbn in Hc; repeat (destruct Hc as [<-|Hc]; [cbn; lra|]); destruct Hc.
Qed.

Lemma chain_reverse_regular (fx : bool) (ps : list (PathSeg R)) (p : Point R) :
  (forall s, In s ps -> regular_piece s) ->
  sum_Z (map (fun s => winding_inner_gen fx s p) (rev (map (fun s => seg_reverse s) ps))) =
  (- sum_Z (map (fun s => winding_inner_gen fx s p) ps))%Z.
Proof. intro H. apply chain_reverse_sum. intros s Hs. apply winding_inner_reverse, H, Hs. Qed.

(** * Splitting a monotone piece at an interior parameter *)

(* one statement for the three kinds of piece *)
Lemma line_x_at_crossing (l : Line R) (p : Point R) (t : R) :
  py (l0 l) <> py (l1 l) -> py (line_eval l t) = py p -> px (line_eval l t) = edge_x_at (l0 l) (l1 l) p.
Proof.
  destruct l as [[sx sy] [ex ey]], p as [x y]. cbn [l0 l1 px py]. intros Hne Hy.
  unfold edge_x_at. cbn [px py].
  assert (Ey : sy + t * (ey - sy) = y) by (rewrite <- Hy; crv_unfold; ring).
  assert (Ex : px (line_eval (mkLine (mkPoint sx sy) (mkPoint ex ey)) t) = sx + t * (ex - sx)) by (crv_unfold; ring).
  rewrite Ex. assert (t = (y - sy) / (ey - sy)) by (rewrite <- Ey; field; lra). subst t. field. lra.
Qed.

Lemma piece_crossing (fx : bool) (s : PathSeg R) (p : Point R) (t : R) :
  regular_piece s -> 0 <= t <= 1 -> py (seg_eval s t) = py p ->
  Rmin (py (seg_start s)) (py (seg_end s)) <= py p < Rmax (py (seg_start s)) (py (seg_end s)) ->
  winding_inner_gen fx s p =
    if Rle_dec (px (seg_eval s t)) (px p) then dir_sign (py (seg_start s)) (py (seg_end s)) else 0%Z.
Proof.
  destruct s as [l|q|c]; cbn [regular_piece seg_eval seg_start seg_end].
  - intros _ Ht Hy Hrows. rewrite line_piece_crossing_gen.
    assert (Hne : py (l0 l) <> py (l1 l)) by (intro E; rewrite E in Hrows; minmax).
    rewrite (line_x_at_crossing l p t Hne Hy). unfold edge_crossing, dir_sign.
    revert Hrows. unfold Rmin, Rmax.
    destruct (Rle_dec (py (l0 l)) (py (l1 l))); intro; decide_ifs.
  - intros [Ha Hi]. apply quad_piece_crossing; assumption.
  - intros [Ha Hi]. apply cubic_piece_crossing_partial; [apply cubic_solver_exact_C15|assumption|assumption].
Qed.

Lemma regular_inj (s : PathSeg R) : regular_piece s -> py (seg_start s) <> py (seg_end s) -> y_injective (seg_eval s).
Proof.
  destruct s as [l|q|c]; cbn [regular_piece seg_eval seg_start seg_end]; try tauto.
  intros _ Hne t u _ _ E. cbn [seg_eval] in E. rewrite !line_y_poly in E.
  assert ((t - u) * (py (l1 l) - py (l0 l)) = 0) by lra.
  apply Rmult_integral in H. destruct H; lra.
Qed.

Lemma regular_subsegment (s : PathSeg R) (t0 t1 : R) :
  regular_piece s -> 0 <= t0 -> t0 < t1 -> t1 <= 1 -> regular_piece (seg_subsegment s t0 t1).
Proof.
  intros Hreg H0 H01 H1. destruct s as [l|q|c]; cbn [regular_piece seg_subsegment] in *; [exact I| |].
  - destruct Hreg as [Ha Hi]. split.
    + replace (py (q2 (quad_subsegment q t0 t1)) - 2 * py (q1 (quad_subsegment q t0 t1)) + py (q0 (quad_subsegment q t0 t1)))
        with ((py (q2 q) - 2 * py (q1 q) + py (q0 q)) * ((t1 - t0) * (t1 - t0)))
        by (destruct q as [[sx sy] [mx my] [ex ey]]; crv_unfold; ring).
      apply Rmult_integral_contrapositive_currified; [exact Ha|]. nra.
    + intros u v Hu Hv E. rewrite !quad_subsegment_eval in E. apply Hi in E; nra.
  - destruct Hreg as [Ha Hi]. split.
    + replace (py (c3 (cubic_subsegment c t0 t1)) - 3 * py (c2 (cubic_subsegment c t0 t1))
               + 3 * py (c1 (cubic_subsegment c t0 t1)) - py (c0 (cubic_subsegment c t0 t1)))
        with ((py (c3 c) - 3 * py (c2 c) + 3 * py (c1 c) - py (c0 c)) * ((t1 - t0) * (t1 - t0) * (t1 - t0)))
        by (destruct c as [[sx sy] [ax ay] [bx by_] [ex ey]]; crv_unfold; field).
      apply Rmult_integral_contrapositive_currified; [exact Ha|].
      assert (0 < (t1 - t0) * (t1 - t0) * (t1 - t0)) by (repeat apply Rmult_lt_0_compat; lra). lra.
    + intros u v Hu Hv E. rewrite !cubic_subsegment_eval in E. apply Hi in E; nra.
Qed.

(* a continuous function injective on [0,1] takes, at an interior parameter, a value strictly between its end values *)
Lemma inj_between (f : R -> R) (t : R) : continuity f ->
  (forall u v, 0 <= u <= 1 -> 0 <= v <= 1 -> f u = f v -> u = v) -> 0 < t < 1 -> f 0 < f 1 -> f 0 < f t < f 1.
Proof.
  intros Hc Hi Ht H01.
  assert (A : ~ f 1 <= f t).
  { intro H. destruct (IVT_gen f 0 t (f 1) Hc) as [u [Hu Eu]].
    - unfold Rmin, Rmax. destruct (Rle_dec (f 0) (f t)); lra.
    - revert Hu. unfold Rmin, Rmax. destruct (Rle_dec 0 t); [|lra]. intro Hu.
      assert (u = 1) by (apply Hi; lra). lra. }
  assert (B : ~ f t <= f 0).
  { intro H. destruct (IVT_gen f t 1 (f 0) Hc) as [u [Hu Eu]].
    - unfold Rmin, Rmax. destruct (Rle_dec (f t) (f 1)); lra.
    - revert Hu. unfold Rmin, Rmax. destruct (Rle_dec t 1); [|lra]. intro Hu.
      assert (u = 0) by (apply Hi; lra). lra. }
  lra.
Qed.

Lemma regular_between (s : PathSeg R) (t : R) :
  regular_piece s -> 0 < t < 1 ->
  (py (seg_start s) < py (seg_end s) -> py (seg_start s) < py (seg_eval s t) < py (seg_end s)) /\
  (py (seg_end s) < py (seg_start s) -> py (seg_end s) < py (seg_eval s t) < py (seg_start s)).
Proof.
  intros Hreg Ht. destruct (seg_eval_endpoints s) as [E0 E1].
  pose proof (seg_y_continuous s) as Hc.
  split; intro H.
  - assert (Hi := regular_inj s Hreg ltac:(lra)).
    pose proof (inj_between (fun u => py (seg_eval s u)) t Hc Hi Ht) as B. cbv beta in B.
    rewrite E0, E1 in B. apply B. exact H.
  - assert (Hi := regular_inj s Hreg ltac:(lra)).
    assert (Hc' : continuity (fun u => - py (seg_eval s u))).
    { intro x. apply continuity_pt_opp. apply Hc. }
    assert (Hi' : forall u v, 0 <= u <= 1 -> 0 <= v <= 1 -> - py (seg_eval s u) = - py (seg_eval s v) -> u = v)
      by (intros u v Hu Hv E; apply Hi; lra).
    pose proof (inj_between (fun u => - py (seg_eval s u)) t Hc' Hi' Ht) as B. cbv beta in B.
    rewrite E0, E1 in B. lra.
Qed.

Lemma regular_flat (s : PathSeg R) (t : R) :
  regular_piece s -> py (seg_start s) = py (seg_end s) -> py (seg_eval s t) = py (seg_start s).
Proof.
  destruct s as [l|q|c]; cbn [regular_piece seg_eval seg_start seg_end].
  - intros _ E. rewrite line_y_poly. rewrite E. ring.
  - intros [_ Hi] E. exfalso.
    destruct (seg_eval_endpoints (SegQuad q)) as [E0 E1]. cbn [seg_eval seg_start seg_end] in E0, E1.
    assert (0 = 1); [|lra]. apply Hi; try lra. rewrite E0, E1. exact E.
  - intros [_ Hi] E. exfalso.
    destruct (seg_eval_endpoints (SegCubic c)) as [E0 E1]. cbn [seg_eval seg_start seg_end] in E0, E1.
    assert (0 = 1); [|lra]. apply Hi; try lra. rewrite E0, E1. exact E.
Qed.

Lemma out_rows_sub (a b m y : R) : (Rmin a b < m < Rmax a b \/ (m = a /\ a = b)) ->
  (y < Rmin a b \/ Rmax a b <= y) ->
  (y < Rmin a m \/ Rmax a m <= y) /\ (y < Rmin m b \/ Rmax m b <= y).
Proof.
  unfold Rmin, Rmax. intros Hm Hy.
  destruct (Rle_dec a b), (Rle_dec a m), (Rle_dec m b); split;
    (destruct Hy; [left|right]; lra) || (destruct Hm as [Hm|[Hm1 Hm2]]; destruct Hy; lra).
Qed.

Lemma rows_split (a b m y : R) : Rmin a b < m < Rmax a b -> Rmin a b <= y < Rmax a b ->
  (Rmin a m <= y < Rmax a m /\ (y < Rmin m b \/ Rmax m b <= y)) \/
  (Rmin m b <= y < Rmax m b /\ (y < Rmin a m \/ Rmax a m <= y)).
Proof.
  unfold Rmin, Rmax. intros Hm Hy.
  destruct (Rle_dec a b), (Rle_dec a m), (Rle_dec m b); try lra;
    destruct (Rlt_dec y m);
    ((left; split; [lra|(left; lra) || (right; lra)]) || (right; split; [lra|(left; lra) || (right; lra)])).
Qed.

Lemma dir_sign_sub (a b m : R) : Rmin a b < m < Rmax a b -> dir_sign a m = dir_sign a b /\ dir_sign m b = dir_sign a b.
Proof.
  unfold Rmin, Rmax, dir_sign. intro H.
  destruct (Rle_dec a b), (Rlt_dec a b), (Rlt_dec a m), (Rlt_dec m b); split; try reflexivity; lra.
Qed.

Lemma winding_split (fx : bool) (s : PathSeg R) (p : Point R) (t : R) :
  regular_piece s -> 0 < t < 1 ->
  Z.add (winding_inner_gen fx (seg_subsegment s 0 t) p) (winding_inner_gen fx (seg_subsegment s t 1) p)
  = winding_inner_gen fx s p.
Proof.
  intros Hreg Ht.
  set (s1 := seg_subsegment s 0 t). set (s2 := seg_subsegment s t 1).
  assert (R1 : regular_piece s1) by (apply regular_subsegment; try assumption; lra).
  assert (R2 : regular_piece s2) by (apply regular_subsegment; try assumption; lra).
  destruct (seg_eval_endpoints s) as [E0 E1].
  destruct (seg_subsegment_endpoints s 0 t) as [S1 F1]. destruct (seg_subsegment_endpoints s t 1) as [S2 F2].
  fold s1 in S1, F1. fold s2 in S2, F2. rewrite E0 in S1. rewrite E1 in F2.
  assert (Y1s : py (seg_start s1) = py (seg_start s)) by (rewrite S1; reflexivity).
  assert (Y1e : py (seg_end s1) = py (seg_eval s t)) by (rewrite F1; reflexivity).
  assert (Y2s : py (seg_start s2) = py (seg_eval s t)) by (rewrite S2; reflexivity).
  assert (Y2e : py (seg_end s2) = py (seg_end s)) by (rewrite F2; reflexivity).
  destruct (regular_between s t Hreg Ht) as [Bup Bdn].
  set (sy := py (seg_start s)) in *. set (ey := py (seg_end s)) in *.
  set (ym := py (seg_eval s t)) in *. set (y := py p).
  destruct (Req_dec sy ey) as [Eflat|Hne].
  { (* flat: a horizontal line *)
    assert (Hm : ym = sy) by (apply regular_flat; assumption).
    destruct (rows_cases sy ey y) as [[C _]|Hout]; [contradiction|].
    destruct (out_rows_sub sy ey ym y (or_intror (conj Hm Eflat)) Hout) as [O1 O2].
    rewrite (piece_out_of_rows fx s1) by (rewrite Y1s, Y1e; exact O1).
    rewrite (piece_out_of_rows fx s2) by (rewrite Y2s, Y2e; exact O2).
    rewrite (piece_out_of_rows fx s) by exact Hout. reflexivity. }
  assert (Bm : Rmin sy ey < ym < Rmax sy ey)
    by (unfold Rmin, Rmax; destruct (Rle_dec sy ey); [apply Bup|apply Bdn]; lra).
  destruct (dir_sign_sub sy ey ym Bm) as [D1 D2].
  destruct (rows_cases sy ey y) as [[_ Hrows]|Hout].
  2:{ destruct (out_rows_sub sy ey ym y (or_introl Bm) Hout) as [O1 O2].
      rewrite (piece_out_of_rows fx s1) by (rewrite Y1s, Y1e; exact O1).
      rewrite (piece_out_of_rows fx s2) by (rewrite Y2s, Y2e; exact O2).
      rewrite (piece_out_of_rows fx s) by exact Hout. reflexivity. }
  destruct (rows_split sy ey ym y Bm Hrows) as [[H1 O2]|[H2 O1]].
  - (* the first part spans the row *)
    destruct (piece_row_has_crossing s1 p) as [u [Hu Hy]]; [rewrite Y1s, Y1e; fold y; lra|].
    assert (Ev : seg_eval s1 u = seg_eval s (0 + u * (t - 0))) by apply seg_subsegment_eval.
    rewrite (piece_crossing fx s1 p u R1 Hu Hy) by (rewrite Y1s, Y1e; exact H1).
    assert (Hu' : 0 <= 0 + u * (t - 0) <= 1) by nra.
    rewrite (piece_crossing fx s p (0 + u * (t - 0)) Hreg Hu') by (try (rewrite <- Ev; exact Hy); exact Hrows).
    rewrite (piece_out_of_rows fx s2) by (rewrite Y2s, Y2e; exact O2).
    rewrite Ev, Y1s, Y1e. fold sy ey. rewrite D1. lia.
  - (* the second part spans the row *)
    destruct (piece_row_has_crossing s2 p) as [u [Hu Hy]]; [rewrite Y2s, Y2e; fold y; lra|].
    assert (Ev : seg_eval s2 u = seg_eval s (t + u * (1 - t))) by apply seg_subsegment_eval.
    rewrite (piece_crossing fx s2 p u R2 Hu Hy) by (rewrite Y2s, Y2e; exact H2).
    assert (Hu' : 0 <= t + u * (1 - t) <= 1) by nra.
    rewrite (piece_crossing fx s p (t + u * (1 - t)) Hreg Hu') by (try (rewrite <- Ev; exact Hy); exact Hrows).
    rewrite (piece_out_of_rows fx s1) by (rewrite Y1s, Y1e; exact O1).
    rewrite Ev, Y2s, Y2e. fold sy ey. rewrite D2. lia.
Qed.

(** * The extrema pieces of a quadratic are monotone (or degenerate) *)
From Coq Require Import Sorting.Sorted.

(* ranges of a sorted list of parameters in [lo,1]: consecutive, ordered, and no listed parameter strictly inside *)
Lemma ranges_from_spec : forall (l : list R) (lo : R),
  StronglySorted Rle (lo :: l) -> (forall t, In t (lo :: l) -> t <= 1) ->
  forall r, In r (w_ranges_from lo l) ->
    lo <= fst r /\ fst r <= snd r /\ snd r <= 1 /\ (forall t, In t (lo :: l) -> ~ (fst r < t < snd r)).
Proof.
  induction l as [|x l IH]; intros lo Hs Hb r Hr; cbn [w_ranges_from] in Hr.
  - destruct Hr as [<-|[]]. cbn [fst snd]. change (@f1 R RS) with 1.
    assert (lo <= 1) by (apply Hb; simpl; auto). repeat split; try lra.
    intros t [<-|[]]. lra.
  - inversion Hs as [|? ? Hs' Hall]; subst. inversion Hall as [|? ? Hlox Hall']; subst.
    destruct Hr as [<-|Hr].
    + cbn [fst snd]. assert (x <= 1) by (apply Hb; simpl; auto). repeat split; try lra.
      intros t [<-|[<-|Ht]]; try lra.
      inversion Hs' as [|? ? _ Hx]; subst. rewrite Forall_forall in Hx. specialize (Hx t Ht). lra.
    + destruct (IH x Hs' (fun t Ht => Hb t (or_intror Ht)) r Hr) as (A & B & C & D).
      repeat split; try lra. intros t [<-|Ht]; [lra|apply D; exact Ht].
Qed.

(* the y-polynomial of a quadratic: y(t) - y(t') = (t - t') * (2 d0y + a (t + t')) *)
Lemma quad_y_diff (q : QuadBez R) (t t' : R) :
  py (quad_eval q t) - py (quad_eval q t') =
  (t - t') * (2 * (py (q1 q) - py (q0 q)) + (py (q2 q) - 2 * py (q1 q) + py (q0 q)) * (t + t')).
Proof. rewrite !quad_y_poly. ring. Qed.

Lemma quad_range_regular (q : QuadBez R) (t0 t1 ty : R) :
  let a := py (q2 q) - 2 * py (q1 q) + py (q0 q) in
  a <> 0 -> a * ty = - (py (q1 q) - py (q0 q)) -> 0 <= t0 -> t0 < t1 -> t1 <= 1 -> (ty <= t0 \/ t1 <= ty) ->
  regular_piece (SegQuad (quad_subsegment q t0 t1)).
Proof.
  intros a Ha Hty H0 H01 H1 Hout. cbn [regular_piece]. split.
  - replace (py (q2 (quad_subsegment q t0 t1)) - 2 * py (q1 (quad_subsegment q t0 t1)) + py (q0 (quad_subsegment q t0 t1)))
      with (a * ((t1 - t0) * (t1 - t0))) by (unfold a; destruct q as [[sx sy] [mx my] [ex ey]]; crv_unfold; ring).
    apply Rmult_integral_contrapositive_currified; [exact Ha|]. nra.
  - intros u v Hu Hv E. rewrite !quad_subsegment_eval in E.
    set (T := t0 + u * (t1 - t0)) in *. set (T' := t0 + v * (t1 - t0)) in *.
    assert (D : (T - T') * (2 * (py (q1 q) - py (q0 q)) + a * (T + T')) = 0)
      by (unfold a; rewrite <- quad_y_diff; lra).
    assert (HT : t0 <= T <= t1) by (unfold T; nra). assert (HT' : t0 <= T' <= t1) by (unfold T'; nra).
    apply Rmult_integral in D. destruct D as [D|D].
    + assert ((u - v) * (t1 - t0) = 0) by (unfold T, T' in D; lra).
      apply Rmult_integral in H. destruct H; lra.
    + (* a (T + T' - 2 ty) = 0, so T + T' = 2 ty, which forces T = T' at an end of the range *)
      assert (F : a * (T + T' - 2 * ty) = 0) by lra.
      apply Rmult_integral in F. destruct F as [F|F]; [contradiction|].
      assert (T = T') by (destruct Hout; lra).
      assert ((u - v) * (t1 - t0) = 0) by (unfold T, T' in H; lra).
      apply Rmult_integral in H2. destruct H2; lra.
Qed.

Lemma w_interior_R (t : R) : w_interior t = true <-> 0 < t < 1.
Proof.
  unfold w_interior. rs_unfold. split.
  - intro H. bool_to_prop. lra.
  - intros [A B]. apply andb_true_iff. split; bool_to_prop; lra.
Qed.

Lemma ssorted1 (x : R) : StronglySorted Rle [x].
Proof. apply SSorted_cons; [apply SSorted_nil|apply Forall_nil]. Qed.
Lemma ssorted2 (x y : R) : x <= y -> StronglySorted Rle [x; y].
Proof. intro H. apply SSorted_cons; [apply ssorted1|apply Forall_cons; [exact H|apply Forall_nil]]. Qed.

Lemma quad_extrema_spec (q : QuadBez R) :
  let a := py (q2 q) - 2 * py (q1 q) + py (q0 q) in
  let ty := - (py (q1 q) - py (q0 q)) / a in
  a <> 0 ->
  (forall t, In t (w_quad_extrema q) -> 0 < t < 1) /\ StronglySorted Rle (w_quad_extrema q) /\
  (0 < ty < 1 -> In ty (w_quad_extrema q)).
Proof.
  intros a ty Ha. destruct q as [[sx sy] [mx my] [ex ey]]. cbn [q0 q1 q2 px py] in a, ty.
  unfold w_quad_extrema. cbn [q0 q1 q2 pt_sub v_sub vx vy px py].
  change (@fsub R RS) with Rminus. change (@fdiv R RS) with Rdiv. change (@fneg R RS) with Ropp.
  change (@feqb R RS) with Reqb. change (@fltb R RS) with Rltb. change (@f0 R RS) with 0.
  assert (Ea : ey - my - (my - sy) = a) by (unfold a; ring). rewrite Ea.
  destruct (Reqb_spec a 0) as [C|_]; [contradiction|]. cbn [negb].
  fold ty.
  set (tx := - (mx - sx) / (ex - mx - (mx - sx))).
  destruct (w_interior ty) eqn:Iy; [apply w_interior_R in Iy|].
  - destruct (negb (Reqb (ex - mx - (mx - sx)) 0)); [destruct (w_interior tx) eqn:Ix|].
    + apply w_interior_R in Ix. destruct (Rltb_spec ty tx).
      * split; [|split]; [intros t [<-|[<-|[]]]; lra|apply ssorted2; lra|intro; simpl; auto].
      * split; [|split]; [intros t [<-|[<-|[]]]; lra|apply ssorted2; lra|intro; simpl; auto].
    + cbn [app]. split; [|split]; [intros t [<-|[]]; lra|apply ssorted1|intro; simpl; auto].
    + cbn [app]. split; [|split]; [intros t [<-|[]]; lra|apply ssorted1|intro; simpl; auto].
  - assert (Ny : ~ 0 < ty < 1) by (intro H; apply w_interior_R in H; congruence).
    destruct (negb (Reqb (ex - mx - (mx - sx)) 0)); [destruct (w_interior tx) eqn:Ix|].
    + apply w_interior_R in Ix. split; [|split]; [intros t [<-|[]]; lra|apply ssorted1|intro; contradiction].
    + split; [|split]; [intros t []|apply SSorted_nil|intro; contradiction].
    + split; [|split]; [intros t []|apply SSorted_nil|intro; contradiction].
Qed.

Lemma quad_pieces_regular_or_flat (q : QuadBez R) :
  py (q2 q) - 2 * py (q1 q) + py (q0 q) <> 0 ->
  forall pc, In pc (w_subpieces (SegQuad q)) -> regular_piece pc \/ seg_start pc = seg_end pc.
Proof.
  intros Ha pc Hin. unfold w_subpieces, w_extrema_ranges in Hin. cbn [w_seg_extrema] in Hin.
  apply in_map_iff in Hin. destruct Hin as [r [<- Hr]].
  destruct (quad_extrema_spec q Ha) as (Hint & Hsort & Hty).
  set (a := py (q2 q) - 2 * py (q1 q) + py (q0 q)) in *.
  set (ty := - (py (q1 q) - py (q0 q)) / a) in *.
  change (@f0 R RS) with 0 in Hr.
  destruct (ranges_from_spec (w_quad_extrema q) 0) with (r := r) as (A & B & C & D); try assumption.
  - constructor; [exact Hsort|]. apply Forall_forall. intros t Ht. specialize (Hint t Ht). lra.
  - intros t [<-|Ht]; [lra|]. specialize (Hint t Ht). lra.
  - cbn [seg_subsegment]. destruct (Req_dec (fst r) (snd r)) as [E|NE].
    + right. rewrite E. reflexivity.
    + left. apply (quad_range_regular q (fst r) (snd r) ty); try lra.
      * exact Ha.
      * fold a. unfold ty. field. exact Ha.
      * destruct (Rle_dec ty (fst r)); [left; assumption|]. destruct (Rle_dec (snd r) ty); [right; assumption|].
        exfalso. apply (D ty); [|lra]. right. apply Hty. lra.
Qed.

Lemma quad_regular_direct (q : QuadBez R) (ty : R) :
  let a := py (q2 q) - 2 * py (q1 q) + py (q0 q) in
  a <> 0 -> a * ty = - (py (q1 q) - py (q0 q)) -> (ty <= 0 \/ 1 <= ty) -> regular_piece (SegQuad q).
Proof.
  intros a Ha Hty Hout. cbn [regular_piece]. split; [exact Ha|].
  intros u v Hu Hv E.
  assert (D : (u - v) * (2 * (py (q1 q) - py (q0 q)) + a * (u + v)) = 0)
    by (pose proof (quad_y_diff q u v) as D0; fold a in D0; rewrite E in D0; lra).
  apply Rmult_integral in D. destruct D as [D|D]; [lra|].
  assert (F : a * (u + v - 2 * ty) = 0) by lra.
  apply Rmult_integral in F. destruct F as [F|F]; [contradiction|]. destruct Hout; lra.
Qed.

Lemma piece_flat_zero (fx : bool) (s : PathSeg R) (p : Point R) :
  py (seg_start s) = py (seg_end s) -> winding_inner_gen fx s p = 0%Z.
Proof.
  intro E. apply piece_out_of_rows. rewrite E. unfold Rmin, Rmax.
  destruct (Rle_dec (py (seg_end s)) (py (seg_end s))); destruct (Rlt_dec (py p) (py (seg_end s))); lra.
Qed.

(** every piece the ray cast is applied to, for a quadratic whose y-polynomial has degree 2, is monotone in y
    (meets the hypotheses of the per-piece theorems) or is a single point *)
Lemma quad_pieces_monotone (fx : bool) (q : QuadBez R) :
  py (q2 q) - 2 * py (q1 q) + py (q0 q) <> 0 ->
  forall pc, In pc (w_pieces_gen fx (SegQuad q)) -> regular_piece pc \/ seg_start pc = seg_end pc.
Proof.
  intros Ha pc Hin. unfold w_pieces_gen in Hin.
  destruct fx; [|apply (quad_pieces_regular_or_flat q); assumption].
  destruct (w_extrema_ranges (SegQuad q)) as [|r [|r' rs]] eqn:E;
    try (apply (quad_pieces_regular_or_flat q); assumption).
  destruct Hin as [<-|[]]. left.
  (* a single range: no extremum in (0,1) *)
  unfold w_extrema_ranges in E. cbn [w_seg_extrema] in E.
  destruct (w_quad_extrema q) as [|x l] eqn:El; [|destruct l; discriminate].
  destruct (quad_extrema_spec q Ha) as (_ & _ & Hty). rewrite El in Hty.
  set (a := py (q2 q) - 2 * py (q1 q) + py (q0 q)) in *.
  apply (quad_regular_direct q (- (py (q1 q) - py (q0 q)) / a)); [exact Ha|fold a; field; exact Ha|].
  destruct (Rle_dec (- (py (q1 q) - py (q0 q)) / a) 0); [left; assumption|].
  destruct (Rle_dec 1 (- (py (q1 q) - py (q0 q)) / a)); [right; assumption|].
  exfalso. apply Hty. lra.
Qed.

(** * The extrema pieces of a cubic are monotone (or degenerate) *)

(* the stable insertion sort of [CubicBez::extrema] *)
Lemma w_insert_In (x : R) (l : list R) (t : R) : In t (w_insert x l) <-> t = x \/ In t l.
Proof.
  induction l as [|y r IH]; cbn [w_insert]; [simpl; intuition|].
  change (@fltb R RS) with Rltb. destruct (Rltb_spec x y); simpl; [intuition|]. rewrite IH. intuition.
Qed.

Lemma w_insert_sorted (x : R) (l : list R) : StronglySorted Rle l -> StronglySorted Rle (w_insert x l).
Proof.
  induction l as [|y r IH]; intro Hs; cbn [w_insert]; [apply ssorted1|].
  change (@fltb R RS) with Rltb. inversion Hs as [|? ? Hs' Hall]; subst.
  destruct (Rltb_spec x y).
  - apply SSorted_cons; [exact Hs|]. apply Forall_cons; [lra|].
    rewrite Forall_forall in *. intros z Hz. specialize (Hall z Hz). lra.
  - apply SSorted_cons; [apply IH; exact Hs'|]. rewrite Forall_forall in *. intros z Hz.
    apply w_insert_In in Hz. destruct Hz as [->|Hz]; [lra|apply Hall; exact Hz].
Qed.

Lemma w_sort_spec (l : list R) : StronglySorted Rle (w_sort l) /\ (forall t, In t (w_sort l) <-> In t l).
Proof.
  unfold w_sort.
  assert (G : forall l acc, StronglySorted Rle acc ->
            StronglySorted Rle (fold_left (fun a x => w_insert x a) l acc) /\
            (forall t, In t (fold_left (fun a x => w_insert x a) l acc) <-> In t l \/ In t acc)).
  { clear l. induction l as [|x l IH]; intros acc Hs; cbn [fold_left]; [split; [exact Hs|simpl; intuition]|].
    destruct (IH (w_insert x acc) (w_insert_sorted x acc Hs)) as [S I]. split; [exact S|].
    intro t. rewrite I, w_insert_In. simpl. intuition. }
  destruct (G l [] (SSorted_nil _)) as [S I]. split; [exact S|]. intro t. rewrite I. simpl. intuition.
Qed.

(* the derivative's y-coordinate, divided by 3: d0 + 2 (d1 - d0) t + (d0 - 2 d1 + d2) t^2 *)
Definition cubic_dy (c : CubicBez R) (t : R) : R :=
  let d0 := py (c1 c) - py (c0 c) in let d1 := py (c2 c) - py (c1 c) in let d2 := py (c3 c) - py (c2 c) in
  d0 + (2 * (d1 - d0)) * t + (d0 - 2 * d1 + d2) * (t * t).

Lemma cubic_deriv_y (c : CubicBez R) (t : R) : py (quad_eval (cubic_deriv c) t) = 3 * cubic_dy c t.
Proof. destruct c as [[sx sy] [ax ay] [bx by_] [ex ey]]. unfold cubic_dy. crv_unfold. ring. Qed.

Lemma one_coord_In (d0 d1 d2 t : R) : d0 - 2 * d1 + d2 <> 0 ->
  (In t (w_one_coord d0 d1 d2) <-> 0 < t < 1 /\ d0 + (2 * (d1 - d0)) * t + (d0 - 2 * d1 + d2) * (t * t) = 0).
Proof.
  intro Ha. unfold w_one_coord. rewrite filter_In, w_interior_R.
  destruct (C15_proofs.solve_quadratic_spec_main d0 (2 * (d1 - d0)) (d0 - 2 * d1 + d2) Ha) as [Hin _].
  cbv zeta in Hin. rewrite <- Hin. tauto.
Qed.

Lemma one_coord_interior (d0 d1 d2 t : R) : In t (w_one_coord d0 d1 d2) -> 0 < t < 1.
Proof. unfold w_one_coord. rewrite filter_In, w_interior_R. tauto. Qed.

Lemma cubic_extrema_spec (c : CubicBez R) :
  py (c3 c) - 3 * py (c2 c) + 3 * py (c1 c) - py (c0 c) <> 0 ->
  (forall t, In t (w_cubic_extrema c) -> 0 < t < 1) /\ StronglySorted Rle (w_cubic_extrema c) /\
  (forall t, 0 < t < 1 -> cubic_dy c t = 0 -> In t (w_cubic_extrema c)).
Proof.
  intro Ha. unfold w_cubic_extrema. cbn [pt_sub vx vy]. change (@fsub R RS) with Rminus.
  destruct (w_sort_spec (w_one_coord (px (c1 c) - px (c0 c)) (px (c2 c) - px (c1 c)) (px (c3 c) - px (c2 c)) ++
                         w_one_coord (py (c1 c) - py (c0 c)) (py (c2 c) - py (c1 c)) (py (c3 c) - py (c2 c)))) as [S I].
  split; [|split; [exact S|]].
  - intros t Ht. apply I, in_app_or in Ht. destruct Ht; eapply one_coord_interior; eassumption.
  - intros t Ht Hd. apply I, in_or_app. right. apply one_coord_In; [lra|]. split; [exact Ht|exact Hd].
Qed.

(* Rolle: no zero of y' strictly inside the range => y injective on the range *)
Lemma cubic_inj_on_range (c : CubicBez R) (t0 t1 : R) :
  (forall x, t0 < x < t1 -> cubic_dy c x <> 0) ->
  forall t t', t0 <= t <= t1 -> t0 <= t' <= t1 -> py (cubic_eval c t) = py (cubic_eval c t') -> t = t'.
Proof.
  intros Hnz.
  assert (G : forall t t', t0 <= t -> t < t' -> t' <= t1 -> py (cubic_eval c t) <> py (cubic_eval c t')).
  { intros t t' H0 Hlt H1 E.
    destruct (MVT_cor2 (fun u => py (cubic_eval c u)) (fun u => py (quad_eval (cubic_deriv c) u)) t t' Hlt) as [x [Hx Hin]].
    - intros u _. apply is_derive_Reals. apply cubic_deriv_is_derivative.
    - cbv beta in Hx. rewrite cubic_deriv_y in Hx. apply (Hnz x); [lra|]. nra. }
  intros t t' Ht Ht' E. destruct (Rtotal_order t t') as [L|[Eq|L]]; [|exact Eq|].
  - exfalso. apply (G t t'); lra.
  - exfalso. apply (G t' t); lra.
Qed.

Lemma cubic_range_regular (c : CubicBez R) (t0 t1 : R) :
  py (c3 c) - 3 * py (c2 c) + 3 * py (c1 c) - py (c0 c) <> 0 ->
  0 <= t0 -> t0 < t1 -> t1 <= 1 -> (forall x, t0 < x < t1 -> cubic_dy c x <> 0) ->
  regular_piece (SegCubic (cubic_subsegment c t0 t1)).
Proof.
  intros Ha H0 H01 H1 Hnz. cbn [regular_piece]. split.
  - replace (py (c3 (cubic_subsegment c t0 t1)) - 3 * py (c2 (cubic_subsegment c t0 t1))
             + 3 * py (c1 (cubic_subsegment c t0 t1)) - py (c0 (cubic_subsegment c t0 t1)))
      with ((py (c3 c) - 3 * py (c2 c) + 3 * py (c1 c) - py (c0 c)) * ((t1 - t0) * (t1 - t0) * (t1 - t0)))
      by (destruct c as [[sx sy] [ax ay] [bx by_] [ex ey]]; crv_unfold; field).
    apply Rmult_integral_contrapositive_currified; [exact Ha|].
    assert (0 < (t1 - t0) * (t1 - t0) * (t1 - t0)) by (repeat apply Rmult_lt_0_compat; lra). lra.
  - intros u v Hu Hv E. rewrite !cubic_subsegment_eval in E.
    apply (cubic_inj_on_range c t0 t1 Hnz) in E; nra.
Qed.

Lemma cubic_pieces_regular_or_flat (c : CubicBez R) :
  py (c3 c) - 3 * py (c2 c) + 3 * py (c1 c) - py (c0 c) <> 0 ->
  forall pc, In pc (w_subpieces (SegCubic c)) -> regular_piece pc \/ seg_start pc = seg_end pc.
Proof.
  intros Ha pc Hin. unfold w_subpieces, w_extrema_ranges in Hin. cbn [w_seg_extrema] in Hin.
  apply in_map_iff in Hin. destruct Hin as [r [<- Hr]].
  destruct (cubic_extrema_spec c Ha) as (Hint & Hsort & Hall).
  change (@f0 R RS) with 0 in Hr.
  destruct (ranges_from_spec (w_cubic_extrema c) 0) with (r := r) as (A & B & C & D); try assumption.
  - constructor; [exact Hsort|]. apply Forall_forall. intros t Ht. specialize (Hint t Ht). lra.
  - intros t [<-|Ht]; [lra|]. specialize (Hint t Ht). lra.
  - cbn [seg_subsegment]. destruct (Req_dec (fst r) (snd r)) as [E|NE].
    + right. rewrite E. reflexivity.
    + left. apply cubic_range_regular; try lra; try exact Ha.
      intros x Hx Hz. apply (D x); [|exact Hx]. right. apply Hall; [lra|exact Hz].
Qed.

Lemma cubic_pieces_monotone (fx : bool) (c : CubicBez R) :
  py (c3 c) - 3 * py (c2 c) + 3 * py (c1 c) - py (c0 c) <> 0 ->
  forall pc, In pc (w_pieces_gen fx (SegCubic c)) -> regular_piece pc \/ seg_start pc = seg_end pc.
Proof.
  intros Ha pc Hin. unfold w_pieces_gen in Hin.
  destruct fx; [|apply (cubic_pieces_regular_or_flat c); assumption].
  destruct (w_extrema_ranges (SegCubic c)) as [|r [|r' rs]] eqn:E;
    try (apply (cubic_pieces_regular_or_flat c); assumption).
  destruct Hin as [<-|[]]. left.
  unfold w_extrema_ranges in E. cbn [w_seg_extrema] in E.
  destruct (w_cubic_extrema c) as [|x l] eqn:El; [|destruct l; discriminate].
  destruct (cubic_extrema_spec c Ha) as (_ & _ & Hall). rewrite El in Hall.
  cbn [regular_piece]. split; [exact Ha|].
  intros u v Hu Hv Euv. apply (cubic_inj_on_range c 0 1); try assumption.
Qed.

(** the y-polynomial of a curved segment has full degree (the guard of the solver models at the real instance) *)
Definition full_degree_y (s : PathSeg R) : Prop :=
  match s with
  | SegLine _ => True
  | SegQuad q => py (q2 q) - 2 * py (q1 q) + py (q0 q) <> 0
  | SegCubic c => py (c3 c) - 3 * py (c2 c) + 3 * py (c1 c) - py (c0 c) <> 0
  end.

Lemma pieces_monotone (fx : bool) (s : PathSeg R) : full_degree_y s ->
  forall pc, In pc (w_pieces_gen fx s) -> regular_piece pc \/ seg_start pc = seg_end pc.
Proof.
  destruct s as [l|q|c]; cbn [full_degree_y]; intros Ha pc Hin.
  - left. destruct fx; cbn in Hin; destruct Hin as [<-|[]]; exact I.
  - eapply quad_pieces_monotone; eassumption.
  - eapply cubic_pieces_monotone; eassumption.
Qed.
