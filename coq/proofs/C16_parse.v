(** C16: the command loop of [from_svg] on rendered command lists, termination, errors. *)
From Coq Require Import ZArith List Bool Lia.
From KV Require Import Scalar Geom Curves Path ShapeTypes Svg SvgSpec C16_lex.
Import ListNotations.
Local Open Scope Z_scope.

Section Parse.
Context {T : Type} `{Scalar T}.
Variable num_of : list Z -> option T.
Variable frem : T -> T -> T.

Local Notation Cmd := (@SCmd T).
Local Notation AArg := (@Arg T).
Local Notation getnum := (get_number num_of).

(** ** numbers and flags at the head of the input, up to leading white space *)
Lemma get_number_skip s : getnum (skip_ws s) = getnum s.
Proof. unfold get_number. rewrite lex_number_skip. reflexivity. Qed.

Lemma get_number_at r0 t K x : skip_ws r0 = t ++ K -> number_tok t -> num_of t = Some x ->
  delim t K -> getnum r0 = Ok (x, K).
Proof.
  intros E Ht Hx Hd. rewrite <- get_number_skip, E. unfold get_number.
  rewrite lex_number_tok; auto. simpl. rewrite Hx. reflexivity.
Qed.

Lemma get_flag_at r0 (b : bool) K : skip_ws r0 = (if b then 49 else 48) :: K -> get_flag r0 = Ok (b, K).
Proof. intros E. rewrite <- get_flag_skip, E. apply get_flag_fwd. Qed.

Lemma get_number_consumes s x r : getnum s = Ok (x, r) -> (length r < length s)%nat.
Proof.
  unfold get_number. destruct (lex_number s) as [[t r']|e] eqn:E; simpl; [|discriminate].
  destruct (num_of t); intros E'; inversion E'; subst. eapply lex_number_consumes; eauto.
Qed.

(** ** reading a whole argument list: every argument is followed by [opt_comma] *)
Definition is_flag (a : AArg) : bool := match a with AFlag _ => true | ANum _ => false end.

Fixpoint consume (kinds : list bool) (s : list Z) : res (list AArg * list Z) :=
  match kinds with
  | [] => Ok ([], s)
  | false :: ks =>
      bind (getnum s) (fun '(x, r) =>
      bind (consume ks (opt_comma r)) (fun '(vs, r') => Ok (ANum x :: vs, r')))
  | true :: ks =>
      bind (get_flag s) (fun '(b, r) =>
      bind (consume ks (opt_comma r)) (fun '(vs, r') => Ok (AFlag b :: vs, r')))
  end.

Lemma arg_ok_tailk a t K : arg_ok num_of a t -> tailk (t ++ K).
Proof.
  destruct a; simpl.
  - intros [Ht _]. apply number_tok_tailk; auto.
  - intros ->. destruct b; simpl; split; reflexivity.
Qed.
Lemma arg_ok_nonempty a t : arg_ok num_of a t -> t <> [].
Proof.
  destruct a; simpl.
  - intros [Ht _]. destruct (number_tok_head _ Ht) as (c & r & -> & _). discriminate.
  - intros ->. discriminate.
Qed.

Lemma delim_app t a b : a <> [] -> delim t a -> delim t (a ++ b).
Proof. destruct a; [congruence|]. simpl. auto. Qed.

(** the text [s ++ K] after token [t]: fine if [s] is a non-empty separator, or if [K] may be glued on *)
Lemma delim_sep t s K : Sep s -> (s = [] -> delim t K) -> delim t (s ++ K).
Proof.
  intros Hs Hg. destruct s as [|c s'].
  - simpl. auto.
  - apply Sep_head; auto. discriminate.
Qed.

Lemma interleave_cons2 (t t2 : list Z) ts s ss :
  interleave (t :: t2 :: ts) (s :: ss) = t ++ s ++ interleave (t2 :: ts) ss.
Proof. reflexivity. Qed.
Lemma interleave_single (t : list Z) : interleave [t] [] = t.
Proof. simpl. apply app_nil_r. Qed.

Lemma consume_fwd (args : list AArg) :
  forall ts seps r0 s' k,
  args <> [] ->
  Forall2 (arg_ok num_of) args ts -> seps_ok args ts seps ->
  Sep s' -> tailk k -> (s' = [] -> glue_ok (last args (AFlag false)) (last ts []) k) ->
  skip_ws r0 = interleave ts seps ++ s' ++ k ->
  exists r, consume (map is_flag args) r0 = Ok (args, r) /\ skip_ws r = k.
Proof.
  induction args as [|a args IH]; intros ts seps r0 s' k Hne Hall Hseps Hs' Hk Hglue E; [congruence|].
  inversion Hall as [|a' t args' ts' Ha Hall' E1 E2]; subst.
  destruct args as [|a2 args].
  - (* the last argument *)
    inversion Hall'; subst. simpl in Hseps. subst seps. rewrite interleave_single in E.
    simpl in Hglue.
    destruct a as [x|b]; simpl in Ha; simpl.
    + destruct Ha as [Ht Hx].
      rewrite (get_number_at r0 t (s' ++ k) x E Ht Hx) by (apply delim_sep; auto). simpl.
      eexists; split; [reflexivity|]. apply opt_comma_sep; auto.
    + subst t. rewrite (get_flag_at r0 b (s' ++ k)) by exact E. simpl.
      eexists; split; [reflexivity|]. apply opt_comma_sep; auto.
  - inversion Hall' as [|a2' t2 args'' ts'' Ha2 Hall'' E3 E4]; subst.
    destruct seps as [|s ss]; simpl in Hseps; [contradiction|]. destruct Hseps as (Hs & Hg & Hseps).
    rewrite interleave_cons2, <- !app_assoc in E.
    set (K2 := interleave (t2 :: ts'') ss ++ s' ++ k) in *.
    assert (HK2 : tailk K2).
    { unfold K2. destruct ts''; simpl; [destruct ss|]; rewrite <- ?app_assoc; eapply arg_ok_tailk; eauto. }
    assert (Hd : forall x, a = ANum x -> delim t (s ++ K2)).
    { intros x ->. apply delim_sep; auto. intros Es. specialize (Hg Es). simpl in Hg.
      unfold K2. destruct ts''; simpl; [destruct ss|]; rewrite <- ?app_assoc;
        apply delim_app; auto; eapply arg_ok_nonempty; eauto. }
    destruct (IH (t2 :: ts'') ss (opt_comma (s ++ K2)) s' k) as (r & Hc & Hr); auto; try discriminate.
    { apply opt_comma_sep; auto. }
    change (map is_flag (a :: a2 :: args)) with (is_flag a :: map is_flag (a2 :: args)).
    destruct a as [x|b]; simpl in Ha; cbn [consume is_flag].
    + destruct Ha as [Ht Hx].
      rewrite (get_number_at r0 t (s ++ K2) x E Ht Hx) by (eapply Hd; eauto). cbn [bind].
      rewrite Hc. cbn [bind]. eauto.
    + subst t. rewrite (get_flag_at r0 b (s ++ K2)) by exact E. cbn [bind].
      rewrite Hc. cbn [bind]. eauto.
Qed.


(** ** every loop iteration consumes input: termination *)
Section Total.
Variable cfg : Cfg.
Local Notation PSt := (@PState T).

Lemma pair_consumes s p r : get_number_pair num_of s = Ok (p, r) -> (length r < length s)%nat.
Proof.
  unfold get_number_pair.
  destruct (getnum s) as [[x s1]|] eqn:E1; cbn [bind]; [|discriminate].
  destruct (getnum (opt_comma s1)) as [[y s2]|] eqn:E2; cbn [bind]; [|discriminate].
  intros E; inversion E; subst.
  pose proof (get_number_consumes _ _ _ E1). pose proof (get_number_consumes _ _ _ E2).
  pose proof (opt_comma_length s1). pose proof (opt_comma_length s2). lia.
Qed.
Lemma gmr_consumes lp c s p r : get_maybe_relative num_of lp c s = Ok (p, r) -> (length r < length s)%nat.
Proof.
  unfold get_maybe_relative. destruct (get_number_pair num_of s) as [[q s1]|] eqn:E1; cbn [bind]; [|discriminate].
  intros E; inversion E; subst. eapply pair_consumes; eauto.
Qed.

(** the loop never sees 'Z'/'z' (or a non-command byte) as the command to repeat *)
Definition lcinv (st : PSt) : Prop :=
  ps_last_cmd st = 0 \/ exists k, decode_cmd (ps_last_cmd st) = Some k /\ k <> KZ.

Lemma decode_M c : decode_cmd c = Some KM -> decode_cmd (c - 1) = Some KL.
Proof.
  unfold decode_cmd. destruct (is_lower c) eqn:El.
  - unfold kind_of_upper. destruct (Z.eqb_spec (c - 32) 77) as [E|E].
    + intros _. assert (c = 109) by lia. subst c. reflexivity.
    + repeat match goal with |- context [if ?b then _ else _] => destruct b end; discriminate.
  - unfold kind_of_upper. destruct (Z.eqb_spec c 77) as [E|E].
    + intros _. subst c. reflexivity.
    + repeat match goal with |- context [if ?b then _ else _] => destruct b end; discriminate.
Qed.

Ltac bind_inv :=
  repeat match goal with
  | |- context [step_bind (get_maybe_relative num_of ?lp ?c ?s) _] =>
      let E := fresh "Eg" in destruct (get_maybe_relative num_of lp c s) as [[? ?]|] eqn:E; cbn [step_bind]; [|discriminate]
  | |- context [step_bind (get_number_pair num_of ?s) _] =>
      let E := fresh "Ep" in destruct (get_number_pair num_of s) as [[? ?]|] eqn:E; cbn [step_bind]; [|discriminate]
  | |- context [step_bind (get_number num_of ?s) _] =>
      let E := fresh "En" in destruct (get_number num_of s) as [[? ?]|] eqn:E; cbn [step_bind]; [|discriminate]
  | |- context [step_bind (get_flag ?s) _] =>
      let E := fresh "Ef" in destruct (get_flag s) as [[? ?]|] eqn:E; cbn [step_bind]; [|discriminate]
  end.

Ltac lens :=
  repeat match goal with
  | E : get_maybe_relative _ _ _ _ = Ok _ |- _ => apply gmr_consumes in E
  | E : get_number_pair _ _ = Ok _ |- _ => apply pair_consumes in E
  | E : get_number _ _ = Ok _ |- _ => apply get_number_consumes in E
  | E : get_flag _ = Ok _ |- _ => apply get_flag_consumes in E
  end;
  repeat match goal with
  | |- context [opt_comma ?s] => pose proof (opt_comma_length s); generalize dependent (opt_comma s); intros
  | H : context [opt_comma ?s] |- _ => pose proof (opt_comma_length s); generalize dependent (opt_comma s); intros
  end.

Lemma step_cmd_consumes st c s1 st' em r :
  step_cmd num_of frem cfg st c s1 = SNext st' em r ->
  (length r <= length s1)%nat /\
  (decode_cmd c <> Some KZ -> (length r < length s1)%nat) /\
  (lcinv st -> lcinv st').
Proof.
  unfold step_cmd.
  destruct (negb ((c =? 109)%Z || (c =? 77)%Z) && negb (ps_started st)); [discriminate|].
  destruct (decode_cmd c) as [k|] eqn:Ed; [|discriminate].
  destruct k; bind_inv; intros E; inversion E; subst; clear E;
    (split; [lens; simpl; lia|split; [intros; try congruence; lens; simpl; lia|]]);
    intros Hinv; unfold lcinv; cbn [ps_last_cmd]; try (right; eexists; split; [eassumption|discriminate]).
  - right. exists KL. split; [apply decode_M; auto|discriminate].
  - exact Hinv.
Qed.

Lemma step_consumes st s st' em r : lcinv st ->
  step num_of frem cfg st s = SNext st' em r -> (length r < length s)%nat /\ lcinv st'.
Proof.
  intros Hinv. unfold step, get_cmd.
  pose proof (skip_ws_length s) as Hl. destruct (skip_ws s) as [|c0 s0] eqn:Es; [discriminate|].
  destruct (is_lower c0 || is_upper c0).
  - intros E. destruct (step_cmd_consumes _ _ _ _ _ _ E) as (H1 & _ & H3). simpl in Hl. split; auto. lia.
  - destruct (negb (ps_last_cmd st =? 0)%Z && number_start (cfg_plus cfg) c0) eqn:Eb; [|discriminate].
    intros E. destruct (step_cmd_consumes _ _ _ _ _ _ E) as (_ & H2 & H3). split; auto.
    apply andb_true_iff in Eb as [Eb _]. apply negb_true_iff, Z.eqb_neq in Eb.
    destruct Hinv as [?|(k & Hk & Hkz)]; [congruence|].
    assert ((length r < length (c0 :: s0))%nat) by (apply H2; congruence). lia.
Qed.

Lemma parse_loop_fuel f1 : forall f2 st s, lcinv st -> (length s < f1)%nat -> (length s < f2)%nat ->
  parse_loop num_of frem cfg f1 st s = parse_loop num_of frem cfg f2 st s.
Proof.
  induction f1 as [|f1 IH]; intros f2 st s Hinv H1 H2; [lia|].
  destruct f2 as [|f2]; [lia|]. cbn [parse_loop].
  destruct (step num_of frem cfg st s) as [|e|st' em r] eqn:Es; auto.
  destruct (step_consumes _ _ _ _ _ Hinv Es) as (Hl & Hinv').
  rewrite (IH f2 st' r); auto; lia.
Qed.

Lemma parse_loop_total f : forall st s, lcinv st -> (length s < f)%nat ->
  parse_loop num_of frem cfg f st s <> Err OutOfFuel.
Proof.
  induction f as [|f IH]; intros st s Hinv Hl; [lia|]. cbn [parse_loop].
  destruct (step num_of frem cfg st s) as [|e|st' em r] eqn:Es; try discriminate.
  - (* the parser itself never produces OutOfFuel *)
    intros E; inversion E; subst. revert Es. unfold step.
    destruct (get_cmd (cfg_plus cfg) (ps_last_cmd st) s) as [[c s1]|]; [|discriminate].
    unfold step_cmd. destruct (negb ((c =? 109)%Z || (c =? 77)%Z) && negb (ps_started st)); [discriminate|].
    assert (Hn : forall s x, getnum s = Err x -> x <> OutOfFuel).
    { intros s' x. unfold get_number. destruct (lex_number s') as [[t r']|y] eqn:El; cbn [bind].
      - destruct (num_of t); intros E'; inversion E'; discriminate.
      - intros E'; inversion E'; subst. destruct (lex_number_err _ _ El) as [[-> _]|[-> _]]; discriminate. }
    assert (Hp : forall s x, get_number_pair num_of s = Err x -> x <> OutOfFuel).
    { intros s' x. unfold get_number_pair. destruct (getnum s') as [[a s2]|y] eqn:E1; cbn [bind].
      - destruct (getnum (opt_comma s2)) as [[b s3]|y] eqn:E2; cbn [bind]; [discriminate|].
        intros E'; inversion E'; subst. eapply Hn; eauto.
      - intros E'; inversion E'; subst. eapply Hn; eauto. }
    assert (Hg : forall lp c s x, get_maybe_relative num_of lp c s = Err x -> x <> OutOfFuel).
    { intros lp c' s' x. unfold get_maybe_relative. destruct (get_number_pair num_of s') as [[a s2]|y] eqn:E1; cbn [bind]; [discriminate|].
      intros E'; inversion E'; subst. eapply Hp; eauto. }
    assert (Hf : forall s x, get_flag s = Err x -> x <> OutOfFuel).
    { intros s' x. unfold get_flag. destruct (skip_ws s') as [|c' r']; [intros E'; inversion E'; discriminate|].
      destruct (c' =? 48)%Z; [discriminate|]. destruct (c' =? 49)%Z; [discriminate|]. intros E'; inversion E'; discriminate. }
    destruct (decode_cmd c) as [k|]; [|discriminate].
    destruct k;
      repeat match goal with
      | |- context [step_bind (get_maybe_relative num_of ?lp ?c ?s) _] =>
          let E := fresh "Eg" in destruct (get_maybe_relative num_of lp c s) as [[? ?]|] eqn:E; cbn [step_bind];
          [|intros E'; inversion E'; subst; eapply Hg; eauto]
      | |- context [step_bind (get_number_pair num_of ?s) _] =>
          let E := fresh "Ep" in destruct (get_number_pair num_of s) as [[? ?]|] eqn:E; cbn [step_bind];
          [|intros E'; inversion E'; subst; eapply Hp; eauto]
      | |- context [step_bind (get_number num_of ?s) _] =>
          let E := fresh "En" in destruct (get_number num_of s) as [[? ?]|] eqn:E; cbn [step_bind];
          [|intros E'; inversion E'; subst; eapply Hn; eauto]
      | |- context [step_bind (get_flag ?s) _] =>
          let E := fresh "Ef" in destruct (get_flag s) as [[? ?]|] eqn:E; cbn [step_bind];
          [|intros E'; inversion E'; subst; eapply Hf; eauto]
      end; discriminate.
  - destruct (step_consumes _ _ _ _ _ Hinv Es) as (Hl' & Hinv').
    specialize (IH st' r Hinv' ltac:(lia)).
    destruct (parse_loop num_of frem cfg f st' r); congruence.
Qed.

Lemma lcinv_init : lcinv (@ps_init T _).
Proof. left; reflexivity. Qed.

(** [from_svg] terminates on every byte string: the fuel is never exhausted *)
Lemma from_svg_total s : from_svg num_of frem cfg s <> Err OutOfFuel.
Proof. unfold from_svg. apply parse_loop_total; [apply lcinv_init|lia]. Qed.

End Total.

(** ** one command: the parser state against the specification state *)
Local Open Scope S_scope.
Hypothesis fadd_comm : forall a b : T, a + b = b + a.
Hypothesis fmul2_comm : forall a : T, f2 * a = a * f2.

Local Notation stepc := (step_cmd num_of frem fixed).
Local Notation PSt := (@PState T).
Local Notation ISt := (@IState T).

Definition ctrl_rel (lc : Z) (ctrl : option (Point T)) (prev : @PrevCtrl T) : Prop :=
  match prev with
  | PCubic c => ctrl = Some c /\ is_cs lc = true
  | PQuad c => ctrl = Some c /\ is_qt lc = true
  | PNone => ctrl = None \/ (is_cs lc = false /\ is_qt lc = false)
  end.

(** the parser state represents the specification state *)
Definition Repr (st : PSt) (ist : ISt) : Prop :=
  ps_started st = i_started ist /\ ps_last_pt st = i_cur ist /\ ps_first_pt st = i_start ist /\
  ps_implicit st = (if i_pending ist then Some (i_start ist) else None) /\
  ctrl_rel (ps_last_cmd st) (ps_last_ctrl st) (i_prev ist).

(** [last_cmd] after command [p]: the letter to repeat *)
Definition lc_ok (prev : option Cmd) (lc : Z) : Prop :=
  match prev with
  | None => True
  | Some p => cmd_kind p = KZ \/
              lc = (if match cmd_kind p with KM => true | _ => false end then cmd_letter p - 1 else cmd_letter p)%Z
  end.

Lemma decode_letter (c : Cmd) : decode_cmd (cmd_letter c) = Some (cmd_kind c).
Proof. destruct c as [r ?|r ?|r ?|r ?|r ? ? ?|r ? ?|r ? ?|r ?|r ? ? ? ? ?|r]; destruct r; reflexivity. Qed.
Lemma is_lower_letter (c : Cmd) : is_lower (cmd_letter c) = cmd_rel c.
Proof. destruct c as [r ?|r ?|r ?|r ?|r ? ? ?|r ? ?|r ? ?|r ?|r ? ? ? ? ?|r]; destruct r; reflexivity. Qed.
Lemma is_m_letter (c : Cmd) :
  ((cmd_letter c =? 109)%Z || (cmd_letter c =? 77)%Z) = match cmd_kind c with KM => true | _ => false end.
Proof. destruct c as [r ?|r ?|r ?|r ?|r ? ? ?|r ? ?|r ? ?|r ?|r ? ? ? ? ?|r]; destruct r; reflexivity. Qed.
Lemma is_letter_letter (c : Cmd) : is_lower (cmd_letter c) || is_upper (cmd_letter c) = true.
Proof. destruct c as [r ?|r ?|r ?|r ?|r ? ? ?|r ? ?|r ? ?|r ?|r ? ? ? ? ?|r]; destruct r; reflexivity. Qed.
Lemma letter_nonzero (c : Cmd) : cmd_letter c <> 0%Z.
Proof. destruct c as [r ?|r ?|r ?|r ?|r ? ? ?|r ? ?|r ? ?|r ?|r ? ? ? ? ?|r]; destruct r; discriminate. Qed.

Lemma is_qt_not_cs lc : is_qt lc = true -> is_cs lc = false.
Proof.
  unfold is_qt, is_cs. rewrite !orb_true_iff, !Z.eqb_eq. intros Hq.
  repeat (apply orb_false_iff; split); apply Z.eqb_neq; lia.
Qed.
Lemma is_cs_not_qt lc : is_cs lc = true -> is_qt lc = false.
Proof.
  unfold is_qt, is_cs. rewrite !orb_true_iff, !Z.eqb_eq. intros Hq.
  repeat (apply orb_false_iff; split); apply Z.eqb_neq; lia.
Qed.

Lemma smooth_cubic_ok lc lp ctrl prev : ctrl_rel lc ctrl prev ->
  smooth_ctrl fixed true lc lp ctrl = match prev with PCubic c2 => reflect lp c2 | _ => lp end.
Proof.
  unfold smooth_ctrl, ctrl_rel; cbn [cfg_smooth fixed]. destruct prev as [|c|c].
  - intros [->|[-> _]]; auto. destruct ctrl; auto.
  - intros [-> ->]. unfold reflect_ctrl, reflect. destruct lp, c; cbn.
    rewrite !fmul2_comm. reflexivity.
  - intros [-> Hq]. rewrite (is_qt_not_cs _ Hq). reflexivity.
Qed.
Lemma smooth_quad_ok lc lp ctrl prev : ctrl_rel lc ctrl prev ->
  smooth_ctrl fixed false lc lp ctrl = match prev with PQuad c1 => reflect lp c1 | _ => lp end.
Proof.
  unfold smooth_ctrl, ctrl_rel; cbn [cfg_smooth fixed]. destruct prev as [|c|c].
  - intros [->|[_ ->]]; auto. destruct ctrl; auto.
  - intros [-> Hc]. rewrite (is_cs_not_qt _ Hc). reflexivity.
  - intros [-> ->]. unfold reflect_ctrl, reflect. destruct lp, c; cbn.
    rewrite !fmul2_comm. reflexivity.
Qed.


Ltac consume_inv Hc :=
  cbn [map is_flag cmd_args pt_args app consume] in Hc;
  repeat match type of Hc with
  | context [get_number num_of ?s] =>
      let E := fresh "En" in destruct (get_number num_of s) as [[? ?]|] eqn:E; cbn [bind consume] in Hc; [|discriminate Hc]
  | context [get_flag ?s] =>
      let E := fresh "Ef" in destruct (get_flag s) as [[? ?]|] eqn:E; cbn [bind consume] in Hc; [|discriminate Hc]
  end;
  inversion Hc; subst; clear Hc.

Lemma step_cmd_ok (c : Cmd) st ist s1 r :
  Repr st ist ->
  consume (map is_flag (cmd_args c)) s1 = Ok (cmd_args c, r) ->
  match interp_step frem ist c with
  | Err e => stepc st (cmd_letter c) s1 = SErr e
  | Ok (ist', em) =>
      exists st', stepc st (cmd_letter c) s1 = SNext st' em r /\ Repr st' ist' /\
                  lc_ok (Some c) (ps_last_cmd st')
  end.
Proof.
  intros (R1 & R2 & R3 & R4 & R5) Hc.
  destruct st as [started lc lctrl fp imp lp], ist as [istarted cur start prev pending].
  cbn [ps_started ps_last_pt ps_first_pt ps_implicit ps_last_cmd ps_last_ctrl
       i_started i_cur i_start i_pending i_prev] in *. subst started lp fp imp.
  unfold step_cmd. rewrite decode_letter, is_m_letter.
  cbn [ps_started ps_last_pt ps_first_pt ps_implicit ps_last_cmd ps_last_ctrl].
  destruct c as [rel p|rel p|rel x|rel y|rel p1 p2 p3|rel p2 p3|rel p1 p2|rel p|rel rad rot la sw p|rel];
    cbn [cmd_kind interp_step i_started i_cur i_start i_pending i_prev negb andb].
  - (* M *) destruct p as [x y]. consume_inv Hc.
    unfold get_maybe_relative, get_number_pair. rewrite En. cbn [bind]. rewrite En0. cbn [bind step_bind].
    rewrite is_lower_letter. cbn [cmd_rel].
    eexists; split; [reflexivity|]. split.
    + unfold Repr; cbn. repeat split; auto. right. destruct rel; split; reflexivity.
    + cbn. right. reflexivity.
  - (* L *) destruct istarted; cbn [negb]; [|reflexivity].
    destruct p as [x y]. consume_inv Hc.
    unfold get_maybe_relative, get_number_pair. rewrite En. cbn [bind]. rewrite En0. cbn [bind step_bind].
    rewrite is_lower_letter. cbn [cmd_rel].
    eexists; split; [destruct pending; reflexivity|]. split.
    + unfold Repr; cbn. repeat split; auto. right. destruct rel; split; reflexivity.
    + cbn. right. reflexivity.
  - (* H *) destruct istarted; cbn [negb]; [|reflexivity].
    consume_inv Hc. cbn [bind step_bind].
    destruct rel, pending; cbn; rewrite ?(fadd_comm _ (px cur));
      (eexists; split; [reflexivity|]; split;
       [unfold Repr; cbn; repeat split; auto; right; split; reflexivity|cbn; right; reflexivity]).
  - (* V *) destruct istarted; cbn [negb]; [|reflexivity].
    consume_inv Hc. cbn [bind step_bind].
    destruct rel, pending; cbn; rewrite ?(fadd_comm _ (py cur));
      (eexists; split; [reflexivity|]; split;
       [unfold Repr; cbn; repeat split; auto; right; split; reflexivity|cbn; right; reflexivity]).
  - (* C *) destruct istarted; cbn [negb]; [|reflexivity].
    destruct p1 as [x1 y1], p2 as [x2 y2], p3 as [x3 y3]. consume_inv Hc.
    unfold get_maybe_relative, get_number_pair.
    rewrite En. cbn [bind]. rewrite En0. cbn [bind step_bind].
    rewrite En1. cbn [bind]. rewrite En2. cbn [bind step_bind].
    rewrite En3. cbn [bind]. rewrite En4. cbn [bind step_bind].
    rewrite is_lower_letter. cbn [cmd_rel].
    eexists; split; [destruct pending; reflexivity|]. split.
    + unfold Repr; cbn. repeat split; auto. destruct rel; reflexivity.
    + cbn. right. reflexivity.
  - (* S *) destruct istarted; cbn [negb]; [|reflexivity].
    destruct p2 as [x2 y2], p3 as [x3 y3]. consume_inv Hc.
    unfold get_maybe_relative, get_number_pair.
    rewrite En. cbn [bind]. rewrite En0. cbn [bind step_bind].
    rewrite En1. cbn [bind]. rewrite En2. cbn [bind step_bind].
    rewrite is_lower_letter. cbn [cmd_rel].
    rewrite (smooth_cubic_ok lc cur lctrl prev R5).
    eexists; split; [destruct pending; reflexivity|]. split.
    + unfold Repr; cbn. repeat split; auto. destruct rel; reflexivity.
    + cbn. right. reflexivity.
  - (* Q *) destruct istarted; cbn [negb]; [|reflexivity].
    destruct p1 as [x1 y1], p2 as [x2 y2]. consume_inv Hc.
    unfold get_maybe_relative, get_number_pair.
    rewrite En. cbn [bind]. rewrite En0. cbn [bind step_bind].
    rewrite En1. cbn [bind]. rewrite En2. cbn [bind step_bind].
    rewrite is_lower_letter. cbn [cmd_rel].
    eexists; split; [destruct pending; reflexivity|]. split.
    + unfold Repr; cbn. repeat split; auto. destruct rel; reflexivity.
    + cbn. right. reflexivity.
  - (* T *) destruct istarted; cbn [negb]; [|reflexivity].
    destruct p as [x y]. consume_inv Hc.
    unfold get_maybe_relative, get_number_pair.
    rewrite En. cbn [bind]. rewrite En0. cbn [bind step_bind].
    rewrite is_lower_letter. cbn [cmd_rel].
    rewrite (smooth_quad_ok lc cur lctrl prev R5).
    eexists; split; [destruct pending; reflexivity|]. split.
    + unfold Repr; cbn. repeat split; auto. destruct rel; reflexivity.
    + cbn. right. reflexivity.
  - (* A *) destruct istarted; cbn [negb]; [|reflexivity].
    destruct rad as [rx ry], p as [x y]. consume_inv Hc.
    unfold get_maybe_relative, get_number_pair.
    rewrite En. cbn [bind]. rewrite En0. cbn [bind step_bind].
    rewrite En1. cbn [bind step_bind]. rewrite Ef. cbn [bind step_bind]. rewrite Ef0. cbn [bind step_bind].
    rewrite En2. cbn [bind]. rewrite En3. cbn [bind step_bind].
    rewrite is_lower_letter. cbn [cmd_rel].
    eexists; split; [destruct pending; reflexivity|]. split.
    + unfold Repr; cbn. repeat split; auto. right. destruct rel; split; reflexivity.
    + cbn. right. reflexivity.
  - (* Z *) destruct istarted; cbn [negb]; [|reflexivity].
    consume_inv Hc.
    eexists; split; [destruct pending; reflexivity|]. split.
    + unfold Repr; cbn. repeat split; auto.
    + cbn. left. reflexivity.
Qed.


(** ** a rendered command list *)
Definition body (c : Cmd) (sp : Spell) : list Z :=
  (if sp_omit sp then [] else cmd_letter c :: sp_first sp) ++ interleave (sp_args sp) (sp_seps sp).
(** the input as the loop sees it before a command: leading separator gone *)
Definition canon (cmds : list Cmd) (sps : list Spell) (tail : list Z) : list Z :=
  match cmds, sps with
  | c :: cs, sp :: sps' => body c sp ++ render cs sps' tail
  | _, _ => skip_ws tail
  end.

(** the text after the last command: white space [w], then [k0] (empty, or starting with a byte
    that is neither white space nor a comma); if [w] is empty, [k0] must not read as a
    continuation of the last number *)
Definition end_glue (c : Cmd) (sp : Spell) (w k0 : list Z) : Prop :=
  w = [] -> match last_arg c sp with Some (a, t) => glue_ok a t k0 | None => True end.
Fixpoint end_ok (prev : option (Cmd * Spell)) (cmds : list Cmd) (sps : list Spell) (w k0 : list Z) : Prop :=
  match cmds, sps with
  | c :: cs, sp :: sps' => end_ok (Some (c, sp)) cs sps' w k0
  | _, _ => match prev with Some (c, sp) => end_glue c sp w k0 | None => True end
  end.

Lemma render_cons c cs sp sps tail :
  render (c :: cs) (sp :: sps) tail = sp_lead sp ++ body c sp ++ render cs sps tail.
Proof. cbn [render]. unfold render_cmd, body. rewrite <- !app_assoc. reflexivity. Qed.

Lemma letter_props (c : Cmd) :
  is_ws (cmd_letter c) = false /\ is_comma (cmd_letter c) = false /\ is_digit (cmd_letter c) = false /\
  is_e (cmd_letter c) = false /\ is_period (cmd_letter c) = false.
Proof. destruct c as [r ?|r ?|r ?|r ?|r ? ? ?|r ? ?|r ? ?|r ?|r ? ? ? ? ?|r]; destruct r; repeat split; reflexivity. Qed.

Lemma letter_inj (p c : Cmd) : cmd_letter p = cmd_letter c -> cmd_kind p = cmd_kind c.
Proof.
  destruct p as [r ?|r ?|r ?|r ?|r ? ? ?|r ? ?|r ? ?|r ?|r ? ? ? ? ?|r]; destruct r;
  destruct c as [r ?|r ?|r ?|r ?|r ? ? ?|r ? ?|r ? ?|r ?|r ? ? ? ? ?|r]; destruct r;
  cbv [cmd_letter cmd_kind cmd_rel kind_letter]; intros E; try reflexivity; discriminate E.
Qed.

Lemma omit_lc (p c : Cmd) lc : lc_ok (Some p) lc -> omit_ok (Some p) c -> lc = cmd_letter c.
Proof.
  unfold lc_ok, omit_ok. intros Hlc [(El & Hm & Hz)|(Hp & Hc & Hr)].
  - pose proof (letter_inj _ _ El) as Ek. destruct Hlc as [Hk | ->]; [congruence|].
    rewrite Ek. destruct (cmd_kind c); congruence.
  - destruct Hlc as [Hk | ->]; [congruence|]. rewrite Hp.
    destruct p; try discriminate. destruct c; try discriminate. cbn in Hr. subst.
    destruct rel0; reflexivity.
Qed.

Lemma omit_args (p c : Cmd) : omit_ok (Some p) c -> cmd_args c <> [] /\ cmd_args p <> [].
Proof.
  unfold omit_ok. intros [(El & Hm & Hz)|(Hp & Hc & Hr)].
  - pose proof (letter_inj _ _ El) as Ek.
    split; [destruct c|destruct p]; cbn in *; try discriminate; congruence.
  - split; [destruct c|destruct p]; cbn in *; try discriminate.
Qed.

Lemma first_arg_num (c : Cmd) a l : cmd_args c = a :: l -> exists x, a = ANum x.
Proof. destruct c; cbn; intros E; inversion E; eauto. Qed.

Lemma glue_app (a : AArg) t u v : u <> [] -> glue_ok a t u -> glue_ok a t (u ++ v).
Proof. destruct a; cbn; auto. apply delim_app. Qed.

(** what follows a command in a valid rendering *)
Lemma follow_decomp (c : Cmd) sp cs sps w k0 :
  let tail := w ++ k0 in
  spells_ok num_of (Some (c, sp)) cs sps -> all_ws w -> tailk k0 -> end_ok (Some (c, sp)) cs sps w k0 ->
  exists s' k, render cs sps tail = s' ++ k /\ Sep s' /\ tailk k /\ k = canon cs sps tail /\
    (cmd_args c = [] -> all_ws s') /\
    (s' = [] -> match last_arg c sp with Some (a, t) => glue_ok a t k | None => True end).
Proof.
  intros tail.
  destruct cs as [|c2 cs]; destruct sps as [|sp2 sps]; cbn [spells_ok end_ok]; try contradiction.
  - intros _ Hw Hk0 Hend. exists w, k0. repeat split; auto.
    + apply Sep_ws; auto.
    + unfold canon, tail. rewrite skip_ws_app by auto. symmetry. apply skip_ws_nows, tailk_nows; auto.
  - intros (Hsp2 & Hrest) Hw Hk0 Hend.
    exists (sp_lead sp2), (body c2 sp2 ++ render cs sps tail). rewrite render_cons.
    split; [reflexivity|].
    assert (Ecanon : body c2 sp2 ++ render cs sps tail = canon (c2 :: cs) (sp2 :: sps) tail) by reflexivity.
    unfold spell_ok in Hsp2. destruct Hsp2 as (Hargs & Hseps & Hsp). unfold body in *.
    destruct sp2 as [om2 lead2 first2 targs2 seps2].
    cbn [sp_omit sp_lead sp_first sp_args sp_seps] in *.
    destruct om2.
    + destruct Hsp as (Hom & Hsep & Hglue). cbn [option_map fst] in Hom.
      destruct (omit_args _ _ Hom) as (Hne2 & Hne).
      destruct (cmd_args c2) as [|a2 args2] eqn:Ea2; [congruence|].
      inversion Hargs as [|? t2 ? ts2 Ha2 Hall2]; subst.
      cbn [app]. repeat split; auto.
      * destruct ts2; cbn [interleave]; [|destruct seps2]; rewrite <- ?app_assoc; eapply arg_ok_tailk; eauto.
      * intros E; congruence.
      * intros El. specialize (Hglue El).
        destruct (last_arg c sp) as [[a t]|]; [|contradiction].
        destruct ts2; cbn [interleave]; [|destruct seps2]; rewrite <- ?app_assoc;
          apply glue_app; auto; eapply arg_ok_nonempty; eauto.
    + destruct Hsp as (Hl & Hf). destruct (letter_props c2) as (L1 & L2 & L3 & L4 & L5).
      cbn [app]. repeat split; auto.
      * apply Sep_ws; auto.
      * intros _. destruct (last_arg c sp) as [[a t]|]; auto. destruct a; cbn; auto.
Qed.


Local Notation stepf := (step num_of frem fixed).

Lemma last_arg_some (c : Cmd) sp a l t ts :
  cmd_args c = a :: l -> sp_args sp = t :: ts ->
  last_arg c sp = Some (last (cmd_args c) (AFlag false), last (sp_args sp) []).
Proof. unfold last_arg. intros -> ->. reflexivity. Qed.

Lemma step_rendered prev (c : Cmd) sp st ist r0 cs sps w k0 :
  let tail := w ++ k0 in
  Repr st ist -> lc_ok (option_map fst prev) (ps_last_cmd st) ->
  spell_ok num_of prev c sp -> spells_ok num_of (Some (c, sp)) cs sps ->
  all_ws w -> tailk k0 -> end_ok (Some (c, sp)) cs sps w k0 ->
  skip_ws r0 = body c sp ++ render cs sps tail ->
  match interp_step frem ist c with
  | Err e => stepf st r0 = SErr e
  | Ok (ist', em) =>
      exists st' r, stepf st r0 = SNext st' em r /\ Repr st' ist' /\ lc_ok (Some c) (ps_last_cmd st') /\
                    skip_ws r = canon cs sps tail
  end.
Proof.
  intros tail HR Hlc (Hargs & Hseps & Hsp) Hrest Hw Hk0 Hend E.
  destruct (follow_decomp c sp cs sps w k0 Hrest Hw Hk0 Hend) as (s' & k & Er & Hs' & Hk & Ek & Hz & Hglue).
  fold tail in Er, Ek.
  rewrite Er in E. unfold body in E.
  (* the arguments are read back *)
  assert (Hcons : forall s1, skip_ws s1 = skip_ws (interleave (sp_args sp) (sp_seps sp) ++ s' ++ k) ->
            exists r, consume (map is_flag (cmd_args c)) s1 = Ok (cmd_args c, r) /\ skip_ws r = k).
  { intros s1 E1. destruct (cmd_args c) as [|a l] eqn:Ea.
    - inversion Hargs. match goal with Hn : [] = sp_args sp |- _ => try rewrite <- Hn in E1 end.
      cbn [interleave app] in E1. cbn. exists s1. split; auto.
      rewrite E1, skip_ws_app by auto. apply skip_ws_nows, tailk_nows; auto.
    - inversion Hargs as [|? t ? ts Ha Hall E2 E3].
      assert (Hall' : Forall2 (arg_ok num_of) (a :: l) (t :: ts)) by (constructor; auto).
      rewrite <- E3 in Hseps, E1.
      apply (consume_fwd (a :: l) (t :: ts) (sp_seps sp) s1 s' k); auto; try discriminate.
      + intros Es'. specialize (Hglue Es').
        rewrite (last_arg_some c sp a l t ts Ea (eq_sym E3)), Ea, <- E3 in Hglue. exact Hglue.
      + rewrite E1. apply skip_ws_nows, tailk_nows.
        destruct ts; cbn [interleave]; [|destruct (sp_seps sp)]; rewrite <- ?app_assoc; eapply arg_ok_tailk; eauto. }
  unfold step. rewrite <- get_cmd_skip, E. cbn [cfg_plus fixed].
  destruct (sp_omit sp) eqn:Eo.
  - (* letter omitted: the loop repeats [last_cmd] *)
    destruct Hsp as (Hom & _ & _).
    destruct prev as [[p psp]|]; cbn [option_map fst] in *; [|contradiction].
    pose proof (omit_lc _ _ _ Hlc Hom) as Elc.
    destruct (omit_args _ _ Hom) as (Hne & _).
    destruct (cmd_args c) as [|a l] eqn:Ea; [congruence|].
    destruct (first_arg_num c a l Ea) as (x & ->).
    inversion Hargs as [|? t ? ts Ha Hall E2 E3]. destruct Ha as (Ht & Hx).
    destruct (number_tok_start _ Ht) as (c0 & r1 & Et & Hns & _).
    cbn [app]. try rewrite <- E3 in Hcons. try rewrite <- E3.
    set (X := interleave (t :: ts) (sp_seps sp) ++ s' ++ k) in *.
    assert (HX : exists rest, X = c0 :: rest).
    { unfold X. rewrite Et. cbn [interleave app]. eexists; reflexivity. }
    destruct HX as (rest & EX).
    rewrite EX, get_cmd_repeat by (auto; rewrite Elc; apply letter_nonzero).
    rewrite <- EX, Elc.
    destruct (Hcons X) as (r & Hc & Hr); [reflexivity|].
    rewrite <- Ea in Hc.
    pose proof (step_cmd_ok c st ist _ r HR Hc) as Hstep.
    destruct (interp_step frem ist c) as [[ist' em]|e]; [|exact Hstep].
    destruct Hstep as (st' & Hst & HR' & Hlc'). exists st', r. rewrite Ek in Hr. auto.
  - (* letter present *)
    destruct Hsp as (Hlead & Hfirst). cbn [app] in *.
    rewrite get_cmd_letter by apply is_letter_letter.
    destruct (Hcons (sp_first sp ++ interleave (sp_args sp) (sp_seps sp) ++ s' ++ k)) as (r & Hc & Hr).
    { rewrite skip_ws_app by auto. reflexivity. }
    rewrite <- !app_assoc.
    pose proof (step_cmd_ok c st ist _ r HR Hc) as Hstep.
    destruct (interp_step frem ist c) as [[ist' em]|e]; [|exact Hstep].
    destruct Hstep as (st' & Hst & HR' & Hlc'). exists st', r. rewrite Ek in Hr. auto.
Qed.


Lemma get_cmd_nil p lc r0 : skip_ws r0 = [] -> get_cmd p lc r0 = None.
Proof. intros E. unfold get_cmd. rewrite E. reflexivity. Qed.

(** [interp_from] with the final state *)
Fixpoint interp_run (s : ISt) (cmds : list Cmd) : res (ISt * list (PathEl T)) :=
  match cmds with
  | [] => Ok (s, [])
  | c :: r =>
      match interp_step frem s c with
      | Err e => Err e
      | Ok (s', em) => match interp_run s' r with Ok (sf, els) => Ok (sf, em ++ els) | Err e => Err e end
      end
  end.
Lemma interp_from_run s cmds :
  interp_from frem s cmds = match interp_run s cmds with Ok (_, els) => Ok els | Err e => Err e end.
Proof.
  revert s. induction cmds as [|c r IH]; intros s; cbn; auto.
  destruct (interp_step frem s c) as [[s' em]|e]; auto. rewrite IH.
  destruct (interp_run s' r) as [[sf els]|e]; auto.
Qed.

Definition prepend (els : list (PathEl T)) (x : res (list (PathEl T))) : res (list (PathEl T)) :=
  match x with Ok e2 => Ok (els ++ e2) | Err e => Err e end.

(** a valid rendering of [cmds] followed by [w ++ k0]: the loop emits the meaning of [cmds] and goes on
    with [k0] in a state that represents the final specification state *)
Lemma loop_rendered : forall cmds sps prev st ist r0 w k0 fuel,
  Repr st ist -> lcinv st -> lc_ok (option_map fst prev) (ps_last_cmd st) ->
  spells_ok num_of prev cmds sps -> all_ws w -> tailk k0 -> end_ok prev cmds sps w k0 ->
  skip_ws r0 = canon cmds sps (w ++ k0) -> (length r0 < fuel)%nat ->
  match interp_run ist cmds with
  | Err e => parse_loop num_of frem fixed fuel st r0 = Err e
  | Ok (istf, els) =>
      exists stf r, Repr stf istf /\ lcinv stf /\ skip_ws r = k0 /\ (length r <= length r0)%nat /\
        parse_loop num_of frem fixed fuel st r0 = prepend els (parse_loop num_of frem fixed fuel stf r)
  end.
Proof.
  induction cmds as [|c cs IH]; intros sps prev st ist r0 w k0 fuel HR Hinv Hlc Hsp Hw Hk0 Hend E Hfuel;
    destruct sps as [|sp sps]; cbn [spells_ok] in Hsp; try contradiction; cbn [interp_run].
  - exists st, r0. split; [exact HR|]. split; [exact Hinv|]. split; [|split; [lia|]].
    + rewrite E. unfold canon. rewrite skip_ws_app by auto. apply skip_ws_nows, tailk_nows; auto.
    + unfold prepend. destruct (parse_loop num_of frem fixed fuel st r0); reflexivity.
  - destruct Hsp as (Hsp & Hrest). cbn [canon] in E. cbn [end_ok] in Hend.
    destruct fuel as [|f]; [lia|].
    pose proof (step_rendered prev c sp st ist r0 cs sps w k0 HR Hlc Hsp Hrest Hw Hk0 Hend E) as Hstep.
    cbn zeta in Hstep.
    destruct (interp_step frem ist c) as [[ist' em]|e].
    + destruct Hstep as (st' & r & Hst & HR' & Hlc' & Hr).
      destruct (step_consumes fixed _ _ _ _ _ Hinv Hst) as (Hlen & Hinv').
      specialize (IH sps (Some (c, sp)) st' ist' r w k0 f HR' Hinv' Hlc' Hrest Hw Hk0 Hend Hr ltac:(lia)).
      destruct (interp_run ist' cs) as [[istf els]|e].
      * destruct IH as (stf & r' & HRf & Hinvf & Hr' & Hlen' & Hloop).
        exists stf, r'. split; [exact HRf|]. split; [exact Hinvf|]. split; [exact Hr'|]. split; [lia|].
        rewrite (parse_loop_fuel fixed (S f) f stf r') by (auto; lia).
        cbn [parse_loop]. rewrite Hst, Hloop.
        unfold prepend. destruct (parse_loop num_of frem fixed f stf r'); auto.
        rewrite app_assoc. reflexivity.
      * cbn [parse_loop]. rewrite Hst, IH. reflexivity.
    + cbn [parse_loop]. rewrite Hstep. reflexivity.
Qed.

Lemma R_init : Repr (@ps_init T _) (@i_init T _).
Proof. unfold Repr; cbn. repeat split; auto. Qed.

Lemma canon_start (cmds : list Cmd) sps tail : spells_ok num_of None cmds sps ->
  skip_ws (render cmds sps tail) = canon cmds sps tail.
Proof.
  intros Hsp.
  destruct cmds as [|c cs]; destruct sps as [|sp sps]; cbn [spells_ok] in Hsp; try contradiction; auto.
  destruct Hsp as ((_ & _ & Hsp) & _). rewrite render_cons. cbn [canon].
  destruct (sp_omit sp) eqn:Eo; [destruct Hsp as (Hom & _); contradiction|].
  destruct Hsp as (Hl & _). rewrite skip_ws_app by auto.
  apply skip_ws_nows. unfold body. rewrite Eo. cbn. apply letter_props.
Qed.

Lemma end_ok_nil prev (cmds : list Cmd) sps w : end_ok prev cmds sps w [].
Proof.
  revert prev sps. induction cmds as [|c cs IH]; intros prev sps; destruct sps; cbn [end_ok]; auto;
    destruct prev as [[c0 sp0]|]; auto; unfold end_glue; intros _;
    destruct (last_arg c0 sp0) as [[a t]|]; auto; destruct a; cbn; auto.
Qed.

(** every valid spelling of a command list parses to its meaning (repaired parser) *)
Theorem spellings_generic (cmds : list Cmd) sps tail :
  spells_ok num_of None cmds sps -> all_ws tail ->
  from_svg num_of frem fixed (render cmds sps tail) = interp frem cmds.
Proof.
  intros Hsp Htail. unfold from_svg, interp. rewrite interp_from_run.
  pose proof (loop_rendered cmds sps None ps_init i_init (render cmds sps tail) tail []
                (S (length (render cmds sps tail))) R_init lcinv_init I Hsp Htail I
                (end_ok_nil _ _ _ _)) as Hloop.
  rewrite app_nil_r in Hloop. specialize (Hloop (canon_start _ _ _ Hsp) ltac:(lia)).
  destruct (interp_run i_init cmds) as [[istf els]|e]; auto.
  destruct Hloop as (stf & r & _ & _ & Hr & Hlen & ->).
  destruct (S (length (render cmds sps tail))) as [|f] eqn:Ef; [discriminate|].
  cbn [parse_loop]. unfold step. rewrite get_cmd_nil by exact Hr. cbn. rewrite app_nil_r. reflexivity.
Qed.

End Parse.
