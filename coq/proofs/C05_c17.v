(** C05 x C17: discharging the hypothesis of [cubic_vertices_near] with C17's theorems about
    [to_quads] (imported read-only from Properties/C17.v; model/ToQuads.v defines the same
    functions as model/Flatten.v's [fl_to_quads_n] / [fl_to_quad], convertibly). *)
From Coq Require Import ZArith QArith Reals List Bool Lra Lia Sorted.
From KV Require Import Scalar RInst Geom Curves Path Flatten FlattenSpec RTac ToQuads C17 C05_proofs.
Import ListNotations.
Local Open Scope R_scope.

Lemma fl_count_is_c17 (c : CubicBez R) a : fl_to_quads_n (H := RS) c a = to_quads_count c a.
Proof. reflexivity. Qed.

Lemma fl_piece_is_c17 (c : CubicBez R) n i : fl_to_quad (H := RS) c n i = to_quads_piece c n i.
Proof. reflexivity. Qed.

Lemma pt_distance_sym (a b : Point R) : pt_distance (H := RS) a b = pt_distance (H := RS) b a.
Proof.
  destruct a as [ax ay], b as [bx by']. cbv [pt_distance v_hypot pt_sub vx vy px py]. rs_unfold.
  f_equal. ring.
Qed.

Lemma quads_within_c17 (c : CubicBez R) tol : 0 < tol ->
  quads_within (tol * to_quad_tol) c (fl_to_quads_n (H := RS) c (tol * to_quad_tol)).
Proof.
  intros Ht. set (a := tol * to_quad_tol).
  assert (Ha : 0 < a).
  { unfold a, to_quad_tol. rs_unfold. cbv [Q2R Qnum Qden]. lra. }
  intros i t Hi Htr.
  pose proof (C17_to_quads_count_enough c a Ha) as Hen.
  change (fl_to_quads_n (H := RS) c a) with (to_quads_count c a) in *. set (N := to_quads_count c a) in *.
  assert (HN : (1 <= N)%Z) by (exact (fl_to_quads_n_ge1 c a)).
  pose proof (C17_to_quads_within_accuracy_n c a (Z.to_nat N) (Z.to_nat i) t) as Hw.
  rewrite !Z2Nat.id in Hw by lia.
  rewrite INR_IZR_INZ, Z2Nat.id in Hw by lia.
  specialize (Hw ltac:(lia) ltac:(lra) Hen Htr).
  unfold piece_param. rewrite fl_piece_is_c17.
  destruct (to_quads_piece c N i) as [[t0 t1] q]. cbn [snd].
  rewrite pt_distance_sym. exact Hw.
Qed.

(** [flatten_cubic_vertices], unconditional: every interior vertex of a cubic's run is within a
    tenth of the tolerance of the cubic, at parameters in [0,1) that strictly increase *)
Lemma cubic_vertices_near_c17 (c : CubicBez R) tol : 0 < tol ->
  exists pts us, flatten_cubic_pts (H := RS) c tol (sqrt tol) = Some pts /\
    Forall2 (fun v u => pt_distance (H := RS) v (cubic_eval c u) <= tol * to_quad_tol) pts us /\
    Forall (fun u => 0 <= u < 1) us /\ StronglySorted Rlt us.
Proof.
  intros Ht. apply cubic_vertices_near; [apply sqrt_pos | apply quads_within_c17; auto].
Qed.
