(** C11: circle segment — the angle test. Characteristic lemmas of [Ratan2] (polar decomposition,
    uniqueness modulo 2 pi) and the reduction [a - 2 pi floor (a / 2 pi)]. *)
From Coq Require Import ZArith QArith Reals List Bool Lra Lia Psatz.
From Flocq Require Import Core.Raux.
From KV Require Import Scalar RInst Geom Rect Affine Curves ShapeTypes ShapeQueries RTac RectSpec RayCast ShapeSpec C11_proofs C11_curved.
Import ListNotations.
Local Open Scope R_scope.

Lemma pos_INR (n : positive) : IZR (Z.pos n) = INR (Pos.to_nat n).
Proof. rewrite INR_IZR_INZ, positive_nat_Z. reflexivity. Qed.

Lemma cos_period_Z x (k : Z) : cos (x + 2 * IZR k * PI) = cos x.
Proof.
  destruct k as [|n|n].
  - f_equal. simpl. ring.
  - rewrite (pos_INR n). apply cos_period.
  - rewrite <- (cos_period (x + 2 * IZR (Z.neg n) * PI) (Pos.to_nat n)). f_equal.
    change (Z.neg n) with (- Z.pos n)%Z. rewrite opp_IZR, (pos_INR n). ring.
Qed.
Lemma sin_period_Z x (k : Z) : sin (x + 2 * IZR k * PI) = sin x.
Proof.
  destruct k as [|n|n].
  - f_equal. simpl. ring.
  - rewrite (pos_INR n). apply sin_period.
  - rewrite <- (sin_period (x + 2 * IZR (Z.neg n) * PI) (Pos.to_nat n)). f_equal.
    change (Z.neg n) with (- Z.pos n)%Z. rewrite opp_IZR, (pos_INR n). ring.
Qed.

Lemma cos_sin_eq_mod a b : cos a = cos b -> sin a = sin b -> exists k : Z, a = b + 2 * IZR k * PI.
Proof.
  intros Hc Hs.
  assert (cos (a - b) = 1) as C1.
  { rewrite cos_minus, Hc, Hs. pose proof (sin2_cos2 b) as Q. unfold Rsqr in Q. lra. }
  assert (sin ((a - b) / 2) = 0) as S0.
  { replace (a - b) with (2 * ((a - b) / 2)) in C1 by field. rewrite cos_2a_sin in C1.
    assert (sin ((a - b) / 2) * sin ((a - b) / 2) = 0) by lra. nra. }
  apply sin_eq_0_0 in S0. destruct S0 as [k Hk]. exists k. lra.
Qed.

(** polar decomposition by [atan2] *)
Lemma atan2_polar x y : x <> 0 \/ y <> 0 ->
  let rho := sqrt (x * x + y * y) in let a := Ratan2 y x in
  x = rho * cos a /\ y = rho * sin a /\ - PI < a <= PI.
Proof.
  intros Hnz. cbv zeta. unfold Ratan2.
  pose proof PI_RGT_0 as Ppi.
  assert (forall x0, x0 <> 0 -> sqrt (x0 * x0 + y * y) = Rabs x0 * sqrt (1 + Rsqr (y / x0))) as Hs.
  { intros x0 Hx0. rewrite <- sqrt_Rsqr_abs, <- sqrt_mult; [|apply Rle_0_sqr|unfold Rsqr; nra].
    f_equal. unfold Rsqr. field. exact Hx0. }
  assert (forall t, 0 < sqrt (1 + Rsqr t)) as Hpos.
  { intros t. apply sqrt_lt_R0. pose proof (Rle_0_sqr t). lra. }
  destruct (Rlt_dec 0 x) as [Px|NPx].
  - rewrite (Hs x) by lra. rewrite (Rabs_pos_eq x) by lra. rewrite cos_atan, sin_atan.
    pose proof (Hpos (y / x)). pose proof (atan_bound (y / x)).
    repeat split; try lra; field; lra.
  - destruct (Rlt_dec x 0) as [Nx|NNx].
    + rewrite (Hs x) by lra. rewrite (Rabs_left x) by lra.
      pose proof (Hpos (y / x)). pose proof (atan_bound (y / x)).
      destruct (Rle_dec 0 y) as [Py|Ny].
      * rewrite neg_cos, neg_sin, cos_atan, sin_atan.
        assert (atan (y / x) <= 0).
        { destruct (Req_dec y 0) as [->|Hy]; [unfold Rdiv; rewrite Rmult_0_l, atan_0; lra|].
          left. rewrite <- atan_0. apply atan_increasing. assert (/ x < 0) by (apply Rinv_lt_0_compat; lra). unfold Rdiv. nra. }
        repeat split; try lra; field; lra.
      * replace (atan (y / x) - PI) with (atan (y / x) + PI + 2 * IZR (-1) * PI) by (simpl; ring).
        rewrite cos_period_Z, sin_period_Z, neg_cos, neg_sin, cos_atan, sin_atan.
        assert (0 < atan (y / x)).
        { rewrite <- atan_0. apply atan_increasing. assert (/ x < 0) by (apply Rinv_lt_0_compat; lra). unfold Rdiv. nra. }
        repeat split; try (simpl; lra); field; lra.
    + assert (x = 0) by lra. subst x. replace (0 * 0 + y * y) with (Rsqr y) by (unfold Rsqr; ring).
      rewrite sqrt_Rsqr_abs.
      destruct (Rlt_dec 0 y) as [Py|NPy].
      * rewrite cos_PI2, sin_PI2, Rabs_pos_eq by lra. repeat split; lra.
      * destruct (Rlt_dec y 0) as [Ny|NNy]; [|exfalso; destruct Hnz; lra].
        rewrite cos_neg, sin_neg, cos_PI2, sin_PI2, Rabs_left by lra. repeat split; lra.
Qed.

(** the reduction to [0, 2 pi) *)
Definition reduce (a : R) : R := a - 2 * PI * IZR (Zfloor (a / (2 * PI))).

Lemma reduce_range a : 0 <= reduce a < 2 * PI.
Proof.
  unfold reduce. pose proof PI_RGT_0.
  pose proof (Zfloor_lb (a / (2 * PI))). pose proof (Zfloor_ub (a / (2 * PI))).
  set (n := IZR (Zfloor (a / (2 * PI)))) in *.
  assert (a = a / (2 * PI) * (2 * PI)) as E by (field; lra).
  split; [|]; rewrite E at 1; nra.
Qed.

Lemma reduce_shift t (k : Z) : 0 <= t < 2 * PI -> reduce (t + 2 * IZR k * PI) = t.
Proof.
  intros Ht. unfold reduce. pose proof PI_RGT_0.
  rewrite (Zfloor_imp k).
  - ring.
  - rewrite plus_IZR. replace ((t + 2 * IZR k * PI) / (2 * PI)) with (t / (2 * PI) + IZR k) by (field; lra).
    assert (0 <= t / (2 * PI) < 1).
    { split; [apply Rmult_le_pos; [lra|left; apply Rinv_0_lt_compat; lra]|].
      apply (Rmult_lt_reg_r (2 * PI)); [lra|]. unfold Rdiv. rewrite Rmult_assoc, Rinv_l by lra. lra. }
    simpl. lra.
Qed.

Lemma reduce_2pi (k : Z) : reduce (2 * PI + 2 * IZR k * PI) = 0.
Proof.
  replace (2 * PI + 2 * IZR k * PI) with (0 + 2 * IZR (k + 1) * PI) by (rewrite plus_IZR; simpl; ring).
  apply reduce_shift. pose proof PI_RGT_0. lra.
Qed.

Lemma polar_norm rho th : 0 < rho ->
  sqrt (rho * cos th * (rho * cos th) + rho * sin th * (rho * sin th)) = rho.
Proof.
  intros Hr. replace (rho * cos th * (rho * cos th) + rho * sin th * (rho * sin th)) with (Rsqr rho).
  - rewrite sqrt_Rsqr_abs. apply Rabs_pos_eq. lra.
  - pose proof (sin2_cos2 th) as Q. unfold Rsqr in *. nra.
Qed.

(** a point given in polar form around the start ray: the reduced relative angle is its angle *)
Lemma rel_of_polar (sg dx dy rho start t : R) : sg = 1 \/ sg = -1 -> 0 < rho -> 0 <= t <= 2 * PI ->
  dx = rho * cos (start + sg * t) -> dy = rho * sin (start + sg * t) ->
  let rel := reduce (sg * (Ratan2 dy dx - start)) in
  (t < 2 * PI /\ rel = t) \/ (t = 2 * PI /\ rel = 0).
Proof.
  intros Hsg Hrho Ht Ex Ey. cbv zeta.
  assert (dx <> 0 \/ dy <> 0) as Hnz.
  { destruct (Req_dec dx 0) as [Zx|]; [|left; assumption]. right. intros Zy.
    pose proof (sin2_cos2 (start + sg * t)) as Q. unfold Rsqr in Q.
    assert (cos (start + sg * t) = 0) by nra. assert (sin (start + sg * t) = 0) by nra. nra. }
  destruct (atan2_polar dx dy Hnz) as (Px & Py & _).
  assert (sqrt (dx * dx + dy * dy) = rho) as Er by (rewrite Ex, Ey; apply polar_norm; exact Hrho).
  rewrite Er in Px, Py.
  destruct (cos_sin_eq_mod (Ratan2 dy dx) (start + sg * t)) as [k Hk]; [nra|nra|].
  rewrite Hk.
  assert (exists k' : Z, sg * (start + sg * t + 2 * IZR k * PI - start) = t + 2 * IZR k' * PI) as [k' ->].
  { destruct Hsg as [->| ->]; [exists k; ring|exists (- k)%Z; rewrite opp_IZR; ring]. }
  destruct (Rlt_dec t (2 * PI)) as [L|NL].
  - left. split; [exact L|]. apply reduce_shift. lra.
  - right. assert (t = 2 * PI) as -> by lra. split; [reflexivity|]. apply reduce_2pi.
Qed.

(** conversely the reduced relative angle gives a polar form *)
Lemma polar_of_rel (sg dx dy start : R) : sg = 1 \/ sg = -1 -> dx <> 0 \/ dy <> 0 ->
  let rel := reduce (sg * (Ratan2 dy dx - start)) in let rho := sqrt (dx * dx + dy * dy) in
  dx = rho * cos (start + sg * rel) /\ dy = rho * sin (start + sg * rel).
Proof.
  intros Hsg Hnz. cbv zeta. destruct (atan2_polar dx dy Hnz) as (Px & Py & _).
  unfold reduce. set (n := Zfloor (sg * (Ratan2 dy dx - start) / (2 * PI))).
  assert (exists k : Z, start + sg * (sg * (Ratan2 dy dx - start) - 2 * PI * IZR n) = Ratan2 dy dx + 2 * IZR k * PI) as [k ->].
  { destruct Hsg as [->| ->]; [exists (- n)%Z|exists n]; try rewrite opp_IZR; ring. }
  rewrite cos_period_Z, sin_period_Z. split; assumption.
Qed.

Lemma cseg_form (s : CircleSegment R) (p : Point R) :
  let dx := px p - px (cs_center s) in let dy := py p - py (cs_center s) in
  let sg := Rsignum (cs_sweep_angle s) in
  let d2 := dx * dx + dy * dy in
  let o2 := cs_outer_radius s * cs_outer_radius s in let i2 := cs_inner_radius s * cs_inner_radius s in
  cseg_winding s p =
  if Rltb (Rabs (cs_sweep_angle s)) (reduce (sg * (Ratan2 dy dx - cs_start_angle s))) then 0%Z
  else if (Rltb d2 o2 && Rltb i2 d2) || (Rltb d2 i2 && Rltb o2 d2)
       then (if Rltb 0 sg then 1%Z else if Rltb sg 0 then (-1)%Z else 0%Z) else 0%Z.
Proof.
  destruct s as [[cx cy] ro ri st sw], p as [x y]. cbv zeta. unfold reduce. sq_unfold.
  rewrite !powerRZ_2. reflexivity.
Qed.

Lemma sq_lt_pos a b : 0 <= a -> 0 <= b -> (a * a < b * b <-> a < b).
Proof. intros; split; intros; nra. Qed.

Lemma cseg_band (ri ro d2 : R) : 0 <= ri <= ro -> 0 <= d2 ->
  ((Rltb d2 (ro * ro) && Rltb (ri * ri) d2) || (Rltb d2 (ri * ri) && Rltb (ro * ro) d2) = true
   <-> ri < sqrt d2 < ro).
Proof.
  intros Hr Hd. pose proof (sqrt_pos d2) as Ps. pose proof (sqrt_sqrt d2 Hd) as Es.
  set (q := sqrt d2) in *. rewrite <- Es.
  split.
  - intros B. apply orb_true_iff in B. destruct B as [B|B]; apply andb_true_iff in B; destruct B as [B1 B2];
      apply Rltb_true in B1; apply Rltb_true in B2.
    + split; nra.
    + exfalso. nra.
  - intros [B1 B2]. apply orb_true_iff. left. apply andb_true_iff. split; apply Rltb_true; nra.
Qed.

(** sweep in (0, 2 pi], 0 <= inner <= outer: the closed form is membership in the annular sector *)
Lemma cseg_winding_spec (s : CircleSegment R) (p : Point R) :
  0 <= cs_inner_radius s <= cs_outer_radius s -> 0 < cs_sweep_angle s <= 2 * PI ->
  (in_sector s p -> cseg_winding s p = 1%Z) /\ (~ in_sector s p -> cseg_winding s p = 0%Z).
Proof.
  intros Hr Hsw. rewrite cseg_form. cbv zeta.
  destruct s as [[cx cy] ro ri st sw], p as [x y]. unfold in_sector.
  cbn [cs_center cs_outer_radius cs_inner_radius cs_start_angle cs_sweep_angle px py] in *.
  assert (Rsignum sw = 1) as -> by (unfold Rsignum; destruct (Rle_dec 0 sw); lra).
  rewrite (Rabs_pos_eq sw) by lra.
  set (dx := x - cx). set (dy := y - cy).
  assert (0 <= dx * dx + dy * dy) as Hd2 by nra.
  pose proof (cseg_band ri ro (dx * dx + dy * dy) Hr Hd2) as Band.
  destruct (Rltb_spec 0 1); [|lra].
  split.
  - intros (rho & t & Hrho & Ht & Ex & Ey).
    assert (dx = rho * cos (st + 1 * t)) as Ex' by (unfold dx; rewrite Rmult_1_l; lra).
    assert (dy = rho * sin (st + 1 * t)) as Ey' by (unfold dy; rewrite Rmult_1_l; lra).
    destruct (rel_of_polar 1 dx dy rho st t (or_introl eq_refl) ltac:(lra) ltac:(lra) Ex' Ey') as [[_ ->]|[_ ->]].
    + destruct (Rltb_spec sw t); [lra|].
      assert (sqrt (dx * dx + dy * dy) = rho) as Er by (rewrite Ex', Ey'; apply polar_norm; lra).
      rewrite Er in Band. destruct Band as [_ B]. rewrite B by lra. reflexivity.
    + destruct (Rltb_spec sw 0); [lra|].
      assert (sqrt (dx * dx + dy * dy) = rho) as Er by (rewrite Ex', Ey'; apply polar_norm; lra).
      rewrite Er in Band. destruct Band as [_ B]. rewrite B by lra. reflexivity.
  - intros Hn.
    destruct (Rltb_spec sw (reduce (1 * (Ratan2 dy dx - st)))) as [L|NL]; [reflexivity|].
    match goal with |- (if ?b then _ else _) = _ => destruct b eqn:Eb end; [|reflexivity].
    exfalso. apply Hn. clear Eb. assert (ri < sqrt (dx * dx + dy * dy) < ro) as Eb by (apply Band; reflexivity).
    assert (dx <> 0 \/ dy <> 0) as Hnz.
    { destruct (Req_dec dx 0) as [Zx|]; [|left; assumption]. right. intros Zy.
      rewrite Zx, Zy in Eb. replace (0 * 0 + 0 * 0) with 0 in Eb by ring. rewrite sqrt_0 in Eb. lra. }
    destruct (polar_of_rel 1 dx dy st (or_introl eq_refl) Hnz) as (Px & Py).
    pose proof (reduce_range (1 * (Ratan2 dy dx - st))) as Rr.
    exists (sqrt (dx * dx + dy * dy)), (reduce (1 * (Ratan2 dy dx - st))).
    replace (st + reduce (1 * (Ratan2 dy dx - st))) with (st + 1 * reduce (1 * (Ratan2 dy dx - st))) by ring.
    unfold dx, dy in *. repeat split; lra.
Qed.

(** negative sweep in [-2 pi, 0): the winding is -1 on the sector swept backwards *)
Lemma cseg_winding_spec_neg (s : CircleSegment R) (p : Point R) :
  0 <= cs_inner_radius s <= cs_outer_radius s -> - (2 * PI) <= cs_sweep_angle s < 0 ->
  (in_sector_neg s p -> cseg_winding s p = (-1)%Z) /\ (~ in_sector_neg s p -> cseg_winding s p = 0%Z).
Proof.
  intros Hr Hsw. rewrite cseg_form. cbv zeta.
  destruct s as [[cx cy] ro ri st sw], p as [x y]. unfold in_sector_neg.
  cbn [cs_center cs_outer_radius cs_inner_radius cs_start_angle cs_sweep_angle px py] in *.
  assert (Rsignum sw = -1) as -> by (unfold Rsignum; destruct (Rle_dec 0 sw); lra).
  rewrite (Rabs_left sw) by lra.
  set (dx := x - cx). set (dy := y - cy).
  assert (0 <= dx * dx + dy * dy) as Hd2 by nra.
  pose proof (cseg_band ri ro (dx * dx + dy * dy) Hr Hd2) as Band.
  destruct (Rltb_spec 0 (-1)); [lra|]. destruct (Rltb_spec (-1) 0); [|lra].
  split.
  - intros (rho & t & Hrho & Ht & Ex & Ey).
    assert (dx = rho * cos (st + -1 * t)) as Ex' by (unfold dx; replace (st + -1 * t) with (st - t) by ring; lra).
    assert (dy = rho * sin (st + -1 * t)) as Ey' by (unfold dy; replace (st + -1 * t) with (st - t) by ring; lra).
    destruct (rel_of_polar (-1) dx dy rho st t (or_intror eq_refl) ltac:(lra) ltac:(lra) Ex' Ey') as [[_ ->]|[_ ->]].
    + destruct (Rltb_spec (- sw) t); [lra|].
      assert (sqrt (dx * dx + dy * dy) = rho) as Er by (rewrite Ex', Ey'; apply polar_norm; lra).
      rewrite Er in Band. destruct Band as [_ B]. rewrite B by lra. reflexivity.
    + destruct (Rltb_spec (- sw) 0); [lra|].
      assert (sqrt (dx * dx + dy * dy) = rho) as Er by (rewrite Ex', Ey'; apply polar_norm; lra).
      rewrite Er in Band. destruct Band as [_ B]. rewrite B by lra. reflexivity.
  - intros Hn.
    destruct (Rltb_spec (- sw) (reduce (-1 * (Ratan2 dy dx - st)))) as [L|NL]; [reflexivity|].
    match goal with |- (if ?b then _ else _) = _ => destruct b eqn:Eb end; [|reflexivity].
    exfalso. apply Hn. clear Eb. assert (ri < sqrt (dx * dx + dy * dy) < ro) as Eb by (apply Band; reflexivity).
    assert (dx <> 0 \/ dy <> 0) as Hnz.
    { destruct (Req_dec dx 0) as [Zx|]; [|left; assumption]. right. intros Zy.
      rewrite Zx, Zy in Eb. replace (0 * 0 + 0 * 0) with 0 in Eb by ring. rewrite sqrt_0 in Eb. lra. }
    destruct (polar_of_rel (-1) dx dy st (or_intror eq_refl) Hnz) as (Px & Py).
    pose proof (reduce_range (-1 * (Ratan2 dy dx - st))) as Rr.
    exists (sqrt (dx * dx + dy * dy)), (reduce (-1 * (Ratan2 dy dx - st))).
    replace (st - reduce (-1 * (Ratan2 dy dx - st))) with (st + -1 * reduce (-1 * (Ratan2 dy dx - st))) by ring.
    unfold dx, dy in *. repeat split; lra.
Qed.

(** the pinned code compares the raw [atan2] angle with [start, start + sweep]: refuted when the
    range leaves (-pi, pi]. Witness: the three-quarter ring from pi/2 to 2 pi, point straight below
    the centre (angle 3 pi / 2, reported by atan2 as - pi / 2), strictly inside the sector. *)
Lemma cseg_winding_pinned_refuted :
  exists (s : CircleSegment R) (p : Point R),
    0 <= cs_inner_radius s <= cs_outer_radius s /\ 0 < cs_sweep_angle s <= 2 * PI /\
    in_sector s p /\ cseg_winding s p = 1%Z /\ cseg_winding_pinned s p = 0%Z.
Proof.
  pose proof PI_RGT_0 as Ppi.
  set (s := mkCircleSegment (mkPoint 0 0) 2 1 (PI / 2) (3 * (PI / 2))).
  set (p := mkPoint 0 (- (3 / 2))).
  assert (in_sector s p) as Hin.
  { exists (3 / 2), PI. unfold s, p. cbn [cs_center cs_outer_radius cs_inner_radius cs_start_angle cs_sweep_angle px py].
    rewrite neg_cos, neg_sin, cos_PI2, sin_PI2. repeat split; lra. }
  assert (0 <= cs_inner_radius s <= cs_outer_radius s) as Hr by (unfold s; cbn; lra).
  assert (0 < cs_sweep_angle s <= 2 * PI) as Hs by (unfold s; cbn; lra).
  exists s, p. repeat split; try apply Hr; try apply Hs; try exact Hin.
  - apply cseg_winding_spec; assumption.
  - unfold s, p. sq_unfold. unfold Ratan2.
    replace (0 - 0) with 0 by ring.
    destruct (Rlt_dec 0 0); [lra|]. destruct (Rlt_dec 0 0); [lra|].
    destruct (Rlt_dec 0 (- (3 / 2) - 0)); [lra|]. destruct (Rlt_dec (- (3 / 2) - 0) 0); [|lra].
    destruct (Rltb_spec (- (PI / 2)) (PI / 2)); [reflexivity|lra].
Qed.

(** area and perimeter of the annular sector, 0 <= inner <= outer *)
Lemma cseg_queries (s : CircleSegment R) : cs_inner_radius s <= cs_outer_radius s -> 0 <= cs_inner_radius s ->
  let ro := cs_outer_radius s in let ri := cs_inner_radius s in let sw := cs_sweep_angle s in
  cseg_area s = (sq ro * sw) / 2 - (sq ri * sw) / 2 /\
  cseg_perimeter s = (ro - ri) + ro * sw + (ro - ri) + ri * sw.
Proof.
  destruct s as [[cx cy] ro ri st sw]. cbn [cs_center cs_outer_radius cs_inner_radius cs_start_angle cs_sweep_angle].
  intros H1 H0. unfold sq. sq_unfold. rewrite !powerRZ_2.
  rewrite (Rabs_pos_eq (ro * ro - ri * ri)) by nra. rewrite (Rabs_pos_eq (ro - ri)) by lra.
  split; field.
Qed.
