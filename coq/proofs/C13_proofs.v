(** C13, part 3: the dasher over the reals, on polylines. *)
From Coq Require Import ZArith QArith Reals List Bool Arith Lia Lra Psatz.
From KV Require Import Scalar RInst RTac Geom Curves Path Dash DashSpec C13_sim C13_decl.
Import ListNotations.
Local Open Scope R_scope.

(** ** Rust's [==] on real points is equality *)
Lemma pt_neb_refl_R (p : Point R) : pt_neb p p = false.
Proof.
  unfold pt_neb, pt_eqb. simpl. unfold Reqb.
  destruct (Req_EM_T (px p) (px p)); [|congruence].
  destruct (Req_EM_T (py p) (py p)); [|congruence]. reflexivity.
Qed.

Lemma pt_neb_false_R (p q : Point R) : pt_neb p q = false -> p = q.
Proof.
  unfold pt_neb, pt_eqb. simpl. unfold Reqb. destruct p, q; simpl.
  destruct (Req_EM_T px px0); [|discriminate].
  destruct (Req_EM_T py py0); [|discriminate]. intros _. subst. reflexivity.
Qed.

Lemma dash_init_unfold (ds : list R) fuel o :
  ds <> [] ->
  dash_init fixes_all ds fuel o =
  match init_loop fixes_all ds fuel 0 (nth 0 ds 0 - o) true with
  | Some ph => InitOk ph
  | None => InitFuel
  end.
Proof. destruct ds; [congruence|]. reflexivity. Qed.

(** ** The pattern: [ds] non-empty, every interval at least [dm] > 0 *)
Section Pattern.
Variable ds : list R.
Variable dm : R.
Hypothesis dm_pos : 0 < dm.
Hypothesis ds_ge : forall d, In d ds -> dm <= d.
Hypothesis ds_ne : ds <> [].

(** what the iterator is given as [arclen]/[inv_arclen] of a segment: anything, lengths non-negative
    (for curves: property C03's business) *)
Variable al : PathSeg R -> R.
Variable ial : PathSeg R -> R -> R.
Hypothesis al_nonneg : forall s, 0 <= al s.

Notation n := (length ds).

Lemma n_pos : (0 < n)%nat.
Proof. destruct ds; [congruence|simpl; lia]. Qed.

Lemma nth_ge k : dm <= nth (k mod n) ds 0.
Proof. apply ds_ge. apply nth_In. apply Nat.mod_upper_bound. pose proof n_pos; lia. Qed.

Lemma cum_S k : cum ds (S k) = cum ds k + nth (k mod n) ds 0.
Proof. reflexivity. Qed.

Lemma cum_mono k : cum ds k + dm <= cum ds (S k).
Proof. rewrite cum_S. pose proof (nth_ge k). lra. Qed.

Lemma cum_lower k : INR k * dm <= cum ds k.
Proof.
  induction k. { simpl. lra. }
  rewrite S_INR. pose proof (cum_mono k). lra.
Qed.

Notation phase_at := (phase_at ds).

Lemma succ_mod j : ((j mod n + 1) mod n = S j mod n)%nat.
Proof.
  pose proof n_pos. rewrite Nat.add_mod_idemp_l by lia. f_equal. lia.
Qed.

Lemma init_loop_spec o : forall fuel j,
  cum ds j <= o -> o - cum ds j < INR fuel * dm ->
  exists k ph, init_loop fixes_all ds fuel (j mod n) (cum ds (S j) - o) (Nat.even j) = Some ph /\
               phase_at k o ph /\ (p_rem ph = 0 -> p_act ph = true) /\ (j <= k)%nat.
Proof.
  induction fuel; intros j Hj Hm.
  - simpl in Hm. lra.
  - simpl. unfold init_continue. simpl.
    destruct (Rltb (cum ds j + nth (j mod n) ds 0 - o) 0 || Reqb (cum ds j + nth (j mod n) ds 0 - o) 0 && negb (Nat.even j)) eqn:E.
    + assert (Hle : cum ds (S j) <= o).
      { rewrite cum_S. apply orb_true_iff in E. destruct E as [E|E].
        - apply Rltb_true in E. lra.
        - apply andb_true_iff in E. destruct E as [E _]. apply Reqb_true in E. lra. }
      destruct (IHfuel (S j) Hle) as (k & ph & Hl & Hp & Hz & Hk).
      { rewrite S_INR in Hm. pose proof (cum_mono j). lra. }
      exists k, ph. split; [|split; [exact Hp|split; [exact Hz|lia]]].
      rewrite <- Hl. rewrite succ_mod. rewrite Nat.even_succ, <- Nat.negb_even.
      f_equal. rewrite (cum_S (S j)), (cum_S j). lra.
    + apply orb_false_iff in E. destruct E as [E1 E2]. apply Rltb_false in E1.
      exists j. eexists. split; [reflexivity|]. split; [|split; [|lia]].
      * unfold phase_at; simpl. repeat split; auto; lra.
      * simpl. intros Hz. apply andb_false_iff in E2. destruct E2 as [E2|E2].
        { apply Reqb_false in E2. lra. }
        { apply negb_false_iff in E2. exact E2. }
Qed.

Notation init_fuel := (init_fuel dm).

Lemma init_fuel_ok o : 0 <= o -> o < INR (init_fuel o) * dm.
Proof.
  intros Ho. unfold init_fuel. rewrite S_INR.
  assert (H0 : 0 <= o / dm) by (apply Rmult_le_pos; [lra|left; apply Rinv_0_lt_compat; lra]).
  destruct (archimed (o / dm)) as [Hup _].
  assert (Hz : (0 <= up (o / dm))%Z).
  { apply le_IZR. lra. }
  rewrite INR_IZR_INZ, Z2Nat.id by exact Hz.
  assert (o / dm * dm = o) by (field; lra).
  nra.
Qed.

Lemma init_loop_mono fuel : forall ix rem act ph,
  init_loop (T:=R) fixes_all ds fuel ix rem act = Some ph ->
  forall g, (fuel <= g)%nat -> init_loop fixes_all ds g ix rem act = Some ph.
Proof.
  induction fuel; intros ix rem act ph Hl g Hg.
  - simpl in Hl. destruct g; simpl; destruct (init_continue fixes_all rem act); congruence.
  - destruct g; [lia|]. simpl in *. destruct (init_continue fixes_all rem act); auto.
    apply IHfuel; auto. lia.
Qed.

(** [dash_phase_init]: the initial loop ends and leaves the phase of the pattern at the offset *)
Lemma dash_init_spec o fuel :
  0 <= o -> (init_fuel o <= fuel)%nat ->
  exists k ph, dash_init fixes_all ds fuel o = InitOk ph /\ phase_at k o ph /\
               (p_rem ph = 0 -> p_act ph = true).
Proof.
  intros Ho Hf. rewrite (dash_init_unfold ds fuel o ds_ne).
  destruct (init_loop_spec o (init_fuel o) 0) as (k & ph & Hl & Hp & Hz & _).
  { simpl. lra. }
  { simpl. rewrite Rminus_0_r. apply init_fuel_ok; auto. }
  exists k, ph. split; auto.
  assert (E : cum ds 1 - o = nth 0 ds 0 - o).
  { simpl. rewrite Nat.mod_0_l by (pose proof n_pos; lia). lra. }
  rewrite Nat.mod_0_l in Hl by (pose proof n_pos; lia). rewrite E in Hl. simpl Nat.even in Hl.
  rewrite (init_loop_mono _ _ _ _ _ Hl fuel Hf). reflexivity.
Qed.


(** ** Lines *)

Lemma llen_formula (l : Line R) :
  llen l = sqrt ((px (l1 l) - px (l0 l)) * (px (l1 l) - px (l0 l)) + (py (l1 l) - py (l0 l)) * (py (l1 l) - py (l0 l))).
Proof. reflexivity. Qed.

Lemma llen_nonneg l : 0 <= llen l.
Proof. rewrite llen_formula. apply sqrt_pos. Qed.

Lemma line_eval_xy (l : Line R) t :
  line_eval l t = mkPoint (px (l0 l) + t * (px (l1 l) - px (l0 l))) (py (l0 l) + t * (py (l1 l) - py (l0 l))).
Proof. destruct l as [[x0 y0] [x1 y1]]. unfold line_eval, pt_lerp, v_lerp, to_point, to_vec2, v_add, s_scale_v, v_scale, v_sub. simpl. f_equal; ring. Qed.

Lemma line_eval_0 l : line_eval l 0 = l0 l.
Proof. rewrite line_eval_xy. destruct l as [[x0 y0] [x1 y1]]; simpl. f_equal; ring. Qed.
Lemma line_eval_1 l : line_eval l 1 = l1 l.
Proof. rewrite line_eval_xy. destruct l as [[x0 y0] [x1 y1]]; simpl. f_equal; ring. Qed.

(** distance between two points of a line = parameter difference times its length *)
Lemma dist_on_line l a b : a <= b ->
  llen (mkLine (line_eval l a) (line_eval l b)) = (b - a) * llen l.
Proof.
  intros Hab. rewrite !llen_formula. rewrite !line_eval_xy. simpl.
  set (dx := px (l1 l) - px (l0 l)). set (dy := py (l1 l) - py (l0 l)).
  replace ((px (l0 l) + b * dx - (px (l0 l) + a * dx)) * (px (l0 l) + b * dx - (px (l0 l) + a * dx)) +
           (py (l0 l) + b * dy - (py (l0 l) + a * dy)) * (py (l0 l) + b * dy - (py (l0 l) + a * dy)))
    with ((b - a) * (b - a) * (dx * dx + dy * dy)) by ring.
  rewrite sqrt_mult; [|nra|nra].
  rewrite sqrt_square by lra. reflexivity.
Qed.

Lemma sub_eval l t u : line_eval (line_subsegment l t 1) u = line_eval l (t + u * (1 - t)).
Proof.
  unfold line_subsegment. rewrite (line_eval_xy (mkLine _ _)). simpl. rewrite !line_eval_xy. simpl.
  f_equal; ring.
Qed.

Lemma sub_len l t : t <= 1 -> llen (line_subsegment l t 1) = (1 - t) * llen l.
Proof. intros. unfold line_subsegment. apply dist_on_line; auto. Qed.

Fixpoint end_from (cur : Point R) (els : list (PathEl R)) : Point R :=
  match els with
  | [] => cur
  | MoveTo p :: r => end_from p r
  | LineTo p :: r => end_from p r
  | QuadTo _ p :: r => end_from p r
  | CurveTo _ _ p :: r => end_from p r
  | ClosePath :: r => end_from cur r
  end.

Lemma len_from_app cur a b : len_from cur (a ++ b) = len_from cur a + len_from (end_from cur a) b.
Proof.
  revert cur; induction a as [|e a IH]; intros cur; simpl. { lra. }
  destruct e; simpl; rewrite ?IH; lra.
Qed.
Lemma end_from_app cur a b : end_from cur (a ++ b) = end_from (end_from cur a) b.
Proof. revert cur; induction a as [|e a IH]; intros cur; simpl; auto. destruct e; simpl; auto. Qed.

(** ** One line segment: the code produces a trace *)
Lemma next_ix_mod k : next_ix ds (k mod n) = (S k mod n)%nat.
Proof.
  pose proof n_pos as Hn. unfold next_ix.
  rewrite <- succ_mod.
  pose proof (Nat.mod_upper_bound k n ltac:(lia)) as Hb.
  destruct (Nat.eqb (S (k mod n)) n) eqn:E.
  - apply Nat.eqb_eq in E. replace (k mod n + 1)%nat with n by lia. rewrite Nat.mod_same by lia. reflexivity.
  - apply Nat.eqb_neq in E. assert (Hlt : (k mod n + 1 < n)%nat) by lia.
    rewrite (Nat.mod_small _ _ Hlt). lia.
Qed.

Lemma phase_at_next k (ph : Phase R) :
  p_ix ph = (k mod n)%nat -> p_act ph = Nat.even k ->
  phase_at (S k) (cum ds (S k))
    (mkPhase (next_ix ds (p_ix ph)) (nth (next_ix ds (p_ix ph)) ds 0) (negb (p_act ph))).
Proof.
  intros Hi Ha. unfold phase_at; cbn [p_ix p_act p_rem]. rewrite Hi, Ha, next_ix_mod.
  repeat split; auto.
  - rewrite Nat.even_succ, <- Nat.negb_even. reflexivity.
  - rewrite (cum_S (S k)). lra.
  - lra.
  - pose proof (cum_mono (S k)). lra.
Qed.

Lemma seg_pieces_S fuel (seg : PathSeg R) t srem (ph : Phase R) :
  seg_pieces poly_inv_arclen ds (S fuel) seg t srem ph =
  if Rltb (p_rem ph) srem then
    match seg_pieces poly_inv_arclen ds fuel seg (switch_t poly_inv_arclen seg t ph) (srem - p_rem ph) (ph_next ds ph) with
    | Some (els, n, ph') => Some (switch_el poly_inv_arclen seg t ph :: els, S n, ph')
    | None => None
    end
  else Some (final_els seg t ph, 0%nat, ph_final ph srem).
Proof. reflexivity. Qed.

Lemma seg_pieces_0 (seg : PathSeg R) t srem (ph : Phase R) :
  seg_pieces poly_inv_arclen ds 0 seg t srem ph =
  if Rltb (p_rem ph) srem then None else Some (final_els seg t ph, 0%nat, ph_final ph srem).
Proof. reflexivity. Qed.

Lemma line_switch_t (l : Line R) t (ph : Phase R) : t < 1 ->
  switch_t poly_inv_arclen (SegLine l) t ph = t + p_rem ph / ((1 - t) * llen l) * (1 - t).
Proof.
  intros Ht. unfold switch_t.
  change (poly_inv_arclen (seg_subsegment (SegLine l) t f1) (p_rem ph))
    with (p_rem ph / llen (line_subsegment l t 1)).
  rewrite sub_len by lra. reflexivity.
Qed.

Lemma line_switch_el (l : Line R) t (ph : Phase R) :
  switch_el poly_inv_arclen (SegLine l) t ph =
  if p_act ph then LineTo (line_eval l (switch_t poly_inv_arclen (SegLine l) t ph))
  else MoveTo (line_eval l (switch_t poly_inv_arclen (SegLine l) t ph)).
Proof.
  unfold switch_el, switch_t. cbv zeta.
  change (seg_subsegment (SegLine l) t f1) with (SegLine (line_subsegment l t 1)).
  set (t1 := poly_inv_arclen (SegLine (line_subsegment l t 1)) (p_rem ph)).
  change (seg_to_el (seg_subsegment (SegLine (line_subsegment l t 1)) f0 t1))
    with (LineTo (line_eval (line_subsegment l t 1) t1)).
  change (seg_eval (SegLine (line_subsegment l t 1)) t1) with (line_eval (line_subsegment l t 1) t1).
  rewrite sub_eval. reflexivity.
Qed.

Lemma line_final_els (l : Line R) t (ph : Phase R) :
  final_els (SegLine l) t ph = if p_act ph then [LineTo (line_eval l 1)] else [].
Proof. reflexivity. Qed.

Lemma line_seg_run (l : Line R) x0 : forall fuel t srem ph k,
  0 <= t <= 1 -> srem = (1 - t) * llen l ->
  phase_at k (x0 + t * llen l) ph ->
  x0 + llen l - cum ds (S k) < INR fuel * dm ->
  exists els nsw ph' k',
    seg_pieces poly_inv_arclen ds fuel (SegLine l) t srem ph = Some (els, nsw, ph') /\
    Trace ds l x0 t k els k' /\ phase_at k' (x0 + llen l) ph'.
Proof.
  assert (Hend : forall t srem (ph : Phase R) k,
    0 <= t <= 1 -> srem = (1 - t) * llen l -> phase_at k (x0 + t * llen l) ph ->
    Rltb (p_rem ph) srem = false ->
    Trace ds l x0 t k (final_els (SegLine l) t ph) k /\ phase_at k (x0 + llen l) (ph_final ph srem)).
  { intros t srem ph k Ht Hs (Hix & Hact & Hrem & Hlo & Hhi) E.
    apply Rltb_false in E. rewrite Hrem, Hs in E. pose proof (llen_nonneg l). split.
    - rewrite line_final_els, Hact. apply tr_end; auto. lra.
    - unfold phase_at, ph_final; cbn [p_ix p_act p_rem]. rewrite Hrem, Hs.
      change (@fsub R RS) with Rminus.
      repeat split; auto; try lra; nra. }
  induction fuel; intros t srem ph k Ht Hs Hph Hm.
  - rewrite seg_pieces_0.
    destruct Hph as (Hix & Hact & Hrem & Hlo & Hhi).
    assert (E : Rltb (p_rem ph) srem = false).
    { apply Rltb_false. rewrite Hrem, Hs. cbn [INR] in Hm. lra. }
    rewrite E. do 3 eexists. exists k. split; [reflexivity|].
    apply Hend; auto. unfold phase_at; auto.
  - rewrite seg_pieces_S.
    destruct (Rltb (p_rem ph) srem) eqn:E.
    + destruct Hph as (Hix & Hact & Hrem & Hlo & Hhi).
      apply Rltb_true in E.
      assert (Hrem0 : 0 <= p_rem ph) by lra.
      assert (Hsp : 0 < (1 - t) * llen l) by lra.
      assert (Hl : 0 < llen l). { pose proof (llen_nonneg l). nra. }
      assert (Ht1 : t < 1) by nra.
      set (t' := switch_t poly_inv_arclen (SegLine l) t ph).
      assert (Et' : t' = t + p_rem ph / llen l).
      { unfold t'. rewrite line_switch_t by lra. field. lra. }
      assert (Hx' : x0 + t' * llen l = cum ds (S k)).
      { rewrite Et'. rewrite Hrem. field. lra. }
      assert (Ht'1 : t' <= 1).
      { rewrite Et'. apply Rmult_le_reg_r with (llen l); auto.
        replace ((t + p_rem ph / llen l) * llen l) with (t * llen l + p_rem ph) by (field; lra). lra. }
      assert (Htt' : t <= t').
      { rewrite Et'. assert (0 <= p_rem ph / llen l) by (apply Rmult_le_pos; [lra|left; apply Rinv_0_lt_compat; lra]). lra. }
      destruct (IHfuel t' (srem - p_rem ph) (ph_next ds ph) (S k))
        as (els & nsw & ph' & k' & Hsp' & Htr & Hph').
      { lra. }
      { rewrite Hs, Et'. field. lra. }
      { rewrite Hx'. apply phase_at_next; auto. }
      { rewrite S_INR in Hm. pose proof (cum_mono (S k)). lra. }
      rewrite Hsp'.
      do 3 eexists. exists k'. split; [reflexivity|]. split; auto.
      rewrite line_switch_el, Hact. fold t'.
      apply tr_switch; auto; lra.
    + do 3 eexists. exists k. split; [reflexivity|]. apply Hend; auto.
Qed.


(** ** Any segment, any [arclen]/[inv_arclen]: totality and the phase *)
Lemma seg_pieces_S_gen fuel (seg : PathSeg R) t srem (ph : Phase R) :
  seg_pieces ial ds (S fuel) seg t srem ph =
  if Rltb (p_rem ph) srem then
    match seg_pieces ial ds fuel seg (switch_t ial seg t ph) (srem - p_rem ph) (ph_next ds ph) with
    | Some (els, n, ph') => Some (switch_el ial seg t ph :: els, S n, ph')
    | None => None
    end
  else Some (final_els seg t ph, 0%nat, ph_final ph srem).
Proof. reflexivity. Qed.

Lemma seg_pieces_0_gen (seg : PathSeg R) t srem (ph : Phase R) :
  seg_pieces ial ds 0 seg t srem ph =
  if Rltb (p_rem ph) srem then None else Some (final_els seg t ph, 0%nat, ph_final ph srem).
Proof. reflexivity. Qed.

(** the phase only depends on the lengths: [seg_remaining] is kept by subtraction *)
Lemma seg_phase_run (seg : PathSeg R) : forall fuel t srem (ph : Phase R) k x,
  phase_at k x ph -> 0 <= srem -> x + srem - cum ds (S k) < INR fuel * dm ->
  exists els nsw ph' k',
    seg_pieces ial ds fuel seg t srem ph = Some (els, nsw, ph') /\ phase_at k' (x + srem) ph'.
Proof.
  assert (Hend : forall srem (ph : Phase R) k x, phase_at k x ph -> 0 <= srem ->
            Rltb (p_rem ph) srem = false -> phase_at k (x + srem) (ph_final ph srem)).
  { intros srem ph k x (Hix & Hact & Hrem & Hlo & Hhi) Hs E. apply Rltb_false in E.
    unfold DashSpec.phase_at, ph_final; cbn [p_ix p_act p_rem]. rewrite Hrem in *.
    change (@fsub R RS) with Rminus. repeat split; auto; lra. }
  induction fuel; intros t srem ph k x Hph Hs Hm.
  - rewrite seg_pieces_0_gen.
    assert (E : Rltb (p_rem ph) srem = false).
    { destruct Hph as (_ & _ & Hrem & _ & _). apply Rltb_false. rewrite Hrem. cbn [INR] in Hm. lra. }
    rewrite E. do 3 eexists. exists k. split; [reflexivity|]. apply Hend; auto.
  - rewrite seg_pieces_S_gen. destruct (Rltb (p_rem ph) srem) eqn:E.
    + pose proof Hph as (Hix & Hact & Hrem & Hlo & Hhi). apply Rltb_true in E.
      destruct (IHfuel (switch_t ial seg t ph) (srem - p_rem ph) (ph_next ds ph) (S k) (cum ds (S k)))
        as (els & nsw & ph' & k' & Hsp & Hph').
      { apply phase_at_next; auto. }
      { lra. }
      { rewrite S_INR in Hm. pose proof (cum_mono (S k)). lra. }
      rewrite Hsp. do 3 eexists. exists k'. split; [reflexivity|].
      replace (x + srem) with (cum ds (S k) + (srem - p_rem ph)) by lra. exact Hph'.
    + do 3 eexists. exists k. split; [reflexivity|]. apply Hend; auto.
Qed.

Definition segs_len (segs : list (PathSeg R)) : R := fold_right (fun s a => al s + a) 0 segs.

Lemma plain_total fuel : forall (segs : list (PathSeg R)) x (ph : Phase R) k,
  phase_at k x ph -> (forall s, In s segs -> al s < INR fuel * dm) ->
  exists pcs nsw ph' k',
    plain al ial ds fuel segs ph = Some (pcs, nsw, ph') /\
    phase_at k' (x + segs_len segs) ph'.
Proof.
  induction segs as [|s r IH]; intros x ph k Hph Hf.
  - exists [], 0%nat, ph, k. split; [reflexivity|]. simpl. rewrite Rplus_0_r. exact Hph.
  - destruct (seg_phase_run s fuel f0 (al s) ph k x Hph (al_nonneg s)) as (e1 & n1 & ph1 & k1 & Hs & Hp1).
    { destruct Hph as (_ & _ & _ & _ & Hhi). pose proof (Hf s (or_introl eq_refl)). lra. }
    destruct (IH (x + al s) ph1 k1 Hp1) as (e2 & n2 & ph2 & k2 & Hr & Hp2).
    { intros; apply Hf; right; auto. }
    exists (e1 ++ e2), (n1 + n2)%nat, ph2, k2. split.
    + cbn [plain]. rewrite Hs, Hr. reflexivity.
    + cbn [segs_len fold_right]. replace (x + (al s + fold_right (fun s a => al s + a) 0 r)) with (x + al s + segs_len r) by (unfold segs_len; lra). exact Hp2.
Qed.

(** polylines: the pieces form a trace *)
Lemma plain_lines fuel : forall (ls : list (Line R)) x (ph : Phase R) k,
  phase_at k x ph -> (forall l, In l ls -> llen l < INR fuel * dm) ->
  exists pcs nsw ph' k',
    plain poly_arclen poly_inv_arclen ds fuel (map (@SegLine R) ls) ph = Some (pcs, nsw, ph') /\
    PTrace ds ls x k pcs k' /\ phase_at k' (x + total_len ls) ph'.
Proof.
  induction ls as [|l r IH]; intros x ph k Hph Hf.
  - exists [], 0%nat, ph, k. split; [reflexivity|]. split; [constructor|]. simpl. rewrite Rplus_0_r. exact Hph.
  - destruct (line_seg_run l x fuel 0 (llen l) ph k) as (e1 & n1 & ph1 & k1 & Hs & Ht1 & Hp1).
    + lra.
    + lra.
    + rewrite Rmult_0_l, Rplus_0_r. exact Hph.
    + destruct Hph as (_ & _ & _ & _ & Hhi). pose proof (Hf l (or_introl eq_refl)). lra.
    + destruct (IH (x + llen l) ph1 k1 Hp1) as (e2 & n2 & ph2 & k2 & Hr & Ht2 & Hp2).
      { intros; apply Hf; right; auto. }
      exists (e1 ++ e2), (n1 + n2)%nat, ph2, k2. split; [|split].
      * cbn [plain map]. change (poly_arclen (SegLine l)) with (llen l). change (@f0 R RS) with 0. rewrite Hs, Hr. reflexivity.
      * econstructor; eauto.
      * cbn [total_len fold_right]. replace (x + (llen l + fold_right (fun l a => llen l + a) 0 r)) with (x + llen l + total_len r) by (unfold total_len; lra). exact Hp2.
Qed.


(** ** The measure of the "on" set *)
Lemma cum_le j j' : (j <= j')%nat -> cum ds j <= cum ds j'.
Proof. induction 1; [lra|]. pose proof (cum_mono m). lra. Qed.

Lemma overlap_split lo hi a b c : a <= b -> b <= c ->
  overlap lo hi a c = overlap lo hi a b + overlap lo hi b c.
Proof. intros. unfold overlap, Rmin, Rmax. repeat destruct (Rle_dec _ _); lra. Qed.

Lemma overlap_left lo hi a b : hi <= a -> a <= b -> overlap lo hi a b = 0.
Proof. intros. unfold overlap, Rmin, Rmax. repeat destruct (Rle_dec _ _); lra. Qed.
Lemma overlap_right lo hi a b : b <= lo -> a <= b -> overlap lo hi a b = 0.
Proof. intros. unfold overlap, Rmin, Rmax. repeat destruct (Rle_dec _ _); lra. Qed.
Lemma overlap_inside lo hi a b : lo <= a -> a <= b -> b <= hi -> overlap lo hi a b = b - a.
Proof. intros. unfold overlap, Rmin, Rmax. repeat destruct (Rle_dec _ _); lra. Qed.

Lemma on_meas_split K a b c : a <= b -> b <= c ->
  on_meas ds K a c = on_meas ds K a b + on_meas ds K b c.
Proof.
  intros Hab Hbc. induction K; simpl; [lra|].
  rewrite IHK. destruct (Nat.even K); [|lra].
  rewrite (overlap_split _ _ a b c) by auto. lra.
Qed.

(** a stretch inside one interval of the pattern *)
Lemma on_meas_single k a b : cum ds k <= a -> a <= b -> b <= cum ds (S k) ->
  forall K, on_meas ds K a b = if (k <? K)%nat then (if Nat.even k then b - a else 0) else 0.
Proof.
  intros Hlo Hab Hhi. induction K.
  - reflexivity.
  - cbn [on_meas]. rewrite IHK.
    destruct (Nat.ltb_spec k K) as [Hlt|Hge].
    + (* K > k: beyond *)
      replace (k <? S K)%nat with true by (symmetry; apply Nat.ltb_lt; lia).
      assert (cum ds (S k) <= cum ds K) by (apply cum_le; lia).
      rewrite overlap_right by lra. destruct (Nat.even K), (Nat.even k); lra.
    + destruct (Nat.eq_dec K k) as [->|Hne].
      * replace (k <? S k)%nat with true by (symmetry; apply Nat.ltb_lt; lia).
        rewrite overlap_inside by lra. destruct (Nat.even k); lra.
      * replace (k <? S K)%nat with false by (symmetry; apply Nat.ltb_ge; lia).
        assert (cum ds (S K) <= cum ds k) by (apply cum_le; lia).
        rewrite overlap_left by lra. destruct (Nat.even K); lra.
Qed.

Lemma Trace_mono l x0 t k els k' : Trace ds l x0 t k els k' -> (k <= k')%nat.
Proof. induction 1; lia. Qed.

Lemma PTrace_mono ls x k els k' : PTrace ds ls x k els k' -> (k <= k')%nat.
Proof. induction 1; [lia|]. apply Trace_mono in H. lia. Qed.

(** the pieces of a trace have the length of the "on" part of the stretch they cover *)
Lemma Trace_measure l x0 K t k els k' :
  Trace ds l x0 t k els k' -> (k' < K)%nat ->
  forall cur, (Nat.even k = true -> cur = line_eval l t) ->
  len_from cur els = on_meas ds K (x0 + t * llen l) (x0 + llen l) /\
  (Nat.even k' = true -> end_from cur els = line_eval l 1).
Proof.
  induction 1 as [t k Ht Hlo Hhi|t k t' els k' H0t Htt' Ht'1 Hlo Hx' Htr IH]; intros HK cur Hcur.
  - pose proof (llen_nonneg l) as Hl.
    rewrite (on_meas_single k) by (try lra; nra).
    replace (k <? K)%nat with true by (symmetry; apply Nat.ltb_lt; lia).
    destruct (Nat.even k) eqn:Ev; simpl.
    + rewrite (Hcur eq_refl). rewrite dist_on_line by lra. split; [lra|auto].
    + split; [lra|discriminate].
  - pose proof (llen_nonneg l) as Hl. pose proof (Trace_mono _ _ _ _ _ _ Htr) as Hk.
    rewrite (on_meas_split K _ (x0 + t' * llen l)) by nra.
    rewrite (on_meas_single k (x0 + t * llen l) (x0 + t' * llen l)) by (try lra; nra).
    replace (k <? K)%nat with true by (symmetry; apply Nat.ltb_lt; lia).
    destruct (IH HK (line_eval l t') (fun _ => eq_refl)) as [IHl IHe].
    destruct (Nat.even k) eqn:Ev; simpl.
    + rewrite (Hcur eq_refl). rewrite dist_on_line by lra. rewrite IHl. split; [lra|exact IHe].
    + rewrite IHl. split; [lra|exact IHe].
Qed.

Lemma on_meas_empty K a : on_meas ds K a a = 0.
Proof.
  induction K; simpl; [reflexivity|]. rewrite IHK.
  destruct (Nat.even K); [|lra].
  unfold overlap, Rmin, Rmax. repeat destruct (Rle_dec _ _); lra.
Qed.

Lemma total_len_nonneg ls : 0 <= total_len ls.
Proof. induction ls; simpl; [lra|]. pose proof (llen_nonneg a). unfold total_len in *. simpl. lra. Qed.

Lemma last_default (A : Type) (l : list A) d d' : l <> [] -> last l d = last l d'.
Proof.
  induction l as [|a l IH]; [congruence|]. intros _. destruct l; [reflexivity|].
  change (last (a :: a0 :: l) d) with (last (a0 :: l) d).
  change (last (a :: a0 :: l) d') with (last (a0 :: l) d'). apply IH. discriminate.
Qed.

Lemma PTrace_measure K : forall ls x k els k',
  PTrace ds ls x k els k' -> chained ls -> (k' < K)%nat ->
  forall cur, (Nat.even k = true -> cur = first_pt ls cur) ->
  len_from cur els = on_meas ds K x (x + total_len ls) /\
  (Nat.even k' = true -> ls <> [] -> forall d, end_from cur els = last (map (@l1 R) ls) d).
Proof.
  induction 1 as [x k|l r x k e1 k1 e2 k2 Ht Hp IH]; intros Hch HK cur Hcur.
  - simpl. rewrite Rplus_0_r, on_meas_empty. split; [reflexivity|congruence].
  - pose proof (PTrace_mono _ _ _ _ _ Hp) as Hk12.
    pose proof (llen_nonneg l) as Hl. pose proof (total_len_nonneg r) as Hr.
    destruct (Trace_measure l x K 0 k e1 k1 Ht ltac:(lia) cur) as [Hl1 He1].
    { intros Ev. rewrite line_eval_0. apply (Hcur Ev). }
    rewrite Rmult_0_l, Rplus_0_r in Hl1.
    assert (Hch' : chained r) by (destruct r; [exact I|apply Hch]).
    destruct (IH Hch' HK (end_from cur e1)) as [Hl2 He2].
    { intros Ev. destruct r as [|l' r']; [reflexivity|]. simpl. rewrite (He1 Ev), line_eval_1. apply Hch. }
    rewrite len_from_app, end_from_app, Hl1, Hl2.
    replace (x + total_len (l :: r)) with (x + llen l + total_len r) by (unfold total_len; simpl; lra).
    split.
    + rewrite (on_meas_split K x (x + llen l) (x + llen l + total_len r)) by lra. reflexivity.
    + intros Ev _ d. destruct r as [|l' r'].
      * inversion Hp; subst. simpl. rewrite (He1 Ev), line_eval_1. reflexivity.
      * change (last (map (@l1 R) (l :: l' :: r')) d) with (last (map (@l1 R) (l' :: r')) d).
        apply He2; auto. discriminate.
Qed.


(** ** The invariant of the iterator on a line (what one iteration of [step] preserves) *)
Lemma switch_inv (l : Line R) x0 t srem (ph : Phase R) k :
  0 <= t <= 1 -> srem = (1 - t) * llen l -> phase_at k (x0 + t * llen l) ph ->
  p_rem ph < srem ->
  let t' := switch_t poly_inv_arclen (SegLine l) t ph in
  t <= t' <= 1 /\ srem - p_rem ph = (1 - t') * llen l /\
  x0 + t' * llen l = cum ds (S k) /\
  phase_at (S k) (x0 + t' * llen l) (ph_next ds ph).
Proof.
  intros Ht Hs (Hix & Hact & Hrem & Hlo & Hhi) E t'.
  assert (Hrem0 : 0 <= p_rem ph) by lra.
  assert (Hsp : 0 < (1 - t) * llen l) by lra.
  assert (Hl : 0 < llen l). { pose proof (llen_nonneg l). nra. }
  assert (Ht1 : t < 1) by nra.
  assert (Et' : t' = t + p_rem ph / llen l).
  { unfold t'. rewrite line_switch_t by lra. field. lra. }
  assert (Hx' : x0 + t' * llen l = cum ds (S k)).
  { rewrite Et'. rewrite Hrem. field. lra. }
  assert (Ht'1 : t' <= 1).
  { rewrite Et'. apply Rmult_le_reg_r with (llen l); auto.
    replace ((t + p_rem ph / llen l) * llen l) with (t * llen l + p_rem ph) by (field; lra). lra. }
  assert (Htt' : t <= t').
  { rewrite Et'. assert (0 <= p_rem ph / llen l) by (apply Rmult_le_pos; [lra|left; apply Rinv_0_lt_compat; lra]). lra. }
  split; [lra|]. split; [rewrite Hs, Et'; field; lra|]. split; [exact Hx'|].
  rewrite Hx'. apply (phase_at_next k ph Hix Hact).
Qed.

Lemma final_inv (l : Line R) x0 t srem (ph : Phase R) k :
  0 <= t <= 1 -> srem = (1 - t) * llen l -> phase_at k (x0 + t * llen l) ph ->
  srem <= p_rem ph ->
  phase_at k (x0 + llen l) (ph_final ph srem).
Proof.
  intros Ht Hs (Hix & Hact & Hrem & Hlo & Hhi) E. pose proof (llen_nonneg l).
  unfold phase_at, ph_final; cbn [p_ix p_act p_rem]. rewrite Hrem, Hs in *.
  change (@fsub R RS) with Rminus.
  repeat split; auto; try lra; nra.
Qed.

(** ** Every element list: the specification is total, the machine ends with its output *)
Notation fuel_ok_g := (fuel_ok al dm).
Notation fuel_ok := (fuel_ok poly_arclen dm).

Lemma subpath_out_total fuel (init : Phase R) k o sp :
  phase_at k o init -> (forall s, In s (sp_segs sp) -> al s < INR fuel * dm) ->
  exists out, subpath_out al ial ds fuel init sp = Some out.
Proof.
  intros Hph Hf. unfold subpath_out. destruct (sp_segs sp) as [|s0 r] eqn:E; [eauto|].
  destruct (plain_total fuel (s0 :: r) o init k Hph Hf) as (pcs & nsw & ph' & k' & Hp & _).
  rewrite Hp. eauto.
Qed.

Lemma concat_opt_total (l : list (option (list (PathEl R)))) :
  (forall x, In x l -> exists o, x = Some o) -> exists out, concat_opt l = Some out.
Proof.
  induction l as [|x l IH]; intros Hx; [exists []; reflexivity|].
  destruct (Hx x (or_introl eq_refl)) as (o & ->).
  destruct IH as (out & Ho). { intros; apply Hx; right; auto. }
  exists (o ++ out). simpl. rewrite Ho. reflexivity.
Qed.

Lemma dash_spec_total fuel o els :
  0 <= o -> (init_fuel o <= fuel)%nat -> fuel_ok_g fuel els ->
  exists out, dash_spec al ial ds fuel o els = Some out.
Proof.
  intros Ho Hf Hok. unfold dash_spec.
  destruct (dash_init_spec o fuel Ho Hf) as (k & init & Hi & Hph & _). rewrite Hi.
  unfold dash_spec_from. apply concat_opt_total.
  intros x Hin. apply in_map_iff in Hin. destruct Hin as (sp & <- & Hsp).
  eapply subpath_out_total; eauto.
Qed.

Lemma dash_init_mono fuel o (ph : Phase R) :
  dash_init fixes_all ds fuel o = InitOk ph ->
  forall g, (fuel <= g)%nat -> dash_init fixes_all ds g o = InitOk ph.
Proof.
  rewrite (dash_init_unfold ds fuel o ds_ne). intros Hi g Hg. rewrite (dash_init_unfold ds g o ds_ne).
  destruct (init_loop fixes_all ds fuel 0 (nth 0 ds 0 - o) true) as [ph0|] eqn:E; [|discriminate].
  rewrite (init_loop_mono _ _ _ _ _ E g Hg). exact Hi.
Qed.

(** the machine computes the specification *)
Lemma dash_runs_spec fuel o els out :
  dash_spec al ial ds fuel o els = Some out ->
  exists n, (n <= 2 * length out + 5 * length els + 2)%nat /\
    forall f, (fuel <= f)%nat -> (n <= f)%nat -> dash_gen al ial fixes_all ds f o els = DashOk out n.
Proof.
  unfold dash_spec. destruct (dash_init fixes_all ds fuel o) as [init| |] eqn:Ei; try discriminate.
  intros Hs.
  destruct (machine_dash_spec al ial ds init pt_neb_refl_R fuel els out Hs) as (n & Hr & Hb).
  exists n. split; [exact Hb|]. intros f Hf Hn. unfold dash_gen.
  rewrite (dash_init_mono fuel o init Ei f Hf).
  rewrite (Runs_fuel Hr Hn). reflexivity.
Qed.

(** ** Polylines: the sub-paths consist of connected lines *)
Lemma chained_snoc (la : list (Line R)) (nl : Line R) d :
  chained la -> (la <> [] -> l1 (last la d) = l0 nl) -> chained (la ++ [nl]).
Proof.
  induction la as [|a la IH]; intros Hc Hl; [exact I|].
  destruct la as [|b t].
  - simpl. split; [apply Hl; discriminate|exact I].
  - change ((a :: b :: t) ++ [nl]) with (a :: (b :: t) ++ [nl]).
    destruct Hc as [Hab Hc]. split; [exact Hab|].
    apply IH; auto. intros _. apply Hl. discriminate.
Qed.

Lemma subpaths_go_lines : forall (els : list (PathEl R)) start last (la : list (Line R)) d,
  Forall poly_el els -> chained la -> (la <> [] -> l1 (List.last la d) = last) ->
  forall sp, In sp (subpaths_go els start last (map (@SegLine R) la)) ->
  exists ls, sp_segs sp = map (@SegLine R) ls /\ chained ls.
Proof.
  induction els as [|e r IH]; intros start last la d Hall Hc Hl sp Hin.
  - simpl in Hin. destruct Hin as [<-|[]]. exists la. auto.
  - inversion Hall as [|e' r' He Hr]; subst.
    destruct e as [p|p1|p1 p2|p1 p2 p3|]; simpl in He; try tauto; cbn [subpaths_go] in Hin.
    + destruct Hin as [<-|Hin]; [exists la; auto|].
      apply (IH p p [] d Hr I) in Hin; auto. congruence.
    + change (map (@SegLine R) la ++ [SegLine (mkLine last p1)]) with (map (@SegLine R) la ++ map (@SegLine R) [mkLine last p1]) in Hin.
      rewrite <- map_app in Hin.
      apply (IH start p1 (la ++ [mkLine last p1]) d Hr) in Hin; auto.
      * apply (chained_snoc la (mkLine last p1) d); auto.
      * intros _. rewrite last_last. reflexivity.
    + destruct (pt_neb last start).
      * destruct Hin as [<-|Hin].
        { exists (la ++ [mkLine last start]). split.
          - simpl. rewrite map_app. reflexivity.
          - apply (chained_snoc la (mkLine last start) d); auto. }
        { apply (IH start start [] d Hr I) in Hin; auto. congruence. }
      * destruct Hin as [<-|Hin]; [exists la; auto|].
        apply (IH start last [] d Hr I) in Hin; auto. congruence.
Qed.

Lemma subpaths_lines (els : list (PathEl R)) :
  Forall poly_el els -> forall sp, In sp (subpaths els) ->
  exists ls, sp_segs sp = map (@SegLine R) ls /\ chained ls.
Proof.
  intros Hall sp Hin. unfold subpaths in Hin.
  apply (subpaths_go_lines els origin origin [] (mkLine origin origin) Hall I) in Hin; auto; congruence.
Qed.

(** ** The pieces of a polyline sub-path: order, switch points, length *)
Lemma cum_lt_index k K : cum ds k < cum ds K -> (k < K)%nat.
Proof.
  intros Hlt. destruct (Nat.lt_ge_cases k K) as [|Hge]; auto.
  pose proof (cum_le K k Hge). lra.
Qed.

Lemma polyline_pieces fuel (init : Phase R) k o (ls : list (Line R)) :
  phase_at k o init -> (forall l, In l ls -> llen l < INR fuel * dm) -> chained ls ->
  exists pcs nsw phe k',
    plain poly_arclen poly_inv_arclen ds fuel (map (@SegLine R) ls) init = Some (pcs, nsw, phe) /\
    PTrace ds ls o k pcs k' /\ phase_at k' (o + total_len ls) phe /\
    forall K, o + total_len ls < cum ds K ->
      forall cur, (Nat.even k = true -> cur = first_pt ls cur) ->
      len_from cur pcs = on_meas ds K o (o + total_len ls) /\
      (Nat.even k' = true -> ls <> [] -> forall d, end_from cur pcs = last (map (@l1 R) ls) d).
Proof.
  intros Hph Hf Hch.
  destruct (plain_lines fuel ls o init k Hph Hf) as (pcs & nsw & phe & k' & Hp & Htr & Hphe).
  exists pcs, nsw, phe, k'. split; [exact Hp|]. split; [exact Htr|]. split; [exact Hphe|].
  intros K HK cur Hcur.
  assert (Hk' : (k' < K)%nat).
  { apply cum_lt_index. destruct Hphe as (_ & _ & _ & Hlo & _). lra. }
  apply (PTrace_measure K ls o k pcs k' Htr Hch Hk' cur Hcur).
Qed.


(** ** The length of what is emitted for a polyline sub-path *)

Definition simple_el (e : PathEl R) : Prop := match e with MoveTo _ => True | LineTo _ => True | _ => False end.

Lemma Trace_simple l x0 t k els k' : Trace ds l x0 t k els k' -> Forall simple_el els.
Proof.
  induction 1.
  - destruct (Nat.even k); repeat constructor.
  - constructor; auto. destruct (Nat.even k); exact I.
Qed.
Lemma PTrace_simple ls x k els k' : PTrace ds ls x k els k' -> Forall simple_el els.
Proof.
  induction 1; [constructor|]. apply Forall_app. split; auto. eapply Trace_simple; eauto.
Qed.

Lemma len2_simple st cur els : Forall simple_el els -> len2 st cur els = len_from cur els.
Proof.
  intros Hs. revert st cur. induction Hs as [|e r He Hr IH]; intros st cur; [reflexivity|].
  destruct e; simpl in He; try tauto; simpl; rewrite IH; reflexivity.
Qed.

(** lists that are empty or begin with a MoveTo do not depend on the pen position *)
Lemma len_from_hm c c' (l : list (PathEl R)) : hmb l = true -> len_from c l = len_from c' l.
Proof. destruct l as [|e r]; [reflexivity|]. destruct e; simpl; try discriminate. reflexivity. Qed.
Lemma end_from_hm c c' (l : list (PathEl R)) : hmb l = true -> l <> [] -> end_from c l = end_from c' l.
Proof. destruct l as [|e r]; [congruence|]. destruct e; simpl; try discriminate. reflexivity. Qed.
Lemma len2_hm st c st' c' (l : list (PathEl R)) : hmb l = true -> len2 st c l = len2 st' c' l.
Proof. destruct l as [|e r]; [reflexivity|]. destruct e; simpl; try discriminate. reflexivity. Qed.

Lemma dropWhile_hmb (l : list (PathEl R)) : hmb (dropWhile (@not_move R) l) = true.
Proof. induction l; simpl; auto. destruct (not_move a) eqn:E; simpl; auto. rewrite E. reflexivity. Qed.

Lemma Forall_takeWhile (P : PathEl R -> Prop) f (l : list (PathEl R)) : Forall P l -> Forall P (takeWhile f l).
Proof. induction 1; simpl; [constructor|]. destruct (f x); constructor; auto. Qed.
Lemma Forall_dropWhile (P : PathEl R -> Prop) f (l : list (PathEl R)) : Forall P l -> Forall P (dropWhile f l).
Proof. induction 1; simpl; [constructor|]. destruct (f x); auto. Qed.

Lemma len2_app_simple st cur a b : Forall simple_el a -> Forall simple_el b ->
  len2 st cur (a ++ b) = len_from cur a + len_from (end_from cur a) b.
Proof.
  intros Ha Hb. rewrite len2_simple by (apply Forall_app; auto). apply len_from_app.
Qed.

(** the pieces [tw ++ dw] of a sub-path that starts at [s0], rearranged as [subpath_out] does *)
Lemma rotated_len s0 d (tw dw : list (PathEl R)) :
  Forall simple_el tw -> Forall simple_el dw -> hmb dw = true ->
  len2 d d (dw ++ MoveTo s0 :: tw) = len_from s0 (tw ++ dw).
Proof.
  intros Htw Hdw Hh.
  rewrite len2_app_simple; auto; [|constructor; [exact I|auto]].
  simpl. rewrite len_from_app.
  rewrite (len_from_hm d (end_from s0 tw) dw) by exact Hh. lra.
Qed.

Lemma joined_len s0 d (tw dw : list (PathEl R)) :
  Forall simple_el tw -> Forall simple_el dw -> hmb dw = true ->
  dw <> [] -> end_from s0 (tw ++ dw) = s0 ->
  len2 d d (dw ++ tw) = len_from s0 (tw ++ dw).
Proof.
  intros Htw Hdw Hh Hne Hend.
  rewrite len2_app_simple; auto.
  assert (He : end_from d dw = s0).
  { rewrite <- Hend. rewrite end_from_app. apply end_from_hm; auto. }
  rewrite He. rewrite len_from_app.
  rewrite (len_from_hm d (end_from s0 tw) dw) by exact Hh. lra.
Qed.

Lemma loop_len s0 d (pcs : list (PathEl R)) :
  Forall simple_el pcs -> forallb (@not_move R) pcs = true -> end_from s0 pcs = s0 ->
  len2 d d (MoveTo s0 :: pcs ++ [ClosePath]) = len_from s0 pcs.
Proof.
  intros Hs Hnm Hend. simpl.
  assert (G : forall cur l, Forall simple_el l -> forallb (@not_move R) l = true ->
            len2 s0 cur (l ++ [ClosePath]) = len_from cur l + llen (mkLine (end_from cur l) s0)).
  { intros cur l Hl. revert cur. induction Hl as [|e r He Hr IH]; intros cur Hn.
    - simpl. lra.
    - destruct e; simpl in He; try tauto; simpl in Hn; try discriminate.
      simpl. rewrite IH by exact Hn. lra. }
  rewrite G by auto. rewrite Hend.
  assert (Z : llen (mkLine s0 s0) = 0).
  { rewrite llen_formula. simpl. replace ((px s0 - px s0) * (px s0 - px s0) + (py s0 - py s0) * (py s0 - py s0)) with 0 by ring. apply sqrt_0. }
  lra.
Qed.


(** closed sub-paths of a polyline end where they start *)
Lemma last_map_snoc (la : list (Line R)) (nl : Line R) d : last (map (@l1 R) (la ++ [nl])) d = l1 nl.
Proof. rewrite map_app. simpl. apply last_last. Qed.

Lemma first_pt_snoc (la : list (Line R)) (nl : Line R) d :
  first_pt (la ++ [nl]) d = match la with [] => l0 nl | _ => first_pt la d end.
Proof. destruct la; reflexivity. Qed.

Lemma l1_last_map (la : list (Line R)) dl dp : la <> [] -> l1 (last la dl) = last (map (@l1 R) la) dp.
Proof.
  induction la as [|a la IH]; [congruence|]. intros _. destruct la as [|b t]; [reflexivity|].
  change (last (a :: b :: t) dl) with (last (b :: t) dl).
  change (last (map (@l1 R) (a :: b :: t)) dp) with (last (map (@l1 R) (b :: t)) dp).
  apply IH. discriminate.
Qed.

Lemma subpaths_go_lines2 : forall (els : list (PathEl R)) start last (la : list (Line R)),
  Forall poly_el els -> chained la ->
  (la <> [] -> forall d, List.last (map (@l1 R) la) d = last) ->
  (la = [] -> last = start) -> (la <> [] -> forall d, first_pt la d = start) ->
  forall sp, In sp (subpaths_go els start last (map (@SegLine R) la)) ->
  exists ls, sp_segs sp = map (@SegLine R) ls /\ chained ls /\
             (sp_closed sp = true -> ls <> [] -> forall d d', List.last (map (@l1 R) ls) d = first_pt ls d').
Proof.
  induction els as [|e r IH]; intros start last la Hall Hc Hl Hs Hf sp Hin.
  - simpl in Hin. destruct Hin as [<-|[]]. exists la. simpl. repeat split; auto. discriminate.
  - inversion Hall as [|e' r' He Hr]; subst.
    destruct e as [p|p1|p1 p2|p1 p2 p3|]; simpl in He; try tauto; cbn [subpaths_go] in Hin.
    + destruct Hin as [<-|Hin]; [exists la; simpl; repeat split; auto; discriminate|].
      apply (IH p p [] Hr I) in Hin; auto; congruence.
    + change (map (@SegLine R) la ++ [SegLine (mkLine last p1)]) with (map (@SegLine R) la ++ map (@SegLine R) [mkLine last p1]) in Hin.
      rewrite <- map_app in Hin.
      apply (IH start p1 (la ++ [mkLine last p1]) Hr) in Hin; auto.
      * apply (chained_snoc la (mkLine last p1) (mkLine last p1)); auto.
        intros Hne. rewrite (l1_last_map la _ last Hne). apply Hl; auto.
      * intros _ d. apply last_map_snoc.
      * intros Hnil. destruct la; discriminate.
      * intros _ d. rewrite first_pt_snoc. destruct la as [|a la']; [simpl; apply Hs; reflexivity|apply Hf; discriminate].
    + destruct (pt_neb last start) eqn:E.
      * destruct Hin as [<-|Hin].
        { exists (la ++ [mkLine last start]). split; [simpl; rewrite map_app; reflexivity|]. split.
          - apply (chained_snoc la (mkLine last start) (mkLine last start)); auto.
            intros Hne. rewrite (l1_last_map la _ last Hne). apply Hl; auto.
          - intros _ _ d d'. rewrite last_map_snoc, first_pt_snoc. simpl.
            destruct la as [|a la']; [simpl; symmetry; apply Hs; reflexivity|symmetry; apply Hf; discriminate]. }
        { apply (IH start start [] Hr I) in Hin; auto; congruence. }
      * apply pt_neb_false_R in E.
        destruct Hin as [<-|Hin].
        { exists la. simpl. repeat split; auto. intros _ Hne d d'. rewrite (Hl Hne d), (Hf Hne d'). exact E. }
        { apply (IH start last [] Hr I) in Hin; auto; congruence. }
Qed.

Lemma subpaths_lines2 (els : list (PathEl R)) :
  Forall poly_el els -> forall sp, In sp (subpaths els) ->
  exists ls, sp_segs sp = map (@SegLine R) ls /\ chained ls /\
             (sp_closed sp = true -> ls <> [] -> forall d d', List.last (map (@l1 R) ls) d = first_pt ls d').
Proof.
  intros Hall sp Hin. unfold subpaths in Hin.
  apply (subpaths_go_lines2 els origin origin [] Hall I) in Hin; auto; congruence.
Qed.

(** [dash_on_measure] on what is actually emitted *)
Lemma polyline_out_len fuel (init : Phase R) k o els sp :
  Forall poly_el els -> In sp (subpaths els) -> phase_at k o init -> fuel_ok fuel els ->
  exists out ls, subpath_out poly_arclen poly_inv_arclen ds fuel init sp = Some out /\
    sp_segs sp = map (@SegLine R) ls /\
    forall K, o + total_len ls < cum ds K -> forall d, len2 d d out = on_meas ds K o (o + total_len ls).
Proof.
  intros Hall Hin Hph Hfo.
  destruct (subpaths_lines2 els Hall sp Hin) as (ls & Hls & Hch & Hcl).
  destruct ls as [|l r].
  - exists [], []. unfold subpath_out. rewrite Hls. simpl. repeat split; auto.
    intros K _ d. rewrite Rplus_0_r, on_meas_empty. reflexivity.
  - destruct (polyline_pieces fuel init k o (l :: r) Hph) as (pcs & nsw & phe & k' & Hp & Htr & Hphe & Hm); auto.
    { intros l' Hl'. apply (Hfo sp Hin (SegLine l')). rewrite Hls. apply in_map. exact Hl'. }
    pose proof (PTrace_simple _ _ _ _ _ Htr) as Hsimple.
    destruct Hph as (_ & Hact & _). destruct Hphe as (_ & Hacte & _).
    destruct sp as [st segs closed]. simpl in Hls, Hcl. subst segs.
    assert (Htw : Forall simple_el (takeWhile (@not_move R) pcs)) by (apply Forall_takeWhile; auto).
    assert (Hdw : Forall simple_el (dropWhile (@not_move R) pcs)) by (apply Forall_dropWhile; auto).
    assert (Hhm : hmb (dropWhile (@not_move R) pcs) = true) by apply dropWhile_hmb.
    assert (Hrot : forall d, Nat.even k = true -> forall K, o + total_len (l :: r) < cum ds K ->
              len2 d d (dropWhile (@not_move R) pcs ++ MoveTo (l0 l) :: takeWhile (@not_move R) pcs)
              = on_meas ds K o (o + total_len (l :: r))).
    { intros d Ev K HK. destruct (Hm K HK (l0 l)) as [Hlen _]. { intros _. reflexivity. }
      rewrite rotated_len by auto. rewrite takeWhile_dropWhile. exact Hlen. }
    destruct closed.
    + destruct (closed_cases poly_arclen poly_inv_arclen ds init fuel st (SegLine l) (map (@SegLine R) r) pcs nsw phe Hp)
        as (out & Ho & Ca & Cb & Cc & Cd).
      exists out, (l :: r). split; [exact Ho|]. split; [reflexivity|].
      intros K HK d.
      destruct (p_act init) eqn:Ai.
      * destruct (Hm K HK (l0 l)) as [Hlen Hend]. { intros _. reflexivity. }
        destruct (Nat.eq_dec nsw 0) as [Hz|Hnz].
        { destruct (Ca eq_refl Hz) as (Eo & Hnm & Ae). rewrite Eo.
          rewrite <- Hlen. apply loop_len; auto.
          rewrite (Hend ltac:(congruence) ltac:(discriminate) (l0 l)).
          apply (Hcl eq_refl ltac:(discriminate) (l0 l) (l0 l)). }
        destruct (p_act phe) eqn:Ae.
        { destruct (Cb eq_refl Hnz eq_refl) as (Eo & Hne). rewrite Eo.
          rewrite (joined_len (l0 l)); auto.
          - rewrite takeWhile_dropWhile. exact Hlen.
          - rewrite takeWhile_dropWhile. rewrite (Hend ltac:(congruence) ltac:(discriminate) (l0 l)).
            apply (Hcl eq_refl ltac:(discriminate) (l0 l) (l0 l)). }
        { rewrite (Cc eq_refl Hnz eq_refl). apply Hrot; auto; congruence. }
      * rewrite (Cd eq_refl). rewrite len2_simple by auto.
        apply (Hm K HK d). intros Ev. congruence.
    + destruct (open_cases poly_arclen poly_inv_arclen ds init fuel st (SegLine l) (map (@SegLine R) r) pcs nsw phe Hp)
        as (out & Ho & Ca & Cd).
      exists out, (l :: r). split; [exact Ho|]. split; [reflexivity|].
      intros K HK d.
      destruct (p_act init) eqn:Ai.
      * rewrite (Ca eq_refl). apply Hrot; auto; congruence.
      * rewrite (Cd eq_refl). rewrite len2_simple by auto.
        apply (Hm K HK d). intros Ev. congruence.
Qed.

End Pattern.

(** * The statements of Properties/C13.v *)
Lemma thm_phase_init ds dm o fuel :
  pattern_ok ds dm -> 0 <= o -> (init_fuel dm o <= fuel)%nat ->
  exists k ph, dash_init fixes_all ds fuel o = InitOk ph /\ phase_at ds k o ph /\
               (p_rem ph = 0 -> p_act ph = true).
Proof. intros (H1 & H2 & H3). apply (dash_init_spec ds dm H1 H2 H3). Qed.

Lemma thm_inv ds dm (l : Line R) x0 t srem (ph : Phase R) k :
  pattern_ok ds dm ->
  0 <= t <= 1 -> srem = (1 - t) * llen l -> phase_at ds k (x0 + t * llen l) ph ->
  (p_rem ph < srem ->
     let t' := switch_t poly_inv_arclen (SegLine l) t ph in
     t <= t' <= 1 /\ srem - p_rem ph = (1 - t') * llen l /\
     x0 + t' * llen l = cum ds (S k) /\
     phase_at ds (S k) (x0 + t' * llen l) (ph_next ds ph)) /\
  (srem <= p_rem ph -> phase_at ds k (x0 + llen l) (ph_final ph srem)).
Proof.
  intros (H1 & H2 & H3) Ht Hs Hp. split; intros E.
  - apply (switch_inv ds dm H1 H2 H3 l x0 t srem ph k Ht Hs Hp E).
  - apply (final_inv ds l x0 t srem ph k Ht Hs Hp E).
Qed.

Lemma thm_terminates ds dm (al : PathSeg R -> R) (ial : PathSeg R -> R -> R) o els fuel :
  pattern_ok ds dm -> (forall s, 0 <= al s) ->
  0 <= o -> (init_fuel dm o <= fuel)%nat -> fuel_ok al dm fuel els ->
  exists out n, dash_spec al ial ds fuel o els = Some out /\
    (n <= 2 * length out + 5 * length els + 2)%nat /\
    forall f, (fuel <= f)%nat -> (n <= f)%nat -> dash_gen al ial fixes_all ds f o els = DashOk out n.
Proof.
  intros (H1 & H2 & H3) Hal Ho Hf Hok.
  destruct (dash_spec_total ds dm H1 H2 H3 al ial Hal fuel o els Ho Hf Hok) as (out & Hs).
  destruct (dash_runs_spec ds H3 al ial fuel o els out Hs) as (n & Hb & Hr).
  exists out, n. auto.
Qed.

Lemma thm_restart ds dm (al : PathSeg R -> R) (ial : PathSeg R -> R -> R) o els fuel :
  pattern_ok ds dm -> (forall s, 0 <= al s) ->
  0 <= o -> (init_fuel dm o <= fuel)%nat -> fuel_ok al dm fuel els ->
  exists k init outs n,
    dash_init fixes_all ds fuel o = InitOk init /\ phase_at ds k o init /\
    Forall2 (fun sp out_i => subpath_out al ial ds fuel init sp = Some out_i) (subpaths els) outs /\
    forall f, (fuel <= f)%nat -> (n <= f)%nat ->
      dash_gen al ial fixes_all ds f o els = DashOk (concat outs) n.
Proof.
  intros Hok Hal Ho Hf Hfo. pose proof Hok as (H1 & H2 & H3).
  destruct (thm_phase_init ds dm o fuel Hok Ho Hf) as (k & init & Hi & Hp & _).
  destruct (dash_spec_total ds dm H1 H2 H3 al ial Hal fuel o els Ho Hf Hfo) as (out & Hs).
  destruct (dash_runs_spec ds H3 al ial fuel o els out Hs) as (n & _ & Hr).
  unfold dash_spec in Hs. rewrite Hi in Hs. unfold dash_spec_from in Hs.
  destruct (concat_opt_Forall2 _ _ _ _ Hs) as (outs & HF & ->).
  exists k, init, outs, n. auto.
Qed.

Lemma thm_polyline ds dm fuel (init : Phase R) k o els sp :
  pattern_ok ds dm -> Forall poly_el els -> In sp (subpaths els) ->
  phase_at ds k o init -> fuel_ok poly_arclen dm fuel els ->
  exists ls pcs nsw phe k',
    sp_segs sp = map (@SegLine R) ls /\ chained ls /\
    plain poly_arclen poly_inv_arclen ds fuel (sp_segs sp) init = Some (pcs, nsw, phe) /\
    PTrace ds ls o k pcs k' /\ phase_at ds k' (o + total_len ls) phe /\
    forall K, o + total_len ls < cum ds K ->
      forall cur, (Nat.even k = true -> cur = first_pt ls cur) ->
      len_from cur pcs = on_meas ds K o (o + total_len ls).
Proof.
  intros (H1 & H2 & H3) Hall Hin Hph Hfo.
  destruct (subpaths_lines els Hall sp Hin) as (ls & Hls & Hch).
  destruct (polyline_pieces ds dm H1 H2 H3 fuel init k o ls Hph) as (pcs & nsw & phe & k' & Hp & Htr & Hphe & Hm); auto.
  { intros l Hl. apply (Hfo sp Hin (SegLine l)). rewrite Hls. apply in_map. exact Hl. }
  exists ls, pcs, nsw, phe, k'. rewrite Hls.
  split; [reflexivity|]. split; [exact Hch|]. split; [exact Hp|]. split; [exact Htr|]. split; [exact Hphe|].
  intros K HK cur Hcur. apply (Hm K HK cur Hcur).
Qed.

Lemma thm_out_len ds dm fuel (init : Phase R) k o els sp :
  pattern_ok ds dm -> Forall poly_el els -> In sp (subpaths els) ->
  phase_at ds k o init -> fuel_ok poly_arclen dm fuel els ->
  exists out ls, subpath_out poly_arclen poly_inv_arclen ds fuel init sp = Some out /\
    sp_segs sp = map (@SegLine R) ls /\
    forall K, o + total_len ls < cum ds K -> forall d, len2 d d out = on_meas ds K o (o + total_len ls).
Proof.
  intros (H1 & H2 & H3) Hall Hin Hph Hfo.
  apply (polyline_out_len ds dm H1 H2 H3 fuel init k o els sp Hall Hin Hph Hfo).
Qed.

(** a pattern that satisfies the hypotheses, and the phases it gives *)
Lemma ex_pattern_ok : pattern_ok [3; 2] 2.
Proof. repeat split; try lra. - intros d [<-|[<-|[]]]; lra. - discriminate. Qed.


(** the measure of the on-set of the pattern 3 on / 2 off inside [0,10] is 6; inside [4,14] it is 6 as well *)
Lemma ex_on_meas : on_meas [3; 2] 4 0 10 = 6 /\ on_meas [3; 2] 6 4 14 = 6.
Proof.
  split; simpl; unfold overlap, Rmin, Rmax;
    repeat (match goal with
            | |- context [Rle_dec ?a ?b] =>
                lazymatch a with
                | context [Rle_dec] => fail
                | _ => lazymatch b with
                       | context [Rle_dec] => fail
                       | _ => destruct (Rle_dec a b); try lra
                       end
                end
            end); lra.
Qed.
