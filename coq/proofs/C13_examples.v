(** C13, part 4: the pinned code against the repaired model, executed on binary64
    (witnesses of the four defects of the pinned [DashIterator]). *)
From Coq Require Import ZArith Floats List.
From KV Require Import Scalar F64 Geom Curves Path Dash DashSpec.
Import ListNotations.
Local Open Scope float_scope.
Definition Pf (x y : float) : Point float := mkPoint x y.
Definition ex_tri : list (PathEl float) := [MoveTo (Pf 0 0); LineTo (Pf 4 0); LineTo (Pf 4 4); ClosePath].
Definition ex_sq : list (PathEl float) := [MoveTo (Pf 0 0); LineTo (Pf 4 0); LineTo (Pf 4 4); LineTo (Pf 0 4); ClosePath].

(** A: a closed sub-path inside one dash — pinned: ClosePath before the last piece *)
Lemma ex_order_pinned :
  dash_pinned [100; 2] 100 0 ex_tri
  = DashOk [MoveTo (Pf 0 0); LineTo (Pf 4 0); LineTo (Pf 4 4); ClosePath; LineTo (Pf 0 0)] 12.
Proof. vm_compute. reflexivity. Qed.
Lemma ex_order_fixed :
  dash [100; 2] 100 0 ex_tri
  = DashOk [MoveTo (Pf 0 0); LineTo (Pf 4 0); LineTo (Pf 4 4); LineTo (Pf 0 0); ClosePath] 12.
Proof. vm_compute. reflexivity. Qed.

(** B: ClosePath on an empty sub-path — pinned: re-dashes the stale segment *)
Lemma ex_empty_close_pinned :
  dash_pinned [2; 1] 100 0 [MoveTo (Pf 5 5); ClosePath] = DashOk [ClosePath; LineTo (Pf 0 0)] 7.
Proof. vm_compute. reflexivity. Qed.
Lemma ex_empty_close_fixed :
  dash [2; 1] 100 0 [MoveTo (Pf 5 5); ClosePath] = DashOk [] 3.
Proof. vm_compute. reflexivity. Qed.

(** C: an empty closed sub-path after an open one — pinned: the MoveTo of the earlier dash is lost *)
Lemma ex_lost_moveto_pinned :
  dash_pinned [3; 2] 100 0 [MoveTo (Pf 0 0); LineTo (Pf 4 0); MoveTo (Pf 5 5); ClosePath]
  = DashOk [LineTo (Pf 3 0)] 7.
Proof. vm_compute. reflexivity. Qed.
Lemma ex_lost_moveto_fixed :
  dash [3; 2] 100 0 [MoveTo (Pf 0 0); LineTo (Pf 4 0); MoveTo (Pf 5 5); ClosePath]
  = DashOk [MoveTo (Pf 0 0); LineTo (Pf 3 0)] 8.
Proof. vm_compute. reflexivity. Qed.

(** D: offset of exactly one period on a closed sub-path — pinned: last and first dash both on, not joined;
    repaired: the same output as with offset 0 *)
Lemma ex_period_offset_pinned :
  dash_pinned [3; 2] 100 5 ex_sq
  = DashOk [MoveTo (Pf 0 0); LineTo (Pf 3 0); MoveTo (Pf 4 1); LineTo (Pf 4 4); LineTo (Pf 4 4);
            MoveTo (Pf 2 4); LineTo (Pf 0 4); LineTo (Pf 0 3); MoveTo (Pf 0 1); LineTo (Pf 0 0)] 15.
Proof. vm_compute. reflexivity. Qed.
Lemma ex_period_offset_fixed :
  dash [3; 2] 100 5 ex_sq = dash [3; 2] 100 0 ex_sq /\
  dash [3; 2] 100 0 ex_sq
  = DashOk [MoveTo (Pf 4 1); LineTo (Pf 4 4); LineTo (Pf 4 4); MoveTo (Pf 2 4); LineTo (Pf 0 4);
            LineTo (Pf 0 3); MoveTo (Pf 0 1); LineTo (Pf 0 0); LineTo (Pf 3 0)] 15.
Proof. split; vm_compute; reflexivity. Qed.
