(** C04: the crossing-number winding of the outline of a single butt-capped segment (real instance). *)
From Coq Require Import ZArith QArith Reals List Bool Lra Lia Psatz.
From KV Require Import Scalar RInst Geom Curves Path Affine Stroke RTac StrokeSpec C04_proofs.
Import ListNotations.
Local Open Scope R_scope.

(** ** region of a single segment: the crossing-number winding of the butt rectangle *)
Definition edge_term (qy y0 y1 S : R) : Z :=
  if xorb (Rleb y0 qy) (Rleb y1 qy) then
    (if Rltb y0 y1 then (if Rltb 0 S then 1%Z else 0%Z) else (if Rltb S 0 then (-1)%Z else 0%Z))
  else 0%Z.

Ltac sign_of x :=
  first [ assert (x < 0) by nra | assert (x = 0) by nra | assert (0 < x) by nra ].

Ltac dec_tests :=
  repeat match goal with
  | |- context [Rleb ?x ?y] =>
      first [ rewrite (Rleb_t x y) by lra | rewrite (Rleb_f x y) by lra | destruct (Rleb_spec x y) ]
  | |- context [Rltb ?x ?y] =>
      first [ rewrite (Rltb_t x y) by lra | rewrite (Rltb_f x y) by lra | destruct (Rltb_spec x y) ]
  end.

Lemma rect_wn (Ay u v al ga K : R) : 0 < K -> (u <> 0 \/ v <> 0) ->
  let qy := Ay + al * u + ga * v in
  let W := (edge_term qy Ay (Ay + u) (ga * K) + edge_term qy (Ay + u) (Ay + u + v) ((1 - al) * K) +
            edge_term qy (Ay + u + v) (Ay + v) ((1 - ga) * K) + edge_term qy (Ay + v) Ay (al * K))%Z in
  (0 < al < 1 -> 0 < ga < 1 -> W = 1%Z) /\
  (al < 0 \/ 1 < al \/ ga < 0 \/ 1 < ga -> W = 0%Z).
Proof.
  intros HK Huv. cbv zeta. unfold edge_term.
  assert (Cu : u < 0 \/ u = 0 \/ 0 < u) by lra.
  assert (Cv : v < 0 \/ v = 0 \/ 0 < v) by lra.
  assert (Ca : al < 0 \/ al = 0 \/ 0 < al < 1 \/ al = 1 \/ 1 < al) by lra.
  assert (Cg : ga < 0 \/ ga = 0 \/ 0 < ga < 1 \/ ga = 1 \/ 1 < ga) by lra.
  split.
  - intros Ha Hg.
    destruct Cu as [Hu|[Hu|Hu]]; destruct Cv as [Hv|[Hv|Hv]]; try (exfalso; lra);
    sign_of (al * u); sign_of (u - al * u); sign_of (ga * v); sign_of (v - ga * v);
    assert (0 < ga * K) by nra; assert (0 < (1 - al) * K) by nra; assert (0 < (1 - ga) * K) by nra; assert (0 < al * K) by nra;
    set (a := al * u) in *; set (b := ga * v) in *;
    set (S1 := ga * K) in *; set (S2 := (1 - al) * K) in *; set (S3 := (1 - ga) * K) in *; set (S4 := al * K) in *;
    dec_tests; cbn; try reflexivity; exfalso; lra.
  - intros Hout.
    destruct Cu as [Hu|[Hu|Hu]]; destruct Cv as [Hv|[Hv|Hv]]; try (exfalso; lra);
    destruct Ca as [Ha|[Ha|[Ha|[Ha|Ha]]]]; destruct Cg as [Hg|[Hg|[Hg|[Hg|Hg]]]]; try (exfalso; lra);
    sign_of (al * u); sign_of (u - al * u); sign_of (ga * v); sign_of (v - ga * v);
    sign_of (ga * K); sign_of ((1 - al) * K); sign_of ((1 - ga) * K); sign_of (al * K);
    set (a := al * u) in *; set (b := ga * v) in *;
    set (S1 := ga * K) in *; set (S2 := (1 - al) * K) in *; set (S3 := (1 - ga) * K) in *; set (S4 := al * K) in *;
    dec_tests; cbn; try reflexivity; exfalso; lra.
Qed.

Lemma edge_term_ext qy y0 y1 S qy' y0' y1' S' : qy = qy' -> y0 = y0' -> y1 = y1' -> S = S' ->
  edge_term qy y0 y1 S = edge_term qy' y0' y1' S'.
Proof. intros; subst; reflexivity. Qed.

Lemma edge_w_term (a b q : Point R) :
  edge_w a b q = edge_term (py q) (py a) (py b)
                   ((px b - px a) * (py q - py a) - (py b - py a) * (px q - px a)).
Proof. reflexivity. Qed.

Lemma edge_w_self (a q : Point R) : edge_w a a q = 0%Z.
Proof. unfold edge_w. rewrite xorb_nilpotent. reflexivity. Qed.

Theorem single_segment_region_thm w (p0 p1 : Point R) al be :
  p1 <> p0 -> 0 < w ->
  let t := vec p0 p1 in
  let rect := [MoveTo (offs w (-1) t p0); LineTo (offs w (-1) t p1); LineTo (offs w 1 t p1);
               LineTo (offs w 1 t p0); ClosePath] in
  let q := seg_point w p0 t al be in
  (0 < al < 1 -> -1 < be < 1 -> outline_wn rect q = 1%Z) /\
  (al < 0 \/ 1 < al \/ be < -1 \/ 1 < be -> outline_wn rect q = 0%Z).
Proof.
  intros Hne Hw. cbv zeta.
  assert (Hn : vnonzero (vec p0 p1)) by (apply vec_nonzero; intros E; apply Hne; symmetry; exact E).
  pose proof (vlen_pos _ Hn) as Hl.
  unfold outline_wn. cbn [outline_wn_from el_end].
  rewrite !edge_w_self, !edge_w_term. rewrite Z.add_0_l, Z.add_0_r.
  destruct p0 as [x0 y0], p1 as [x1 y1].
  unfold seg_point, offs, vec in *. cbn [px py vx vy] in *.
  set (tx := x1 - x0) in *. set (ty := y1 - y0) in *. set (l := vlen _) in *.
  set (k := (w / 2) * / l).
  assert (Hk : 0 < k) by (unfold k; apply Rmult_lt_0_compat; [lra | apply Rinv_0_lt_compat; exact Hl]).
  assert (HL2 : 0 < tx * tx + ty * ty) by (destruct Hn as [Hn|Hn]; cbn in Hn; nra).
  pose proof (rect_wn (y0 + -1 * (w / 2) * (tx / l)) ty (2 * k * tx) al ((be + 1) / 2) (2 * k * (tx * tx + ty * ty))) as R.
  cbv zeta in R.
  assert (HK : 0 < 2 * k * (tx * tx + ty * ty)) by nra.
  assert (Huv : ty <> 0 \/ 2 * k * tx <> 0).
  { destruct Hn as [Hn|Hn]; cbn in Hn; [right; fold tx in Hn; nra | left; exact Hn]. }
  specialize (R HK Huv).
  match goal with |- (_ -> _ -> ?W = _) /\ _ => set (WW := W) end.
  match type of R with (_ -> _ -> ?W = _) /\ _ => set (W0 := W) in R end.
  assert (EW : WW = W0).
  { unfold WW, W0. rewrite !Z.add_assoc.
    assert (X1 : x1 = x0 + tx) by (unfold tx; ring). assert (Y1 : y1 = y0 + ty) by (unfold ty; ring).
    rewrite X1, Y1. unfold k, Rdiv.
    f_equal; [f_equal; [f_equal|]|]; apply edge_term_ext; field; lra. }
  rewrite EW. destruct R as [R1 R2]. split.
  - intros Ha Hb. apply R1; lra.
  - intros Ho. apply R2. lra.
Qed.
