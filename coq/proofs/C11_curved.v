(** C11: circle, ellipse, rounded rectangle — closed forms vs. the ideal point sets (real instance). *)
From Coq Require Import ZArith QArith Reals List Bool Lra Lia Psatz.
From KV Require Import Scalar RInst Geom Rect Affine Curves ShapeTypes ShapeQueries RTac RectSpec RayCast ShapeSpec C11_proofs.
From KV Require AffineOps C12_proofs.
Import ListNotations.
Local Open Scope R_scope.

Lemma powerRZ_2 x : powerRZ x 2 = x * x.
Proof. simpl. ring. Qed.

Lemma sq_le_bound d r : d * d <= r * r -> 0 <= r -> - r <= d <= r.
Proof.
  intros H Hr. split.
  - destruct (Rle_dec (- r) d); [assumption|exfalso]. assert (0 < - r - d) by lra. nra.
  - destruct (Rle_dec d r); [assumption|exfalso]. assert (0 < d - r) by lra. nra.
Qed.

(** ** Circle *)
Lemma circle_winding_spec (c : Circle R) (p : Point R) :
  (in_open_disc (ci_center c) (ci_radius c) p -> circle_winding c p = 1%Z) /\
  (~ in_open_disc (ci_center c) (ci_radius c) p -> circle_winding c p = 0%Z).
Proof.
  destruct c as [[cx cy] r], p as [x y]. unfold in_open_disc, dist2, sq. sq_unfold. rewrite powerRZ_2.
  split; intros Hd; dec_all; try reflexivity; exfalso; lra.
Qed.

Lemma circle_queries (c : Circle R) :
  let b := circle_bounding_box c in
  let ctr := ci_center c in let r := Rabs (ci_radius c) in
  circle_area c = PI * sq (ci_radius c) /\
  circle_perimeter c = 2 * PI * Rabs (ci_radius c) /\
  nonneg b /\
  (forall q, on_circle ctr (ci_radius c) q -> in_closed b q) /\
  on_circle ctr (ci_radius c) (mkPoint (rx0 b) (py ctr)) /\ on_circle ctr (ci_radius c) (mkPoint (rx1 b) (py ctr)) /\
  on_circle ctr (ci_radius c) (mkPoint (px ctr) (ry0 b)) /\ on_circle ctr (ci_radius c) (mkPoint (px ctr) (ry1 b)).
Proof.
  destruct c as [[cx cy] r]. unfold on_circle, dist2, sq, nonneg, in_closed. sq_unfold.
  rewrite powerRZ_2.
  split; [reflexivity|]. split.
  { rewrite Rabs_mult, Rabs_mult, (Rabs_pos_eq 2) by lra. rewrite (Rabs_pos_eq PI); [ring|]. pose proof PI_RGT_0; lra. }
  split; [pose proof (Rabs_pos r); lra|]. split.
  { intros [x y]; cbn [px py]. intros E. pose proof (Rabs_pos r).
    assert (Rabs r * Rabs r = r * r) as A by (unfold Rabs; destruct (Rcase_abs r); ring).
    pose proof (Rle_0_sqr (x - cx)) as Q1. pose proof (Rle_0_sqr (y - cy)) as Q2. unfold Rsqr in Q1, Q2.
    assert ((x - cx) * (x - cx) <= Rabs r * Rabs r) as B1 by lra.
    assert ((y - cy) * (y - cy) <= Rabs r * Rabs r) as B2 by lra.
    pose proof (sq_le_bound _ _ B1 H). pose proof (sq_le_bound _ _ B2 H). lra. }
  assert (Rabs r * Rabs r = r * r) as A by (unfold Rabs; destruct (Rcase_abs r); ring).
  repeat split; nra.
Qed.

(** ** Ellipse *)
Lemma ellipse_winding_spec (e : Ellipse R) (p : Point R) :
  aff_determinant (el_inner e) <> 0 ->
  (in_affine_disc (el_inner e) p -> ellipse_winding e p = 1%Z) /\
  (~ in_affine_disc (el_inner e) p -> ellipse_winding e p = 0%Z).
Proof.
  destruct e as [[a b c d e f]], p as [x y]. unfold in_affine_disc, sq. cbn [el_inner].
  intros Hdet.
  assert (a * d - b * c <> 0) as Hd by (revert Hdet; sq_unfold; auto).
  set (iu := (1 / (a * d - b * c)) * d * x + - (1 / (a * d - b * c)) * c * y + (1 / (a * d - b * c)) * (c * f - d * e)).
  set (iv := - (1 / (a * d - b * c)) * b * x + (1 / (a * d - b * c)) * a * y + (1 / (a * d - b * c)) * (b * e - a * f)).
  assert (ellipse_winding (mkEllipse (mkAffine a b c d e f)) (mkPoint x y)
          = if Rltb (iu * iu + iv * iv) 1 then 1%Z else 0%Z) as W by reflexivity.
  rewrite W. clear W.
  assert (a * iu + c * iv + e = x /\ b * iu + d * iv + f = y) as [Ex Ey] by (unfold iu, iv; split; field; exact Hd).
  split.
  - intros (u & v & Huv & Ep). injection Ep as Epx Epy. cbn [aa ab ac ad ae af px py] in *.
    assert (iu = u /\ iv = v) as [Eu Ev].
    { unfold iu, iv. rewrite Epx, Epy. split; field; exact Hd. }
    rewrite Eu, Ev. destruct (Rltb_spec (u * u + v * v) 1); [reflexivity|contradiction].
  - intros Hn. destruct (Rltb_spec (iu * iu + iv * iv) 1) as [L|L]; [|reflexivity].
    exfalso. apply Hn. exists iu, iv. split; [exact L|].
    unfold aff_apply. cbn [aa ab ac ad ae af px py]. rs_unfold. rewrite Ex, Ey. reflexivity.
Qed.

Lemma sqrt_sq_abs x : sqrt (x * x) = Rabs x.
Proof. rewrite <- sqrt_Rsqr_abs. reflexivity. Qed.

(** the product of the singular values computed by [Affine::svd] is |det|, so area = pi |det| *)
Lemma ellipse_area_spec (e : Ellipse R) :
  ellipse_area e = PI * Rabs (aff_determinant (el_inner e)).
Proof.
  unfold ellipse_area, ellipse_radii. rewrite C12_proofs.svd_variants_agree.
  destruct e as [[a b c d e f]]. unfold aff_svd, aff_determinant.
  cbn [el_inner aa ab ac ad ae af fst snd vx vy]. rs_unfold. cbv [Q2R Qnum Qden].
  rewrite !powerRZ_2.
  set (s1 := a * a + b * b + c * c + d * d).
  set (t := a * a - b * b + c * c - d * d).
  set (w := a * b + c * d).
  set (s2 := sqrt (t * t + 4 * (w * w))).
  assert (0 <= t * t + 4 * (w * w)) as Hq by nra.
  assert (0 <= s2) as Hs2 by apply sqrt_pos.
  assert (s2 * s2 = t * t + 4 * (w * w)) as Es2 by (unfold s2; apply sqrt_sqrt; exact Hq).
  assert (s1 * s1 - s2 * s2 = 4 * ((a * d - b * c) * (a * d - b * c))) as Ed by (rewrite Es2; unfold s1, t, w; ring).
  assert (0 <= s1) as Hs1 by (unfold s1; nra).
  clearbody s1 s2. clear Es2 Hq.
  assert (s2 <= s1) as Hle.
  { destruct (Rle_dec s2 s1); [assumption|exfalso]. assert (0 < s2 - s1) by lra.
    pose proof (Rle_0_sqr (a * d - b * c)) as Q. unfold Rsqr in Q. nra. }
  rewrite Rmult_assoc. f_equal.
  rewrite <- sqrt_mult by lra.
  replace (1 * / 2 * (s1 + s2) * (1 * / 2 * (s1 - s2))) with ((a * d - b * c) * (a * d - b * c)) by lra.
  apply sqrt_sq_abs.
Qed.

(** the bounding box contains the ellipse and each of its four sides is touched by it *)
Lemma cauchy_unit a c u v : u * u + v * v = 1 -> (a * u + c * v) * (a * u + c * v) <= a * a + c * c.
Proof.
  intros E. pose proof (Rle_0_sqr (a * v - c * u)) as Q. unfold Rsqr in Q.
  assert (a * a + c * c = (a * a + c * c) * (u * u + v * v)) as M by (rewrite E; ring).
  rewrite M. nra.
Qed.

Lemma unit_attains a c : exists u v, u * u + v * v = 1 /\ a * u + c * v = sqrt (a * a + c * c).
Proof.
  destruct (Req_dec (a * a + c * c) 0) as [Z|NZ].
  - exists 1, 0. assert (a = 0) by nra. assert (c = 0) by nra. subst. split; [ring|].
    replace (0 * 0 + 0 * 0) with 0 by ring. rewrite sqrt_0. ring.
  - assert (0 < a * a + c * c) as P by nra.
    pose proof (sqrt_lt_R0 _ P) as Ps. pose proof (sqrt_sqrt (a * a + c * c) ltac:(lra)) as Es.
    set (n := sqrt (a * a + c * c)) in *.
    exists (a / n), (c / n). split.
    + field_simplify_eq; [|lra]. nra.
    + field_simplify_eq; [|lra]. nra.
Qed.

Lemma ellipse_bbox_tight (e : Ellipse R) :
  let b := ellipse_bounding_box e in let m := el_inner e in
  nonneg b /\
  (forall q, on_affine_circle m q -> in_closed b q) /\
  (exists q, on_affine_circle m q /\ px q = rx0 b) /\ (exists q, on_affine_circle m q /\ px q = rx1 b) /\
  (exists q, on_affine_circle m q /\ py q = ry0 b) /\ (exists q, on_affine_circle m q /\ py q = ry1 b).
Proof.
  destruct e as [[a b c d e f]]. unfold on_affine_circle, nonneg, in_closed, sq, aff_apply.
  sq_unfold.
  pose proof (sqrt_pos (a * a + c * c)) as Px. pose proof (sqrt_pos (b * b + d * d)) as Py.
  pose proof (sqrt_sqrt (a * a + c * c) ltac:(nra)) as Ex. pose proof (sqrt_sqrt (b * b + d * d) ltac:(nra)) as Ey.
  split; [lra|]. split.
  { intros q (u & v & Huv & ->). cbn [px py].
    pose proof (cauchy_unit a c u v Huv). pose proof (cauchy_unit b d u v Huv).
    set (sx := sqrt (a * a + c * c)) in *. set (sy := sqrt (b * b + d * d)) in *.
    assert ((a * u + c * v) * (a * u + c * v) <= sx * sx) as B1 by lra.
    assert ((b * u + d * v) * (b * u + d * v) <= sy * sy) as B2 by lra.
    pose proof (sq_le_bound _ _ B1 Px). pose proof (sq_le_bound _ _ B2 Py). lra. }
  destruct (unit_attains a c) as (u1 & v1 & H1 & A1).
  destruct (unit_attains b d) as (u2 & v2 & H2 & A2).
  split; [|split; [|split]].
  - exists (mkPoint (a * (- u1) + c * (- v1) + e) (b * (- u1) + d * (- v1) + f)). split.
    + exists (- u1), (- v1). split; [nra|reflexivity].
    + cbn [px]. lra.
  - exists (mkPoint (a * u1 + c * v1 + e) (b * u1 + d * v1 + f)). split.
    + exists u1, v1. split; [nra|reflexivity].
    + cbn [px]. lra.
  - exists (mkPoint (a * (- u2) + c * (- v2) + e) (b * (- u2) + d * (- v2) + f)). split.
    + exists (- u2), (- v2). split; [nra|reflexivity].
    + cbn [py]. lra.
  - exists (mkPoint (a * u2 + c * v2 + e) (b * u2 + d * v2 + f)). split.
    + exists u2, v2. split; [nra|reflexivity].
    + cbn [py]. lra.
Qed.

(** ** RoundedRect *)

Lemma rr_from_rect_wf (rect : Rect R) (radii : RoundedRectRadii R) :
  let rr := rr_from_rect rect radii in
  let m := Rmin (Rabs (rx1 rect - rx0 rect)) (Rabs (ry1 rect - ry0 rect)) / 2 in
  rr_wf rr /\ rr_rect rr = rect_abs rect /\
  r_top_left (rr_radii rr) = Rmin (Rabs (r_top_left radii)) m /\
  r_top_right (rr_radii rr) = Rmin (Rabs (r_top_right radii)) m /\
  r_bottom_right (rr_radii rr) = Rmin (Rabs (r_bottom_right radii)) m /\
  r_bottom_left (rr_radii rr) = Rmin (Rabs (r_bottom_left radii)) m.
Proof.
  destruct rect as [x0 y0 x1 y1], radii as [tl tr br bl]. unfold rr_wf, radii_ok, nonneg. sq_unfold.
  assert (Rmax x0 x1 - Rmin x0 x1 = Rabs (x1 - x0)) as Ew by minmax.
  assert (Rmax y0 y1 - Rmin y0 y1 = Rabs (y1 - y0)) as Eh by minmax.
  rewrite Ew, Eh.
  pose proof (Rabs_pos (x1 - x0)). pose proof (Rabs_pos (y1 - y0)).
  pose proof (Rabs_pos tl). pose proof (Rabs_pos tr). pose proof (Rabs_pos br). pose proof (Rabs_pos bl).
  set (m := Rmin (Rabs (x1 - x0)) (Rabs (y1 - y0)) / 2).
  assert (0 <= m) by (unfold m, Rmin; destruct (Rle_dec _ _); lra).
  repeat split; try reflexivity; try (unfold Rmin; destruct (Rle_dec _ _); lra).
  - unfold Rmin, Rmax; destruct (Rle_dec x0 x1); lra.
  - unfold Rmin, Rmax; destruct (Rle_dec y0 y1); lra.
Qed.

Lemma quadrant_test hw hh r X Y : 0 <= r <= hw -> r <= hh -> 0 <= X -> 0 <= Y ->
  let qx := Rmax (X - Rmax (hw - r) 0) 0 in let qy := Rmax (Y - Rmax (hh - r) 0) 0 in
  (qx * qx + qy * qy <= r * r <->
   X <= hw /\ Y <= hh /\
   (hw - r <= X -> hh - r <= Y -> (X - (hw - r)) * (X - (hw - r)) + (Y - (hh - r)) * (Y - (hh - r)) <= r * r)).
Proof.
  intros Hr Hh HX HY. cbv zeta.
  rewrite (Rmax_left (hw - r) 0) by lra. rewrite (Rmax_left (hh - r) 0) by lra.
  unfold Rmax.
  destruct (Rle_dec (X - (hw - r)) 0) as [A|A]; destruct (Rle_dec (Y - (hh - r)) 0) as [B|B].
  - split; [intros _|intros _; nra]. repeat split; try lra. intros. assert (X - (hw - r) = 0) by lra. assert (Y - (hh - r) = 0) by lra. nra.
  - split.
    + intros T. assert (Y - (hh - r) <= r) by (apply (sq_le_bound _ r); [nra|lra]).
      repeat split; try lra. intros. assert (X - (hw - r) = 0) by lra. nra.
    + intros (H1 & H2 & _). assert (0 <= Y - (hh - r) <= r) by lra. nra.
  - split.
    + intros T. assert (X - (hw - r) <= r) by (apply (sq_le_bound _ r); [nra|lra]).
      repeat split; try lra. intros. assert (Y - (hh - r) = 0) by lra. nra.
    + intros (H1 & H2 & _). assert (0 <= X - (hw - r) <= r) by lra. nra.
  - split.
    + intros T.
      assert (X - (hw - r) <= r) by (apply (sq_le_bound _ r); [nra|lra]).
      assert (Y - (hh - r) <= r) by (apply (sq_le_bound _ r); [nra|lra]).
      repeat split; try lra.
    + intros (H1 & H2 & H3). apply H3; lra.
Qed.

Lemma rr_winding_spec (rr : RoundedRect R) (p : Point R) : rr_wf rr ->
  (in_rounded_rect rr p -> rr_winding rr p = 1%Z) /\ (~ in_rounded_rect rr p -> rr_winding rr p = 0%Z).
Proof.
  destruct rr as [[x0 y0 x1 y1] [tl tr br bl]], p as [x y].
  unfold rr_wf, radii_ok, nonneg, in_rounded_rect, in_closed, corner_ok, sq.
  cbn [rr_rect rr_radii rx0 ry0 rx1 ry1 r_top_left r_top_right r_bottom_right r_bottom_left px py].
  intros ((Hw & Hh) & Htl & Htr & Hbr & Hbl).
  assert (Rmin (x1 - x0) (y1 - y0) / 2 <= (x1 - x0) / 2 /\ Rmin (x1 - x0) (y1 - y0) / 2 <= (y1 - y0) / 2) as [Mw Mh]
    by (unfold Rmin; destruct (Rle_dec _ _); lra).
  set (m := Rmin (x1 - x0) (y1 - y0) / 2) in *. clearbody m.
  sq_unfold.
  set (dx := x - 1 * / 2 * (x0 + x1)). set (dy := y - 1 * / 2 * (y0 + y1)).
  set (hw := (x1 - x0) / 2). set (hh := (y1 - y0) / 2).
  assert (forall r, 0 <= r <= m ->
    let qx := Rmax (Rabs dx - Rmax (hw - r) 0) 0 in let qy := Rmax (Rabs dy - Rmax (hh - r) 0) 0 in
    (qx * qx + qy * qy <= r * r <->
     Rabs dx <= hw /\ Rabs dy <= hh /\
     (hw - r <= Rabs dx -> hh - r <= Rabs dy ->
      (Rabs dx - (hw - r)) * (Rabs dx - (hw - r)) + (Rabs dy - (hh - r)) * (Rabs dy - (hh - r)) <= r * r))) as QT.
  { intros r Hr. apply quadrant_test; try apply Rabs_pos; unfold hw, hh; lra. }
  destruct (Rltb_spec dx 0) as [Lx|Gx]; destruct (Rltb_spec dy 0) as [Ly|Gy];
    destruct (Rleb_spec 0 dx) as [Lx'|Gx']; destruct (Rleb_spec 0 dy) as [Ly'|Gy']; try lra; cbn [andb].
  - (* top left *)
    pose proof (QT tl Htl) as Q. cbv zeta in Q.
    rewrite (Rabs_left dx Lx), (Rabs_left dy Ly) in *.
    match goal with |- context [Rleb ?a ?b] => destruct (Rleb_spec a b) as [T|T] end; rewrite Q in T;
      (split; [intros G|intros G]); try reflexivity; exfalso.
    + apply G; clear G Q QT. destruct T as (T1 & T2 & T3). unfold dx, dy, hw, hh in *.
      split; [lra|]. repeat split; intros; try lra; nra.
    + apply T; clear T Q QT. destruct G as (G0 & G1 & G2 & G3 & G4). unfold dx, dy, hw, hh in *.
      repeat split; intros; try lra; nra.
  - (* bottom left: dx < 0, dy >= 0 *)
    pose proof (QT bl Hbl) as Q. cbv zeta in Q.
    rewrite (Rabs_left dx Lx), (Rabs_pos_eq dy Ly') in *.
    match goal with |- context [Rleb ?a ?b] => destruct (Rleb_spec a b) as [T|T] end; rewrite Q in T;
      (split; [intros G|intros G]); try reflexivity; exfalso.
    + apply G; clear G Q QT. destruct T as (T1 & T2 & T3). unfold dx, dy, hw, hh in *.
      split; [lra|]. repeat split; intros; try lra; nra.
    + apply T; clear T Q QT. destruct G as (G0 & G1 & G2 & G3 & G4). unfold dx, dy, hw, hh in *.
      repeat split; intros; try lra; nra.
  - (* top right: dx >= 0, dy < 0 *)
    pose proof (QT tr Htr) as Q. cbv zeta in Q.
    rewrite (Rabs_pos_eq dx Lx'), (Rabs_left dy Ly) in *.
    match goal with |- context [Rleb ?a ?b] => destruct (Rleb_spec a b) as [T|T] end; rewrite Q in T;
      (split; [intros G|intros G]); try reflexivity; exfalso.
    + apply G; clear G Q QT. destruct T as (T1 & T2 & T3). unfold dx, dy, hw, hh in *.
      split; [lra|]. repeat split; intros; try lra; nra.
    + apply T; clear T Q QT. destruct G as (G0 & G1 & G2 & G3 & G4). unfold dx, dy, hw, hh in *.
      repeat split; intros; try lra; nra.
  - (* bottom right *)
    pose proof (QT br Hbr) as Q. cbv zeta in Q.
    rewrite (Rabs_pos_eq dx Lx'), (Rabs_pos_eq dy Ly') in *.
    match goal with |- context [Rleb ?a ?b] => destruct (Rleb_spec a b) as [T|T] end; rewrite Q in T;
      (split; [intros G|intros G]); try reflexivity; exfalso.
    + apply G; clear G Q QT. destruct T as (T1 & T2 & T3). unfold dx, dy, hw, hh in *.
      split; [lra|]. repeat split; intros; try lra; nra.
    + apply T; clear T Q QT. destruct G as (G0 & G1 & G2 & G3 & G4). unfold dx, dy, hw, hh in *.
      repeat split; intros; try lra; nra.
Qed.

(** area: rectangle minus four corner squares plus four quarter discs; perimeter: the straight
    parts plus four quarter circles; bounding box: the rectangle, every side touched *)
Lemma rr_queries (rr : RoundedRect R) : rr_wf rr ->
  let r := rr_rect rr in let q := rr_radii rr in
  let tl := r_top_left q in let tr := r_top_right q in let br := r_bottom_right q in let bl := r_bottom_left q in
  let w := rx1 r - rx0 r in let h := ry1 r - ry0 r in
  rr_area rr = w * h - (sq tl + sq tr + sq br + sq bl) + (PI * sq tl + PI * sq tr + PI * sq br + PI * sq bl) / 4 /\
  rr_perimeter rr = ((w - tl - tr) + (h - tr - br) + (w - br - bl) + (h - bl - tl))
                    + (2 * PI * tl + 2 * PI * tr + 2 * PI * br + 2 * PI * bl) / 4 /\
  rr_bounding_box rr = r /\
  (forall p, in_rounded_rect rr p -> in_closed r p) /\
  in_rounded_rect rr (mkPoint (rx0 r + tl) (ry0 r)) /\ in_rounded_rect rr (mkPoint (rx1 r) (ry0 r + tr)) /\
  in_rounded_rect rr (mkPoint (rx1 r - br) (ry1 r)) /\ in_rounded_rect rr (mkPoint (rx0 r) (ry1 r - bl)).
Proof.
  destruct rr as [[x0 y0 x1 y1] [tl tr br bl]].
  unfold rr_wf, radii_ok, nonneg, in_rounded_rect, in_closed, corner_ok, sq.
  cbn [rr_rect rr_radii rx0 ry0 rx1 ry1 r_top_left r_top_right r_bottom_right r_bottom_left px py].
  intros ((Hw & Hh) & Htl & Htr & Hbr & Hbl).
  assert (Rmin (x1 - x0) (y1 - y0) / 2 <= (x1 - x0) / 2 /\ Rmin (x1 - x0) (y1 - y0) / 2 <= (y1 - y0) / 2) as [Mw Mh]
    by (unfold Rmin; destruct (Rle_dec _ _); lra).
  set (m := Rmin (x1 - x0) (y1 - y0) / 2) in *. clearbody m.
  split; [sq_unfold; field|]. split.
  { sq_unfold. rewrite (Rabs_pos_eq (x1 - x0)), (Rabs_pos_eq (y1 - y0)) by lra. field. }
  split. { sq_unfold. unfold Rmin, Rmax. destruct (Rle_dec x0 x1), (Rle_dec y0 y1); try lra. reflexivity. }
  split; [intros p Hp; apply Hp|].
  repeat split; intros; try lra; nra.
Qed.

(** ** Line as a shape: bounding box least, perimeter = length, no area, no winding *)
Lemma line_queries (l : Line R) :
  let b := line_shape_bounding_box l in
  nonneg b /\ in_closed b (l0 l) /\ in_closed b (l1 l) /\
  (forall b', in_closed b' (l0 l) -> in_closed b' (l1 l) -> subset b b') /\
  line_shape_perimeter l = sqrt (sq (px (l1 l) - px (l0 l)) + sq (py (l1 l) - py (l0 l))) /\
  line_shape_area l = 0 /\ (forall p, line_shape_winding l p = 0%Z).
Proof.
  destruct l as [[ax ay] [bx by_]]. unfold nonneg, in_closed, subset, sq. sq_unfold.
  split; [minmax|]. split; [minmax|]. split; [minmax|]. split.
  { intros [a0 b0 a1 b1]; cbn. intros. minmax. }
  repeat split.
Qed.
