(** C11: the AGM branch of [Ellipse::perimeter]. Given the classical AGM formula for the complete
    elliptic integral (a Section hypothesis that stays in the statement), the required algorithm
    (mean iterated to convergence) meets the requested accuracy up to 2 eps relative, and the
    pinned one only up to the gap between the current means. *)
From Coq Require Import ZArith QArith Reals List Bool Lra Lia Psatz.
From KV Require Import Scalar RInst Geom ShapeTypes ShapeQueries RTac.
Local Open Scope R_scope.

Lemma powerRZ_2' z : powerRZ z 2 = z * z.
Proof. simpl. ring. Qed.

Section AGM.
Variables x y : R.
Hypothesis Hy : 0 < y.
Hypothesis Hxy : y <= x.

(** the arithmetic / geometric means and c_n, from a_0 = 1, g_0 = y/x, c_0 = sqrt(1 - g_0^2) *)
Fixpoint agm_seq (n : nat) : R * R * R :=
  match n with
  | O => (1, y / x, sqrt (1 - (y / x) * (y / x)))
  | S k => let '(a, g, _) := agm_seq k in ((a + g) / 2, sqrt (a * g), (a - g) / 2)
  end.
Definition a_ n := fst (fst (agm_seq n)).
Definition g_ n := snd (fst (agm_seq n)).
Definition c_ n := snd (agm_seq n).
(** term n of the series: 2^(n-1) c_n^2 *)
Definition T_ n := / 2 * 2 ^ n * (c_ n * c_ n).

Lemma seq_S n : a_ (S n) = (a_ n + g_ n) / 2 /\ g_ (S n) = sqrt (a_ n * g_ n) /\ c_ (S n) = (a_ n - g_ n) / 2.
Proof. unfold a_, g_, c_. simpl. destruct (agm_seq n) as [[a g] c]. simpl. auto. Qed.

Lemma g0_range : 0 < y / x <= 1.
Proof.
  assert (0 < x) by lra. split.
  - apply Rdiv_lt_0_compat; lra.
  - apply (Rmult_le_reg_r x); [lra|]. unfold Rdiv. rewrite Rmult_assoc, Rinv_l by lra. lra.
Qed.

Lemma seq_inv n : 0 < g_ n <= a_ n /\ 0 <= c_ n /\ c_ n * c_ n = a_ n * a_ n - g_ n * g_ n.
Proof.
  induction n.
  - unfold a_, g_, c_. simpl. pose proof g0_range as G.
    assert (0 <= 1 - y / x * (y / x)) by nra.
    repeat split; try lra; [apply sqrt_pos|rewrite sqrt_sqrt by lra; ring].
  - destruct (seq_S n) as (Ea & Eg & Ec). destruct IHn as ((G0 & GA) & C0 & CC).
    rewrite Ea, Eg, Ec.
    assert (0 < a_ n * g_ n) as P by nra.
    pose proof (sqrt_lt_R0 _ P) as SP. pose proof (sqrt_sqrt (a_ n * g_ n) ltac:(lra)) as SS.
    set (s := sqrt (a_ n * g_ n)) in *.
    assert (s <= (a_ n + g_ n) / 2).
    { destruct (Rle_dec s ((a_ n + g_ n) / 2)); [assumption|exfalso].
      assert (0 < s - (a_ n + g_ n) / 2) by lra. nra. }
    repeat split; try lra; nra.
Qed.

(** c_(n+1) <= c_n / 2, hence T_(n+1) <= T_n / 2 *)
Lemma c_halves n : c_ (S n) <= c_ n / 2.
Proof.
  destruct (seq_S n) as (_ & _ & Ec). destruct (seq_inv n) as ((G0 & GA) & C0 & CC). rewrite Ec.
  assert (a_ n - g_ n <= c_ n).
  { destruct (Rle_dec (a_ n - g_ n) (c_ n)); [assumption|exfalso]. assert (0 < a_ n - g_ n - c_ n) by lra. nra. }
  lra.
Qed.

Lemma T_nonneg n : 0 <= T_ n.
Proof. unfold T_. pose proof (pow_lt 2 n ltac:(lra)). nra. Qed.

Lemma T_halves n : T_ (S n) <= T_ n / 2.
Proof.
  unfold T_. simpl pow. pose proof (c_halves n). destruct (seq_inv (S n)) as (_ & C1 & _).
  destruct (seq_inv n) as (_ & C0 & _). pose proof (pow_lt 2 n ltac:(lra)).
  assert (c_ (S n) * c_ (S n) <= c_ n * c_ n / 4) by nra. nra.
Qed.

(** partial sums beyond n stay below T_n *)
Lemma tail_le n k : sum_f_R0 T_ (n + k) - sum_f_R0 T_ n <= T_ n - T_ (n + k).
Proof.
  induction k.
  - rewrite Nat.add_0_r. lra.
  - replace (n + S k)%nat with (S (n + k)) by lia. rewrite tech5.
    pose proof (T_halves (n + k)). pose proof (T_nonneg (S (n + k))). lra.
Qed.

Variables P M : R.
(** classical: the AGM M of (1, y/x) lies between the means, and
    P = 2 pi x / M * (1 - sum_n 2^(n-1) c_n^2)  (Gauss / Legendre, e.g. Jameson 2.1) *)
Hypothesis M_between : forall n, g_ n <= M <= a_ n.
Hypothesis agm_formula : infinite_sum T_ (1 - P * M / (2 * PI * x)).

Lemma series_tail n :
  let S := 1 - P * M / (2 * PI * x) in
  0 <= S - sum_f_R0 T_ n <= T_ n.
Proof.
  cbv zeta. split.
  - assert (sum_f_R0 T_ n <= 1 - P * M / (2 * PI * x)); [|lra].
    apply sum_incr; [exact agm_formula|apply T_nonneg].
  - assert (1 - P * M / (2 * PI * x) <= sum_f_R0 T_ n + T_ n); [|lra].
    apply Rle_cv_lim with (Un := fun k => sum_f_R0 T_ k) (Vn := fun _ : nat => sum_f_R0 T_ n + T_ n).
    + intros k. destruct (le_lt_dec k n) as [L|L].
      * assert (sum_f_R0 T_ k <= sum_f_R0 T_ n).
        { clear - L. induction L; [lra|]. rewrite tech5. pose proof (T_nonneg (S m)). lra. }
        pose proof (T_nonneg n). lra.
      * replace k with (n + (k - n))%nat by lia. pose proof (tail_le n (k - n)). pose proof (T_nonneg (n + (k - n))). lra.
    + exact agm_formula.
    + intros eps Heps. exists 0%nat. intros m _. unfold R_dist. rewrite Rminus_diag_eq, Rabs_R0 by reflexivity. exact Heps.
Qed.

(** the loop of the model, started in the state after n rounds, stops in the state after some m >= n rounds *)
Lemma agm_loop_spec fuel : forall n acc s a g,
  agm_loop fuel acc (1 - (sum_f_R0 T_ n - T_ n)) (a_ n) (g_ n) (c_ n) (/ 2 * 2 ^ n) = Some (s, a, g) ->
  exists m, (n <= m)%nat /\ s = 1 - sum_f_R0 T_ m - T_ m /\ a = a_ m /\ g = g_ m /\ T_ m <= acc * g_ m.
Proof.
  induction fuel; intros n acc s a g; simpl agm_loop; [discriminate|].
  rs_unfold. replace (c_ n * (c_ n * 1)) with (c_ n * c_ n) by ring.
  change (/ 2 * 2 ^ n * (c_ n * c_ n)) with (T_ n).
  destruct (Rleb_spec (T_ n) (acc * g_ n)) as [L|L].
  - intros E. injection E as <- <- <-. exists n. repeat split; try lra; try lia.
  - intros E. destruct (seq_S n) as (Ea & Eg & Ec).
    rewrite <- Ea, <- Eg, <- Ec in E.
    replace (/ 2 * 2 ^ n * 2) with (/ 2 * 2 ^ S n) in E by (simpl; ring).
    replace (1 - (sum_f_R0 T_ n - T_ n) - T_ n) with (1 - (sum_f_R0 T_ (S n) - T_ (S n))) in E by (rewrite tech5; ring).
    destruct (IHfuel (S n) acc s a g E) as (m & Hm & R). exists m. split; [lia|exact R].
Qed.

Definition eps52 : R := Q2R (1 # 4503599627370496).
Lemma eps52_range : 0 < eps52 <= / 2.
Proof. unfold eps52, Q2R. simpl. lra. Qed.

Lemma agm_converge_spec fuel : forall n a',
  agm_converge fuel (a_ n) (g_ n) = Some a' ->
  exists m, (n <= m)%nat /\ a' = a_ m /\ a_ m - g_ m <= eps52 * a_ m.
Proof.
  induction fuel; intros n a'; simpl agm_converge; rs_unfold; fold eps52.
  - destruct (Rltb_spec (eps52 * a_ n) (a_ n - g_ n)); [discriminate|].
    intros E. injection E as <-. exists n. repeat split; try lia; lra.
  - destruct (Rltb_spec (eps52 * a_ n) (a_ n - g_ n)).
    + intros E. destruct (seq_S n) as (Ea & Eg & _). rewrite <- Ea, <- Eg in E.
      destruct (IHfuel (S n) a' E) as (m & Hm & R). exists m. split; [lia|exact R].
    + intros E. injection E as <-. exists n. repeat split; try lia; lra.
Qed.

Lemma M_pos : 0 < M.
Proof. pose proof (M_between 0). destruct (seq_inv 0) as ((G & _) & _). lra. Qed.

(** what both variants share: the state the series loop stops in *)
Lemma agm_series_part fuel acc s a g : 0 < acc ->
  agm_loop fuel (acc / (2 * PI * x)) 1 1 (y / x) (sqrt (1 - powerRZ (y / x) 2)) (1 * / 2) = Some (s, a, g) ->
  exists m, a = a_ m /\ g = g_ m /\
    let Q := P * M / (2 * PI * x) in
    0 <= 2 * PI * x * (Q - s) / M <= acc.
Proof.
  intros Hacc E.
  assert (0 < x) as Hx by lra. pose proof PI_RGT_0 as Ppi. pose proof M_pos as HM.
  assert (0 < 2 * PI * x) as HK by nra.
  rewrite powerRZ_2' in E.
  replace 1 with (1 - (sum_f_R0 T_ 0 - T_ 0)) in E at 1 by (simpl; ring).
  change 1 with (a_ 0) in E at 3. change (y / x) with (g_ 0) in E at 1.
  change (sqrt (1 - y / x * (y / x))) with (c_ 0) in E.
  replace (1 * / 2) with (/ 2 * 2 ^ 0) in E by (simpl; ring).
  destruct (agm_loop_spec fuel 0 _ s a g E) as (m & _ & Es & Ea & Eg & HT).
  exists m. split; [exact Ea|]. split; [exact Eg|]. cbv zeta.
  pose proof (series_tail m) as Tl. cbv zeta in Tl.
  set (Q := P * M / (2 * PI * x)) in *.
  assert (0 <= Q - s <= T_ m) as D1 by (rewrite Es; lra).
  pose proof (M_between m) as Mb. destruct (seq_inv m) as ((G0 & _) & _).
  assert (2 * PI * x * (Q - s) <= acc * M).
  { apply Rle_trans with (2 * PI * x * T_ m); [apply Rmult_le_compat_l; lra|].
    apply Rle_trans with (2 * PI * x * (acc / (2 * PI * x) * g_ m)); [apply Rmult_le_compat_l; lra|].
    replace (2 * PI * x * (acc / (2 * PI * x) * g_ m)) with (acc * g_ m) by (field; lra).
    apply Rmult_le_compat_l; lra. }
  split.
  - apply Rmult_le_pos; [nra|left; apply Rinv_0_lt_compat; exact HM].
  - apply (Rmult_le_reg_r M); [exact HM|]. unfold Rdiv. rewrite Rmult_assoc, Rinv_l by lra. lra.
Qed.

Lemma agm_model_start acc :
  agm_start acc (mkVec2 x y) = (x, acc / (2 * PI * x), y / x, sqrt (1 - powerRZ (y / x) 2)).
Proof.
  unfold agm_start. cbn [vx vy]. rs_unfold. destruct (Rleb_spec y x); [reflexivity|lra].
Qed.

(** required algorithm: error <= requested accuracy + 2 eps |result| *)
Lemma agm_accuracy fuel acc res : 0 < acc ->
  agm_elliptic_perimeter fuel acc (mkVec2 x y) = Some res ->
  Rabs (P - res) <= acc + 2 * eps52 * Rabs res.
Proof.
  intros Hacc. unfold agm_elliptic_perimeter. rewrite agm_model_start.
  change (@f1 R RS) with 1. change (@fhalf R RS) with (Q2R (1 # 2)). cbv [Q2R Qnum Qden].
  destruct (agm_loop fuel _ 1 1 (y / x) _ _) as [[[s a] g]|] eqn:EL; [|discriminate].
  destruct (agm_series_part fuel acc s a g Hacc EL) as (m & -> & -> & B). cbv zeta in B.
  destruct (agm_converge fuel (a_ m) (g_ m)) as [a'|] eqn:EC; [|discriminate].
  destruct (agm_converge_spec fuel m a' EC) as (k & _ & -> & Hk).
  intros E. injection E as <-. rs_unfold.
  assert (0 < x) as Hx by lra. pose proof PI_RGT_0 as Ppi. pose proof M_pos as HM.
  pose proof eps52_range as He. pose proof (M_between k) as Mk. destruct (seq_inv k) as ((Gk & GAk) & _).
  set (K := 2 * PI * x) in *. assert (0 < K) as HK by (unfold K; nra).
  set (res := K / a_ k * s).
  set (u := K * (P * M / K - s) / M) in *.
  assert (P - res = u + res * (a_ k - M) / M) as EP by (unfold u, res; field; lra).
  rewrite EP.
  apply Rle_trans with (Rabs u + Rabs (res * (a_ k - M) / M)); [apply Rabs_triang|].
  rewrite (Rabs_pos_eq u) by lra.
  assert (Rabs (res * (a_ k - M) / M) <= 2 * eps52 * Rabs res); [|lra].
  unfold Rdiv. rewrite !Rabs_mult. rewrite (Rabs_pos_eq (a_ k - M)) by lra.
  rewrite (Rabs_pos_eq (/ M)) by (left; apply Rinv_0_lt_compat; lra).
  assert ((a_ k - M) * / M <= 2 * eps52).
  { apply (Rmult_le_reg_r M); [lra|]. rewrite Rmult_assoc, Rinv_l by lra. nra. }
  pose proof (Rabs_pos res). rewrite Rmult_assoc. nra.
Qed.

(** pinned algorithm: the division uses the current arithmetic mean a_m of the state the series loop
    stopped in; the extra error term is governed by the gap a_m - g_m, which the exit test does not control *)
Lemma agm_accuracy_pinned fuel acc res : 0 < acc ->
  agm_elliptic_perimeter_pinned fuel acc (mkVec2 x y) = Some res ->
  exists m, Rabs (P - res) <= acc + (a_ m - g_ m) / g_ m * Rabs res.
Proof.
  intros Hacc. unfold agm_elliptic_perimeter_pinned. rewrite agm_model_start.
  change (@f1 R RS) with 1. change (@fhalf R RS) with (Q2R (1 # 2)). cbv [Q2R Qnum Qden].
  destruct (agm_loop fuel _ 1 1 (y / x) _ _) as [[[s a] g]|] eqn:EL; [|discriminate].
  destruct (agm_series_part fuel acc s a g Hacc EL) as (m & -> & -> & B). cbv zeta in B.
  intros E. injection E as <-. rs_unfold. exists m.
  assert (0 < x) as Hx by lra. pose proof PI_RGT_0 as Ppi. pose proof M_pos as HM.
  pose proof (M_between m) as Mk. destruct (seq_inv m) as ((Gk & GAk) & _).
  set (K := 2 * PI * x) in *. assert (0 < K) as HK by (unfold K; nra).
  set (res := K / a_ m * s).
  set (u := K * (P * M / K - s) / M) in *.
  assert (P - res = u + res * (a_ m - M) / M) as EP by (unfold u, res; field; lra).
  rewrite EP.
  apply Rle_trans with (Rabs u + Rabs (res * (a_ m - M) / M)); [apply Rabs_triang|].
  rewrite (Rabs_pos_eq u) by lra.
  assert (Rabs (res * (a_ m - M) / M) <= (a_ m - g_ m) / g_ m * Rabs res); [|lra].
  unfold Rdiv. rewrite !Rabs_mult. rewrite (Rabs_pos_eq (a_ m - M)) by lra.
  rewrite (Rabs_pos_eq (/ M)) by (left; apply Rinv_0_lt_compat; lra).
  assert ((a_ m - M) * / M <= (a_ m - g_ m) * / g_ m).
  { apply Rmult_le_compat; try lra; [left; apply Rinv_0_lt_compat; lra|apply Rinv_le_contravar; lra]. }
  pose proof (Rabs_pos res). rewrite Rmult_assoc. nra.
Qed.

End AGM.

(** non-vacuity: for the circle x = y = 1 the hypotheses hold with M = 1, P = 2 pi *)
Lemma agm_circle_seq n : a_ 1 1 n = 1 /\ g_ 1 1 n = 1 /\ c_ 1 1 n = 0.
Proof.
  induction n.
  - unfold a_, g_, c_. simpl. replace (1 - 1 / 1 * (1 / 1)) with 0 by field. rewrite sqrt_0. repeat split; field.
  - destruct (seq_S 1 1 n) as (Ea & Eg & Ec). destruct IHn as (A & G & C).
    rewrite Ea, Eg, Ec, A, G. replace (1 * 1) with 1 by ring. rewrite sqrt_1. repeat split; field.
Qed.

Lemma agm_hypotheses_circle :
  0 < 1 /\ 1 <= 1 /\ (forall n, g_ 1 1 n <= 1 <= a_ 1 1 n) /\
  infinite_sum (T_ 1 1) (1 - (2 * PI) * 1 / (2 * PI * 1)).
Proof.
  split; [lra|]. split; [lra|]. split.
  - intros n. destruct (agm_circle_seq n) as (-> & -> & _). lra.
  - replace (1 - 2 * PI * 1 / (2 * PI * 1)) with 0 by (field; pose proof PI_RGT_0; lra).
    intros eps Heps. exists 0%nat. intros n _.
    assert (sum_f_R0 (T_ 1 1) n = 0) as ->.
    { induction n; simpl; unfold T_ in *; destruct (agm_circle_seq 0) as (_ & _ & C0).
      - rewrite C0. ring.
      - rewrite IHn. destruct (agm_circle_seq (S n)) as (_ & _ & ->). ring. }
    unfold R_dist. rewrite Rminus_diag_eq, Rabs_R0 by reflexivity. exact Heps.
Qed.
