(** C03 extension: the closed form of QuadBez::arclen equals the integral of the speed (main branch),
    the sharp-kink value is the integral for collinear control points, and the near-straight branch is
    the 3-point Gauss-Legendre rule.  Real instance. *)
From Coq Require Import ZArith QArith Reals List Bool Lra Lia Psatz.
From Coquelicot Require Import Coquelicot.
From Interval Require Import Tactic.
From KV Require Import Scalar RInst Geom Curves Arclen RTac ArclenSpec C03_proofs.
Local Open Scope R_scope.

(** ** the antiderivative of sqrt(r^2 t^2 + b t + c), r > 0, discriminant D = 4 r^2 c - b^2 > 0 *)
Section Antiderivative.
Variables r b c : R.
Hypothesis Hr : 0 < r.
Hypothesis HD : 0 < 4 * (r * r) * c - b * b.

Definition qP (t : R) : R := r * r * (t * t) + b * t + c.
Definition qS (t : R) : R := sqrt (qP t).
(* the argument of the logarithm *)
Definition qL (t : R) : R := 2 * r * qS t + 2 * (r * r) * t + b.
Definition qF (t : R) : R :=
  (2 * (r * r) * t + b) / (4 * (r * r)) * qS t
  + (4 * (r * r) * c - b * b) / (8 * (r * r * r)) * ln (qL t).

Lemma qP_pos (t : R) : 0 < qP t.
Proof.
  unfold qP. assert (H : 4 * (r * r) * (r * r * (t * t) + b * t + c)
                         = (2 * (r * r) * t + b) * (2 * (r * r) * t + b) + (4 * (r * r) * c - b * b)) by ring.
  assert (Hsq : 0 <= (2 * (r * r) * t + b) * (2 * (r * r) * t + b)) by (apply Rle_0_sqr).
  assert (H1 : 0 < 4 * (r * r) * (r * r * (t * t) + b * t + c)) by (rewrite H; lra).
  assert (H2 : 0 < 4 * (r * r)) by (assert (0 < r * r) by (apply Rmult_lt_0_compat; assumption); lra).
  destruct (Rle_lt_dec (r * r * (t * t) + b * t + c) 0) as [Hle|Hgt]; [|exact Hgt].
  exfalso. set (P := r * r * (t * t) + b * t + c) in *.
  assert (0 <= 4 * (r * r) * (- P)) by (apply Rmult_le_pos; lra). lra.
Qed.

Lemma qS_pos (t : R) : 0 < qS t.
Proof. apply sqrt_lt_R0, qP_pos. Qed.

Lemma qS_sqr (t : R) : qS t * qS t = qP t.
Proof. apply sqrt_sqrt. left; apply qP_pos. Qed.

Lemma qL_pos (t : R) : 0 < qL t.
Proof.
  unfold qL. pose proof (qS_pos t) as Hs. pose proof (qS_sqr t) as Hq. unfold qP in Hq.
  set (s := qS t) in *. set (u := 2 * (r * r) * t + b).
  (* (2 r s)^2 = u^2 + D > u^2 *)
  assert (H : (2 * r * s) * (2 * r * s) = u * u + (4 * (r * r) * c - b * b)) by (unfold u; nra).
  assert (0 < 2 * r * s) by nra.
  destruct (Rle_lt_dec 0 u) as [Hu|Hu]; [unfold u in *; lra|].
  assert ((- u) * (- u) < (2 * r * s) * (2 * r * s)) by nra.
  assert (- u < 2 * r * s) by (apply Rsqr_incrst_0; unfold Rsqr; lra).
  unfold u in *. lra.
Qed.

Lemma qF_derive (t : R) : is_derive qF t (qS t).
Proof.
  pose proof (qP_pos t) as HP. pose proof (qS_pos t) as Hs. pose proof (qL_pos t) as HL.
  pose proof (qS_sqr t) as Hq.
  unfold qF, qL, qS in *. unfold qP in *.
  auto_derive.
  - repeat split; try assumption. 
  - set (s := sqrt (r * r * (t * t) + b * t + c)) in *.
    assert (Hc : c = s * s - r * r * (t * t) - b * t) by lra.
    clearbody s. subst c. field. repeat split; lra.
Qed.
End Antiderivative.

Section ClosedForm.
Variables r b c : R.
Hypothesis Hr : 0 < r.
Hypothesis HD : 0 < 4 * (r * r) * c - b * b.

Lemma qS_continuous (t : R) : continuous (qS r b c) t.
Proof.
  unfold qS. apply continuous_sqrt_comp. unfold qP.
  apply (ex_derive_continuous (fun t => r * r * (t * t) + b * t + c)). auto_derive. trivial.
Qed.

(** integral of sqrt(r^2 t^2 + b t + c) over [0,1] *)
Lemma qS_is_RInt : is_RInt (qS r b c) 0 1 (qF r b c 1 - qF r b c 0).
Proof.
  apply (is_RInt_derive (qF r b c) (qS r b c) 0 1).
  - intros x _. apply qF_derive; assumption.
  - intros x _. apply qS_continuous.
Qed.

(** what the code evaluates (a = r^2, a2 = 1/r, a32 = 1/r^3, c2 = 2 sqrt c, sabc = sqrt(a+b+c)) is
    twice F(1) - F(0) *)
Lemma closed_form_algebra :
  let a := r * r in
  let a2 := / r in
  let a32 := a2 * (a2 * (a2 * 1)) in
  let sabc := sqrt (a + b + c) in
  let c2 := 2 * sqrt c in
  let ba_c2 := b * a2 + c2 in
  let v0 := / 4 * a2 * a2 * b * (2 * sabc - c2) + sabc in
  0 < ba_c2 /\
  v0 + / 4 * a32 * (4 * c * a - b * b) * ln (((2 * a + b) * a2 + 2 * sabc) / ba_c2)
  = 2 * (qF r b c 1 - qF r b c 0).
Proof.
  intros a a2 a32 sabc c2 ba_c2 v0.
  pose proof (qL_pos r b c Hr HD 1) as HL1. pose proof (qL_pos r b c Hr HD 0) as HL0.
  assert (Hs1 : qS r b c 1 = sabc). { unfold qS, qP, sabc, a. f_equal. ring. }
  assert (Hs0 : qS r b c 0 = sqrt c). { unfold qS, qP. f_equal. ring. }
  assert (HL1' : qL r b c 1 = r * ((2 * a + b) * a2 + 2 * sabc)).
  { unfold qL. rewrite Hs1. unfold a, a2. field. lra. }
  assert (HL0' : qL r b c 0 = r * ba_c2).
  { unfold qL. rewrite Hs0. unfold ba_c2, c2, a2. field. lra. }
  assert (Hba : 0 < ba_c2). { rewrite HL0' in HL0. nra. }
  split; [exact Hba|].
  assert (Hnum : 0 < (2 * a + b) * a2 + 2 * sabc). { rewrite HL1' in HL1. nra. }
  replace (((2 * a + b) * a2 + 2 * sabc) / ba_c2) with (qL r b c 1 / qL r b c 0)
    by (rewrite HL1', HL0'; field; lra).
  rewrite ln_div by assumption.
  unfold qF. rewrite Hs1, Hs0. unfold v0, a32, c2, a2, a. field. lra.
Qed.
End ClosedForm.

(** ** the model of QuadBez::arclen (repaired code), main branch *)
Definition q_d2 (q : QuadBez R) : Vec2 R :=
  v_add (v_sub (to_vec2 (q0 q)) (s_scale_v f2 (to_vec2 (q1 q)))) (to_vec2 (q2 q)).
Definition q_d1 (q : QuadBez R) : Vec2 R := pt_sub (q1 q) (q0 q).
(** the code's a, b, c: a = |p0 - 2 p1 + p2|^2, b = 2 (p0 - 2 p1 + p2).(p1 - p0), c = |p1 - p0|^2 *)
Definition q_a (q : QuadBez R) : R := v_hypot2 (q_d2 q).
Definition q_c (q : QuadBez R) : R := v_hypot2 (q_d1 q).
Definition q_b (q : QuadBez R) : R := (f2 * v_dot (q_d2 q) (q_d1 q))%S.

(** the expression of the main branch, operation by operation as in the model *)
Definition q_main (a b c : R) : R :=
  (let sabc := fsqrt (fmax (a + b + c) f0) in
   let a2 := fpowf a al_mhalf in
   let a32 := fpowi a2 3 in
   let c2 := f2 * fsqrt c in
   let ba_c2 := b * a2 + c2 in
   let v0 := al_quarter * a2 * a2 * b * (f2 * sabc - c2) + sabc in
   v0 + al_quarter * a32 * (al_4 * c * a - b * b) * fln (((f2 * a + b) * a2 + f2 * sabc) / ba_c2))%S.

Definition q_v0 (a b c : R) : R :=
  (let sabc := fsqrt (fmax (a + b + c) f0) in
   let a2 := fpowf a al_mhalf in
   let c2 := f2 * fsqrt c in
   al_quarter * a2 * a2 * b * (f2 * sabc - c2) + sabc)%S.

Lemma quad_arclen_main_branch (q : QuadBez R) :
  snd (quad_arclen_b q) = QClosed -> quad_arclen q = q_main (q_a q) (q_b q) (q_c q).
Proof.
  unfold quad_arclen, quad_arclen_b, quad_arclen_gen. cbv beta iota zeta.
  fold (q_d2 q). fold (q_d1 q). fold (q_a q). fold (q_c q). fold (q_b q).
  destruct (q_a q <=? al_5em4 * q_c q)%S; cbn [snd fst]; [discriminate|].
  match goal with |- context [if ?cnd then _ else _] => destruct cnd end; cbn [snd fst]; [discriminate|].
  intros _. reflexivity.
Qed.

Lemma quad_arclen_kink_branch (q : QuadBez R) :
  snd (quad_arclen_b q) = QKink -> quad_arclen q = q_v0 (q_a q) (q_b q) (q_c q).
Proof.
  unfold quad_arclen, quad_arclen_b, quad_arclen_gen. cbv beta iota zeta.
  fold (q_d2 q). fold (q_d1 q). fold (q_a q). fold (q_c q). fold (q_b q).
  destruct (q_a q <=? al_5em4 * q_c q)%S; cbn [snd fst]; [discriminate|].
  match goal with |- context [if ?cnd then _ else _] => destruct cnd end; cbn [snd fst]; [|discriminate].
  intros _. reflexivity.
Qed.

(** a^(-1/2) over the reals *)
Lemma powf_mhalf (a : R) : 0 < a -> @fpowf R RS a al_mhalf = / sqrt a.
Proof.
  intros Ha. unfold al_mhalf. rs_unfold. unfold Rpowf.
  assert (Hq : Q2R (-1 # 2) = - / 2) by (unfold Q2R; simpl; lra).
  rewrite Hq. destruct (Req_EM_T (- / 2) 0) as [H0|_]; [lra|].
  destruct (Rlt_dec 0 a) as [_|Hn]; [|contradiction].
  rewrite Rpower_Ropp, Rpower_sqrt by assumption. reflexivity.
Qed.

Lemma q_main_value (a b c : R) :
  0 < a -> 0 < 4 * a * c - b * b ->
  q_main a b c = 2 * (qF (sqrt a) b c 1 - qF (sqrt a) b c 0).
Proof.
  intros Ha HD. unfold q_main. cbv zeta. rewrite (powf_mhalf a Ha).
  assert (Hr : 0 < sqrt a) by (apply sqrt_lt_R0; assumption).
  assert (Hrr : sqrt a * sqrt a = a) by (apply sqrt_sqrt; lra).
  set (r := sqrt a) in *. clearbody r. subst a.
  assert (HD' : 0 < 4 * (r * r) * c - b * b) by lra.
  pose proof (qP_pos r b c Hr HD' 1) as HP1. unfold qP in HP1.
  destruct (closed_form_algebra r b c Hr HD') as [_ H]. cbv zeta in H. rewrite <- H.
  unfold al_quarter, al_4. rs_unfold. cbv [Q2R Qnum Qden].
  rewrite Rmax_left by lra. simpl powerRZ. ring.
Qed.

Lemma quad_speed (q : QuadBez R) (t : R) :
  speed (SegQuad q) t = 2 * sqrt (q_a q * (t * t) + q_b q * t + q_c q).
Proof.
  destruct q as [[x0 y0] [x1 y1] [x2 y2]]. unfold q_a, q_b, q_c, q_d2, q_d1. arc_unfold.
  match goal with |- sqrt ?L = 2 * sqrt ?P =>
    replace L with ((2 * 2) * P) by ring; rewrite sqrt_mult_alt by lra; rewrite sqrt_square by lra; reflexivity
  end.
Qed.

Definition q_cross (q : QuadBez R) : R := v_cross (pt_sub (q1 q) (q0 q)) (pt_sub (q2 q) (q1 q)).

Lemma quad_disc (q : QuadBez R) :
  4 * q_a q * q_c q - q_b q * q_b q = 4 * (q_cross q * q_cross q).
Proof.
  destruct q as [[x0 y0] [x1 y1] [x2 y2]]. unfold q_a, q_b, q_c, q_d2, q_d1, q_cross. arc_unfold. ring.
Qed.

Lemma q_a_nonneg (q : QuadBez R) : 0 <= q_a q.
Proof. unfold q_a, v_hypot2, v_dot. rs_unfold. nra. Qed.

(** the integral of the speed in closed form, for non-collinear control points *)
Lemma quad_true_len_closed (q : QuadBez R) :
  q_cross q <> 0 ->
  0 < q_a q /\
  true_len (SegQuad q) = 2 * (qF (sqrt (q_a q)) (q_b q) (q_c q) 1 - qF (sqrt (q_a q)) (q_b q) (q_c q) 0).
Proof.
  intros Hx. pose proof (quad_disc q) as Hd. pose proof (q_a_nonneg q) as Ha0.
  assert (Hx2 : 0 < q_cross q * q_cross q) by nra.
  assert (Ha : 0 < q_a q) by (destruct Ha0 as [H|H]; [exact H | rewrite <- H in Hd; nra]).
  split; [exact Ha|].
  assert (Hr : 0 < sqrt (q_a q)) by (apply sqrt_lt_R0; assumption).
  assert (Hrr : sqrt (q_a q) * sqrt (q_a q) = q_a q) by (apply sqrt_sqrt; lra).
  assert (HD : 0 < 4 * (sqrt (q_a q) * sqrt (q_a q)) * q_c q - q_b q * q_b q) by (rewrite Hrr; lra).
  unfold true_len, true_len_range.
  transitivity (RInt (V:=R_CompleteNormedModule) (fun t => scal 2 (qS (sqrt (q_a q)) (q_b q) (q_c q) t)) 0 1).
  - apply RInt_ext. intros t _. rewrite quad_speed. unfold qS, qP. rewrite Hrr. reflexivity.
  - apply is_RInt_unique. apply (is_RInt_scal (V:=R_CompleteNormedModule)). apply qS_is_RInt; assumption.
Qed.

(** MAIN: in the main branch of QuadBez::arclen (as the code tests it), for control points that are not
    collinear, the value the model computes is the integral of the speed over [0,1] *)
Lemma quad_arclen_closed_form (q : QuadBez R) :
  snd (quad_arclen_b q) = QClosed -> q_cross q <> 0 -> quad_arclen q = true_len (SegQuad q).
Proof.
  intros Hbr Hx. rewrite (quad_arclen_main_branch q Hbr).
  destruct (quad_true_len_closed q Hx) as [Ha ->].
  apply q_main_value; [exact Ha|]. rewrite quad_disc. pose proof (quad_disc q). nra.
Qed.

(** ** the sharp-kink branch: for collinear control points the speed is 2 r |t - t0| and v0 is its integral *)
Ltac req := match goal with |- ?x = ?y => change (@eq R x y) end.

Lemma lin_RInt (k t0 al be : R) :
  RInt (fun t => k * (t - t0)) al be = k / 2 * ((be - t0) * (be - t0) - (al - t0) * (al - t0)).
Proof.
  apply is_RInt_unique.
  replace (k / 2 * ((be - t0) * (be - t0) - (al - t0) * (al - t0)))
    with (minus ((fun t => k / 2 * ((t - t0) * (t - t0))) be) ((fun t => k / 2 * ((t - t0) * (t - t0))) al))
    by (unfold minus, plus, opp; simpl; ring).
  apply (is_RInt_derive (fun t => k / 2 * ((t - t0) * (t - t0))) (fun t => k * (t - t0))).
  - intros x _. auto_derive; [trivial | field].
  - intros x _. apply (ex_derive_continuous (fun t => k * (t - t0))). auto_derive. trivial.
Qed.

Lemma abs_lin_ex_RInt (r t0 al be : R) : ex_RInt (fun t => 2 * (r * Rabs (t - t0))) al be.
Proof.
  apply (ex_RInt_continuous (V:=R_CompleteNormedModule)). intros z _.
  apply (continuous_scal_r (K:=R_AbsRing) (V:=R_NormedModule) 2 (fun t => r * Rabs (t - t0))).
  apply (continuous_scal_r (K:=R_AbsRing) (V:=R_NormedModule) r (fun t => Rabs (t - t0))).
  apply continuous_comp; [|apply continuous_Rabs].
  apply (ex_derive_continuous (fun t => t - t0)). auto_derive. trivial.
Qed.

Lemma abs_lin_RInt_pos (r t0 al be : R) : t0 <= al -> al <= be ->
  RInt (fun t => 2 * (r * Rabs (t - t0))) al be = r * ((be - t0) * (be - t0) - (al - t0) * (al - t0)).
Proof.
  intros H1 H2. rewrite (RInt_ext _ (fun t => (2 * r) * (t - t0))).
  - etransitivity; [apply lin_RInt | match goal with |- ?x = ?y => change (@eq R x y) end; field].
  - intros x Hx. rewrite Rmin_left, Rmax_right in Hx by lra. rewrite Rabs_pos_eq by lra. req. ring.
Qed.

Lemma abs_lin_RInt_neg (r t0 al be : R) : be <= t0 -> al <= be ->
  RInt (fun t => 2 * (r * Rabs (t - t0))) al be = r * ((al - t0) * (al - t0) - (be - t0) * (be - t0)).
Proof.
  intros H1 H2. rewrite (RInt_ext _ (fun t => (- (2 * r)) * (t - t0))).
  - etransitivity; [apply lin_RInt | match goal with |- ?x = ?y => change (@eq R x y) end; field].
  - intros x Hx. rewrite Rmin_left, Rmax_right in Hx by lra. rewrite Rabs_left1 by lra. req. ring.
Qed.

Lemma abs_lin_RInt (r t0 : R) :
  RInt (fun t => 2 * (r * Rabs (t - t0))) 0 1 = r * ((1 - t0) * Rabs (1 - t0) + t0 * Rabs t0).
Proof.
  destruct (Rle_lt_dec t0 0) as [H0|H0].
  - rewrite abs_lin_RInt_pos by lra. rewrite (Rabs_pos_eq (1 - t0)), (Rabs_left1 t0) by lra. req. ring.
  - destruct (Rle_lt_dec 1 t0) as [H1|H1].
    + rewrite abs_lin_RInt_neg by lra. rewrite (Rabs_left1 (1 - t0)), (Rabs_pos_eq t0) by lra. req. ring.
    + rewrite <- (RInt_Chasles (V:=R_CompleteNormedModule) _ 0 t0 1) by apply abs_lin_ex_RInt.
      rewrite abs_lin_RInt_neg, abs_lin_RInt_pos by lra.
      rewrite (Rabs_pos_eq (1 - t0)), (Rabs_pos_eq t0) by lra. unfold plus; simpl. req. ring.
Qed.

Lemma sqrt_sq_abs (x : R) : sqrt (x * x) = Rabs x.
Proof. apply sqrt_Rsqr_abs. Qed.

Lemma quad_arclen_kink_facts (q : QuadBez R) :
  snd (quad_arclen_b q) = QKink -> 0 < q_a q /\ quad_arclen q = q_v0 (q_a q) (q_b q) (q_c q).
Proof.
  intros H. split; [|apply quad_arclen_kink_branch; exact H]. revert H.
  unfold quad_arclen_b, quad_arclen_gen. cbv beta iota zeta.
  fold (q_d2 q). fold (q_d1 q). fold (q_a q). fold (q_c q). fold (q_b q).
  change (@fleb R RS (q_a q) (al_5em4 * q_c q)%S) with (Rleb (q_a q) (Q2R (1 # 2000) * q_c q)).
  destruct (Rleb_spec (q_a q) (Q2R (1 # 2000) * q_c q)) as [Hle|Hgt]; cbn [snd]; [discriminate|].
  intros _. assert (0 <= q_c q) by (unfold q_c, v_hypot2, v_dot; rs_unfold; nra).
  assert (0 < Q2R (1 # 2000)) by (unfold Q2R; simpl; lra). nra.
Qed.

(** collinear control points (4ac = b^2, a > 0): with t0 = -b/(2a), r = sqrt a *)
Lemma q_v0_value (a b c : R) :
  0 < a -> 4 * a * c - b * b = 0 ->
  let r := sqrt a in let t0 := - b / (2 * a) in
  q_v0 a b c = r * ((1 - t0) * Rabs (1 - t0) + t0 * Rabs t0) /\
  forall t, 2 * sqrt (a * (t * t) + b * t + c) = 2 * (r * Rabs (t - t0)).
Proof.
  intros Ha HD. cbv zeta. unfold q_v0. cbv zeta. rewrite (powf_mhalf a Ha).
  assert (Hr : 0 < sqrt a) by (apply sqrt_lt_R0; assumption).
  assert (Hrr : sqrt a * sqrt a = a) by (apply sqrt_sqrt; lra).
  set (r := sqrt a) in *. clearbody r. subst a.
  assert (Hb : b = - 2 * (r * r) * (- b / (2 * (r * r)))) by (field; lra).
  set (t0 := - b / (2 * (r * r))) in *.
  assert (Hc : c = (r * t0) * (r * t0)).
  { assert (H4 : 4 * (r * r) * c = b * b) by lra.
    assert (Hc0 : c = (4 * (r * r) * c) / (4 * (r * r))) by (field; lra).
    rewrite Hc0, H4. unfold t0. field. lra. }
  clearbody t0. subst b c.
  split.
  - unfold al_quarter. rs_unfold. cbv [Q2R Qnum Qden].
    replace (r * r + - 2 * (r * r) * t0 + r * t0 * (r * t0)) with ((r * (1 - t0)) * (r * (1 - t0))) by ring.
    rewrite Rmax_left by (apply (Rle_0_sqr (r * (1 - t0)))). rewrite !sqrt_sq_abs, !Rabs_mult, (Rabs_pos_eq r) by lra. field. lra.
  - intros t.
    replace (r * r * (t * t) + - 2 * (r * r) * t0 * t + r * t0 * (r * t0)) with ((r * (t - t0)) * (r * (t - t0))) by ring.
    rewrite sqrt_sq_abs, Rabs_mult, (Rabs_pos_eq r) by lra. reflexivity.
Qed.

(** KINK: in the sharp-kink branch (as the code tests it), for collinear control points, the value v0 the
    model returns is the integral of the speed over [0,1] *)
Lemma quad_arclen_kink_form (q : QuadBez R) :
  snd (quad_arclen_b q) = QKink -> q_cross q = 0 -> quad_arclen q = true_len (SegQuad q).
Proof.
  intros Hbr Hx. destruct (quad_arclen_kink_facts q Hbr) as [Ha ->].
  assert (HD : 4 * q_a q * q_c q - q_b q * q_b q = 0) by (rewrite quad_disc, Hx; ring).
  destruct (q_v0_value (q_a q) (q_b q) (q_c q) Ha HD) as [Hv Hs]. cbv zeta in Hv, Hs.
  rewrite Hv. unfold true_len, true_len_range.
  rewrite (RInt_ext _ (fun t => 2 * (sqrt (q_a q) * Rabs (t - - q_b q / (2 * q_a q))))).
  - symmetry. apply abs_lin_RInt.
  - intros t _. rewrite quad_speed. apply Hs.
Qed.

(** ** the near-straight branch is the 3-point Gauss-Legendre rule *)
(** the expression of the branch with constants k0..k3 *)
Definition q_gauss3 (k0 k1 k2 k3 : R) (q : QuadBez R) : R :=
  let p0 := to_vec2 (q0 q) in let p1 := to_vec2 (q1 q) in let p2 := to_vec2 (q2 q) in
  v_hypot (v_add (v_add (s_scale_v (- k0) p0) (s_scale_v k1 p1)) (s_scale_v k2 p2))
  + v_hypot (v_scale (pt_sub (q2 q) (q0 q)) k3)
  + v_hypot (v_add (v_sub (s_scale_v (- k2) p0) (s_scale_v k1 p1)) (s_scale_v k0 p2)).

Lemma quad_arclen_straight_branch (q : QuadBez R) :
  snd (quad_arclen_b q) = QStraight ->
  quad_arclen q = q_gauss3 (Q2R (492943519233745 # 1000000000000000)) (Q2R (430331482911935 # 1000000000000000))
                           (Q2R (626120363218102 # 10000000000000000)) (Q2R (4444444444444444 # 10000000000000000)) q.
Proof.
  unfold quad_arclen, quad_arclen_b, quad_arclen_gen. cbv beta iota zeta.
  fold (q_d2 q). fold (q_d1 q). fold (q_a q). fold (q_c q). fold (q_b q).
  destruct (q_a q <=? al_5em4 * q_c q)%S; cbn [snd fst].
  - intros _. reflexivity.
  - match goal with |- context [if ?cnd then _ else _] => destruct cnd end; cbn [snd]; discriminate.
Qed.

Lemma sqrt_scale_pos (w u v : R) : 0 <= w -> w * sqrt (u * u + v * v) = sqrt ((w * u) * (w * u) + (w * v) * (w * v)).
Proof. intros Hw. rewrite sqrt_scale, Rabs_pos_eq by assumption. reflexivity. Qed.

(** with the exact Gauss-Legendre constants (s = sqrt(3/5)) the expression is the 3-point rule on [0,1]:
    nodes (1 -+ s)/2 and 1/2, weights 5/18, 8/18, 5/18, applied to the speed *)
Lemma gauss3_is_rule (q : QuadBez R) :
  let s := sqrt (3 / 5) in
  q_gauss3 (5 / 18 * (1 + s)) (5 / 9 * s) (5 / 18 * (1 - s)) (4 / 9) q
  = 5 / 18 * speed (SegQuad q) ((1 - s) / 2) + 8 / 18 * speed (SegQuad q) (/ 2)
    + 5 / 18 * speed (SegQuad q) ((1 + s) / 2).
Proof.
  intros s. assert (Hs : 0 <= s) by apply sqrt_pos. clearbody s.
  destruct q as [[x0 y0] [x1 y1] [x2 y2]]. unfold q_gauss3. cbv zeta. rewrite !v_hypot_R. arc_unfold.
  repeat match goal with
  | |- context [?w * sqrt (?u * ?u + ?v * ?v)] => rewrite (sqrt_scale_pos w u v) by lra
  end.
  f_equal; [f_equal|]; f_equal; field.
Qed.

(** the decimal constants of the source are the Gauss-Legendre values to 1e-15 *)
Lemma gauss3_constants :
  let s := sqrt (3 / 5) in
  Rabs (Q2R (492943519233745 # 1000000000000000) - 5 / 18 * (1 + s)) <= / 10 ^ 15 /\
  Rabs (Q2R (430331482911935 # 1000000000000000) - 5 / 9 * s) <= / 10 ^ 15 /\
  Rabs (Q2R (626120363218102 # 10000000000000000) - 5 / 18 * (1 - s)) <= / 10 ^ 15 /\
  Rabs (Q2R (4444444444444444 # 10000000000000000) - 4 / 9) <= / 10 ^ 15.
Proof.
  cbv zeta. unfold Q2R. cbn [Qnum Qden].
  repeat split; interval with (i_prec 100).
Qed.

(** ** non-vacuity: concrete quadratics in each branch *)
Definition quad_ex_main : QuadBez R := mkQuad (mkPoint 0 0) (mkPoint 1 0) (mkPoint 1 1).
Definition quad_ex_kink : QuadBez R := mkQuad (mkPoint 0 0) (mkPoint 1 0) (mkPoint (/ 2) 0).
Definition quad_ex_straight : QuadBez R := mkQuad (mkPoint 0 0) (mkPoint 1 0) (mkPoint 2 0).

Lemma quad_branch_eq (q : QuadBez R) :
  snd (quad_arclen_b q) =
  if Rleb (q_a q) (Q2R (1 # 2000) * q_c q) then QStraight
  else if Rleb (q_b q * @fpowf R RS (q_a q) al_mhalf + 2 * sqrt (q_c q))
               (Q2R (1 # 100000000000000) * (2 * sqrt (q_c q))) then QKink else QClosed.
Proof.
  unfold quad_arclen_b, quad_arclen_gen. cbv beta iota zeta.
  fold (q_d2 q). fold (q_d1 q). fold (q_a q). fold (q_c q). fold (q_b q).
  change (@fleb R RS (q_a q) (al_5em4 * q_c q)%S) with (Rleb (q_a q) (Q2R (1 # 2000) * q_c q)).
  destruct (Rleb (q_a q) (Q2R (1 # 2000) * q_c q)); cbn [snd]; [reflexivity|].
  match goal with |- snd (if ?cnd then _ else _) = _ =>
    change cnd with (Rleb (q_b q * @fpowf R RS (q_a q) al_mhalf + 2 * sqrt (q_c q))
                          (Q2R (1 # 100000000000000) * (2 * sqrt (q_c q)))) end.
  destruct (Rleb _ _); reflexivity.
Qed.

Lemma quad_ex_main_abc : q_a quad_ex_main = 2 /\ q_b quad_ex_main = -2 /\ q_c quad_ex_main = 1 /\ q_cross quad_ex_main = 1.
Proof. unfold q_a, q_b, q_c, q_cross, q_d2, q_d1, quad_ex_main. arc_unfold. repeat split; ring. Qed.

Lemma quad_ex_main_ok : snd (quad_arclen_b quad_ex_main) = QClosed /\ q_cross quad_ex_main <> 0.
Proof.
  destruct quad_ex_main_abc as [Ha [Hb [Hc Hx]]]. split; [|rewrite Hx; lra].
  rewrite quad_branch_eq, Ha, Hb, Hc, (powf_mhalf 2) by lra. unfold Q2R; cbn [Qnum Qden].
  destruct (Rleb_spec 2 (1 * / 2000 * 1)) as [H|_]; [lra|].
  destruct (Rleb_spec (-2 * / sqrt 2 + 2 * sqrt 1) (1 * / 100000000000000 * (2 * sqrt 1))) as [H|_]; [|reflexivity].
  exfalso. revert H. apply Rlt_not_le. interval.
Qed.

Lemma quad_ex_kink_abc : q_a quad_ex_kink = 9 / 4 /\ q_b quad_ex_kink = -3 /\ q_c quad_ex_kink = 1 /\ q_cross quad_ex_kink = 0.
Proof. unfold q_a, q_b, q_c, q_cross, q_d2, q_d1, quad_ex_kink. arc_unfold. repeat split; field. Qed.

Lemma quad_ex_kink_ok : snd (quad_arclen_b quad_ex_kink) = QKink /\ q_cross quad_ex_kink = 0.
Proof.
  destruct quad_ex_kink_abc as [Ha [Hb [Hc Hx]]]. split; [|exact Hx].
  rewrite quad_branch_eq, Ha, Hb, Hc, (powf_mhalf (9 / 4)) by lra. unfold Q2R; cbn [Qnum Qden].
  destruct (Rleb_spec (9 / 4) (1 * / 2000 * 1)) as [H|_]; [lra|].
  replace (sqrt (9 / 4)) with (3 / 2) by (symmetry; replace (9 / 4) with ((3 / 2) * (3 / 2)) by field; apply sqrt_square; lra).
  rewrite sqrt_1.
  destruct (Rleb_spec (-3 * / (3 / 2) + 2 * 1) (1 * / 100000000000000 * (2 * 1))) as [_|H]; [reflexivity|].
  exfalso. apply H. replace (-3 * / (3 / 2) + 2 * 1) with 0 by field. lra.
Qed.

Lemma quad_ex_straight_ok : snd (quad_arclen_b quad_ex_straight) = QStraight.
Proof.
  rewrite quad_branch_eq.
  assert (Ha : q_a quad_ex_straight = 0) by (unfold q_a, q_d2, quad_ex_straight; arc_unfold; ring).
  assert (Hc : q_c quad_ex_straight = 1) by (unfold q_c, q_d1, quad_ex_straight; arc_unfold; ring).
  rewrite Ha, Hc. unfold Q2R; cbn [Qnum Qden].
  destruct (Rleb_spec 0 (1 * / 2000 * 1)) as [_|H]; [reflexivity | exfalso; lra].
Qed.

(** ** combined statements of Properties/C03_quadform.v *)
Lemma quad_near_straight_is_gauss3 : forall q : QuadBez R,
  let s := sqrt (3 / 5) in
  let k0 := Q2R (492943519233745 # 1000000000000000) in
  let k1 := Q2R (430331482911935 # 1000000000000000) in
  let k2 := Q2R (626120363218102 # 10000000000000000) in
  let k3 := Q2R (4444444444444444 # 10000000000000000) in
  (snd (quad_arclen_b q) = QStraight -> quad_arclen q = q_gauss3 k0 k1 k2 k3 q) /\
  q_gauss3 (5 / 18 * (1 + s)) (5 / 9 * s) (5 / 18 * (1 - s)) (4 / 9) q
    = 5 / 18 * speed (SegQuad q) ((1 - s) / 2) + 8 / 18 * speed (SegQuad q) (/ 2)
      + 5 / 18 * speed (SegQuad q) ((1 + s) / 2) /\
  Rabs (k0 - 5 / 18 * (1 + s)) <= / 10 ^ 15 /\ Rabs (k1 - 5 / 9 * s) <= / 10 ^ 15 /\
  Rabs (k2 - 5 / 18 * (1 - s)) <= / 10 ^ 15 /\ Rabs (k3 - 4 / 9) <= / 10 ^ 15.
Proof.
  intros q. cbv zeta. split; [apply quad_arclen_straight_branch|]. split; [apply gauss3_is_rule|].
  exact gauss3_constants.
Qed.

Lemma quad_branch_examples :
  (snd (quad_arclen_b quad_ex_main) = QClosed /\ q_cross quad_ex_main <> 0) /\
  (snd (quad_arclen_b quad_ex_kink) = QKink /\ q_cross quad_ex_kink = 0) /\
  snd (quad_arclen_b quad_ex_straight) = QStraight.
Proof. split; [exact quad_ex_main_ok|]. split; [exact quad_ex_kink_ok | exact quad_ex_straight_ok]. Qed.

Lemma quad_antiderivative : forall r b c : R,
  0 < r -> 0 < 4 * (r * r) * c - b * b ->
  (forall t, is_derive (qF r b c) t (qS r b c t)) /\ is_RInt (qS r b c) 0 1 (qF r b c 1 - qF r b c 0).
Proof. intros r b c Hr HD. split; [intros t; apply qF_derive; assumption | apply qS_is_RInt; assumption]. Qed.
