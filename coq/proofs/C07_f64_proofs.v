(** C07 on binary64 itself. The C07 theorems (C07_proofs.v) are proved for any scalar whose point comparison
    reflects Leibniz equality; [PrimFloat.eqb] does not (NaN <> NaN, -0 = +0). On the binary64 numbers that are
    neither NaN nor -0 ("canonical": +0, subnormals, both infinities included) it does. The element/segment
    functions only MOVE points and COMPARE them, so they commute with any coordinate map that preserves the
    comparison (naturality, first section). Taking the inclusion of the canonical numbers (a sigma type
    carrying a scalar structure of which only [feqb] matters) into [float] transports the generic theorems to
    the [F64] instance: for every path all of whose coordinates are canonical, with Leibniz equality of the
    resulting segments. A -0 coordinate genuinely breaks bit-level equality (witnesses at the end); it is
    harmless numerically. *)
From Coq Require Import ZArith Reals List Bool Floats Lia Eqdep_dec.
From Flocq Require Import IEEE754.BinarySingleNaN IEEE754.PrimFloat.
From KV Require Import Scalar RInst F64 Geom Curves Path PathOps PathSpec C07_proofs F64_exact.
Import ListNotations.

(** * naturality of the element/segment functions *)
Section Nat.
Context {A B : Type} {SA : Scalar A} {SB : Scalar B} (g : A -> B).
Hypothesis Hg : forall x y, feqb (g x) (g y) = feqb x y.

Definition mP (p : Point A) : Point B := mkPoint (g (px p)) (g (py p)).
Definition mE (e : PathEl A) : PathEl B :=
  match e with
  | MoveTo p => MoveTo (mP p)
  | LineTo p => LineTo (mP p)
  | QuadTo a b => QuadTo (mP a) (mP b)
  | CurveTo a b c => CurveTo (mP a) (mP b) (mP c)
  | ClosePath => ClosePath
  end.
Definition mS (s : PathSeg A) : PathSeg B :=
  match s with
  | SegLine l => SegLine (mkLine (mP (l0 l)) (mP (l1 l)))
  | SegQuad q => SegQuad (mkQuad (mP (q0 q)) (mP (q1 q)) (mP (q2 q)))
  | SegCubic c => SegCubic (mkCubic (mP (c0 c)) (mP (c1 c)) (mP (c2 c)) (mP (c3 c)))
  end.
Definition mPP (sl : Point A * Point A) : Point B * Point B := (mP (fst sl), mP (snd sl)).

Lemma pt_eqb_nat a b : pt_eqb (mP a) (mP b) = pt_eqb a b.
Proof. unfold pt_eqb, mP. cbn [px py]. rewrite !Hg. reflexivity. Qed.
Lemma pt_neb_nat a b : pt_neb (mP a) (mP b) = pt_neb a b.
Proof. unfold pt_neb. rewrite pt_eqb_nat. reflexivity. Qed.
Lemma el_end_nat e : el_end (mE e) = option_map mP (el_end e).
Proof. destruct e; reflexivity. Qed.

Definition mStep (r : (Point A * Point A) * option (PathSeg A)) := (mPP (fst r), option_map mS (snd r)).
Lemma seg_step_nat st e :
  seg_step (option_map mPP st) (mE e) = option_map mStep (seg_step st e).
Proof.
  unfold seg_step. rewrite el_end_nat.
  destruct st as [[s l]|]; cbn [option_map mPP fst snd].
  - destruct e; cbn [mE]; try reflexivity. rewrite pt_neb_nat. destruct (pt_neb l s); reflexivity.
  - destruct (el_end e) as [p|] eqn:E; cbn [option_map]; [|reflexivity].
    destruct e; cbn [mE]; try reflexivity; try discriminate E.
Qed.
Lemma outs_from_nat : forall els st,
  outs_from (option_map mPP st) (map mE els) = option_map (map (option_map mS)) (outs_from st els).
Proof.
  induction els as [|e r IH]; intros st; [reflexivity|]. cbn [map outs_from].
  rewrite seg_step_nat. destruct (seg_step st e) as [[st' out]|]; cbn [option_map mStep fst snd]; [|reflexivity].
  pose proof (IH (Some st')) as I. cbn [option_map] in I. rewrite I. destruct (outs_from (Some st') r); reflexivity.
Qed.
Lemma segs_from_nat : forall els st,
  segs_from (option_map mPP st) (map mE els) = option_map (map mS) (segs_from st els).
Proof.
  induction els as [|e r IH]; intros st; [reflexivity|]. cbn [map segs_from].
  rewrite seg_step_nat. destruct (seg_step st e) as [[st' out]|]; cbn [option_map mStep fst snd]; [|reflexivity].
  pose proof (IH (Some st')) as I. cbn [option_map] in I. rewrite I.
  destruct (segs_from (Some st') r); [|reflexivity]. destruct out; reflexivity.
Qed.
Lemma outs_from_nat0 els :
  outs_from None (map mE els) = option_map (map (option_map mS)) (outs_from None els).
Proof. apply (outs_from_nat els None). Qed.
Lemma segments_nat els : segments (map mE els) = option_map (map mS) (segments els).
Proof. apply (segs_from_nat els None). Qed.
Lemma cat_somes_nat (l : list (option (PathSeg A))) : cat_somes (map (option_map mS) l) = map mS (cat_somes l).
Proof.
  induction l as [|[s|] r IH]; [reflexivity| |exact IH].
  unfold cat_somes in *. cbn [map flat_map option_map app]. rewrite IH. reflexivity.
Qed.

Lemma find_map_nat {X Y X' Y'} (fx : X -> X') (fy : Y -> Y') (f : X -> option Y) (f' : X' -> option Y') :
  (forall x, f' (fx x) = option_map fy (f x)) ->
  forall l, find_map f' (map fx l) = option_map fy (find_map f l).
Proof.
  intros H. induction l as [|x r IH]; [reflexivity|]. cbn [map find_map]. rewrite H.
  destruct (f x); [reflexivity|exact IH].
Qed.
Lemma subpath_start_nat els i : subpath_start (map mE els) i = option_map mP (subpath_start els i).
Proof.
  unfold subpath_start. rewrite firstn_map, <- map_rev.
  apply find_map_nat. intros [p|p|a b|a b c|]; reflexivity.
Qed.
Lemma nth_error_nat els i : nth_error (map mE els) i = option_map mE (nth_error els i).
Proof. apply nth_error_map. Qed.
Lemma get_seg_req_nat els i : get_seg_req (map mE els) i = option_map mS (get_seg_req els i).
Proof.
  unfold get_seg_req. rewrite map_length, !nth_error_nat, subpath_start_nat.
  destruct (_ || _); [reflexivity|].
  destruct (nth_error els (i - 1)) as [prev|]; cbn [option_map]; [|reflexivity].
  rewrite el_end_nat.
  assert (E : match option_map mP (el_end prev) with Some p => Some p | None => option_map mP (subpath_start els i) end
            = option_map mP (match el_end prev with Some p => Some p | None => subpath_start els i end)).
  { destruct (el_end prev); reflexivity. }
  rewrite E. destruct (match el_end prev with Some p => Some p | None => subpath_start els i end) as [last|];
    cbn [option_map]; [|reflexivity].
  destruct (nth_error els i) as [[p|p|a b|a b c|]|]; cbn [option_map mE]; try reflexivity.
  destruct (subpath_start els i) as [s|]; cbn [option_map]; [|reflexivity].
  rewrite pt_neb_nat. destruct (pt_neb s last); reflexivity.
Qed.

Lemma last_moveto_nat : forall pre acc,
  last_moveto (option_map mP acc) (map mE pre) = option_map mP (last_moveto acc pre).
Proof.
  induction pre as [|e r IH]; intros acc; [reflexivity|].
  destruct e; cbn [map mE last_moveto]; try apply IH. apply (IH (Some p)).
Qed.
Lemma cur_start_nat pre : cur_start (map mE pre) = option_map mP (cur_start pre).
Proof. apply (last_moveto_nat pre None). Qed.
Lemma last_map_some {X Y} (f : X -> Y) (l : list X) :
  last (map Some (map f l)) None = option_map f (last (map Some l) None).
Proof.
  induction l as [|x r IH]; [reflexivity|]. destruct r as [|y r']; [reflexivity|]. exact IH.
Qed.
Lemma cur_point_nat pre : cur_point (map mE pre) = option_map mP (cur_point pre).
Proof.
  unfold cur_point. rewrite last_map_some. destruct (last (map Some pre) None) as [e|]; cbn [option_map]; [|reflexivity].
  destruct e; cbn [mE]; try reflexivity. apply cur_start_nat.
Qed.

Lemma seg_start_nat s : seg_start (mS s) = mP (seg_start s). Proof. destruct s; reflexivity. Qed.
Lemma seg_end_nat s : seg_end (mS s) = mP (seg_end s). Proof. destruct s; reflexivity. Qed.
Lemma seg_to_el_nat s : seg_to_el (mS s) = mE (seg_to_el s). Proof. destruct s; reflexivity. Qed.
Lemma fps_loop_nat : forall segs cur acc,
  fps_loop (map mS segs) (option_map mP cur) (map mE acc) = map mE (fps_loop segs cur acc).
Proof.
  induction segs as [|s r IH]; intros cur acc; [reflexivity|]. cbn [map fps_loop].
  rewrite seg_start_nat, seg_end_nat, seg_to_el_nat.
  assert (D : match option_map mP cur with None => true | Some c => pt_neb (mP (seg_start s)) c end
            = match cur with None => true | Some c => pt_neb (seg_start s) c end).
  { destruct cur; cbn [option_map]; [apply pt_neb_nat|reflexivity]. }
  rewrite D. rewrite <- (IH (Some (seg_end s))). f_equal.
  destruct (match cur with None => true | Some c => pt_neb (seg_start s) c end); rewrite !map_app; reflexivity.
Qed.
Lemma from_path_segments_nat segs : from_path_segments (map mS segs) = map mE (from_path_segments segs).
Proof. apply (fps_loop_nat segs None []). Qed.
Lemma starts_with_moveto_nat els : starts_with_moveto (map mE els) <-> starts_with_moveto els.
Proof. destruct els as [|[| | | |] r]; reflexivity. Qed.
Lemma nth_map_opt (l : list (option (PathSeg A))) i :
  nth i (map (option_map mS) l) None = option_map mS (nth i l None).
Proof. change (@None (PathSeg B)) with (option_map mS None). apply map_nth. Qed.
End Nat.

(** * the canonical binary64 numbers: not NaN, not -0 *)
Definition canonb (x : pfloat) : bool :=
  negb (PrimFloat.is_nan x) && negb (PrimFloat.is_zero x && PrimFloat.get_sign x).
Definition canon (x : pfloat) : Prop := canonb x = true.
Definition cfloat : Type := {x : pfloat | canonb x = true}.
Definition cproj (x : cfloat) : pfloat := proj1_sig x.
Definition c0f : cfloat := exist _ 0%float eq_refl.

(** a scalar structure on [cfloat] of which only [feqb] is used (every other operation is a constant);
    the path functions never touch the others *)
Definition eq_only_scalar (T : Type) (d : T) (eqb : T -> T -> bool) : Scalar T := {|
  fadd := fun _ _ => d; fsub := fun _ _ => d; fmul := fun _ _ => d; fdiv := fun _ _ => d;
  fneg := fun _ => d; fabs := fun _ => d; fsqrt := fun _ => d; fmin := fun _ _ => d; fmax := fun _ _ => d;
  ffloor := fun _ => d; fceil := fun _ => d; fround := fun _ => d; ftrunc := fun _ => d;
  fsignum := fun _ => d; fcopysign := fun _ _ => d; ffma := fun _ _ _ => d;
  fltb := fun _ _ => false; fleb := fun _ _ => false; feqb := eqb;
  fis_finite := fun _ => true; fis_nan := fun _ => false;
  fofZ := fun _ => d; flit := fun _ _ => d;
  fhypot := fun _ _ => d; fcbrt := fun _ => d; fsin := fun _ => d; fcos := fun _ => d; ftan := fun _ => d;
  fatan2 := fun _ _ => d; facos := fun _ => d; fln := fun _ => d; fpowf := fun _ _ => d;
  fpowi := fun _ _ => d; fto_usize := fun _ => 0%Z; fpi := d |}.
Definition CF : Scalar cfloat := eq_only_scalar cfloat c0f (fun x y => PrimFloat.eqb (cproj x) (cproj y)).
#[local] Existing Instance CF.

Lemma canon_nn x : canon x -> nn x.
Proof. unfold canon, canonb, nn. intros H. apply andb_true_iff in H. destruct H as [H _]. apply negb_true_iff in H. exact H. Qed.
Lemma canon_eqb x y : canon x -> canon y -> (PrimFloat.eqb x y = true <-> x = y).
Proof.
  intros Cx Cy. pose proof (canon_nn x Cx) as Nx. pose proof (canon_nn y Cy) as Ny.
  split; [|intros ->; rewrite (eqb_xv y y Ny Ny); apply Reqb_true; reflexivity].
  rewrite (eqb_xv x y Nx Ny). intros E. apply Reqb_true in E.
  destruct (Req_dec (xv x) 0) as [Z|Z]; [|apply xv_inj; assumption].
  assert (ZC : forall z, canon z -> xv z = 0%R -> z = 0%float).
  { intros z Cz Zz. pose proof (canon_nn z Cz) as Nz. unfold canon, canonb in Cz. apply andb_true_iff in Cz.
    destruct Cz as [_ Cz]. apply negb_true_iff in Cz.
    rewrite is_zero_equiv, get_sign_equiv in Cz. apply nn_B in Nz. unfold xv in Zz.
    rewrite <- (B2Prim_Prim2B z). pose proof big_pos.
    destruct (Prim2B z) as [[|]|[|]| |s m e Bd]; cbn [xvB is_nan Bsign B2R andb] in *;
      try discriminate; try reflexivity; try (exfalso; Lra.lra).
    exfalso. destruct s.
    - apply (Rlt_irrefl 0). rewrite <- Zz at 1. apply Float_prop.F2R_lt_0. reflexivity.
    - apply (Rlt_irrefl 0). rewrite <- Zz at 2. apply Float_prop.F2R_gt_0. reflexivity. }
  rewrite (ZC x Cx Z), (ZC y Cy); [reflexivity|congruence].
Qed.

Lemma cproj_inj (x y : cfloat) : cproj x = cproj y -> x = y.
Proof. apply eq_sig_hprop. intros z p q. apply UIP_dec. apply bool_dec. Qed.

Lemma CF_eqP : forall a b : Point cfloat, reflect (a = b) (@pt_eqb cfloat CF a b).
Proof.
  intros [[ax Ax] [ay Ay]] [[bx Bx] [by_ By]]. unfold pt_eqb. cbn [px py feqb CF eq_only_scalar cproj proj1_sig].
  destruct (PrimFloat.eqb ax bx) eqn:E1; [destruct (PrimFloat.eqb ay by_) eqn:E2|]; cbn [andb]; constructor.
  - apply (canon_eqb ax bx Ax Bx) in E1. apply (canon_eqb ay by_ Ay By) in E2.
    f_equal; apply cproj_inj; assumption.
  - intros H. injection H as H1 H2. subst by_. rewrite (proj2 (canon_eqb ay ay Ay Ay) eq_refl) in E2. discriminate.
  - intros H. injection H as H1 H2. subst bx. rewrite (proj2 (canon_eqb ax ax Ax Ax) eq_refl) in E1. discriminate.
Qed.

Lemma cproj_feqb : forall x y : cfloat, @feqb pfloat F64 (cproj x) (cproj y) = @feqb cfloat CF x y.
Proof. reflexivity. Qed.

(** lifting canonical float data to [cfloat] *)
Definition canon_pt (p : Point pfloat) : Prop := canon (px p) /\ canon (py p).
Definition canon_el (e : PathEl pfloat) : Prop :=
  match e with
  | MoveTo p | LineTo p => canon_pt p
  | QuadTo a b => canon_pt a /\ canon_pt b
  | CurveTo a b c => canon_pt a /\ canon_pt b /\ canon_pt c
  | ClosePath => True
  end.
Definition canon_seg (s : PathSeg pfloat) : Prop :=
  match s with
  | SegLine l => canon_pt (l0 l) /\ canon_pt (l1 l)
  | SegQuad q => canon_pt (q0 q) /\ canon_pt (q1 q) /\ canon_pt (q2 q)
  | SegCubic c => canon_pt (c0 c) /\ canon_pt (c1 c) /\ canon_pt (c2 c) /\ canon_pt (c3 c)
  end.

Notation cP := (mP cproj). Notation cE := (mE cproj). Notation cS := (mS cproj).

Lemma lift_pt p : canon_pt p -> exists q : Point cfloat, cP q = p.
Proof. destruct p as [x y]. intros [Cx Cy]. exists (mkPoint (exist _ x Cx) (exist _ y Cy)). reflexivity. Qed.
Lemma lift_el e : canon_el e -> exists e' : PathEl cfloat, cE e' = e.
Proof.
  destruct e as [p|p|a b|a b c|]; cbn [canon_el].
  - intros H. destruct (lift_pt p H) as [q <-]. exists (MoveTo q). reflexivity.
  - intros H. destruct (lift_pt p H) as [q <-]. exists (LineTo q). reflexivity.
  - intros [Ha Hb]. destruct (lift_pt a Ha) as [a' <-], (lift_pt b Hb) as [b' <-]. exists (QuadTo a' b'). reflexivity.
  - intros (Ha & Hb & Hc). destruct (lift_pt a Ha) as [a' <-], (lift_pt b Hb) as [b' <-], (lift_pt c Hc) as [c' <-].
    exists (CurveTo a' b' c'). reflexivity.
  - intros _. exists ClosePath. reflexivity.
Qed.
Lemma lift_seg s : canon_seg s -> exists s' : PathSeg cfloat, cS s' = s.
Proof.
  destruct s as [[a b]|[a b c]|[a b c d]]; cbn [canon_seg l0 l1 q0 q1 q2 c0 c1 c2 c3].
  - intros [Ha Hb]. destruct (lift_pt a Ha) as [a' <-], (lift_pt b Hb) as [b' <-].
    exists (SegLine (mkLine a' b')). reflexivity.
  - intros (Ha & Hb & Hc). destruct (lift_pt a Ha) as [a' <-], (lift_pt b Hb) as [b' <-], (lift_pt c Hc) as [c' <-].
    exists (SegQuad (mkQuad a' b' c')). reflexivity.
  - intros (Ha & Hb & Hc & Hd).
    destruct (lift_pt a Ha) as [a' <-], (lift_pt b Hb) as [b' <-], (lift_pt c Hc) as [c' <-], (lift_pt d Hd) as [d' <-].
    exists (SegCubic (mkCubic a' b' c' d')). reflexivity.
Qed.
Lemma lift_list {X Y} (f : X -> Y) (P : Y -> Prop) (H : forall y, P y -> exists x, f x = y) :
  forall l, Forall P l -> exists l', map f l' = l.
Proof.
  induction l as [|y r IH]; intros F; [exists []; reflexivity|].
  inversion F as [|? ? Py Fr]; subst. destruct (H y Py) as [x <-]. destruct (IH Fr) as [r' <-].
  exists (x :: r'). reflexivity.
Qed.
Lemma cP_inj a b : cP a = cP b -> a = b.
Proof.
  destruct a as [ax ay], b as [bx by_]. unfold mP. cbn [px py]. intros H. injection H as H1 H2.
  f_equal; apply cproj_inj; assumption.
Qed.

(** * the C07 theorems at the binary64 instance *)
Notation FEl := (PathEl pfloat).
Notation FSeg := (PathSeg pfloat).

Theorem f_get_seg_req_spec (els : list FEl) : Forall canon_el els -> starts_with_moveto els ->
  exists outs, outs_from None els = Some outs /\
               segments els = Some (cat_somes outs) /\
               length outs = length els /\
               forall i, get_seg_req els i = nth i outs None.
Proof.
  intros Hc Hs. destruct (lift_list cE canon_el lift_el els Hc) as [els' <-].
  apply (starts_with_moveto_nat cproj) in Hs.
  destruct (@get_seg_req_spec cfloat CF CF_eqP els' Hs) as (outs & H1 & H2 & H3 & H4).
  exists (map (option_map cS) outs).
  split; [rewrite (outs_from_nat0 cproj cproj_feqb els'), H1; reflexivity|].
  split; [rewrite (segments_nat cproj cproj_feqb els'), H2, cat_somes_nat; reflexivity|].
  split; [rewrite !map_length; exact H3|].
  intros i. rewrite (get_seg_req_nat cproj cproj_feqb els' i), H4, nth_map_opt. reflexivity.
Qed.

Theorem f_closepath_line_iff (pre post : list FEl) : Forall canon_el pre -> Forall canon_el post ->
  starts_with_moveto pre ->
  exists start cur outs,
    cur_start pre = Some start /\ cur_point pre = Some cur /\
    outs_from None (pre ++ ClosePath :: post) = Some outs /\
    (cur <> start -> nth (length pre) outs None = Some (SegLine (mkLine cur start))) /\
    (cur = start -> nth (length pre) outs None = None) /\
    (pt_eqb cur start = false <-> cur <> start) /\
    cur_point (pre ++ [ClosePath]) = Some start.
Proof.
  intros Hc1 Hc2 Hs. destruct (lift_list cE canon_el lift_el pre Hc1) as [pre' <-].
  destruct (lift_list cE canon_el lift_el post Hc2) as [post' <-].
  apply (starts_with_moveto_nat cproj) in Hs.
  destruct (@closepath_emission cfloat CF CF_eqP pre' post' Hs) as (s & c & outs & H1 & H2 & H3 & H4 & H5).
  exists (cP s), (cP c), (map (option_map cS) outs).
  split; [rewrite cur_start_nat, H1; reflexivity|]. split; [rewrite cur_point_nat, H2; reflexivity|].
  assert (E : map cE pre' ++ ClosePath :: map cE post' = map cE (pre' ++ ClosePath :: post')).
  { rewrite map_app. reflexivity. }
  split; [rewrite E, (outs_from_nat0 cproj cproj_feqb), H3; reflexivity|].
  rewrite map_length, nth_map_opt, H4.
  assert (N : pt_neb c s = true <-> cP c <> cP s).
  { rewrite (pt_neb_true CF_eqP). split; [intros Hn Hq; apply Hn, cP_inj, Hq|intros Hn ->; apply Hn; reflexivity]. }
  split; [intros Hn; apply N in Hn; rewrite Hn; reflexivity|].
  split; [intros Heq; destruct (pt_neb c s) eqn:Q; [exfalso; apply (proj1 N eq_refl); exact Heq|reflexivity]|].
  split.
  - rewrite <- N. rewrite (pt_eqb_nat cproj cproj_feqb). unfold pt_neb. destruct (pt_eqb c s); cbn; split; congruence.
  - change [@ClosePath pfloat] with (map cE [ClosePath]). rewrite <- map_app, cur_point_nat, H5. reflexivity.
Qed.

Theorem f_rebuild_segments_any (segs : list FSeg) : Forall canon_seg segs ->
  segments (from_path_segments segs) = Some segs.
Proof.
  intros Hc. destruct (lift_list cS canon_seg lift_seg segs Hc) as [segs' <-].
  rewrite (from_path_segments_nat cproj cproj_feqb), (segments_nat cproj cproj_feqb),
          (@rebuild_segments_any cfloat CF CF_eqP segs'). reflexivity.
Qed.

(** the segments of a canonical path are canonical, so the rebuild theorem applies to [segments els] *)
Lemma cS_canon (s : PathSeg cfloat) : canon_seg (cS s).
Proof.
  destruct s as [[a b]|[a b c]|[a b c d]]; cbn [canon_seg mS l0 l1 q0 q1 q2 c0 c1 c2 c3];
    unfold canon_pt, mP; cbn [px py]; repeat split; exact (proj2_sig _).
Qed.
Theorem f_rebuild_segments (els : list FEl) (segs : list FSeg) : Forall canon_el els ->
  segments els = Some segs -> Forall canon_seg segs /\ segments (from_path_segments segs) = Some segs.
Proof.
  intros Hc Hseg. destruct (lift_list cE canon_el lift_el els Hc) as [els' <-].
  rewrite (segments_nat cproj cproj_feqb) in Hseg.
  destruct (segments els') as [segs'|]; [|discriminate]. injection Hseg as <-.
  assert (F : Forall canon_seg (map cS segs')).
  { apply Forall_forall. intros s Hin. apply in_map_iff in Hin. destruct Hin as [s' [<- _]]. apply cS_canon. }
  split; [exact F|apply f_rebuild_segments_any; exact F].
Qed.

(** * every non-NaN path (so -0 allowed), up to numerical equality
    The non-NaN numbers map to the reals by [xv] preserving the comparison; the real-instance theorems are
    pulled back along it. The conclusions are equalities of [xv]-images: same shape, and coordinates that are
    numerically equal ([xv x = xv y <-> F.same x y = true] for non-NaN x, y). *)
Definition nfloat : Type := {x : pfloat | PrimFloat.is_nan x = false}.
Definition nproj (x : nfloat) : pfloat := proj1_sig x.
Definition n0f : nfloat := exist _ 0%float eq_refl.
Definition NF : Scalar nfloat := eq_only_scalar nfloat n0f (fun x y => PrimFloat.eqb (nproj x) (nproj y)).
Definition nxv (x : nfloat) : R := xv (nproj x).
Lemma nproj_feqb : forall x y : nfloat, @feqb pfloat F64 (nproj x) (nproj y) = @feqb nfloat NF x y.
Proof. reflexivity. Qed.
Lemma nxv_feqb : forall x y : nfloat, @feqb R RS (nxv x) (nxv y) = @feqb nfloat NF x y.
Proof. intros [x Nx] [y Ny]. symmetry. apply (eqb_xv x y Nx Ny). Qed.

Definition nn_pt (p : Point pfloat) : Prop := nn (px p) /\ nn (py p).
Definition nn_el (e : PathEl pfloat) : Prop :=
  match e with
  | MoveTo p | LineTo p => nn_pt p
  | QuadTo a b => nn_pt a /\ nn_pt b
  | CurveTo a b c => nn_pt a /\ nn_pt b /\ nn_pt c
  | ClosePath => True
  end.
Definition nn_seg (s : PathSeg pfloat) : Prop :=
  match s with
  | SegLine l => nn_pt (l0 l) /\ nn_pt (l1 l)
  | SegQuad q => nn_pt (q0 q) /\ nn_pt (q1 q) /\ nn_pt (q2 q)
  | SegCubic c => nn_pt (c0 c) /\ nn_pt (c1 c) /\ nn_pt (c2 c) /\ nn_pt (c3 c)
  end.
Lemma nlift_pt p : nn_pt p -> exists q : Point nfloat, mP nproj q = p.
Proof. destruct p as [x y]. intros [Cx Cy]. exists (mkPoint (exist _ x Cx) (exist _ y Cy)). reflexivity. Qed.
Lemma nlift_el e : nn_el e -> exists e' : PathEl nfloat, mE nproj e' = e.
Proof.
  destruct e as [p|p|a b|a b c|]; cbn [nn_el].
  - intros H. destruct (nlift_pt p H) as [q <-]. exists (MoveTo q). reflexivity.
  - intros H. destruct (nlift_pt p H) as [q <-]. exists (LineTo q). reflexivity.
  - intros [Ha Hb]. destruct (nlift_pt a Ha) as [a' <-], (nlift_pt b Hb) as [b' <-]. exists (QuadTo a' b'). reflexivity.
  - intros (Ha & Hb & Hc). destruct (nlift_pt a Ha) as [a' <-], (nlift_pt b Hb) as [b' <-], (nlift_pt c Hc) as [c' <-].
    exists (CurveTo a' b' c'). reflexivity.
  - intros _. exists ClosePath. reflexivity.
Qed.
Lemma nlift_seg s : nn_seg s -> exists s' : PathSeg nfloat, mS nproj s' = s.
Proof.
  destruct s as [[a b]|[a b c]|[a b c d]]; cbn [nn_seg l0 l1 q0 q1 q2 c0 c1 c2 c3].
  - intros [Ha Hb]. destruct (nlift_pt a Ha) as [a' <-], (nlift_pt b Hb) as [b' <-].
    exists (SegLine (mkLine a' b')). reflexivity.
  - intros (Ha & Hb & Hc). destruct (nlift_pt a Ha) as [a' <-], (nlift_pt b Hb) as [b' <-], (nlift_pt c Hc) as [c' <-].
    exists (SegQuad (mkQuad a' b' c')). reflexivity.
  - intros (Ha & Hb & Hc & Hd).
    destruct (nlift_pt a Ha) as [a' <-], (nlift_pt b Hb) as [b' <-], (nlift_pt c Hc) as [c' <-], (nlift_pt d Hd) as [d' <-].
    exists (SegCubic (mkCubic a' b' c' d')). reflexivity.
Qed.
(** the composite map nfloat -> float -> R *)
Lemma mS_comp (s : PathSeg nfloat) : mS xv (mS nproj s) = mS nxv s.
Proof. destruct s as [[a b]|[a b c]|[a b c d]]; reflexivity. Qed.
Lemma mE_comp (e : PathEl nfloat) : mE xv (mE nproj e) = mE nxv e.
Proof. destruct e; reflexivity. Qed.
Lemma opt_mS_comp (o : option (PathSeg nfloat)) : option_map (mS xv) (option_map (mS nproj) o) = option_map (mS nxv) o.
Proof. destruct o; [cbn; rewrite mS_comp|]; reflexivity. Qed.

Theorem f_get_seg_req_spec_nn (els : list FEl) : Forall nn_el els -> starts_with_moveto els ->
  exists outs, outs_from None els = Some outs /\
               segments els = Some (cat_somes outs) /\
               length outs = length els /\
               forall i, option_map (mS xv) (get_seg_req els i) = option_map (mS xv) (nth i outs None).
Proof.
  intros Hc Hs. destruct (lift_list (mE nproj) nn_el nlift_el els Hc) as [els' <-].
  apply (starts_with_moveto_nat nproj) in Hs.
  assert (HsR : starts_with_moveto (map (mE nxv) els')) by (apply (starts_with_moveto_nat nxv); exact Hs).
  destruct (get_seg_req_spec pt_eqb_RS (map (mE nxv) els') HsR) as (outsR & R1 & R2 & R3 & R4).
  rewrite (outs_from_nat0 nxv nxv_feqb els') in R1.
  destruct (outs_from None els') as [outs|] eqn:E; [|discriminate R1]. cbn [option_map] in R1. injection R1 as <-.
  exists (map (option_map (mS nproj)) outs).
  split; [rewrite (outs_from_nat0 nproj nproj_feqb els'), E; reflexivity|].
  split.
  { rewrite (segments_nat nproj nproj_feqb els'), cat_somes_nat.
    unfold segments. rewrite (segs_outs els' None), E. reflexivity. }
  split; [rewrite !map_length in *; exact R3|].
  intros i. rewrite (get_seg_req_nat nproj nproj_feqb els' i), nth_map_opt, !opt_mS_comp.
  rewrite <- (get_seg_req_nat nxv nxv_feqb els' i), R4, nth_map_opt. reflexivity.
Qed.

Theorem f_rebuild_segments_nn (segs : list FSeg) : Forall nn_seg segs ->
  option_map (map (mS xv)) (segments (from_path_segments segs)) = Some (map (mS xv) segs).
Proof.
  intros Hc. destruct (lift_list (mS nproj) nn_seg nlift_seg segs Hc) as [segs' <-].
  rewrite (from_path_segments_nat nproj nproj_feqb), (segments_nat nproj nproj_feqb).
  pose proof (rebuild_segments_any pt_eqb_RS (map (mS nxv) segs')) as Rb.
  rewrite (from_path_segments_nat nxv nxv_feqb), (segments_nat nxv nxv_feqb) in Rb.
  destruct (segments (from_path_segments segs')) as [l|]; [|discriminate Rb]. cbn [option_map] in *.
  injection Rb as Rb. f_equal. rewrite !map_map.
  rewrite (map_ext _ _ mS_comp l), (map_ext _ _ mS_comp segs'). exact Rb.
Qed.

(** what equality of [xv]-images means: numerically equal coordinates *)
Lemma xv_image_same x y : nn x -> nn y -> (xv x = xv y <-> F.same x y = true).
Proof. intros Nx Ny. rewrite (same_xv x y Nx Ny). symmetry. apply Reqb_true. Qed.

Lemma vocabulary (x y : pfloat) (p : Point pfloat) :
  (canon x <-> negb (PrimFloat.is_nan x) && negb (PrimFloat.is_zero x && PrimFloat.get_sign x) = true) /\
  (canon x -> canon y -> (PrimFloat.eqb x y = true <-> x = y)) /\
  (canon_pt p <-> canon (px p) /\ canon (py p)) /\
  (nn_pt p <-> PrimFloat.is_nan (px p) = false /\ PrimFloat.is_nan (py p) = false) /\
  (nn x -> nn y -> (xv x = xv y <-> F.same x y = true)).
Proof.
  split; [reflexivity|]. split; [apply canon_eqb|]. split; [reflexivity|]. split; [reflexivity|apply xv_image_same].
Qed.

(** * witnesses on binary64 *)
Local Open Scope float_scope.
(** a canonical path: +0, a subnormal, an infinity, the largest finite number; closed, then continued *)
Definition fpath : list FEl :=
  [MoveTo (mkPoint 0 1); LineTo (mkPoint 0x1p-1074 infinity); QuadTo (mkPoint 2 3) (mkPoint 0x1.fffffffffffffp+1023 (-5));
   ClosePath; LineTo (mkPoint 7 8); ClosePath; ClosePath].
Lemma canon_dec_el (e : FEl) :
  (match e with
   | MoveTo p | LineTo p => canonb (px p) && canonb (py p)
   | QuadTo a b => (canonb (px a) && canonb (py a)) && (canonb (px b) && canonb (py b))
   | CurveTo a b c => (canonb (px a) && canonb (py a)) && ((canonb (px b) && canonb (py b)) && (canonb (px c) && canonb (py c)))
   | ClosePath => true
   end) = true -> canon_el e.
Proof.
  destruct e; cbn [canon_el]; unfold canon_pt, canon; rewrite ?andb_true_iff; tauto.
Qed.
Lemma fpath_canon : Forall canon_el fpath /\ starts_with_moveto fpath.
Proof. split; [|exact I]. repeat constructor; apply canon_dec_el; vm_compute; reflexivity. Qed.

(** -0 breaks bit-level agreement (and only bit-level): after a ClosePath that finds the current point
    (-0,0) "equal" to the start (+0,0), [segments] continues from (-0,0) but [get_seg] from the start (+0,0) *)
Definition zpath : list FEl :=
  [MoveTo (mkPoint 0 0); LineTo (mkPoint 1 0); LineTo (mkPoint (-0) 0); ClosePath; LineTo (mkPoint 2 2)].
Definition seg_start_x (o : option FSeg) : pfloat := match o with Some s => px (seg_start s) | None => nan end.
Lemma zpath_negzero :
  exists outs, outs_from None zpath = Some outs /\
    seg_start_x (nth 4 outs None) = (-0) /\ seg_start_x (get_seg_req zpath 4) = 0 /\
    F.same (seg_start_x (nth 4 outs None)) (seg_start_x (get_seg_req zpath 4)) = true /\
    F.same_bits (seg_start_x (nth 4 outs None)) (seg_start_x (get_seg_req zpath 4)) = false.
Proof. eexists. split; [vm_compute; reflexivity|]. vm_compute. repeat split. Qed.
(** ... and the rebuild: the second segment's stored start +0 is replaced by the first one's end -0 *)
Definition zsegs : list FSeg :=
  [SegLine (mkLine (mkPoint 1 1) (mkPoint (-0) 0)); SegLine (mkLine (mkPoint 0 0) (mkPoint 2 2))].
Lemma zsegs_negzero :
  exists segs', segments (from_path_segments zsegs) = Some segs' /\
    seg_start_x (nth_error segs' 1) = (-0) /\ seg_start_x (nth_error zsegs 1) = 0 /\
    length (from_path_segments zsegs) = 3%nat.
Proof. eexists. split; [vm_compute; reflexivity|]. vm_compute. repeat split. Qed.
(** NaN: a point with a NaN coordinate differs from itself, so a ClosePath right after its own MoveTo emits
    a (NaN) closing line *)
Lemma nan_closepath :
  segments [MoveTo (mkPoint nan 0); ClosePath] = Some [SegLine (mkLine (mkPoint nan 0) (mkPoint nan 0))].
Proof. vm_compute. reflexivity. Qed.
