(** C16: the endpoint-to-centre conversion of [Arc::from_svg_arc] in exact real arithmetic
    ([frem] = [Rrem], the truncated remainder). *)
From Coq Require Import ZArith QArith Reals List Bool Lra Lia Psatz.
From Flocq Require Import Core.Raux.
From KV Require Import Scalar RInst RTac Geom Curves Path ShapeTypes Svg SvgNum.
Import ListNotations.
Local Open Scope R_scope.

(** ** algebra of F.6.5.2 / F.6.5.3, for arbitrary real inputs *)

Lemma sqr_abs x : Rabs x * Rabs x = x * x.
Proof. unfold Rabs. destruct (Rcase_abs x); ring. Qed.

Lemma div_nonneg a b : 0 <= a -> 0 < b -> 0 <= a / b.
Proof. intros Ha Hb. unfold Rdiv. apply Rmult_le_pos; auto. left. apply Rinv_0_lt_compat; auto. Qed.
Lemma sq_pos x : x <> 0 -> 0 < x * x.
Proof. intros Hx. destruct (Rtotal_order x 0) as [?|[?|?]]; nra. Qed.

Section Geom.
Variables C S qx qy hsx hsy rx ry : R.
Variable neg : bool.
Hypothesis Hrx : rx <> 0.
Hypothesis Hry : ry <> 0.

Let g := @arc_geom R _ C S qx qy hsx hsy rx ry neg.
Let sum_of_sq := fst (fst (fst (fst (fst g)))).
Let coe := snd (fst (fst (fst (fst g)))).
Let center := snd (fst (fst g)).
Let sv := snd (fst g).
Let ev := snd g.

(** the two points of the ellipse given by the vectors are  mid + R(phi) p  and  mid - R(phi) p *)
Lemma geom_chord :
  px center + (C * (rx * vx sv) - S * (ry * vy sv)) = C * qx - S * qy + hsx /\
  py center + (S * (rx * vx sv) + C * (ry * vy sv)) = S * qx + C * qy + hsy /\
  px center + (C * (rx * vx ev) - S * (ry * vy ev)) = - (C * qx - S * qy) + hsx /\
  py center + (S * (rx * vx ev) + C * (ry * vy ev)) = - (S * qx + C * qy) + hsy.
Proof.
  unfold center, sv, ev, g, arc_geom. cbn [fst snd px py vx vy]. rs_unfold.
  repeat split; field; auto.
Qed.

(** with rf' = (qx/rx)^2 + (qy/ry)^2 for the final radii: both vectors have squared length
    rf' + |1 - rf'| — one when rf' <= 1 *)
Lemma geom_unit : sum_of_sq <> 0 ->
  let rf' := qx * qx / (rx * rx) + qy * qy / (ry * ry) in
  rf' <= 1 ->
  vx sv * vx sv + vy sv * vy sv = 1 /\ vx ev * vx ev + vy ev * vy ev = 1.
Proof.
  intros Hss rf' Hrf. revert Hss.
  unfold sum_of_sq, sv, ev, g, arc_geom. cbn [fst snd vx vy]. rs_unfold. intros Hss.
  set (B := rx * qy * (rx * qy) + ry * qx * (ry * qx)) in *.
  set (A := rx * ry * (rx * ry) - B).
  assert (HB : B = rx * rx * (ry * ry) * rf') by (unfold B, rf'; field; auto).
  assert (Hrf0 : 0 < rf').
  { assert (0 <= rf') by (unfold rf'; apply Rplus_le_le_0_compat; apply div_nonneg; try apply sq_pos; auto; nra).
    destruct (Req_dec rf' 0) as [E|E]; [|lra]. rewrite E in HB. exfalso. apply Hss. rewrite HB. ring. }
  assert (Hq : A / B = (1 - rf') / rf').
  { unfold A. rewrite HB. field. repeat split; auto; lra. }
  assert (Hq0 : 0 <= A / B) by (rewrite Hq; apply div_nonneg; lra).
  set (k := (if neg then - IZR 1 else IZR 1) * sqrt (Rabs (A / B))).
  assert (Hk : k * k = A / B).
  { unfold k. rewrite (Rabs_pos_eq _ Hq0).
    replace ((if neg then - IZR 1 else IZR 1) * sqrt (A / B) * ((if neg then - IZR 1 else IZR 1) * sqrt (A / B)))
      with (sqrt (A / B) * sqrt (A / B)) by (destruct neg; ring).
    apply sqrt_sqrt; auto. }
  assert (Hsum : forall sx sy : R, (sx * sx = 1) -> (sy * sy = 1) ->
     ((sx * qx - k * (rx * qy) / ry) / rx) * ((sx * qx - k * (rx * qy) / ry) / rx)
     + ((sy * qy - - k * (ry * qx) / rx) / ry) * ((sy * qy - - k * (ry * qx) / rx) / ry)
     = rf' * (1 + k * k) + 2 * k * (qx * qy / (rx * ry)) * (sy - sx)).
  { intros sx sy Hsx Hsy. unfold rf'. field_simplify_eq; auto.
    replace (sx ^ 2) with 1 by (simpl; lra). replace (sy ^ 2) with 1 by (simpl; lra). ring. }
  split.
  - pose proof (Hsum 1 1 ltac:(ring) ltac:(ring)) as E. rewrite !Rmult_1_l in E. rewrite E, Hk, Hq.
    field. lra.
  - pose proof (Hsum (-1) (-1) ltac:(ring) ltac:(ring)) as E.
    replace (-1 * qx) with (- qx) in E by ring. replace (-1 * qy) with (- qy) in E by ring.
    rewrite E, Hk, Hq. field. lra.
Qed.

(** the cross product of the two vectors is 2 * coe * rf': its sign is the sign chosen in F.6.5.2 *)
Lemma geom_cross :
  vx sv * vy ev - vy sv * vx ev = 2 * coe * (qx * qx / (rx * rx) + qy * qy / (ry * ry)) /\
  vx sv - vx ev = 2 * qx / rx /\ vy sv - vy ev = 2 * qy / ry /\
  (if neg then coe <= 0 else 0 <= coe) /\
  sum_of_sq = rx * qy * (rx * qy) + ry * qx * (ry * qx).
Proof.
  unfold coe, sv, ev, sum_of_sq, g, arc_geom. cbn [fst snd vx vy]. rs_unfold.
  repeat split; try (field; auto).
  pose proof (sqrt_pos (Rabs ((rx * ry * (rx * ry) - (rx * qy * (rx * qy) + ry * qx * (ry * qx))) /
                              (rx * qy * (rx * qy) + ry * qx * (ry * qx))))).
  destruct neg; nra.
Qed.

End Geom.

(** ** F.6.6.2: the corrected radii reach the chord *)
Lemma scale_radii_spec (qx qy rx ry : R) : rx <> 0 -> ry <> 0 ->
  let rf := qx * qx / (rx * rx) + qy * qy / (ry * ry) in
  let r' := @scale_radii R _ rx ry rf in
  (rf <= 1 -> r' = (rx, ry)) /\
  (1 < rf -> r' = (rx * sqrt rf, ry * sqrt rf)) /\
  fst r' <> 0 /\ snd r' <> 0 /\
  qx * qx / (fst r' * fst r') + qy * qy / (snd r' * snd r') <= 1.
Proof.
  intros Hrx Hry rf r'. unfold r', scale_radii. rs_unfold.
  assert (Hrf0 : 0 <= rf) by (unfold rf; apply Rplus_le_le_0_compat; apply div_nonneg; try apply sq_pos; auto; nra).
  destruct (Rltb_spec 1 rf) as [Hlt|Hle].
  - assert (Hs : sqrt rf * sqrt rf = rf) by (apply sqrt_sqrt; auto).
    assert (Hs0 : sqrt rf <> 0) by (intros E; rewrite E in Hs; lra).
    split; [intros; lra|]. split; [reflexivity|]. cbn [fst snd].
    split; [apply Rmult_integral_contrapositive; auto|]. split; [apply Rmult_integral_contrapositive; auto|].
    replace (qx * qx / (rx * sqrt rf * (rx * sqrt rf)) + qy * qy / (ry * sqrt rf * (ry * sqrt rf)))
      with (rf / (sqrt rf * sqrt rf)) by (unfold rf; field; auto).
    rewrite Hs. right. field. lra.
  - split; [reflexivity|]. split; [intros; lra|]. cbn [fst snd]. repeat split; auto. fold rf. lra.
Qed.

(** ** remainder and periodicity *)
Lemma Rrem_eq x y : exists k : Z, Rrem x y = x - y * IZR k.
Proof. eexists. reflexivity. Qed.

Lemma Rrem_range x y : 0 < y -> - y < Rrem x y < y.
Proof.
  intros Hy. unfold Rrem, Ztrunc.
  assert (Hxy : x = y * (x / y)) by (field; lra).
  destruct (Rlt_bool_spec (x / y) 0) as [Hq|Hq].
  - pose proof (Zceil_ub (x / y)) as H1. pose proof (Zceil_lb (x / y)) as H2.
    assert (y * IZR (Zceil (x / y)) < y * (x / y + 1)) by (apply Rmult_lt_compat_l; lra).
    assert (y * (x / y) <= y * IZR (Zceil (x / y))) by (apply Rmult_le_compat_l; lra).
    lra.
  - pose proof (Zfloor_lb (x / y)) as H1. pose proof (Zfloor_ub (x / y)) as H2.
    assert (y * IZR (Zfloor (x / y)) <= y * (x / y)) by (apply Rmult_le_compat_l; lra).
    assert (y * (x / y) < y * (IZR (Zfloor (x / y)) + 1)) by (apply Rmult_lt_compat_l; lra).
    lra.
Qed.

Lemma trig_period_nat x (n : nat) :
  sin (x + INR n * (2 * PI)) = sin x /\ cos (x + INR n * (2 * PI)) = cos x.
Proof.
  replace (x + INR n * (2 * PI)) with (x + 2 * INR n * PI) by ring.
  split; [apply sin_period|apply cos_period].
Qed.

Lemma trig_period x (k : Z) :
  sin (x + IZR k * (2 * PI)) = sin x /\ cos (x + IZR k * (2 * PI)) = cos x.
Proof.
  destruct (Z_le_gt_dec 0 k) as [Hk|Hk].
  - rewrite <- (Z2Nat.id k Hk), <- INR_IZR_INZ. apply trig_period_nat.
  - assert (Hk' : (0 <= - k)%Z) by lia.
    destruct (trig_period_nat (x + IZR k * (2 * PI)) (Z.to_nat (- k))) as [Hs Hc].
    rewrite INR_IZR_INZ, (Z2Nat.id _ Hk'), opp_IZR in Hs, Hc.
    replace (x + IZR k * (2 * PI) + - IZR k * (2 * PI)) with x in Hs, Hc by ring.
    split; congruence.
Qed.

Lemma two_pi_R : @two_pi R _ = 2 * PI.
Proof. unfold two_pi. rs_unfold. reflexivity. Qed.

(** the sweep angle: the requested direction, less than a full turn, and congruent to the
    difference of the two angles *)
Lemma sweep_of_spec (sw : bool) (a b : R) :
  let s := @sweep_of R _ Rrem sw a b in
  (if sw then 0 <= s < 2 * PI else - (2 * PI) < s <= 0) /\
  exists k : Z, s = (b - a) + IZR k * (2 * PI).
Proof.
  intros s. unfold s, sweep_of. rewrite two_pi_R. rs_unfold.
  assert (Hpi : 0 < 2 * PI) by (pose proof PI_RGT_0; lra).
  pose proof (Rrem_range (b - a) (2 * PI) Hpi) as Hr.
  destruct (Rrem_eq (b - a) (2 * PI)) as (k & Hk).
  destruct sw; cbn [andb negb].
  - destruct (Rltb_spec (Rrem (b - a) (2 * PI)) 0).
    + split; [lra|]. exists (1 - k)%Z. rewrite Hk, minus_IZR. ring.
    + split; [lra|]. exists (- k)%Z. rewrite Hk, opp_IZR. ring.
  - destruct (Rltb_spec 0 (Rrem (b - a) (2 * PI))).
    + split; [lra|]. exists (- 1 - k)%Z. rewrite Hk, minus_IZR. ring.
    + split; [lra|]. exists (- k)%Z. rewrite Hk, opp_IZR. ring.
Qed.

(** ** atan2 of a unit vector *)
Lemma atan2_unit x y : x * x + y * y = 1 -> cos (Ratan2 y x) = x /\ sin (Ratan2 y x) = y.
Proof.
  intros Hu. unfold Ratan2.
  assert (Hat : forall t, 0 < t -> x * x = t * t -> sqrt (1 + (y / x)²) = 1 / t).
  { intros t Ht Ex. assert (Hx : x <> 0) by (intros ->; nra).
    replace (1 + (y / x)²) with ((1 / t) * (1 / t)).
    - apply sqrt_square. apply div_nonneg; lra.
    - unfold Rsqr. field_simplify_eq; [|split; lra]. nra. }
  destruct (Rlt_dec 0 x) as [Hx|Hx].
  - rewrite cos_atan, sin_atan, (Hat x Hx eq_refl). split; field; lra.
  - destruct (Rlt_dec x 0) as [Hx'|Hx'].
    + assert (Ht : sqrt (1 + (y / x)²) = 1 / (- x)) by (apply Hat; [lra|ring]).
      destruct (Rle_dec 0 y).
      * rewrite cos_plus, sin_plus, cos_PI, sin_PI, cos_atan, sin_atan, Ht. split; field; lra.
      * rewrite cos_minus, sin_minus, cos_PI, sin_PI, cos_atan, sin_atan, Ht. split; field; lra.
    + assert (x = 0) by lra. subst x.
      destruct (Rlt_dec 0 y); [|destruct (Rlt_dec y 0)].
      * rewrite cos_PI2, sin_PI2. split; nra.
      * rewrite cos_neg, sin_neg, cos_PI2, sin_PI2. split; nra.
      * exfalso. nra.
Qed.

(** the sign of the sine decides on which side of a half turn an angle of less than a full turn lies *)
Lemma sin_sign_range s : s <> 0 ->
  (0 <= s < 2 * PI -> sin s <= 0 -> PI <= s) /\
  (0 <= s < 2 * PI -> 0 <= sin s -> s <= PI) /\
  (- (2 * PI) < s <= 0 -> sin s <= 0 -> - PI <= s) /\
  (- (2 * PI) < s <= 0 -> 0 <= sin s -> s <= - PI).
Proof.
  intros Hs. pose proof PI_RGT_0 as Hpi. repeat split; intros Hr Hsin.
  - destruct (Rle_or_lt PI s); auto. pose proof (sin_gt_0 s ltac:(lra) ltac:(lra)). lra.
  - destruct (Rle_or_lt s PI); auto. pose proof (sin_lt_0 s ltac:(lra) ltac:(lra)). lra.
  - destruct (Rle_or_lt (- PI) s); auto.
    destruct (trig_period s 1) as (E & _). pose proof (sin_gt_0 (s + 1 * (2 * PI)) ltac:(lra) ltac:(lra)). lra.
  - destruct (Rle_or_lt s (- PI)); auto.
    pose proof (sin_gt_0 (- s) ltac:(lra) ltac:(lra)) as Hn. rewrite sin_neg in Hn. lra.
Qed.

Lemma prod_sign c r : 0 < r -> (c <= 0 -> 2 * c * r <= 0) /\ (0 <= c -> 0 <= 2 * c * r).
Proof. intros; split; intros; nra. Qed.

(** ** the arc object computed for an SVG arc *)
Definition arc_point (arc : Arc R) (theta : R) : Point R :=
  pt_add_v (arc_center arc) (sample_ellipse (arc_radii arc) (arc_x_rotation arc) theta).

Lemma lit_1em5_pos : 0 < @lit_1em5 R _.
Proof. unfold lit_1em5. rs_unfold. cbv [Q2R Qnum Qden]. lra. Qed.

Theorem from_svg_arc_real (a : SvgArc) (arc : Arc R) : from_svg_arc Rrem true a = Some arc ->
  arc_point arc (arc_start_angle arc) = sa_from a /\
  arc_point arc (arc_start_angle arc + arc_sweep_angle arc) = sa_to a /\
  (if sa_sweep a then 0 <= arc_sweep_angle arc < 2 * PI else - (2 * PI) < arc_sweep_angle arc <= 0) /\
  arc_x_rotation arc = sa_x_rotation a /\
  (* the long way round iff large-arc *)
  arc_sweep_angle arc <> 0 /\
  (if sa_large_arc a then PI <= Rabs (arc_sweep_angle arc) else Rabs (arc_sweep_angle arc) <= PI) /\
  (* the radii: those requested, scaled up by a common factor >= 1 when too small for the chord *)
  (exists s, 1 <= s /\ vx (arc_radii arc) = Rabs (vx (sa_radii a)) * s /\ vy (arc_radii arc) = Rabs (vy (sa_radii a)) * s).
Proof.
  destruct a as [[fx fy] [tx ty] [rx0 ry0] xrot la sw].
  unfold from_svg_arc. cbn [sa_from sa_to sa_radii sa_x_rotation sa_large_arc sa_sweep].
  destruct (is_straight_line _) eqn:Est; [discriminate|].
  unfold is_straight_line in Est. cbn [sa_from sa_to sa_radii vx vy] in Est.
  apply orb_false_iff in Est as [Est _]. apply orb_false_iff in Est as [Erx Ery].
  pose proof lit_1em5_pos as Hlit.
  apply (Rleb_false (Rabs rx0) lit_1em5) in Erx. apply (Rleb_false (Rabs ry0) lit_1em5) in Ery.
  assert (Hrx0 : Rabs rx0 <> 0) by lra. assert (Hry0 : Rabs ry0 <> 0) by lra.
  unfold svg_arc_core. cbn [sa_from sa_to sa_radii sa_x_rotation sa_large_arc sa_sweep px py vx vy].
  unfold two_pi. rs_unfold. cbv [Q2R Qnum Qden].
  set (xr := Rrem xrot (2 * PI)).
  set (C := cos xr). set (S := sin xr).
  set (hdx := (fx - tx) * (IZR 1 * / IZR 2)). set (hdy := (fy - ty) * (IZR 1 * / IZR 2)).
  set (hsx := (fx + tx) * (IZR 1 * / IZR 2)). set (hsy := (fy + ty) * (IZR 1 * / IZR 2)).
  set (qx := C * hdx + S * hdy). set (qy := - S * hdx + C * hdy).
  set (rf := qx * qx / (Rabs rx0 * Rabs rx0) + qy * qy / (Rabs ry0 * Rabs ry0)).
  destruct (scale_radii_spec qx qy (Rabs rx0) (Rabs ry0) Hrx0 Hry0) as (Hs1 & Hs2 & Hr1 & Hr2 & Hrf').
  fold rf in Hs1, Hs2, Hr1, Hr2, Hrf'.
  destruct (scale_radii (Rabs rx0) (Rabs ry0) rf) as [rx' ry'] eqn:Esc. cbn [fst snd] in Hr1, Hr2, Hrf'.
  pose proof (geom_chord C S qx qy hsx hsy rx' ry' (Bool.eqb la sw) Hr1 Hr2) as Hchord.
  pose proof (geom_unit C S qx qy hsx hsy rx' ry' (Bool.eqb la sw) Hr1 Hr2) as Hunit.
  destruct (arc_geom C S qx qy hsx hsy rx' ry' (Bool.eqb la sw)) as [[[[[ss coe] tc] center] sv] ev] eqn:Eg.
  cbn [fst snd] in Hchord, Hunit. cbn [ac_sum_of_sq ac_center ac_rx ac_ry ac_start_v ac_end_v].
  destruct (Reqb_spec ss (IZR 0)) as [Hss|Hss]; [discriminate|]. cbn [andb].
  intros E; inversion E; subst arc; clear E.
  cbn [arc_center arc_radii arc_start_angle arc_sweep_angle arc_x_rotation].
  destruct (Hunit Hss Hrf') as (Usv & Uev).
  destruct (atan2_unit _ _ Usv) as (Cs & Ss). destruct (atan2_unit _ _ Uev) as (Ce & Se).
  (* rotation angle: sin/cos of x_rotation are those of its remainder *)
  destruct (Rrem_eq xrot (2 * PI)) as (k & Hk).
  assert (HCS : cos xrot = C /\ sin xrot = S).
  { destruct (trig_period xrot (- k)) as (Hsn & Hcs). unfold C, S, xr. rewrite Hk.
    replace (xrot - 2 * PI * IZR k) with (xrot + IZR (- k) * (2 * PI)) by (rewrite opp_IZR; ring). auto. }
  destruct HCS as (HC & HS).
  assert (Hcs1 : C * C + S * S = 1) by (unfold C, S; rewrite Rplus_comm; apply sin2_cos2).
  destruct Hchord as (H1 & H2 & H3 & H4).
  match goal with |- context [@sweep_of ?T0 ?I0 ?f0 ?s0 ?a0 ?b0] =>
    pose proof (sweep_of_spec s0 a0 b0) as (Hdir & (m & Hm)); cbv zeta in Hdir;
    change (@sweep_of R _ Rrem s0 a0 b0) with (@sweep_of T0 I0 f0 s0 a0 b0) in Hdir, Hm;
    set (swp := @sweep_of T0 I0 f0 s0 a0 b0) in *
  end.
  pose proof (geom_cross C S qx qy hsx hsy rx' ry' (Bool.eqb la sw) Hr1 Hr2) as Hcross.
  rewrite Eg in Hcross. cbn [fst snd] in Hcross. destruct Hcross as (Hx & Dx & Dy & Hsign & Hsseq).
  assert (Hsin : sin swp = vx sv * vy ev - vy sv * vx ev).
  { rewrite Hm. destruct (trig_period (Ratan2 (vy ev) (vx ev) - Ratan2 (vy sv) (vx sv)) m) as (-> & _).
    rewrite sin_minus, Cs, Ss, Ce, Se. ring. }
  set (rf2 := qx * qx / (rx' * rx') + qy * qy / (ry' * ry')) in *.
  assert (Hrf2 : 0 < rf2).
  { assert (Ess : ss = rx' * rx' * (ry' * ry') * rf2) by (rewrite Hsseq; unfold rf2; field; auto).
    assert (0 <= rf2) by (unfold rf2; apply Rplus_le_le_0_compat; apply div_nonneg; try apply sq_pos; auto; nra).
    destruct (Req_dec rf2 0) as [E0|E0]; [|lra]. exfalso. apply Hss. rewrite Ess, E0. ring. }
  assert (Hne : swp <> 0).
  { intros E0. rewrite E0 in Hm.
    assert (Eang : Ratan2 (vy ev) (vx ev) = Ratan2 (vy sv) (vx sv) + IZR (- m) * (2 * PI)) by (rewrite opp_IZR; lra).
    destruct (trig_period (Ratan2 (vy sv) (vx sv)) (- m)) as (Es1 & Ec1). rewrite <- Eang, Cs, Ce in Ec1.
    rewrite <- Eang, Ss, Se in Es1.
    assert (Hqx : qx = 0) by (apply (Rmult_eq_reg_l (2 / rx')); [|apply Rmult_integral_contrapositive; split; [lra|apply Rinv_neq_0_compat; auto]];
                        replace (2 / rx' * qx) with (2 * qx / rx') by (field; auto); rewrite <- Dx, Ec1; ring).
    assert (Hqy : qy = 0) by (apply (Rmult_eq_reg_l (2 / ry')); [|apply Rmult_integral_contrapositive; split; [lra|apply Rinv_neq_0_compat; auto]];
                        replace (2 / ry' * qy) with (2 * qy / ry') by (field; auto); rewrite <- Dy, Es1; ring).
    apply Hss. rewrite Hsseq, Hqx, Hqy. ring. }
  destruct (sin_sign_range swp Hne) as (R1 & R2 & R3 & R4).
  assert (Hlarge : if la then PI <= Rabs swp else Rabs swp <= PI).
  { rewrite Hsin, Hx in R1, R2, R3, R4. pose proof PI_RGT_0 as Hpi.
    destruct (prod_sign coe rf2 Hrf2) as (Pneg & Ppos).
    destruct la, sw; cbn [Bool.eqb] in Hsign.
    - rewrite Rabs_pos_eq by (clear - Hdir; lra). apply R1; auto.
    - rewrite Rabs_left1 by (clear - Hdir; lra). assert (swp <= - PI) by (apply R4; auto). clear - H; lra.
    - rewrite Rabs_pos_eq by (clear - Hdir; lra). apply R2; auto.
    - rewrite Rabs_left1 by (clear - Hdir; lra). assert (- PI <= swp) by (apply R3; auto). clear - H; lra. }
  split; [|split; [|split; [exact Hdir|split; [reflexivity|split; [exact Hne|split; [exact Hlarge|]]]]]].
  - unfold arc_point, sample_ellipse, rotate_pt, pt_add_v. cbn [px py vx vy arc_center arc_radii arc_x_rotation].
    rs_unfold. rewrite HC, HS, Cs, Ss. f_equal.
    + replace fx with (C * qx - S * qy + hsx). rewrite <- H1. ring.
      unfold qx, qy, hdx, hsx. replace (C * (C * ((fx - tx) * (IZR 1 * / IZR 2)) + S * hdy) - S * (- S * ((fx - tx) * (IZR 1 * / IZR 2)) + C * hdy))
        with ((C * C + S * S) * ((fx - tx) * (1 * / 2))) by ring. rewrite Hcs1. field.
    + replace fy with (S * qx + C * qy + hsy). rewrite <- H2. ring.
      unfold qx, qy, hdy, hsy. replace (S * (C * hdx + S * ((fy - ty) * (IZR 1 * / IZR 2))) + C * (- S * hdx + C * ((fy - ty) * (IZR 1 * / IZR 2))))
        with ((C * C + S * S) * ((fy - ty) * (1 * / 2))) by ring. rewrite Hcs1. field.
  - unfold arc_point, sample_ellipse, rotate_pt, pt_add_v. cbn [px py vx vy arc_center arc_radii arc_x_rotation].
    rs_unfold. rewrite HC, HS.
    rewrite Hm.
    match goal with |- context [cos (?a + (?b - ?a + ?c))] => replace (a + (b - a + c)) with (b + c) by ring end.
    destruct (trig_period (Ratan2 (vy ev) (vx ev)) m) as (-> & ->). rewrite Ce, Se. f_equal.
    + replace tx with (- (C * qx - S * qy) + hsx). rewrite <- H3. ring.
      unfold qx, qy, hdx, hsx. replace (C * (C * ((fx - tx) * (IZR 1 * / IZR 2)) + S * hdy) - S * (- S * ((fx - tx) * (IZR 1 * / IZR 2)) + C * hdy))
        with ((C * C + S * S) * ((fx - tx) * (1 * / 2))) by ring. rewrite Hcs1. field.
    + replace ty with (- (S * qx + C * qy) + hsy). rewrite <- H4. ring.
      unfold qx, qy, hdy, hsy. replace (S * (C * hdx + S * ((fy - ty) * (IZR 1 * / IZR 2))) + C * (- S * hdx + C * ((fy - ty) * (IZR 1 * / IZR 2))))
        with ((C * C + S * S) * ((fy - ty) * (1 * / 2))) by ring. rewrite Hcs1. field.
  - destruct (Rle_or_lt rf 1) as [Hle|Hgt].
    + pose proof (Hs1 Hle) as E. inversion E. exists 1. cbn [vx vy]. repeat split; try lra; ring.
    + pose proof (Hs2 Hgt) as E. inversion E. exists (sqrt rf). cbn [vx vy]. repeat split; auto.
      rewrite <- sqrt_1. apply sqrt_le_1_alt. lra.
Qed.

(** ** the cubics emitted for the arc end at the stated end point *)
Lemma arc_iter_last (n : nat) : forall center radii xr arm st p0 a0, n <> O ->
  exists p1 p2, last (@arc_iter R _ n center radii xr arm st p0 a0) ClosePath
                = CurveTo p1 p2 (pt_add_v center (sample_ellipse radii xr (a0 + INR n * st))).
Proof.
  induction n as [|k IH]; intros center radii xr arm st p0 a0 Hn; [congruence|].
  destruct k as [|k'].
  - cbn [arc_iter last]. do 2 eexists. do 3 f_equal. rs_unfold. cbn. ring.
  - change (arc_iter (S (S k')) center radii xr arm st p0 a0) with
      (CurveTo (pt_add_v center (v_add p0 (s_scale_v arm (sample_ellipse radii xr (fadd a0 frac_pi_2)))))
               (pt_add_v center (v_sub (sample_ellipse radii xr (fadd a0 st))
                                       (s_scale_v arm (sample_ellipse radii xr (fadd (fadd a0 st) frac_pi_2)))))
               (pt_add_v center (sample_ellipse radii xr (fadd a0 st)))
       :: arc_iter (S k') center radii xr arm st (sample_ellipse radii xr (fadd a0 st)) (fadd a0 st)).
    destruct (IH center radii xr arm st (sample_ellipse radii xr (fadd a0 st)) (fadd a0 st) ltac:(discriminate))
      as (p1 & p2 & E).
    exists p1, p2. cbn [last]. destruct (arc_iter (S k') _ _ _ _ _ _ _) eqn:Ei; [discriminate|].
    rewrite E. do 3 f_equal. rewrite (S_INR (S k')). rs_unfold. ring.
Qed.

Theorem arc_els_end (from to radii : Point R) (rot : R) (large sweep : bool) :
  el_end (last (arc_els Rrem true from to radii rot large sweep) ClosePath) = Some to.
Proof.
  unfold arc_els.
  destruct (from_svg_arc Rrem true _) as [arc|] eqn:Ea; [|reflexivity].
  destruct (from_svg_arc_real _ _ Ea) as (_ & Hend & _). cbn [sa_to] in Hend.
  unfold arc_cubics.
  set (nR := arc_n arc lit_tenth).
  assert (Hz : exists z, nR = IZR z) by (unfold nR, arc_n; eexists; reflexivity).
  destruct Hz as (z & Hz).
  change (fto_usize nR) with (Z.max 0 (Ztrunc nR)). rewrite Hz, Ztrunc_IZR.
  destruct (Z.to_nat (Z.max 0 z)) as [|k] eqn:En.
  - reflexivity.
  - match goal with |- context [arc_iter (S k) ?c ?r ?x ?a ?s ?p ?g] =>
      destruct (arc_iter_last (S k) c r x a s p g ltac:(discriminate)) as (p1 & p2 & E);
      destruct (arc_iter (S k) c r x a s p g) as [|e l] eqn:Ei; [discriminate|] end.
    rewrite E. cbn [el_end]. f_equal. rewrite <- Hend. unfold arc_point. do 2 f_equal.
    assert (Hzpos : (0 < z)%Z) by lia.
    assert (EINR : INR (S k) = IZR z) by (rewrite <- En, INR_IZR_INZ, Z2Nat.id by lia; f_equal; lia).
    rewrite EINR. change (fdiv (arc_sweep_angle arc) (IZR z)) with (arc_sweep_angle arc / IZR z).
    field. apply not_0_IZR. lia.
Qed.

(** non-vacuity: the half circle from (0,0) to (2,0) with radii 1,1 is an arc *)
Lemma Rrem_0 y : Rrem 0 y = 0.
Proof. unfold Rrem. replace (0 / y) with 0 by (unfold Rdiv; ring). rewrite Ztrunc_IZR. ring. Qed.

Example arc_example :
  exists arc, from_svg_arc Rrem true (mkSvgArc (mkPoint 0 0) (mkPoint 2 0) (mkVec2 1 1) 0 false true) = Some arc.
Proof.
  pose proof lit_1em5_pos as Hlit. assert (Hlt : @lit_1em5 R _ < 1) by (unfold lit_1em5; rs_unfold; cbv [Q2R Qnum Qden]; lra).
  unfold from_svg_arc.
  assert (Est : is_straight_line (mkSvgArc (mkPoint 0 0) (mkPoint 2 0) (mkVec2 1 1) 0 false true) = false).
  { unfold is_straight_line, pt_eqb. cbn [sa_from sa_to sa_radii vx vy px py].
    apply orb_false_iff; split; [apply orb_false_iff; split|].
    - apply (Rleb_false (Rabs 1) lit_1em5). rewrite Rabs_R1. lra.
    - apply (Rleb_false (Rabs 1) lit_1em5). rewrite Rabs_R1. lra.
    - apply andb_false_iff. left. apply (Reqb_false 0 2). lra. }
  rewrite Est.
  match goal with |- context [ac_sum_of_sq ?c] => set (cc := c) end.
  assert (Hss : ac_sum_of_sq cc = 1).
  { unfold cc, svg_arc_core. cbn [sa_from sa_to sa_radii sa_x_rotation sa_large_arc sa_sweep px py vx vy].
    unfold two_pi, scale_radii, arc_geom. rs_unfold. cbv [Q2R Qnum Qden].
    rewrite Rrem_0, cos_0, sin_0, Rabs_R1.
    match goal with |- context [Rltb 1 ?x] => replace x with 1 by field end.
    destruct (Rltb_spec 1 1) as [Hc|Hc]; [exfalso; lra|]. cbn [ac_sum_of_sq]. field. }
  assert (Eb : feqb (ac_sum_of_sq cc) f0 = false) by (apply (Reqb_false (ac_sum_of_sq cc) 0); rewrite Hss; lra).
  rewrite Eb. cbn [andb]. eexists. reflexivity.
Qed.
